(* C06: at every delivery the message's lifecycle is visible in the published table with the message's
   ECU.  Also: ids are non-zero (C05) and belong to a lifecycle of the message's ECU (C05). *)
From Coq Require Import List NArith Bool Lia Permutation.
From AdltV Require Import Lifecycle.Model Lifecycle.ForwardProofs.
Import ListNotations.
Open Scope N_scope.

(* ------------------------------------------------------------------ tables *)
Lemma tbl_get_remove_other id y t : y <> id -> tbl_get id (tbl_remove y t) = tbl_get id t.
Proof.
  intros Hne. induction t as [|[k v] r IH]; [reflexivity|]. cbn [tbl_remove tbl_get].
  destruct (N.eqb k y) eqn:Eky.
  - apply N.eqb_eq in Eky. subst k. rewrite IH. destruct (N.eqb y id) eqn:E; [apply N.eqb_eq in E; congruence|reflexivity].
  - cbn [tbl_get]. rewrite IH. reflexivity.
Qed.

Lemma tbl_get_remove_same id t : tbl_get id (tbl_remove id t) = None.
Proof.
  induction t as [|[k v] r IH]; [reflexivity|]. cbn [tbl_remove].
  destruct (N.eqb k id) eqn:E; [exact IH|]. cbn [tbl_get]. rewrite E. exact IH.
Qed.

Lemma tbl_get_app id t1 t2 :
  tbl_get id (t1 ++ t2) = match tbl_get id t1 with Some x => Some x | None => tbl_get id t2 end.
Proof.
  induction t1 as [|[k v] r IH]; [reflexivity|]. cbn [app tbl_get]. destruct (N.eqb k id); [reflexivity|exact IH].
Qed.

Lemma tbl_get_set_same id L t : tbl_get id (tbl_set id L t) = Some L.
Proof. unfold tbl_set. rewrite tbl_get_app, tbl_get_remove_same. cbn. rewrite N.eqb_refl. reflexivity. Qed.

Lemma tbl_get_set_other id y L t : y <> id -> tbl_get id (tbl_set y L t) = tbl_get id t.
Proof.
  intros Hne. unfold tbl_set. rewrite tbl_get_app, tbl_get_remove_other by exact Hne.
  destruct (tbl_get id t); [reflexivity|]. cbn. destruct (N.eqb y id) eqn:E; [apply N.eqb_eq in E; congruence|reflexivity].
Qed.

(* ------------------------------------------------------------------ emap *)
Definition ids (em : emap_t) : list N := map l_id (all_lcs em).

Lemma store_perm e v em :
  exists rest, Permutation (all_lcs em) (rev (lookup e em) ++ rest) /\
               Permutation (all_lcs (store e v em)) (rev v ++ rest).
Proof.
  induction em as [|[k w] r IH]; cbn [lookup store all_lcs flat_map].
  - exists []. cbn. rewrite !app_nil_r. split; apply Permutation_refl.
  - destruct (N.eqb k e) eqn:E.
    + exists (all_lcs r). cbn [all_lcs flat_map snd]. split; apply Permutation_refl.
    + destruct IH as [rest [H1 H2]]. exists (rev w ++ rest). cbn [all_lcs flat_map snd]. fold (all_lcs r). fold (all_lcs (store e v r)).
      split.
      * eapply Permutation_trans; [apply Permutation_app_head; exact H1|].
        rewrite !app_assoc. apply Permutation_app_tail. apply Permutation_app_comm.
      * eapply Permutation_trans; [apply Permutation_app_head; exact H2|].
        rewrite !app_assoc. apply Permutation_app_tail. apply Permutation_app_comm.
Qed.

Definition KeyOk (em : emap_t) : Prop := forall k ls L, In (k, ls) em -> In L ls -> l_ecu L = k.

Lemma KeyOk_lookup em e L : KeyOk em -> In L (lookup e em) -> l_ecu L = e.
Proof.
  intros HK. induction em as [|[k w] r IH]; cbn [lookup]; [intros []|].
  destruct (N.eqb k e) eqn:E.
  - apply N.eqb_eq in E. subst k. intros Hin. eapply HK; [left; reflexivity|exact Hin].
  - apply IH. intros k' ls L' H1 H2. eapply HK; [right; exact H1|exact H2].
Qed.

Lemma KeyOk_store em e v : KeyOk em -> (forall L, In L v -> l_ecu L = e) -> KeyOk (store e v em).
Proof.
  intros HK Hv. induction em as [|[k w] r IH]; cbn [store].
  - intros k ls L [H|[]] HL. inversion H; subst. apply Hv. exact HL.
  - destruct (N.eqb k e) eqn:E.
    + apply N.eqb_eq in E. subst k. intros k' ls L [H|H] HL.
      * inversion H; subst. apply Hv. exact HL.
      * eapply HK; [right; exact H|exact HL].
    + intros k' ls L [H|H] HL.
      * inversion H; subst. eapply HK; [left; reflexivity|exact HL].
      * eapply IH; [|exact H|exact HL]. intros k2 ls2 L2 H1 H2. eapply HK; [right; exact H1|exact H2].
Qed.

Lemma in_all_lcs em L : In L (all_lcs em) <-> exists k ls, In (k, ls) em /\ In L ls.
Proof.
  unfold all_lcs. rewrite in_flat_map. split.
  - intros [[k ls] [H1 H2]]. cbn [snd] in H2. apply in_rev in H2. exists k, ls. auto.
  - intros [k [ls [H1 H2]]]. exists (k, ls). split; [exact H1|]. cbn [snd]. apply -> in_rev. exact H2.
Qed.

Lemma lookup_in_all em e L : In L (lookup e em) -> In L (all_lcs em).
Proof.
  induction em as [|[k w] r IH]; cbn [lookup]; [intros []|].
  destruct (N.eqb k e); intros H; apply in_all_lcs.
  - exists k, w. split; [left; reflexivity|exact H].
  - apply IH in H. apply in_all_lcs in H. destruct H as [k' [ls [H1 H2]]]. exists k', ls. split; [right; exact H1|exact H2].
Qed.

Lemma nodup_id_eq (l : list lcy) a b : NoDup (map l_id l) -> In a l -> In b l -> l_id a = l_id b -> a = b.
Proof.
  induction l as [|x r IH]; intros Hnd Ha Hb E; [destruct Ha|].
  cbn [map] in Hnd. inversion Hnd as [|y l' Hni Hnd' Eq]; subst.
  destruct Ha as [Ha|Ha], Hb as [Hb|Hb]; subst.
  - reflexivity.
  - exfalso. apply Hni. rewrite E. apply in_map. exact Hb.
  - exfalso. apply Hni. rewrite <- E. apply in_map. exact Ha.
  - apply IH; assumption.
Qed.

(* ------------------------------------------------------------------ visibility *)
Definition Vis (v : table) (L : lcy) : Prop := exists L0, tbl_get (l_id L) v = Some L0 /\ l_ecu L0 = l_ecu L.

Definition GoodOp (em : emap_t) (o : pend_op) : Prop :=
  match o with
  | PEmpty y => ~ In y (ids em)
  | PUpdate i L => i = l_id L /\ In L (all_lcs em)
  end.

Lemma apply_op_vis em o v L :
  NoDup (ids em) -> In L (all_lcs em) -> GoodOp em o -> Vis v L -> Vis (apply_op v o) L.
Proof.
  intros Hnd HL Hg [L0 [H1 H2]]. destruct o as [i L'|y]; cbn [apply_op GoodOp] in *.
  - destruct Hg as [Hi HL']. subst i. destruct (N.eq_dec (l_id L') (l_id L)) as [E|E].
    + assert (L' = L) by (eapply nodup_id_eq; eauto). subst L'.
      exists L. rewrite tbl_get_set_same. auto.
    + exists L0. rewrite tbl_get_set_other by exact E. auto.
  - exists L0. rewrite tbl_get_remove_other; [auto|]. intros E. apply Hg. subst y. unfold ids. apply in_map. exact HL.
Qed.

Lemma refresh_vis em ops : forall v L,
  NoDup (ids em) -> In L (all_lcs em) -> Forall (GoodOp em) ops -> Vis v L -> Vis (refresh v ops) L.
Proof.
  unfold refresh. induction ops as [|o r IH]; intros v L Hnd HL Hg HV; cbn [fold_left]; [exact HV|].
  inversion Hg as [|x l Ho Hr Eq]; subst. apply IH; auto. eapply apply_op_vis; eauto.
Qed.

Lemma refresh_sets em ops : forall v L,
  NoDup (ids em) -> In L (all_lcs em) -> Forall (GoodOp em) ops -> In (PUpdate (l_id L) L) ops -> Vis (refresh v ops) L.
Proof.
  unfold refresh. induction ops as [|o r IH]; intros v L Hnd HL Hg Hin; [destruct Hin|].
  cbn [fold_left]. inversion Hg as [|x l Ho Hr Eq]; subst. destruct Hin as [Hin|Hin].
  - subst o. apply (refresh_vis em r); auto. cbn [apply_op]. exists L. rewrite tbl_get_set_same. auto.
  - apply IH; auto.
Qed.

(* ------------------------------------------------------------------ release *)
Lemma release_lcs q : forall pr buf tr o q' tr',
  release pr buf q tr = (o, q', tr') -> forall m, In m o -> m_lc m = pr \/ inb (m_lc m) buf = false.
Proof.
  induction q as [|m r IH]; intros pr buf tr o q' tr' H x Hx; cbn [release] in H.
  - inversion H; subst. destruct Hx.
  - destruct (N.eqb (m_lc m) pr) eqn:E.
    + destruct (release pr buf r tr) as [[o1 q1] t1] eqn:Er. inversion H; subst.
      destruct Hx as [Hx|Hx]; [subst x; left; apply N.eqb_eq; exact E|]. eapply IH; eauto.
    + destruct (inb (m_lc m) buf) eqn:Eb; cbn [negb] in H.
      * inversion H; subst. destruct Hx.
      * destruct (release (m_lc m) buf r (mark (m_lc m) tr)) as [[o1 q1] t1] eqn:Er. inversion H; subst.
        destruct Hx as [Hx|Hx]; [subst x; right; exact Eb|].
        destruct (IH _ _ _ _ _ _ Er x Hx) as [H1|H1]; [right; rewrite H1; exact Eb|right; exact H1].
Qed.

(* ------------------------------------------------------------------ the invariant *)
Definition MsgOk (em : emap_t) (m : msg) : Prop :=
  exists L, In L (all_lcs em) /\ l_id L = m_lc m /\ l_ecu L = m_ecu m.
Definition Good (x : delivery) : Prop :=
  m_lc (fst x) <> 0 /\
  exists L0, tbl_get (m_lc (fst x)) (snd x) = Some L0 /\ l_ecu L0 = m_ecu (fst x).

Lemma mk_good v x L : l_id L = m_lc x -> l_ecu L = m_ecu x -> l_id L <> 0 -> Vis v L -> Good (x, v).
Proof.
  intros E E' Hnz [Lp [G1 G2]]. split; cbn [fst snd]; [congruence|]. exists Lp. rewrite <- E. split; [exact G1|congruence].
Qed.

Record Inv6 (d : det) : Prop := {
  i_key : KeyOk (emap d);
  i_nd : NoDup (ids (emap d));
  i_fresh : forall L, In L (all_lcs (emap d)) -> l_id L < next_id d /\ l_id L <> 0;
  i_q : forall m, In m (queue d) -> MsgOk (emap d) m;
  i_pub : forall L, In L (all_lcs (emap d)) -> inb (l_id L) (buffered d) = false -> Vis (vis d) L;
  i_pend : Forall (fun o => exists y, o = PEmpty y /\ y < next_id d /\ ~ In y (ids (emap d))) (pend d);
  i_nid : 0 < next_id d
}.

(* ------------------------------------------------------------------ characterisation of the decisions *)
Lemma update_joined L m f L' : update L m f = (L', None) -> l_id L' = l_id L /\ l_ecu L' = l_ecu L.
Proof.
  unfold update. destruct (m_creq m); [intros H; inversion H; subst; auto|].
  destruct (_ && _ && _); [intros H; inversion H; subst; auto|].
  destruct (negb _ && _); intros H; inversion H; subst; auto.
Qed.

Lemma update_created L m f L' Ln : update L m f = (L', Some Ln) -> L' = L /\ l_id Ln = f /\ l_ecu Ln = m_ecu m.
Proof.
  unfold update. destruct (m_creq m); [intros H; inversion H|].
  destruct (_ && _ && _); [intros H; inversion H|].
  destruct (negb _ && _); intros H; inversion H; subst.
  destruct (_ && _ && _ && _); cbn; auto.
Qed.

Lemma merge_id P L : l_id (merge P L) = l_id P /\ l_ecu (merge P L) = l_ecu P.
Proof. split; reflexivity. Qed.

Lemma nodup_app_inv {A} (a b : list A) :
  NoDup (a ++ b) -> NoDup a /\ NoDup b /\ (forall x, In x a -> ~ In x b).
Proof.
  induction a as [|x r IH]; cbn [app]; intros H.
  - split; [constructor|]. split; [exact H|]. intros x [].
  - inversion H as [|y l Hni Hnd Eq]; subst. destruct (IH Hnd) as [H1 [H2 H3]].
    split; [constructor; [intros Hin; apply Hni; apply in_or_app; left; exact Hin|exact H1]|].
    split; [exact H2|]. intros z [Hz|Hz]; [subst z; intros Hin; apply Hni; apply in_or_app; right; exact Hin|apply H3; exact Hz].
Qed.

Lemma nodup_app_intro {A} (a b : list A) :
  NoDup a -> NoDup b -> (forall x, In x a -> ~ In x b) -> NoDup (a ++ b).
Proof.
  induction a as [|x r IH]; cbn [app]; intros Ha Hb Hd; [exact Hb|].
  inversion Ha as [|y l Hni Hnd Eq]; subst. constructor.
  - intros Hin. apply in_app_or in Hin. destruct Hin as [Hin|Hin]; [auto|]. apply (Hd x); [left; reflexivity|exact Hin].
  - apply IH; [exact Hnd|exact Hb|]. intros z Hz. apply Hd. right. exact Hz.
Qed.

(* ------------------------------------------------------------------ store: what is live afterwards *)
Lemma store_transfer em e v :
  KeyOk em -> NoDup (ids em) ->
  (forall L, In L v -> l_ecu L = e) ->
  NoDup (map l_id v) ->
  (forall L, In L v -> In (l_id L) (map l_id (lookup e em)) \/ ~ In (l_id L) (ids em)) ->
  exists rest,
    KeyOk (store e v em) /\ NoDup (ids (store e v em)) /\
    (forall L, In L (all_lcs (store e v em)) <-> In L v \/ In L rest) /\
    (forall L, In L (all_lcs em) <-> In L (lookup e em) \/ In L rest) /\
    (forall L, In L rest -> ~ In (l_id L) (map l_id (lookup e em))).
Proof.
  intros HK Hnd Hve Hvnd Hvid.
  destruct (store_perm e v em) as [rest [P1 P2]]. exists rest.
  assert (Hnd1 : NoDup (map l_id (rev (lookup e em) ++ rest))).
  { eapply Permutation_NoDup; [apply Permutation_map; exact P1|exact Hnd]. }
  rewrite map_app, map_rev in Hnd1.
  destruct (nodup_app_inv _ _ Hnd1) as [_ [Hr Hd1]].
  assert (Hdisj : forall L, In L rest -> ~ In (l_id L) (map l_id (lookup e em))).
  { intros L HL Hin. apply (Hd1 (l_id L)); [apply -> in_rev; exact Hin|apply in_map; exact HL]. }
  split; [apply KeyOk_store; assumption|].
  split.
  - unfold ids. eapply Permutation_NoDup; [apply Permutation_sym; apply Permutation_map; exact P2|].
    rewrite map_app, map_rev. apply nodup_app_intro; [apply NoDup_rev; exact Hvnd|exact Hr|].
    intros i Hi Hir. apply in_rev in Hi. apply in_map_iff in Hi. destruct Hi as [L [E HL]]. subst i.
    apply in_map_iff in Hir. destruct Hir as [L2 [E2 HL2]].
    destruct (Hvid L HL) as [H|H].
    + apply (Hdisj L2 HL2). rewrite E2. exact H.
    + apply H. unfold ids. rewrite <- E2. apply in_map.
      eapply Permutation_in; [apply Permutation_sym; exact P1|]. apply in_or_app. right. exact HL2.
  - split; [|split; [|exact Hdisj]].
    + intros L. split.
      * intros H. eapply Permutation_in in H; [|exact P2]. apply in_app_or in H.
        destruct H as [H|H]; [left; apply in_rev; exact H|right; exact H].
      * intros H. eapply Permutation_in; [apply Permutation_sym; exact P2|]. apply in_or_app.
        destruct H as [H|H]; [left; apply -> in_rev; exact H|right; exact H].
    + intros L. split.
      * intros H. eapply Permutation_in in H; [|exact P1]. apply in_app_or in H.
        destruct H as [H|H]; [left; apply in_rev; exact H|right; exact H].
      * intros H. eapply Permutation_in; [apply Permutation_sym; exact P1|]. apply in_or_app.
        destruct H as [H|H]; [left; apply -> in_rev; exact H|right; exact H].
Qed.

(* ------------------------------------------------------------------ small facts *)
Lemma inb_app x a b : inb x (a ++ b) = inb x a || inb x b.
Proof. unfold inb. apply existsb_app. Qed.

Lemma inb_true_iff x l : inb x l = true <-> In x l.
Proof.
  unfold inb. rewrite existsb_exists. split.
  - intros [y [H1 H2]]. apply N.eqb_eq in H2. subst. exact H1.
  - intros H. exists x. split; [exact H|apply N.eqb_refl].
Qed.

Lemma inb_remove_false x y l : inb x (remove_id y l) = false -> x = y \/ inb x l = false.
Proof.
  intros H. destruct (N.eq_dec x y) as [E|E]; [left; exact E|right].
  destruct (inb x l) eqn:Ei; [|reflexivity]. apply inb_true_iff in Ei.
  assert (Hin : In x (remove_id y l)).
  { unfold remove_id. apply filter_In. split; [exact Ei|]. apply negb_true_iff. apply N.eqb_neq. congruence. }
  apply inb_true_iff in Hin. congruence.
Qed.

Lemma lookup_nodup em e : NoDup (ids em) -> NoDup (map l_id (lookup e em)).
Proof.
  intros Hnd. destruct (store_perm e [] em) as [rest [P1 _]].
  assert (H : NoDup (map l_id (rev (lookup e em) ++ rest))).
  { eapply Permutation_NoDup; [apply Permutation_map; exact P1|exact Hnd]. }
  rewrite map_app, map_rev in H. apply nodup_app_inv in H. destruct H as [H _].
  apply NoDup_rev in H. rewrite rev_involutive in H. exact H.
Qed.

Lemma Vis_same v L L' : l_id L = l_id L' -> l_ecu L = l_ecu L' -> Vis v L -> Vis v L'.
Proof. intros E1 E2 [L0 [H1 H2]]. exists L0. rewrite <- E1, <- E2. auto. Qed.

Lemma MsgOk_set_lc em m L : In L (all_lcs em) -> l_ecu L = m_ecu m -> MsgOk em (set_lc m (l_id L)).
Proof. intros H1 H2. exists L. auto. Qed.

Record P1ok (d : det) (m : msg) (p : p1) : Prop := {
  p1_key : KeyOk (p_emap p);
  p1_nd : NoDup (ids (p_emap p));
  p1_fresh : forall L, In L (all_lcs (p_emap p)) -> l_id L < p_nid p /\ l_id L <> 0;
  p1_nid : next_id d <= p_nid p;
  p1_q : forall x, In x (p_q p) -> MsgOk (p_emap p) x;
  p1_msg : MsgOk (p_emap p) (p_msg p);
  p1_pub : forall L, In L (all_lcs (p_emap p)) -> inb (l_id L) (p_buf p) = false -> Vis (vis d) L;
  p1_pend : Forall (fun o => exists y, o = PEmpty y /\ y < p_nid p /\ ~ In y (ids (p_emap p))) (p_pend p);
  p1_out : forall x, In x (p_out p) -> Good (x, vis d) /\ MsgOk (p_emap p) x
}.

Lemma rev_eq_cons {A} (l : list A) x r : rev l = x :: r -> l = rev r ++ [x].
Proof. intros H. rewrite <- (rev_involutive l), H. reflexivity. Qed.

Lemma fresh_not_in em n : (forall L, In L (all_lcs em) -> l_id L < n /\ l_id L <> 0) -> ~ In n (ids em).
Proof.
  intros H Hin. unfold ids in Hin. apply in_map_iff in Hin. destruct Hin as [L [E HL]].
  destruct (H L HL) as [H1 _]. lia.
Qed.

Lemma new_lc_id i m : l_id (new_lc i m) = i /\ l_ecu (new_lc i m) = m_ecu m.
Proof. split; reflexivity. Qed.

(* messages keep being Ok when an ECU's list is replaced by one that keeps the id they refer to *)
Lemma transfer_msg em e v rest x :
  KeyOk em ->
  (forall L, In L (all_lcs (store e v em)) <-> In L v \/ In L rest) ->
  (forall L, In L (all_lcs em) <-> In L (lookup e em) \/ In L rest) ->
  (forall L, In L v -> l_ecu L = e) ->
  (forall L0, In L0 (lookup e em) -> l_id L0 = m_lc x -> exists L1, In L1 v /\ l_id L1 = l_id L0) ->
  MsgOk em x -> MsgOk (store e v em) x.
Proof.
  intros HK A' A0 Hve Hmap [L0 [H0 [Hid Hecu]]]. apply A0 in H0. destruct H0 as [H0|H0].
  - destruct (Hmap L0 H0 Hid) as [L1 [H1 E1]]. exists L1. split; [apply A'; left; exact H1|].
    split; [congruence|]. rewrite (Hve L1 H1). rewrite <- Hecu. symmetry. eapply KeyOk_lookup; eauto.
  - exists L0. split; [apply A'; right; exact H0|auto].
Qed.

Lemma phase1_ok d m : Inv6 d -> P1ok d m (phase1 d m).
Proof.
  intros [HK Hnd Hfr Hq Hpub Hpend Hnid].
  pose proof (fresh_not_in _ _ Hfr) as Hfresh.
  unfold phase1.
  destruct (rev (lookup (m_ecu m) (emap d))) as [|L prevs_rev] eqn:Erev.
  - (* first message of this ECU *)
    assert (Hl : lookup (m_ecu m) (emap d) = []).
    { destruct (lookup (m_ecu m) (emap d)) as [|a l]; [reflexivity|].
      apply (f_equal (@length _)) in Erev. rewrite rev_length in Erev. discriminate. }
    destruct (store_transfer (emap d) (m_ecu m) [new_lc (next_id d) m]) as [rest [K' [N' [A' [A0 D]]]]]; auto.
    + intros L0 [<-|[]]. reflexivity.
    + cbn. constructor; [intros []|constructor].
    + intros L0 [<-|[]]. right. exact Hfresh.
    + constructor; cbn [p_emap p_q p_buf p_nid p_msg p_out p_tr p_pend].
      * exact K'.
      * exact N'.
      * intros L0 H0. apply A' in H0. destruct H0 as [[<-|[]]|H0]; [cbn [new_lc l_id]; lia|].
        destruct (Hfr L0) as [H1 H2]; [apply A0; right; exact H0|]. split; [lia|exact H2].
      * lia.
      * intros x Hx. apply (transfer_msg _ _ _ rest x HK A' A0); [| |apply Hq; exact Hx].
        -- intros L0 [<-|[]]. reflexivity.
        -- rewrite Hl. intros L0 [].
      * exists (new_lc (next_id d) m). split; [apply A'; left; left; reflexivity|]. split; reflexivity.
      * intros L0 H0 Hb. rewrite inb_app in Hb. apply orb_false_iff in Hb. destruct Hb as [Hb1 Hb2].
        apply A' in H0. destruct H0 as [[<-|[]]|H0].
        -- cbn in Hb2. rewrite N.eqb_refl in Hb2. discriminate.
        -- apply Hpub; [apply A0; right; exact H0|exact Hb1].
      * eapply Forall_impl; [|exact Hpend]. cbn. intros o [y [E [Hy Hn]]]. exists y. split; [exact E|]. split; [lia|].
        intros Hin. unfold ids in Hin. apply in_map_iff in Hin. destruct Hin as [L0 [E0 H0]]. apply A' in H0.
        destruct H0 as [[<-|[]]|H0]; [cbn in E0; lia|]. apply Hn. unfold ids. rewrite <- E0. apply in_map. apply A0. right. exact H0.
      * intros x [].
  - apply rev_eq_cons in Erev.
    assert (HLin : In L (lookup (m_ecu m) (emap d))) by (rewrite Erev; apply in_or_app; right; left; reflexivity).
    assert (HLecu : l_ecu L = m_ecu m) by (eapply KeyOk_lookup; eauto).
    pose proof (lookup_nodup (emap d) (m_ecu m) Hnd) as Hlnd.
    assert (Hlecu : forall L0, In L0 (lookup (m_ecu m) (emap d)) -> l_ecu L0 = m_ecu m) by (intros; eapply KeyOk_lookup; eauto).
    destruct (update L m (next_id d)) as [L' [Ln|]] eqn:Eu.
    + (* a new lifecycle starts *)
      apply update_created in Eu. destruct Eu as [-> [Eid Eecu]].
      destruct (store_transfer (emap d) (m_ecu m) (rev prevs_rev ++ [L; Ln])) as [rest [K' [N' [A' [A0 D]]]]]; auto.
      * intros L0 H0. replace (rev prevs_rev ++ [L; Ln]) with ((rev prevs_rev ++ [L]) ++ [Ln]) in H0 by (rewrite <- app_assoc; reflexivity).
        rewrite <- Erev in H0. apply in_app_or in H0. destruct H0 as [H0|[<-|[]]]; [apply Hlecu; exact H0|exact Eecu].
      * replace (rev prevs_rev ++ [L; Ln]) with ((rev prevs_rev ++ [L]) ++ [Ln]) by (rewrite <- app_assoc; reflexivity).
        rewrite <- Erev, map_app. apply nodup_app_intro; [exact Hlnd|cbn; constructor; [intros []|constructor]|].
        intros i Hi [<-|[]]. rewrite Eid in Hi. apply Hfresh. unfold ids.
        apply in_map_iff in Hi. destruct Hi as [L0 [E0 H0]]. rewrite <- E0. apply in_map. apply lookup_in_all in H0. exact H0.
      * intros L0 H0. replace (rev prevs_rev ++ [L; Ln]) with ((rev prevs_rev ++ [L]) ++ [Ln]) in H0 by (rewrite <- app_assoc; reflexivity).
        rewrite <- Erev in H0. apply in_app_or in H0. destruct H0 as [H0|[<-|[]]]; [left; apply in_map; exact H0|right; rewrite Eid; exact Hfresh].
      * assert (Hv : forall L0, In L0 (rev prevs_rev ++ [L; Ln]) <-> In L0 (lookup (m_ecu m) (emap d)) \/ L0 = Ln).
        { intros L0. replace (rev prevs_rev ++ [L; Ln]) with ((rev prevs_rev ++ [L]) ++ [Ln]) by (rewrite <- app_assoc; reflexivity).
          rewrite <- Erev, in_app_iff. cbn. intuition. }
        constructor; cbn [p_emap p_q p_buf p_nid p_msg p_out p_tr p_pend].
        -- exact K'.
        -- exact N'.
        -- intros L0 H0. apply A' in H0. destruct H0 as [H0|H0].
           ++ apply Hv in H0. destruct H0 as [H0| ->]; [|rewrite Eid; lia].
              destruct (Hfr L0) as [H1 H2]; [apply lookup_in_all in H0; exact H0|]. split; [lia|exact H2].
           ++ destruct (Hfr L0) as [H1 H2]; [apply A0; right; exact H0|]. split; [lia|exact H2].
        -- lia.
        -- intros x Hx. apply (transfer_msg _ _ _ rest x HK A' A0); [| |apply Hq; exact Hx].
           ++ intros L0 H0. apply Hv in H0. destruct H0 as [H0| ->]; [apply Hlecu; exact H0|exact Eecu].
           ++ intros L0 H0 _. exists L0. split; [apply Hv; left; exact H0|reflexivity].
        -- exists Ln. split; [apply A'; left; apply Hv; right; reflexivity|]. split; [reflexivity|exact Eecu].
        -- intros L0 H0 Hb. rewrite inb_app in Hb. apply orb_false_iff in Hb. destruct Hb as [Hb1 Hb2].
           apply A' in H0. destruct H0 as [H0|H0].
           ++ apply Hv in H0. destruct H0 as [H0| ->].
              ** apply Hpub; [apply lookup_in_all in H0; exact H0|exact Hb1].
              ** cbn in Hb2. rewrite N.eqb_refl in Hb2. discriminate.
           ++ apply Hpub; [apply A0; right; exact H0|exact Hb1].
        -- eapply Forall_impl; [|exact Hpend]. cbn. intros o [y [E [Hy Hn]]]. exists y. split; [exact E|]. split; [lia|].
           intros Hin. unfold ids in Hin. apply in_map_iff in Hin. destruct Hin as [L0 [E0 H0]]. apply A' in H0.
           destruct H0 as [H0|H0].
           ++ apply Hv in H0. destruct H0 as [H0| ->]; [|lia].
              apply Hn. unfold ids. rewrite <- E0. apply in_map. apply lookup_in_all in H0. exact H0.
           ++ apply Hn. unfold ids. rewrite <- E0. apply in_map. apply A0. right. exact H0.
        -- intros x [].
    + (* joined the current lifecycle *)
      apply update_joined in Eu. destruct Eu as [Eid Eecu].
      (* the no-merge outcome, used in three branches *)
      assert (Hnomerge : P1ok d m
        {| p_emap := store (m_ecu m) (rev prevs_rev ++ [L']) (emap d); p_q := queue d; p_buf := buffered d;
           p_nid := next_id d; p_msg := set_lc m (l_id L'); p_out := []; p_tr := to_refresh d; p_pend := pend d |}).
      { assert (Hv : forall L0, In L0 (rev prevs_rev ++ [L']) -> exists L1, In L1 (lookup (m_ecu m) (emap d)) /\ l_id L1 = l_id L0 /\ l_ecu L1 = l_ecu L0).
        { intros L0 H0. apply in_app_or in H0. destruct H0 as [H0|[<-|[]]].
          - exists L0. split; [rewrite Erev; apply in_or_app; left; exact H0|auto].
          - exists L. split; [exact HLin|]. split; congruence. }
        assert (Hv2 : forall L1, In L1 (lookup (m_ecu m) (emap d)) -> exists L0, In L0 (rev prevs_rev ++ [L']) /\ l_id L0 = l_id L1).
        { intros L1 H1. rewrite Erev in H1. apply in_app_or in H1. destruct H1 as [H1|[<-|[]]].
          - exists L1. split; [apply in_or_app; left; exact H1|reflexivity].
          - exists L'. split; [apply in_or_app; right; left; reflexivity|exact Eid]. }
        assert (Hmapid : map l_id (rev prevs_rev ++ [L']) = map l_id (lookup (m_ecu m) (emap d))).
        { rewrite Erev, !map_app. cbn [map]. rewrite Eid. reflexivity. }
        destruct (store_transfer (emap d) (m_ecu m) (rev prevs_rev ++ [L'])) as [rest [K' [N' [A' [A0 D]]]]]; auto.
        - intros L0 H0. destruct (Hv L0 H0) as [L1 [H1 [E1 E2]]]. rewrite <- E2. apply Hlecu. exact H1.
        - rewrite Hmapid. exact Hlnd.
        - intros L0 H0. left. rewrite <- Hmapid. apply in_map. exact H0.
        - constructor; cbn [p_emap p_q p_buf p_nid p_msg p_out p_tr p_pend].
          + exact K'.
          + exact N'.
          + intros L0 H0. apply A' in H0. destruct H0 as [H0|H0].
            * destruct (Hv L0 H0) as [L1 [H1 [E1 E2]]]. rewrite <- E1. apply Hfr. apply lookup_in_all in H1. exact H1.
            * apply Hfr. apply A0. right. exact H0.
          + lia.
          + intros x Hx. apply (transfer_msg _ _ _ rest x HK A' A0); [| |apply Hq; exact Hx].
            * intros L0 H0. destruct (Hv L0 H0) as [L1 [H1 [E1 E2]]]. rewrite <- E2. apply Hlecu. exact H1.
            * intros L0 H0 _. destruct (Hv2 L0 H0) as [L1 [H1 E1]]. exists L1. auto.
          + exists L'. split; [apply A'; left; apply in_or_app; right; left; reflexivity|]. split; [reflexivity|]. cbn [set_lc m_ecu]. congruence.
          + intros L0 H0 Hb. apply A' in H0. destruct H0 as [H0|H0].
            * destruct (Hv L0 H0) as [L1 [H1 [E1 E2]]]. apply (Vis_same _ L1); auto.
              apply Hpub; [apply lookup_in_all in H1; exact H1|rewrite E1; exact Hb].
            * apply Hpub; [apply A0; right; exact H0|exact Hb].
          + eapply Forall_impl; [|exact Hpend]. cbn. intros o [y [E [Hy Hn]]]. exists y. split; [exact E|]. split; [exact Hy|].
            intros Hin. unfold ids in Hin. apply in_map_iff in Hin. destruct Hin as [L0 [E0 H0]]. apply A' in H0.
            destruct H0 as [H0|H0].
            * destruct (Hv L0 H0) as [L1 [H1 [E1 E2]]]. apply Hn. unfold ids. rewrite <- E0, <- E1. apply in_map. apply lookup_in_all in H1. exact H1.
            * apply Hn. unfold ids. rewrite <- E0. apply in_map. apply A0. right. exact H0.
          + intros x []. }
      destruct prevs_rev as [|P pp]; [exact Hnomerge|].
      destruct (needs_merge P L' && (inb (l_id P) (buffered d) || (count_lc (l_id L') (queue d) + 1 =? l_nr L'))) eqn:Em; [|exact Hnomerge].
      clear Hnomerge.
      (* merge of L' into its predecessor P *)
      cbn [rev] in Erev. rewrite <- app_assoc in Erev. cbn [app] in Erev.
      assert (HPin : In P (lookup (m_ecu m) (emap d))) by (rewrite Erev; apply in_or_app; right; left; reflexivity).
      assert (Hpp : forall L0, In L0 (rev pp) -> In L0 (lookup (m_ecu m) (emap d))) by (intros L0 H0; rewrite Erev; apply in_or_app; left; exact H0).
      assert (Hids : NoDup (map l_id (rev pp) ++ [l_id P; l_id L])) by (rewrite Erev, map_app in Hlnd; exact Hlnd).
      apply nodup_app_inv in Hids. destruct Hids as [Hid1 [Hid2 Hid3]].
      assert (HPL : l_id P <> l_id L) by (inversion Hid2 as [|a b Hni _ Eq]; subst; intros E; apply Hni; left; symmetry; exact E).
      set (P' := merge P L').
      set (v := rev pp ++ [P']).
      assert (Hv : forall L0, In L0 v -> exists L1, In L1 (lookup (m_ecu m) (emap d)) /\ l_id L1 = l_id L0 /\ l_ecu L1 = l_ecu L0 /\ l_id L0 <> l_id L).
      { intros L0 H0. apply in_app_or in H0. destruct H0 as [H0|[<-|[]]].
        - exists L0. split; [apply Hpp; exact H0|]. split; [reflexivity|]. split; [reflexivity|].
          intros E. apply (Hid3 (l_id L0)); [apply in_map; exact H0|right; left; symmetry; exact E].
        - exists P. split; [exact HPin|]. split; [reflexivity|]. split; [reflexivity|exact HPL]. }
      destruct (store_transfer (emap d) (m_ecu m) v) as [rest [K' [N' [A' [A0 D]]]]]; auto.
      * intros L0 H0. destruct (Hv L0 H0) as [L1 [H1 [E1 [E2 _]]]]. rewrite <- E2. apply Hlecu. exact H1.
      * unfold v. rewrite map_app. apply nodup_app_intro; [exact Hid1|cbn; constructor; [intros []|constructor]|].
        intros i Hi Hin. cbn in Hin. destruct Hin as [Hin|[]]. apply (Hid3 i Hi). left. exact Hin.
      * intros L0 H0. left. destruct (Hv L0 H0) as [L1 [H1 [E1 _]]]. rewrite <- E1. apply in_map. exact H1.
      * assert (HLrest : forall L0, In L0 rest -> l_id L0 <> l_id L').
        { intros L0 H0 E. apply (D L0 H0). rewrite E, Eid. apply in_map. exact HLin. }
        assert (Hq' : forall x, In x (relabel (l_id L') (l_id P) (queue d)) -> MsgOk (store (m_ecu m) v (emap d)) x).
        { intros x Hx. unfold relabel in Hx. apply in_map_iff in Hx. destruct Hx as [x0 [Ex Hx0]].
          destruct (N.eqb (m_lc x0) (l_id L')) eqn:El.
          - subst x. apply N.eqb_eq in El.
            destruct (Hq x0 Hx0) as [L0 [H0 [E0 E0']]].
            assert (L0 = L).
            { eapply nodup_id_eq; [exact Hnd| exact H0 | apply lookup_in_all in HLin; exact HLin | congruence]. }
            subst L0. exists P'. split; [apply A'; left; apply in_or_app; right; left; reflexivity|].
            split; [reflexivity|]. cbn [set_lc m_ecu]. unfold P'. cbn [merge l_ecu]. rewrite (Hlecu P HPin). congruence.
          - subst x. apply N.eqb_neq in El. apply (transfer_msg _ _ _ rest x0 HK A' A0); [| |apply Hq; exact Hx0].
            + intros L0 H0. destruct (Hv L0 H0) as [L1 [H1 [E1 [E2 _]]]]. rewrite <- E2. apply Hlecu. exact H1.
            + intros L0 H0 E0. rewrite Erev in H0. apply in_app_or in H0. destruct H0 as [H0|[<-|[<-|[]]]].
              * exists L0. split; [apply in_or_app; left; exact H0|reflexivity].
              * exists P'. split; [apply in_or_app; right; left; reflexivity|reflexivity].
              * exfalso. apply El. congruence. }
        assert (Hpub' : forall L0, In L0 (all_lcs (store (m_ecu m) v (emap d))) ->
                                   inb (l_id L0) (remove_id (l_id L') (buffered d)) = false -> Vis (vis d) L0).
        { intros L0 H0 Hb. apply inb_remove_false in Hb. apply A' in H0. destruct H0 as [H0|H0].
          - destruct (Hv L0 H0) as [L1 [H1 [E1 [E2 E3]]]]. destruct Hb as [Hb|Hb]; [exfalso; apply E3; congruence|].
            apply (Vis_same _ L1); auto. apply Hpub; [apply lookup_in_all in H1; exact H1|rewrite E1; exact Hb].
          - destruct Hb as [Hb|Hb]; [exfalso; apply (HLrest L0 H0); exact Hb|].
            apply Hpub; [apply A0; right; exact H0|exact Hb]. }
        assert (Hpend' : Forall (fun o => exists y, o = PEmpty y /\ y < next_id d /\ ~ In y (ids (store (m_ecu m) v (emap d))))
                                (if inb (l_id L') (buffered d) then pend d else pend d ++ [PEmpty (l_id L')])).
        { assert (Hold : Forall (fun o => exists y, o = PEmpty y /\ y < next_id d /\ ~ In y (ids (store (m_ecu m) v (emap d)))) (pend d)).
          { eapply Forall_impl; [|exact Hpend]. cbn. intros o [y [E [Hy Hn]]]. exists y. split; [exact E|]. split; [exact Hy|].
            intros Hin. unfold ids in Hin. apply in_map_iff in Hin. destruct Hin as [L0 [E0 H0]]. apply A' in H0.
            destruct H0 as [H0|H0].
            - destruct (Hv L0 H0) as [L1 [H1 [E1 _]]]. apply Hn. unfold ids. rewrite <- E0, <- E1. apply in_map. apply lookup_in_all in H1. exact H1.
            - apply Hn. unfold ids. rewrite <- E0. apply in_map. apply A0. right. exact H0. }
          destruct (inb (l_id L') (buffered d)); [exact Hold|]. apply Forall_app. split; [exact Hold|]. constructor; [|constructor].
          exists (l_id L'). split; [reflexivity|]. split.
          - rewrite Eid. apply Hfr. apply lookup_in_all in HLin. exact HLin.
          - intros Hin. unfold ids in Hin. apply in_map_iff in Hin. destruct Hin as [L0 [E0 H0]]. apply A' in H0.
            destruct H0 as [H0|H0].
            + destruct (Hv L0 H0) as [_ [_ [_ [_ E3]]]]. apply E3. congruence.
            + apply (HLrest L0 H0). exact E0. }
        assert (Hmsg' : MsgOk (store (m_ecu m) v (emap d)) (set_lc m (l_id P))).
        { exists P'. split; [apply A'; left; apply in_or_app; right; left; reflexivity|]. split; [reflexivity|].
          cbn [set_lc m_ecu]. unfold P'. cbn [merge l_ecu]. apply Hlecu. exact HPin. }
        assert (Hfr' : forall L0, In L0 (all_lcs (store (m_ecu m) v (emap d))) -> l_id L0 < next_id d /\ l_id L0 <> 0).
        { intros L0 H0. apply A' in H0. destruct H0 as [H0|H0].
          - destruct (Hv L0 H0) as [L1 [H1 [E1 _]]]. rewrite <- E1. apply Hfr. apply lookup_in_all in H1. exact H1.
          - apply Hfr. apply A0. right. exact H0. }
        destruct (remove_id (l_id L') (buffered d)) as [|b bs] eqn:Ebuf;
          constructor; cbn [p_emap p_q p_buf p_nid p_msg p_out p_tr p_pend]; auto; try lia.
        -- intros x [].
        -- intros x Hx. split; [|apply Hq'; exact Hx]. destruct (Hq' x Hx) as [L0 [H0 [E0 E0']]].
           apply (mk_good _ _ L0 E0 E0'); [apply Hfr'; exact H0|apply Hpub'; [exact H0|reflexivity]].
        -- intros x [].
Qed.

(* ------------------------------------------------------------------ phase 2 *)
Lemma inb_remove_self x l : inb x (remove_id x l) = false.
Proof.
  destruct (inb x (remove_id x l)) eqn:E; [|reflexivity]. apply inb_true_iff in E.
  unfold remove_id in E. apply filter_In in E. destruct E as [_ E]. rewrite N.eqb_refl in E. discriminate.
Qed.

Record C2ok (em : emap_t) (nid : N) (c : cstate) : Prop := {
  c_qok : forall x, In x (c_q c) -> MsgOk em x;
  c_pubok : forall L, In L (all_lcs em) -> inb (l_id L) (c_buf c) = false -> Vis (c_vis c) L;
  c_pendok : Forall (fun o => exists y, o = PEmpty y /\ y < nid /\ ~ In y (ids em)) (c_pend c);
  c_outok : forall x, In x (c_out c) -> Good x
}.

Lemma pend_good em nid p :
  Forall (fun o => exists y, o = PEmpty y /\ y < nid /\ ~ In y (ids em)) p -> Forall (GoodOp em) p.
Proof. intros H. eapply Forall_impl; [|exact H]. cbn. intros o [y [-> [_ Hn]]]. exact Hn. Qed.

Lemma confirm_pass_ok m em nid : NoDup (ids em) -> (forall L, In L (all_lcs em) -> l_id L <> 0) ->
  forall ls, incl ls (all_lcs em) -> forall c, C2ok em nid c -> C2ok em nid (confirm_pass m ls c).
Proof.
  intros Hnd Hnz. induction ls as [|L r IH]; intros Hincl c Hc; cbn [confirm_pass]; [exact Hc|].
  assert (HL : In L (all_lcs em)) by (apply Hincl; left; reflexivity).
  assert (Hincl' : incl r (all_lcs em)) by (intros x Hx; apply Hincl; right; exact Hx).
  destruct (inb (l_id L) (c_buf c) && confirmable m L); [|apply IH; assumption].
  destruct (release (l_id L) (remove_id (l_id L) (c_buf c)) (c_q c) (c_tr c)) as [[o q'] tr'] eqn:Er.
  apply IH; [exact Hincl'|].
  destruct Hc as [Hq Hpub Hpend Hout].
  pose proof (release_split _ _ _ _ _ _ _ Er) as Hsplit.
  pose proof (release_lcs _ _ _ _ _ _ _ Er) as Hlcs.
  assert (Hops : Forall (GoodOp em) (c_pend c ++ [PUpdate (l_id L) L])).
  { apply Forall_app. split; [eapply pend_good; exact Hpend|]. constructor; [|constructor]. cbn. auto. }
  assert (Hpub' : forall L1, In L1 (all_lcs em) -> inb (l_id L1) (remove_id (l_id L) (c_buf c)) = false ->
                             Vis (refresh (c_vis c) (c_pend c ++ [PUpdate (l_id L) L])) L1).
  { intros L1 H1 Hb. apply inb_remove_false in Hb. destruct Hb as [Hb|Hb].
    - assert (L1 = L) by (eapply nodup_id_eq; eauto). subst L1.
      eapply refresh_sets; eauto. apply in_or_app. right. left. reflexivity.
    - eapply refresh_vis; eauto. }
  constructor; cbn [c_q c_buf c_vis c_pend c_out].
  - intros x Hx. apply Hq. rewrite Hsplit. apply in_or_app. right. exact Hx.
  - exact Hpub'.
  - constructor.
  - intros x Hx. apply in_app_or in Hx. destruct Hx as [Hx|Hx]; [apply Hout; exact Hx|].
    apply in_map_iff in Hx. destruct Hx as [x0 [<- Hx0]].
    destruct (Hq x0) as [L1 [H1 [E1 E1']]]; [rewrite Hsplit; apply in_or_app; left; exact Hx0|].
    assert (Hb : inb (l_id L1) (remove_id (l_id L) (c_buf c)) = false).
    { rewrite E1. destruct (Hlcs x0 Hx0) as [H|H]; [rewrite H; apply inb_remove_self|exact H]. }
    apply (mk_good _ _ L1 E1 E1'); [apply Hnz; exact H1|apply Hpub'; assumption].
Qed.

Lemma phase2_ok d m p c nc :
  P1ok d m p -> phase2 d p = (c, nc) -> C2ok (p_emap p) (p_nid p) c.
Proof.
  intros [K Nd Fr Nid Q M Pub Pend Out]. unfold phase2.
  set (c0 := {| c_buf := p_buf p; c_vis := vis d; c_pend := p_pend p; c_q := p_q p; c_tr := p_tr p; c_out := [] |}).
  assert (H0 : C2ok (p_emap p) (p_nid p) c0) by (constructor; cbn; auto; intros x []).
  destruct (next_check d <? m_rt (p_msg p)).
  - destruct (m_ts (p_msg p) + MAX_BUFFERING_DELAY <? m_rt (p_msg p)); intros H; inversion H; subst; [|exact H0].
    apply confirm_pass_ok; [exact Nd|intros L HL; apply Fr; exact HL|apply incl_refl|exact H0].
  - intros H; inversion H; subst. exact H0.
Qed.

(* ------------------------------------------------------------------ one step *)
Lemma marked_good em tr : Forall (GoodOp em) (marked_updates em tr).
Proof.
  unfold marked_updates. apply Forall_forall. intros o Ho. apply in_map_iff in Ho. destruct Ho as [L [<- HL]].
  apply filter_In in HL. destruct HL as [HL _]. cbn. auto.
Qed.

Lemma step_ok d m d' o : Inv6 d -> step d m = (d', o) -> Inv6 d' /\ Forall Good o.
Proof.
  intros HI. pose proof (phase1_ok d m HI) as H1. unfold step.
  destruct (phase2 d (phase1 d m)) as [c nc] eqn:E2.
  pose proof (phase2_ok _ _ _ _ _ H1 E2) as H2.
  destruct H1 as [K Nd Fr Nid Q M Pub Pend Out]. destruct H2 as [Cq Cpub Cpend Cout].
  assert (Hnid : 0 < p_nid (phase1 d m)) by (destruct HI; lia).
  assert (Hflushed : Forall Good (map (fun x => (x, vis d)) (p_out (phase1 d m)))).
  { apply Forall_forall. intros x Hx. apply in_map_iff in Hx. destruct Hx as [x0 [<- Hx0]]. apply Out. exact Hx0. }
  assert (Out' : forall x, In x (p_out (phase1 d m)) -> Good (x, vis d)) by (intros x Hx; apply Out; exact Hx).
  assert (Hcout : Forall Good (c_out c)) by (apply Forall_forall; exact Cout).
  destruct (c_buf c) as [|b bs] eqn:Eb.
  - unfold regular_refresh.
    destruct (false || (last_reg d + 100000 <? m_index m)); intros H; inversion H; subst d' o; clear H.
    + assert (Hv : forall L, In L (all_lcs (p_emap (phase1 d m))) ->
                     Vis (refresh (c_vis c) (c_pend c ++ marked_updates (p_emap (phase1 d m)) (mark (m_lc (p_msg (phase1 d m))) (c_tr c)))) L).
      { intros L HL. apply (refresh_vis (p_emap (phase1 d m))); [exact Nd|exact HL| |apply Cpub; [exact HL|reflexivity]].
        apply Forall_app. split; [eapply pend_good; exact Cpend|apply marked_good]. }
      split.
      * constructor; cbn [emap queue buffered next_id vis pend]; auto;
          try (intros L HL _; apply Hv; exact HL).
      * apply Forall_app. split; [exact Hflushed|]. apply Forall_app. split; [exact Hcout|]. constructor; [|constructor].
        destruct M as [L [HL [E E']]]. apply (mk_good _ _ L E E'); [apply Fr; exact HL|apply Hv; exact HL].
    + split.
      * constructor; cbn [emap queue buffered next_id vis pend]; auto;
          try (intros L HL _; apply Cpub; [exact HL|reflexivity]).
      * apply Forall_app. split; [exact Hflushed|]. apply Forall_app. split; [exact Hcout|]. constructor; [|constructor].
        destruct M as [L [HL [E E']]]. apply (mk_good _ _ L E E'); [apply Fr; exact HL|apply Cpub; [exact HL|reflexivity]].
  - intros H; inversion H; subst d' o; clear H. split.
    + constructor; cbn [emap queue buffered next_id vis pend]; auto;
        try (intros x Hx; apply in_app_or in Hx; destruct Hx as [Hx|[<-|[]]]; [apply Cq; exact Hx|exact M]).
    + apply Forall_app. split; [exact Hflushed|exact Hcout].
Qed.

Lemma run_ok ms : forall d d' o, Inv6 d -> run d ms = (d', o) -> Inv6 d' /\ Forall Good o.
Proof.
  induction ms as [|m r IH]; intros d d' o HI H; cbn [run] in H.
  - inversion H; subst. split; [exact HI|constructor].
  - destruct (step d m) as [d1 o1] eqn:E1. destruct (run d1 r) as [d2 o2] eqn:E2. inversion H; subst.
    destruct (step_ok _ _ _ _ HI E1) as [HI1 G1]. destruct (IH _ _ _ HI1 E2) as [HI2 G2].
    split; [exact HI2|apply Forall_app; auto].
Qed.

Lemma finish_ok d : Inv6 d -> Forall Good (snd (finish d)).
Proof.
  intros [K Nd Fr Q Pub Pend Nid]. unfold finish.
  destruct (regular_refresh true _ _ _ _ _ _) as [[[v2 a] b] c0]. cbn [snd].
  set (ups := map (fun L => PUpdate (l_id L) L) (filter (fun L => inb (l_id L) (buffered d)) (all_lcs (emap d)))).
  assert (Hops : Forall (GoodOp (emap d)) (pend d ++ ups)).
  { apply Forall_app. split; [eapply pend_good; exact Pend|]. apply Forall_forall. intros o Ho.
    apply in_map_iff in Ho. destruct Ho as [L [<- HL]]. apply filter_In in HL. cbn. tauto. }
  apply Forall_forall. intros x Hx. apply in_map_iff in Hx. destruct Hx as [x0 [<- Hx0]].
  destruct (Q x0 Hx0) as [L [HL [E E']]].
  assert (HV : Vis (refresh (vis d) (pend d ++ ups)) L).
  { destruct (inb (l_id L) (buffered d)) eqn:Eb.
    - eapply refresh_sets; eauto. apply in_or_app. right. apply in_map_iff. exists L. split; [reflexivity|].
      apply filter_In. auto.
    - eapply refresh_vis; eauto. }
  apply (mk_good _ _ L E E'); [apply Fr; exact HL|exact HV].
Qed.

(* ------------------------------------------------------------------ initial state (possibly pre-populated table) *)
Definition PreOk (first_id : N) (pre : list lcy) : Prop :=
  NoDup (map l_id pre) /\ (forall L, In L pre -> l_id L < first_id /\ l_id L <> 0) /\ 0 < first_id.

Lemma init_emap_perm ls : forall em, Permutation (all_lcs (init_emap ls em)) (ls ++ all_lcs em).
Proof.
  induction ls as [|L r IH]; intros em; cbn [init_emap app]; [apply Permutation_refl|].
  eapply Permutation_trans; [apply IH|].
  destruct (store_perm (l_ecu L) (lookup (l_ecu L) em ++ [L]) em) as [rest [P1 P2]].
  eapply Permutation_trans; [apply Permutation_app_head; exact P2|].
  rewrite rev_app_distr. cbn [rev app].
  eapply Permutation_trans; [apply Permutation_sym; apply Permutation_middle|].
  apply perm_skip. apply Permutation_app_head. apply Permutation_sym. exact P1.
Qed.

Lemma init_emap_key ls : forall em, KeyOk em -> KeyOk (init_emap ls em).
Proof.
  induction ls as [|L r IH]; intros em HK; cbn [init_emap]; [exact HK|].
  apply IH. apply KeyOk_store; [exact HK|]. intros L0 H0. apply in_app_or in H0.
  destruct H0 as [H0|[<-|[]]]; [eapply KeyOk_lookup; eauto|reflexivity].
Qed.

Lemma tbl_get_pre pre L : NoDup (map l_id pre) -> In L pre -> tbl_get (l_id L) (map (fun x => (l_id x, x)) pre) = Some L.
Proof.
  induction pre as [|x r IH]; intros Hnd Hin; [destruct Hin|]. cbn [map tbl_get].
  inversion Hnd as [|a l Hni Hnd' Eq]; subst. destruct Hin as [->|Hin]; [rewrite N.eqb_refl; reflexivity|].
  destruct (N.eqb (l_id x) (l_id L)) eqn:E; [|apply IH; assumption].
  apply N.eqb_eq in E. exfalso. apply Hni. rewrite E. apply in_map. exact Hin.
Qed.

Lemma Inv6_init first_id pre : PreOk first_id pre -> Inv6 (init first_id pre).
Proof.
  intros [Hnd [Hfr Hpos]]. unfold init.
  pose proof (init_emap_perm pre []) as Hp. cbn [all_lcs flat_map] in Hp. rewrite app_nil_r in Hp.
  constructor; cbn [emap queue buffered next_id vis pend].
  - apply init_emap_key. intros k ls L [].
  - unfold ids. eapply Permutation_NoDup; [apply Permutation_sym; apply Permutation_map; exact Hp|exact Hnd].
  - intros L HL. apply Hfr. eapply Permutation_in; [exact Hp|exact HL].
  - intros m [].
  - intros L HL _. exists L. split; [|reflexivity]. apply tbl_get_pre; [exact Hnd|]. eapply Permutation_in; [exact Hp|exact HL].
  - constructor.
  - exact Hpos.
Qed.

(* ------------------------------------------------------------------ the theorems *)
Theorem detect_published first_id pre ms :
  PreOk first_id pre -> Forall Good (fst (detect first_id pre ms)).
Proof.
  intros Hpre. unfold detect. destruct (run (init first_id pre) ms) as [d o1] eqn:Er.
  destruct (run_ok _ _ _ _ (Inv6_init _ _ Hpre) Er) as [HI G1].
  pose proof (finish_ok d HI) as G2. destruct (finish d) as [t o2]. cbn [fst snd] in *.
  apply Forall_app. auto.
Qed.

