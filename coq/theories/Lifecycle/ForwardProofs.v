(* C05 (first clause): the detector forwards every message exactly once, in order, unchanged except
   for the lifecycle field. *)
From Coq Require Import List NArith Bool Lia.
From AdltV Require Import Lifecycle.Model.
Import ListNotations.
Open Scope N_scope.

(* everything but the lifecycle assignment *)
Definition strip (m : msg) : N * N * N * N * bool * bool :=
  (m_index m, m_ecu m, m_rt m, m_ts m, m_has_ts m, m_creq m).

Lemma strip_set_lc m i : strip (set_lc m i) = strip m.
Proof. reflexivity. Qed.

Lemma map_strip_relabel a b q : map strip (relabel a b q) = map strip q.
Proof.
  unfold relabel. rewrite map_map. apply map_ext. intros m.
  destruct (N.eqb (m_lc m) a); [apply strip_set_lc|reflexivity].
Qed.

Lemma release_split q : forall pr buf tr o q' tr', release pr buf q tr = (o, q', tr') -> q = o ++ q'.
Proof.
  induction q as [|m r IH]; intros pr buf tr o q' tr' H; cbn [release] in H.
  - inversion H; reflexivity.
  - destruct (N.eqb (m_lc m) pr).
    + destruct (release pr buf r tr) as [[o1 q1] t1] eqn:E. inversion H; subst. cbn. f_equal. eapply IH; eauto.
    + destruct (negb (inb (m_lc m) buf)).
      * destruct (release (m_lc m) buf r (mark (m_lc m) tr)) as [[o1 q1] t1] eqn:E.
        inversion H; subst. cbn. f_equal. eapply IH; eauto.
      * inversion H; subst. reflexivity.
Qed.

Lemma release_nil_buf q : forall pr tr, exists tr', release pr [] q tr = (q, [], tr').
Proof.
  induction q as [|m r IH]; intros pr tr; cbn [release]; [eexists; reflexivity|].
  destruct (N.eqb (m_lc m) pr).
  - destruct (IH pr tr) as [t E]. rewrite E. eexists; reflexivity.
  - cbn. destruct (IH (m_lc m) (mark (m_lc m) tr)) as [t E]. rewrite E. eexists; reflexivity.
Qed.

Lemma confirm_pass_split m ls : forall c,
    map fst (c_out (confirm_pass m ls c)) ++ c_q (confirm_pass m ls c) = map fst (c_out c) ++ c_q c.
Proof.
  induction ls as [|L r IH]; intros c; cbn [confirm_pass]; [reflexivity|].
  destruct (inb (l_id L) (c_buf c) && confirmable m L); [|apply IH].
  destruct (release (l_id L) (remove_id (l_id L) (c_buf c)) (c_q c) (c_tr c)) as [[o q'] tr'] eqn:E.
  rewrite IH. cbn [c_out c_q]. apply release_split in E. rewrite E, map_app, map_map. cbn [fst].
  rewrite map_id, app_assoc. reflexivity.
Qed.

Lemma confirm_pass_inv m ls : forall c,
    (c_buf c = [] -> c_q c = []) ->
    (c_buf (confirm_pass m ls c) = [] -> c_q (confirm_pass m ls c) = []).
Proof.
  induction ls as [|L r IH]; intros c Hc; cbn [confirm_pass]; [exact Hc|].
  destruct (inb (l_id L) (c_buf c) && confirmable m L); [|apply IH; exact Hc].
  destruct (release (l_id L) (remove_id (l_id L) (c_buf c)) (c_q c) (c_tr c)) as [[o q'] tr'] eqn:E.
  apply IH. cbn [c_buf c_q]. intros Hb. rewrite Hb in E.
  destruct (release_nil_buf (c_q c) (l_id L) (c_tr c)) as [t Et]. rewrite Et in E. inversion E; reflexivity.
Qed.

Lemma phase1_forward d m :
  map strip (p_out (phase1 d m) ++ p_q (phase1 d m)) = map strip (queue d) /\ strip (p_msg (phase1 d m)) = strip m.
Proof.
  unfold phase1.
  destruct (rev (lookup (m_ecu m) (emap d))) as [|L prevs_rev]; [cbn; auto|].
  destruct (update L m (next_id d)) as [L' [Ln|]]; [cbn; auto|].
  destruct prevs_rev as [|P pp]; [cbn; auto|].
  destruct (needs_merge P L' && _); [|cbn; auto].
  destruct (remove_id (l_id L') (buffered d)); cbn [p_out p_q p_msg app]; rewrite ?app_nil_r, map_strip_relabel; auto.
Qed.

Lemma map_fst_pair {A B} (v : B) (l : list A) : map fst (map (fun x => (x, v)) l) = l.
Proof. rewrite map_map. cbn [fst]. apply map_id. Qed.

Definition InvQ (d : det) : Prop := buffered d = [] -> queue d = [].

Lemma phase1_inv d m : InvQ d -> (p_buf (phase1 d m) = [] -> p_q (phase1 d m) = []).
Proof.
  unfold InvQ, phase1. intros HI.
  destruct (rev (lookup (m_ecu m) (emap d))) as [|L prevs_rev].
  - cbn [p_buf p_q]. intros H. apply app_eq_nil in H. destruct H as [_ H]. discriminate.
  - destruct (update L m (next_id d)) as [L' [Ln|]].
    + cbn [p_buf p_q]. intros H. apply app_eq_nil in H. destruct H as [_ H]. discriminate.
    + destruct prevs_rev as [|P pp]; [cbn; auto|].
      destruct (needs_merge P L' && _); [|cbn; auto].
      destruct (remove_id (l_id L') (buffered d)); cbn; [auto|discriminate].
Qed.

Lemma phase2_spec d p c nc :
  phase2 d p = (c, nc) ->
  map fst (c_out c) ++ c_q c = p_q p /\ ((p_buf p = [] -> p_q p = []) -> (c_buf c = [] -> c_q c = [])).
Proof.
  unfold phase2. intros H.
  set (c0 := {| c_buf := p_buf p; c_vis := vis d; c_pend := p_pend p; c_q := p_q p; c_tr := p_tr p; c_out := [] |}) in *.
  destruct (next_check d <? m_rt (p_msg p)).
  - destruct (m_ts (p_msg p) + MAX_BUFFERING_DELAY <? m_rt (p_msg p)); inversion H; subst.
    + split; [rewrite confirm_pass_split; reflexivity|]. intros Hp. apply confirm_pass_inv. exact Hp.
    + split; [reflexivity|auto].
  - inversion H; subst. split; [reflexivity|auto].
Qed.

Theorem step_forward d m d' o :
  InvQ d -> step d m = (d', o) ->
  map strip (map fst o ++ queue d') = map strip (queue d ++ [m]) /\ InvQ d'.
Proof.
  unfold step. intros HI H.
  destruct (phase1_forward d m) as [Hq Hm].
  pose proof (phase1_inv d m HI) as Hp.
  destruct (phase2 d (phase1 d m)) as [c nc] eqn:E2.
  apply phase2_spec in E2. destruct E2 as [Hc Hcq]. specialize (Hcq Hp).
  rewrite map_app in Hq.
  destruct (c_buf c) as [|b bs] eqn:Eb.
  - destruct (regular_refresh false (p_emap (phase1 d m)) (m_index m) (last_reg d) (c_vis c) (c_pend c)
                (mark (m_lc (p_msg (phase1 d m))) (c_tr c))) as [[[v pd] tr2] lr].
    inversion H; subst d' o. cbn [queue buffered]. unfold InvQ. cbn [queue buffered].
    pose proof (Hcq eq_refl) as Hn. rewrite Hn in *. split; [|auto].
    rewrite app_nil_r in *. rewrite !map_app, map_fst_pair. cbn [map fst].
    rewrite Hm, <- Hq, <- Hc. rewrite <- !app_assoc. reflexivity.
  - inversion H; subst d' o. cbn [queue buffered]. unfold InvQ. cbn [queue buffered]. split; [|discriminate].
    rewrite !map_app, map_fst_pair. cbn [map].
    rewrite Hm, <- Hq, <- Hc, ?map_app. rewrite <- !app_assoc. reflexivity.
Qed.

Theorem run_forward ms : forall d d' o,
  InvQ d -> run d ms = (d', o) -> map strip (map fst o ++ queue d') = map strip (queue d ++ ms) /\ InvQ d'.
Proof.
  induction ms as [|m r IH]; intros d d' o HI H; cbn [run] in H.
  - inversion H; subst. cbn. rewrite app_nil_r. auto.
  - destruct (step d m) as [d1 o1] eqn:E1. destruct (run d1 r) as [d2 o2] eqn:E2.
    inversion H; subst. apply step_forward in E1; [|exact HI]. destruct E1 as [E1 HI1].
    apply IH in E2; [|exact HI1]. destruct E2 as [E2 HI2]. split; [|exact HI2].
    rewrite !map_app in *. cbn [map] in *.
    rewrite <- app_assoc. rewrite E2. rewrite app_assoc. rewrite E1. rewrite <- app_assoc. reflexivity.
Qed.

Lemma finish_out d : map fst (snd (finish d)) = queue d.
Proof.
  unfold finish.
  destruct (regular_refresh true _ _ _ _ _ _) as [[[v2 a] b] c]. cbn [snd].
  apply map_fst_pair.
Qed.

Lemma InvQ_init first_id pre : InvQ (init first_id pre).
Proof. intros _. reflexivity. Qed.

Theorem detect_forward first_id pre ms :
  map strip (map fst (fst (detect first_id pre ms))) = map strip ms.
Proof.
  unfold detect. destruct (run (init first_id pre) ms) as [d o1] eqn:Er.
  pose proof (finish_out d) as Hf. destruct (finish d) as [t o2]. cbn [fst snd] in *.
  apply run_forward in Er; [|apply InvQ_init]. destruct Er as [Er _]. cbn [queue init app] in Er.
  rewrite map_app, Hf. exact Er.
Qed.
