(* Model of src/lifecycle/mod.rs: Lifecycle::new / update / merge / end_time and the whole loop of
   parse_lifecycles_buffered_from_stream (as repaired by the two `fix:` commits: checked lookup of the
   control-response service id; a merged lifecycle that had already been published is removed from the
   published table).  Outflow always succeeds here (the Err branch is C13's subject).
   Times are microseconds in N.  The code's u64 subtractions are all guarded (or saturating); they are
   mirrored by explicit guards so that N's truncated subtraction never hides a wrap-around.
   No proofs in this file. *)
From Coq Require Import List NArith Bool.
Import ListNotations.
Open Scope N_scope.

Definition US_PER_SEC : N := 1000000.
Definition MAX_BUFFERING_DELAY : N := 60000000.

Record msg := {
  m_index : N;
  m_ecu : N;
  m_rt : N;          (* reception_time_us *)
  m_ts : N;          (* timestamp_us() = timestamp_dms * 100 *)
  m_has_ts : bool;   (* standard_header.has_timestamp() *)
  m_creq : bool;     (* is_ctrl_request() *)
  m_lc : N           (* lifecycle, 0 = none *)
}.
Definition set_lc (m : msg) (i : N) : msg :=
  {| m_index := m_index m; m_ecu := m_ecu m; m_rt := m_rt m; m_ts := m_ts m; m_has_ts := m_has_ts m;
     m_creq := m_creq m; m_lc := i |}.

Record resume := { r_id : N; r_max_ts : N; r_start : N }.

Record lcy := {
  l_id : N;
  l_ecu : N;
  l_nr : N;          (* nr_msgs *)
  l_nr_creq : N;
  l_start : N;       (* start_time *)
  l_min_ts : N;
  l_max_ts : N;
  l_last_rt : N;
  l_resume : option resume
}.

Definition end_time (L : lcy) : N :=
  if l_max_ts L =? 0 then l_last_rt L else l_start L + l_max_ts L.

Definition is_resume (L : lcy) : bool := match l_resume L with Some _ => true | None => false end.

(* Lifecycle::new *)
Definition new_lc (id : N) (m : msg) : lcy :=
  let ts := if m_creq m then 0 else if m_rt m <? m_ts m then 0 else m_ts m in
  {| l_id := id; l_ecu := m_ecu m; l_nr := 1; l_nr_creq := if m_creq m then 1 else 0;
     l_start := m_rt m - ts; l_min_ts := ts; l_max_ts := ts; l_last_rt := m_rt m; l_resume := None |}.

(* Lifecycle::is_slightly_overlapping *)
Definition slightly_overlapping (L : lcy) (other_start : N) : bool :=
  let e := end_time L in
  (other_start <=? e) && (e <? other_start + US_PER_SEC * 2) && (l_start L + US_PER_SEC * 10 <? e).

Definition bump_nr (L : lcy) (creq : bool) : lcy :=
  {| l_id := l_id L; l_ecu := l_ecu L; l_nr := l_nr L + 1; l_nr_creq := if creq then l_nr_creq L + 1 else l_nr_creq L;
     l_start := l_start L; l_min_ts := l_min_ts L; l_max_ts := l_max_ts L; l_last_rt := l_last_rt L;
     l_resume := l_resume L |}.

Definition with_resume (L : lcy) (r : option resume) : lcy :=
  {| l_id := l_id L; l_ecu := l_ecu L; l_nr := l_nr L; l_nr_creq := l_nr_creq L;
     l_start := l_start L; l_min_ts := l_min_ts L; l_max_ts := l_max_ts L; l_last_rt := l_last_rt L;
     l_resume := r |}.

(* Lifecycle::update: (updated self, Some new lifecycle when the message starts one).  The message is
   assigned to the new lifecycle when there is one, else to self. *)
Definition update (L : lcy) (m : msg) (fresh : N) : lcy * option lcy :=
  if m_creq m then (bump_nr L true, None) else
  let ts := m_ts m in
  let rt := m_rt m in
  let lc_start := rt - ts in                       (* saturating_sub *)
  let cur_end := end_time L in
  let part := (negb (slightly_overlapping L lc_start) && (lc_start <=? cur_end)) || negb (m_has_ts m) in
  let would_move := if lc_start <? l_start L then l_start L - lc_start else 0 in
  if part && (MAX_BUFFERING_DELAY <? would_move) && (0 <? l_max_ts L) then (bump_nr L false, None) else
  let resume_detected :=
      (l_last_rt L + US_PER_SEC * 10 <=? rt) && (l_max_ts L <=? ts) &&
      (l_start L + US_PER_SEC * 10 <=? lc_start) &&
      (lc_start - l_start L <? (rt - l_last_rt L) + US_PER_SEC * 30) in
  if negb resume_detected && part then
    let min' :=
        if ts <? l_min_ts L then
          match l_resume L with
          | Some r => if r_max_ts r <? ts then ts else l_min_ts L
          | None => ts
          end
        else l_min_ts L in
    let max' := if l_max_ts L <? ts then ts else l_max_ts L in
    let res' :=
        if l_max_ts L <? ts then l_resume L else
          match l_resume L with
          | Some r => if ts <? r_max_ts r - r_max_ts r / 8 then None else Some r
          | None => None
          end in
    ({| l_id := l_id L; l_ecu := l_ecu L; l_nr := l_nr L + 1; l_nr_creq := l_nr_creq L;
        l_start := if lc_start <? l_start L then lc_start else l_start L;
        l_min_ts := min'; l_max_ts := max'; l_last_rt := rt; l_resume := res' |}, None)
  else
    let Ln := new_lc fresh m in
    (L, Some (if resume_detected
              then with_resume Ln (Some {| r_id := l_id L; r_max_ts := l_max_ts L; r_start := l_start L |})
              else Ln)).

(* Lifecycle::merge (self = P, lc_to_merge = L); the invalidated L is dropped by the caller *)
Definition merge (P L : lcy) : lcy :=
  {| l_id := l_id P; l_ecu := l_ecu P; l_nr := l_nr P + l_nr L; l_nr_creq := l_nr_creq P + l_nr_creq L;
     l_start := if l_start L <? l_start P then l_start L else l_start P;
     l_min_ts := if l_min_ts L <? l_min_ts P then l_min_ts L else l_min_ts P;
     l_max_ts := if l_max_ts P <? l_max_ts L then l_max_ts L else l_max_ts P;
     l_last_rt := if l_last_rt P <? l_last_rt L then l_last_rt L else l_last_rt P;
     l_resume := l_resume P |}.

(* the merge test of the detector loop (lc2 = L updated, prev_lc = P) *)
Definition needs_merge (P L : lcy) : bool :=
  (l_start L <=? end_time P) && negb (is_resume L) && negb (slightly_overlapping P (l_start L)).

(* confirmation test of the once-per-second check *)
Definition confirmable (m : msg) (L : lcy) : bool :=
  let min_lc_start := m_rt m - (m_ts m + MAX_BUFFERING_DELAY) in
  ((l_start L <? min_lc_start) && (l_ecu L =? m_ecu m))
  || (MAX_BUFFERING_DELAY <? l_max_ts L - l_min_ts L)
  || (end_time L <? m_rt m - MAX_BUFFERING_DELAY).

(* ------------------------------------------------------------------ detector state *)
Definition emap_t := list (N * list lcy).
Definition table := list (N * lcy).            (* published table as readers see it *)
Inductive pend_op := PUpdate (id : N) (L : lcy) | PEmpty (id : N).

Record det := {
  emap : emap_t;              (* ecu -> lifecycles, oldest first; ECUs in first-appearance order *)
  queue : list msg;           (* buffered_msgs *)
  buffered : list N;          (* buffered_lcs *)
  next_id : N;                (* NEXT_LC_ID *)
  next_check : N;             (* next_buffer_check_time *)
  last_idx : N;               (* last_msg_index *)
  to_refresh : list N;        (* lcs_to_refresh *)
  last_reg : N;               (* last_regular_refresh_index *)
  vis : table;                (* evmap readers' side *)
  pend : list pend_op         (* evmap writer's not yet refreshed operations *)
}.

(* a delivery = the message handed to the outflow together with the published table at that instant *)
Notation delivery := (msg * table)%type.

Definition inb (x : N) (l : list N) : bool := existsb (N.eqb x) l.
Definition remove_id (x : N) (l : list N) : list N := filter (fun y => negb (N.eqb x y)) l.
Fixpoint lookup (e : N) (m : emap_t) : list lcy :=
  match m with [] => [] | (k, v) :: r => if N.eqb k e then v else lookup e r end.
Fixpoint store (e : N) (v : list lcy) (m : emap_t) : emap_t :=
  match m with
  | [] => [(e, v)]
  | (k, w) :: r => if N.eqb k e then (k, v) :: r else (k, w) :: store e v r
  end.
Definition relabel (from to : N) (q : list msg) : list msg :=
  map (fun m => if N.eqb (m_lc m) from then set_lc m to else m) q.
Definition count_lc (i : N) (q : list msg) : N := N.of_nat (length (filter (fun m => N.eqb (m_lc m) i) q)).
Definition mark (id : N) (tr : list N) : list N := if inb id tr then tr else tr ++ [id].

(* evmap *)
Fixpoint tbl_remove (id : N) (t : table) : table :=
  match t with [] => [] | (k, v) :: r => if N.eqb k id then tbl_remove id r else (k, v) :: tbl_remove id r end.
Definition tbl_set (id : N) (L : lcy) (t : table) : table := tbl_remove id t ++ [(id, L)].
Fixpoint tbl_get (id : N) (t : table) : option lcy :=
  match t with [] => None | (k, v) :: r => if N.eqb k id then Some v else tbl_get id r end.
Definition apply_op (t : table) (o : pend_op) : table :=
  match o with PUpdate id L => tbl_set id L t | PEmpty id => tbl_remove id t end.
Definition refresh (t : table) (p : list pend_op) : table := fold_left apply_op p t.

(* all lifecycles in the iteration order of the loops `for ecu_lcs in ecu_map.values() { for lc in ecu_lcs.iter().rev()` *)
Definition all_lcs (em : emap_t) : list lcy := flat_map (fun kv => rev (snd kv)) em.

(* ------------------------------------------------------------------ phase 1: assign / merge *)
(* flush of the whole queue after a merge emptied buffered_lcs: marks on every change of lifecycle id *)
Fixpoint flush_marks (last : N) (q : list msg) (tr : list N) : list N :=
  match q with
  | [] => tr
  | m :: r => if N.eqb (m_lc m) last then flush_marks last r tr else flush_marks (m_lc m) r (mark (m_lc m) tr)
  end.

Record p1 := {
  p_emap : emap_t; p_q : list msg; p_buf : list N; p_nid : N; p_msg : msg;
  p_out : list msg;       (* delivered by the flush, in order *)
  p_tr : list N; p_pend : list pend_op
}.

Definition phase1 (d : det) (m0 : msg) : p1 :=
  let keep em m :=
      {| p_emap := em; p_q := queue d; p_buf := buffered d; p_nid := next_id d; p_msg := m; p_out := [];
         p_tr := to_refresh d; p_pend := pend d |} in
  match rev (lookup (m_ecu m0) (emap d)) with
  | [] =>
    let L := new_lc (next_id d) m0 in
    {| p_emap := store (m_ecu m0) [L] (emap d); p_q := queue d; p_buf := buffered d ++ [next_id d];
       p_nid := next_id d + 1; p_msg := set_lc m0 (next_id d); p_out := [];
       p_tr := to_refresh d; p_pend := pend d |}
  | L :: prevs_rev =>
    match update L m0 (next_id d) with
    | (L', Some Ln) =>
      {| p_emap := store (m_ecu m0) (rev prevs_rev ++ [L'; Ln]) (emap d); p_q := queue d;
         p_buf := buffered d ++ [l_id Ln]; p_nid := next_id d + 1; p_msg := set_lc m0 (l_id Ln); p_out := [];
         p_tr := to_refresh d; p_pend := pend d |}
    | (L', None) =>
      let nomerge := keep (store (m_ecu m0) (rev prevs_rev ++ [L']) (emap d)) (set_lc m0 (l_id L')) in
      match prevs_rev with
      | P :: pp =>
        if needs_merge P L' &&
           (inb (l_id P) (buffered d) || N.eqb (count_lc (l_id L') (queue d) + 1) (l_nr L'))
        then
          let P' := merge P L' in
          let q' := relabel (l_id L') (l_id P) (queue d) in
          let buf' := remove_id (l_id L') (buffered d) in
          (* repaired: a merged lifecycle that is not buffered any more was published: take it out of the table *)
          let pend' := if inb (l_id L') (buffered d) then pend d else pend d ++ [PEmpty (l_id L')] in
          let em' := store (m_ecu m0) (rev pp ++ [P']) (emap d) in
          match buf' with
          | [] => {| p_emap := em'; p_q := []; p_buf := []; p_nid := next_id d; p_msg := set_lc m0 (l_id P);
                     p_out := q'; p_tr := flush_marks 0 q' (to_refresh d); p_pend := pend' |}
          | _ => {| p_emap := em'; p_q := q'; p_buf := buf'; p_nid := next_id d; p_msg := set_lc m0 (l_id P);
                    p_out := []; p_tr := to_refresh d; p_pend := pend' |}
          end
        else nomerge
      | [] => nomerge
      end
    end
  end.

(* ------------------------------------------------------------------ phase 2: once-per-second confirmation *)
(* release of the queue front after a confirmation *)
Fixpoint release (prune : N) (buf : list N) (q : list msg) (tr : list N) : list msg * list msg * list N :=
  match q with
  | [] => ([], [], tr)
  | m :: r =>
    if N.eqb (m_lc m) prune then
      let '(o, q', tr') := release prune buf r tr in (m :: o, q', tr')
    else if negb (inb (m_lc m) buf) then
      let '(o, q', tr') := release (m_lc m) buf r (mark (m_lc m) tr) in (m :: o, q', tr')
    else ([], q, tr)
  end.

Record cstate := { c_buf : list N; c_vis : table; c_pend : list pend_op; c_q : list msg; c_tr : list N;
                   c_out : list delivery }.

Fixpoint confirm_pass (m : msg) (ls : list lcy) (c : cstate) : cstate :=
  match ls with
  | [] => c
  | L :: r =>
    if inb (l_id L) (c_buf c) && confirmable m L then
      let buf' := remove_id (l_id L) (c_buf c) in
      let vis' := refresh (c_vis c) (c_pend c ++ [PUpdate (l_id L) L]) in
      let '(o, q', tr') := release (l_id L) buf' (c_q c) (c_tr c) in
      confirm_pass m r {| c_buf := buf'; c_vis := vis'; c_pend := []; c_q := q'; c_tr := tr';
                          c_out := c_out c ++ map (fun x => (x, vis')) o |}
    else confirm_pass m r c
  end.

Definition phase2 (d : det) (p : p1) : cstate * N :=
  let c0 := {| c_buf := p_buf p; c_vis := vis d; c_pend := p_pend p; c_q := p_q p; c_tr := p_tr p; c_out := [] |} in
  let m := p_msg p in
  if next_check d <? m_rt m then
    ((if m_ts m + MAX_BUFFERING_DELAY <? m_rt m then confirm_pass m (all_lcs (p_emap p)) c0 else c0),
     m_rt m + US_PER_SEC)
  else (c0, next_check d).

(* ------------------------------------------------------------------ regular refresh (rule #2) *)
Definition marked_updates (em : emap_t) (tr : list N) : list pend_op :=
  map (fun L => PUpdate (l_id L) L) (filter (fun L => inb (l_id L) tr) (all_lcs em)).

(* returns (vis, pend, to_refresh, last_reg) *)
Definition regular_refresh (force : bool) (em : emap_t) (lastidx lastreg : N) (v : table) (pd : list pend_op) (tr : list N)
  : table * list pend_op * list N * N :=
  if force || (lastreg + 100000 <? lastidx) then
    (refresh v (pd ++ marked_updates em tr), [], [], lastidx)
  else (v, pd, tr, lastreg).

(* ------------------------------------------------------------------ one message *)
Definition step (d : det) (m0 : msg) : det * list delivery :=
  let p := phase1 d m0 in
  let '(c, nc) := phase2 d p in
  let flushed := map (fun x => (x, vis d)) (p_out p) in
  match c_buf c with
  | [] =>
    let tr1 := mark (m_lc (p_msg p)) (c_tr c) in
    let '(v, pd, tr2, lr) := regular_refresh false (p_emap p) (m_index m0) (last_reg d) (c_vis c) (c_pend c) tr1 in
    ({| emap := p_emap p; queue := c_q c; buffered := []; next_id := p_nid p; next_check := nc;
        last_idx := m_index m0; to_refresh := tr2; last_reg := lr; vis := v; pend := pd |},
     flushed ++ c_out c ++ [(p_msg p, v)])
  | _ =>
    ({| emap := p_emap p; queue := c_q c ++ [p_msg p]; buffered := c_buf c; next_id := p_nid p; next_check := nc;
        last_idx := m_index m0; to_refresh := c_tr c; last_reg := last_reg d; vis := c_vis c; pend := c_pend c |},
     flushed ++ c_out c)
  end.

Fixpoint run (d : det) (ms : list msg) : det * list delivery :=
  match ms with
  | [] => (d, [])
  | m :: r => let '(d1, o1) := step d m in let '(d2, o2) := run d1 r in (d2, o1 ++ o2)
  end.

(* end of the stream: publish what is still buffered, deliver the queue, final forced refresh *)
Definition finish (d : det) : table * list delivery :=
  let ups := map (fun L => PUpdate (l_id L) L) (filter (fun L => inb (l_id L) (buffered d)) (all_lcs (emap d))) in
  let v1 := refresh (vis d) (pend d ++ ups) in
  let tr := fold_left (fun t m => mark (m_lc m) t) (queue d) (to_refresh d) in
  let '(v2, _, _, _) := regular_refresh true (emap d) (last_idx d) (last_reg d) v1 [] tr in
  (v2, map (fun x => (x, v1)) (queue d)).

(* initial state; a pre-populated published table is given as the list of its lifecycles in the
   iteration order of the evmap (a choice: HashMap order) *)
Fixpoint init_emap (ls : list lcy) (em : emap_t) : emap_t :=
  match ls with
  | [] => em
  | L :: r => init_emap r (store (l_ecu L) (lookup (l_ecu L) em ++ [L]) em)
  end.
Definition init (first_id : N) (pre : list lcy) : det :=
  {| emap := init_emap pre []; queue := []; buffered := []; next_id := first_id; next_check := 0; last_idx := 0;
     to_refresh := []; last_reg := 0; vis := map (fun L => (l_id L, L)) pre; pend := [] |}.

Definition detect (first_id : N) (pre : list lcy) (ms : list msg) : list delivery * table :=
  let '(d, o1) := run (init first_id pre) ms in
  let '(t, o2) := finish d in
  (o1 ++ o2, t).

(* ------------------------------------------------------------------ listing (get_sorted_lifecycles_as_vec, as repaired) *)
Definition origin_id (L : lcy) : N := match l_resume L with Some r => r_id r | None => 0 end.
Definition u64max : N := 18446744073709551615.

Fixpoint assoc_key (id : N) (keys : list (N * N)) : option N :=
  match keys with [] => None | (k, v) :: r => if N.eqb k id then Some v else assoc_key id r end.

(* insertion sort of lifecycles by id (lcs_by_id.sort_by_key(|lc| lc.id)) *)
Fixpoint ins_lc_by_id (x : lcy) (l : list lcy) : list lcy :=
  match l with
  | [] => [x]
  | y :: r => if l_id x <=? l_id y then x :: l else y :: ins_lc_by_id x r
  end.
Definition lcs_by_id (l : list lcy) : list lcy := fold_right ins_lc_by_id [] l.

(* the loop computing the sort keys; HashMap::insert on an existing id would overwrite: ids are unique *)
Definition sort_key_of (L : lcy) (keys : list (N * N)) : N :=
  match l_resume L with
  | Some rs =>
      match assoc_key (r_id rs) keys with
      | Some ok => if l_start L <=? ok then N.min (ok + 1) u64max else l_start L
      | None => l_start L
      end
  | None => l_start L
  end.
Fixpoint key_pass (ls : list lcy) (keys : list (N * N)) : list (N * N) :=
  match ls with
  | [] => keys
  | L :: r => key_pass r ((l_id L, sort_key_of L keys) :: keys)
  end.
Definition sort_keys (t : list lcy) : list (N * N) := key_pass (lcs_by_id t) [].
Definition key_of (keys : list (N * N)) (L : lcy) : N := match assoc_key (l_id L) keys with Some k => k | None => 0 end.

(* sort_by_key(|lc| (key, id)): lexicographic, a strict total order when ids are unique *)
Definition key_le (keys : list (N * N)) (a b : lcy) : bool :=
  (key_of keys a <? key_of keys b) || ((key_of keys a =? key_of keys b) && (l_id a <=? l_id b)).
Fixpoint ins_key (keys : list (N * N)) (x : lcy) (l : list lcy) : list lcy :=
  match l with
  | [] => [x]
  | y :: r => if key_le keys x y then x :: l else y :: ins_key keys x r
  end.
Definition listing (t : list lcy) : list lcy :=
  let keys := sort_keys t in fold_right (ins_key keys) [] t.
