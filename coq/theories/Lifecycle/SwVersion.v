(* The part of Lifecycle::update (src/lifecycle/mod.rs) that looks INTO a message's payload: the sw-version block.

       if self.sw_version.is_none() && msg.is_ctrl_response() {
           let mut args = msg.into_iter();
           let message_id = match args.next() {
               Some(a) => match a.payload_raw.get(0..4) {
                   Some(id_bytes) => u32::from_{be,le}_bytes(id_bytes.try_into().unwrap()),   (by a.is_big_endian)
                   None => 0 },
               None => 0 };
           if message_id == SERVICE_ID_GET_SOFTWARE_VERSION {
               let (payload, is_big_endian) = match args.next() {
                   Some(a) => (a.payload_raw, a.is_big_endian),
                   None => (&[] as &[u8], false) };
               if payload.len() >= 5 {
                   if let Some(sw_vers) = parse_ctrl_sw_version_payload(is_big_endian, &payload[1..]) {
                       self.sw_version = Some(sw_vers);
                   } } } }

   It runs for a message that was judged part of the current lifecycle, after all the bookkeeping that the detector
   model (Lifecycle/Model.v) transcribes; it writes nothing but [sw_version], which no observable of C05..C08 reads.
   The detector model therefore abstracts the payload away -- which is sound only if this block RETURNS for whatever
   the argument iterator of the dlt module delivers (non-verbose: second argument only when the payload has more than
   4 bytes; verbose: None for a missing / truncated / unsupported argument, an empty slice for a raw or string argument
   of length 0).  Here the block is written in the [res] monad with every slicing operation checked, in program order;
   the arguments are inputs (any two optional (bytes, byte order) pairs).  parse_ctrl_sw_version_payload is C03's
   checked model (Crash/ControlMsgs.v).  No proofs in this file. *)
From Coq Require Import List NArith Bool.
From AdltV Require Import Base.Res Base.MachInt Crash.ControlMsgs.
Import ListNotations.
Open Scope N_scope.

Definition SERVICE_ID_GET_SOFTWARE_VERSION : N := 19.

(* DltArg as far as the block uses it: payload_raw, is_big_endian *)
Definition arg := (bytes * bool)%type.

(* a.payload_raw.get(0..4): None when the slice is shorter (checked lookup since fix 8c3266f) *)
Definition get_opt (l : bytes) (a b : N) : option bytes :=
  if (a <=? b) && (b <=? blen l) then Some (sub l a (b - a)) else None.

Definition message_id (a1 : option arg) : N :=
  match a1 with
  | Some (p, be) => match get_opt p 0 4 with Some idb => from_bytes be idb | None => 0 end
  | None => 0
  end.

(* the new value of self.sw_version *)
Definition sw_block (cur : option bytes) (is_ctrl_response : bool) (a1 a2 : option arg) : res (option bytes) :=
  (match cur with
   | Some _ => Ok cur
   | None =>
     if negb is_ctrl_response then Ok cur else
     if negb (message_id a1 =? SERVICE_ID_GET_SOFTWARE_VERSION) then Ok cur else
     let '(payload, be) := match a2 with Some a => a | None => ([], false) end in
     if 5 <=? blen payload then
       rest <- index_from payload 1 ;;
       r <- parse_sw_version be rest ;;
       Ok (match r with Some s => Some s | None => cur end)
     else Ok cur
   end)%res.

(* the same block with the slice taken BEFORE the length test (`let payload = &payload[1..]; if payload.len() >= 4`):
   what a reordering of the two lines would be; kept to show that the totality theorem separates the two *)
Definition sw_block_slice_first (cur : option bytes) (is_ctrl_response : bool) (a1 a2 : option arg) : res (option bytes) :=
  (match cur with
   | Some _ => Ok cur
   | None =>
     if negb is_ctrl_response then Ok cur else
     if negb (message_id a1 =? SERVICE_ID_GET_SOFTWARE_VERSION) then Ok cur else
     let '(payload, be) := match a2 with Some a => a | None => ([], false) end in
     rest <- index_from payload 1 ;;
     if 4 <=? blen rest then
       r <- parse_sw_version be rest ;;
       Ok (match r with Some s => Some s | None => cur end)
     else Ok cur
   end)%res.
