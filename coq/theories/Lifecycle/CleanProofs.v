(* C08: cleanly separated power cycles are detected exactly. *)
From Coq Require Import List NArith Bool Lia Permutation Sorted Arith PeanoNat.
From AdltV Require Import Lifecycle.Model Lifecycle.ForwardProofs Lifecycle.PublishProofs Lifecycle.CountProofs Lifecycle.TableProofs.
Import ListNotations.
Open Scope N_scope.

(* the boot time a message testifies to: reception time minus timestamp *)
Definition boot (x : msg) : N := m_rt x - m_ts x.
Definition CleanMsg (x : msg) : Prop := m_has_ts x = true /\ m_creq x = false /\ m_ts x <= m_rt x.

(* x may follow the history h: every earlier message of the same ECU belongs to the same boot, or to a boot that
   ended (boot time + its timestamp) at least 1 ms before x's boot time *)
Definition CleanHist (h : list msg) (x : msg) : Prop :=
  CleanMsg x /\ forall y, In y h -> m_ecu y = m_ecu x -> boot y = boot x \/ boot y + m_ts y + 1000 <= boot x.
Fixpoint CleanFrom (h ms : list msg) : Prop :=
  match ms with [] => True | x :: r => CleanHist h x /\ CleanFrom (h ++ [x]) r end.
Definition CleanStream (ms : list msg) : Prop := CleanFrom [] ms.

Lemma boot_set_lc x i : boot (set_lc x i) = boot x. Proof. reflexivity. Qed.

Definition EndOk (L : lcy) : Prop := l_max_ts L = 0 -> l_last_rt L = l_start L.

Lemma end_time_ok L : EndOk L -> end_time L = l_start L + l_max_ts L.
Proof. unfold EndOk, end_time. intros H. destruct (l_max_ts L =? 0) eqn:E; [apply N.eqb_eq in E; rewrite (H E), E; lia|reflexivity]. Qed.

(* ------------------------------------------------------------------ the arithmetic of update on clean traces *)
Lemma slightly_overlapping_false L other :
  EndOk L -> (other = l_start L \/ l_start L + l_max_ts L < other) -> slightly_overlapping L other = false.
Proof.
  intros He H. unfold slightly_overlapping. rewrite (end_time_ok L He).
  destruct H as [->|H].
  - (* e < start + 2s  and  start + 10s < e  cannot both hold *)
    destruct (l_start L + l_max_ts L <? l_start L + US_PER_SEC * 2) eqn:E1;
    destruct (l_start L + US_PER_SEC * 10 <? l_start L + l_max_ts L) eqn:E2; rewrite ?andb_false_r, ?andb_true_r; try reflexivity.
    apply N.ltb_lt in E1, E2. unfold US_PER_SEC in *. lia.
  - destruct (other <=? l_start L + l_max_ts L) eqn:E; [apply N.leb_le in E; lia|reflexivity].
Qed.

Lemma update_same_boot L x f :
  CleanMsg x -> EndOk L -> boot x = l_start L ->
  exists L', update L x f = (L', None) /\ l_start L' = l_start L /\ l_max_ts L' = N.max (l_max_ts L) (m_ts x) /\
             l_last_rt L' = m_rt x /\ EndOk L'.
Proof.
  intros [Hts [Hcr Hle]] He Hb. unfold boot in Hb. unfold update. rewrite Hcr, Hts. rewrite Hb.
  rewrite (slightly_overlapping_false L (l_start L) He (or_introl eq_refl)). cbn [negb andb orb].
  rewrite (end_time_ok L He).
  assert (E1 : (l_start L <=? l_start L + l_max_ts L) = true) by (apply N.leb_le; lia). rewrite E1.
  rewrite N.ltb_irrefl. cbn [andb orb].
  assert (E2 : (MAX_BUFFERING_DELAY <? 0) = false) by reflexivity. rewrite E2. cbn [andb].
  assert (E3 : (l_start L + US_PER_SEC * 10 <=? l_start L) = false) by (apply N.leb_gt; unfold US_PER_SEC; lia).
  rewrite E3. rewrite !andb_false_r. cbn [andb negb].
  eexists. split; [reflexivity|]. cbn [l_start l_max_ts l_last_rt]. split; [reflexivity|]. split.
  - destruct (l_max_ts L <? m_ts x) eqn:E; [apply N.ltb_lt in E; lia|apply N.ltb_ge in E; lia].
  - split; [reflexivity|]. unfold EndOk. cbn [l_start l_max_ts l_last_rt]. intros Hz.
    destruct (l_max_ts L <? m_ts x) eqn:E; [apply N.ltb_lt in E; lia|]. apply N.ltb_ge in E. lia.
Qed.

Lemma update_new_boot L x f :
  CleanMsg x -> EndOk L -> l_start L + l_max_ts L + 1000 <= boot x ->
  exists Ln, update L x f = (L, Some Ln) /\ l_id Ln = f /\ l_start Ln = boot x /\ l_max_ts Ln = m_ts x /\
             l_last_rt Ln = m_rt x /\ EndOk Ln /\ l_nr Ln = 1.
Proof.
  intros [Hts [Hcr Hle]] He Hb. unfold update. rewrite Hcr, Hts. fold (boot x).
  rewrite (slightly_overlapping_false L (boot x) He) by (right; lia). cbn [negb andb orb].
  rewrite (end_time_ok L He).
  assert (E1 : (boot x <=? l_start L + l_max_ts L) = false) by (apply N.leb_gt; lia). rewrite E1. cbn [andb orb].
  rewrite !andb_false_r. cbn [andb].
  assert (Hn : forall Ln0, Ln0 = new_lc f x -> l_id Ln0 = f /\ l_start Ln0 = boot x /\ l_max_ts Ln0 = m_ts x /\ l_last_rt Ln0 = m_rt x /\ EndOk Ln0 /\ l_nr Ln0 = 1).
  { intros Ln0 ->. unfold new_lc, EndOk. rewrite Hcr. destruct (m_rt x <? m_ts x) eqn:E; [apply N.ltb_lt in E; lia|].
    cbn [l_id l_start l_max_ts l_last_rt l_nr]. unfold boot. repeat split; try reflexivity. intros Hz. lia. }
  destruct (_ && _ && _ && _).
  - eexists. split; [reflexivity|]. destruct (Hn _ eq_refl) as [H1 [H2 [H3 [H4 [H5 H6]]]]]. cbn [with_resume l_id l_start l_max_ts l_last_rt l_nr].
    repeat split; auto.
  - eexists. split; [reflexivity|]. apply Hn. reflexivity.
Qed.

Lemma new_lc_clean f x : CleanMsg x ->
  l_start (new_lc f x) = boot x /\ l_max_ts (new_lc f x) = m_ts x /\ l_last_rt (new_lc f x) = m_rt x /\ EndOk (new_lc f x).
Proof.
  intros [Hts [Hcr Hle]]. unfold new_lc, EndOk. rewrite Hcr. destruct (m_rt x <? m_ts x) eqn:E; [apply N.ltb_lt in E; lia|].
  cbn [l_start l_max_ts l_last_rt]. unfold boot. repeat split; try reflexivity. intros Hz. lia.
Qed.

Lemma needs_merge_false P L : EndOk P -> l_start P + l_max_ts P + 1000 <= l_start L -> needs_merge P L = false.
Proof.
  intros He H. unfold needs_merge. rewrite (end_time_ok P He).
  destruct (l_start L <=? l_start P + l_max_ts P) eqn:E; [apply N.leb_le in E; lia|reflexivity].
Qed.

(* ------------------------------------------------------------------ emap helpers *)
Lemma lookup_store_same e v em : lookup e (store e v em) = v.
Proof.
  induction em as [|[k w] r IH]; cbn [store lookup]; [rewrite N.eqb_refl; reflexivity|].
  destruct (N.eqb k e) eqn:E; cbn [lookup]; rewrite E; [reflexivity|exact IH].
Qed.
Lemma lookup_store_other e e' v em : e' <> e -> lookup e' (store e v em) = lookup e' em.
Proof.
  intros Hne. induction em as [|[k w] r IH]; cbn [store lookup].
  - destruct (N.eqb e e') eqn:E; [apply N.eqb_eq in E; congruence|reflexivity].
  - destruct (N.eqb k e) eqn:E; cbn [lookup].
    + apply N.eqb_eq in E. subst k. destruct (N.eqb e e') eqn:E2; [apply N.eqb_eq in E2; congruence|reflexivity].
    + destruct (N.eqb k e'); [reflexivity|exact IH].
Qed.

(* what one step hands on: the flushed messages, the (relabelled) queue and the current message *)
Lemma step_elems d m d' o : InvQ d -> step d m = (d', o) ->
  map fst o ++ queue d' = p_out (phase1 d m) ++ p_q (phase1 d m) ++ [p_msg (phase1 d m)].
Proof.
  intros HQ0 Hstep. unfold step in Hstep.
  destruct (phase2 d (phase1 d m)) as [c nc] eqn:E2.
  destruct (phase2_rel _ _ _ _ E2) as [_ [D [ED [EQ _]]]].
  pose proof (phase1_inv d m HQ0) as Hp0.
  destruct (phase2_spec _ _ _ _ E2) as [_ Hc0]. specialize (Hc0 Hp0).
  destruct (c_buf c) as [|b bs] eqn:Eb.
  - destruct (regular_refresh _ _ _ _ _ _ _) as [[[v pd] tr2] lr]. inversion Hstep; subst d' o. cbn [queue].
    rewrite (Hc0 eq_refl) in *. rewrite app_nil_r in *. rewrite !map_app, map_fst_pair, ED, EQ. cbn [map fst]. reflexivity.
  - inversion Hstep; subst d' o. cbn [queue]. rewrite !map_app, map_fst_pair, ED, EQ, <- !app_assoc. reflexivity.
Qed.

(* ------------------------------------------------------------------ the per-ECU invariant *)
Definition Gap (P L : lcy) : Prop := l_start P + l_max_ts P + 1000 <= l_start L.

Record EcuClean (hs : list msg) (e : N) (ls : list lcy) : Prop := {
  e_end : forall L, In L ls -> EndOk L;
  e_le : forall L y, In L ls -> In y hs -> m_ecu y = e -> boot y = l_start L -> m_ts y <= l_max_ts L;
  e_max : forall L, In L ls -> exists y, In y hs /\ m_ecu y = e /\ boot y = l_start L /\ m_ts y = l_max_ts L;
  e_all : forall y, In y hs -> m_ecu y = e -> exists L, In L ls /\ l_start L = boot y;
  e_gap : StronglySorted Gap ls
}.

Lemma EcuClean_other hs e ls x : m_ecu x <> e -> EcuClean hs e ls -> EcuClean (hs ++ [x]) e ls.
Proof.
  intros Hne [H1 H2 H3 H4 H5]. constructor; auto.
  - intros L y HL Hy He Hb. apply in_app_or in Hy. destruct Hy as [Hy|[<-|[]]]; [eapply H2; eauto|congruence].
  - intros L HL. destruct (H3 L HL) as [y [Hy Hr]]. exists y. split; [apply in_or_app; left; exact Hy|exact Hr].
  - intros y Hy He. apply in_app_or in Hy. destruct Hy as [Hy|[<-|[]]]; [apply H4; assumption|congruence].
Qed.

Record CInv (d : det) (hs out : list msg) : Prop := {
  c6 : Inv6 d;
  cq0 : InvQ d;
  c_ecu : forall e, EcuClean hs e (lookup e (emap d));
  c_asg : forall x, In x (out ++ queue d) ->
          exists L, In L (lookup (m_ecu x) (emap d)) /\ l_id L = m_lc x /\ l_start L = boot x
}.

Lemma gap_last prevs L : StronglySorted Gap (prevs ++ [L]) -> forall P, In P prevs -> Gap P L.
Proof.
  induction prevs as [|Q r IH]; intros Hs P HP; [destruct HP|]. cbn [app] in Hs.
  inversion Hs as [|a l Hs' Hall Eq]; subst. destruct HP as [<-|HP].
  - rewrite Forall_forall in Hall. apply Hall. apply in_or_app. right. left. reflexivity.
  - apply IH; assumption.
Qed.

Lemma gap_snoc ls L : StronglySorted Gap ls -> (forall P, In P ls -> Gap P L) -> StronglySorted Gap (ls ++ [L]).
Proof.
  induction ls as [|Q r IH]; intros Hs Hg; cbn [app]; [repeat constructor|].
  inversion Hs as [|a l Hs' Hall Eq]; subst. constructor; [apply IH; [exact Hs'|intros P HP; apply Hg; right; exact HP]|].
  rewrite Forall_app. split; [exact Hall|]. constructor; [apply Hg; left; reflexivity|constructor].
Qed.

Lemma gap_replace_last prevs L L' : l_start L' = l_start L -> StronglySorted Gap (prevs ++ [L]) -> StronglySorted Gap (prevs ++ [L']).
Proof.
  intros E Hs. apply gap_snoc.
  - clear - Hs. induction prevs as [|Q r IH]; [constructor|]. cbn [app] in Hs. inversion Hs as [|a l Hs' Hall Eq]; subst.
    constructor; [apply IH; exact Hs'|]. rewrite Forall_app in Hall. tauto.
  - intros P HP. unfold Gap. rewrite E. apply (gap_last prevs L Hs P HP).
Qed.

(* phase 1 on a clean message: no merge, nothing relabelled, the ECU's list keeps describing the boots *)
Lemma phase1_clean d hs out m :
  CleanHist hs m -> CInv d hs out ->
  let p := phase1 d m in
  p_out p = [] /\ p_q p = queue d /\
  (forall e, EcuClean (hs ++ [m]) e (lookup e (p_emap p))) /\
  (forall x, In x (out ++ queue d ++ [p_msg p]) ->
             exists L, In L (lookup (m_ecu x) (p_emap p)) /\ l_id L = m_lc x /\ l_start L = boot x).
Proof.
  intros [HCm HCh] [H6 HQ0 Hecu Hasg]. cbn zeta.
  destruct (phase1_cases d m) as [v [Eem HC]].
  pose proof (Hecu (m_ecu m)) as He.
  assert (Hother : forall e, e <> m_ecu m -> EcuClean (hs ++ [m]) e (lookup e (store (m_ecu m) v (emap d)))).
  { intros e Hne. rewrite lookup_store_other by exact Hne. apply EcuClean_other; [congruence|apply Hecu]. }
  assert (Hasg_other : forall x, In x (out ++ queue d) -> m_ecu x <> m_ecu m ->
             exists L, In L (lookup (m_ecu x) (store (m_ecu m) v (emap d))) /\ l_id L = m_lc x /\ l_start L = boot x).
  { intros x Hx Hne. rewrite lookup_store_other by exact Hne. apply Hasg. exact Hx. }
  (* which case applies is decided by the boot of m versus the current lifecycle *)
  set (p := phase1 d m) in *.
  destruct HC as [Hl -> Eq Ebuf Enid Emsg Eout Etr Epend
                 |prevs L Ln Hl -> Eid Enr Eecu Eq Ebuf Enid Emsg Eout Etr Epend Eupd
                 |prevs L L' Hl -> Eid Eecu Enr Eq Ebuf Enid Emsg Eout Etr Epend Eupd
                 |pp P L L' Hl -> Eid Eecu Enr Hcond Enid Emsg Epend Hsub Hnm Eupd].
  - (* first message of the ECU *)
    destruct (new_lc_clean (next_id d) m HCm) as [Ns [Nm [Nr Ne]]].
    assert (Hnone : forall y, In y hs -> m_ecu y = m_ecu m -> False).
    { intros y Hy Hye. destruct (e_all _ _ _ He y Hy Hye) as [L0 [HL0 _]]. rewrite Hl in HL0. destruct HL0. }
    split; [exact Eout|]. split; [exact Eq|]. rewrite Eem. split.
    + intros e. destruct (N.eq_dec e (m_ecu m)) as [->|Hne]; [|apply Hother; exact Hne].
      rewrite lookup_store_same. constructor.
      * intros L0 [<-|[]]. exact Ne.
      * intros L0 y [<-|[]] Hy Hye Hb. apply in_app_or in Hy. destruct Hy as [Hy|[<-|[]]]; [exfalso; eapply Hnone; eauto|lia].
      * intros L0 [<-|[]]. exists m. split; [apply in_or_app; right; left; reflexivity|]. auto.
      * intros y Hy Hye. apply in_app_or in Hy. destruct Hy as [Hy|[<-|[]]]; [exfalso; eapply Hnone; eauto|].
        exists (new_lc (next_id d) m). split; [left; reflexivity|exact Ns].
      * repeat constructor.
    + intros x Hx. rewrite app_assoc in Hx. apply in_app_or in Hx. destruct Hx as [Hx|[<-|[]]].
      * destruct (N.eq_dec (m_ecu x) (m_ecu m)) as [E|Hne]; [|apply Hasg_other; assumption].
        exfalso. destruct (Hasg x Hx) as [L0 [HL0 _]]. rewrite E, Hl in HL0. destruct HL0.
      * rewrite Emsg. cbn [set_lc m_ecu m_lc]. rewrite lookup_store_same. exists (new_lc (next_id d) m).
        split; [left; reflexivity|]. split; [reflexivity|exact Ns].
  - (* a new lifecycle is created: m must belong to a new boot *)
    assert (HLin : In L (lookup (m_ecu m) (emap d))) by (rewrite Hl; apply in_or_app; right; left; reflexivity).
    pose proof (e_end _ _ _ He L HLin) as HeL.
    destruct (e_max _ _ _ He L HLin) as [ys [Hys [Hyse [Hysb Hyst]]]].
    destruct (HCh ys Hys Hyse) as [Hsame|Hnew].
    { exfalso. destruct (update_same_boot L m (next_id d) HCm HeL) as [L1 [Eu1 _]]; [congruence|]. rewrite Eupd in Eu1. discriminate. }
    assert (Hgap : l_start L + l_max_ts L + 1000 <= boot m) by (rewrite <- Hysb, <- Hyst; exact Hnew).
    destruct (update_new_boot L m (next_id d) HCm HeL Hgap) as [Ln1 [Eu1 [_ [Ns [Nm [Nr [Ne _]]]]]]].
    rewrite Eupd in Eu1. inversion Eu1; subst Ln1. clear Eu1.
    assert (Hgs := e_gap _ _ _ He). rewrite Hl in Hgs.
    assert (HgapAll : forall P0, In P0 (prevs ++ [L]) -> Gap P0 Ln).
    { intros P0 HP0. apply in_app_or in HP0. unfold Gap. rewrite Ns. destruct HP0 as [HP0|[<-|[]]]; [|exact Hgap].
      pose proof (gap_last prevs L Hgs P0 HP0) as G. unfold Gap in G. lia. }
    assert (Hnoboot : forall y, In y hs -> m_ecu y = m_ecu m -> boot y <> boot m).
    { intros y Hy Hye Hb. destruct (e_all _ _ _ He y Hy Hye) as [L0 [HL0 Es]]. rewrite Hl in HL0.
      pose proof (HgapAll L0 HL0) as G. unfold Gap in G. rewrite Ns, Es, Hb in G. lia. }
    assert (Ev : prevs ++ [L; Ln] = (prevs ++ [L]) ++ [Ln]) by (rewrite <- app_assoc; reflexivity).
    split; [exact Eout|]. split; [exact Eq|]. rewrite Eem. split.
    + intros e. destruct (N.eq_dec e (m_ecu m)) as [->|Hne]; [|apply Hother; exact Hne].
      rewrite lookup_store_same, Ev, <- Hl. constructor.
      * intros L0 HL0. apply in_app_or in HL0. destruct HL0 as [HL0|[<-|[]]]; [apply (e_end _ _ _ He); exact HL0|exact Ne].
      * intros L0 y HL0 Hy Hye Hb. apply in_app_or in HL0. apply in_app_or in Hy. destruct HL0 as [HL0|[<-|[]]]; destruct Hy as [Hy|[<-|[]]].
        -- eapply (e_le _ _ _ He); eauto.
        -- exfalso. rewrite Hl in HL0. pose proof (HgapAll L0 HL0) as G. unfold Gap in G. rewrite Ns, <- Hb in G. lia.
        -- exfalso. apply (Hnoboot y Hy Hye). congruence.
        -- lia.
      * intros L0 HL0. apply in_app_or in HL0. destruct HL0 as [HL0|[<-|[]]].
        -- destruct (e_max _ _ _ He L0 HL0) as [y [Hy Hr]]. exists y. split; [apply in_or_app; left; exact Hy|exact Hr].
        -- exists m. split; [apply in_or_app; right; left; reflexivity|]. auto.
      * intros y Hy Hye. apply in_app_or in Hy. destruct Hy as [Hy|[<-|[]]].
        -- destruct (e_all _ _ _ He y Hy Hye) as [L0 [HL0 Es]]. exists L0. split; [apply in_or_app; left; exact HL0|exact Es].
        -- exists Ln. split; [apply in_or_app; right; left; reflexivity|exact Ns].
      * rewrite Hl. apply gap_snoc; [exact Hgs|exact HgapAll].
    + intros x Hx. rewrite app_assoc in Hx. apply in_app_or in Hx. destruct Hx as [Hx|[<-|[]]].
      * destruct (N.eq_dec (m_ecu x) (m_ecu m)) as [E|Hne]; [|apply Hasg_other; assumption].
        destruct (Hasg x Hx) as [L0 [HL0 Hr]]. exists L0. rewrite E in *. rewrite lookup_store_same, Ev, <- Hl.
        split; [apply in_or_app; left; exact HL0|exact Hr].
      * rewrite Emsg. cbn [set_lc m_ecu m_lc]. rewrite lookup_store_same. exists Ln.
        split; [rewrite Ev; apply in_or_app; right; left; reflexivity|]. split; [exact Eid|exact Ns].
  - (* joined the current lifecycle: m belongs to the current boot *)
    assert (HLin : In L (lookup (m_ecu m) (emap d))) by (rewrite Hl; apply in_or_app; right; left; reflexivity).
    pose proof (e_end _ _ _ He L HLin) as HeL.
    destruct (e_max _ _ _ He L HLin) as [ys [Hys [Hyse [Hysb Hyst]]]].
    destruct (HCh ys Hys Hyse) as [Hsame|Hnew].
    2:{ exfalso. assert (Hgap : l_start L + l_max_ts L + 1000 <= boot m) by (rewrite <- Hysb, <- Hyst; exact Hnew).
        destruct (update_new_boot L m (next_id d) HCm HeL Hgap) as [Ln1 [Eu1 _]]. rewrite Eupd in Eu1. discriminate. }
    assert (Hb : boot m = l_start L) by congruence.
    destruct (update_same_boot L m (next_id d) HCm HeL Hb) as [L1 [Eu1 [Js [Jm [Jr Je]]]]].
    rewrite Eupd in Eu1. inversion Eu1; subst L1. clear Eu1.
    assert (Hgs := e_gap _ _ _ He). rewrite Hl in Hgs.
    assert (Hprev_start : forall P0, In P0 prevs -> l_start P0 <> l_start L).
    { intros P0 HP0 E. pose proof (gap_last prevs L Hgs P0 HP0) as G. unfold Gap in G. lia. }
    split; [exact Eout|]. split; [exact Eq|]. rewrite Eem. split.
    + intros e. destruct (N.eq_dec e (m_ecu m)) as [->|Hne]; [|apply Hother; exact Hne].
      rewrite lookup_store_same. constructor.
      * intros L0 HL0. apply in_app_or in HL0. destruct HL0 as [HL0|[<-|[]]]; [|exact Je].
        apply (e_end _ _ _ He). rewrite Hl. apply in_or_app. left. exact HL0.
      * intros L0 y HL0 Hy Hye Hby. apply in_app_or in HL0. apply in_app_or in Hy. destruct HL0 as [HL0|[<-|[]]]; destruct Hy as [Hy|[<-|[]]].
        -- eapply (e_le _ _ _ He); eauto. rewrite Hl. apply in_or_app. left. exact HL0.
        -- exfalso. apply (Hprev_start L0 HL0). congruence.
        -- rewrite Jm. rewrite Js in Hby. pose proof (e_le _ _ _ He L y HLin Hy Hye Hby). lia.
        -- rewrite Jm. lia.
      * intros L0 HL0. apply in_app_or in HL0. destruct HL0 as [HL0|[<-|[]]].
        -- destruct (e_max _ _ _ He L0) as [y [Hy Hr]]; [rewrite Hl; apply in_or_app; left; exact HL0|].
           exists y. split; [apply in_or_app; left; exact Hy|exact Hr].
        -- rewrite Jm, Js. destruct (N.le_ge_cases (m_ts m) (l_max_ts L)) as [Hc|Hc].
           ++ exists ys. rewrite N.max_l by exact Hc. split; [apply in_or_app; left; exact Hys|auto].
           ++ exists m. rewrite N.max_r by exact Hc. split; [apply in_or_app; right; left; reflexivity|auto].
      * intros y Hy Hye. apply in_app_or in Hy. destruct Hy as [Hy|[<-|[]]].
        -- destruct (e_all _ _ _ He y Hy Hye) as [L0 [HL0 Es]]. rewrite Hl in HL0. apply in_app_or in HL0. destruct HL0 as [HL0|[<-|[]]].
           ++ exists L0. split; [apply in_or_app; left; exact HL0|exact Es].
           ++ exists L'. split; [apply in_or_app; right; left; reflexivity|congruence].
        -- exists L'. split; [apply in_or_app; right; left; reflexivity|congruence].
      * apply (gap_replace_last prevs L L' Js Hgs).
    + intros x Hx. rewrite app_assoc in Hx. apply in_app_or in Hx. destruct Hx as [Hx|[<-|[]]].
      * destruct (N.eq_dec (m_ecu x) (m_ecu m)) as [E|Hne]; [|apply Hasg_other; assumption].
        destruct (Hasg x Hx) as [L0 [HL0 [E1 E2]]]. rewrite E in *. rewrite lookup_store_same. rewrite Hl in HL0.
        apply in_app_or in HL0. destruct HL0 as [HL0|[<-|[]]].
        -- exists L0. split; [apply in_or_app; left; exact HL0|auto].
        -- exists L'. split; [apply in_or_app; right; left; reflexivity|]. split; congruence.
      * rewrite Emsg. cbn [set_lc m_ecu m_lc]. rewrite lookup_store_same. exists L'.
        split; [apply in_or_app; right; left; reflexivity|]. split; [exact Eid|rewrite boot_set_lc; congruence].
  - (* a merge cannot happen on a clean trace *)
    exfalso.
    assert (HLin : In L (lookup (m_ecu m) (emap d))) by (rewrite Hl; apply in_or_app; right; right; left; reflexivity).
    assert (HPin : In P (lookup (m_ecu m) (emap d))) by (rewrite Hl; apply in_or_app; right; left; reflexivity).
    pose proof (e_end _ _ _ He L HLin) as HeL. pose proof (e_end _ _ _ He P HPin) as HeP.
    destruct (e_max _ _ _ He L HLin) as [ys [Hys [Hyse [Hysb Hyst]]]].
    assert (Hgs := e_gap _ _ _ He). rewrite Hl in Hgs.
    replace (pp ++ [P; L]) with ((pp ++ [P]) ++ [L]) in Hgs by (rewrite <- app_assoc; reflexivity).
    assert (HG : Gap P L) by (apply (gap_last (pp ++ [P]) L Hgs); apply in_or_app; right; left; reflexivity).
    destruct (HCh ys Hys Hyse) as [Hsame|Hnew].
    + assert (Hb : boot m = l_start L) by congruence.
      destruct (update_same_boot L m (next_id d) HCm HeL Hb) as [L1 [Eu1 [Js _]]].
      rewrite Eupd in Eu1. inversion Eu1; subst L1.
      rewrite (needs_merge_false P L' HeP) in Hnm; [discriminate|]. unfold Gap in HG. rewrite Js. exact HG.
    + assert (Hgap : l_start L + l_max_ts L + 1000 <= boot m) by (rewrite <- Hysb, <- Hyst; exact Hnew).
      destruct (update_new_boot L m (next_id d) HCm HeL Hgap) as [Ln1 [Eu1 _]]. rewrite Eupd in Eu1. discriminate.
Qed.

(* ------------------------------------------------------------------ one step / a run *)
Lemma step_clean d hs out m d' o :
  CleanHist hs m -> CInv d hs out -> step d m = (d', o) -> CInv d' (hs ++ [m]) (out ++ map fst o).
Proof.
  intros HC HI Hstep. destruct (phase1_clean d hs out m HC HI) as [Eout [Eq [Hecu Hasg]]].
  destruct HI as [H6 HQ0 _ _].
  destruct (step_ok d m d' o H6 Hstep) as [H6' _].
  destruct (step_forward d m d' o HQ0 Hstep) as [_ HQ0'].
  pose proof (step_emap d m) as Eem. rewrite Hstep in Eem. cbn [fst] in Eem.
  pose proof (step_elems d m d' o HQ0 Hstep) as Eel.
  constructor; [exact H6'|exact HQ0'| |].
  - intros e. rewrite Eem. apply Hecu.
  - intros x Hx. rewrite Eem. apply Hasg. rewrite <- app_assoc, Eel, Eout, Eq in Hx. exact Hx.
Qed.

Lemma run_clean ms : forall d hs out d' o,
  CleanFrom hs ms -> CInv d hs out -> run d ms = (d', o) -> CInv d' (hs ++ ms) (out ++ map fst o).
Proof.
  induction ms as [|m r IH]; intros d hs out d' o HC HI H; cbn [run] in H.
  - inversion H; subst. cbn. rewrite !app_nil_r. exact HI.
  - destruct (step d m) as [d1 o1] eqn:E1. destruct (run d1 r) as [d2 o2] eqn:E2. inversion H; subst.
    destruct HC as [HC1 HC2].
    pose proof (step_clean _ _ _ _ _ _ HC1 HI E1) as H1. pose proof (IH _ _ _ _ _ HC2 H1 E2) as H2.
    rewrite map_app, app_assoc. replace (hs ++ m :: r) with ((hs ++ [m]) ++ r) by (rewrite <- app_assoc; reflexivity). exact H2.
Qed.

(* keys of the per-ECU map stay distinct, so every entry is what lookup finds *)
Lemma store_keys e v em : NoDup (map fst em) -> NoDup (map fst (store e v em)).
Proof.
  induction em as [|[k w] r IH]; cbn [store map fst]; intros H; [constructor; [intros []|constructor]|].
  inversion H as [|a l Hni Hnd Eq]; subst. destruct (N.eqb k e) eqn:E; cbn [map fst]; [constructor; assumption|].
  constructor; [|apply IH; exact Hnd]. intros Hin. apply N.eqb_neq in E.
  clear - Hin Hni E. induction r as [|[k2 w2] r IH]; cbn [store map fst] in *.
  - destruct Hin as [Hin|[]]. congruence.
  - destruct (N.eqb k2 e); cbn [map fst] in Hin; [exact (Hni Hin)|].
    destruct Hin as [Hin|Hin]; [apply Hni; left; exact Hin|]. apply IH; [|exact Hin]. intros H. apply Hni. right. exact H.
Qed.

Lemma lookup_of_entry em k ls : NoDup (map fst em) -> In (k, ls) em -> lookup k em = ls.
Proof.
  induction em as [|[k0 w] r IH]; intros Hnd Hin; [destruct Hin|]. cbn [map fst] in Hnd. inversion Hnd as [|a l Hni Hnd' Eq]; subst.
  cbn [lookup]. destruct Hin as [Hin|Hin].
  - inversion Hin; subst. rewrite N.eqb_refl. reflexivity.
  - destruct (N.eqb k0 k) eqn:E; [|apply IH; assumption]. apply N.eqb_eq in E. subst k0. exfalso. apply Hni.
    apply (in_map fst) in Hin. exact Hin.
Qed.

Lemma run_keys ms : forall d d' o, NoDup (map fst (emap d)) -> run d ms = (d', o) -> NoDup (map fst (emap d')).
Proof.
  induction ms as [|m r IH]; intros d d' o Hk H; cbn [run] in H.
  - inversion H; subst. exact Hk.
  - destruct (step d m) as [d1 o1] eqn:E1. destruct (run d1 r) as [d2 o2] eqn:E2. inversion H; subst.
    eapply IH; [|exact E2]. pose proof (step_emap d m) as Eem. rewrite E1 in Eem. cbn [fst] in Eem. rewrite Eem.
    destruct (phase1_cases d m) as [v [Ev _]]. rewrite Ev. apply store_keys. exact Hk.
Qed.

Lemma gap_start_inj ls a b : StronglySorted Gap ls -> In a ls -> In b ls -> l_start a = l_start b -> a = b.
Proof.
  induction 1 as [|x r Hs IH Hall]; intros Ha Hb E; [destruct Ha|].
  rewrite Forall_forall in Hall.
  destruct Ha as [<-|Ha]; destruct Hb as [<-|Hb]; auto.
  - exfalso. pose proof (Hall b Hb) as G. unfold Gap in G. lia.
  - exfalso. pose proof (Hall a Ha) as G. unfold Gap in G. lia.
Qed.

(* ------------------------------------------------------------------ the theorem *)
Theorem clean_boots_exact first_id ms :
  0 < first_id -> CleanStream ms ->
  let dl := map fst (fst (detect first_id [] ms)) in
  let t := snd (detect first_id [] ms) in
  (* every message is assigned to a listed lifecycle of its ECU whose start is the message's boot time (plus delay)
     and whose end is that start plus the largest timestamp of the boot *)
  (forall x, In x dl ->
     exists L, tbl_get (m_lc x) t = Some L /\ l_ecu L = m_ecu x /\ l_start L = boot x /\
               end_time L = l_start L + l_max_ts L /\
               (forall y, In y ms -> m_ecu y = m_ecu x -> boot y = boot x -> m_ts y <= l_max_ts L) /\
               (exists y, In y ms /\ m_ecu y = m_ecu x /\ boot y = boot x /\ m_ts y = l_max_ts L)) /\
  (* every listed lifecycle is the lifecycle of some boot *)
  (forall i L, tbl_get i t = Some L -> exists y, In y ms /\ m_ecu y = l_ecu L /\ boot y = l_start L) /\
  (* one lifecycle per boot and ECU *)
  (forall i1 L1 i2 L2, tbl_get i1 t = Some L1 -> tbl_get i2 t = Some L2 ->
                       l_ecu L1 = l_ecu L2 -> l_start L1 = l_start L2 -> i1 = i2).
Proof.
  intros Hpos HC. unfold detect. destruct (run (init first_id []) ms) as [d o1] eqn:Er.
  assert (H6i : Inv6 (init first_id [])) by (apply Inv6_init; split; [constructor|]; split; [intros L []|exact Hpos]).
  assert (HCi : CInv (init first_id []) [] []).
  { constructor; [exact H6i|apply InvQ_init| |intros x []].
    intros e. cbn. constructor; try (intros L []); try (intros L y []); [intros y []|constructor]. }
  pose proof (run_clean ms _ _ _ _ _ HC HCi Er) as HI. cbn [app] in HI.
  pose proof (run_inv8 ms _ _ _ _ (Inv7q_init first_id Hpos) (Inv8_init first_id) Er) as H8.
  assert (Hkeys : NoDup (map fst (emap d))) by (apply (run_keys ms (init first_id []) d o1); [constructor|exact Er]).
  destruct HI as [H6 _ Hecu Hasg].
  destruct (finish_table d (i_nd d H6) H8) as [F1 F2].
  pose proof (finish_out d) as Hfo.
  destruct (finish d) as [t o2]. cbn [fst snd] in *. cbn zeta. rewrite map_app, Hfo.
  assert (Hlive : forall X, In X (all_lcs (emap d)) -> In X (lookup (l_ecu X) (emap d))).
  { intros X HX. apply in_all_lcs in HX. destruct HX as [k [ls [Hin HXl]]].
    rewrite (i_key d H6 k ls X Hin HXl). rewrite (lookup_of_entry _ _ _ Hkeys Hin). exact HXl. }
  split; [|split].
  - intros x Hx. destruct (Hasg x Hx) as [L [HL [E1 E2]]]. exists L.
    pose proof (Hecu (m_ecu x)) as He.
    split; [rewrite <- E1; apply F1; apply lookup_in_all in HL; exact HL|].
    split; [eapply KeyOk_lookup; [exact (i_key d H6)|exact HL]|]. split; [exact E2|].
    split; [apply end_time_ok; apply (e_end _ _ _ He L HL)|]. split.
    + intros y Hy Hye Hyb. apply (e_le _ _ _ He L y HL Hy Hye). congruence.
    + destruct (e_max _ _ _ He L HL) as [y [Hy [Hye [Hyb Hyt]]]]. exists y. repeat split; auto. congruence.
  - intros i L Hg. destruct (F2 i L Hg) as [X [HX E]]. rewrite <- E in Hg. rewrite (F1 X HX) in Hg. inversion Hg; subst L.
    pose proof (Hlive X HX) as HXl. destruct (e_max _ _ _ (Hecu (l_ecu X)) X HXl) as [y [Hy [Hye [Hyb _]]]]. exists y. auto.
  - intros i1 L1 i2 L2 G1 G2 Ee Es.
    destruct (F2 i1 L1 G1) as [X1 [HX1 E1]]. rewrite <- E1 in G1. rewrite (F1 X1 HX1) in G1. inversion G1; subst L1.
    destruct (F2 i2 L2 G2) as [X2 [HX2 E2]]. rewrite <- E2 in G2. rewrite (F1 X2 HX2) in G2. inversion G2; subst L2.
    pose proof (Hlive X1 HX1) as H1. pose proof (Hlive X2 HX2) as H2. rewrite Ee in H1.
    rewrite <- E1, <- E2. f_equal. eapply gap_start_inj; eauto. apply (e_gap _ _ _ (Hecu (l_ecu X2))).
Qed.

(* ------------------------------------------------------------------ the boundary of the time domain *)
(* Lifecycle::new keeps the timestamp of the first message exactly when it does not exceed the reception time
   (equality included: boot time plus delay = 0) *)
Lemma new_lc_keeps_ts_iff id m : m_creq m = false ->
  (l_max_ts (new_lc id m) = m_ts m <-> m_ts m <= m_rt m).
Proof.
  intros Hcr. unfold new_lc. rewrite Hcr. destruct (m_rt m <? m_ts m) eqn:E; cbn [l_max_ts].
  - apply N.ltb_lt in E. split; intros H; lia.
  - apply N.ltb_ge in E. split; intros H; [exact E|reflexivity].
Qed.

Lemma new_lc_boundary id m : m_creq m = false -> m_ts m <= m_rt m ->
  l_start (new_lc id m) = m_rt m - m_ts m /\ l_min_ts (new_lc id m) = m_ts m /\ l_max_ts (new_lc id m) = m_ts m /\
  end_time (new_lc id m) = m_rt m.
Proof.
  intros Hcr Hle. unfold new_lc, end_time. rewrite Hcr. destruct (m_rt m <? m_ts m) eqn:E; [apply N.ltb_lt in E; lia|].
  cbn [l_start l_min_ts l_max_ts l_last_rt]. repeat split; try reflexivity.
  destruct (m_ts m =? 0) eqn:Z; [reflexivity|lia].
Qed.

Lemma CleanFrom_msgs ms : forall h, CleanFrom h ms -> forall y, In y ms -> CleanMsg y.
Proof.
  induction ms as [|x r IH]; intros h HC y Hy; [destruct Hy|]. destruct HC as [[HCx _] HCr].
  destruct Hy as [<-|Hy]; [exact HCx|exact (IH _ HCr y Hy)].
Qed.

(* the clean-trace theorem on the boots whose boot time plus transport delay is 0 (reception time = timestamp for all
   their messages): the lifecycle starts at 0 and ends at the largest timestamp of the boot *)
Corollary clean_zero_boot_exact first_id ms :
  0 < first_id -> CleanStream ms ->
  forall x, In x (map fst (fst (detect first_id [] ms))) -> m_rt x = m_ts x ->
  exists L, tbl_get (m_lc x) (snd (detect first_id [] ms)) = Some L /\ l_ecu L = m_ecu x /\ l_start L = 0 /\
            end_time L = l_max_ts L /\
            (forall y, In y ms -> m_ecu y = m_ecu x -> m_rt y = m_ts y -> m_ts y <= l_max_ts L) /\
            (exists y, In y ms /\ m_ecu y = m_ecu x /\ m_rt y = m_ts y /\ m_ts y = l_max_ts L).
Proof.
  intros Hpos HC x Hx Hz. destruct (clean_boots_exact first_id ms Hpos HC) as [H1 _].
  destruct (H1 x Hx) as [L [Hg [He [Hs [Hend [Hle [y [Hy [Hye [Hyb Hyt]]]]]]]]]].
  assert (Hbx : boot x = 0) by (unfold boot; rewrite Hz; apply N.sub_diag).
  exists L. split; [exact Hg|]. split; [exact He|]. split; [congruence|]. split; [rewrite Hend, Hs, Hbx; apply N.add_0_l|]. split.
  - intros y0 Hy0 Hye0 Hz0. apply Hle; auto. unfold boot at 1. rewrite Hz0, N.sub_diag. symmetry. exact Hbx.
  - exists y. split; [exact Hy|]. split; [exact Hye|]. split; [|exact Hyt].
    destruct (CleanFrom_msgs ms [] HC y Hy) as [_ [_ Hley]]. rewrite Hbx in Hyb. unfold boot in Hyb. lia.
Qed.
