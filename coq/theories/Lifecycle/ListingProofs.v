(* C07 (listing clauses): get_sorted_lifecycles_as_vec (as repaired) yields a permutation of the table,
   never places a resume lifecycle before the lifecycle it resumes, and is ordered by start time when
   no lifecycle is a resume. *)
From Coq Require Import List NArith Bool Lia Permutation Sorted.
From AdltV Require Import Lifecycle.Model.
Import ListNotations.
Open Scope N_scope.

(* ------------------------------------------------------------------ generic insertion sort facts *)
Section InsSort.
  Variable le : lcy -> lcy -> bool.
  Hypothesis le_total : forall a b, le a b = false -> le b a = true.
  Hypothesis le_trans : forall a b c, le a b = true -> le b c = true -> le a c = true.

  Fixpoint ins (x : lcy) (l : list lcy) : list lcy :=
    match l with [] => [x] | y :: r => if le x y then x :: l else y :: ins x r end.

  Lemma ins_perm x l : Permutation (ins x l) (x :: l).
  Proof.
    induction l as [|y r IH]; cbn [ins]; [apply Permutation_refl|].
    destruct (le x y); [apply Permutation_refl|].
    eapply Permutation_trans; [apply perm_skip; exact IH|apply perm_swap].
  Qed.

  Definition R (a b : lcy) : Prop := le a b = true.

  Lemma ins_sorted x l : StronglySorted R l -> StronglySorted R (ins x l).
  Proof.
    induction 1 as [|y r Hs IH Hall]; cbn [ins]; [constructor; constructor|].
    destruct (le x y) eqn:E.
    - constructor; [constructor; assumption|]. constructor; [exact E|].
      eapply Forall_impl; [|exact Hall]. intros z Hz. eapply le_trans; eauto.
    - constructor; [exact IH|]. apply le_total in E.
      apply Forall_forall. intros z Hz. eapply Permutation_in in Hz; [|apply ins_perm].
      destruct Hz as [<-|Hz]; [exact E|]. rewrite Forall_forall in Hall. apply Hall. exact Hz.
  Qed.

  Lemma fold_ins_perm l : Permutation (fold_right ins [] l) l.
  Proof.
    induction l as [|x r IH]; cbn [fold_right]; [constructor|].
    eapply Permutation_trans; [apply ins_perm|]. apply perm_skip. exact IH.
  Qed.

  Lemma fold_ins_sorted l : StronglySorted R (fold_right ins [] l).
  Proof. induction l as [|x r IH]; cbn [fold_right]; [constructor|apply ins_sorted; exact IH]. Qed.
End InsSort.

Definition before (a b : lcy) (l : list lcy) : Prop := exists l1 l2 l3, l = l1 ++ a :: l2 ++ b :: l3.

Lemma sorted_before (Rr : lcy -> lcy -> Prop) l a b :
  StronglySorted Rr l -> In a l -> In b l -> ~ Rr b a -> a <> b -> before a b l.
Proof.
  induction 1 as [|x r Hs IH Hall]; intros Ha Hb Hn Hne; [destruct Ha|].
  destruct Ha as [->|Ha].
  - destruct Hb as [->|Hb]; [congruence|]. apply in_split in Hb. destruct Hb as [l2 [l3 ->]].
    exists [], l2, l3. reflexivity.
  - destruct Hb as [->|Hb].
    + exfalso. apply Hn. rewrite Forall_forall in Hall. apply Hall. exact Ha.
    + destruct (IH Ha Hb Hn Hne) as [l1 [l2 [l3 ->]]]. exists (x :: l1), l2, l3. reflexivity.
Qed.

(* ------------------------------------------------------------------ the lexicographic (key, id) order *)
Lemma key_le_total keys a b : key_le keys a b = false -> key_le keys b a = true.
Proof.
  unfold key_le. intros H. apply orb_false_iff in H. destruct H as [H1 H2].
  apply N.ltb_ge in H1. apply andb_false_iff in H2.
  apply orb_true_iff. destruct (N.lt_ge_cases (key_of keys b) (key_of keys a)) as [Hlt|Hge].
  - left. apply N.ltb_lt. exact Hlt.
  - right. assert (E : key_of keys a = key_of keys b) by lia.
    destruct H2 as [H2|H2]; [apply N.eqb_neq in H2; congruence|].
    apply N.leb_gt in H2. apply andb_true_iff. split; [apply N.eqb_eq; congruence|apply N.leb_le; lia].
Qed.

Lemma key_le_trans keys a b c : key_le keys a b = true -> key_le keys b c = true -> key_le keys a c = true.
Proof.
  unfold key_le. intros H1 H2. apply orb_true_iff in H1, H2. apply orb_true_iff.
  rewrite !andb_true_iff, !N.ltb_lt, !N.eqb_eq, !N.leb_le in *.
  destruct H1 as [H1|[H1 H1']], H2 as [H2|[H2 H2']]; try (left; lia). right. split; lia.
Qed.

Lemma ins_key_is_ins keys x l : ins_key keys x l = ins (key_le keys) x l.
Proof. induction l as [|y r IH]; cbn [ins_key ins]; [reflexivity|]. rewrite IH. reflexivity. Qed.

Lemma listing_is_ins t : listing t = fold_right (ins (key_le (sort_keys t))) [] t.
Proof.
  unfold listing. generalize (sort_keys t). intros keys.
  induction t as [|x r IH]; cbn [fold_right]; [reflexivity|]. rewrite IH. apply ins_key_is_ins.
Qed.

Theorem listing_perm t : Permutation (listing t) t.
Proof. rewrite listing_is_ins. apply (fold_ins_perm (key_le (sort_keys t))). Qed.

Lemma listing_sorted t : StronglySorted (R (key_le (sort_keys t))) (listing t).
Proof.
  rewrite listing_is_ins. apply (fold_ins_sorted (key_le (sort_keys t))).
  - apply key_le_total.
  - apply key_le_trans.
Qed.

(* ------------------------------------------------------------------ sorting by id *)
Definition id_le (a b : lcy) : bool := l_id a <=? l_id b.

Lemma lcs_by_id_is_ins t : lcs_by_id t = fold_right (ins id_le) [] t.
Proof.
  unfold lcs_by_id. induction t as [|x r IH]; cbn [fold_right]; [reflexivity|]. rewrite IH.
  generalize (fold_right (ins id_le) [] r). intros l. induction l as [|y l' IHl]; cbn [ins_lc_by_id ins]; [reflexivity|].
  unfold id_le at 1. destruct (l_id x <=? l_id y); [reflexivity|]. rewrite IHl. reflexivity.
Qed.

Lemma lcs_by_id_perm t : Permutation (lcs_by_id t) t.
Proof. rewrite lcs_by_id_is_ins. apply fold_ins_perm. Qed.

Lemma lcs_by_id_sorted t : StronglySorted (fun a b => l_id a <= l_id b) (lcs_by_id t).
Proof.
  rewrite lcs_by_id_is_ins.
  assert (H : StronglySorted (R id_le) (fold_right (ins id_le) [] t)).
  { apply fold_ins_sorted.
    - unfold id_le. intros a b H. apply N.leb_gt in H. apply N.leb_le. lia.
    - unfold id_le. intros a b c H1 H2. apply N.leb_le in H1, H2. apply N.leb_le. lia. }
  eapply StronglySorted_ind with (P := fun l => StronglySorted (fun a b => l_id a <= l_id b) l) in H; [exact H|constructor|].
  intros a l Hs IH Hall. constructor; [exact IH|]. eapply Forall_impl; [|exact Hall]. unfold R, id_le. intros b Hb. apply N.leb_le. exact Hb.
Qed.

(* ------------------------------------------------------------------ the sort keys *)
Definition lex_lt (keys : list (N * N)) (a b : lcy) : Prop :=
  key_of keys a < key_of keys b \/ (key_of keys a = key_of keys b /\ l_id a < l_id b).

Lemma lex_lt_not_le keys a b : lex_lt keys a b -> key_le keys b a = false.
Proof.
  unfold lex_lt, key_le. intros H. apply orb_false_iff. rewrite N.ltb_ge, andb_false_iff, N.eqb_neq, N.leb_gt.
  destruct H as [H|[H1 H2]]; [split; [lia|left; lia]|split; [lia|right; lia]].
Qed.

(* keys of already processed lifecycles are not disturbed by an entry for a different id *)
Lemma key_of_cons_other keys i k L : l_id L <> i -> key_of ((i, k) :: keys) L = key_of keys L.
Proof.
  intros H. unfold key_of. cbn [assoc_key]. destruct (N.eqb i (l_id L)) eqn:E; [apply N.eqb_eq in E; congruence|reflexivity].
Qed.
Lemma key_of_cons_same keys k L : key_of ((l_id L, k) :: keys) L = k.
Proof. unfold key_of. cbn [assoc_key]. rewrite N.eqb_refl. reflexivity. Qed.

(* invariant of the key loop *)
Record KInv (keys : list (N * N)) (done : list lcy) : Prop := {
  k_has : forall L, In L done -> assoc_key (l_id L) keys <> None;
  k_only : forall i, assoc_key i keys <> None -> In i (map l_id done);
  k_bound : forall L, In L done -> key_of keys L <= u64max;
  k_ord : forall L O r, In L done -> In O done -> l_resume L = Some r -> r_id r = l_id O -> lex_lt keys O L;
  k_res : forall L r, In L done -> l_resume L = Some r -> r_id r < l_id L
}.

Lemma key_pass_inv ls : forall keys done,
  NoDup (map l_id (done ++ ls)) ->
  (forall D L, In D done -> In L ls -> l_id D < l_id L) ->
  StronglySorted (fun a b => l_id a <= l_id b) ls ->
  (forall L r, In L ls -> l_resume L = Some r -> r_id r < l_id L) ->
  (forall L, In L ls -> l_start L <= u64max) ->
  KInv keys done -> KInv (key_pass ls keys) (done ++ ls).
Proof.
  induction ls as [|L rest IH]; intros keys done Hnd Hlt Hs Hres Hst HK; cbn [key_pass]; [rewrite app_nil_r; exact HK|].
  replace (done ++ L :: rest) with ((done ++ [L]) ++ rest) by (rewrite <- app_assoc; reflexivity).
  replace (done ++ L :: rest) with ((done ++ [L]) ++ rest) in Hnd by (rewrite <- app_assoc; reflexivity).
  inversion Hs as [|a l Hs' Hall Eq]; subst.
  assert (HLnew : ~ In (l_id L) (map l_id done)).
  { intros Hin. apply in_map_iff in Hin. destruct Hin as [D [E HD]].
    pose proof (Hlt D L HD (or_introl eq_refl)). lia. }
  assert (Hrest_gt : forall X, In X rest -> l_id L < l_id X).
  { intros X HX. rewrite Forall_forall in Hall. pose proof (Hall X HX) as Hle.
    assert (l_id L <> l_id X); [|lia].
    rewrite map_app, map_app in Hnd. cbn [map] in Hnd. intros E.
    rewrite <- app_assoc in Hnd. cbn [app] in Hnd.
    apply NoDup_remove_2 in Hnd. apply Hnd.
    apply in_or_app. right. rewrite E. apply in_map. exact HX. }
  apply IH; auto.
  - intros D X HD HX. apply in_app_or in HD. destruct HD as [HD|[<-|[]]].
    + apply Hlt; [exact HD|right; exact HX].
    + apply Hrest_gt. exact HX.
  - intros X r HX. apply Hres. right. exact HX.
  - intros X HX. apply Hst. right. exact HX.
  - destruct HK as [Khas Konly Kb Kord Kres].
    set (kL := sort_key_of L keys).
    assert (HkL : kL <= u64max).
    { unfold kL, sort_key_of. pose proof (Hst L (or_introl eq_refl)).
      destruct (l_resume L) as [r|]; [|exact H].
      destruct (assoc_key (r_id r) keys) as [ok|]; [|exact H].
      destruct (l_start L <=? ok); [apply N.le_min_r|exact H]. }
    constructor.
    + intros X HX. apply in_app_or in HX. destruct HX as [HX|[<-|[]]].
      * cbn [assoc_key]. destruct (N.eqb (l_id L) (l_id X)); [discriminate|apply Khas; exact HX].
      * cbn [assoc_key]. rewrite N.eqb_refl. discriminate.
    + intros i Hi. cbn [assoc_key] in Hi. rewrite map_app. apply in_or_app.
      destruct (N.eqb (l_id L) i) eqn:E; [right; left; apply N.eqb_eq; exact E|left; apply Konly; exact Hi].
    + intros X HX. apply in_app_or in HX. destruct HX as [HX|[<-|[]]].
      * rewrite key_of_cons_other; [apply Kb; exact HX|]. intros E. apply HLnew. rewrite <- E. apply in_map. exact HX.
      * rewrite key_of_cons_same. exact HkL.
    + intros X O r HX HO Hr Hro.
      assert (Hdone_ne : forall D, In D done -> l_id D <> l_id L).
      { intros D HD E. apply HLnew. rewrite <- E. apply in_map. exact HD. }
      apply in_app_or in HX. apply in_app_or in HO.
      destruct HX as [HX|[<-|[]]]; destruct HO as [HO|[<-|[]]].
      * unfold lex_lt. rewrite !key_of_cons_other by (apply Hdone_ne; assumption). eapply Kord; eauto.
      * (* the origin would be L, processed after X: impossible, origins have smaller ids *)
        exfalso.
        assert (Hx1 : l_id X < l_id L) by (apply Hlt; [exact HX|left; reflexivity]).
        pose proof (Kres X r HX Hr) as Hx2. lia.
      * unfold lex_lt. rewrite key_of_cons_same. rewrite key_of_cons_other by (apply Hdone_ne; exact HO).
        fold kL. unfold kL, sort_key_of. rewrite Hr, Hro.
        destruct (assoc_key (l_id O) keys) as [ok|] eqn:Eok; [|exfalso; apply (Khas O HO); exact Eok].
        assert (Hk : key_of keys O = ok) by (unfold key_of; rewrite Eok; reflexivity). rewrite Hk.
        pose proof (Kb O HO) as Hb. rewrite Hk in Hb.
        pose proof (Hres L r (or_introl eq_refl) Hr) as Hidlt. rewrite Hro in Hidlt.
        destruct (l_start L <=? ok) eqn:El.
        -- destruct (N.eq_dec ok u64max) as [->|Hne].
           ++ right. split; [rewrite N.min_r; [reflexivity|lia]|exact Hidlt].
           ++ left. rewrite N.min_l by lia. lia.
        -- apply N.leb_gt in El. left. exact El.
      * exfalso. pose proof (Hres L r (or_introl eq_refl) Hr). lia.
    + intros X r HX Hr. apply in_app_or in HX. destruct HX as [HX|[<-|[]]]; [eapply Kres; eauto|apply (Hres L r (or_introl eq_refl) Hr)].
Qed.

(* ------------------------------------------------------------------ theorems about the listing *)
(* what every published table satisfies: distinct ids, a resume lifecycle was created after the lifecycle it
   resumes (larger id), start times are u64 values *)
Definition TableOk (t : list lcy) : Prop :=
  NoDup (map l_id t) /\
  (forall L r, In L t -> l_resume L = Some r -> r_id r < l_id L) /\
  (forall L, In L t -> l_start L <= u64max).

Lemma sort_keys_inv t : TableOk t -> KInv (sort_keys t) (lcs_by_id t).
Proof.
  intros [Hnd [Hres Hst]]. unfold sort_keys.
  pose proof (lcs_by_id_perm t) as Hp.
  apply (key_pass_inv (lcs_by_id t) [] []).
  - cbn [app]. eapply Permutation_NoDup; [apply Permutation_sym; apply Permutation_map; exact Hp|exact Hnd].
  - intros D L [].
  - apply lcs_by_id_sorted.
  - intros L r HL. apply Hres. eapply Permutation_in; [exact Hp|exact HL].
  - intros L HL. apply Hst. eapply Permutation_in; [exact Hp|exact HL].
  - constructor; cbn.
    + intros L [].
    + intros i H. congruence.
    + intros L [].
    + intros L O r [].
    + intros L r [].
Qed.

Theorem listing_resume_order t L O r :
  TableOk t -> In L t -> In O t -> l_resume L = Some r -> r_id r = l_id O -> before O L (listing t).
Proof.
  intros Ht HL HO Hr Hro.
  pose proof (sort_keys_inv t Ht) as HK.
  pose proof (lcs_by_id_perm t) as Hp.
  assert (HL' : In L (lcs_by_id t)) by (eapply Permutation_in; [apply Permutation_sym; exact Hp|exact HL]).
  assert (HO' : In O (lcs_by_id t)) by (eapply Permutation_in; [apply Permutation_sym; exact Hp|exact HO]).
  pose proof (k_ord _ _ HK L O r HL' HO' Hr Hro) as Hlt.
  apply (sorted_before (R (key_le (sort_keys t)))).
  - apply listing_sorted.
  - eapply Permutation_in; [apply Permutation_sym; apply listing_perm|exact HO].
  - eapply Permutation_in; [apply Permutation_sym; apply listing_perm|exact HL].
  - unfold R. rewrite (lex_lt_not_le _ _ _ Hlt). discriminate.
  - intros ->. destruct Ht as [_ [Hres _]]. pose proof (Hres L r HL Hr). lia.
Qed.

Lemma key_pass_noresume ls : forall keys,
  NoDup (map l_id ls) -> (forall L, In L ls -> l_resume L = None) ->
  (forall L, In L ls -> key_of (key_pass ls keys) L = l_start L) /\
  (forall X, ~ In (l_id X) (map l_id ls) -> key_of (key_pass ls keys) X = key_of keys X).
Proof.
  induction ls as [|L r IH]; intros keys Hnd Hnr; cbn [key_pass].
  - split; [intros L []|reflexivity].
  - cbn [map] in Hnd. inversion Hnd as [|a l Hni Hnd' Eq]; subst.
    destruct (IH ((l_id L, sort_key_of L keys) :: keys) Hnd' (fun X HX => Hnr X (or_intror HX))) as [H1 H2].
    split.
    + intros X [<-|HX]; [|apply H1; exact HX].
      rewrite H2 by exact Hni. rewrite key_of_cons_same. unfold sort_key_of. rewrite (Hnr L (or_introl eq_refl)). reflexivity.
    + intros X HX. cbn [map] in HX. rewrite H2 by (intros H; apply HX; right; exact H).
      apply key_of_cons_other. intros E. apply HX. left. symmetry. exact E.
Qed.

Theorem listing_sorted_when_no_resume t :
  NoDup (map l_id t) -> (forall L, In L t -> l_resume L = None) ->
  StronglySorted (fun a b => l_start a <= l_start b) (listing t).
Proof.
  intros Hnd Hnr.
  pose proof (lcs_by_id_perm t) as Hp.
  assert (Hk : forall L, In L t -> key_of (sort_keys t) L = l_start L).
  { intros L HL. unfold sort_keys. apply key_pass_noresume.
    - eapply Permutation_NoDup; [apply Permutation_sym; apply Permutation_map; exact Hp|exact Hnd].
    - intros X HX. apply Hnr. eapply Permutation_in; [exact Hp|exact HX].
    - eapply Permutation_in; [apply Permutation_sym; exact Hp|exact HL]. }
  pose proof (listing_sorted t) as Hs. pose proof (listing_perm t) as Hlp.
  assert (Hin : forall L, In L (listing t) -> In L t) by (intros L HL; eapply Permutation_in; [exact Hlp|exact HL]).
  revert Hs Hin. generalize (listing t). intros l Hs. induction Hs as [|a r Hs IH Hall]; intros Hin; [constructor|].
  constructor; [apply IH; intros L HL; apply Hin; right; exact HL|].
  apply Forall_forall. intros b Hb. rewrite Forall_forall in Hall. specialize (Hall b Hb).
  unfold R, key_le in Hall. rewrite (Hk a), (Hk b) in Hall by (apply Hin; [left; reflexivity|right; exact Hb] || (apply Hin; right; exact Hb) || (apply Hin; left; reflexivity)).
  apply orb_true_iff in Hall. rewrite andb_true_iff, N.ltb_lt, N.eqb_eq in Hall. destruct Hall as [H|[H _]]; lia.
Qed.
