(* C07 (count clauses, part 1): along every run, for every live lifecycle the message counter equals the number
   of messages (delivered or still queued) that carry its id; every such message carries the id of a live
   lifecycle; no delivered message carries the id of a lifecycle that is merged later. *)
From Coq Require Import List NArith Bool Lia Permutation Sorted Arith PeanoNat.
From AdltV Require Import Lifecycle.Model Lifecycle.ForwardProofs Lifecycle.PublishProofs.
Import ListNotations.
Open Scope N_scope.

(* ------------------------------------------------------------------ counting *)
Definition cnt (i : N) (l : list msg) : nat := length (filter (fun m => N.eqb (m_lc m) i) l).

Lemma cnt_app i a b : cnt i (a ++ b) = (cnt i a + cnt i b)%nat.
Proof. unfold cnt. rewrite filter_app, app_length. reflexivity. Qed.

Lemma cnt_cons i m l : cnt i (m :: l) = ((if N.eqb (m_lc m) i then 1 else 0) + cnt i l)%nat.
Proof. unfold cnt. cbn [filter]. destruct (N.eqb (m_lc m) i); reflexivity. Qed.

Lemma count_lc_cnt i q : count_lc i q = N.of_nat (cnt i q).
Proof. reflexivity. Qed.

Lemma cnt_zero_iff i l : cnt i l = 0%nat <-> forall x, In x l -> m_lc x <> i.
Proof.
  induction l as [|m r IH]; [split; [intros _ x []|reflexivity]|].
  rewrite cnt_cons. destruct (N.eqb (m_lc m) i) eqn:E.
  - split; [discriminate|]. intros H. exfalso. apply (H m (or_introl eq_refl)). apply N.eqb_eq. exact E.
  - cbn [plus]. rewrite IH. apply N.eqb_neq in E. split.
    + intros H x [<-|Hx]; [exact E|apply H; exact Hx].
    + intros H x Hx. apply H. right. exact Hx.
Qed.

Lemma cnt_relabel_other i y p q : i <> y -> i <> p -> cnt i (relabel y p q) = cnt i q.
Proof.
  intros H1 H2. induction q as [|m r IH]; [reflexivity|]. unfold relabel in *. cbn [map]. rewrite !cnt_cons, IH.
  destruct (N.eqb (m_lc m) y) eqn:E.
  - cbn [set_lc m_lc]. apply N.eqb_eq in E.
    destruct (N.eqb p i) eqn:E1; [apply N.eqb_eq in E1; congruence|].
    destruct (N.eqb (m_lc m) i) eqn:E2; [apply N.eqb_eq in E2; congruence|reflexivity].
  - reflexivity.
Qed.

Lemma cnt_relabel_from y p q : y <> p -> cnt y (relabel y p q) = 0%nat.
Proof.
  intros H. apply cnt_zero_iff. intros x Hx. unfold relabel in Hx. apply in_map_iff in Hx. destruct Hx as [m [<- _]].
  destruct (N.eqb (m_lc m) y) eqn:E; [cbn; congruence|apply N.eqb_neq; exact E].
Qed.

Lemma cnt_relabel_to y p q : y <> p -> cnt p (relabel y p q) = (cnt p q + cnt y q)%nat.
Proof.
  intros H. induction q as [|m r IH]; [reflexivity|]. unfold relabel in *. cbn [map]. rewrite !cnt_cons, IH.
  destruct (N.eqb (m_lc m) y) eqn:E.
  - cbn [set_lc m_lc]. rewrite N.eqb_refl. apply N.eqb_eq in E.
    destruct (N.eqb (m_lc m) p) eqn:E1; [apply N.eqb_eq in E1; congruence|]. lia.
  - destruct (N.eqb (m_lc m) p); lia.
Qed.

(* ------------------------------------------------------------------ more about the decisions *)
Lemma update_joined_nr L m f L' : update L m f = (L', None) -> l_nr L' = l_nr L + 1.
Proof.
  unfold update. destruct (m_creq m); [intros H; inversion H; subst; reflexivity|].
  destruct (_ && _ && _); [intros H; inversion H; subst; reflexivity|].
  destruct (negb _ && _); intros H; inversion H; subst; reflexivity.
Qed.

Lemma update_created_nr L m f L' Ln : update L m f = (L', Some Ln) -> l_nr Ln = 1.
Proof.
  unfold update. destruct (m_creq m); [intros H; inversion H|].
  destruct (_ && _ && _); [intros H; inversion H|].
  destruct (negb _ && _); intros H; inversion H; subst.
  destruct (_ && _ && _ && _); reflexivity.
Qed.

(* ------------------------------------------------------------------ emap entries *)
Lemma store_entries e v em k ls : In (k, ls) (store e v em) -> (k = e /\ ls = v) \/ In (k, ls) em.
Proof.
  induction em as [|[k0 w] r IH]; cbn [store].
  - intros [H|[]]. inversion H; auto.
  - destruct (N.eqb k0 e) eqn:E.
    + apply N.eqb_eq in E. subst k0. intros [H|H]; [inversion H; auto|right; right; exact H].
    + intros [H|H]; [right; left; exact H|]. destruct (IH H) as [H1|H1]; [left; exact H1|right; right; exact H1].
Qed.

Lemma lookup_entry e em : lookup e em = [] \/ In (e, lookup e em) em.
Proof.
  induction em as [|[k w] r IH]; cbn [lookup]; [left; reflexivity|].
  destruct (N.eqb k e) eqn:E.
  - apply N.eqb_eq in E. subst k. right. left. reflexivity.
  - destruct IH as [IH|IH]; [left; exact IH|right; right; exact IH].
Qed.

Definition IdSorted (ls : list lcy) : Prop := StronglySorted (fun a b => l_id a < l_id b) ls.
Definition EmSorted (em : emap_t) : Prop := forall k ls, In (k, ls) em -> IdSorted ls.

Lemma IdSorted_app_inv a b : IdSorted (a ++ b) -> IdSorted a /\ IdSorted b /\ forall x y, In x a -> In y b -> l_id x < l_id y.
Proof.
  unfold IdSorted. induction a as [|x r IH]; cbn [app]; intros H.
  - split; [constructor|]. split; [exact H|]. intros x y [].
  - inversion H as [|a0 l Hs Hall Eq]; subst. destruct (IH Hs) as [H1 [H2 H3]].
    rewrite Forall_app in Hall. destruct Hall as [Ha Hb].
    split; [constructor; assumption|]. split; [exact H2|].
    intros x0 y [<-|Hx] Hy; [rewrite Forall_forall in Hb; apply Hb; exact Hy|apply H3; assumption].
Qed.

Lemma IdSorted_snoc a x : IdSorted a -> (forall y, In y a -> l_id y < l_id x) -> IdSorted (a ++ [x]).
Proof.
  unfold IdSorted. induction a as [|y r IH]; cbn [app]; intros Hs Hlt; [constructor; constructor|].
  inversion Hs as [|a0 l Hs' Hall Eq]; subst.
  constructor; [apply IH; [exact Hs'|intros z Hz; apply Hlt; right; exact Hz]|].
  rewrite Forall_app. split; [exact Hall|]. constructor; [apply Hlt; left; reflexivity|constructor].
Qed.

(* ------------------------------------------------------------------ the shape of phase 1 *)
Inductive P1Case (d : det) (m : msg) (p : p1) (v : list lcy) : Prop :=
| CaseNew :
    lookup (m_ecu m) (emap d) = [] -> v = [new_lc (next_id d) m] ->
    p_q p = queue d -> p_buf p = buffered d ++ [next_id d] -> p_nid p = next_id d + 1 ->
    p_msg p = set_lc m (next_id d) -> p_out p = [] -> p_tr p = to_refresh d -> p_pend p = pend d -> P1Case d m p v
| CaseCreated prevs L Ln :
    lookup (m_ecu m) (emap d) = prevs ++ [L] -> v = prevs ++ [L; Ln] ->
    l_id Ln = next_id d -> l_nr Ln = 1 -> l_ecu Ln = m_ecu m ->
    p_q p = queue d -> p_buf p = buffered d ++ [next_id d] -> p_nid p = next_id d + 1 ->
    p_msg p = set_lc m (next_id d) -> p_out p = [] -> p_tr p = to_refresh d -> p_pend p = pend d ->
    update L m (next_id d) = (L, Some Ln) -> P1Case d m p v
| CaseJoined prevs L L' :
    lookup (m_ecu m) (emap d) = prevs ++ [L] -> v = prevs ++ [L'] ->
    l_id L' = l_id L -> l_ecu L' = l_ecu L -> l_nr L' = l_nr L + 1 ->
    p_q p = queue d -> p_buf p = buffered d -> p_nid p = next_id d ->
    p_msg p = set_lc m (l_id L) -> p_out p = [] -> p_tr p = to_refresh d -> p_pend p = pend d ->
    update L m (next_id d) = (L', None) -> P1Case d m p v
| CaseMerged pp P L L' :
    lookup (m_ecu m) (emap d) = pp ++ [P; L] -> v = pp ++ [merge P L'] ->
    l_id L' = l_id L -> l_ecu L' = l_ecu L -> l_nr L' = l_nr L + 1 ->
    (inb (l_id P) (buffered d) = true \/ count_lc (l_id L) (queue d) + 1 = l_nr L') ->
    p_nid p = next_id d -> p_msg p = set_lc m (l_id P) ->
    p_pend p = (if inb (l_id L) (buffered d) then pend d else pend d ++ [PEmpty (l_id L)]) ->
    (   (remove_id (l_id L) (buffered d) = [] /\ p_buf p = [] /\ p_q p = [] /\
         p_out p = relabel (l_id L) (l_id P) (queue d) /\
         p_tr p = flush_marks 0 (relabel (l_id L) (l_id P) (queue d)) (to_refresh d))
     \/ (remove_id (l_id L) (buffered d) <> [] /\ p_buf p = remove_id (l_id L) (buffered d) /\
         p_q p = relabel (l_id L) (l_id P) (queue d) /\ p_out p = [] /\ p_tr p = to_refresh d)) ->
    needs_merge P L' = true ->
    update L m (next_id d) = (L', None) ->
    P1Case d m p v.

Lemma phase1_cases d m : exists v, p_emap (phase1 d m) = store (m_ecu m) v (emap d) /\ P1Case d m (phase1 d m) v.
Proof.
  unfold phase1.
  destruct (rev (lookup (m_ecu m) (emap d))) as [|L prevs_rev] eqn:Erev.
  - assert (Hl : lookup (m_ecu m) (emap d) = []).
    { destruct (lookup (m_ecu m) (emap d)) as [|a l]; [reflexivity|].
      apply (f_equal (@length _)) in Erev. rewrite rev_length in Erev. discriminate. }
    eexists. split; [reflexivity|]. apply CaseNew; auto.
  - apply rev_eq_cons in Erev.
    destruct (update L m (next_id d)) as [L' [Ln|]] eqn:Eu.
    + pose proof (update_created_nr _ _ _ _ _ Eu) as Hnr. pose proof Eu as Eu0.
      apply update_created in Eu. destruct Eu as [-> [Eid Eecu]].
      eexists. split; [reflexivity|]. eapply CaseCreated; eauto; cbn [p_buf p_msg]; rewrite ?Eid; reflexivity.
    + pose proof (update_joined_nr _ _ _ _ Eu) as Hnr. pose proof Eu as Eu0.
      apply update_joined in Eu. destruct Eu as [Eid Eecu].
      assert (Hno : exists v, p_emap {| p_emap := store (m_ecu m) (rev prevs_rev ++ [L']) (emap d); p_q := queue d; p_buf := buffered d;
           p_nid := next_id d; p_msg := set_lc m (l_id L'); p_out := []; p_tr := to_refresh d; p_pend := pend d |} = store (m_ecu m) v (emap d) /\
        P1Case d m {| p_emap := store (m_ecu m) (rev prevs_rev ++ [L']) (emap d); p_q := queue d; p_buf := buffered d;
           p_nid := next_id d; p_msg := set_lc m (l_id L'); p_out := []; p_tr := to_refresh d; p_pend := pend d |} v).
      { eexists. split; [reflexivity|]. eapply CaseJoined; eauto. cbn [p_msg]. rewrite Eid. reflexivity. }
      destruct prevs_rev as [|P pp]; [exact Hno|].
      destruct (needs_merge P L' && (inb (l_id P) (buffered d) || (count_lc (l_id L') (queue d) + 1 =? l_nr L'))) eqn:Em; [|exact Hno].
      clear Hno. cbn [rev] in Erev. rewrite <- app_assoc in Erev. cbn [app] in Erev.
      apply andb_true_iff in Em. destruct Em as [Hnm Em]. apply orb_true_iff in Em.
      assert (Hc : inb (l_id P) (buffered d) = true \/ count_lc (l_id L) (queue d) + 1 = l_nr L').
      { destruct Em as [Em|Em]; [left; exact Em|right; apply N.eqb_eq in Em; rewrite <- Eid; exact Em]. }
      rewrite Eid.
      destruct (remove_id (l_id L) (buffered d)) as [|b bs] eqn:Eb; eexists; (split; [reflexivity|]);
        eapply CaseMerged; eauto; cbn [p_nid p_msg p_pend p_buf p_q p_out p_tr]; try reflexivity.
      * left. auto.
      * right. rewrite Eb. repeat split; try reflexivity. discriminate.
Qed.

Lemma p1_store_facts d m p v :
  Inv6 d -> P1Case d m p v ->
  exists rest,
    (forall L, In L (all_lcs (store (m_ecu m) v (emap d))) <-> In L v \/ In L rest) /\
    (forall L, In L (all_lcs (emap d)) <-> In L (lookup (m_ecu m) (emap d)) \/ In L rest) /\
    (forall L, In L rest -> ~ In (l_id L) (map l_id (lookup (m_ecu m) (emap d)))).
Proof.
  intros [HK Hnd Hfr Hq Hpub Hpend Hnid] HC.
  pose proof (fresh_not_in _ _ Hfr) as Hfresh.
  pose proof (lookup_nodup (emap d) (m_ecu m) Hnd) as Hlnd.
  assert (Hlecu : forall L0, In L0 (lookup (m_ecu m) (emap d)) -> l_ecu L0 = m_ecu m) by (intros; eapply KeyOk_lookup; eauto).
  assert (Hgo : (forall L, In L v -> l_ecu L = m_ecu m) -> NoDup (map l_id v) ->
                (forall L, In L v -> In (l_id L) (map l_id (lookup (m_ecu m) (emap d))) \/ ~ In (l_id L) (ids (emap d))) ->
                exists rest,
    (forall L, In L (all_lcs (store (m_ecu m) v (emap d))) <-> In L v \/ In L rest) /\
    (forall L, In L (all_lcs (emap d)) <-> In L (lookup (m_ecu m) (emap d)) \/ In L rest) /\
    (forall L, In L rest -> ~ In (l_id L) (map l_id (lookup (m_ecu m) (emap d))))).
  { intros H1 H2 H3. destruct (store_transfer (emap d) (m_ecu m) v HK Hnd H1 H2 H3) as [rest [_ [_ [A' [A0 D]]]]]. exists rest. auto. }
  destruct HC as [Hl -> _ _ _ _ _ _ _
                 |prevs L Ln Hl -> Eid Enr Eecu _ _ _ _ _ _ _ _
                 |prevs L L' Hl -> Eid Eecu Enr _ _ _ _ _ _ _ _
                 |pp P L L' Hl -> Eid Eecu Enr _ _ _ _ _ _ _].
  - apply Hgo.
    + intros L0 [<-|[]]. reflexivity.
    + cbn. constructor; [intros []|constructor].
    + intros L0 [<-|[]]. right. exact Hfresh.
  - apply Hgo.
    + intros L0 H0. replace (prevs ++ [L; Ln]) with ((prevs ++ [L]) ++ [Ln]) in H0 by (rewrite <- app_assoc; reflexivity).
      rewrite <- Hl in H0. apply in_app_or in H0. destruct H0 as [H0|[<-|[]]]; [apply Hlecu; exact H0|exact Eecu].
    + replace (prevs ++ [L; Ln]) with ((prevs ++ [L]) ++ [Ln]) by (rewrite <- app_assoc; reflexivity).
      rewrite <- Hl, map_app. apply nodup_app_intro; [exact Hlnd|cbn; constructor; [intros []|constructor]|].
      intros i Hi Hin. cbn in Hin. destruct Hin as [Hin|[]]. rewrite Eid in Hin. subst i. apply Hfresh. unfold ids.
      apply in_map_iff in Hi. destruct Hi as [L0 [E0 H0]]. rewrite <- E0. apply in_map. apply lookup_in_all in H0. exact H0.
    + intros L0 H0. replace (prevs ++ [L; Ln]) with ((prevs ++ [L]) ++ [Ln]) in H0 by (rewrite <- app_assoc; reflexivity).
      rewrite <- Hl in H0. apply in_app_or in H0. destruct H0 as [H0|[<-|[]]]; [left; apply in_map; exact H0|right; rewrite Eid; exact Hfresh].
  - assert (Hmapid : map l_id (prevs ++ [L']) = map l_id (lookup (m_ecu m) (emap d))).
    { rewrite Hl, !map_app. cbn [map]. rewrite Eid. reflexivity. }
    apply Hgo.
    + intros L0 H0. apply in_app_or in H0. destruct H0 as [H0|[<-|[]]].
      * apply Hlecu. rewrite Hl. apply in_or_app. left. exact H0.
      * rewrite Eecu. apply Hlecu. rewrite Hl. apply in_or_app. right. left. reflexivity.
    + rewrite Hmapid. exact Hlnd.
    + intros L0 H0. left. rewrite <- Hmapid. apply in_map. exact H0.
  - assert (Hids : NoDup (map l_id pp ++ [l_id P; l_id L])) by (rewrite Hl, map_app in Hlnd; exact Hlnd).
    apply nodup_app_inv in Hids. destruct Hids as [Hid1 [Hid2 Hid3]].
    apply Hgo.
    + intros L0 H0. apply in_app_or in H0. destruct H0 as [H0|[<-|[]]].
      * apply Hlecu. rewrite Hl. apply in_or_app. left. exact H0.
      * cbn [merge l_ecu]. apply Hlecu. rewrite Hl. apply in_or_app. right. left. reflexivity.
    + rewrite map_app. apply nodup_app_intro; [exact Hid1|cbn; constructor; [intros []|constructor]|].
      intros i Hi Hin. cbn in Hin. destruct Hin as [Hin|[]]. apply (Hid3 i Hi). left. exact Hin.
    + intros L0 H0. left. rewrite Hl, map_app. apply in_or_app. apply in_app_or in H0. destruct H0 as [H0|[<-|[]]].
      * left. apply in_map. exact H0.
      * right. left. reflexivity.
Qed.

(* ------------------------------------------------------------------ the counting invariant *)
Record Inv7 (d : det) (out : list msg) : Prop := {
  j6 : Inv6 d;
  j_sorted : EmSorted (emap d);
  j_cnt : forall L, In L (all_lcs (emap d)) -> l_nr L = N.of_nat (cnt (l_id L) (out ++ queue d));
  j_live : forall x, In x out -> exists L, In L (all_lcs (emap d)) /\ l_id L = m_lc x;
  j_buf : forall b, inb b (buffered d) = true ->
          exists q1 mb q2, queue d = q1 ++ mb :: q2 /\ m_lc mb = b /\ forall x, In x (out ++ q1) -> m_lc x < b
}.

(* after phase 1, with the current message counted as queued *)
Record Q1ok (d : det) (out : list msg) (p : p1) : Prop := {
  q_sorted : EmSorted (p_emap p);
  q_cnt : forall L, In L (all_lcs (p_emap p)) -> l_nr L = N.of_nat (cnt (l_id L) (out ++ p_out p ++ p_q p ++ [p_msg p]));
  q_live : forall x, In x out -> exists L, In L (all_lcs (p_emap p)) /\ l_id L = m_lc x;
  q_buf : forall b, inb b (p_buf p) = true ->
          exists q1 mb q2, p_q p ++ [p_msg p] = q1 ++ mb :: q2 /\ m_lc mb = b /\ forall x, In x (out ++ p_out p ++ q1) -> m_lc x < b
}.

Lemma hist_lt d out : Inv7 d out -> forall x, In x (out ++ queue d) -> m_lc x < next_id d.
Proof.
  intros [H6 _ _ Hl _] x Hx. apply in_app_or in Hx. destruct Hx as [Hx|Hx].
  - destruct (Hl x Hx) as [L [HL E]]. rewrite <- E. apply (i_fresh d H6 L HL).
  - destruct (i_q d H6 x Hx) as [L [HL [E _]]]. rewrite <- E. apply (i_fresh d H6 L HL).
Qed.

Lemma IdSorted_same_ids a b : map l_id a = map l_id b -> IdSorted a -> IdSorted b.
Proof.
  unfold IdSorted. revert b. induction a as [|x r IH]; intros b E Hs; destruct b as [|y s]; try discriminate; [constructor|].
  cbn [map] in E. inversion E as [[E1 E2]]. inversion Hs as [|a0 l Hs' Hall Eq]; subst.
  constructor; [apply IH; assumption|].
  clear - E1 E2 Hall. revert s E2. induction r as [|z r IH]; intros s E2; destruct s as [|w s]; try discriminate; [constructor|].
  cbn [map] in E2. inversion E2 as [[E3 E4]]. inversion Hall as [|a0 l Hz Hall' Eq]; subst.
  constructor; [rewrite <- E1, <- E3; exact Hz|apply IH; assumption].
Qed.

Lemma inb_remove_true b y l : inb b (remove_id y l) = true -> inb b l = true /\ b <> y.
Proof.
  intros H. apply inb_true_iff in H. unfold remove_id in H. apply filter_In in H. destruct H as [H1 H2].
  split; [apply inb_true_iff; exact H1|]. apply negb_true_iff in H2. apply N.eqb_neq in H2. congruence.
Qed.

Lemma relabel_app y p a b : relabel y p (a ++ b) = relabel y p a ++ relabel y p b.
Proof. unfold relabel. apply map_app. Qed.

Lemma cnt_snoc i l m : cnt i (l ++ [m]) = (cnt i l + (if N.eqb (m_lc m) i then 1 else 0))%nat.
Proof. rewrite cnt_app, cnt_cons. cbn. lia. Qed.

Lemma lookup_sorted d e : EmSorted (emap d) -> IdSorted (lookup e (emap d)).
Proof. intros H. destruct (lookup_entry e (emap d)) as [->|Hin]; [constructor|eapply H; exact Hin]. Qed.

Lemma phase1_q1 d out m : Inv7 d out -> Q1ok d out (phase1 d m).
Proof.
  intros HI. pose proof (hist_lt d out HI) as Hlt.
  destruct HI as [H6 Hsorted Hcnt Hlive Hbuf].
  destruct (phase1_cases d m) as [v [Eem HC]].
  destruct (p1_store_facts d m _ v H6 HC) as [rest [A' [A0 D]]].
  pose proof (lookup_sorted d (m_ecu m) Hsorted) as Hls.
  pose proof (lookup_nodup (emap d) (m_ecu m) (i_nd d H6)) as Hlnd.
  assert (Hfr : forall L, In L (all_lcs (emap d)) -> l_id L < next_id d) by (intros L HL; apply (i_fresh d H6 L HL)).
  assert (HoldS : forall k ls, In (k, ls) (store (m_ecu m) v (emap d)) -> IdSorted v -> IdSorted ls).
  { intros k ls Hin Hv. apply store_entries in Hin. destruct Hin as [[_ ->]|Hin]; [exact Hv|eapply Hsorted; exact Hin]. }
  assert (Hbuf_keep : forall b msg0, inb b (buffered d) = true ->
            exists q1 mb q2, queue d ++ [msg0] = q1 ++ mb :: q2 /\ m_lc mb = b /\ forall x, In x (out ++ [] ++ q1) -> m_lc x < b).
  { intros b msg0 Hb. destruct (Hbuf b Hb) as [q1 [mb [q2 [E1 [E2 E3]]]]]. exists q1, mb, (q2 ++ [msg0]).
    split; [rewrite E1, <- app_assoc; reflexivity|]. split; [exact E2|exact E3]. }
  set (p := phase1 d m) in *.
  destruct HC as [Hl -> Eq Ebuf Enid Emsg Eout Etr Epend
                 |prevs L Ln Hl -> Eid Enr Eecu Eq Ebuf Enid Emsg Eout Etr Epend Eupd
                 |prevs L L' Hl -> Eid Eecu Enr Eq Ebuf Enid Emsg Eout Etr Epend Eupd
                 |pp P L L' Hl -> Eid Eecu Enr Hcond Enid Emsg Epend Hsub Hnm Eupd].
  - (* new ECU *)
    constructor; rewrite ?Eem, ?Eq, ?Emsg, ?Eout, ?Ebuf; cbn [app].
    + intros k ls Hin. apply (HoldS k ls Hin). repeat constructor.
    + intros L0 H0. apply A' in H0. rewrite app_assoc, cnt_snoc. cbn [set_lc m_lc].
      destruct H0 as [[<-|[]]|H0].
      * cbn [new_lc l_id l_nr]. rewrite N.eqb_refl.
        assert (Hz : cnt (next_id d) (out ++ queue d) = 0%nat) by (apply cnt_zero_iff; intros x Hx; pose proof (Hlt x Hx); lia).
        rewrite Hz. reflexivity.
      * assert (HL0 : In L0 (all_lcs (emap d))) by (apply A0; right; exact H0).
        destruct (N.eqb (next_id d) (l_id L0)) eqn:E; [apply N.eqb_eq in E; pose proof (Hfr L0 HL0); lia|].
        rewrite Nat.add_0_r. apply Hcnt. exact HL0.
    + intros x Hx. destruct (Hlive x Hx) as [L0 [H0 E0]]. apply A0 in H0. rewrite Hl in H0. destruct H0 as [[]|H0].
      exists L0. split; [apply A'; right; exact H0|exact E0].
    + intros b Hb. rewrite inb_app in Hb. apply orb_true_iff in Hb. destruct Hb as [Hb|Hb]; [apply Hbuf_keep; exact Hb|].
      cbn in Hb. rewrite orb_false_r in Hb. apply N.eqb_eq in Hb. subst b.
      exists (queue d), (set_lc m (next_id d)), []. split; [reflexivity|]. split; [reflexivity|].
      intros x Hx. apply Hlt. exact Hx.
  - (* a new lifecycle for a known ECU *)
    assert (Hv : forall L0, In L0 (prevs ++ [L; Ln]) <-> In L0 (lookup (m_ecu m) (emap d)) \/ L0 = Ln).
    { intros L0. replace (prevs ++ [L; Ln]) with ((prevs ++ [L]) ++ [Ln]) by (rewrite <- app_assoc; reflexivity).
      rewrite <- Hl, in_app_iff. cbn. intuition. }
    constructor; rewrite ?Eem, ?Eq, ?Emsg, ?Eout, ?Ebuf; cbn [app].
    + intros k ls Hin. apply (HoldS k ls Hin).
      replace (prevs ++ [L; Ln]) with ((prevs ++ [L]) ++ [Ln]) by (rewrite <- app_assoc; reflexivity).
      rewrite <- Hl. apply IdSorted_snoc; [exact Hls|]. intros y Hy. rewrite Eid. apply Hfr. apply lookup_in_all in Hy. exact Hy.
    + intros L0 H0. apply A' in H0. rewrite app_assoc, cnt_snoc. cbn [set_lc m_lc].
      assert (Hold : In L0 (all_lcs (emap d)) -> l_nr L0 = N.of_nat (cnt (l_id L0) (out ++ queue d) + (if next_id d =? l_id L0 then 1 else 0))).
      { intros HL0. destruct (N.eqb (next_id d) (l_id L0)) eqn:E; [apply N.eqb_eq in E; pose proof (Hfr L0 HL0); lia|].
        rewrite Nat.add_0_r. apply Hcnt. exact HL0. }
      destruct H0 as [H0|H0].
      * apply Hv in H0. destruct H0 as [H0| ->]; [apply Hold; apply lookup_in_all in H0; exact H0|].
        rewrite Eid, N.eqb_refl, Enr.
        assert (Hz : cnt (next_id d) (out ++ queue d) = 0%nat) by (apply cnt_zero_iff; intros x Hx; pose proof (Hlt x Hx); lia).
        rewrite Hz. reflexivity.
      * apply Hold. apply A0. right. exact H0.
    + intros x Hx. destruct (Hlive x Hx) as [L0 [H0 E0]]. apply A0 in H0. exists L0. split; [|exact E0].
      apply A'. destruct H0 as [H0|H0]; [left; apply Hv; left; exact H0|right; exact H0].
    + intros b Hb. rewrite inb_app in Hb. apply orb_true_iff in Hb. destruct Hb as [Hb|Hb]; [apply Hbuf_keep; exact Hb|].
      cbn in Hb. rewrite orb_false_r in Hb. apply N.eqb_eq in Hb. subst b.
      exists (queue d), (set_lc m (next_id d)), []. split; [reflexivity|]. split; [reflexivity|].
      intros x Hx. apply Hlt. exact Hx.
  - (* joined, no merge *)
    assert (HLin : In L (lookup (m_ecu m) (emap d))) by (rewrite Hl; apply in_or_app; right; left; reflexivity).
    constructor; rewrite ?Eem, ?Eq, ?Emsg, ?Eout, ?Ebuf; cbn [app].
    + intros k ls Hin. apply (HoldS k ls Hin). apply (IdSorted_same_ids (lookup (m_ecu m) (emap d))); [|exact Hls].
      rewrite Hl, !map_app. cbn [map]. rewrite Eid. reflexivity.
    + intros L0 H0. apply A' in H0. rewrite app_assoc, cnt_snoc. cbn [set_lc m_lc].
      assert (Hold : In L0 (all_lcs (emap d)) -> l_id L0 <> l_id L ->
                     l_nr L0 = N.of_nat (cnt (l_id L0) (out ++ queue d) + (if l_id L =? l_id L0 then 1 else 0))).
      { intros HL0 Hne. destruct (N.eqb (l_id L) (l_id L0)) eqn:E; [apply N.eqb_eq in E; congruence|].
        rewrite Nat.add_0_r. apply Hcnt. exact HL0. }
      destruct H0 as [H0|H0].
      * apply in_app_or in H0. destruct H0 as [H0|[<-|[]]].
        -- assert (H0' : In L0 (lookup (m_ecu m) (emap d))) by (rewrite Hl; apply in_or_app; left; exact H0).
           apply Hold; [apply lookup_in_all in H0'; exact H0'|].
           rewrite Hl, map_app in Hlnd. apply nodup_app_inv in Hlnd. destruct Hlnd as [_ [_ Hd]].
           intros E. apply (Hd (l_id L0)); [apply in_map; exact H0|left; symmetry; exact E].
        -- rewrite Eid, N.eqb_refl, Enr. rewrite (Hcnt L) by (apply lookup_in_all in HLin; exact HLin). lia.
      * apply Hold; [apply A0; right; exact H0|]. intros E. apply (D L0 H0). rewrite E. apply in_map. exact HLin.
    + intros x Hx. destruct (Hlive x Hx) as [L0 [H0 E0]]. apply A0 in H0. destruct H0 as [H0|H0].
      * rewrite Hl in H0. apply in_app_or in H0. destruct H0 as [H0|[<-|[]]].
        -- exists L0. split; [apply A'; left; apply in_or_app; left; exact H0|exact E0].
        -- exists L'. split; [apply A'; left; apply in_or_app; right; left; reflexivity|congruence].
      * exists L0. split; [apply A'; right; exact H0|exact E0].
    + intros b Hb. apply Hbuf_keep. exact Hb.
  - (* merge of L into P *)
    assert (HLin : In L (lookup (m_ecu m) (emap d))) by (rewrite Hl; apply in_or_app; right; right; left; reflexivity).
    assert (HPin : In P (lookup (m_ecu m) (emap d))) by (rewrite Hl; apply in_or_app; right; left; reflexivity).
    assert (HLlive : In L (all_lcs (emap d))) by (apply lookup_in_all in HLin; exact HLin).
    assert (HPlive : In P (all_lcs (emap d))) by (apply lookup_in_all in HPin; exact HPin).
    assert (HPL : l_id P < l_id L).
    { rewrite Hl in Hls. apply IdSorted_app_inv in Hls. destruct Hls as [_ [Hs2 _]].
      inversion Hs2 as [|a l _ Hall Eq]; subst. inversion Hall; assumption. }
    assert (Hppids : forall X, In X pp -> l_id X <> l_id P /\ l_id X <> l_id L).
    { intros X HX. rewrite Hl in Hls. apply IdSorted_app_inv in Hls. destruct Hls as [_ [_ Hs3]].
      pose proof (Hs3 X P HX (or_introl eq_refl)). pose proof (Hs3 X L HX (or_intror (or_introl eq_refl))). lia. }
    assert (Hrestids : forall X, In X rest -> l_id X <> l_id P /\ l_id X <> l_id L).
    { intros X HX. split; intros E; apply (D X HX); rewrite E; apply in_map; assumption. }
    (* no delivered message carries the merged id *)
    assert (Hz : cnt (l_id L) out = 0%nat).
    { destruct Hcond as [Hc|Hc].
      - destruct (Hbuf (l_id P) Hc) as [q1 [mb [q2 [_ [_ E3]]]]]. apply cnt_zero_iff. intros x Hx.
        pose proof (E3 x (in_or_app _ _ _ (or_introl Hx))). lia.
      - rewrite Enr, count_lc_cnt, (Hcnt L HLlive), cnt_app in Hc. lia. }
    set (q' := relabel (l_id L) (l_id P) (queue d)) in *.
    assert (Hoq : p_out p ++ p_q p = q').
    { destruct Hsub as [[_ [_ [-> [-> _]]]]|[_ [_ [-> [-> _]]]]]; [apply app_nil_r|reflexivity]. }
    assert (HneLP : l_id L <> l_id P) by lia.
    constructor; rewrite ?Eem, ?Emsg.
    + intros k ls Hin. apply (HoldS k ls Hin). apply (IdSorted_same_ids (pp ++ [P])).
      * rewrite !map_app. reflexivity.
      * rewrite Hl in Hls. replace (pp ++ [P; L]) with ((pp ++ [P]) ++ [L]) in Hls by (rewrite <- app_assoc; reflexivity).
        apply IdSorted_app_inv in Hls. tauto.
    + intros L0 H0. apply A' in H0.
      replace (out ++ p_out p ++ p_q p ++ [set_lc m (l_id P)]) with ((out ++ q') ++ [set_lc m (l_id P)])
        by (rewrite <- Hoq, <- !app_assoc; reflexivity).
      rewrite cnt_snoc, cnt_app. cbn [set_lc m_lc].
      assert (Hother : In L0 (all_lcs (emap d)) -> l_id L0 <> l_id P -> l_id L0 <> l_id L ->
                 l_nr L0 = N.of_nat (cnt (l_id L0) out + cnt (l_id L0) q' + (if l_id P =? l_id L0 then 1 else 0))).
      { intros HL0 N1 N2. unfold q'. rewrite cnt_relabel_other by auto.
        destruct (N.eqb (l_id P) (l_id L0)) eqn:E; [apply N.eqb_eq in E; congruence|].
        rewrite Nat.add_0_r, <- cnt_app. apply Hcnt. exact HL0. }
      destruct H0 as [H0|H0].
      * apply in_app_or in H0. destruct H0 as [H0|[<-|[]]].
        -- destruct (Hppids L0 H0). apply Hother; auto. apply lookup_in_all with (e := m_ecu m). rewrite Hl. apply in_or_app. left. exact H0.
        -- cbn [merge l_id l_nr]. rewrite N.eqb_refl. unfold q'. rewrite cnt_relabel_to by exact HneLP.
           rewrite Enr, (Hcnt P HPlive), (Hcnt L HLlive), !cnt_app. lia.
      * destruct (Hrestids L0 H0). apply Hother; auto. apply A0. right. exact H0.
    + intros x Hx. destruct (Hlive x Hx) as [L0 [H0 E0]]. apply A0 in H0. destruct H0 as [H0|H0].
      * rewrite Hl in H0. apply in_app_or in H0. destruct H0 as [H0|[<-|[<-|[]]]].
        -- exists L0. split; [apply A'; left; apply in_or_app; left; exact H0|exact E0].
        -- exists (merge P L'). split; [apply A'; left; apply in_or_app; right; left; reflexivity|exact E0].
        -- exfalso. rewrite cnt_zero_iff in Hz. apply (Hz x Hx). symmetry. exact E0.
      * exists L0. split; [apply A'; right; exact H0|exact E0].
    + intros b Hb. destruct Hsub as [[_ [Eb _]]|[_ [Eb [Eq [Eout _]]]]]; [rewrite Eb in Hb; discriminate|].
      rewrite Eb in Hb. apply inb_remove_true in Hb. destruct Hb as [Hb Hne].
      destruct (Hbuf b Hb) as [q1 [mb [q2 [E1 [E2 E3]]]]].
      rewrite Eq, Eout. unfold q'. rewrite E1, relabel_app. cbn [relabel map].
      assert (Emb : (if m_lc mb =? l_id L then set_lc mb (l_id P) else mb) = mb).
      { destruct (N.eqb (m_lc mb) (l_id L)) eqn:E; [apply N.eqb_eq in E; congruence|reflexivity]. }
      fold (relabel (l_id L) (l_id P) q2). rewrite Emb.
      exists (relabel (l_id L) (l_id P) q1), mb, (relabel (l_id L) (l_id P) q2 ++ [set_lc m (l_id P)]).
      split; [rewrite <- !app_assoc; reflexivity|]. split; [exact E2|].
      intros x Hx. cbn [app] in Hx. apply in_app_or in Hx. destruct Hx as [Hx|Hx].
      * apply E3. apply in_or_app. left. exact Hx.
      * unfold relabel in Hx. apply in_map_iff in Hx. destruct Hx as [x0 [<- Hx0]].
        pose proof (E3 x0 (in_or_app _ _ _ (or_intror Hx0))) as Hx0lt.
        destruct (N.eqb (m_lc x0) (l_id L)) eqn:E; [|exact Hx0lt]. apply N.eqb_eq in E. cbn [set_lc m_lc]. lia.
Qed.

(* ------------------------------------------------------------------ phase 2: what the confirmation pass releases *)
Lemma confirm_pass_rel m ls : forall c,
  (forall b, inb b (c_buf (confirm_pass m ls c)) = true -> inb b (c_buf c) = true) /\
  exists D, map fst (c_out (confirm_pass m ls c)) = map fst (c_out c) ++ D /\
            c_q c = D ++ c_q (confirm_pass m ls c) /\
            forall x, In x D -> inb (m_lc x) (c_buf (confirm_pass m ls c)) = false.
Proof.
  induction ls as [|L r IH]; intros c; cbn [confirm_pass].
  - split; [auto|]. exists []. rewrite app_nil_r. split; [reflexivity|]. split; [reflexivity|intros x []].
  - destruct (inb (l_id L) (c_buf c) && confirmable m L); [|apply IH].
    destruct (release (l_id L) (remove_id (l_id L) (c_buf c)) (c_q c) (c_tr c)) as [[o q1] tr1] eqn:Er.
    set (c1 := {| c_buf := remove_id (l_id L) (c_buf c); c_vis := _; c_pend := []; c_q := q1; c_tr := tr1; c_out := _ |}).
    destruct (IH c1) as [Hmono [D' [E1 [E2 E3]]]].
    pose proof (release_split _ _ _ _ _ _ _ Er) as Hsplit.
    pose proof (release_lcs _ _ _ _ _ _ _ Er) as Hlcs.
    split.
    + intros b Hb. apply Hmono in Hb. cbn [c1 c_buf] in Hb. apply inb_remove_true in Hb. tauto.
    + exists (o ++ D'). split; [|split].
      * rewrite E1. cbn [c1 c_out]. rewrite map_app, map_fst_pair, <- app_assoc. reflexivity.
      * rewrite Hsplit. cbn [c1 c_q] in E2. rewrite E2, <- app_assoc. reflexivity.
      * intros x Hx. apply in_app_or in Hx. destruct Hx as [Hx|Hx]; [|apply E3; exact Hx].
        destruct (inb (m_lc x) (c_buf (confirm_pass m r c1))) eqn:Eb; [|reflexivity].
        apply Hmono in Eb. cbn [c1 c_buf] in Eb.
        destruct (Hlcs x Hx) as [H|H]; [rewrite H, inb_remove_self in Eb; discriminate|congruence].
Qed.

Lemma phase2_rel d p c nc :
  phase2 d p = (c, nc) ->
  (forall b, inb b (c_buf c) = true -> inb b (p_buf p) = true) /\
  exists D, map fst (c_out c) = D /\ p_q p = D ++ c_q c /\ forall x, In x D -> inb (m_lc x) (c_buf c) = false.
Proof.
  unfold phase2.
  set (c0 := {| c_buf := p_buf p; c_vis := vis d; c_pend := p_pend p; c_q := p_q p; c_tr := p_tr p; c_out := [] |}).
  assert (H0 : (forall b, inb b (c_buf c0) = true -> inb b (p_buf p) = true) /\
               exists D, map fst (c_out c0) = D /\ p_q p = D ++ c_q c0 /\ forall x, In x D -> inb (m_lc x) (c_buf c0) = false).
  { split; [auto|]. exists []. cbn. split; [reflexivity|]. split; [reflexivity|intros x []]. }
  destruct (next_check d <? m_rt (p_msg p)); [|intros H; inversion H; subst; exact H0].
  destruct (m_ts (p_msg p) + MAX_BUFFERING_DELAY <? m_rt (p_msg p)); intros H; inversion H; subst; [|exact H0].
  destruct (confirm_pass_rel (p_msg p) (all_lcs (p_emap p)) c0) as [Hm [D [E1 [E2 E3]]]].
  split; [exact Hm|]. exists D. cbn [c0 c_out map app] in E1. split; [exact E1|]. split; [exact E2|exact E3].
Qed.

(* ------------------------------------------------------------------ one step *)
Lemma app_split_first (b : N) (D rest q1 q2 : list msg) (mb : msg) :
  D ++ rest = q1 ++ mb :: q2 -> m_lc mb = b -> (forall x, In x D -> m_lc x <> b) ->
  exists l, q1 = D ++ l /\ rest = l ++ mb :: q2.
Proof.
  revert q1. induction D as [|x D IH]; intros q1 E Hb Hn; cbn [app] in *.
  - exists q1. auto.
  - destruct q1 as [|y q1].
    + cbn [app] in E. inversion E; subst. exfalso. apply (Hn mb (or_introl eq_refl)). reflexivity.
    + cbn [app] in E. inversion E; subst. destruct (IH q1 H1 eq_refl) as [l [E1 E2]].
      * intros z Hz. apply Hn. right. exact Hz.
      * exists l. subst. auto.
Qed.

Record Inv7q (d : det) (out : list msg) : Prop := { jq7 : Inv7 d out; jq0 : InvQ d }.

Lemma step_inv7 d out m d' o :
  Inv7q d out -> step d m = (d', o) -> Inv7q d' (out ++ map fst o).
Proof.
  intros [HI HQ0] Hstep.
  pose proof (phase1_q1 d out m HI) as HQ1.
  pose proof (phase1_ok d m (j6 d out HI)) as HP1.
  destruct (step_ok d m d' o (j6 d out HI) Hstep) as [H6' _].
  destruct (step_forward d m d' o HQ0 Hstep) as [_ HQ0'].
  split; [|exact HQ0'].
  unfold step in Hstep.
  destruct (phase2 d (phase1 d m)) as [c nc] eqn:E2.
  pose proof (phase2_ok _ _ _ _ _ HP1 E2) as HC2.
  destruct (phase2_rel _ _ _ _ E2) as [Hmono [D [ED [EQ EDb]]]].
  pose proof (phase1_inv d m HQ0) as Hp0.
  destruct (phase2_spec _ _ _ _ E2) as [_ Hc0]. specialize (Hc0 Hp0).
  set (p := phase1 d m) in *.
  destruct HQ1 as [Qs Qc Ql Qb].
  assert (Hlive' : forall x, In x (out ++ p_out p ++ D ++ [p_msg p]) -> exists L, In L (all_lcs (p_emap p)) /\ l_id L = m_lc x).
  { intros x Hx. apply in_app_or in Hx. destruct Hx as [Hx|Hx]; [apply Ql; exact Hx|].
    assert (HM : MsgOk (p_emap p) x).
    { apply in_app_or in Hx. destruct Hx as [Hx|Hx]; [apply (p1_out _ _ _ HP1 x Hx)|].
      apply in_app_or in Hx. destruct Hx as [Hx|[<-|[]]]; [|apply (p1_msg _ _ _ HP1)].
      apply (p1_q _ _ _ HP1). rewrite EQ. apply in_or_app. left. exact Hx. }
    destruct HM as [L [HL [E _]]]. exists L. auto. }
  destruct (c_buf c) as [|b bs] eqn:Eb.
  - destruct (regular_refresh false (p_emap p) (m_index m) (last_reg d) (c_vis c) (c_pend c) (mark (m_lc (p_msg p)) (c_tr c))) as [[[v pd] tr2] lr].
    inversion Hstep; subst d' o; clear Hstep.
    assert (Hcq : c_q c = []) by (apply Hc0; reflexivity).
    rewrite Hcq, app_nil_r in EQ.
    assert (Eout : out ++ map fst (map (fun x => (x, vis d)) (p_out p) ++ c_out c ++ [(p_msg p, v)]) = out ++ p_out p ++ D ++ [p_msg p]).
    { rewrite !map_app, map_fst_pair, ED. reflexivity. }
    rewrite Eout. constructor; cbn [emap queue buffered].
    + exact H6'.
    + exact Qs.
    + intros L HL. rewrite Hcq, app_nil_r. rewrite (Qc L HL), EQ. reflexivity.
    + intros x Hx. apply Hlive'. exact Hx.
    + intros b0 Hb0. discriminate.
  - inversion Hstep; subst d' o; clear Hstep.
    assert (Eout : out ++ map fst (map (fun x => (x, vis d)) (p_out p) ++ c_out c) = out ++ p_out p ++ D).
    { rewrite !map_app, map_fst_pair, ED. reflexivity. }
    rewrite Eout. constructor; cbn [emap queue buffered].
    + exact H6'.
    + exact Qs.
    + intros L HL. rewrite (Qc L HL), EQ, <- !app_assoc. reflexivity.
    + intros x Hx. apply Hlive'. rewrite !in_app_iff in *. tauto.
    + intros b0 Hb0.
      destruct (Qb b0 (Hmono b0 Hb0)) as [q1 [mb [q2 [E1 [E2' E3]]]]].
      rewrite EQ, <- app_assoc in E1.
      destruct (app_split_first b0 D (c_q c ++ [p_msg p]) q1 q2 mb E1 E2') as [l [El1 El2]].
      { intros x Hx E. pose proof (EDb x Hx) as Hf. rewrite E in Hf. congruence. }
      exists l, mb, q2. split; [exact El2|]. split; [exact E2'|].
      intros x Hx. apply E3. rewrite El1. rewrite !in_app_iff in *. tauto.
Qed.

Lemma run_inv7 ms : forall d out d' o,
  Inv7q d out -> run d ms = (d', o) -> Inv7q d' (out ++ map fst o).
Proof.
  induction ms as [|m r IH]; intros d out d' o HI H; cbn [run] in H.
  - inversion H; subst. cbn. rewrite app_nil_r. exact HI.
  - destruct (step d m) as [d1 o1] eqn:E1. destruct (run d1 r) as [d2 o2] eqn:E2. inversion H; subst.
    pose proof (step_inv7 _ _ _ _ _ HI E1) as H1. pose proof (IH _ _ _ _ H1 E2) as H2.
    rewrite map_app, app_assoc. exact H2.
Qed.

Lemma Inv7q_init first_id : 0 < first_id -> Inv7q (init first_id []) [].
Proof.
  intros Hpos. split; [|apply InvQ_init]. constructor; cbn.
  - apply Inv6_init. split; [constructor|]. split; [intros L []|exact Hpos].
  - intros k ls [].
  - intros L [].
  - intros x [].
  - intros b Hb. discriminate.
Qed.

(* the statement at the level of the detector's own lifecycle lists, for every stream processed from an empty table *)
Theorem run_counts_live first_id ms d o :
  0 < first_id -> run (init first_id []) ms = (d, o) ->
  (forall L, In L (all_lcs (emap d)) -> l_nr L = N.of_nat (cnt (l_id L) (map fst o ++ queue d))) /\
  (forall x, In x (map fst o ++ queue d) -> exists L, In L (all_lcs (emap d)) /\ l_id L = m_lc x) /\
  NoDup (ids (emap d)).
Proof.
  intros Hpos Hrun. destruct (run_inv7 ms _ _ _ _ (Inv7q_init first_id Hpos) Hrun) as [H7 _]. cbn [app] in H7.
  destruct H7 as [H6 _ Hc Hl _]. split; [exact Hc|]. split; [|exact (i_nd d H6)].
  intros x Hx. apply in_app_or in Hx. destruct Hx as [Hx|Hx]; [apply Hl; exact Hx|].
  destruct (i_q d H6 x Hx) as [L [HL [E _]]]. exists L. auto.
Qed.
