(* The sw-version block of Lifecycle::update returns for every pair of arguments (Lifecycle/SwVersion.v). *)
From Coq Require Import List NArith Bool Lia.
From AdltV Require Import Base.Res Base.MachInt Crash.ControlMsgs Crash.ControlMsgsProofs Lifecycle.SwVersion.
Import ListNotations.
Open Scope N_scope.

Lemma index_from_ok (p : bytes) a : a <= blen p -> index_from p a = Ok (skipn (N.to_nat a) p).
Proof. intros H. unfold index_from. apply N.leb_le in H. rewrite H. reflexivity. Qed.

Theorem sw_block_no_panic cur resp a1 a2 : exists r, sw_block cur resp a1 a2 = Ok r.
Proof.
  unfold sw_block. destruct cur as [v|]; [eexists; reflexivity|].
  destruct (negb resp); [eexists; reflexivity|].
  destruct (negb (message_id a1 =? SERVICE_ID_GET_SOFTWARE_VERSION)); [eexists; reflexivity|].
  destruct (match a2 with Some a => a | None => ([], false) end) as [payload be].
  destruct (5 <=? blen payload) eqn:E; [|eexists; reflexivity]. apply N.leb_le in E.
  rewrite index_from_ok by lia. cbn [bind].
  destruct (sw_version_no_panic be (skipn (N.to_nat 1) payload)) as [r Hr]. rewrite Hr. cbn [bind].
  eexists; reflexivity.
Qed.

Theorem sw_block_keeps_existing v resp a1 a2 : sw_block (Some v) resp a1 a2 = Ok (Some v).
Proof. reflexivity. Qed.

(* only a control response whose first argument carries the service id 19 can set the version *)
Theorem sw_block_changes_only_on_swv_response cur resp a1 a2 r :
  sw_block cur resp a1 a2 = Ok r -> r <> cur ->
  cur = None /\ resp = true /\ message_id a1 = SERVICE_ID_GET_SOFTWARE_VERSION /\
  exists p be, a2 = Some (p, be) /\ 5 <= blen p.
Proof.
  unfold sw_block. destruct cur as [v|]; [intros H; inversion H; congruence|].
  destruct resp; cbn [negb]; [|intros H; inversion H; congruence].
  destruct (message_id a1 =? SERVICE_ID_GET_SOFTWARE_VERSION) eqn:Eid; cbn [negb]; [|intros H; inversion H; congruence].
  apply N.eqb_eq in Eid.
  destruct a2 as [[p be]|].
  - destruct (5 <=? blen p) eqn:E; [|intros H; inversion H; congruence]. apply N.leb_le in E.
    intros _ _. repeat split; auto. exists p, be. split; [reflexivity|exact E].
  - cbn. intros H; inversion H; congruence.
Qed.

(* the reordered block (slice first) panics exactly on the inputs the guard of the real block is there for *)
Theorem sw_block_slice_first_panics (be_id : bool) :
  sw_block_slice_first None true (Some ((if be_id then [0; 0; 0; 19] else [19; 0; 0; 0]) : bytes, be_id)) None = Panic site_index.
Proof. destruct be_id; reflexivity. Qed.
