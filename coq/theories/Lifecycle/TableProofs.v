(* C07 (count clauses, part 2): when a stream has been processed, the published table holds exactly the
   current copies of the detector's live lifecycles: nothing stale, nothing merged. *)
From Coq Require Import List NArith Bool Lia Permutation Sorted Arith PeanoNat.
From AdltV Require Import Lifecycle.Model Lifecycle.ForwardProofs Lifecycle.PublishProofs Lifecycle.CountProofs.
Import ListNotations.
Open Scope N_scope.

(* ------------------------------------------------------------------ tables and refresh *)
Lemma refresh_app t a b : refresh t (a ++ b) = refresh (refresh t a) b.
Proof. unfold refresh. apply fold_left_app. Qed.

Lemma refresh_snoc t a o : refresh t (a ++ [o]) = apply_op (refresh t a) o.
Proof. rewrite refresh_app. reflexivity. Qed.

(* publishing the lifecycles whose ids are in [tr] *)
Lemma marked_updates_get em tr : NoDup (ids em) -> forall t X,
  In X (all_lcs em) ->
  tbl_get (l_id X) (refresh t (marked_updates em tr)) = if inb (l_id X) tr then Some X else tbl_get (l_id X) t.
Proof.
  unfold marked_updates, ids. intros Hnd. generalize (all_lcs em) Hnd. clear Hnd.
  intros l. induction l as [|Y r IH]; intros Hnd t X HX; [destruct HX|].
  cbn [map] in Hnd. inversion Hnd as [|a l0 Hni Hnd' Eq]; subst.
  cbn [filter]. destruct (inb (l_id Y) tr) eqn:EY.
  - cbn [map refresh fold_left apply_op]. fold (refresh (tbl_set (l_id Y) Y t) (map (fun L => PUpdate (l_id L) L) (filter (fun L => inb (l_id L) tr) r))).
    destruct HX as [->|HX].
    + rewrite EY.
      (* Y is not in r: later updates do not touch its id *)
      assert (Hskip : forall l' t', ~ In (l_id X) (map l_id l') ->
                tbl_get (l_id X) (refresh t' (map (fun L => PUpdate (l_id L) L) (filter (fun L => inb (l_id L) tr) l'))) = tbl_get (l_id X) t').
      { clear. induction l' as [|Z l' IHl]; intros t' Hn; [reflexivity|]. cbn [filter].
        cbn [map] in Hn. destruct (inb (l_id Z) tr).
        - cbn [map refresh fold_left apply_op]. fold (refresh (tbl_set (l_id Z) Z t') (map (fun L => PUpdate (l_id L) L) (filter (fun L => inb (l_id L) tr) l'))).
          rewrite IHl by (intros H; apply Hn; right; exact H). apply tbl_get_set_other. intros E. apply Hn. left. exact E.
        - apply IHl. intros H. apply Hn. right. exact H. }
      rewrite Hskip by exact Hni. apply tbl_get_set_same.
    + rewrite (IH Hnd' _ X HX). destruct (inb (l_id X) tr); [reflexivity|].
      apply tbl_get_set_other. intros E. apply Hni. rewrite E. apply in_map. exact HX.
  - destruct HX as [->|HX]; [|apply IH; assumption].
    rewrite EY.
    assert (Hskip : forall l' t', ~ In (l_id X) (map l_id l') ->
              tbl_get (l_id X) (refresh t' (map (fun L => PUpdate (l_id L) L) (filter (fun L => inb (l_id L) tr) l'))) = tbl_get (l_id X) t').
    { clear. induction l' as [|Z l' IHl]; intros t' Hn; [reflexivity|]. cbn [filter].
      cbn [map] in Hn. destruct (inb (l_id Z) tr).
      - cbn [map refresh fold_left apply_op]. fold (refresh (tbl_set (l_id Z) Z t') (map (fun L => PUpdate (l_id L) L) (filter (fun L => inb (l_id L) tr) l'))).
        rewrite IHl by (intros H; apply Hn; right; exact H). apply tbl_get_set_other. intros E. apply Hn. left. exact E.
      - apply IHl. intros H. apply Hn. right. exact H. }
    apply Hskip. exact Hni.
Qed.

(* keys of the table after publishing marked lifecycles *)
Lemma marked_updates_keys em tr : forall t i L0,
  tbl_get i (refresh t (marked_updates em tr)) = Some L0 ->
  (exists X, In X (all_lcs em) /\ l_id X = i /\ inb i tr = true) \/ tbl_get i t = Some L0.
Proof.
  unfold marked_updates. generalize (all_lcs em). intros l. induction l as [|Y r IH]; intros t i L0 H; [right; exact H|].
  cbn [filter] in H. destruct (inb (l_id Y) tr) eqn:EY.
  - cbn [map refresh fold_left apply_op] in H.
    fold (refresh (tbl_set (l_id Y) Y t) (map (fun L => PUpdate (l_id L) L) (filter (fun L => inb (l_id L) tr) r))) in H.
    destruct (IH _ _ _ H) as [[X [HX [E1 E2]]]|H'].
    + left. exists X. split; [right; exact HX|auto].
    + destruct (N.eq_dec (l_id Y) i) as [E|E].
      * left. exists Y. split; [left; reflexivity|]. split; [exact E|rewrite <- E; exact EY].
      * right. rewrite tbl_get_set_other in H' by exact E. exact H'.
  - destruct (IH _ _ _ H) as [[X [HX [E1 E2]]]|H']; [left; exists X; split; [right; exact HX|auto]|right; exact H'].
Qed.

Lemma mark_in i tr : In i (mark i tr).
Proof. unfold mark. destruct (inb i tr) eqn:E; [apply inb_true_iff; exact E|apply in_or_app; right; left; reflexivity]. Qed.
Lemma mark_mono i j tr : In j tr -> In j (mark i tr).
Proof. unfold mark. destruct (inb i tr); [auto|intros H; apply in_or_app; left; exact H]. Qed.

Lemma flush_marks_mono q : forall last tr j, In j tr -> In j (flush_marks last q tr).
Proof.
  induction q as [|m r IH]; intros last tr j H; cbn [flush_marks]; [exact H|].
  destruct (N.eqb (m_lc m) last); [apply IH; exact H|apply IH; apply mark_mono; exact H].
Qed.

Lemma flush_marks_all q : forall last tr, (In last tr \/ ~ In last (map m_lc q)) ->
  forall x, In x q -> In (m_lc x) (flush_marks last q tr).
Proof.
  induction q as [|m r IH]; intros last tr Hl x Hx; [destruct Hx|]. cbn [flush_marks].
  destruct (N.eqb (m_lc m) last) eqn:E.
  - apply N.eqb_eq in E.
    assert (Hin : In last tr) by (destruct Hl as [Hl|Hl]; [exact Hl|exfalso; apply Hl; left; exact E]).
    destruct Hx as [<-|Hx]; [rewrite E; apply flush_marks_mono; exact Hin|apply IH; [left; exact Hin|exact Hx]].
  - destruct Hx as [<-|Hx]; [apply flush_marks_mono; apply mark_in|apply IH; [left; apply mark_in|exact Hx]].
Qed.

Lemma release_marks q : forall pr buf tr o q' tr',
  release pr buf q tr = (o, q', tr') ->
  (forall j, In j tr -> In j tr') /\ (forall x, In x o -> m_lc x = pr \/ In (m_lc x) tr').
Proof.
  induction q as [|m r IH]; intros pr buf tr o q' tr' H; cbn [release] in H.
  - inversion H; subst. split; [auto|intros x []].
  - destruct (N.eqb (m_lc m) pr) eqn:E.
    + destruct (release pr buf r tr) as [[o1 q1] t1] eqn:Er. inversion H; subst.
      destruct (IH _ _ _ _ _ _ Er) as [H1 H2]. split; [exact H1|].
      intros x [<-|Hx]; [left; apply N.eqb_eq; exact E|apply H2; exact Hx].
    + destruct (inb (m_lc m) buf) eqn:Eb; cbn [negb] in H.
      * inversion H; subst. split; [auto|intros x []].
      * destruct (release (m_lc m) buf r (mark (m_lc m) tr)) as [[o1 q1] t1] eqn:Er. inversion H; subst.
        destruct (IH _ _ _ _ _ _ Er) as [H1 H2]. split; [intros j Hj; apply H1; apply mark_mono; exact Hj|].
        intros x [<-|Hx]; [right; apply H1; apply mark_in|].
        destruct (H2 x Hx) as [H3|H3]; [right; rewrite H3; apply H1; apply mark_in|right; exact H3].
Qed.

(* ------------------------------------------------------------------ the table invariant *)
Record T1 (em : emap_t) (buf : list N) (v : table) (pd : list pend_op) (tr : list N) (q : list msg) : Prop := {
  t_cur : forall X, In X (all_lcs em) -> inb (l_id X) buf = false ->
            tbl_get (l_id X) (refresh v pd) = Some X \/ In (l_id X) tr \/ exists x, In x q /\ m_lc x = l_id X;
  t_keys : forall i L0, tbl_get i (refresh v pd) = Some L0 -> exists X, In X (all_lcs em) /\ l_id X = i /\ inb i buf = false
}.

Definition Inv8 (d : det) : Prop := T1 (emap d) (buffered d) (vis d) (pend d) (to_refresh d) (queue d).

Lemma inb_false_app x a b : inb x (a ++ b) = false -> inb x a = false /\ inb x b = false.
Proof. rewrite inb_app. apply orb_false_iff. Qed.

Lemma phase1_t1 d out m :
  Inv7 d out -> Inv8 d ->
  T1 (p_emap (phase1 d m)) (p_buf (phase1 d m)) (vis d) (p_pend (phase1 d m)) (p_tr (phase1 d m))
     (p_q (phase1 d m) ++ [p_msg (phase1 d m)]).
Proof.
  intros H7 [Tc Tk]. pose proof (j6 d out H7) as H6.
  destruct (phase1_cases d m) as [v [Eem HC]].
  destruct (p1_store_facts d m _ v H6 HC) as [rest [A' [A0 D]]].
  pose proof (lookup_nodup (emap d) (m_ecu m) (i_nd d H6)) as Hlnd.
  assert (Hfr : forall L, In L (all_lcs (emap d)) -> l_id L < next_id d) by (intros L HL; apply (i_fresh d H6 L HL)).
  set (p := phase1 d m) in *.
  (* an old lifecycle that is untouched keeps its status when the queue only grows and marks only grow *)
  assert (Hkeep : forall X, In X (all_lcs (emap d)) -> inb (l_id X) (buffered d) = false ->
            (forall j, In j (to_refresh d) -> In j (p_tr p)) ->
            (forall x, In x (queue d) -> m_lc x = l_id X -> (exists x', In x' (p_q p ++ [p_msg p]) /\ m_lc x' = l_id X) \/ In (l_id X) (p_tr p)) ->
            tbl_get (l_id X) (refresh (vis d) (p_pend p)) = tbl_get (l_id X) (refresh (vis d) (pend d)) ->
            tbl_get (l_id X) (refresh (vis d) (p_pend p)) = Some X \/ In (l_id X) (p_tr p) \/
            exists x, In x (p_q p ++ [p_msg p]) /\ m_lc x = l_id X).
  { intros X HX Hb Htr Hq Hg. destruct (Tc X HX Hb) as [H|[H|[x [Hx1 Hx2]]]].
    - left. rewrite Hg. exact H.
    - right. left. apply Htr. exact H.
    - destruct (Hq x Hx1 Hx2) as [H|H]; [right; right; exact H|right; left; exact H]. }
  destruct HC as [Hl -> Eq Ebuf Enid Emsg Eout Etr Epend
                 |prevs L Ln Hl -> Eid Enr Eecu Eq Ebuf Enid Emsg Eout Etr Epend Eupd
                 |prevs L L' Hl -> Eid Eecu Enr Eq Ebuf Enid Emsg Eout Etr Epend Eupd
                 |pp P L L' Hl -> Eid Eecu Enr Hcond Enid Emsg Epend Hsub Hnm Eupd].
  - (* new ECU *)
    constructor; rewrite Eem, ?Ebuf, ?Epend, ?Etr, ?Eq.
    + intros X HX Hb. apply inb_false_app in Hb. destruct Hb as [Hb1 Hb2]. apply A' in HX. destruct HX as [[<-|[]]|HX].
      * cbn in Hb2. rewrite N.eqb_refl in Hb2. discriminate.
      * rewrite <- Etr, <- Epend, <- Eq. apply Hkeep; auto.
        -- apply A0. right. exact HX.
        -- rewrite Etr. auto.
        -- intros x Hx E. left. exists x. split; [rewrite Eq; apply in_or_app; left; exact Hx|exact E].
        -- rewrite Epend. reflexivity.
    + intros i L0 Hg. destruct (Tk i L0 Hg) as [X [HX [E1 E2]]]. exists X. apply A0 in HX. rewrite Hl in HX. destruct HX as [[]|HX].
      split; [apply A'; right; exact HX|]. split; [exact E1|]. rewrite inb_app, E2. cbn. rewrite orb_false_r.
      apply N.eqb_neq. intros E. subst i. pose proof (Hfr X). rewrite E in H. specialize (H (proj2 (A0 X) (or_intror HX))). lia.
  - (* created *)
    assert (Hv : forall L0, In L0 (prevs ++ [L; Ln]) <-> In L0 (lookup (m_ecu m) (emap d)) \/ L0 = Ln).
    { intros L0. replace (prevs ++ [L; Ln]) with ((prevs ++ [L]) ++ [Ln]) by (rewrite <- app_assoc; reflexivity).
      rewrite <- Hl, in_app_iff. cbn. intuition. }
    constructor; rewrite Eem, ?Ebuf, ?Epend, ?Etr, ?Eq.
    + intros X HX Hb. apply inb_false_app in Hb. destruct Hb as [Hb1 Hb2]. apply A' in HX.
      assert (Hold : In X (all_lcs (emap d)) ->
                tbl_get (l_id X) (refresh (vis d) (pend d)) = Some X \/ In (l_id X) (to_refresh d) \/
                exists x, In x (queue d ++ [p_msg p]) /\ m_lc x = l_id X).
      { intros HXo. rewrite <- Etr, <- Epend, <- Eq. apply Hkeep; auto.
        - rewrite Etr. auto.
        - intros x Hx E. left. exists x. split; [rewrite Eq; apply in_or_app; left; exact Hx|exact E].
        - rewrite Epend. reflexivity. }
      destruct HX as [HX|HX].
      * apply Hv in HX. destruct HX as [HX| ->]; [apply Hold; apply lookup_in_all in HX; exact HX|].
        rewrite Eid in Hb2. cbn in Hb2. rewrite N.eqb_refl in Hb2. discriminate.
      * apply Hold. apply A0. right. exact HX.
    + intros i L0 Hg. destruct (Tk i L0 Hg) as [X [HX [E1 E2]]]. exists X. split; [|split; [exact E1|]].
      * apply A0 in HX. apply A'. destruct HX as [HX|HX]; [left; apply Hv; left; exact HX|right; exact HX].
      * rewrite inb_app, E2. cbn. rewrite orb_false_r. apply N.eqb_neq. intros E. subst i. pose proof (Hfr X HX). lia.
  - (* joined *)
    assert (HLin : In L (lookup (m_ecu m) (emap d))) by (rewrite Hl; apply in_or_app; right; left; reflexivity).
    constructor; rewrite Eem, ?Ebuf, ?Epend, ?Etr, ?Eq.
    + intros X HX Hb. apply A' in HX.
      assert (Hold : In X (all_lcs (emap d)) ->
                tbl_get (l_id X) (refresh (vis d) (pend d)) = Some X \/ In (l_id X) (to_refresh d) \/
                exists x, In x (queue d ++ [p_msg p]) /\ m_lc x = l_id X).
      { intros HXo. rewrite <- Etr, <- Epend, <- Eq. apply Hkeep; auto.
        - rewrite Etr. auto.
        - intros x Hx E. left. exists x. split; [rewrite Eq; apply in_or_app; left; exact Hx|exact E].
        - rewrite Epend. reflexivity. }
      destruct HX as [HX|HX].
      * apply in_app_or in HX. destruct HX as [HX|[<-|[]]].
        -- apply Hold. apply lookup_in_all with (e := m_ecu m). rewrite Hl. apply in_or_app. left. exact HX.
        -- right. right. exists (p_msg p). split; [apply in_or_app; right; left; reflexivity|]. rewrite Emsg, Eid. reflexivity.
      * apply Hold. apply A0. right. exact HX.
    + intros i L0 Hg. destruct (Tk i L0 Hg) as [X [HX [E1 E2]]]. apply A0 in HX. destruct HX as [HX|HX].
      * rewrite Hl in HX. apply in_app_or in HX. destruct HX as [HX|[<-|[]]].
        -- exists X. split; [apply A'; left; apply in_or_app; left; exact HX|auto].
        -- exists L'. split; [apply A'; left; apply in_or_app; right; left; reflexivity|]. split; [congruence|exact E2].
      * exists X. split; [apply A'; right; exact HX|auto].
  - (* merged *)
    assert (HLin : In L (lookup (m_ecu m) (emap d))) by (rewrite Hl; apply in_or_app; right; right; left; reflexivity).
    assert (HPin : In P (lookup (m_ecu m) (emap d))) by (rewrite Hl; apply in_or_app; right; left; reflexivity).
    assert (Hids : NoDup (map l_id pp ++ [l_id P; l_id L])) by (rewrite Hl, map_app in Hlnd; exact Hlnd).
    apply nodup_app_inv in Hids. destruct Hids as [Hid1 [Hid2 Hid3]].
    assert (HPL : l_id P <> l_id L) by (inversion Hid2 as [|a b Hni _ Eq]; subst; intros E; apply Hni; left; symmetry; exact E).
    assert (Hppids : forall X, In X pp -> l_id X <> l_id P /\ l_id X <> l_id L).
    { intros X HX. split; intros E; apply (Hid3 (l_id X)); try (apply in_map; exact HX); [left|right; left]; symmetry; exact E. }
    assert (Hrestids : forall X, In X rest -> l_id X <> l_id P /\ l_id X <> l_id L).
    { intros X HX. split; intros E; apply (D X HX); rewrite E; apply in_map; assumption. }
    set (q' := relabel (l_id L) (l_id P) (queue d)) in *.
    assert (Hget : forall i, i <> l_id L -> tbl_get i (refresh (vis d) (p_pend p)) = tbl_get i (refresh (vis d) (pend d))).
    { intros i Hi. rewrite Epend. destruct (inb (l_id L) (buffered d)); [reflexivity|].
      rewrite refresh_snoc. cbn [apply_op]. apply tbl_get_remove_other. congruence. }
    assert (Htrmono : forall j, In j (to_refresh d) -> In j (p_tr p)).
    { intros j Hj. destruct Hsub as [[_ [_ [_ [_ ->]]]]|[_ [_ [_ [_ ->]]]]]; [apply flush_marks_mono; exact Hj|exact Hj]. }
    assert (Hqmsg : forall X x, l_id X <> l_id L -> In x (queue d) -> m_lc x = l_id X ->
                      (exists x', In x' (p_q p ++ [p_msg p]) /\ m_lc x' = l_id X) \/ In (l_id X) (p_tr p)).
    { intros X x HneL Hx E.
      assert (Hx' : In x q' /\ True).
      { split; [|exact I]. unfold q', relabel. apply in_map_iff. exists x. split; [|exact Hx].
        destruct (N.eqb (m_lc x) (l_id L)) eqn:El; [apply N.eqb_eq in El; congruence|reflexivity]. }
      destruct Hx' as [Hx' _].
      destruct Hsub as [[_ [_ [Eq [Eout Etr]]]]|[_ [_ [Eq [Eout Etr]]]]].
      - right. rewrite Etr, <- E. apply flush_marks_all; [|exact Hx'].
        right. intros Hin. apply in_map_iff in Hin. destruct Hin as [x0 [E0 Hx0]].
        (* no message carries lifecycle 0 *)
        unfold q', relabel in Hx0. apply in_map_iff in Hx0. destruct Hx0 as [x1 [E1 Hx1]].
        destruct (i_q d H6 x1 Hx1) as [L1 [HL1 [E2 _]]]. pose proof (i_fresh d H6 L1 HL1) as [_ Hnz].
        destruct (N.eqb (m_lc x1) (l_id L)) eqn:El; subst x0; cbn [set_lc m_lc] in E0.
        + pose proof (i_fresh d H6 P (lookup_in_all _ _ _ HPin)) as [_ HnzP]. congruence.
        + congruence.
      - left. exists x. split; [rewrite Eq; apply in_or_app; left; exact Hx'|exact E]. }
    constructor; rewrite Eem.
    + intros X HX Hb. apply A' in HX.
      assert (Hb' : l_id X <> l_id L -> inb (l_id X) (buffered d) = false).
      { intros Hne. destruct Hsub as [[Er [Eb _]]|[_ [Eb _]]].
        - destruct (inb (l_id X) (buffered d)) eqn:E; [|reflexivity]. apply inb_true_iff in E.
          assert (Hin : In (l_id X) (remove_id (l_id L) (buffered d))).
          { unfold remove_id. apply filter_In. split; [exact E|]. apply negb_true_iff. apply N.eqb_neq. congruence. }
          rewrite Er in Hin. destruct Hin.
        - rewrite Eb in Hb. apply inb_remove_false in Hb. destruct Hb as [Hb|Hb]; [congruence|exact Hb]. }
      destruct HX as [HX|HX].
      * apply in_app_or in HX. destruct HX as [HX|[<-|[]]].
        -- destruct (Hppids X HX) as [N1 N2]. apply Hkeep; auto.
           ++ apply lookup_in_all with (e := m_ecu m). rewrite Hl. apply in_or_app. left. exact HX.
           ++ intros x Hx E. eapply Hqmsg; eauto.
        -- right. right. exists (p_msg p). split; [apply in_or_app; right; left; reflexivity|]. rewrite Emsg. reflexivity.
      * destruct (Hrestids X HX) as [N1 N2]. apply Hkeep; auto.
        -- apply A0. right. exact HX.
        -- intros x Hx E. eapply Hqmsg; eauto.
    + intros i L0 Hg.
      assert (HiL : i <> l_id L \/ (i = l_id L /\ inb (l_id L) (buffered d) = true)).
      { destruct (N.eq_dec i (l_id L)) as [->|Hne]; [right; split; [reflexivity|]|left; exact Hne].
        rewrite Epend in Hg. destruct (inb (l_id L) (buffered d)) eqn:E; [reflexivity|].
        rewrite refresh_snoc in Hg. cbn [apply_op] in Hg. rewrite tbl_get_remove_same in Hg. discriminate. }
      destruct HiL as [Hne|[-> HbL]].
      * rewrite Hget in Hg by exact Hne. destruct (Tk i L0 Hg) as [X [HX [E1 E2]]].
        assert (Hbuf' : inb i (p_buf p) = false).
        { destruct Hsub as [[_ [-> _]]|[_ [-> _]]]; [reflexivity|].
          destruct (inb i (remove_id (l_id L) (buffered d))) eqn:E; [|reflexivity]. apply inb_remove_true in E. destruct E as [E _]. congruence. }
        apply A0 in HX. destruct HX as [HX|HX].
        -- rewrite Hl in HX. apply in_app_or in HX. destruct HX as [HX|[<-|[<-|[]]]].
           ++ exists X. split; [apply A'; left; apply in_or_app; left; exact HX|auto].
           ++ exists (merge P L'). split; [apply A'; left; apply in_or_app; right; left; reflexivity|]. split; [exact E1|exact Hbuf'].
           ++ congruence.
        -- exists X. split; [apply A'; right; exact HX|auto].
      * (* the merged lifecycle was still buffered: it was never a key of the table *)
        rewrite Epend, HbL in Hg. destruct (Tk _ _ Hg) as [X [_ [_ E2]]]. congruence.
Qed.

(* ------------------------------------------------------------------ phase 2 *)
Lemma inb_remove_mono i y l : inb i l = false -> inb i (remove_id y l) = false.
Proof.
  intros H. destruct (inb i (remove_id y l)) eqn:E; [|reflexivity]. apply inb_remove_true in E. destruct E. congruence.
Qed.

Lemma confirm_pass_t1 m em pm : NoDup (ids em) ->
  forall ls, incl ls (all_lcs em) -> forall c,
    T1 em (c_buf c) (c_vis c) (c_pend c) (c_tr c) (c_q c ++ [pm]) ->
    let c' := confirm_pass m ls c in T1 em (c_buf c') (c_vis c') (c_pend c') (c_tr c') (c_q c' ++ [pm]).
Proof.
  intros Hnd. induction ls as [|L r IH]; intros Hincl c HT; cbn [confirm_pass]; [exact HT|].
  assert (HL : In L (all_lcs em)) by (apply Hincl; left; reflexivity).
  assert (Hincl' : incl r (all_lcs em)) by (intros x Hx; apply Hincl; right; exact Hx).
  destruct (inb (l_id L) (c_buf c) && confirmable m L); [|apply IH; assumption].
  destruct (release (l_id L) (remove_id (l_id L) (c_buf c)) (c_q c) (c_tr c)) as [[o q1] tr1] eqn:Er.
  apply IH; [exact Hincl'|]. cbn [c_buf c_vis c_pend c_tr c_q].
  destruct HT as [Tc Tk].
  pose proof (release_split _ _ _ _ _ _ _ Er) as Hsplit.
  destruct (release_marks _ _ _ _ _ _ _ Er) as [Hmono Hmk].
  assert (Ev : refresh (refresh (c_vis c) (c_pend c ++ [PUpdate (l_id L) L])) [] = tbl_set (l_id L) L (refresh (c_vis c) (c_pend c))).
  { rewrite refresh_snoc. reflexivity. }
  constructor; rewrite Ev.
  - intros X HX Hb. apply inb_remove_false in Hb. destruct (N.eq_dec (l_id X) (l_id L)) as [E|E].
    + assert (X = L) by (eapply nodup_id_eq; eauto). subst X. left. apply tbl_get_set_same.
    + destruct Hb as [Hb|Hb]; [congruence|]. rewrite tbl_get_set_other by congruence.
      destruct (Tc X HX Hb) as [H|[H|[x [Hx1 Hx2]]]]; [left; exact H|right; left; apply Hmono; exact H|].
      apply in_app_or in Hx1. destruct Hx1 as [Hx1|Hx1].
      * rewrite Hsplit in Hx1. apply in_app_or in Hx1. destruct Hx1 as [Hx1|Hx1].
        -- destruct (Hmk x Hx1) as [H|H]; [congruence|]. right. left. rewrite <- Hx2. exact H.
        -- right. right. exists x. split; [apply in_or_app; left; exact Hx1|exact Hx2].
      * right. right. exists x. split; [apply in_or_app; right; exact Hx1|exact Hx2].
  - intros i L0 Hg. destruct (N.eq_dec (l_id L) i) as [E|E].
    + exists L. split; [exact HL|]. split; [exact E|]. rewrite <- E. apply inb_remove_self.
    + rewrite tbl_get_set_other in Hg by exact E. destruct (Tk i L0 Hg) as [X [HX [E1 E2]]].
      exists X. split; [exact HX|]. split; [exact E1|apply inb_remove_mono; exact E2].
Qed.

Lemma phase2_t1 d p c nc :
  NoDup (ids (p_emap p)) ->
  T1 (p_emap p) (p_buf p) (vis d) (p_pend p) (p_tr p) (p_q p ++ [p_msg p]) ->
  phase2 d p = (c, nc) ->
  T1 (p_emap p) (c_buf c) (c_vis c) (c_pend c) (c_tr c) (c_q c ++ [p_msg p]).
Proof.
  intros Hnd HT. unfold phase2.
  set (c0 := {| c_buf := p_buf p; c_vis := vis d; c_pend := p_pend p; c_q := p_q p; c_tr := p_tr p; c_out := [] |}).
  destruct (next_check d <? m_rt (p_msg p)); [|intros H; inversion H; subst; exact HT].
  destruct (m_ts (p_msg p) + MAX_BUFFERING_DELAY <? m_rt (p_msg p)); intros H; inversion H; subst; [|exact HT].
  apply (confirm_pass_t1 (p_msg p) (p_emap p) (p_msg p) Hnd (all_lcs (p_emap p)) (incl_refl _) c0). exact HT.
Qed.

(* ------------------------------------------------------------------ one step *)
Lemma step_inv8 d out m d' o : Inv7q d out -> Inv8 d -> step d m = (d', o) -> Inv8 d'.
Proof.
  intros [H7 HQ0] H8 Hstep.
  pose proof (phase1_t1 d out m H7 H8) as HT1.
  pose proof (phase1_ok d m (j6 d out H7)) as HP1.
  unfold step in Hstep.
  destruct (phase2 d (phase1 d m)) as [c nc] eqn:E2.
  pose proof (phase2_t1 _ _ _ _ (p1_nd _ _ _ HP1) HT1 E2) as HT2.
  pose proof (phase1_inv d m HQ0) as Hp0.
  destruct (phase2_spec _ _ _ _ E2) as [_ Hc0]. specialize (Hc0 Hp0).
  set (p := phase1 d m) in *.
  destruct HT2 as [Tc Tk].
  destruct (c_buf c) as [|b bs] eqn:Eb.
  - assert (Hcq : c_q c = []) by (apply Hc0; reflexivity).
    unfold regular_refresh in Hstep.
    destruct (false || (last_reg d + 100000 <? m_index m)); inversion Hstep; subst d' o; clear Hstep; unfold Inv8; cbn [emap buffered vis pend to_refresh queue].
    + rewrite refresh_app. constructor.
      * intros X HX _. cbn [refresh fold_left].
        rewrite (marked_updates_get (p_emap p) _ (p1_nd _ _ _ HP1) _ X HX).
        destruct (inb (l_id X) (mark (m_lc (p_msg p)) (c_tr c))) eqn:Em; [left; reflexivity|].
        destruct (Tc X HX eq_refl) as [H|[H|[x [Hx1 Hx2]]]].
        -- left. exact H.
        -- exfalso. apply (mark_mono (m_lc (p_msg p))) in H. apply inb_true_iff in H. congruence.
        -- rewrite Hcq in Hx1. cbn [app] in Hx1. destruct Hx1 as [<-|[]]. exfalso.
           pose proof (mark_in (m_lc (p_msg p)) (c_tr c)) as H. rewrite Hx2 in H. apply inb_true_iff in H. congruence.
      * intros i L0 Hg. cbn [refresh fold_left] in Hg. destruct (marked_updates_keys _ _ _ _ _ Hg) as [[X [HX [E1 _]]]|H].
        -- exists X. auto.
        -- destruct (Tk i L0 H) as [X [HX [E1 _]]]. exists X. auto.
    + constructor.
      * intros X HX _. destruct (Tc X HX eq_refl) as [H|[H|[x [Hx1 Hx2]]]].
        -- left. exact H.
        -- right. left. apply mark_mono. exact H.
        -- apply in_app_or in Hx1. destruct Hx1 as [Hx1|[<-|[]]].
           ++ right. right. exists x. auto.
           ++ right. left. rewrite <- Hx2. apply mark_in.
      * intros i L0 Hg. destruct (Tk i L0 Hg) as [X [HX [E1 _]]]. exists X. auto.
  - inversion Hstep; subst d' o; clear Hstep. unfold Inv8; cbn [emap buffered vis pend to_refresh queue].
    constructor; [exact Tc|exact Tk].
Qed.

Lemma run_inv8 ms : forall d out d' o,
  Inv7q d out -> Inv8 d -> run d ms = (d', o) -> Inv8 d'.
Proof.
  induction ms as [|m r IH]; intros d out d' o H7 H8 H; cbn [run] in H.
  - inversion H; subst. exact H8.
  - destruct (step d m) as [d1 o1] eqn:E1. destruct (run d1 r) as [d2 o2] eqn:E2. inversion H; subst.
    eapply IH; [eapply step_inv7; eauto|eapply step_inv8; eauto|exact E2].
Qed.

(* ------------------------------------------------------------------ the end of the stream *)
Lemma fold_mark_mono q : forall tr j, In j tr -> In j (fold_left (fun t m => mark (m_lc m) t) q tr).
Proof. induction q as [|m r IH]; intros tr j H; cbn [fold_left]; [exact H|apply IH; apply mark_mono; exact H]. Qed.

Lemma fold_mark_all q : forall tr x, In x q -> In (m_lc x) (fold_left (fun t m => mark (m_lc m) t) q tr).
Proof.
  induction q as [|m r IH]; intros tr x Hx; [destruct Hx|]. cbn [fold_left].
  destruct Hx as [<-|Hx]; [apply fold_mark_mono; apply mark_in|apply IH; exact Hx].
Qed.

Lemma finish_table d : NoDup (ids (emap d)) -> Inv8 d ->
  (forall X, In X (all_lcs (emap d)) -> tbl_get (l_id X) (fst (finish d)) = Some X) /\
  (forall i L0, tbl_get i (fst (finish d)) = Some L0 -> exists X, In X (all_lcs (emap d)) /\ l_id X = i).
Proof.
  intros Hnd [Tc Tk]. unfold finish, regular_refresh. cbn [orb fst app].
  set (ups := map (fun L => PUpdate (l_id L) L) (filter (fun L => inb (l_id L) (buffered d)) (all_lcs (emap d)))).
  change ups with (marked_updates (emap d) (buffered d)).
  set (tr := fold_left (fun t m => mark (m_lc m) t) (queue d) (to_refresh d)).
  rewrite refresh_app. split.
  - intros X HX. rewrite (marked_updates_get (emap d) tr Hnd _ X HX).
    destruct (inb (l_id X) tr) eqn:Et; [reflexivity|].
    rewrite (marked_updates_get (emap d) (buffered d) Hnd _ X HX).
    destruct (inb (l_id X) (buffered d)) eqn:Eb; [reflexivity|].
    destruct (Tc X HX Eb) as [H|[H|[x [Hx1 Hx2]]]]; [exact H| |]; exfalso.
    + apply (fold_mark_mono (queue d)) in H. fold tr in H. apply inb_true_iff in H. congruence.
    + pose proof (fold_mark_all (queue d) (to_refresh d) x Hx1) as H. fold tr in H. rewrite Hx2 in H. apply inb_true_iff in H. congruence.
  - intros i L0 Hg. destruct (marked_updates_keys _ _ _ _ _ Hg) as [[X [HX [E1 _]]]|H]; [exists X; auto|].
    destruct (marked_updates_keys _ _ _ _ _ H) as [[X [HX [E1 _]]]|H']; [exists X; auto|].
    destruct (Tk i L0 H') as [X [HX [E1 _]]]. exists X. auto.
Qed.

Lemma Inv8_init first_id : Inv8 (init first_id []).
Proof. constructor; cbn; [intros X []|intros i L0 H; discriminate]. Qed.

(* ------------------------------------------------------------------ every live lifecycle has at least one message *)
Definition NrPos (d : det) : Prop := forall L, In L (all_lcs (emap d)) -> 0 < l_nr L.

Lemma step_emap d m : emap (fst (step d m)) = p_emap (phase1 d m).
Proof.
  unfold step. destruct (phase2 d (phase1 d m)) as [c nc]. destruct (c_buf c); [|reflexivity].
  destruct (regular_refresh _ _ _ _ _ _ _) as [[[v pd] tr2] lr]. reflexivity.
Qed.

Lemma step_nrpos d m : Inv6 d -> NrPos d -> NrPos (fst (step d m)).
Proof.
  intros H6 Hp. unfold NrPos. rewrite step_emap.
  destruct (phase1_cases d m) as [v [Eem HC]]. rewrite Eem.
  destruct (p1_store_facts d m _ v H6 HC) as [rest [A' [A0 D]]].
  assert (Hrest : forall L, In L rest -> 0 < l_nr L) by (intros L HL; apply Hp; apply A0; right; exact HL).
  assert (Hold : forall L, In L (lookup (m_ecu m) (emap d)) -> 0 < l_nr L) by (intros L HL; apply Hp; apply lookup_in_all in HL; exact HL).
  intros X HX. apply A' in HX. destruct HX as [HX|HX]; [|apply Hrest; exact HX].
  destruct HC as [Hl -> _ _ _ _ _ _ _
                 |prevs L Ln Hl -> Eid Enr Eecu _ _ _ _ _ _ _ _
                 |prevs L L' Hl -> Eid Eecu Enr _ _ _ _ _ _ _ _
                 |pp P L L' Hl -> Eid Eecu Enr _ _ _ _ _ _ _].
  - destruct HX as [<-|[]]. cbn. lia.
  - apply in_app_or in HX. destruct HX as [HX|[<-|[<-|[]]]].
    + apply Hold. rewrite Hl. apply in_or_app. left. exact HX.
    + apply Hold. rewrite Hl. apply in_or_app. right. left. reflexivity.
    + lia.
  - apply in_app_or in HX. destruct HX as [HX|[<-|[]]].
    + apply Hold. rewrite Hl. apply in_or_app. left. exact HX.
    + lia.
  - apply in_app_or in HX. destruct HX as [HX|[<-|[]]].
    + apply Hold. rewrite Hl. apply in_or_app. left. exact HX.
    + cbn [merge l_nr]. lia.
Qed.

Lemma run_nrpos ms : forall d d' o, Inv6 d -> NrPos d -> run d ms = (d', o) -> NrPos d'.
Proof.
  induction ms as [|m r IH]; intros d d' o H6 Hp H; cbn [run] in H.
  - inversion H; subst. exact Hp.
  - destruct (step d m) as [d1 o1] eqn:E1. destruct (run d1 r) as [d2 o2] eqn:E2. inversion H; subst.
    destruct (step_ok _ _ _ _ H6 E1) as [H61 _].
    eapply IH; [exact H61| |exact E2]. pose proof (step_nrpos d m H6 Hp) as Hn. rewrite E1 in Hn. exact Hn.
Qed.

(* ------------------------------------------------------------------ final table vs delivered messages *)
Theorem detect_table first_id ms :
  0 < first_id ->
  let dl := map fst (fst (detect first_id [] ms)) in
  let t := snd (detect first_id [] ms) in
  (* every listed lifecycle: the key is its id, its count is the number of delivered messages carrying the id, and is not 0 *)
  (forall i L0, tbl_get i t = Some L0 ->
                l_id L0 = i /\ l_nr L0 = N.of_nat (cnt i dl) /\ (cnt i dl > 0)%nat) /\
  (* every delivered message carries a listed id (so the counts add up to the number of messages) *)
  (forall x, In x dl -> exists L0, tbl_get (m_lc x) t = Some L0).
Proof.
  intros Hpos. unfold detect. destruct (run (init first_id []) ms) as [d o1] eqn:Er.
  pose proof (run_inv7 ms _ _ _ _ (Inv7q_init first_id Hpos) Er) as H7q. cbn [app] in H7q.
  pose proof (run_inv8 ms _ _ _ _ (Inv7q_init first_id Hpos) (Inv8_init first_id) Er) as H8.
  destruct H7q as [H7 _]. pose proof (j6 _ _ H7) as H6.
  assert (Hnr : NrPos d).
  { apply (run_nrpos ms (init first_id []) d o1); [|intros L HL; cbn in HL; destruct HL|exact Er]. apply Inv6_init. split; [constructor|]. split; [intros L []|exact Hpos]. }
  destruct (finish_table d (i_nd d H6) H8) as [F1 F2].
  pose proof (finish_out d) as Hfo.
  destruct (finish d) as [t o2]. cbn [fst snd] in *. cbn zeta.
  rewrite map_app, Hfo.
  destruct H7 as [_ _ Hcnt Hlive _].
  split.
  - intros i L0 Hg. destruct (F2 i L0 Hg) as [X [HX E]]. rewrite <- E in Hg. rewrite (F1 X HX) in Hg. inversion Hg; subst L0.
    split; [exact E|]. rewrite <- E. pose proof (Hcnt X HX) as Hc. split; [exact Hc|].
    (* every live lifecycle has at least one message *)
    pose proof (Hnr X HX) as Hpos'. lia.
  - intros x Hx. apply in_app_or in Hx. destruct Hx as [Hx|Hx].
    + destruct (Hlive x Hx) as [X [HX E]]. exists X. rewrite <- E. apply F1. exact HX.
    + destruct (i_q d H6 x Hx) as [X [HX [E _]]]. exists X. rewrite <- E. apply F1. exact HX.
Qed.

(* ------------------------------------------------------------------ keys of the published table are distinct; the counts add up *)
Definition KeysND (t : table) : Prop := NoDup (map fst t).

Lemma tbl_remove_keys i t x : In x (map fst (tbl_remove i t)) -> In x (map fst t) /\ x <> i.
Proof.
  induction t as [|[k v] r IH]; cbn [tbl_remove map]; [intros []|].
  destruct (N.eqb k i) eqn:E.
  - intros H. destruct (IH H). split; [right; assumption|assumption].
  - cbn [map fst]. intros [<-|H]; [split; [left; reflexivity|apply N.eqb_neq; exact E]|]. destruct (IH H). split; [right; assumption|assumption].
Qed.

Lemma tbl_remove_nd i t : KeysND t -> KeysND (tbl_remove i t).
Proof.
  unfold KeysND. induction t as [|[k v] r IH]; cbn [tbl_remove map]; intros H; [constructor|].
  inversion H as [|a l Hni Hnd Eq]; subst. destruct (N.eqb k i); [apply IH; exact Hnd|].
  cbn [map fst]. constructor; [|apply IH; exact Hnd]. intros Hin. apply tbl_remove_keys in Hin. apply Hni. tauto.
Qed.

Lemma apply_op_nd t o : KeysND t -> KeysND (apply_op t o).
Proof.
  intros H. destruct o as [i L|i]; cbn [apply_op]; [|apply tbl_remove_nd; exact H].
  unfold tbl_set, KeysND. rewrite map_app. apply nodup_app_intro; [apply tbl_remove_nd; exact H|cbn; constructor; [intros []|constructor]|].
  intros x Hx [<-|[]]. apply tbl_remove_keys in Hx. cbn [fst] in Hx. destruct Hx. congruence.
Qed.

Lemma refresh_nd ops : forall t, KeysND t -> KeysND (refresh t ops).
Proof. unfold refresh. induction ops as [|o r IH]; intros t H; cbn [fold_left]; [exact H|apply IH; apply apply_op_nd; exact H]. Qed.

Lemma confirm_pass_nd m ls : forall c, KeysND (c_vis c) -> KeysND (c_vis (confirm_pass m ls c)).
Proof.
  induction ls as [|L r IH]; intros c H; cbn [confirm_pass]; [exact H|].
  destruct (inb (l_id L) (c_buf c) && confirmable m L); [|apply IH; exact H].
  destruct (release (l_id L) (remove_id (l_id L) (c_buf c)) (c_q c) (c_tr c)) as [[o q1] tr1].
  apply IH. cbn [c_vis]. apply refresh_nd. exact H.
Qed.

Lemma step_nd d m : KeysND (vis d) -> KeysND (vis (fst (step d m))).
Proof.
  intros H. unfold step.
  destruct (phase2 d (phase1 d m)) as [c nc] eqn:E2.
  assert (Hc : KeysND (c_vis c)).
  { unfold phase2 in E2. destruct (next_check d <? m_rt (p_msg (phase1 d m))); [|inversion E2; subst; exact H].
    destruct (m_ts (p_msg (phase1 d m)) + MAX_BUFFERING_DELAY <? m_rt (p_msg (phase1 d m))); inversion E2; subst; [|exact H].
    apply confirm_pass_nd. exact H. }
  destruct (c_buf c); [|exact Hc].
  unfold regular_refresh. destruct (false || _); cbn [fst vis]; [apply refresh_nd; exact Hc|exact Hc].
Qed.

Lemma run_nd ms : forall d, KeysND (vis d) -> KeysND (vis (fst (run d ms))).
Proof.
  induction ms as [|m r IH]; intros d H; cbn [run]; [exact H|].
  pose proof (step_nd d m H) as H1. destruct (step d m) as [d1 o1]. cbn [fst] in H1.
  specialize (IH d1 H1). destruct (run d1 r) as [d2 o2]. exact IH.
Qed.

Lemma finish_nd d : KeysND (vis d) -> KeysND (fst (finish d)).
Proof. intros H. unfold finish, regular_refresh. cbn [orb fst]. apply refresh_nd. apply refresh_nd. exact H. Qed.

Lemma tbl_get_in t : KeysND t -> forall i L, In (i, L) t -> tbl_get i t = Some L.
Proof.
  unfold KeysND. induction t as [|[k v] r IH]; intros H i L Hin; [destruct Hin|].
  cbn [map fst] in H. inversion H as [|a l Hni Hnd Eq]; subst. cbn [tbl_get].
  destruct Hin as [Hin|Hin]; [inversion Hin; subst; rewrite N.eqb_refl; reflexivity|].
  destruct (N.eqb k i) eqn:E; [|apply IH; assumption].
  apply N.eqb_eq in E. subst k. exfalso. apply Hni. apply (in_map fst) in Hin. exact Hin.
Qed.

Fixpoint sum_nat (l : list nat) : nat := match l with [] => 0%nat | x :: r => (x + sum_nat r)%nat end.

Lemma sum_cnt ks : NoDup ks -> forall l, (forall x, In x l -> In (m_lc x) ks) -> sum_nat (map (fun k => cnt k l) ks) = length l.
Proof.
  intros Hnd l. induction l as [|m r IH]; intros Hin.
  - clear. induction ks as [|k ks IH]; [reflexivity|]. cbn. exact IH.
  - assert (E : forall ks', NoDup ks' ->
             sum_nat (map (fun k => cnt k (m :: r)) ks') = ((if existsb (N.eqb (m_lc m)) ks' then 1 else 0) + sum_nat (map (fun k => cnt k r) ks'))%nat).
    { clear. induction ks' as [|k ks' IH]; intros Hnd; [reflexivity|]. inversion Hnd as [|a l Hni Hnd' Eq]; subst.
      cbn [map sum_nat existsb]. rewrite cnt_cons, (IH Hnd').
      destruct (N.eqb (m_lc m) k) eqn:E.
      - apply N.eqb_eq in E. subst k. cbn [orb].
        destruct (existsb (N.eqb (m_lc m)) ks') eqn:E2; [|lia]. exfalso. apply Hni.
        apply existsb_exists in E2. destruct E2 as [y [Hy E2]]. apply N.eqb_eq in E2. subst y. exact Hy.
      - cbn [orb]. lia. }
    rewrite (E ks Hnd), IH by (intros x Hx; apply Hin; right; exact Hx).
    assert (Hm : existsb (N.eqb (m_lc m)) ks = true).
    { apply existsb_exists. exists (m_lc m). split; [apply Hin; left; reflexivity|apply N.eqb_refl]. }
    rewrite Hm. reflexivity.
Qed.

Theorem detect_table_sum first_id ms :
  0 < first_id ->
  let dl := map fst (fst (detect first_id [] ms)) in
  let t := snd (detect first_id [] ms) in
  NoDup (map fst t) /\
  sum_nat (map (fun kv : N * lcy => N.to_nat (l_nr (snd kv))) t) = length dl.
Proof.
  intros Hpos. cbn zeta.
  destruct (detect_table first_id ms Hpos) as [T1' T2]. cbn zeta in T1', T2.
  assert (Hnd : KeysND (snd (detect first_id [] ms))).
  { unfold detect. pose proof (run_nd ms (init first_id []) (NoDup_nil _)) as H.
    destruct (run (init first_id []) ms) as [d o1]. cbn [fst] in H. pose proof (finish_nd d H) as H2.
    destruct (finish d) as [t o2]. exact H2. }
  split; [exact Hnd|].
  set (t := snd (detect first_id [] ms)) in *. set (dl := map fst (fst (detect first_id [] ms))) in *.
  rewrite <- (sum_cnt (map fst t) Hnd dl).
  - rewrite map_map. f_equal. apply map_ext_in. intros [i L] Hin. cbn [fst snd].
    destruct (T1' i L (tbl_get_in t Hnd i L Hin)) as [_ [E _]]. rewrite E. apply Nat2N.id.
  - intros x Hx. destruct (T2 x Hx) as [L0 Hg].
    clear - Hg. induction t as [|[k v] r IH]; [discriminate|]. cbn [tbl_get] in Hg. cbn [map fst].
    destruct (N.eqb k (m_lc x)) eqn:E; [left; apply N.eqb_eq; exact E|right; apply IH; exact Hg].
Qed.

(* ------------------------------------------------------------------ the final table meets the listing's preconditions *)
Lemma update_joined_res L m f L' : update L m f = (L', None) ->
  l_start L' <= l_start L /\ (l_resume L' = l_resume L \/ l_resume L' = None).
Proof.
  unfold update. destruct (m_creq m); [intros H; inversion H; subst; cbn; split; [lia|auto]|].
  destruct (_ && _ && _); [intros H; inversion H; subst; cbn; split; [lia|auto]|].
  destruct (negb _ && _); intros H; inversion H; subst. cbn [l_start l_resume]. split.
  - destruct (m_rt m - m_ts m <? l_start L) eqn:E; [apply N.ltb_lt in E; lia|lia].
  - destruct (l_max_ts L <? m_ts m); [left; reflexivity|]. destruct (l_resume L) as [r|]; [|left; reflexivity].
    destruct (m_ts m <? r_max_ts r - r_max_ts r / 8); [right; reflexivity|left; reflexivity].
Qed.

Lemma update_created_res L m f L' Ln : update L m f = (L', Some Ln) ->
  l_start Ln <= m_rt m /\ (forall r, l_resume Ln = Some r -> r_id r = l_id L).
Proof.
  unfold update. destruct (m_creq m); [intros H; inversion H|].
  destruct (_ && _ && _); [intros H; inversion H|].
  destruct (negb _ && _); intros H; inversion H; subst.
  destruct (_ && _ && _ && _); cbn [with_resume new_lc l_start l_resume].
  - split; [lia|]. intros r Hr. inversion Hr; subst. reflexivity.
  - split; [lia|]. intros r Hr. discriminate.
Qed.

Definition ResOk (B : N) (d : det) : Prop :=
  forall L, In L (all_lcs (emap d)) -> l_start L <= B /\ (forall r, l_resume L = Some r -> r_id r < l_id L).

Lemma step_resok B d m : Inv6 d -> m_rt m <= B -> ResOk B d -> ResOk B (fst (step d m)).
Proof.
  intros H6 Hrt Hp. unfold ResOk. rewrite step_emap.
  unfold phase1.
  pose proof (i_fresh d H6) as Hfr.
  (* redo the case analysis with access to the update equations *)
  destruct (rev (lookup (m_ecu m) (emap d))) as [|L prevs_rev] eqn:Erev.
  - cbn [p_emap]. destruct (store_perm (m_ecu m) [new_lc (next_id d) m] (emap d)) as [rest [P1 P2]].
    intros X HX. eapply Permutation_in in HX; [|exact P2]. apply in_app_or in HX. destruct HX as [HX|HX].
    + cbn in HX. destruct HX as [<-|[]]. cbn [new_lc l_start l_resume]. split; [lia|discriminate].
    + apply Hp. eapply Permutation_in; [apply Permutation_sym; exact P1|]. apply in_or_app. right. exact HX.
  - apply rev_eq_cons in Erev.
    assert (Hold : forall X, In X (lookup (m_ecu m) (emap d)) -> l_start X <= B /\ (forall r, l_resume X = Some r -> r_id r < l_id X))
      by (intros X HX; apply Hp; apply lookup_in_all in HX; exact HX).
    assert (HLin : In L (lookup (m_ecu m) (emap d))) by (rewrite Erev; apply in_or_app; right; left; reflexivity).
    assert (Hgen : forall v, (forall X, In X v -> l_start X <= B /\ (forall r, l_resume X = Some r -> r_id r < l_id X)) ->
              forall X, In X (all_lcs (store (m_ecu m) v (emap d))) -> l_start X <= B /\ (forall r, l_resume X = Some r -> r_id r < l_id X)).
    { intros v Hv X HX. destruct (store_perm (m_ecu m) v (emap d)) as [rest [P1 P2]].
      eapply Permutation_in in HX; [|exact P2]. apply in_app_or in HX. destruct HX as [HX|HX].
      - apply Hv. apply in_rev. exact HX.
      - apply Hp. eapply Permutation_in; [apply Permutation_sym; exact P1|]. apply in_or_app. right. exact HX. }
    destruct (update L m (next_id d)) as [L' [Ln|]] eqn:Eu.
    + cbn [p_emap]. apply Hgen. intros X HX.
      pose proof (update_created_res _ _ _ _ _ Eu) as [Hs Hr]. apply update_created in Eu. destruct Eu as [-> [Eid _]].
      replace (rev prevs_rev ++ [L; Ln]) with ((rev prevs_rev ++ [L]) ++ [Ln]) in HX by (rewrite <- app_assoc; reflexivity).
      rewrite <- Erev in HX. apply in_app_or in HX. destruct HX as [HX|[<-|[]]]; [apply Hold; exact HX|].
      split; [lia|]. intros r Hres. rewrite (Hr r Hres), Eid. apply Hfr. apply lookup_in_all in HLin. exact HLin.
    + pose proof (update_joined_res _ _ _ _ Eu) as [Hs Hr]. apply update_joined in Eu. destruct Eu as [Eid _].
      assert (HL' : l_start L' <= B /\ (forall r, l_resume L' = Some r -> r_id r < l_id L')).
      { destruct (Hold L HLin) as [H1 H2]. split; [lia|]. intros r Hres. rewrite Eid. apply H2.
        destruct Hr as [Hr|Hr]; [rewrite <- Hr; exact Hres|congruence]. }
      assert (Hnomerge : forall X, In X (all_lcs (store (m_ecu m) (rev prevs_rev ++ [L']) (emap d))) ->
                 l_start X <= B /\ (forall r, l_resume X = Some r -> r_id r < l_id X)).
      { apply Hgen. intros X HX. apply in_app_or in HX. destruct HX as [HX|[<-|[]]]; [|exact HL'].
        apply Hold. rewrite Erev. apply in_or_app. left. exact HX. }
      destruct prevs_rev as [|P pp]; [exact Hnomerge|].
      destruct (needs_merge P L' && _); [|exact Hnomerge].
      assert (HP : In P (lookup (m_ecu m) (emap d))).
      { rewrite Erev. cbn [rev]. apply in_or_app. left. apply in_or_app. right. left. reflexivity. }
      assert (Hm : forall X, In X (rev pp ++ [merge P L']) -> l_start X <= B /\ (forall r, l_resume X = Some r -> r_id r < l_id X)).
      { intros X HX. apply in_app_or in HX. destruct HX as [HX|[<-|[]]].
        - apply Hold. rewrite Erev. cbn [rev]. apply in_or_app. left. apply in_or_app. left. exact HX.
        - destruct (Hold P HP) as [H1 H2]. cbn [merge l_start l_resume l_id]. split; [|exact H2].
          destruct (l_start L' <? l_start P) eqn:E; [apply N.ltb_lt in E; lia|exact H1]. }
      destruct (remove_id (l_id L') (buffered d)); cbn [p_emap]; apply Hgen; exact Hm.
Qed.

Lemma run_resok B ms : forall d d' o, Inv6 d -> Forall (fun m => m_rt m <= B) ms -> ResOk B d -> run d ms = (d', o) -> ResOk B d'.
Proof.
  induction ms as [|m r IH]; intros d d' o H6 Hb Hp H; cbn [run] in H.
  - inversion H; subst. exact Hp.
  - destruct (step d m) as [d1 o1] eqn:E1. destruct (run d1 r) as [d2 o2] eqn:E2. inversion H; subst.
    inversion Hb as [|a l Hm Hr Eq]; subst.
    destruct (step_ok _ _ _ _ H6 E1) as [H61 _].
    eapply IH; [exact H61|exact Hr| |exact E2]. pose proof (step_resok B d m H6 Hm Hp) as Hn. rewrite E1 in Hn. exact Hn.
Qed.

Theorem detect_table_listing_ok first_id ms :
  0 < first_id -> Forall (fun m => m_rt m <= u64max) ms ->
  let t := snd (detect first_id [] ms) in
  NoDup (map l_id (map snd t)) /\
  (forall L r, In L (map snd t) -> l_resume L = Some r -> r_id r < l_id L) /\
  (forall L, In L (map snd t) -> l_start L <= u64max).
Proof.
  intros Hpos Hb. cbn zeta.
  destruct (detect_table first_id ms Hpos) as [T1' _]. cbn zeta in T1'.
  destruct (detect_table_sum first_id ms Hpos) as [Hnd _]. cbn zeta in Hnd.
  assert (Hlive : forall i L0, tbl_get i (snd (detect first_id [] ms)) = Some L0 ->
             l_start L0 <= u64max /\ (forall r, l_resume L0 = Some r -> r_id r < l_id L0)).
  { unfold detect. destruct (run (init first_id []) ms) as [d o1] eqn:Er.
    assert (H6i : Inv6 (init first_id [])) by (apply Inv6_init; split; [constructor|]; split; [intros L []|exact Hpos]).
    assert (Hres : ResOk u64max d).
    { apply (run_resok u64max ms (init first_id []) d o1 H6i Hb); [|exact Er]. intros L HL. cbn in HL. destruct HL. }
    destruct (run_ok _ _ _ _ H6i Er) as [H6 _].
    pose proof (run_inv8 ms _ _ _ _ (Inv7q_init first_id Hpos) (Inv8_init first_id) Er) as H8.
    destruct (finish_table d (i_nd d H6) H8) as [F1 F2].
    destruct (finish d) as [t o2]. cbn [fst snd] in *.
    intros i L0 Hg. destruct (F2 i L0 Hg) as [X [HX E]]. rewrite <- E in Hg. rewrite (F1 X HX) in Hg. inversion Hg; subst.
    apply Hres. exact HX. }
  set (t := snd (detect first_id [] ms)) in *.
  assert (Hids : map l_id (map snd t) = map fst t).
  { rewrite map_map. apply map_ext_in. intros [i L] Hin. cbn [fst snd].
    destruct (T1' i L (tbl_get_in t Hnd i L Hin)) as [E _]. exact E. }
  split; [rewrite Hids; exact Hnd|].
  split.
  - intros L r HL. apply in_map_iff in HL. destruct HL as [[i L0] [<- Hin]]. cbn [snd].
    apply (Hlive i L0 (tbl_get_in t Hnd i L0 Hin)).
  - intros L HL. apply in_map_iff in HL. destruct HL as [[i L0] [<- Hin]]. cbn [snd].
    apply (Hlive i L0 (tbl_get_in t Hnd i L0 Hin)).
Qed.
