(* C06 (second clause): the lifecycle of an already delivered message stays visible, with the message's ECU, in every
   later state of the run (a reader that looks later - another thread, a slow consumer - still finds it). *)
From Coq Require Import List NArith Bool Lia Permutation Sorted Arith PeanoNat.
From AdltV Require Import Lifecycle.Model Lifecycle.ForwardProofs Lifecycle.PublishProofs Lifecycle.CountProofs Lifecycle.TableProofs.
Import ListNotations.
Open Scope N_scope.

(* a lifecycle id keeps its ECU across phase 1 *)
Lemma phase1_same_id_same_ecu d m L0 L1 :
  Inv6 d -> In L0 (all_lcs (emap d)) -> In L1 (all_lcs (p_emap (phase1 d m))) -> l_id L0 = l_id L1 -> l_ecu L0 = l_ecu L1.
Proof.
  intros H6 H0 H1 E.
  destruct (phase1_cases d m) as [v [Eem HC]]. rewrite Eem in H1.
  destruct (p1_store_facts d m _ v H6 HC) as [rest [A' [A0 D]]].
  pose proof (i_nd d H6) as Hnd. pose proof (i_key d H6) as HK.
  assert (Hsame : forall X, In X (all_lcs (emap d)) -> l_id X = l_id L0 -> X = L0).
  { intros X HX EX. eapply nodup_id_eq; eauto. }
  assert (Hlk : forall X, In X (lookup (m_ecu m) (emap d)) -> l_ecu X = m_ecu m) by (intros; eapply KeyOk_lookup; eauto).
  apply A' in H1. destruct H1 as [H1|H1].
  2:{ assert (L1 = L0) by (apply Hsame; [apply A0; right; exact H1|congruence]). congruence. }
  assert (Hfresh : l_id L1 <> next_id d) by (rewrite <- E; pose proof (i_fresh d H6 L0 H0); lia).
  destruct HC as [Hl -> _ _ _ _ _ _ _
                 |prevs L Ln Hl -> Eid Enr Eecu _ _ _ _ _ _ _ _
                 |prevs L L' Hl -> Eid Eecu Enr _ _ _ _ _ _ _ _
                 |pp P L L' Hl -> Eid Eecu Enr _ _ _ _ _ _ _].
  - destruct H1 as [<-|[]]. cbn in Hfresh. congruence.
  - apply in_app_or in H1. destruct H1 as [H1|[<-|[<-|[]]]].
    + assert (L1 = L0); [|congruence]. apply Hsame; [|congruence]. apply lookup_in_all with (e := m_ecu m). rewrite Hl. apply in_or_app. left. exact H1.
    + assert (L = L0); [|congruence]. apply Hsame; [|congruence]. apply lookup_in_all with (e := m_ecu m). rewrite Hl. apply in_or_app. right. left. reflexivity.
    + congruence.
  - apply in_app_or in H1. destruct H1 as [H1|[<-|[]]].
    + assert (L1 = L0); [|congruence]. apply Hsame; [|congruence]. apply lookup_in_all with (e := m_ecu m). rewrite Hl. apply in_or_app. left. exact H1.
    + assert (L = L0); [|congruence]. apply Hsame; [|congruence]. apply lookup_in_all with (e := m_ecu m). rewrite Hl. apply in_or_app. right. left. reflexivity.
  - apply in_app_or in H1. destruct H1 as [H1|[<-|[]]].
    + assert (L1 = L0); [|congruence]. apply Hsame; [|congruence]. apply lookup_in_all with (e := m_ecu m). rewrite Hl. apply in_or_app. left. exact H1.
    + cbn [merge l_id l_ecu] in *. assert (P = L0); [|congruence]. apply Hsame; [|congruence].
      apply lookup_in_all with (e := m_ecu m). rewrite Hl. apply in_or_app. right. left. reflexivity.
Qed.

Definition EcuOfId (d : det) (out : list msg) : Prop :=
  forall x L, In x out -> In L (all_lcs (emap d)) -> l_id L = m_lc x -> l_ecu L = m_ecu x.

Lemma step_ecuofid d out m d' o :
  Inv7q d out -> EcuOfId d out -> step d m = (d', o) -> EcuOfId d' (out ++ map fst o).
Proof.
  intros [H7 HQ0] HE Hstep.
  pose proof (j6 d out H7) as H6.
  pose proof (phase1_ok d m H6) as HP1.
  pose proof (step_emap d m) as Eem. rewrite Hstep in Eem. cbn [fst] in Eem.
  (* what the step delivers are messages that were Ok for the new per-ECU map *)
  assert (Hnew : forall x, In x (map fst o) -> MsgOk (p_emap (phase1 d m)) x).
  { unfold step in Hstep.
    destruct (phase2 d (phase1 d m)) as [c nc] eqn:E2.
    destruct (phase2_rel _ _ _ _ E2) as [_ [D [ED [EQ _]]]].
    assert (HD : forall x, In x D -> MsgOk (p_emap (phase1 d m)) x).
    { intros x Hx. apply (p1_q _ _ _ HP1). rewrite EQ. apply in_or_app. left. exact Hx. }
    destruct (c_buf c).
    - destruct (regular_refresh _ _ _ _ _ _ _) as [[[v pd] tr2] lr]. inversion Hstep; subst d' o.
      intros x Hx. rewrite !map_app, map_fst_pair, ED in Hx. cbn [map fst] in Hx.
      apply in_app_or in Hx. destruct Hx as [Hx|Hx]; [apply (p1_out _ _ _ HP1 x Hx)|].
      apply in_app_or in Hx. destruct Hx as [Hx|[<-|[]]]; [apply HD; exact Hx|apply (p1_msg _ _ _ HP1)].
    - inversion Hstep; subst d' o. intros x Hx. rewrite !map_app, map_fst_pair, ED in Hx.
      apply in_app_or in Hx. destruct Hx as [Hx|Hx]; [apply (p1_out _ _ _ HP1 x Hx)|apply HD; exact Hx]. }
  intros x L Hx HL Eid. rewrite Eem in HL. apply in_app_or in Hx. destruct Hx as [Hx|Hx].
  - destruct (j_live d out H7 x Hx) as [L0 [H0 E0]].
    rewrite <- (phase1_same_id_same_ecu d m L0 L H6 H0 HL) by congruence.
    apply (HE x L0 Hx H0 E0).
  - destruct (Hnew x Hx) as [L' [HL' [E1 E2]]].
    assert (L = L') by (eapply nodup_id_eq; [exact (p1_nd _ _ _ HP1)|exact HL|exact HL'|congruence]). subst L'. exact E2.
Qed.

Lemma run_ecuofid ms : forall d out d' o,
  Inv7q d out -> EcuOfId d out -> run d ms = (d', o) -> EcuOfId d' (out ++ map fst o).
Proof.
  induction ms as [|m r IH]; intros d out d' o H7 HE H; cbn [run] in H.
  - inversion H; subst. cbn. rewrite app_nil_r. exact HE.
  - destruct (step d m) as [d1 o1] eqn:E1. destruct (run d1 r) as [d2 o2] eqn:E2. inversion H; subst.
    pose proof (step_inv7 _ _ _ _ _ H7 E1) as H71. pose proof (step_ecuofid _ _ _ _ _ H7 HE E1) as HE1.
    pose proof (IH _ _ _ _ H71 HE1 E2) as H2. rewrite map_app, app_assoc. exact H2.
Qed.

(* every message delivered so far: its lifecycle is (still) visible with its ECU in the current state *)
Theorem delivered_stay_visible first_id ms d o :
  0 < first_id -> run (init first_id []) ms = (d, o) ->
  forall x, In x (map fst o) -> exists L0, tbl_get (m_lc x) (vis d) = Some L0 /\ l_ecu L0 = m_ecu x.
Proof.
  intros Hpos Hrun x Hx.
  pose proof (run_inv7 ms _ _ _ _ (Inv7q_init first_id Hpos) Hrun) as H7q. cbn [app] in H7q.
  assert (HE0 : EcuOfId (init first_id []) []) by (intros y L []).
  pose proof (run_ecuofid ms _ _ _ _ (Inv7q_init first_id Hpos) HE0 Hrun) as HE. cbn [app] in HE.
  destruct H7q as [H7 _]. pose proof (j6 _ _ H7) as H6.
  destruct (j_live _ _ H7 x Hx) as [L [HL E]].
  assert (Hnb : inb (l_id L) (buffered d) = false).
  { destruct (inb (l_id L) (buffered d)) eqn:Eb; [|reflexivity].
    destruct (j_buf _ _ H7 _ Eb) as [q1 [mb [q2 [_ [_ Hlt]]]]]. pose proof (Hlt x (in_or_app _ _ _ (or_introl Hx))). lia. }
  destruct (i_pub d H6 L HL Hnb) as [L0 [G1 G2]]. exists L0. rewrite <- E. split; [exact G1|].
  rewrite G2. apply (HE x L Hx HL E).
Qed.
