(* Proofs about Archive/Paths.v: confinement, exact set, last writer. *)
From Coq Require Import List NArith Bool Lia Arith PeanoNat.
From AdltV Require Import Archive.Paths.
Import ListNotations.
Open Scope N_scope.

(* ------------------------------------------------------------------ equalities, lookup *)
Lemma str_eqb_spec a : forall b, str_eqb a b = true <-> a = b.
Proof.
  induction a as [|x a IH]; intros [|y b]; cbn; try (split; [discriminate|discriminate]); try tauto.
  rewrite andb_true_iff, N.eqb_eq, IH. split; [intros [-> ->]; reflexivity|intros H; inversion H; auto].
Qed.
Lemma str_eqb_refl a : str_eqb a a = true.
Proof. apply str_eqb_spec. reflexivity. Qed.

Lemma loc_eqb_spec a : forall b, loc_eqb a b = true <-> a = b.
Proof.
  induction a as [|x a IH]; intros [|y b]; cbn; try (split; [discriminate|discriminate]); try tauto.
  rewrite andb_true_iff, str_eqb_spec, IH. split; [intros [-> ->]; reflexivity|intros H; inversion H; auto].
Qed.
Lemma loc_eqb_refl a : loc_eqb a a = true.
Proof. apply loc_eqb_spec. reflexivity. Qed.
Lemma loc_eqb_neq a b : a <> b -> loc_eqb a b = false.
Proof. intros H. destruct (loc_eqb a b) eqn:E; [apply loc_eqb_spec in E; contradiction|reflexivity]. Qed.

Lemma lookup_filter_other fs l l' :
  l <> l' -> lookup (filter (fun e => negb (loc_eqb (fst e) l)) fs) l' = lookup fs l'.
Proof.
  intros Hn. induction fs as [|[k n] fs IH]; [reflexivity|]. cbn [filter fst].
  destruct (loc_eqb k l) eqn:E; cbn [negb].
  - apply loc_eqb_spec in E. subst k. cbn [lookup]. rewrite (loc_eqb_neq l l' Hn). exact IH.
  - cbn [lookup]. rewrite IH. reflexivity.
Qed.
Lemma lookup_set_same fs l n : lookup (fs_set fs l n) l = Some n.
Proof. unfold fs_set. cbn. rewrite loc_eqb_refl. reflexivity. Qed.
Lemma lookup_set_other fs l n l' : l <> l' -> lookup (fs_set fs l n) l' = lookup fs l'.
Proof. intros H. unfold fs_set. cbn [lookup]. rewrite (loc_eqb_neq l l' H). apply lookup_filter_other. exact H. Qed.

(* ------------------------------------------------------------------ inside / outside *)
Lemma strictly_inside_app T ext : ext <> [] -> strictly_inside T (T ++ ext) = true.
Proof.
  intros H. induction T as [|x T IH]; cbn.
  - destruct ext; [contradiction|reflexivity].
  - rewrite str_eqb_refl. exact IH.
Qed.
Lemma strictly_inside_inv T : forall l, strictly_inside T l = true -> exists ext, ext <> [] /\ l = T ++ ext.
Proof.
  induction T as [|x T IH]; intros l H; cbn in H.
  - destruct l as [|y l]; [discriminate|]. exists (y :: l). split; [discriminate|reflexivity].
  - destruct l as [|y l]; [discriminate|]. apply andb_true_iff in H. destruct H as [H1 H2].
    apply str_eqb_spec in H1. subst y. destruct (IH l H2) as (ext & He & ->). exists ext. split; [exact He|reflexivity].
Qed.

Definition unchanged_outside (T : loc) (fs fs' : fsys) : Prop :=
  forall l, strictly_inside T l = false -> lookup fs' l = lookup fs l.
Lemma unchanged_refl T fs : unchanged_outside T fs fs.
Proof. intros l _. reflexivity. Qed.
Lemma unchanged_trans T a b c : unchanged_outside T a b -> unchanged_outside T b c -> unchanged_outside T a c.
Proof. intros H1 H2 l Hl. rewrite (H2 l Hl). apply H1. exact Hl. Qed.
Lemma unchanged_set T fs ext n : ext <> [] -> unchanged_outside T fs (fs_set fs (T ++ ext) n).
Proof.
  intros He l Hl. apply lookup_set_other. intros E. subst l. rewrite strictly_inside_app in Hl by exact He. discriminate.
Qed.

(* the target directory and its ancestors exist *)
Definition target_ok (fs : fsys) (T : loc) : Prop := forall k, lookup fs (firstn k T) = Some D.
Lemma firstn_not_inside T k : strictly_inside T (firstn k T) = false.
Proof.
  destruct (strictly_inside T (firstn k T)) eqn:E; [|reflexivity].
  apply strictly_inside_inv in E. destruct E as (ext & He & E).
  assert (L : length (firstn k T) = length (T ++ ext)) by (rewrite <- E; reflexivity).
  rewrite firstn_length, app_length in L. destruct ext; [contradiction|]. cbn in L. lia.
Qed.
Lemma target_ok_unchanged T fs fs' : target_ok fs T -> unchanged_outside T fs fs' -> target_ok fs' T.
Proof. intros H U k. rewrite (U _ (firstn_not_inside T k)). apply H. Qed.

(* ------------------------------------------------------------------ depth *)
Fixpoint strip_dots (cs : list comp) : list comp :=
  match cs with [] => [] | CDot :: r => strip_dots r | c :: r => c :: strip_dots r end.
Lemma strip_dots_app a b : strip_dots (a ++ b) = strip_dots a ++ strip_dots b.
Proof. induction a as [|c a IH]; [reflexivity|]. destruct c; cbn; rewrite IH; reflexivity. Qed.
Lemma depth_ok_strip cs : forall d, depth_ok d (strip_dots cs) = depth_ok d cs.
Proof. induction cs as [|c cs IH]; intros d; [reflexivity|]. destruct c; cbn; [destruct d; [reflexivity|apply IH]|apply IH|apply IH]. Qed.

Lemma strip_kcomp_of_seg s : strip_dots (kcomp_of_seg s) = comp_of_seg s.
Proof.
  unfold kcomp_of_seg, comp_of_seg. destruct (str_eqb s []); [reflexivity|].
  destruct (str_eqb s [c_dot]); [reflexivity|]. destruct (str_eqb s [c_dot; c_dot]); reflexivity.
Qed.
Lemma strip_flat segs : strip_dots (flat_map kcomp_of_seg segs) = flat_map comp_of_seg segs.
Proof. induction segs as [|s r IH]; [reflexivity|]. cbn [flat_map]. rewrite strip_dots_app, strip_kcomp_of_seg, IH. reflexivity. Qed.
Lemma strip_klast s : strip_dots (klast s) = comp_of_seg s.
Proof.
  unfold klast. destruct (str_eqb s []) eqn:E.
  - apply str_eqb_spec in E. subst s. reflexivity.
  - apply strip_kcomp_of_seg.
Qed.
Lemma split_slash_nonempty s : split_slash s <> [].
Proof. induction s as [|c r IH]; cbn; [discriminate|]. destruct (c =? c_slash); [discriminate|]. destruct (split_slash r); [contradiction|discriminate]. Qed.

Lemma strip_kcomps s : strip_dots (kcomps s) = comps s.
Proof.
  unfold kcomps, comps. destruct (rev (split_slash s)) as [|l ir] eqn:E.
  - exfalso. apply (split_slash_nonempty s). rewrite <- (rev_involutive (split_slash s)), E. reflexivity.
  - assert (Hs : split_slash s = rev ir ++ [l]) by (rewrite <- (rev_involutive (split_slash s)), E; reflexivity).
    rewrite Hs, flat_map_app, strip_dots_app, strip_flat, strip_klast. cbn [flat_map]. rewrite app_nil_r. reflexivity.
Qed.
Lemma depth_kcomps s d : depth_ok d (kcomps s) = depth_ok d (comps s).
Proof. rewrite <- strip_kcomps. symmetry. apply depth_ok_strip. Qed.

(* depth_ok is closed under prefixes *)
Lemma depth_ok_app_l a : forall b d, depth_ok d (a ++ b) = true -> depth_ok d a = true.
Proof.
  induction a as [|c a IH]; intros b d H; [reflexivity|]. destruct c; cbn in *.
  - destruct d; [discriminate|]. eapply IH; exact H.
  - eapply IH; exact H.
  - eapply IH; exact H.
Qed.
Lemma depth_ok_removelast cs d : depth_ok d cs = true -> depth_ok d (removelast cs) = true.
Proof.
  intros H. destruct cs as [|c cs]; [reflexivity|].
  assert (Hne : c :: cs <> []) by discriminate.
  rewrite (app_removelast_last CDot Hne) in H. eapply depth_ok_app_l. exact H.
Qed.

Lemma enclosed_inv s : enclosed s = true -> is_abs s = false /\ depth_ok 0 (comps s) = true.
Proof.
  unfold enclosed. rewrite !andb_true_iff, !negb_true_iff. tauto.
Qed.

(* ------------------------------------------------------------------ walking *)
Lemma removelast_app_ne {A} (l l' : list A) : l' <> [] -> removelast (l ++ l') = l ++ removelast l'.
Proof. apply removelast_app. Qed.
Lemma removelast_length {A} (l : list A) : length (removelast l) = pred (length l).
Proof.
  destruct l as [|x l]; [reflexivity|]. assert (H : x :: l <> []) by discriminate.
  pose proof (app_removelast_last x H) as E. apply (f_equal (@length A)) in E. rewrite app_length in E. cbn in *. lia.
Qed.
Lemma removelast_map {A B} (f : A -> B) l : removelast (map f l) = map f (removelast l).
Proof. induction l as [|x l IH]; [reflexivity|]. destruct l as [|y l]; [reflexivity|]. cbn [map removelast] in *. rewrite IH. reflexivity. Qed.

Lemma firstn_pre_x {A} (pre : list A) x suf : firstn (length pre + 1) (pre ++ x :: suf) = pre ++ [x].
Proof. rewrite firstn_app, firstn_all2 by lia. replace (length pre + 1 - length pre)%nat with 1%nat by lia. reflexivity. Qed.
Lemma firstn_pre {A} (pre suf : list A) : firstn (length pre) (pre ++ suf) = pre.
Proof. rewrite firstn_app, firstn_all, Nat.sub_diag, firstn_O, app_nil_r. reflexivity. Qed.

Lemma mkdir_p_through fs T cs : target_ok fs T ->
  forall suf pre, T = pre ++ suf -> mkdir_p fs pre (map CNormal suf ++ cs) = mkdir_p fs T cs.
Proof.
  intros HT. induction suf as [|x suf IH]; intros pre E.
  - rewrite app_nil_r in E. subst. reflexivity.
  - cbn [map app mkdir_p]. pose proof (HT (length pre + 1)%nat) as Hx. rewrite E, firstn_pre_x in Hx. rewrite Hx.
    apply IH. rewrite E, <- app_assoc. reflexivity.
Qed.
Lemma stat_walk_through fs T cs : target_ok fs T ->
  forall suf pre, T = pre ++ suf -> stat_walk fs pre (map CNormal suf ++ cs) = stat_walk fs T cs.
Proof.
  intros HT. induction suf as [|x suf IH]; intros pre E.
  - rewrite app_nil_r in E. subst. reflexivity.
  - cbn [map app stat_walk]. pose proof (HT (length pre)) as Hx. rewrite E, firstn_pre in Hx. rewrite Hx.
    apply IH. rewrite E, <- app_assoc. reflexivity.
Qed.

Lemma target_ok_removelast fs T : target_ok fs T -> target_ok fs (removelast T).
Proof.
  intros H k. rewrite removelast_firstn_len, firstn_firstn. apply H.
Qed.

Lemma mkdir_p_inside T cs : forall fs ext fs' ok,
  mkdir_p fs (T ++ ext) cs = (fs', ok) -> depth_ok (length ext) cs = true -> unchanged_outside T fs fs'.
Proof.
  induction cs as [|c cs IH]; intros fs ext fs' ok H Hd.
  - inversion H; subst. apply unchanged_refl.
  - destruct c as [|s|]; cbn [mkdir_p depth_ok] in *.
    + destruct (length ext) as [|d'] eqn:El; [discriminate|].
      assert (Hne : ext <> []) by (destruct ext; [discriminate|discriminate]).
      rewrite removelast_app_ne in H by exact Hne. eapply IH; [exact H|]. rewrite removelast_length, El. exact Hd.
    + rewrite <- app_assoc in H.
      assert (Hd' : depth_ok (length (ext ++ [s])) cs = true) by (rewrite app_length; cbn; rewrite Nat.add_1_r; exact Hd).
      destruct (lookup fs (T ++ ext ++ [s])) as [[|c]|] eqn:El.
      * eapply IH; eassumption.
      * inversion H; subst. apply unchanged_refl.
      * eapply unchanged_trans; [|eapply IH; eassumption]. apply unchanged_set. destruct ext; discriminate.
    + eapply IH; eassumption.
Qed.

Lemma stat_walk_inside T cs : forall fs ext p,
  stat_walk fs (T ++ ext) cs = Some p -> depth_ok (length ext) cs = true -> exists ext', p = T ++ ext'.
Proof.
  induction cs as [|c cs IH]; intros fs ext p H Hd.
  - inversion H; subst. exists ext. reflexivity.
  - cbn [stat_walk] in H. destruct (lookup fs (T ++ ext)) as [[|?]|]; try discriminate.
    destruct c as [|s|]; cbn [depth_ok] in Hd.
    + destruct (length ext) as [|d'] eqn:El; [discriminate|].
      assert (Hne : ext <> []) by (destruct ext; [discriminate|discriminate]).
      rewrite removelast_app_ne in H by exact Hne. eapply IH; [exact H|]. rewrite removelast_length, El. exact Hd.
    + rewrite <- app_assoc in H. eapply IH; [exact H|]. rewrite app_length. cbn. rewrite Nat.add_1_r. exact Hd.
    + eapply IH; eassumption.
Qed.

(* ------------------------------------------------------------------ the three requests of the loop *)
Section Requests.
  Variables (fs : fsys) (T : loc) (name : str).
  Hypothesis HT : target_ok fs T.
  Hypothesis Habs : is_abs name = false.
  Hypothesis Hdepth : depth_ok 0 (comps name) = true.

  Lemma mkdir_name_confined fs' ok :
    mkdir_p fs [] (full_comps T name) = (fs', ok) -> unchanged_outside T fs fs'.
  Proof.
    unfold full_comps. rewrite Habs. rewrite (mkdir_p_through fs T _ HT T [] eq_refl).
    intros H. apply (mkdir_p_inside T (comps name) fs [] fs' ok); [rewrite app_nil_r; exact H|exact Hdepth].
  Qed.

  Lemma mkdir_parent_confined fs' ok :
    mkdir_p fs [] (removelast (full_comps T name)) = (fs', ok) -> unchanged_outside T fs fs'.
  Proof.
    unfold full_comps. rewrite Habs. destruct (comps name) as [|c cs] eqn:Ec.
    - rewrite app_nil_r, removelast_map.
      pose proof (mkdir_p_through fs (removelast T) [] (target_ok_removelast fs T HT) (removelast T) [] eq_refl) as E.
      rewrite app_nil_r in E. rewrite E. cbn. intros H. inversion H; subst. apply unchanged_refl.
    - rewrite removelast_app_ne by discriminate. rewrite (mkdir_p_through fs T _ HT T [] eq_refl).
      intros H. apply (mkdir_p_inside T (removelast (c :: cs)) fs [] fs' ok); [rewrite app_nil_r; exact H|].
      apply depth_ok_removelast. exact Hdepth.
  Qed.

  Lemma create_file_confined content fs' :
    create_file fs T name content = Some fs' -> unchanged_outside T fs fs'.
  Proof.
    unfold create_file. destruct (rev (split_slash name)) as [|l ir] eqn:Er; [discriminate|].
    destruct (comp_of_seg l) as [|[|s|] [|? ?]] eqn:Ec; try discriminate.
    unfold base. rewrite Habs. rewrite (stat_walk_through fs T _ HT T [] eq_refl).
    destruct (stat_walk fs T (flat_map kcomp_of_seg (rev ir))) as [p|] eqn:Ew; [|discriminate].
    assert (Hk : depth_ok 0 (flat_map kcomp_of_seg (rev ir)) = true).
    { pose proof (depth_kcomps name 0%nat) as Hkc. rewrite Hdepth in Hkc. unfold kcomps in Hkc. rewrite Er in Hkc.
      eapply depth_ok_app_l. exact Hkc. }
    destruct (stat_walk_inside T (flat_map kcomp_of_seg (rev ir)) fs [] p) as [ext' Hp]; [rewrite app_nil_r; exact Ew|exact Hk|]. subst p.
    destruct (lookup fs (T ++ ext')) as [[|?]|]; try discriminate.
    destruct (lookup fs ((T ++ ext') ++ [s])) as [[|?]|]; try discriminate;
      intros H; inversion H; subst; rewrite <- app_assoc; apply unchanged_set; destruct ext'; discriminate.
  Qed.
End Requests.

(* ------------------------------------------------------------------ the loop *)
Definition out_fs (o : outcome) : fsys := match o with Done fs _ => fs | Failed fs => fs end.
Definition rn_ok (rn : list (str * str)) : Prop := Forall (fun kv => enclosed (snd kv) = true) rn.

Lemma renamed_enclosed rn name : rn_ok rn -> enclosed name = true -> enclosed (renamed rn name) = true.
Proof.
  intros Hr He. unfold renamed. induction Hr as [|[a b] rn Hab _ IH]; cbn [assoc]; [exact He|].
  destruct (str_eqb a name); [exact Hab|exact IH].
Qed.

Lemma extract_loop_confined T rn : rn_ok rn ->
  forall ms fs filter rep, target_ok fs T ->
    unchanged_outside T fs (out_fs (extract_loop fs T filter rn ms rep)).
Proof.
  intros Hrn. induction ms as [|m ms IH]; intros fs filter rep HT; cbn [extract_loop].
  - apply unchanged_refl.
  - destruct (enclosed (m_name m)) eqn:Ee; cbn [negb]; [|apply IH; exact HT].
    destruct (match filter with Some fl => negb (existsb (str_eqb (m_name m)) fl) | None => false end); [apply IH; exact HT|].
    destruct (enclosed_inv _ Ee) as [Ha Hd].
    destruct (is_dir_name (m_name m)).
    + destruct (mkdir_p fs [] (full_comps T (m_name m))) as [fs1 ok] eqn:Em.
      pose proof (mkdir_name_confined fs T (m_name m) HT Ha Hd fs1 ok Em) as U1.
      destruct ok; [|exact U1]. eapply unchanged_trans; [exact U1|]. apply IH. eapply target_ok_unchanged; eassumption.
    + destruct (m_symlink m); [apply IH; exact HT|].
      pose proof (renamed_enclosed rn (m_name m) Hrn Ee) as Ee'. destruct (enclosed_inv _ Ee') as [Ha' Hd'].
      destruct (mkdir_p fs [] (removelast (full_comps T (renamed rn (m_name m))))) as [fs1 ok] eqn:Em.
      pose proof (mkdir_parent_confined fs T _ HT Ha' Hd' fs1 ok Em) as U1.
      destruct ok; [|exact U1].
      assert (HT1 : target_ok fs1 T) by (eapply target_ok_unchanged; eassumption).
      destruct (create_file fs1 T (renamed rn (m_name m)) (m_data m)) as [fs2|] eqn:Ec; [|exact U1].
      pose proof (create_file_confined fs1 T _ HT1 Ha' Hd' _ _ Ec) as U2.
      eapply unchanged_trans; [eapply unchanged_trans; [exact U1|exact U2]|]. apply IH. eapply target_ok_unchanged; eassumption.
Qed.

Theorem extract_to_dir_confined fs T filter rn ms :
  target_ok fs T -> rn_ok rn -> unchanged_outside T fs (out_fs (extract_to_dir fs T filter rn ms)).
Proof.
  intros HT Hrn. unfold extract_to_dir. destruct filter as [files|].
  - destruct (prefilter fs T rn files) as [ex keep]. apply extract_loop_confined; assumption.
  - apply extract_loop_confined; assumption.
Qed.

Theorem extract_archives_confined fs T pattern entries stem sm ms o :
  target_ok fs T -> enclosed stem = true ->
  extract_archives fs T pattern entries stem sm ms = Some o -> unchanged_outside T fs (out_fs o).
Proof.
  intros HT Hs. unfold extract_archives. destruct (select_members pattern entries stem sm) as [mf rn] eqn:Es.
  assert (Hrn : rn_ok rn).
  { unfold select_members in Es. repeat match type of Es with
      | context [match ?x with _ => _ end] => destruct x
      | context [if ?x then _ else _] => destruct x
      end; inversion Es; subst; try constructor; try constructor; exact Hs. }
  destruct mf as [|x mf']; [discriminate|]. intros H. injection H as <-.
  exact (extract_to_dir_confined fs T (Some (x :: mf')) rn ms HT Hrn).
Qed.

(* ------------------------------------------------------------------ exactly the selected members *)
Definition selected (flt : option (list str)) (m : member) : bool :=
  enclosed (m_name m)
  && (match flt with Some fl => existsb (str_eqb (m_name m)) fl | None => true end)
  && negb (is_dir_name (m_name m)) && negb (m_symlink m).

Lemma extract_loop_reported T rn : forall ms fs flt rep fs' out,
  extract_loop fs T flt rn ms rep = Done fs' out ->
  out = rep ++ map (fun m => renamed rn (m_name m)) (filter (selected flt) ms).
Proof.
  induction ms as [|m ms IH]; intros fs flt rep fs' out H; cbn [extract_loop] in H.
  - inversion H; subst. cbn. rewrite app_nil_r. reflexivity.
  - cbn [filter]. unfold selected at 1.
    destruct (enclosed (m_name m)) eqn:Ee; cbn [negb andb] in *; [|eapply IH; exact H].
    destruct flt as [fl|].
    + destruct (existsb (str_eqb (m_name m)) fl) eqn:Ef; cbn [negb andb] in *; [|eapply IH; exact H].
      destruct (is_dir_name (m_name m)); cbn [negb andb] in *.
      * destruct (mkdir_p fs [] (full_comps T (m_name m))) as [fs1 [|]]; [eapply IH; exact H|discriminate].
      * destruct (m_symlink m); cbn [negb]; [eapply IH; exact H|].
        destruct (mkdir_p fs [] (removelast (full_comps T (renamed rn (m_name m))))) as [fs1 [|]]; [|discriminate].
        destruct (create_file fs1 T (renamed rn (m_name m)) (m_data m)) as [fs2|]; [|discriminate].
        rewrite (IH _ _ _ _ _ H). cbn [map]. rewrite <- app_assoc. reflexivity.
    + destruct (is_dir_name (m_name m)); cbn [negb andb] in *.
      * destruct (mkdir_p fs [] (full_comps T (m_name m))) as [fs1 [|]]; [eapply IH; exact H|discriminate].
      * destruct (m_symlink m); cbn [negb]; [eapply IH; exact H|].
        destruct (mkdir_p fs [] (removelast (full_comps T (renamed rn (m_name m))))) as [fs1 [|]]; [|discriminate].
        destruct (create_file fs1 T (renamed rn (m_name m)) (m_data m)) as [fs2|]; [|discriminate].
        rewrite (IH _ _ _ _ _ H). cbn [map]. rewrite <- app_assoc. reflexivity.
Qed.

(* the pre-filter: names whose target already is a file inside the target directory *)
Definition already (fs : fsys) (T : loc) (rn : list (str * str)) (f : str) : bool :=
  enclosed (renamed rn f) && path_is_file fs T (renamed rn f).
Lemma prefilter_spec fs T rn files :
  prefilter fs T rn files =
    (map (renamed rn) (filter (already fs T rn) files), filter (fun f => negb (already fs T rn f)) files).
Proof.
  induction files as [|f r IH]; [reflexivity|]. cbn [prefilter filter]. rewrite IH.
  fold (already fs T rn f). destruct (already fs T rn f); reflexivity.
Qed.

Definition remaining (fs : fsys) (T : loc) (rn : list (str * str)) (flt : option (list str)) : option (list str) :=
  match flt with Some files => Some (filter (fun f => negb (already fs T rn f)) files) | None => None end.
Definition found_before (fs : fsys) (T : loc) (rn : list (str * str)) (flt : option (list str)) : list str :=
  match flt with Some files => map (renamed rn) (filter (already fs T rn) files) | None => [] end.

Theorem extract_to_dir_exact_set fs T flt rn ms fs' out :
  extract_to_dir fs T flt rn ms = Done fs' out ->
  out = found_before fs T rn flt ++
        map (fun m => renamed rn (m_name m)) (filter (selected (remaining fs T rn flt)) ms).
Proof.
  unfold extract_to_dir. destruct flt as [files|]; cbn [found_before remaining].
  - rewrite prefilter_spec. apply extract_loop_reported.
  - intros H. apply (extract_loop_reported T rn ms fs None [] fs' out H).
Qed.

(* every reported name stays inside the target directory *)
Theorem extract_to_dir_reports_enclosed fs T flt rn ms fs' out :
  rn_ok rn -> extract_to_dir fs T flt rn ms = Done fs' out -> Forall (fun n => enclosed n = true) out.
Proof.
  intros Hrn H. rewrite (extract_to_dir_exact_set _ _ _ _ _ _ _ H). apply Forall_app. split.
  - destruct flt as [files|]; cbn [found_before]; [|constructor].
    apply Forall_forall. intros n Hin. apply in_map_iff in Hin. destruct Hin as (f & <- & Hf).
    apply filter_In in Hf. destruct Hf as [_ Ha]. unfold already in Ha. apply andb_true_iff in Ha. tauto.
  - apply Forall_forall. intros n Hin. apply in_map_iff in Hin. destruct Hin as (m & <- & Hm).
    apply filter_In in Hm. destruct Hm as [_ Hs]. unfold selected in Hs. rewrite !andb_true_iff in Hs.
    apply renamed_enclosed; tauto.
Qed.

(* extract_archives on a fresh temp dir: exactly the members named by the selection *)
Lemma prefilter_fresh fs T rn files :
  (forall n, path_is_file fs T n = false) -> prefilter fs T rn files = ([], files).
Proof.
  intros Hf. rewrite prefilter_spec. f_equal.
  - induction files as [|f r IH]; [reflexivity|]. cbn [filter]. unfold already at 1. rewrite Hf, andb_false_r. exact IH.
  - induction files as [|f r IH]; [reflexivity|]. cbn [filter]. unfold already at 1. rewrite Hf, andb_false_r. cbn [negb]. f_equal. exact IH.
Qed.

Theorem extract_archives_exact_set fs T pattern entries stem sm ms fs' out mf rn :
  (forall n, path_is_file fs T n = false) ->
  select_members pattern entries stem sm = (mf, rn) ->
  extract_archives fs T pattern entries stem sm ms = Some (Done fs' out) ->
  out = map (fun m => renamed rn (m_name m)) (filter (selected (Some mf)) ms).
Proof.
  intros Hf Hs. unfold extract_archives. rewrite Hs. destruct mf as [|x mf']; [discriminate|].
  intros H. assert (E : extract_to_dir fs T (Some (x :: mf')) rn ms = Done fs' out) by congruence.
  unfold extract_to_dir in E. rewrite (prefilter_fresh fs T rn (x :: mf') Hf) in E.
  apply (extract_loop_reported T rn ms fs (Some (x :: mf')) [] fs' out E).
Qed.

(* the selection of extract_archives for an archive that is not the single-"data" kind *)
Lemma select_members_plain pattern entries stem sm :
  (forall b, entries <> [(c_data, b)]) ->
  select_members pattern entries stem sm = (matching pattern entries, []).
Proof.
  intros Hn. unfold select_members. destruct entries as [|[e b] [|? ?]]; try reflexivity.
  destruct (str_eqb e c_data) eqn:E; [|reflexivity]. apply str_eqb_spec in E. subst e. exfalso. exact (Hn b eq_refl).
Qed.
Lemma matching_spec pattern entries n :
  In n (matching pattern entries) <->
  exists b, In (n, b) entries /\ (n = pattern \/ b = true) /\ ends_with_slash n = false.
Proof.
  unfold matching. rewrite in_map_iff. split.
  - intros ([e b] & <- & Hin). apply filter_In in Hin. destruct Hin as [Hin Hc]. cbn [fst snd] in *.
    apply andb_true_iff in Hc. destruct Hc as [H1 H2]. apply negb_true_iff in H2. apply orb_true_iff in H1.
    exists b. split; [exact Hin|]. split; [|exact H2]. destruct H1 as [H1|H1]; [left; apply str_eqb_spec; exact H1|right; exact H1].
  - intros (b & Hin & Hm & He). exists (n, b). split; [reflexivity|]. apply filter_In. split; [exact Hin|]. cbn [fst snd].
    rewrite He. cbn [negb]. rewrite andb_true_r. apply orb_true_iff. destruct Hm as [-> | ->]; [left; apply str_eqb_refl|right; reflexivity].
Qed.

(* ------------------------------------------------------------------ contents: the last member written *)
Lemma stat_walk_app fs : forall a b cur,
  stat_walk fs cur (a ++ b) = match stat_walk fs cur a with Some p => stat_walk fs p b | None => None end.
Proof.
  induction a as [|c a IH]; intros b cur; [reflexivity|]. cbn [app stat_walk].
  destruct (lookup fs cur) as [[|?]|]; try reflexivity. destruct c; apply IH.
Qed.
Lemma stat_walk_mono fs fs2 :
  (forall l, lookup fs l = Some D -> lookup fs2 l = Some D) ->
  forall cs cur p, stat_walk fs cur cs = Some p -> stat_walk fs2 cur cs = Some p.
Proof.
  intros Hm. induction cs as [|c cs IH]; intros cur p H; [exact H|]. cbn [stat_walk] in *.
  destruct (lookup fs cur) as [[|?]|] eqn:E; try discriminate. rewrite (Hm _ E). destruct c; apply IH; exact H.
Qed.
Lemma klast_normal l s : comp_of_seg l = [CNormal s] -> klast l = [CNormal s].
Proof.
  unfold klast, comp_of_seg, kcomp_of_seg. destruct (str_eqb l []); [discriminate|].
  destruct (str_eqb l [c_dot]); [discriminate|]. destruct (str_eqb l [c_dot; c_dot]); [discriminate|]. auto.
Qed.

Lemma create_then_read fs T name c fs2 :
  create_file fs T name c = Some fs2 -> read_file fs2 T name = Some c.
Proof.
  unfold create_file, read_file, full_kcomps, kcomps.
  destruct (rev (split_slash name)) as [|l ir] eqn:Er; [discriminate|].
  destruct (comp_of_seg l) as [|[|s|] [|? ?]] eqn:Ec; try discriminate.
  rewrite (klast_normal l s Ec).
  destruct (stat_walk fs [] (base T name ++ flat_map kcomp_of_seg (rev ir))) as [p|] eqn:Ew; [|discriminate].
  destruct (lookup fs p) as [[|?]|] eqn:Ep; try discriminate.
  assert (Hcase : lookup fs (p ++ [s]) <> Some D -> Some (fs_set fs (p ++ [s]) (F c)) = Some fs2 -> 
                  match stat_walk fs2 [] (base T name ++ flat_map kcomp_of_seg (rev ir) ++ [CNormal s]) with
                  | Some l0 => match lookup fs2 l0 with Some (F c0) => Some c0 | _ => None end
                  | None => None end = Some c).
  { intros Hnd H. inversion H; subst fs2; clear H.
    assert (Hm : forall l0, lookup fs l0 = Some D -> lookup (fs_set fs (p ++ [s]) (F c)) l0 = Some D).
    { intros l0 Hl. rewrite lookup_set_other; [exact Hl|]. intros E. subst l0. contradiction. }
    rewrite app_assoc, stat_walk_app. rewrite (stat_walk_mono fs _ Hm _ _ _ Ew).
    cbn [stat_walk]. rewrite (Hm _ Ep). rewrite lookup_set_same. reflexivity. }
  destruct (lookup fs (p ++ [s])) as [[|?]|] eqn:Es; try discriminate; intros H; apply Hcase; try exact H; discriminate.
Qed.

Lemma extract_loop_app T rn flt : forall a b fs rep,
  extract_loop fs T flt rn (a ++ b) rep =
  match extract_loop fs T flt rn a rep with
  | Done fs1 rep1 => extract_loop fs1 T flt rn b rep1
  | Failed f => Failed f
  end.
Proof.
  induction a as [|m a IH]; intros b fs rep; [reflexivity|]. cbn [app extract_loop].
  destruct (negb (enclosed (m_name m))); [apply IH|].
  destruct (match flt with Some fl => negb (existsb (str_eqb (m_name m)) fl) | None => false end); [apply IH|].
  destruct (is_dir_name (m_name m)).
  - destruct (mkdir_p fs [] (full_comps T (m_name m))) as [fs1 [|]]; [apply IH|reflexivity].
  - destruct (m_symlink m); [apply IH|].
    destruct (mkdir_p fs [] (removelast (full_comps T (renamed rn (m_name m))))) as [fs1 [|]]; [|reflexivity].
    destruct (create_file fs1 T (renamed rn (m_name m)) (m_data m)) as [fs2|]; [apply IH|reflexivity].
Qed.

Lemma extract_loop_last_faithful T rn flt ms m fs rep fs' out :
  extract_loop fs T flt rn (ms ++ [m]) rep = Done fs' out -> selected flt m = true ->
  read_file fs' T (renamed rn (m_name m)) = Some (m_data m).
Proof.
  rewrite extract_loop_app. destruct (extract_loop fs T flt rn ms rep) as [fs1 rep1|]; [|discriminate].
  intros H Hs. unfold selected in Hs. rewrite !andb_true_iff, !negb_true_iff in Hs. destruct Hs as [[[He Hf] Hd] Hl].
  cbn [extract_loop] in H. rewrite He, Hd, Hl in H. cbn [negb] in H.
  assert (Hflt : match flt with Some fl => negb (existsb (str_eqb (m_name m)) fl) | None => false end = false).
  { destruct flt; [rewrite Hf; reflexivity|reflexivity]. }
  rewrite Hflt in H.
  destruct (mkdir_p fs1 [] (removelast (full_comps T (renamed rn (m_name m))))) as [fs2 [|]]; [|discriminate].
  destruct (create_file fs2 T (renamed rn (m_name m)) (m_data m)) as [fs3|] eqn:Ec; [|discriminate].
  inversion H; subst. eapply create_then_read. exact Ec.
Qed.

Theorem extract_to_dir_last_member_faithful fs T flt rn ms m fs' out :
  extract_to_dir fs T flt rn (ms ++ [m]) = Done fs' out ->
  selected (remaining fs T rn flt) m = true ->
  read_file fs' T (renamed rn (m_name m)) = Some (m_data m).
Proof.
  unfold extract_to_dir. destruct flt as [files|]; cbn [remaining].
  - rewrite prefilter_spec. apply extract_loop_last_faithful.
  - apply extract_loop_last_faithful.
Qed.

(* ------------------------------------------------------------------ the start state used by the checks *)
Lemma prefixes_firstn {A} (T : list A) : forall k, In (firstn k T) (prefixes T).
Proof.
  induction T as [|x T IH]; intros k; cbn [prefixes].
  - rewrite firstn_nil. left. reflexivity.
  - destruct k as [|k]; [left; reflexivity|]. right. cbn [firstn]. apply in_map. apply IH.
Qed.
Lemma lookup_all_dirs (ps : list loc) l : In l ps -> lookup (map (fun p => (p, D)) ps) l = Some D.
Proof.
  induction ps as [|p ps IH]; intros H; [contradiction|]. cbn [map lookup].
  destruct (loc_eqb p l) eqn:E; [reflexivity|]. destruct H as [->|H]; [rewrite loc_eqb_refl in E; discriminate|apply IH; exact H].
Qed.
Lemma lookup_app_miss (a b : fsys) l : (forall e, In e a -> fst e <> l) -> lookup (a ++ b) l = lookup b l.
Proof.
  induction a as [|[k n] a IH]; intros H; [reflexivity|]. cbn [app lookup].
  rewrite (loc_eqb_neq k l (H (k, n) (or_introl eq_refl))). apply IH. intros e He. apply H. right. exact He.
Qed.
Lemma init_fs_target_ok T inside : Forall (fun e => fst e <> []) inside -> target_ok (init_fs T inside) T.
Proof.
  intros Hne k. unfold init_fs. rewrite lookup_app_miss.
  - apply lookup_all_dirs. apply prefixes_firstn.
  - intros e He. apply in_map_iff in He. destruct He as (e0 & <- & Hin). cbn [fst].
    rewrite Forall_forall in Hne. specialize (Hne e0 Hin). intros E.
    apply (f_equal (@length str)) in E. rewrite app_length, firstn_length in E. destruct (fst e0); [contradiction|cbn in E; lia].
Qed.

(* ------------------------------------------------------------------ no invented bytes *)
Lemma mkdir_p_files : forall cs fs cur fs' ok,
  mkdir_p fs cur cs = (fs', ok) -> forall l c, lookup fs' l = Some (F c) -> lookup fs l = Some (F c).
Proof.
  induction cs as [|c0 cs IH]; intros fs cur fs' ok H l c Hl.
  - inversion H; subst. exact Hl.
  - destruct c0 as [|s|]; cbn [mkdir_p] in H.
    + eapply IH; eassumption.
    + destruct (lookup fs (cur ++ [s])) as [[|c1]|] eqn:E.
      * eapply IH; eassumption.
      * inversion H; subst. exact Hl.
      * pose proof (IH _ _ _ _ H l c Hl) as H1.
        destruct (loc_eqb (cur ++ [s]) l) eqn:El.
        -- apply loc_eqb_spec in El. subst l. rewrite lookup_set_same in H1. discriminate.
        -- rewrite lookup_set_other in H1; [exact H1|]. intros E2. subst l. rewrite loc_eqb_refl in El. discriminate.
    + eapply IH; eassumption.
Qed.

Lemma create_file_files fs T name c0 fs' :
  create_file fs T name c0 = Some fs' ->
  forall l c, lookup fs' l = Some (F c) -> lookup fs l = Some (F c) \/ c = c0.
Proof.
  unfold create_file. destruct (rev (split_slash name)) as [|ls ir]; [discriminate|].
  destruct (comp_of_seg ls) as [|[|s|] [|? ?]]; try discriminate.
  destruct (stat_walk fs [] (base T name ++ flat_map kcomp_of_seg (rev ir))) as [p|]; [|discriminate].
  destruct (lookup fs p) as [[|?]|]; try discriminate.
  assert (G : Some (fs_set fs (p ++ [s]) (F c0)) = Some fs' ->
              forall l c, lookup fs' l = Some (F c) -> lookup fs l = Some (F c) \/ c = c0).
  { intros H l c Hl. inversion H; subst fs'. destruct (loc_eqb (p ++ [s]) l) eqn:El.
    - apply loc_eqb_spec in El. subst l. rewrite lookup_set_same in Hl. inversion Hl. right. reflexivity.
    - rewrite lookup_set_other in Hl; [left; exact Hl|]. intros E2. subst l. rewrite loc_eqb_refl in El. discriminate. }
  destruct (lookup fs (p ++ [s])) as [[|?]|]; try discriminate; exact G.
Qed.

Lemma extract_loop_files T rn : forall ms fs flt rep,
  forall l c, lookup (out_fs (extract_loop fs T flt rn ms rep)) l = Some (F c) ->
    lookup fs l = Some (F c) \/ exists m, In m ms /\ selected flt m = true /\ c = m_data m.
Proof.
  induction ms as [|m ms IH]; intros fs flt rep l c H; cbn [extract_loop] in H.
  - left. exact H.
  - assert (Later : forall fs0, lookup (out_fs (extract_loop fs0 T flt rn ms rep)) l = Some (F c) ->
                      lookup fs0 l = Some (F c) \/ exists m0, In m0 (m :: ms) /\ selected flt m0 = true /\ c = m_data m0).
    { intros fs0 H0. destruct (IH fs0 flt rep l c H0) as [H1|(m0 & Hin & Hs & Hc)]; [left; exact H1|].
      right. exists m0. split; [right; exact Hin|]. split; assumption. }
    unfold selected at 1 in Later.
    destruct (enclosed (m_name m)) eqn:Ee; cbn [negb] in H; [|apply Later; exact H].
    destruct (match flt with Some fl => negb (existsb (str_eqb (m_name m)) fl) | None => false end) eqn:Ef; [apply Later; exact H|].
    destruct (is_dir_name (m_name m)) eqn:Ed.
    + destruct (mkdir_p fs [] (full_comps T (m_name m))) as [fs1 ok] eqn:Em. destruct ok.
      * destruct (IH fs1 flt rep l c H) as [H1|(m0 & Hin & Hs & Hc)].
        -- left. eapply mkdir_p_files; eassumption.
        -- right. exists m0. split; [right; exact Hin|]. split; assumption.
      * left. cbn [out_fs] in H. eapply mkdir_p_files; eassumption.
    + destruct (m_symlink m) eqn:Esl; [apply Later; exact H|].
      assert (Hsel : selected flt m = true).
      { unfold selected. rewrite Ee, Ed, Esl. destruct flt as [fl|]; [|reflexivity].
        apply negb_false_iff in Ef. rewrite Ef. reflexivity. }
      destruct (mkdir_p fs [] (removelast (full_comps T (renamed rn (m_name m))))) as [fs1 ok] eqn:Em. destruct ok.
      * destruct (create_file fs1 T (renamed rn (m_name m)) (m_data m)) as [fs2|] eqn:Ec.
        -- (* the loop continues with the reported list extended: use the IH at that list *)
           assert (H' : lookup (out_fs (extract_loop fs2 T flt rn ms (rep ++ [renamed rn (m_name m)]))) l = Some (F c)) by exact H.
           clear H. revert H'. generalize (rep ++ [renamed rn (m_name m)]). intros rep' H'.
           destruct (IH fs2 flt rep' l c H') as [H1|(m0 & Hin & Hs & Hc)].
           ++ destruct (create_file_files _ _ _ _ _ Ec l c H1) as [H2|H2].
              ** left. eapply mkdir_p_files; eassumption.
              ** right. exists m. split; [left; reflexivity|]. split; assumption.
           ++ right. exists m0. split; [right; exact Hin|]. split; assumption.
        -- left. cbn [out_fs] in H. eapply mkdir_p_files; eassumption.
      * left. cbn [out_fs] in H. eapply mkdir_p_files; eassumption.
Qed.

Theorem extract_to_dir_files_are_member_bytes fs T flt rn ms l c :
  lookup (out_fs (extract_to_dir fs T flt rn ms)) l = Some (F c) ->
  lookup fs l = Some (F c) \/ exists m, In m ms /\ selected (remaining fs T rn flt) m = true /\ c = m_data m.
Proof.
  unfold extract_to_dir. destruct flt as [files|]; cbn [remaining].
  - rewrite prefilter_spec. apply extract_loop_files.
  - apply extract_loop_files.
Qed.
