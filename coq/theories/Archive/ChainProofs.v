(* Proofs about Archive/Chain.v: the chain refines one file over the concatenation. *)
From Coq Require Import List NArith ZArith Bool Lia.
From AdltV Require Import Base.Res Base.MachInt Archive.Chain.
Import ListNotations.
Open Scope N_scope.

(* ------------------------------------------------------------------ lists and slices *)
Lemma slice_nil p n : slice [] p n = [].
Proof. unfold slice. rewrite skipn_nil, firstn_nil. reflexivity. Qed.

Lemma slice_length l p n : N.of_nat (length (slice l p n)) = N.min n (N.of_nat (length l) - p).
Proof. unfold slice. rewrite firstn_length, skipn_length. lia. Qed.

Lemma slice_zero l p : slice l p 0 = [].
Proof. unfold slice. reflexivity. Qed.

Lemma slice_past l p n : N.of_nat (length l) <= p -> slice l p n = [].
Proof. intros H. unfold slice. rewrite skipn_all2 by lia. apply firstn_nil. Qed.

(* skip a whole prefix *)
Lemma slice_app_skip a b p n : slice (a ++ b) (N.of_nat (length a) + p) n = slice b p n.
Proof.
  unfold slice. replace (N.to_nat (N.of_nat (length a) + p)) with (length a + N.to_nat p)%nat by lia.
  rewrite skipn_app, skipn_all2 by lia. cbn [app].
  replace (length a + N.to_nat p - length a)%nat with (N.to_nat p) by lia. reflexivity.
Qed.

(* a slice that ends inside the first part does not see the second *)
Lemma slice_app_in a b p n : p + n <= N.of_nat (length a) -> slice (a ++ b) p n = slice a p n.
Proof.
  intros H. unfold slice. rewrite skipn_app, firstn_app, skipn_length.
  replace (N.to_nat n - (length a - N.to_nat p))%nat with 0%nat by lia.
  rewrite firstn_O, app_nil_r. reflexivity.
Qed.

Lemma firstn_plus {A} (a b : nat) : forall l : list A, firstn (a + b) l = firstn a l ++ firstn b (skipn a l).
Proof. induction a as [|a IH]; intros l; [reflexivity|]. destruct l as [|x l]; cbn; [rewrite firstn_nil; reflexivity|]. rewrite IH. reflexivity. Qed.
Lemma skipn_plus {A} (a b : nat) : forall l : list A, skipn a (skipn b l) = skipn (b + a) l.
Proof. induction b as [|b IH]; intros l; [reflexivity|]. destruct l as [|x l]; cbn; [apply skipn_nil|]. apply IH. Qed.

Lemma slice_split l p a b :
  slice l p (a + b) = slice l p a ++ slice l (p + N.of_nat (length (slice l p a))) b.
Proof.
  pose proof (slice_length l p a) as HL.
  unfold slice in *. set (s := skipn (N.to_nat p) l) in *.
  replace (N.to_nat (a + b)) with (N.to_nat a + N.to_nat b)%nat by lia.
  rewrite firstn_plus. f_equal. f_equal.
  replace (N.to_nat (p + N.of_nat (length (firstn (N.to_nat a) s))))
    with (N.to_nat p + length (firstn (N.to_nat a) s))%nat by lia.
  rewrite <- skipn_plus. fold s.
  rewrite firstn_length. destruct (Nat.le_ge_cases (N.to_nat a) (length s)) as [Hle|Hge].
  - rewrite Nat.min_l by exact Hle. reflexivity.
  - rewrite Nat.min_r by exact Hge. rewrite !skipn_all2 by lia. reflexivity.
Qed.

Lemma upd_nth_app {A} (pre post : list A) x y :
  upd_nth (length pre) y (pre ++ x :: post) = pre ++ y :: post.
Proof. induction pre as [|a pre IH]; cbn; [reflexivity|rewrite IH; reflexivity]. Qed.

Lemma nth_error_mid {A} (pre post : list A) x : nth_error (pre ++ x :: post) (length pre) = Some x.
Proof. rewrite nth_error_app2 by lia. rewrite Nat.sub_diag. reflexivity. Qed.

(* ------------------------------------------------------------------ volumes *)
Definition datas (vs : list (N * vol)) : list (list N) := map (fun sv => v_data (snd sv)) vs.
Definition sz (vs : list (N * vol)) : N := fold_right N.add 0 (map fst vs).
Definition vol_ok (sv : N * vol) : Prop := fst sv = vol_len (snd sv) /\ 0 < fst sv.

Lemma sz_app a b : sz (a ++ b) = sz a + sz b.
Proof. unfold sz. induction a as [|x a IH]; cbn; [reflexivity|]. unfold sz in IH. rewrite IH. lia. Qed.

Lemma datas_app a b : datas (a ++ b) = datas a ++ datas b.
Proof. unfold datas. apply map_app. Qed.

Lemma sz_total vs : Forall vol_ok vs -> sz vs = N.of_nat (length (concat (datas vs))).
Proof.
  induction 1 as [|[s r] vs [Hs _] _ IH]; [reflexivity|].
  cbn [datas map concat snd]. rewrite app_length. unfold sz in *. cbn [map fold_right fst].
  rewrite IH. cbn [fst snd] in Hs. unfold vol_len in Hs. fold (datas vs). lia.
Qed.

(* ------------------------------------------------------------------ the invariant *)
Definition Loc (c : chain) : Prop :=
  (exists pre s r post,
      c_vols c = pre ++ (s, r) :: post /\ c_idx c = N.of_nat (length pre) /\ c_rel c < s /\
      c_abs c = sz pre + c_rel c /\ (c_rel c <> 0 -> v_pos r = c_rel c))
  \/ (c_abs c = c_max c /\ N.of_nat (length (c_vols c)) <= c_idx c).

Record Inv (c : chain) (D : list N) : Prop := {
  inv_ok : Forall vol_ok (c_vols c);
  inv_data : concat (datas (c_vols c)) = D;
  inv_max : c_max c = N.of_nat (length D);
  inv_bound : c_max c <= u64max;
  inv_loc : Loc c
}.

Lemma inv_sz c D : Inv c D -> sz (c_vols c) = N.of_nat (length D).
Proof. intros [Hok Hd _ _ _]. rewrite sz_total by exact Hok. rewrite Hd. reflexivity. Qed.

(* every `+=` of the implementation stays below max_pos, which `new` checked to fit into u64 *)
Lemma inv_abs_le c D : Inv c D -> c_abs c <= c_max c.
Proof.
  intros HI. pose proof (inv_sz c D HI) as Hsz. destruct HI as [Hok Hd Hm _ HL].
  destruct HL as [(pre & s & r & post & Hv & _ & Hrel & Habs & _)|[Habs _]]; [|lia].
  rewrite Hv, sz_app in Hsz. unfold sz at 2 in Hsz. cbn [map fold_right fst] in Hsz. lia.
Qed.

(* ------------------------------------------------------------------ new *)
Lemma sum_chk_ok l : forall acc, acc + fold_right N.add 0 l <= u64max -> sum_chk l acc = Ok (acc + fold_right N.add 0 l).
Proof.
  induction l as [|x l IH]; intros acc H; cbn [sum_chk fold_right] in *.
  - f_equal. lia.
  - unfold add_chk. destruct (acc + x <=? u64max) eqn:E.
    + rewrite IH by lia. f_equal. lia.
    + apply N.leb_gt in E. lia.
Qed.

Lemma sum_chk_inv l : forall acc m, sum_chk l acc = Ok m -> m = acc + fold_right N.add 0 l /\ m <= u64max \/ (l = [] /\ m = acc).
Proof.
  induction l as [|x l IH]; intros acc m H; cbn [sum_chk fold_right] in *.
  - right. inversion H. auto.
  - left. unfold add_chk in H. destruct (acc + x <=? u64max) eqn:E; [|discriminate].
    apply N.leb_le in E. destruct (IH _ _ H) as [[H1 H2]|[H1 H2]]; subst; cbn; lia.
Qed.

Lemma open_filter_concat ds :
  concat (datas (filter (fun sv => 0 <? fst sv) (map open_vol ds))) = concat ds.
Proof.
  induction ds as [|d ds IH]; [reflexivity|].
  cbn [map filter]. unfold open_vol at 1. cbn [fst]. unfold vol_len. cbn [v_data].
  destruct (0 <? N.of_nat (length d)) eqn:E.
  - cbn [datas map concat snd vol_seek v_data]. fold (datas (filter (fun sv => 0 <? fst sv) (map open_vol ds))).
    rewrite IH. reflexivity.
  - apply N.ltb_ge in E. destruct d; [|cbn in E; lia]. cbn [concat app]. exact IH.
Qed.

Lemma open_filter_ok ds : Forall vol_ok (filter (fun sv => 0 <? fst sv) (map open_vol ds)).
Proof.
  apply Forall_forall. intros sv Hin. apply filter_In in Hin. destruct Hin as [Hin Hpos].
  apply in_map_iff in Hin. destruct Hin as [d [Hd _]]. subst sv. split.
  - reflexivity.
  - apply N.ltb_lt in Hpos. exact Hpos.
Qed.

Lemma chain_new_inv ds :
  N.of_nat (length (concat ds)) <= u64max ->
  exists c, chain_new ds = Ok c /\ Inv c (concat ds) /\ c_abs c = 0.
Proof.
  intros Hb. unfold chain_new. set (vs := filter (fun sv => 0 <? fst sv) (map open_vol ds)).
  pose proof (open_filter_ok ds) as Hok. fold vs in Hok.
  pose proof (open_filter_concat ds) as Hd. fold vs in Hd.
  pose proof (sz_total vs Hok) as Hs. rewrite Hd in Hs. unfold sz in Hs.
  rewrite sum_chk_ok by lia. rewrite N.add_0_l, Hs.
  eexists. split; [reflexivity|]. split; [|reflexivity].
  constructor; cbn; try assumption; try reflexivity.
  unfold Loc; cbn. destruct vs as [|[s r] post] eqn:Ev.
  - right. cbn in *. split; lia.
  - left. exists [], s, r, post. inversion Hok as [|? ? [_ Hp] _]. cbn in *. repeat split; try lia.
Qed.

(* ------------------------------------------------------------------ seek_abs *)
Lemma seek_walk_spec vs : forall pos abs0 idx0,
  Forall vol_ok vs -> pos < sz vs ->
  exists pre s r post,
    vs = pre ++ (s, r) :: post /\ sz pre <= pos /\ pos - sz pre < s /\
    seek_walk vs pos abs0 idx0 =
      (pre ++ (s, vol_seek (pos - sz pre) r) :: post, abs0 + pos, idx0 + N.of_nat (length pre), pos - sz pre).
Proof.
  induction vs as [|[s r] vs IH]; intros pos abs0 idx0 Hok Hlt.
  - unfold sz in Hlt. cbn in Hlt. lia.
  - inversion Hok as [|? ? Hv Hok']; subst. cbn [seek_walk]. destruct (pos <? s) eqn:E.
    + apply N.ltb_lt in E. exists [], s, r, vs. unfold sz. cbn. rewrite N.sub_0_r, N.add_0_r.
      repeat split; try lia.
    + apply N.ltb_ge in E. unfold sz in Hlt. cbn [map fold_right fst] in Hlt. fold (sz vs) in Hlt.
      destruct (IH (pos - s) (abs0 + s) (idx0 + 1) Hok') as (pre & s' & r' & post & Hvs & Hle & Hrel & Hw); [lia|].
      rewrite Hw. exists ((s, r) :: pre), s', r', post. subst vs.
      unfold sz in *. cbn [map fold_right fst app length].
      replace (pos - (s + fold_right N.add 0 (map fst pre))) with (pos - s - fold_right N.add 0 (map fst pre)) by lia.
      split; [reflexivity|]. split; [lia|]. split; [lia|].
      replace (abs0 + s + (pos - s)) with (abs0 + pos) by lia.
      replace (idx0 + 1 + N.of_nat (length pre)) with (idx0 + N.of_nat (S (length pre))) by lia. reflexivity.
Qed.

Lemma seek_abs_spec c D pos c' p :
  Inv c D -> seek_abs c pos = (c', p) ->
  Inv c' D /\ p = N.min pos (N.of_nat (length D)) /\ c_abs c' = p.
Proof.
  intros HI H. pose proof (inv_abs_le c D HI) as Hle. pose proof (inv_sz c D HI) as Hsz.
  pose proof HI as HI0. destruct HI as [Hok Hd Hm Hb HL]. unfold seek_abs in H.
  destruct (c_abs c =? pos) eqn:E1.
  - apply N.eqb_eq in E1. inversion H; subst c' p. split; [exact HI0|]. split; lia.
  - destruct (c_max c <=? pos) eqn:E2.
    + apply N.leb_le in E2. inversion H; subst c' p; clear H. split.
      * constructor; cbn; [exact Hok|exact Hd|exact Hm|exact Hb|]. right. cbn. split; lia.
      * cbn. split; lia.
    + apply N.leb_gt in E2.
      destruct (seek_walk_spec (c_vols c) pos 0 0 Hok) as (pre & s & r & post & Hvs & Hle' & Hrel & Hw); [lia|].
      rewrite Hw in H. inversion H; subst c' p; clear H. cbn. split; [|split; lia].
      constructor; cbn.
      * rewrite Hvs in Hok. apply Forall_app in Hok. destruct Hok as [Hp Hq]. inversion Hq as [|? ? Hx Hq']; subst.
        apply Forall_app. split; [exact Hp|]. constructor; [|exact Hq']. exact Hx.
      * rewrite <- Hd, Hvs. rewrite !datas_app. reflexivity.
      * exact Hm.
      * exact Hb.
      * left. exists pre, s, (vol_seek (pos - sz pre) r), post. cbn. repeat split; try lia.
Qed.

Lemma chain_seek_spec c D s c' p :
  Inv c D -> chain_seek c s = (c', p) ->
  Inv c' D /\ p = ref_seek D (c_abs c) s /\ c_abs c' = p.
Proof.
  intros HI H. pose proof (inv_abs_le c D HI) as Hle.
  pose proof (inv_max c D HI) as Hm. pose proof (inv_bound c D HI) as Hb.
  unfold chain_seek in H. unfold ref_seek, clamp, target.
  destruct s as [o|o|o].
  - destruct (seek_abs_spec c D _ _ _ HI H) as (H1 & H2 & H3). split; [exact H1|]. split; [|exact H3].
    rewrite H2. rewrite N2Z.id. reflexivity.
  - destruct (seek_abs_spec c D _ _ _ HI H) as (H1 & H2 & H3). split; [exact H1|]. split; [|exact H3].
    rewrite H2. unfold sat_sub, sat_add64 in *. destruct (o <? 0)%Z eqn:E.
    + apply Z.ltb_lt in E. lia.
    + apply Z.ltb_ge in E. lia.
  - destruct (o <=? 0)%Z eqn:E.
    + apply Z.leb_le in E. destruct (seek_abs_spec c D _ _ _ HI H) as (H1 & H2 & H3). split; [exact H1|]. split; [|exact H3].
      rewrite H2. unfold sat_sub. lia.
    + apply Z.leb_gt in E. destruct (seek_abs_spec c D _ _ _ HI H) as (H1 & H2 & H3). split; [exact H1|]. split; [|exact H3].
      rewrite H2. unfold sat_add64 in *. lia.
Qed.

(* ------------------------------------------------------------------ read *)
Definition rem (c : chain) : nat := (length (c_vols c) - N.to_nat (c_idx c))%nat.

Lemma concat_mid pre (s : N) (r : vol) post :
  concat (datas (pre ++ (s, r) :: post)) = concat (datas pre) ++ v_data r ++ concat (datas post).
Proof. rewrite datas_app, concat_app. reflexivity. Qed.

Lemma chain_read_spec c D n c' out :
  Inv c D -> chain_read c n = (c', out) ->
  Inv c' D /\ c_abs c' = c_abs c + N.of_nat (length out) /\ length (c_vols c') = length (c_vols c) /\
  ((c_abs c = N.of_nat (length D) /\ out = [] /\ c' = c)
   \/ (exists avail, 0 < avail /\ c_abs c + avail <= N.of_nat (length D) /\
         out = slice D (c_abs c) (N.min avail n) /\ N.of_nat (length out) = N.min avail n /\
         (avail <= n -> (rem c' < rem c)%nat))).
Proof.
  intros HI H. pose proof (inv_sz c D HI) as Hsz. pose proof HI as HI0.
  destruct HI as [Hok Hd Hm Hb HL]. unfold chain_read in H.
  destruct HL as [(pre & s & r & post & Hv & Hidx & Hrel & Habs & Hpos)|[Habs Hidx]].
  - (* inside volume (s, r) *)
    assert (Hlen : N.of_nat (length (c_vols c)) <=? c_idx c = false).
    { apply N.leb_gt. rewrite Hv, app_length. cbn [length]. lia. }
    rewrite Hlen in H. rewrite Hidx, Nat2N.id in H. rewrite Hv, nth_error_mid in H.
    unfold vol_read in H. cbv beta iota zeta in H. rewrite !upd_nth_app in H.
    assert (Hvok : vol_ok (s, r)).
    { rewrite Hv in Hok. apply Forall_app in Hok. destruct Hok as [_ Hq]. inversion Hq; assumption. }
    destruct Hvok as [Hs Hs0]. cbn [fst snd] in Hs, Hs0. unfold vol_len in Hs.
    set (r1 := if c_rel c =? 0 then vol_seek 0 r else r) in H.
    assert (Hr1 : v_data r1 = v_data r /\ v_pos r1 = c_rel c).
    { unfold r1. destruct (c_rel c =? 0) eqn:E.
      - apply N.eqb_eq in E. cbn. split; [reflexivity|lia].
      - apply N.eqb_neq in E. split; [reflexivity|apply Hpos; exact E]. }
    destruct Hr1 as [Hr1d Hr1p]. rewrite !Hr1d, !Hr1p in H. unfold sat_sub in H.
    set (k := N.min (s - c_rel c) n) in *.
    set (o := slice (v_data r) (c_rel c) k) in *.
    assert (Hol : N.of_nat (length o) = k).
    { unfold o. rewrite slice_length. unfold k. lia. }
    assert (Ho : o = slice D (c_abs c) k).
    { rewrite <- Hd, Hv, concat_mid. rewrite Habs.
      assert (Hsp : sz pre = N.of_nat (length (concat (datas pre)))).
      { apply sz_total. rewrite Hv in Hok. apply Forall_app in Hok. tauto. }
      rewrite Hsp, slice_app_skip, slice_app_in; [reflexivity|]. unfold k. lia. }
    assert (HD : sz pre + s + sz post = N.of_nat (length D)).
    { rewrite <- Hsz, Hv, sz_app. change (sz ((s, r) :: post)) with (s + sz post). lia. }
    set (r2 := {| v_data := v_data r; v_pos := c_rel c + N.of_nat (length o) |}) in H.
    assert (Hok2 : Forall vol_ok (pre ++ (s, r2) :: post)).
    { rewrite Hv in Hok. apply Forall_app in Hok. destruct Hok as [Hp Hq]. inversion Hq as [|? ? Hx Hq'].
      apply Forall_app. split; [exact Hp|]. constructor; [|exact Hq']. split; cbn; [exact Hs|exact Hs0]. }
    assert (Hd2 : concat (datas (pre ++ (s, r2) :: post)) = D).
    { rewrite <- Hd, Hv, !concat_mid. reflexivity. }
    assert (Hrem0 : rem c = S (length post)).
    { unfold rem. rewrite Hv, app_length, Hidx, Nat2N.id. cbn [length]. lia. }
    destruct (s <=? c_rel c + N.of_nat (length o)) eqn:E; inversion H; subst c' out; clear H; cbn.
    + apply N.leb_le in E. split; [|split; [reflexivity|split; [rewrite Hv, !app_length; reflexivity|]]].
      * constructor; cbn; [exact Hok2|exact Hd2|exact Hm|exact Hb|].
        destruct post as [|[s2 q2] post'].
        -- right. cbn. rewrite app_length. cbn [length]. change (sz []) with 0 in HD. unfold k in Hol. split; lia.
        -- left. exists (pre ++ [(s, r2)]), s2, q2, post'. cbn.
           rewrite <- app_assoc. cbn [app]. rewrite app_length, sz_app. cbn [length].
           unfold sz at 2. cbn [map fold_right fst].
           apply Forall_app in Hok2. destruct Hok2 as [_ Hq]. inversion Hq as [|? ? _ Hq']. inversion Hq' as [|? ? [_ Hp2] _].
           cbn [fst] in Hp2. repeat split; try lia.
      * right. exists (s - c_rel c). split; [lia|]. split; [lia|]. split; [exact Ho|]. split; [exact Hol|].
        intros _. rewrite Hrem0. unfold rem. cbn [c_vols c_idx]. rewrite app_length. cbn [length]. lia.
    + apply N.leb_gt in E. split; [|split; [reflexivity|split; [rewrite Hv, !app_length; reflexivity|]]].
      * constructor; cbn; [exact Hok2|exact Hd2|exact Hm|exact Hb|].
        left. exists pre, s, r2, post. cbn. repeat split; try lia.
      * right. exists (s - c_rel c). split; [lia|]. split; [lia|]. split; [exact Ho|]. split; [exact Hol|].
        intros Hc. unfold k in Hol. lia.
  - (* at the end *)
    assert (Hlen : N.of_nat (length (c_vols c)) <=? c_idx c = true) by (apply N.leb_le; exact Hidx).
    rewrite Hlen in H. inversion H; subst c' out. cbn. split; [exact HI0|]. split; [lia|]. split; [reflexivity|].
    left. split; [lia|]. split; reflexivity.
Qed.

(* ------------------------------------------------------------------ read_full: the fuel suffices *)
Lemma read_full_loop_zero f c acc : read_full_loop f c 0 acc = Ok (c, acc).
Proof. destruct f; reflexivity. Qed.

Lemma read_full_loop_spec : forall fuel c D n acc,
  Inv c D -> (rem c < fuel)%nat ->
  exists c', read_full_loop fuel c n acc = Ok (c', acc ++ slice D (c_abs c) n) /\ Inv c' D /\
             c_abs c' = c_abs c + N.of_nat (length (slice D (c_abs c) n)).
Proof.
  induction fuel as [|f IH]; intros c D n acc HI Hf; [lia|].
  cbn [read_full_loop]. destruct (n =? 0) eqn:En.
  - apply N.eqb_eq in En. subst n. rewrite slice_zero, app_nil_r. exists c. cbn. split; [reflexivity|]. split; [exact HI|lia].
  - apply N.eqb_neq in En. destruct (chain_read c n) as [c1 out] eqn:Er.
    destruct (chain_read_spec c D n c1 out HI Er) as (HI1 & Habs1 & Hlen1 & Hcase).
    destruct Hcase as [(Hend & Ho & Hc)|(avail & Hav & Hfit & Ho & Hol & Hrem)].
    + subst out c1. rewrite slice_past by lia. rewrite app_nil_r. exists c. cbn. split; [reflexivity|]. split; [exact HI|lia].
    + destruct out as [|b out'] eqn:Eo.
      { cbn in Hol. lia. }
      rewrite <- Eo in *. clear Eo.
      assert (Hsplit : slice D (c_abs c) n = out ++ slice D (c_abs c1) (n - N.of_nat (length out))).
      { replace n with (N.min avail n + (n - N.min avail n)) at 1 by lia.
        rewrite slice_split, <- Ho, Habs1, Hol. reflexivity. }
      destruct (N.le_gt_cases avail n) as [Hle|Hgt].
      * destruct (IH c1 D (n - N.of_nat (length out)) (acc ++ out) HI1) as (c2 & Hr & HI2 & Habs2).
        { specialize (Hrem Hle). lia. }
        exists c2. rewrite Hr. split; [rewrite Hsplit, app_assoc; reflexivity|]. split; [exact HI2|].
        rewrite Habs2, Hsplit, app_length, Habs1. lia.
      * replace (n - N.of_nat (length out)) with 0 in * by lia.
        rewrite read_full_loop_zero. exists c1. rewrite Hsplit, slice_zero, !app_nil_r.
        split; [reflexivity|]. split; [exact HI1|exact Habs1].
Qed.

Lemma read_full_spec c D n :
  Inv c D ->
  exists c', read_full c n = Ok (c', slice D (c_abs c) n) /\ Inv c' D /\
             c_abs c' = c_abs c + N.of_nat (length (slice D (c_abs c) n)).
Proof.
  intros HI. unfold read_full.
  destruct (read_full_loop_spec (S (S (length (c_vols c)))) c D n [] HI) as (c' & H1 & H2 & H3).
  - unfold rem. lia.
  - exists c'. split; [exact H1|]. split; assumption.
Qed.

(* ------------------------------------------------------------------ traces *)
Lemma chain_run_refines : forall ops c D,
  Inv c D -> exists rs, chain_run c ops = Ok rs /\ Refines D (c_abs c) ops rs.
Proof.
  induction ops as [|o ops IH]; intros c D HI.
  - exists []. split; [reflexivity|constructor].
  - cbn [chain_run]. destruct o as [n|n|s]; cbn [chain_step].
    + destruct (chain_read c n) as [c1 out] eqn:Er.
      destruct (chain_read_spec c D n c1 out HI Er) as (HI1 & Habs1 & _ & Hcase).
      destruct (IH c1 D HI1) as (rs & Hr & Href). rewrite Hr. eexists. split; [reflexivity|].
      rewrite Habs1 in Href.
      destruct Hcase as [(Hend & Ho & Hc)|(avail & Hav & Hfit & Ho & Hol & Hrem)].
      * subst out. apply Rf_read; [rewrite slice_zero; reflexivity|cbn; lia|intros _; right; lia|exact Href].
      * apply Rf_read; [rewrite Hol; exact Ho|lia| |exact Href].
        intros E. rewrite E in Hol. cbn in Hol. left. lia.
    + destruct (read_full_spec c D n HI) as (c1 & Hr1 & HI1 & Habs1). rewrite Hr1.
      destruct (IH c1 D HI1) as (rs & Hr & Href). rewrite Hr. eexists. split; [reflexivity|].
      rewrite Habs1 in Href. apply Rf_full. exact Href.
    + destruct (chain_seek c s) as [c1 p] eqn:Es.
      destruct (chain_seek_spec c D s c1 p HI Es) as (HI1 & Hp & Habs1).
      destruct (IH c1 D HI1) as (rs & Hr & Href). rewrite Hr. eexists. split; [reflexivity|].
      rewrite Habs1, Hp in Href. rewrite Hp. apply Rf_seek. exact Href.
Qed.

Theorem chain_refines_concat datas ops :
  N.of_nat (length (concat datas)) <= u64max ->
  exists rs, chain_session datas ops = Ok rs /\ Refines (concat datas) 0 ops rs.
Proof.
  intros Hb. destruct (chain_new_inv datas Hb) as (c & Hn & HI & H0).
  unfold chain_session. rewrite Hn. destruct (chain_run_refines ops c _ HI) as (rs & Hr & Href).
  exists rs. rewrite H0 in Href. split; assumption.
Qed.

(* the only way `new` can fail is an overflow of the total size *)
Lemma chain_new_overflow datas : u64max < N.of_nat (length (concat datas)) -> exists s, chain_new datas = Panic s.
Proof.
  intros Hb. unfold chain_new. set (vs := filter (fun sv => 0 <? fst sv) (map open_vol datas)).
  pose proof (sz_total vs (open_filter_ok datas)) as Hs. unfold vs in Hs at 2. rewrite open_filter_concat in Hs.
  unfold sz in Hs. assert (G : forall l acc, u64max < acc + fold_right N.add 0 l -> acc <= u64max -> exists s, sum_chk l acc = Panic s).
  { induction l as [|x l IH]; intros acc H1 H2; cbn [sum_chk fold_right] in *; [lia|].
    unfold add_chk. destruct (acc + x <=? u64max) eqn:E.
    - apply N.leb_le in E. apply IH; lia.
    - eexists; reflexivity. }
  destruct (G (map fst vs) 0) as [s Hsx]; [lia|unfold u64max; lia|]. rewrite Hsx. exists s. reflexivity.
Qed.

(* ------------------------------------------------------------------ deterministic corollaries *)
Lemma refines_full_reads D : forall ops p rs,
  full_reads_only ops -> Refines D p ops rs -> rs = ref_run D p ops.
Proof.
  induction ops as [|o ops IH]; intros p rs Hf Hr; inversion Hr; subst; cbn [ref_run].
  - reflexivity.
  - inversion Hf as [|? ? Hx _]. destruct Hx.
  - inversion Hf as [|? ? _ Hf']. f_equal. apply IH; assumption.
  - inversion Hf as [|? ? _ Hf']. f_equal. apply IH; assumption.
Qed.

Lemma ref_run_refines D : forall ops p, Refines D p ops (ref_run D p ops).
Proof.
  induction ops as [|o ops IH]; intros p; cbn [ref_run]; [constructor|].
  destruct o as [n|n|s].
  - apply Rf_read.
    + pose proof (slice_length D p n) as HL. rewrite HL.
      destruct (N.le_gt_cases n (N.of_nat (length D) - p)) as [H|H].
      * rewrite N.min_l by exact H. reflexivity.
      * rewrite N.min_r by lia. unfold slice. rewrite !firstn_all2; try reflexivity; rewrite skipn_length; lia.
    + rewrite slice_length. lia.
    + intros E. pose proof (slice_length D p n) as HL. rewrite E in HL. cbn in HL. lia.
    + apply IH.
  - apply Rf_full. apply IH.
  - apply Rf_seek. apply IH.
Qed.

Lemma ref_is_file D : forall ops p,
  in_range D p ops -> map Some (ref_run D p ops) = map res_of_file (file_run D p ops).
Proof.
  induction ops as [|o ops IH]; intros p Hr; [reflexivity|].
  destruct o as [n|n|s]; cbn [ref_run file_run in_range map res_of_file] in *.
  - f_equal. apply IH. exact Hr.
  - f_equal. apply IH. exact Hr.
  - destruct Hr as [[H0 H1] Hr]. unfold ref_seek, clamp.
    set (t := target (N.of_nat (length D)) p s) in *.
    destruct (t <? 0)%Z eqn:E; [apply Z.ltb_lt in E; lia|].
    replace (N.min (Z.to_N t) (N.of_nat (length D))) with (Z.to_N t) by lia.
    cbn [map res_of_file]. f_equal. apply IH. exact Hr.
Qed.

(* the position reported by a seek is the position the next read delivers from *)
Lemma refines_seek_then_read_full D n s : forall ops p rs,
  Refines D p (ops ++ [Seek s; ReadFull n]) rs ->
  exists pre q, rs = pre ++ [RPos q; RBytes (slice D q n)] /\ length pre = length ops.
Proof.
  induction ops as [|o ops IH]; intros p rs H.
  - cbn [app] in H. inversion H as [| | |? ? ? ? H1]; subst. inversion H1 as [| |? ? ? ? H2|]; subst. inversion H2; subst.
    exists [], (ref_seek D p s). split; reflexivity.
  - cbn [app] in H. inversion H as [|? ? ? ? ? _ _ _ H1|? ? ? ? H1|? ? ? ? H1]; subst;
      destruct (IH _ _ H1) as (pre & q & E & L); subst;
      eexists (_ :: pre), q; (split; [reflexivity|cbn; lia]).
Qed.

Lemma refines_seek_then_read D n s : forall ops p rs,
  Refines D p (ops ++ [Seek s; Read n]) rs ->
  exists pre q out, rs = pre ++ [RPos q; RBytes out] /\ length pre = length ops /\
     out = slice D q (N.of_nat (length out)) /\ N.of_nat (length out) <= n /\
     (out = [] -> n = 0 \/ N.of_nat (length D) <= q).
Proof.
  induction ops as [|o ops IH]; intros p rs H.
  - cbn [app] in H. inversion H as [| | |? ? ? ? H1]; subst. inversion H1 as [|? ? ? ? ? Ha Hb Hc H2| |]; subst. inversion H2; subst.
    exists [], (ref_seek D p s), out. repeat split; assumption.
  - cbn [app] in H. inversion H as [|? ? ? ? ? _ _ _ H1|? ? ? ? H1|? ? ? ? H1]; subst;
      destruct (IH _ _ H1) as (pre & q & out' & E & L & R); subst;
      eexists (_ :: pre), q, out'; (split; [reflexivity|split; [cbn; lia|exact R]]).
Qed.
