(* C20, part 2 — the path logic of /repo/src/utils/unzip.rs::extract_to_dir (zip branch) and of the
   member selection of extract_archives, as coded now (including the `fix:` commit that made the
   "already extracted" pre-filter check `is_enclosed_name && is_file`).

   What is modelled: member name -> `ZipFile::enclosed_name` (zip 2.4.2, types.rs: reject NUL, root,
   net-negative depth; the name itself is returned unchanged) -> `target_dir.join(name)` -> the
   sequence of `create_dir_all` / `File::create` requests, the files_filter / rename_map logic, the
   order and contents of the reported list, the selection of members by extract_archives.
   What is trusted (inputs of the model / assumptions written here):
   * the zip crate: the members `by_index` presents (name, symlink flag, bytes), `file_names()` in the
     same order, `is_dir` (transcribed below from spec.rs) — decoding/decompression is not modelled;
   * glob: `Pattern::matches` is an input (one boolean per entry);
   * the file system: a tiny model (a map from absolute normalised locations to Dir | File bytes)
     with the POSIX resolution rules that matter here: every intermediate component must be an
     existing directory, `..` goes to the parent, no symbolic links below the target directory
     (the extraction never creates one: symlink members are skipped), `mkdir -p` semantics of
     `std::fs::create_dir_all`, open(O_CREAT|O_TRUNC) semantics of `File::create`;
   * member names are UTF-8 without backslash-to-slash conversion (Unix), `shall_cancel` stays false.
   No proofs in this file. *)
From Coq Require Import List NArith Bool.
Import ListNotations.
Open Scope N_scope.

Definition str := list N.            (* a name as bytes *)
Definition c_slash : N := 47.
Definition c_backslash : N := 92.
Definition c_dot : N := 46.

Fixpoint str_eqb (a b : str) : bool :=
  match a, b with
  | [], [] => true
  | x :: a', y :: b' => N.eqb x y && str_eqb a' b'
  | _, _ => false
  end.

(* "a//b" -> ["a"; ""; "b"],  "" -> [""] *)
Fixpoint split_slash (s : str) : list str :=
  match s with
  | [] => [[]]
  | c :: r =>
      if N.eqb c c_slash then [] :: split_slash r
      else match split_slash r with
           | [] => [[c]]           (* unreachable: split_slash never returns [] *)
           | h :: t => (c :: h) :: t
           end
  end.

(* std::path::Path::components on Unix, without the root: empty and "." segments vanish
   (a "." can only survive as the very first component of a relative path; it is never counted) *)
Inductive comp := CParent | CNormal (s : str) | CDot.
Definition comp_of_seg (s : str) : list comp :=
  if str_eqb s [] then [] else if str_eqb s [c_dot] then [] else if str_eqb s [c_dot; c_dot] then [CParent] else [CNormal s].
Definition comps (s : str) : list comp := flat_map comp_of_seg (split_slash s).

(* what the kernel walks over when it resolves the same text: "." stays where it is but needs a
   directory there, and so does a trailing "/" *)
Definition kcomp_of_seg (s : str) : list comp :=
  if str_eqb s [] then [] else if str_eqb s [c_dot] then [CDot] else if str_eqb s [c_dot; c_dot] then [CParent] else [CNormal s].
(* the last segment: an empty one is a trailing "/" (or the empty name joined as "T/") *)
Definition klast (s : str) : list comp := if str_eqb s [] then [CDot] else kcomp_of_seg s.
Definition kcomps (s : str) : list comp :=
  match rev (split_slash s) with
  | [] => []
  | l :: init_rev => flat_map kcomp_of_seg (rev init_rev) ++ klast l
  end.

Definition is_abs (s : str) : bool := match s with c :: _ => N.eqb c c_slash | [] => false end.
Definition has_nul (s : str) : bool := existsb (N.eqb 0) s.

Fixpoint depth_ok (d : nat) (cs : list comp) : bool :=
  match cs with
  | [] => true
  | CParent :: r => match d with O => false | S d' => depth_ok d' r end
  | CNormal _ :: r => depth_ok (S d) r
  | CDot :: r => depth_ok d r
  end.

(* ZipFileData::enclosed_name(..).is_some()  and  unzip.rs::is_enclosed_name *)
Definition enclosed (s : str) : bool := negb (has_nul s) && negb (is_abs s) && depth_ok 0 (comps s).

(* zip spec.rs::is_dir: the last char is '/' or '\' *)
Definition is_dir_name (s : str) : bool :=
  match rev s with c :: _ => N.eqb c c_slash || N.eqb c c_backslash | [] => false end.
Definition ends_with_slash (s : str) : bool :=
  match rev s with c :: _ => N.eqb c c_slash | [] => false end.

(* ------------------------------------------------------------------ file system *)
Definition loc := list str.          (* absolute, normalised: the Normal components from the root *)
Inductive node := D | F (content : list N).
Definition fsys := list (loc * node).

Fixpoint loc_eqb (a b : loc) : bool :=
  match a, b with
  | [], [] => true
  | x :: a', y :: b' => str_eqb x y && loc_eqb a' b'
  | _, _ => false
  end.
Fixpoint lookup (fs : fsys) (l : loc) : option node :=
  match fs with
  | [] => None
  | (k, n) :: r => if loc_eqb k l then Some n else lookup r l
  end.
Definition fs_set (fs : fsys) (l : loc) (n : node) : fsys :=
  (l, n) :: filter (fun e => negb (loc_eqb (fst e) l)) fs.

(* Path::join + components: where the walk starts and what it walks over *)
Definition full_comps (T : loc) (name : str) : list comp :=
  (if is_abs name then [] else map CNormal T) ++ comps name.

Definition base (T : loc) (name : str) : list comp := if is_abs name then [] else map CNormal T.
Definition full_kcomps (T : loc) (name : str) : list comp := base T name ++ kcomps name.

(* kernel path resolution (stat): every directory passed through must exist *)
Fixpoint stat_walk (fs : fsys) (cur : loc) (cs : list comp) : option loc :=
  match cs with
  | [] => Some cur
  | c :: r =>
      match lookup fs cur with
      | Some D =>
          match c with
          | CParent => stat_walk fs (removelast cur) r
          | CNormal s => stat_walk fs (cur ++ [s]) r
          | CDot => stat_walk fs cur r
          end
      | _ => None
      end
  end.
(* Path::is_file *)
Definition path_is_file (fs : fsys) (T : loc) (name : str) : bool :=
  match stat_walk fs [] (full_kcomps T name) with
  | Some l => match lookup fs l with Some (F _) => true | _ => false end
  | None => false
  end.

(* std::fs::create_dir_all: net effect = walk left to right, create what is missing, fail on a file
   (directories created before the failure stay); returns the new state and whether it succeeded *)
Fixpoint mkdir_p (fs : fsys) (cur : loc) (cs : list comp) : fsys * bool :=
  match cs with
  | [] => (fs, true)
  | CParent :: r => mkdir_p fs (removelast cur) r
  | CNormal s :: r =>
      match lookup fs (cur ++ [s]) with
      | Some (F _) => (fs, false)
      | Some D => mkdir_p fs (cur ++ [s]) r
      | None => mkdir_p (fs_set fs (cur ++ [s]) D) (cur ++ [s]) r
      end
  | CDot :: r => mkdir_p fs cur r
  end.

(* File::create(path) + write_all(content): the last raw segment names the entry in the directory the
   rest resolves to; a path that denotes a directory (last segment "", "." or "..", or an existing
   directory) fails with EISDIR / ENOENT *)
Definition create_file (fs : fsys) (T : loc) (name : str) (content : list N) : option fsys :=
  match rev (split_slash name) with
  | [] => None
  | last_seg :: init_rev =>
      match comp_of_seg last_seg with
      | [CNormal s] =>
          match stat_walk fs [] (base T name ++ flat_map kcomp_of_seg (rev init_rev)) with
          | Some p =>
              match lookup fs p, lookup fs (p ++ [s]) with
              | Some D, Some D => None
              | Some D, _ => Some (fs_set fs (p ++ [s]) (F content))
              | _, _ => None
              end
          | None => None
          end
      | _ => None
      end
  end.
(* reading a file back (used by the statements only) *)
Definition read_file (fs : fsys) (T : loc) (name : str) : option (list N) :=
  match stat_walk fs [] (full_kcomps T name) with
  | Some l => match lookup fs l with Some (F c) => Some c | _ => None end
  | None => None
  end.

(* ------------------------------------------------------------------ extract_to_dir *)
Record member := { m_name : str; m_symlink : bool; m_data : list N }.

Fixpoint assoc (k : str) (m : list (str * str)) : option str :=
  match m with
  | [] => None
  | (a, b) :: r => if str_eqb a k then Some b else assoc k r
  end.
Definition renamed (rn : list (str * str)) (name : str) : str :=
  match assoc name rn with Some n => n | None => name end.

(* the pre-filter: names whose (renamed) target is already a file inside the target dir are reported
   at once and not extracted again; returns (extracted so far, remaining filter) *)
Fixpoint prefilter (fs : fsys) (T : loc) (rn : list (str * str)) (files : list str) : list str * list str :=
  match files with
  | [] => ([], [])
  | f :: r =>
      let '(ex, keep) := prefilter fs T rn r in
      let n := renamed rn f in
      if enclosed n && path_is_file fs T n then (n :: ex, keep) else (ex, f :: keep)
  end.

Inductive outcome := Done (fs : fsys) (reported : list str) | Failed (fs : fsys).

(* the `for i in 0..zip_archive.len()` loop *)
Fixpoint extract_loop (fs : fsys) (T : loc) (filter : option (list str)) (rn : list (str * str))
         (ms : list member) (reported : list str) : outcome :=
  match ms with
  | [] => Done fs reported
  | m :: rest =>
      let name := m_name m in
      if negb (enclosed name) then extract_loop fs T filter rn rest reported
      else if match filter with Some fl => negb (existsb (str_eqb name) fl) | None => false end
      then extract_loop fs T filter rn rest reported
      else if is_dir_name name then
        match mkdir_p fs [] (full_comps T name) with
        | (fs1, true) => extract_loop fs1 T filter rn rest reported
        | (fs1, false) => Failed fs1
        end
      else if m_symlink m then extract_loop fs T filter rn rest reported
      else
        let new_name := renamed rn name in
        match mkdir_p fs [] (removelast (full_comps T new_name)) with
        | (fs1, true) =>
            match create_file fs1 T new_name (m_data m) with
            | Some fs2 => extract_loop fs2 T filter rn rest (reported ++ [new_name])
            | None => Failed fs1
            end
        | (fs1, false) => Failed fs1
        end
  end.

Definition extract_to_dir (fs : fsys) (T : loc) (filter : option (list str)) (rn : list (str * str))
           (ms : list member) : outcome :=
  match filter with
  | Some files =>
      let '(ex, keep) := prefilter fs T rn files in
      extract_loop fs T (Some keep) rn ms ex
  | None => extract_loop fs T None rn ms []
  end.

(* ------------------------------------------------------------------ extract_archives (selection) *)
(* entries = file_names() with the result of glob_pattern.matches(entry); pattern = glob_pattern.as_str();
   stem = file_stem of the archive path with the result of glob_pattern.matches(stem) *)
Definition c_data : str := [100; 97; 116; 97].
Definition matching (pattern : str) (entries : list (str * bool)) : list str :=
  map fst (filter (fun e => (str_eqb (fst e) pattern || snd e) && negb (ends_with_slash (fst e))) entries).
Definition select_members (pattern : str) (entries : list (str * bool)) (stem : str) (stem_matches : bool)
  : list str * list (str * str) :=
  match entries with
  | [(e, _)] =>
      if str_eqb e c_data then
        (* the single entry "data" of a .gz/.bz2: extracted under the archive's stem *)
        if str_eqb pattern c_data then ([c_data], [])
        else if str_eqb stem pattern || stem_matches then ([c_data], [(c_data, stem)])
        else ([], [])
      else (matching pattern entries, [])
  | _ => (matching pattern entries, [])
  end.

(* None: nothing matches, extract_archives returns the empty list without touching the disk *)
Definition extract_archives (fs : fsys) (T : loc) (pattern : str) (entries : list (str * bool))
           (stem : str) (stem_matches : bool) (ms : list member) : option outcome :=
  match select_members pattern entries stem stem_matches with
  | ([], _) => None
  | (mf, rn) => Some (extract_to_dir fs T (Some mf) rn ms)
  end.

(* the state the extraction starts in: the target directory T exists (with all its ancestors) and holds
   the given files/directories (locations relative to T) *)
Fixpoint prefixes {A} (l : list A) : list (list A) :=
  match l with [] => [[]] | x :: r => [] :: map (cons x) (prefixes r) end.
Definition init_fs (T : loc) (inside : list (loc * node)) : fsys :=
  map (fun e => (T ++ fst e, snd e)) inside ++ map (fun p => (p, D)) (prefixes T).

(* is [p] a prefix of [l], with at least one more component *)
Fixpoint strictly_inside (p l : loc) : bool :=
  match p, l with
  | [], _ :: _ => true
  | x :: p', y :: l' => str_eqb x y && strictly_inside p' l'
  | _, _ => false
  end.
