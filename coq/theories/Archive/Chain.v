(* C20, part 1 — model of /repo/src/utils/seekablechain.rs (SeekableChain) as it is coded now
   (i.e. including the three `fix:` commits: empty readers are dropped in `new`, `seek(End(n))` with n > 0
   goes through `seek_abs`, the offsets are negated with `unsigned_abs`), and the reference it is
   compared with: one cursor over the concatenation of the volumes.

   Inner readers (`RS: Read + Seek`) are modelled as random-access readers over a fixed byte string with
   the semantics of `std::io::Cursor<Vec<u8>>` / a regular file that nobody else writes to:
   `seek(Start(p))` sets the position, `seek(End(0))` returns the length, `read(buf)` delivers
   `min(buf.len(), len - pos)` bytes from the position and advances it; neither fails.
   (That is the trusted assumption about the volumes; the chain itself is transcribed line by line.)

   Integers: u64/usize/i64 values are N / Z.  The only arithmetic that can overflow is the sum of the
   volume sizes in `new` (`.sum()` panics in a debug build) — modelled with [add_chk]; every later
   `+=` is bounded by that sum (lemma [inv_abs_le] in ChainProofs.v), `pos -= *size` is guarded by the
   `else` of `pos < *size`, `saturating_*` are modelled as such.  No proofs in this file. *)
From Coq Require Import List NArith ZArith Bool.
From AdltV Require Import Base.Res Base.MachInt.
Import ListNotations.
Open Scope N_scope.

(* ------------------------------------------------------------------ inner reader *)
Record vol := { v_data : list N; v_pos : N }.

Definition vol_len (v : vol) : N := N.of_nat (length (v_data v)).
Definition vol_seek (p : N) (v : vol) : vol := {| v_data := v_data v; v_pos := p |}.
(* the bytes [from, from + n) of l, cut at the end of l *)
Definition slice (l : list N) (from n : N) : list N := firstn (N.to_nat n) (skipn (N.to_nat from) l).
(* `reader.read(&mut buf[..k])` *)
Definition vol_read (k : N) (v : vol) : list N * vol :=
  let out := slice (v_data v) (v_pos v) k in
  (out, {| v_data := v_data v; v_pos := v_pos v + N.of_nat (length out) |}).

(* ------------------------------------------------------------------ SeekableChain *)
Record chain := {
  c_vols : list (N * vol);   (* chain: Vec<(u64, RS)> *)
  c_max : N;                 (* max_pos *)
  c_abs : N;                 (* abs_pos *)
  c_idx : N;                 (* cur_idx *)
  c_rel : N                  (* rel_pos *)
}.

Fixpoint sum_chk (l : list N) (acc : N) : res N :=
  match l with
  | [] => Ok acc
  | x :: r => match add_chk u64max acc x with Ok a => sum_chk r a | Panic s => Panic s | OutOfFuel => OutOfFuel end
  end.

(* SeekableChain::new: size := seek(End(0)); seek(Start(0)); drop the readers of size 0; max_pos := sum *)
Definition open_vol (d : list N) : N * vol :=
  let r := {| v_data := d; v_pos := 0 |} in (vol_len r, vol_seek 0 r).
Definition chain_new (datas : list (list N)) : res chain :=
  let vs := filter (fun sv => 0 <? fst sv) (map open_vol datas) in
  match sum_chk (map fst vs) 0 with
  | Ok m => Ok {| c_vols := vs; c_max := m; c_abs := 0; c_idx := 0; c_rel := 0 |}
  | Panic s => Panic s
  | OutOfFuel => OutOfFuel
  end.

(* the `for (size, reader) in &mut self.chain` loop of seek_abs;
   returns (chain', abs_pos, cur_idx, rel_pos) *)
Fixpoint seek_walk (vs : list (N * vol)) (pos abs idx : N) : list (N * vol) * N * N * N :=
  match vs with
  | [] => ([], abs, idx, 0)
  | (size, r) :: rest =>
      if pos <? size then ((size, vol_seek pos r) :: rest, abs + pos, idx, pos)
      else
        match seek_walk rest (pos - size) (abs + size) (idx + 1) with
        | (rest', a, i, rl) => ((size, r) :: rest', a, i, rl)
        end
  end.

Definition seek_abs (c : chain) (pos : N) : chain * N :=
  if c_abs c =? pos then (c, pos)
  else if c_max c <=? pos then
    ({| c_vols := c_vols c; c_max := c_max c; c_abs := c_max c;
        c_idx := N.of_nat (length (c_vols c)) + 1; c_rel := 0 |}, c_max c)
  else
    match seek_walk (c_vols c) pos 0 0 with
    | (vs, a, i, rl) =>
        ({| c_vols := vs; c_max := c_max c; c_abs := a; c_idx := i; c_rel := rl |}, a)
    end.

Fixpoint upd_nth {A} (i : nat) (x : A) (l : list A) : list A :=
  match l, i with
  | [], _ => []
  | _ :: r, O => x :: r
  | y :: r, S j => y :: upd_nth j x r
  end.

(* <SeekableChain as Read>::read with buf.len() = n; returns the bytes put into buf[..read] *)
Definition chain_read (c : chain) (n : N) : chain * list N :=
  if N.of_nat (length (c_vols c)) <=? c_idx c then (c, [])
  else
    match nth_error (c_vols c) (N.to_nat (c_idx c)) with
    | None => (c, [])   (* unreachable: the index was checked *)
    | Some (size, r) =>
        let r1 := if c_rel c =? 0 then vol_seek 0 r else r in
        let max_read := N.min (sat_sub size (c_rel c)) n in
        let '(out, r2) := vol_read max_read r1 in
        let k := N.of_nat (length out) in
        let rel := c_rel c + k in
        let abs := c_abs c + k in
        let vs := upd_nth (N.to_nat (c_idx c)) (size, r2) (c_vols c) in
        if size <=? rel
        then ({| c_vols := vs; c_max := c_max c; c_abs := abs; c_idx := c_idx c + 1; c_rel := 0 |}, out)
        else ({| c_vols := vs; c_max := c_max c; c_abs := abs; c_idx := c_idx c; c_rel := rel |}, out)
    end.

Definition sat_add64 (a b : N) : N := N.min (a + b) u64max.

(* <SeekableChain as Seek>::seek *)
Inductive seek_from := Start (o : N) | Current (o : Z) | End (o : Z).

Definition chain_seek (c : chain) (s : seek_from) : chain * N :=
  match s with
  | Start o => seek_abs c o
  | Current o =>
      let new_pos := if (o <? 0)%Z then sat_sub (c_abs c) (Z.abs_N o) else sat_add64 (c_abs c) (Z.to_N o) in
      seek_abs c new_pos
  | End o =>
      if (o <=? 0)%Z then seek_abs c (sat_sub (c_max c) (Z.abs_N o))
      else seek_abs c (sat_add64 (c_max c) (Z.to_N o))
  end.

(* The standard way a caller fills a buffer of n bytes from a `Read` (read_exact / read_to_end /
   io::copy / `take(n)`): call `read` on the unfilled rest until it is full or `read` returns 0.
   Every call either fills the request, or exhausts the current volume, or is at the end, so
   `length chain + 1` calls always suffice: the fuel never runs out (proved). *)
Fixpoint read_full_loop (fuel : nat) (c : chain) (n : N) (acc : list N) : res (chain * list N) :=
  if n =? 0 then Ok (c, acc)
  else
    match fuel with
    | O => OutOfFuel
    | S f =>
        let '(c1, out) := chain_read c n in
        match out with
        | [] => Ok (c1, acc)
        | _ => read_full_loop f c1 (n - N.of_nat (length out)) (acc ++ out)
        end
    end.
Definition read_full (c : chain) (n : N) : res (chain * list N) :=
  read_full_loop (S (S (length (c_vols c)))) c n [].

(* ------------------------------------------------------------------ operations and traces *)
Inductive op :=
| Read (n : N)          (* one call of read with a buffer of n bytes *)
| ReadFull (n : N)      (* fill n bytes or stop at the first read that returns 0 *)
| Seek (s : seek_from).

Inductive opres :=
| RBytes (bs : list N)  (* the bytes delivered (count = length) *)
| RPos (p : N).         (* Ok(position) returned by seek *)

Definition chain_step (c : chain) (o : op) : res (chain * opres) :=
  match o with
  | Read n => let '(c1, out) := chain_read c n in Ok (c1, RBytes out)
  | ReadFull n =>
      match read_full c n with
      | Ok (c1, out) => Ok (c1, RBytes out)
      | Panic s => Panic s
      | OutOfFuel => OutOfFuel
      end
  | Seek s => let '(c1, p) := chain_seek c s in Ok (c1, RPos p)
  end.

Fixpoint chain_run (c : chain) (ops : list op) : res (list opres) :=
  match ops with
  | [] => Ok []
  | o :: rest =>
      match chain_step c o with
      | Ok (c1, r) =>
          match chain_run c1 rest with
          | Ok rs => Ok (r :: rs)
          | Panic s => Panic s
          | OutOfFuel => OutOfFuel
          end
      | Panic s => Panic s
      | OutOfFuel => OutOfFuel
      end
  end.

(* open the volumes and run the operations *)
Definition chain_session (datas : list (list N)) (ops : list op) : res (list opres) :=
  match chain_new datas with
  | Ok c => chain_run c ops
  | Panic s => Panic s
  | OutOfFuel => OutOfFuel
  end.

(* ------------------------------------------------------------------ the reference: one file *)
(* A single file holding [data], position [p].  The target of a seek is computed like a file does
   (Start: o, Current: p + o, End: len + o) and then CLAMPED into [0, len]: SeekableChain documents by
   its code (`saturating_sub`, `if pos >= self.max_pos`) that it never reports or keeps a position
   outside the data; for every target inside [0, len] this is exactly `std::io::Cursor` / a file
   ([file_step] below, theorem C20_reference_is_file_in_range). *)
Definition target (len p : N) (s : seek_from) : Z :=
  match s with
  | Start o => Z.of_N o
  | Current o => Z.of_N p + o
  | End o => Z.of_N len + o
  end%Z.
Definition clamp (len : N) (t : Z) : N := N.min (Z.to_N t) len.

Definition ref_seek (data : list N) (p : N) (s : seek_from) : N :=
  clamp (N.of_nat (length data)) (target (N.of_nat (length data)) p s).

(* [Refines data p ops rs]: rs is what a single file with contents [data] at position [p] may answer
   to [ops].  `read` is allowed to be short (the `Read` contract), but never empty unless the buffer is
   empty or the position is at the end; ReadFull and Seek are deterministic. *)
Inductive Refines (data : list N) : N -> list op -> list opres -> Prop :=
| Rf_nil p : Refines data p [] []
| Rf_read p n out ops rs :
    out = slice data p (N.of_nat (length out)) ->
    N.of_nat (length out) <= n ->
    (out = [] -> n = 0 \/ N.of_nat (length data) <= p) ->
    Refines data (p + N.of_nat (length out)) ops rs ->
    Refines data p (Read n :: ops) (RBytes out :: rs)
| Rf_full p n ops rs :
    Refines data (p + N.of_nat (length (slice data p n))) ops rs ->
    Refines data p (ReadFull n :: ops) (RBytes (slice data p n) :: rs)
| Rf_seek p s ops rs :
    Refines data (ref_seek data p s) ops rs ->
    Refines data p (Seek s :: ops) (RPos (ref_seek data p s) :: rs).

Definition full_reads_only (ops : list op) : Prop :=
  Forall (fun o => match o with Read _ => False | _ => True end) ops.

(* the deterministic reference for traces without single `read` calls (and for `Read n` when the
   file answers in full, as Cursor does) *)
Fixpoint ref_run (data : list N) (p : N) (ops : list op) : list opres :=
  match ops with
  | [] => []
  | Read n :: rest | ReadFull n :: rest =>
      let out := slice data p n in RBytes out :: ref_run data (p + N.of_nat (length out)) rest
  | Seek s :: rest => let q := ref_seek data p s in RPos q :: ref_run data q rest
  end.

(* std::io::Cursor / a regular file, unclamped: a negative target is an error and does not move,
   a target beyond the end is kept and reads deliver nothing there. *)
Inductive fileres := FBytes (bs : list N) | FPos (p : N) | FErr.
Fixpoint file_run (data : list N) (p : N) (ops : list op) : list fileres :=
  match ops with
  | [] => []
  | Read n :: rest | ReadFull n :: rest =>
      let out := slice data p n in FBytes out :: file_run data (p + N.of_nat (length out)) rest
  | Seek s :: rest =>
      let t := target (N.of_nat (length data)) p s in
      if (t <? 0)%Z then FErr :: file_run data p rest
      else FPos (Z.to_N t) :: file_run data (Z.to_N t) rest
  end.
(* all seek targets of the run lie inside [0, len] *)
Fixpoint in_range (data : list N) (p : N) (ops : list op) : Prop :=
  match ops with
  | [] => True
  | Read n :: rest | ReadFull n :: rest => in_range data (p + N.of_nat (length (slice data p n))) rest
  | Seek s :: rest =>
      let t := target (N.of_nat (length data)) p s in
      (0 <= t <= Z.of_N (N.of_nat (length data)))%Z /\ in_range data (Z.to_N t) rest
  end.
Definition res_of_file (r : fileres) : option opres :=
  match r with FBytes b => Some (RBytes b) | FPos p => Some (RPos p) | FErr => None end.
