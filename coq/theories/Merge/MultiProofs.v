(* Proofs about Merge/Multi.v *)
From Coq Require Import List NArith Bool Lia Permutation Sorted Arith.
From AdltV Require Import Base.Res Base.MachInt Merge.Multi.
Import ListNotations.
Open Scope N_scope.

Section Proofs.
  Context {A : Type}.
  Variable rt : A -> N.
  Variable set_index : N -> A -> A.
  Variable get_index : A -> N.
  Hypothesis rt_set : forall i m, rt (set_index i m) = rt m.
  Hypothesis get_set : forall i m, get_index (set_index i m) = i.

  Notation heap := (@heap A).
  Notation next := (next rt set_index).
  Notation Run := (Run rt set_index).
  Notation new_heap := (@new_heap A).

  Definition contents (h : heap) : list A := flat_map (fun e => fst e :: snd e) h.

  Lemma contents_app h1 h2 : contents (h1 ++ h2) = contents h1 ++ contents h2.
  Proof. unfold contents. apply flat_map_app. Qed.

  Lemma contents_push h it : contents (push_next h it) = contents h ++ it.
  Proof.
    destruct it as [|m r]; cbn [push_next]; [rewrite app_nil_r; reflexivity|].
    rewrite contents_app. cbn. rewrite app_nil_r. reflexivity.
  Qed.

  Definition one (it : list A) : heap := match it with [] => [] | m :: r => [(m, r)] end.

  Lemma fold_push its : forall h, fold_left push_next its h = h ++ flat_map one its.
  Proof.
    induction its as [|it r IH]; intros h; cbn [fold_left flat_map]; [rewrite app_nil_r; reflexivity|].
    rewrite IH. destruct it as [|m t]; cbn [push_next one]; [reflexivity|].
    rewrite <- app_assoc. reflexivity.
  Qed.

  Lemma new_heap_flat its : new_heap its = flat_map one its.
  Proof. unfold Multi.new_heap. rewrite fold_push. reflexivity. Qed.

  Lemma contents_new_heap its : contents (new_heap its) = concat its.
  Proof.
    rewrite new_heap_flat. induction its as [|it r IH]; cbn [flat_map concat]; [reflexivity|].
    rewrite contents_app, IH. destruct it; cbn; [reflexivity|rewrite app_nil_r; reflexivity].
  Qed.

  Lemma remove_nth_split (l1 l2 : heap) e : remove_nth (length l1) (l1 ++ e :: l2) = l1 ++ l2.
  Proof.
    unfold remove_nth. rewrite firstn_app, Nat.sub_diag, firstn_all. cbn [firstn]. rewrite app_nil_r.
    replace (S (length l1)) with (length (l1 ++ [e])) by (rewrite app_length; cbn; lia).
    replace (l1 ++ e :: l2) with ((l1 ++ [e]) ++ l2) by (rewrite <- app_assoc; reflexivity).
    rewrite skipn_app, Nat.sub_diag, skipn_all. reflexivity.
  Qed.

  (* inversion of one step of the iterator *)
  Lemma next_some k idx h m' st' :
    next k idx h = Ok (Some (m', st')) ->
    exists l1 m it l2,
      h = l1 ++ (m, it) :: l2 /\ length l1 = k /\ is_min rt h (m, it) = true /\
      m' = set_index idx m /\ idx + 1 <= u32max /\ st' = (idx + 1, push_next (l1 ++ l2) it).
  Proof.
    unfold Multi.next. destruct h as [|e0 h0]; [discriminate|].
    set (h := e0 :: h0). unfold pop.
    destruct (nth_error h k) as [[m it]|] eqn:En; [|discriminate].
    destruct (is_min rt h (m, it)) eqn:Em; [|discriminate].
    unfold add_chk. destruct (idx + 1 <=? u32max) eqn:Ei; [|discriminate].
    intros H. inversion H; subst m' st'.
    apply nth_error_split in En. destruct En as [l1 [l2 [Hh Hl]]].
    exists l1, m, it, l2. rewrite Hh. subst k. rewrite remove_nth_split.
    repeat split; try reflexivity. rewrite <- Hh. exact Em. apply N.leb_le. exact Ei.
  Qed.

  (* ---------- permutation (for any projection that ignores the index) ---------- *)
  Section Perm.
    Context {B : Type} (f : A -> B).
    Hypothesis f_set : forall i m, f (set_index i m) = f m.

    Lemma run_perm_gen idx h out : Run idx h out -> Permutation (map f out) (map f (contents h)).
    Proof.
      induction 1 as [idx|idx h k m st' out Hn _ IH]; [constructor|].
      apply next_some in Hn. destruct Hn as [l1 [m0 [it [l2 [Hh [_ [_ [Hm [_ Hst]]]]]]]]].
      subst st' m h. cbn [fst snd] in IH.
      rewrite contents_push, contents_app in IH.
      rewrite contents_app. cbn [contents flat_map]. fold (contents l2).
      cbn [map]. rewrite f_set.
      rewrite !map_app in *. cbn [map app].
      eapply Permutation_trans; [apply perm_skip; exact IH|].
      rewrite <- app_assoc.
      eapply Permutation_trans; [|apply Permutation_middle].
      apply perm_skip. apply Permutation_app_head.
      cbn [snd]. apply Permutation_app_comm.
    Qed.
  End Perm.

  (* ---------- consecutive numbering ---------- *)
  Fixpoint nseq (start : N) (len : nat) : list N :=
    match len with O => [] | S n => start :: nseq (start + 1) n end.

  Lemma run_indices idx h out : Run idx h out -> map get_index out = nseq idx (length out).
  Proof.
    induction 1 as [idx|idx h k m st' out Hn _ IH]; [reflexivity|].
    apply next_some in Hn. destruct Hn as [l1 [m0 [it [l2 [_ [_ [_ [Hm [_ Hst]]]]]]]]].
    subst st' m. cbn [fst] in IH. cbn [map length nseq]. rewrite get_set, IH. reflexivity.
  Qed.

  Lemma run_index_bound idx h out : Run idx h out -> idx + N.of_nat (length out) <= u32max \/ out = [].
  Proof.
    induction 1 as [idx|idx h k m st' out Hn _ IH]; [right; reflexivity|left].
    apply next_some in Hn. destruct Hn as [l1 [m0 [it [l2 [_ [_ [_ [_ [Hb Hst]]]]]]]]].
    subst st'. cbn [fst] in IH. cbn [length]. destruct IH as [IH|IH]; [lia|subst out; cbn; lia].
  Qed.

  (* ---------- per-source order ---------- *)
  Section Order.
    Variable src : A -> nat.
    Hypothesis src_set : forall i m, src (set_index i m) = src m.
    Context {B : Type} (strip : A -> B).
    Hypothesis strip_set : forall i m, strip (set_index i m) = strip m.

    Definition esrc (e : entry) : nat := src (fst e).
    Definition Homog (e : entry) : Prop := Forall (fun x => src x = esrc e) (snd e).
    Definition Tagged (h : heap) : Prop := NoDup (map esrc h) /\ Forall Homog h.

    Definition F (i : nat) (l : list A) : list B := map strip (filter (fun x => Nat.eqb (src x) i) l).

    Lemma F_app i l1 l2 : F i (l1 ++ l2) = F i l1 ++ F i l2.
    Proof. unfold F. rewrite filter_app, map_app. reflexivity. Qed.

    Lemma F_all i l : Forall (fun x => src x = i) l -> F i l = map strip l.
    Proof.
      unfold F. induction 1 as [|x l Hx _ IH]; [reflexivity|]. cbn [filter].
      rewrite Hx, Nat.eqb_refl. cbn [map]. rewrite IH. reflexivity.
    Qed.

    Lemma F_none i l : Forall (fun x => src x <> i) l -> F i l = [].
    Proof.
      unfold F. induction 1 as [|x l Hx _ IH]; [reflexivity|]. cbn [filter].
      apply Nat.eqb_neq in Hx. rewrite Hx. exact IH.
    Qed.

    Lemma F_contents_none i (h : heap) :
      Forall Homog h -> ~ In i (map esrc h) -> F i (contents h) = [].
    Proof.
      induction 1 as [|e h He _ IH]; intros Hn; [reflexivity|].
      cbn [contents flat_map]. fold (contents h). cbn [map In] in Hn.
      change (fst e :: snd e ++ contents h) with ((fst e :: snd e) ++ contents h).
      rewrite F_app, IH by tauto. rewrite app_nil_r. apply F_none.
      constructor; [unfold esrc in Hn; intros E; apply Hn; left; exact E|].
      eapply Forall_impl; [|exact He]. cbn. intros x Hx E. apply Hn. left. congruence.
    Qed.

    Lemma Tagged_step l1 m it l2 :
      Tagged (l1 ++ (m, it) :: l2) -> Tagged (push_next (l1 ++ l2) it).
    Proof.
      intros [Hnd Hh]. rewrite map_app in Hnd. cbn [map] in Hnd.
      pose proof (NoDup_remove_1 _ _ _ Hnd) as Hnd'.
      pose proof (NoDup_remove_2 _ _ _ Hnd) as Hni.
      apply Forall_app in Hh. destruct Hh as [Hh1 Hh2]. inversion Hh2 as [|e l He Hh2' Eq]; subst.
      assert (Hh' : Forall Homog (l1 ++ l2)) by (apply Forall_app; split; assumption).
      destruct it as [|m2 r]; cbn [push_next]; unfold Tagged.
      - rewrite map_app. split; assumption.
      - unfold Homog, esrc in He. cbn [fst snd] in He. inversion He as [|x l Hm2 Hr Eq]; subst.
        split.
        + rewrite map_app. cbn [map]. unfold esrc at 2. cbn [fst]. rewrite Hm2.
          apply (Permutation_NoDup (l := src m :: map esrc (l1 ++ l2))).
          * apply Permutation_cons_append.
          * constructor; [rewrite map_app; exact Hni | rewrite map_app; exact Hnd'].
        + apply Forall_app. split; [exact Hh'|]. constructor; [|constructor].
          unfold Homog, esrc. cbn [fst snd]. eapply Forall_impl; [|exact Hr]. cbn. intros; congruence.
    Qed.

    Lemma run_order i idx h out : Run idx h out -> Tagged h -> F i out = F i (contents h).
    Proof.
      induction 1 as [idx|idx h k m st' out Hn _ IH]; intros Ht; [reflexivity|].
      apply next_some in Hn. destruct Hn as [l1 [m0 [it [l2 [Hh [_ [_ [Hm [_ Hst]]]]]]]]].
      subst st' m h. cbn [fst snd] in IH.
      specialize (IH (Tagged_step _ _ _ _ Ht)).
      rewrite contents_push, contents_app, !F_app in IH.
      rewrite contents_app. cbn [contents flat_map]. fold (contents l2).
      change ((fst (m0, it) :: snd (m0, it)) ++ contents l2) with ((m0 :: it) ++ contents l2).
      rewrite !F_app.
      destruct Ht as [Hnd Hh]. rewrite map_app in Hnd. cbn [map] in Hnd.
      pose proof (NoDup_remove_2 _ _ _ Hnd) as Hni.
      apply Forall_app in Hh. destruct Hh as [Hh1 Hh2]. inversion Hh2 as [|e l He Hh2' Eq]; subst.
      unfold Homog, esrc in He. cbn [fst snd] in He. unfold esrc at 1 in Hni. cbn [fst] in Hni.
      destruct (Nat.eq_dec (src m0) i) as [E|E].
      - subst i.
        rewrite (F_contents_none _ l1 Hh1), (F_contents_none _ l2 Hh2') in * by
          (intros Hin; apply Hni; apply in_or_app; tauto).
        cbn [app] in *. rewrite app_nil_r.
        unfold F at 1. cbn [filter]. rewrite src_set, Nat.eqb_refl. cbn [map]. rewrite strip_set.
        fold (F (src m0) out). rewrite IH.
        unfold F at 2. cbn [filter]. rewrite Nat.eqb_refl. cbn [map]. reflexivity.
      - assert (Hit : F i it = []) by (apply F_none; eapply Forall_impl; [|exact He]; cbn; intros; congruence).
        assert (Hmit : F i (m0 :: it) = []) by
          (apply F_none; constructor; [exact E|eapply Forall_impl; [|exact He]; cbn; intros; congruence]).
        rewrite Hit in IH. rewrite Hmit. rewrite app_nil_r in IH. cbn [app].
        unfold F at 1. cbn [filter]. rewrite src_set. apply Nat.eqb_neq in E. rewrite E.
        exact IH.
    Qed.

    (* sources tagged k, k+1, ... *)
    Fixpoint its_tagged (k : nat) (its : list (list A)) : Prop :=
      match its with
      | [] => True
      | it :: r => Forall (fun x => src x = k) it /\ its_tagged (S k) r
      end.

    Lemma tagged_flat its : forall k, its_tagged k its ->
      Tagged (flat_map one its) /\ Forall (fun e => (k <= esrc e)%nat) (flat_map one its).
    Proof.
      induction its as [|it r IH]; intros k Hk; cbn [flat_map].
      - split; [split; constructor|constructor].
      - destruct Hk as [Hit Hr]. destruct (IH _ Hr) as [[Hnd Hh] Hge].
        assert (Hge' : Forall (fun e => (k <= esrc e)%nat) (flat_map one r))
          by (eapply Forall_impl; [|exact Hge]; cbn; intros; lia).
        destruct it as [|m t]; cbn [one app]; [split; [split|]; assumption|].
        inversion Hit as [|x l Hm Ht Eq]; subst.
        split; [split|].
        + cbn [map]. constructor; [|exact Hnd].
          intros Hin. apply in_map_iff in Hin. destruct Hin as [e [He Hin]].
          rewrite Forall_forall in Hge. specialize (Hge _ Hin). unfold esrc in *. cbn [fst] in *. lia.
        + constructor; [|exact Hh]. unfold Homog, esrc. cbn [fst snd]. exact Ht.
        + constructor; [unfold esrc; cbn [fst]; lia|exact Hge'].
    Qed.

    Lemma F_concat_lt its : forall k i, its_tagged k its -> (i < k)%nat -> F i (concat its) = [].
    Proof.
      induction its as [|it r IH]; intros k i Hk Hi; cbn [concat]; [reflexivity|].
      destruct Hk as [Hit Hr]. rewrite F_app, (IH (S k)) by (auto; lia). rewrite app_nil_r.
      apply F_none. eapply Forall_impl; [|exact Hit]. cbn. intros; lia.
    Qed.

    Lemma F_concat_nth its : forall k j, its_tagged k its ->
      F (k + j) (concat its) = map strip (nth j its []).
    Proof.
      induction its as [|it r IH]; intros k j Hk; cbn [concat].
      - destruct j; reflexivity.
      - destruct Hk as [Hit Hr]. rewrite F_app. destruct j as [|j].
        + rewrite Nat.add_0_r. rewrite (F_concat_lt r (S k)) by (auto; lia).
          rewrite app_nil_r. cbn [nth]. apply F_all. exact Hit.
        + cbn [nth]. replace (k + S j)%nat with (S k + j)%nat by lia. rewrite IH by exact Hr.
          rewrite F_none; [reflexivity|]. eapply Forall_impl; [|exact Hit]. cbn. intros; lia.
    Qed.

    Theorem merge_keeps_source_order_gen start its out j :
      its_tagged 0 its -> Run start (new_heap its) out ->
      F j out = map strip (nth j its []).
    Proof.
      intros Ht Hr. rewrite (run_order j _ _ _ Hr).
      - rewrite contents_new_heap. apply (F_concat_nth its 0 j Ht).
      - rewrite new_heap_flat. apply (tagged_flat its 0 Ht).
    Qed.
  End Order.

  (* ---------- sortedness ---------- *)
  Definition sorted_rt (l : list A) : Prop := StronglySorted N.le (map rt l).
  Definition HeapSorted (h : heap) : Prop := Forall (fun e => sorted_rt (fst e :: snd e)) h.

  Lemma HeapSorted_step l1 m it l2 :
    HeapSorted (l1 ++ (m, it) :: l2) -> HeapSorted (push_next (l1 ++ l2) it).
  Proof.
    unfold HeapSorted. intros H. apply Forall_app in H. destruct H as [H1 H2].
    inversion H2 as [|e l He H2' Eq]; subst. cbn [fst snd] in He.
    assert (H12 : Forall (fun e => sorted_rt (fst e :: snd e)) (l1 ++ l2)) by (apply Forall_app; split; assumption).
    destruct it as [|m2 r]; cbn [push_next]; [exact H12|].
    apply Forall_app. split; [exact H12|]. constructor; [|constructor]. cbn [fst snd].
    unfold sorted_rt in *. cbn [map] in *. inversion He; assumption.
  Qed.

  Lemma min_le_contents (h : heap) e :
    HeapSorted h -> is_min rt h e = true -> Forall (fun x => rt (fst e) <= rt x) (contents h).
  Proof.
    unfold is_min. intros Hs Hm. rewrite forallb_forall in Hm.
    unfold contents. apply Forall_forall. intros x Hx. apply in_flat_map in Hx.
    destruct Hx as [e' [He' Hx]]. specialize (Hm _ He'). apply N.leb_le in Hm.
    unfold HeapSorted in Hs. rewrite Forall_forall in Hs. specialize (Hs _ He').
    unfold sorted_rt in Hs. cbn [map] in Hs. inversion Hs as [|a l _ Hall Eq]; subst.
    destruct Hx as [Hx|Hx]; [subst x; exact Hm|].
    rewrite Forall_forall in Hall. specialize (Hall (rt x) (in_map rt _ _ Hx)). eapply N.le_trans; [exact Hm|exact Hall].
  Qed.

  Lemma run_sorted idx h out : Run idx h out -> HeapSorted h -> sorted_rt out.
  Proof.
    induction 1 as [idx|idx h k m st' out Hn Hrun IH]; intros Hs; [constructor|].
    pose proof Hn as Hn'.
    apply next_some in Hn. destruct Hn as [l1 [m0 [it [l2 [Hh [_ [Hmin [Hm [_ Hst]]]]]]]]].
    subst st' m. cbn [fst snd] in IH, Hrun.
    assert (Hs' : HeapSorted (push_next (l1 ++ l2) it)) by (subst h; eapply HeapSorted_step; exact Hs).
    unfold sorted_rt. cbn [map]. constructor; [apply IH; exact Hs'|].
    rewrite rt_set.
    pose proof (min_le_contents h (m0, it) Hs Hmin) as Hle. cbn [fst] in Hle.
    pose proof (run_perm_gen rt rt_set _ _ _ Hrun) as Hp.
    apply Forall_forall. intros t Ht.
    apply (Permutation_in _ Hp) in Ht. apply in_map_iff in Ht. destruct Ht as [x [Hx Hin]]. subst t.
    rewrite Forall_forall in Hle. apply Hle.
    subst h. rewrite contents_push, contents_app in Hin. rewrite contents_app.
    cbn [contents flat_map]. fold (contents l2). cbn [fst snd].
    apply in_app_or in Hin. destruct Hin as [Hin|Hin].
    - apply in_app_or in Hin. apply in_or_app. destruct Hin as [Hin|Hin]; [left; exact Hin|].
      right. right. apply in_or_app. right. exact Hin.
    - apply in_or_app. right. right. apply in_or_app. left. exact Hin.
  Qed.

  Lemma HeapSorted_new its : Forall sorted_rt its -> HeapSorted (new_heap its).
  Proof.
    rewrite new_heap_flat. induction 1 as [|it r Hit _ IH]; cbn [flat_map]; [constructor|].
    unfold HeapSorted. apply Forall_app. split; [|exact IH].
    destruct it; cbn [one]; constructor; [exact Hit|constructor].
  Qed.

  (* ---------- the executable run is a run, and exists when the index does not overflow ---------- *)
  Lemma first_min_spec (all : heap) : forall (h : heap) k,
      (exists e, In e h /\ is_min rt all e = true) ->
      exists e, nth_error h (first_min_from rt h all k - k) = Some e /\ is_min rt all e = true /\ (k <= first_min_from rt h all k)%nat.
  Proof.
    induction h as [|e r IH]; intros k [e0 [Hin Hm]]; [destruct Hin|].
    cbn [first_min_from]. destruct (is_min rt all e) eqn:Ee.
    - exists e. rewrite Nat.sub_diag. cbn. auto.
    - destruct Hin as [Hin|Hin]; [subst e0; congruence|].
      destruct (IH (S k) (ex_intro _ e0 (conj Hin Hm))) as [e1 [Hn [Hm1 Hle]]].
      exists e1. split; [|split; [exact Hm1|lia]].
      replace (first_min_from rt r all (S k) - k)%nat with (S (first_min_from rt r all (S k) - S k)) by lia.
      exact Hn.
  Qed.

  Lemma exists_min (h : heap) : h <> [] -> exists e, In e h /\ is_min rt h e = true.
  Proof.
    induction h as [|e r IH]; intros Hne; [congruence|].
    destruct r as [|e2 r'].
    - exists e. split; [left; reflexivity|]. unfold is_min. cbn. rewrite N.leb_refl. reflexivity.
    - destruct IH as [e1 [Hin Hm]]; [discriminate|].
      unfold is_min in *. rewrite forallb_forall in Hm.
      destruct (rt (fst e) <=? rt (fst e1)) eqn:Ec.
      + exists e. split; [left; reflexivity|]. apply forallb_forall. intros x Hx. apply N.leb_le.
        apply N.leb_le in Ec. destruct Hx as [Hx|Hx]; [subst x; apply N.le_refl|].
        specialize (Hm x Hx). apply N.leb_le in Hm. eapply N.le_trans; eassumption.
      + exists e1. split; [right; exact Hin|]. apply forallb_forall. intros x Hx. apply N.leb_le.
        apply N.leb_gt in Ec. destruct Hx as [Hx|Hx]; [subst x; apply N.lt_le_incl; exact Ec|].
        specialize (Hm x Hx). apply N.leb_le in Hm. exact Hm.
  Qed.

  Definition hsize (h : heap) : nat := length (contents h).

  Lemma run_first_ok : forall fuel idx h,
      hsize h = fuel -> idx + N.of_nat fuel <= u32max ->
      exists out, run_first rt set_index fuel idx h = Ok out /\ Run idx h out.
  Proof.
    induction fuel as [|f IH]; intros idx h Hsz Hb.
    - destruct h as [|e r]; [exists []; split; [reflexivity|constructor]|]. cbn in Hsz. discriminate.
    - destruct h as [|e0 h0] eqn:Eh; [cbn in Hsz; discriminate|]. rewrite <- Eh in *.
      assert (Hne : h <> []) by (rewrite Eh; discriminate).
      destruct (first_min_spec h h 0 (exists_min h Hne)) as [[m it] [Hn [Hm _]]].
      rewrite Nat.sub_0_r in Hn. set (k := first_min_from rt h h 0) in *.
      pose proof Hn as Hsplit. apply nth_error_split in Hsplit. destruct Hsplit as [l1 [l2 [Hh Hl]]].
      assert (Hnext : next k idx h = Ok (Some (set_index idx m, (idx + 1, push_next (l1 ++ l2) it)))).
      { unfold Multi.next. rewrite Eh. rewrite <- Eh. unfold pop. rewrite Hn, Hm.
        unfold add_chk. destruct (idx + 1 <=? u32max) eqn:Ei; [|apply N.leb_gt in Ei; lia].
        rewrite Hh at 1. rewrite <- Hl, remove_nth_split. reflexivity. }
      destruct (IH (idx + 1) (push_next (l1 ++ l2) it)) as [out [Ho Hr]].
      + unfold hsize in *. rewrite contents_push, app_length, contents_app, app_length.
        rewrite Hh, contents_app, app_length in Hsz. cbn [contents flat_map length] in Hsz.
        fold (contents l2) in Hsz. rewrite app_length in Hsz. cbn [fst snd] in Hsz. cbn [length] in Hsz. lia.
      + lia.
      + exists (set_index idx m :: out). split.
        * cbn [run_first]. fold k. rewrite Hnext, Ho. reflexivity.
        * eapply Run_pop; [exact Hnext|exact Hr].
  Qed.

  (* ---------- acceptor soundness ---------- *)
  Section Accept.
    Variable same_msg : A -> A -> bool.
    Hypothesis same_msg_eq : forall a b, same_msg a b = true -> a = b.

    Lemma accepts_sound obs : forall idx h, accepts rt set_index same_msg idx h obs = true -> Run idx h obs.
    Proof.
      induction obs as [|o obs IH]; intros idx h H; cbn [accepts] in H.
      - destruct h; [constructor|discriminate].
      - destruct (find_entry set_index same_msg h idx o 0) as [k|]; [|discriminate].
        destruct (next k idx h) as [[[m [idx' h']]|]| |] eqn:En; try discriminate.
        apply andb_true_iff in H. destruct H as [H1 H2]. apply same_msg_eq in H1. subst o.
        eapply Run_pop; [exact En|]. apply IH. exact H2.
    Qed.
  End Accept.

  (* ---------- sequential chaining ---------- *)
  Notation seq_next := (seq_next set_index).
  Notation seq_drain := (seq_drain set_index).
  Notation number := (number set_index).

  Lemma seq_next_skip : forall its fuel idx,
      (S (length its) <= fuel)%nat -> Forall (fun it => it = []) its ->
      seq_next fuel {| s_index := idx; s_its := its; s_cur := Some [] |} =
      Ok (None, {| s_index := idx; s_its := []; s_cur := None |}).
  Proof.
    induction its as [|it r IH]; intros fuel idx Hf Hall; destruct fuel as [|f]; cbn in Hf; try lia.
    - cbn. destruct f; reflexivity.
    - inversion Hall as [|x l Hit Hr Eq]; subst. cbn [Multi.seq_next s_cur s_its s_index].
      apply IH; [lia|exact Hr].
  Qed.

  Definition cur_list (s : @seqst A) : list A := match s_cur s with Some c => c | None => [] end.
  Definition remaining (s : @seqst A) : list A := cur_list s ++ concat (s_its s).

  (* one call of next: yields the first remaining message, numbered, or None when nothing remains *)
  Lemma seq_next_spec : forall its fuel idx cur,
      (S (length its) <= fuel)%nat ->
      let s := {| s_index := idx; s_its := its; s_cur := Some cur |} in
      match remaining s with
      | [] => exists s', seq_next fuel s = Ok (None, s') /\ remaining s' = []
      | m :: r => idx + 1 <= u32max ->
                  exists s', seq_next fuel s = Ok (Some (set_index idx m), s') /\ remaining s' = r /\
                             s_index s' = idx + 1 /\ (length (s_its s') <= length its)%nat /\ s_cur s' <> None
      end.
  Proof.
    induction its as [|it r0 IH]; intros fuel idx cur Hf s; subst s; unfold remaining, cur_list; cbn [s_cur s_its concat].
    - rewrite app_nil_r. destruct cur as [|m r].
      + destruct fuel as [|f]; [cbn in Hf; lia|]. cbn. destruct f; eexists; split; reflexivity.
      + intros Hb. destruct fuel as [|f]; [cbn in Hf; lia|]. cbn [Multi.seq_next s_cur s_index s_its].
        unfold add_chk. destruct (idx + 1 <=? u32max) eqn:E; [|apply N.leb_gt in E; lia].
        eexists. split; [reflexivity|]. cbn. rewrite app_nil_r. repeat split; auto. discriminate.
    - destruct cur as [|m r].
      + cbn [app]. destruct fuel as [|f]; [cbn in Hf; lia|].
        cbn [Multi.seq_next s_cur s_its s_index].
        specialize (IH f idx it). cbn [length] in Hf. specialize (IH ltac:(lia)).
        unfold remaining, cur_list in IH. cbn [s_cur s_its] in IH.
        destruct (it ++ concat r0) as [|m r].
        * exact IH.
        * intros Hb. destruct (IH Hb) as [s' [H1 [H2 [H3 [H4 H5]]]]]. exists s'. cbn [length]. repeat split; auto.
      + cbn [app]. intros Hb. destruct fuel as [|f]; [cbn in Hf; lia|].
        cbn [Multi.seq_next s_cur s_index s_its].
        unfold add_chk. destruct (idx + 1 <=? u32max) eqn:E; [|apply N.leb_gt in E; lia].
        eexists. split; [reflexivity|]. cbn. repeat split; auto. discriminate.
  Qed.

  Lemma seq_drain_spec : forall fuel s,
      s_cur s <> None \/ remaining s = [] ->
      (S (length (remaining s)) <= fuel)%nat ->
      s_index s + N.of_nat (length (remaining s)) <= u32max ->
      seq_drain fuel s = Ok (number (s_index s) (remaining s)).
  Proof.
    induction fuel as [|f IH]; intros s Hc Hf Hb; [lia|].
    cbn [Multi.seq_drain].
    destruct s as [idx its [cur|]].
    - pose proof (seq_next_spec its (seq_fuel {| s_index := idx; s_its := its; s_cur := Some cur |}) idx cur) as Hn.
      unfold seq_fuel in Hn at 1. cbn [s_its] in Hn. specialize (Hn ltac:(lia)). cbn zeta in Hn.
      cbn [s_index] in *.
      destruct (remaining {| s_index := idx; s_its := its; s_cur := Some cur |}) as [|m r] eqn:Er.
      + destruct Hn as [s' [Hn _]]. rewrite Hn. reflexivity.
      + cbn [length] in Hb, Hf. destruct (Hn ltac:(lia)) as [s' [Hn' [Hr [Hi [Hl Hcur]]]]].
        rewrite Hn'. rewrite IH; [|left; exact Hcur|rewrite Hr; lia|rewrite Hr, Hi; lia].
        rewrite Hr, Hi. reflexivity.
    - destruct Hc as [Hc|Hc]; [cbn in Hc; congruence|]. rewrite Hc. cbn. reflexivity.
  Qed.

  Theorem seq_run_concat start its :
    start + N.of_nat (length (concat its)) <= u32max ->
    seq_run set_index start its = Ok (number start (concat its)).
  Proof.
    intros Hb. unfold seq_run.
    assert (Hrem : remaining (seq_new start its) = concat its).
    { destruct its as [|it r]; unfold remaining, cur_list; cbn; reflexivity. }
    assert (Hidx : s_index (seq_new start its) = start) by (destruct its; reflexivity).
    assert (Htot : seq_total (seq_new start its) = length (concat its)).
    { destruct its as [|it r]; unfold seq_total; cbn; [reflexivity|rewrite app_length; reflexivity]. }
    rewrite seq_drain_spec; rewrite ?Hrem, ?Hidx, ?Htot; auto.
    destruct its; [right; reflexivity|left; cbn; discriminate].
  Qed.

  Lemma number_indices l : forall idx, map get_index (number idx l) = nseq idx (length l).
  Proof. induction l as [|m r IH]; intros idx; cbn; [reflexivity|]. rewrite get_set, IH. reflexivity. Qed.
End Proofs.
