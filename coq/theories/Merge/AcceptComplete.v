(* Completeness of the acceptor of Merge/Multi.v: for source-tagged families (the families the correspondence
   check generates) EVERY run of the iterator is accepted, so the correspondence check of C09 cannot raise a
   false alarm on an implementation whose output is a run (accepts_sound is the other direction). *)
From Coq Require Import List NArith Bool Lia Permutation Arith.
From AdltV Require Import Base.Res Base.MachInt Merge.Multi Merge.MultiProofs.
Import ListNotations.
Open Scope N_scope.

Section Complete.
  Context {A : Type}.
  Variable rt : A -> N.
  Variable set_index : N -> A -> A.
  Variable src : A -> nat.
  Hypothesis src_set : forall i m, src (set_index i m) = src m.
  Variable same_msg : A -> A -> bool.
  Hypothesis same_msg_eq : forall a b, same_msg a b = true -> a = b.
  Hypothesis same_msg_refl : forall a, same_msg a a = true.

  Lemma find_entry_first (l1 l2 : @heap A) m it idx : forall k,
    Forall (fun e => esrc src e <> src m) l1 ->
    find_entry set_index same_msg (l1 ++ (m, it) :: l2) idx (set_index idx m) k = Some (k + length l1)%nat.
  Proof.
    induction l1 as [|e l1 IH]; intros k Hf; cbn [app find_entry length].
    - cbn [fst]. rewrite same_msg_refl. f_equal. lia.
    - inversion Hf as [|e' l' He Hf' Eq]; subst.
      destruct (same_msg (set_index idx (fst e)) (set_index idx m)) eqn:Es.
      + exfalso. apply He. apply same_msg_eq in Es. unfold esrc.
        rewrite <- (src_set idx (fst e)), Es, src_set. reflexivity.
      + rewrite (IH (S k) Hf'). f_equal. lia.
  Qed.

  Theorem accepts_complete idx h obs :
    Run rt set_index idx h obs -> Tagged src h -> accepts rt set_index same_msg idx h obs = true.
  Proof.
    induction 1 as [idx|idx h k m st' out Hn _ IH]; intros Ht; [reflexivity|].
    pose proof Hn as Hn0.
    apply next_some in Hn. destruct Hn as [l1 [m0 [it [l2 [Hh [Hk [_ [Hm [_ Hst]]]]]]]]].
    subst h m. pose proof Ht as Ht0.
    specialize (IH ltac:(rewrite Hst; cbn [snd]; exact (Tagged_step src _ _ _ _ Ht0))).
    cbn [accepts].
    assert (Hf : Forall (fun e => esrc src e <> src m0) l1).
    { destruct Ht0 as [Hnd _]. rewrite map_app in Hnd. cbn [map] in Hnd.
      pose proof (NoDup_remove_2 _ _ _ Hnd) as Hni.
      apply Forall_forall. intros e He E. apply Hni. apply in_or_app. left.
      change (esrc src (m0, it)) with (src m0). rewrite <- E. apply in_map. exact He. }
    set (fe := find_entry _ _ _ _ _ _).
    assert (Efe : fe = Some (0 + length l1)%nat) by (apply find_entry_first; exact Hf).
    rewrite Efe. clear fe Efe.
    cbn [Nat.add]. rewrite Hk. rewrite Hn0. destruct st' as [idx' h'].
    rewrite same_msg_refl. cbn [andb fst snd] in *. exact IH.
  Qed.
End Complete.
