(* Model of src/utils/sorting_multi_readeriterator.rs
   - SortingMultiReaderIterator (BinaryHeap keyed by reception time; tie-breaking unspecified, so the
     choice of the popped entry among the minimal ones is a choice oracle / a relation)
   - SequentialMultiIterator (advance-on-exhaustion recursion)
   - both new_or_single_it short-cuts
   No proofs in this file. *)
From Coq Require Import List NArith Bool.
From AdltV Require Import Base.Res Base.MachInt.
Import ListNotations.
Open Scope N_scope.

Section Merge.
  Context {A : Type}.
  Variable rt : A -> N.                 (* reception_time_us *)
  Variable set_index : N -> A -> A.     (* m.index = idx *)

  (* an iterator is the list of messages it will still yield *)
  Definition iter := list A.
  (* MinHeapEntry { m, it } *)
  Definition entry := (A * iter)%type.
  (* BinaryHeap contents; the internal layout is not modelled: any entry with minimal key may be popped *)
  Definition heap := list entry.

  (* `if let Some(m) = it.next() { min_heap.push(MinHeapEntry { m, it }) }` *)
  Definition push_next (h : heap) (it : iter) : heap :=
    match it with [] => h | m :: r => h ++ [(m, r)] end.

  (* SortingMultiReaderIterator::new: the loop over `its` *)
  Definition new_heap (its : list iter) : heap := fold_left push_next its [].

  (* Ord for MinHeapEntry is reversed on reception time: pop returns an entry whose time is minimal *)
  Definition is_min (h : heap) (e : entry) : bool :=
    forallb (fun e' => rt (fst e) <=? rt (fst e')) h.

  Definition remove_nth (k : nat) (h : heap) : heap := firstn k h ++ skipn (S k) h.

  (* pop with the oracle's choice k (position in our list representation) *)
  Definition pop (k : nat) (h : heap) : option (entry * heap) :=
    match nth_error h k with
    | Some e => if is_min h e then Some (e, remove_nth k h) else None
    | None => None
    end.

  (* state of the iterator: (index, heap) ; `self.index += 1` is a checked u32 addition *)
  Definition next (k : nat) (idx : N) (h : heap) : res (option (A * (N * heap))) :=
    match h with
    | [] => Ok None
    | _ =>
      match pop k h with
      | None => OutOfFuel (* the oracle made an inadmissible choice: not a run of the heap *)
      | Some ((m, it), h') =>
          match add_chk u32max idx 1 with
          | Ok idx' => Ok (Some (set_index idx m, (idx', push_next h' it)))
          | Panic s => Panic s
          | OutOfFuel => OutOfFuel
          end
      end
    end.

  (* all runs of the iterator, as a relation (the semantics the theorems quantify over) *)
  Inductive Run : N -> heap -> list A -> Prop :=
  | Run_nil idx : Run idx [] []
  | Run_pop idx h k m st' out :
      next k idx h = Ok (Some (m, st')) -> Run (fst st') (snd st') out -> Run idx h (m :: out).

  (* one executable run: the oracle always proposes the first minimal entry *)
  Fixpoint first_min_from (h all : heap) (k : nat) : nat :=
    match h with
    | [] => k
    | e :: r => if is_min all e then k else first_min_from r all (S k)
    end.
  Fixpoint run_first (fuel : nat) (idx : N) (h : heap) : res (list A) :=
    match fuel with
    | O => match h with [] => Ok [] | _ => OutOfFuel end
    | S f =>
      match next (first_min_from h h 0) idx h with
      | Ok None => Ok []
      | Ok (Some (m, (idx', h'))) =>
          match run_first f idx' h' with Ok out => Ok (m :: out) | Panic s => Panic s | OutOfFuel => OutOfFuel end
      | Panic s => Panic s
      | OutOfFuel => OutOfFuel
      end
    end.

  (* acceptor: is the observed output [obs] a run?  The oracle is reconstructed from the output:
     the popped entry is the first one whose head message equals (up to index) the observed message. *)
  Variable same_msg : A -> A -> bool.   (* equality of the observed message with a candidate (index already set) *)
  Fixpoint find_entry (h : heap) (idx : N) (o : A) (k : nat) : option nat :=
    match h with
    | [] => None
    | e :: r => if same_msg (set_index idx (fst e)) o then Some k else find_entry r idx o (S k)
    end.
  Fixpoint accepts (idx : N) (h : heap) (obs : list A) : bool :=
    match obs with
    | [] => match h with [] => true | _ => false end
    | o :: obs' =>
      match find_entry h idx o 0 with
      | None => false
      | Some k =>
        match next k idx h with
        | Ok (Some (m, (idx', h'))) => same_msg m o && accepts idx' h' obs'
        | _ => false
        end
      end
    end.

  (* SortingMultiReaderIterator::new_or_single_it: one source is passed through untouched *)
  Inductive SortRunOrSingle (start : N) (its : list iter) : list A -> Prop :=
  | SRS_single it : its = [it] -> SortRunOrSingle start its it
  | SRS_multi out : length its <> 1%nat -> Run start (new_heap its) out -> SortRunOrSingle start its out.

  (* ---- SequentialMultiIterator ---- *)
  Record seqst := { s_index : N; s_its : list iter; s_cur : option iter }.

  Definition seq_new (start : N) (its : list iter) : seqst :=
    match its with
    | [] => {| s_index := start; s_its := []; s_cur := None |}
    | it :: r => {| s_index := start; s_its := r; s_cur := Some it |}
    end.

  (* `next`: recursion `self.next()` after advancing to the following source; fuel = sources left + 1 *)
  Fixpoint seq_next (fuel : nat) (s : seqst) : res (option A * seqst) :=
    match s_cur s with
    | None => Ok (None, s)
    | Some [] =>
      match fuel with
      | O => OutOfFuel
      | S f =>
        match s_its s with
        | [] => seq_next f {| s_index := s_index s; s_its := []; s_cur := None |}
        | it :: r => seq_next f {| s_index := s_index s; s_its := r; s_cur := Some it |}
        end
      end
    | Some (m :: r) =>
      match add_chk u32max (s_index s) 1 with
      | Ok idx' => Ok (Some (set_index (s_index s) m), {| s_index := idx'; s_its := s_its s; s_cur := Some r |})
      | Panic p => Panic p
      | OutOfFuel => OutOfFuel
      end
    end.

  Definition seq_fuel (s : seqst) : nat := S (S (length (s_its s))).

  Fixpoint seq_drain (fuel : nat) (s : seqst) : res (list A) :=
    match fuel with
    | O => OutOfFuel
    | S f =>
      match seq_next (seq_fuel s) s with
      | Ok (None, _) => Ok []
      | Ok (Some m, s') =>
          match seq_drain f s' with Ok out => Ok (m :: out) | Panic p => Panic p | OutOfFuel => OutOfFuel end
      | Panic p => Panic p
      | OutOfFuel => OutOfFuel
      end
    end.

  Definition seq_total (s : seqst) : nat :=
    length (match s_cur s with Some c => c | None => [] end) + length (concat (s_its s)).

  Definition seq_run (start : N) (its : list iter) : res (list A) :=
    let s := seq_new start its in seq_drain (S (seq_total s)) s.

  (* SequentialMultiIterator::new_or_single_it with an exact size hint (Vec::into_iter) *)
  Definition seq_run_or_single (start : N) (its : list iter) : res (list A) :=
    match its with
    | [it] => Ok it
    | _ => seq_run start its
    end.

  (* SequentialMultiIterator::new_or_single_it for ANY outer iterator: the short-cut is taken exactly when the outer
     iterator's size_hint() is (1, Some(1)) and it then yields a source; `hint` is what size_hint() returned.  The std
     contract (lower bound <= remaining length <= upper bound) is the hypothesis `hint_truthful` of the theorems. *)
  Definition seq_run_or_single_h (hint : N * option N) (start : N) (its : list iter) : res (list A) :=
    match hint with
    | (1, Some 1) => match its with it :: _ => Ok it | [] => seq_run start [] end
    | _ => seq_run start its
    end.
  Definition hint_truthful (hint : N * option N) (its : list iter) : Prop :=
    fst hint <= N.of_nat (length its) /\ match snd hint with Some h => N.of_nat (length its) <= h | None => True end.

  (* the numbering the property talks about *)
  Fixpoint number (idx : N) (l : list A) : list A :=
    match l with [] => [] | m :: r => set_index idx m :: number (idx + 1) r end.
End Merge.
