(* Result monad: models Rust functions that may panic.  [Panic site] names the class of source
   location; [OutOfFuel] is the fuel-exhaustion value of fuelled recursions (proved unreachable). *)
From Coq Require Import NArith.

Inductive res (A : Type) : Type :=
| Ok (a : A)
| Panic (site : N)
| OutOfFuel.
Arguments Ok {A} a.
Arguments Panic {A} site.
Arguments OutOfFuel {A}.

Definition bind {A B} (r : res A) (f : A -> res B) : res B :=
  match r with Ok a => f a | Panic s => Panic s | OutOfFuel => OutOfFuel end.
Definition ret {A} (a : A) : res A := Ok a.

Declare Scope res_scope.
Delimit Scope res_scope with res.
Notation "x <- r ;; k" := (bind r (fun x => k)) (at level 61, r at next level, right associativity) : res_scope.
Notation "' p <- r ;; k" := (bind r (fun p => k)) (at level 61, p pattern, r at next level, right associativity) : res_scope.

Definition is_ok {A} (r : res A) : bool := match r with Ok _ => true | _ => false end.
Definition no_panic {A} (r : res A) : Prop := match r with Panic _ => False | _ => True end.

Lemma bind_ok {A B} (r : res A) (f : A -> res B) b :
  bind r f = Ok b <-> exists a, r = Ok a /\ f a = Ok b.
Proof.
  destruct r; cbn; split; intros H; try discriminate; try (destruct H as [? [? ?]]; discriminate).
  - exists a; auto.
  - destruct H as [a' [H1 H2]]. inversion H1; subst. exact H2.
Qed.
