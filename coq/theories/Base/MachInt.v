(* Machine integers as N with explicit checked operations (Rust debug-build semantics). *)
From Coq Require Import NArith Lia.
From AdltV Require Import Base.Res.
Open Scope N_scope.

Definition u8max : N := 255.
Definition u16max : N := 65535.
Definition u32max : N := 4294967295.
Definition u64max : N := 18446744073709551615.
Definition usizemax : N := u64max.

(* panic sites used by the arithmetic helpers *)
Definition site_add_overflow : N := 1.
Definition site_sub_overflow : N := 2.
Definition site_mul_overflow : N := 3.
Definition site_index : N := 4.
Definition site_unwrap : N := 5.
Definition site_assert : N := 6.

Definition add_chk (max a b : N) : res N := if a + b <=? max then Ok (a + b) else Panic site_add_overflow.
Definition sub_chk (a b : N) : res N := if b <=? a then Ok (a - b) else Panic site_sub_overflow.
Definition mul_chk (max a b : N) : res N := if a * b <=? max then Ok (a * b) else Panic site_mul_overflow.
Definition sat_sub (a b : N) : N := a - b.
Definition trunc (bits a : N) : N := a mod 2 ^ bits.
Definition wrapping_add (bits a b : N) : N := (a + b) mod 2 ^ bits.
