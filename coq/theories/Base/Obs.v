(* Generic observation trees: every property's observable is rendered into this one type on both
   sides (Rust prints the term, the model computes it) and compared by [otree_eqb]. *)
From Coq Require Import List NArith Bool.
Import ListNotations.

Inductive otree : Type :=
| L (n : N)
| T (ts : list otree).

Fixpoint otree_eqb (a b : otree) {struct a} : bool :=
  match a, b with
  | L x, L y => N.eqb x y
  | T xs, T ys =>
      (fix go (xs ys : list otree) {struct xs} : bool :=
         match xs, ys with
         | [], [] => true
         | x :: xs', y :: ys' => otree_eqb x y && go xs' ys'
         | _, _ => false
         end) xs ys
  | _, _ => false
  end.

Fixpoint otree_size (a : otree) : nat :=
  match a with
  | L _ => 1
  | T ts => S ((fix go (l : list otree) : nat := match l with [] => 0 | x :: r => otree_size x + go r end) ts)
  end.

(* induction principle with Forall on children *)
Section OtreeInd.
  Variable P : otree -> Prop.
  Hypothesis HL : forall n, P (L n).
  Hypothesis HT : forall ts, Forall P ts -> P (T ts).
  Fixpoint otree_ind' (a : otree) : P a :=
    match a with
    | L n => HL n
    | T ts => HT ts ((fix go (l : list otree) : Forall P l :=
                        match l with
                        | [] => Forall_nil P
                        | x :: r => Forall_cons x (otree_ind' x) (go r)
                        end) ts)
    end.
End OtreeInd.

Lemma otree_eqb_spec : forall a b, otree_eqb a b = true <-> a = b.
Proof.
  induction a as [n|ts IH] using otree_ind'; intros b; destruct b as [m|us]; cbn [otree_eqb].
  - rewrite N.eqb_eq. split; intros H; [subst; reflexivity|inversion H; reflexivity].
  - split; intros H; discriminate.
  - split; intros H; discriminate.
  - revert us. induction IH as [|x xs Hx Hxs IHxs]; intros us; destruct us as [|u us'].
    + split; reflexivity.
    + split; intros H; discriminate.
    + split; intros H; discriminate.
    + rewrite andb_true_iff, Hx. specialize (IHxs us'). 
      split.
      * intros [H1 H2]. subst u. apply IHxs in H2. inversion H2; reflexivity.
      * intros H. inversion H; subst. split; [reflexivity|]. apply IHxs. reflexivity.
Qed.

(* helpers used by Exec files *)
Definition ob (b : bool) : otree := L (if b then 1%N else 0%N).
Definition onat (n : nat) : otree := L (N.of_nat n).
Definition olist {A} (f : A -> otree) (l : list A) : otree := T (map f l).
Definition oopt {A} (f : A -> otree) (o : option A) : otree :=
  match o with None => T [] | Some a => T [f a] end.

(* triple accessors for case lists *)
Definition fst3 {A B C} (t : A * B * C) : A := fst (fst t).
Definition snd3 {A B C} (t : A * B * C) : B := snd (fst t).
Definition thd3 {A B C} (t : A * B * C) : C := snd t.

(* the standard shard evaluator: ids of cases where model and implementation disagree.
   [agree c o]: the implementation's observation [o] is (one of) the model's behaviour(s) on case [c]. *)
Definition disagreeing_by {C} (agree : C -> otree -> bool) (cases : list (N * C * otree)) : list N :=
  map fst3 (filter (fun c => negb (agree (snd3 c) (thd3 c))) cases).
Definition agree_det {C} (run : C -> otree) (c : C) (o : otree) : bool := otree_eqb (run c) o.
Definition disagreeing {C} (run : C -> otree) := disagreeing_by (agree_det run).
Definition model_obs {C} (run : C -> otree) (cases : list (N * C * otree)) (ids : list N) : list (N * otree) :=
  map (fun c => (fst3 c, run (snd3 c))) (filter (fun c => existsb (N.eqb (fst3 c)) ids) cases).
