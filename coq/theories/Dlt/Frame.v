(* Byte-level model of the DLT framing code of /repo/src/dlt/mod.rs:
   DltStorageHeader::from_buf, DltStandardHeader::{from_buf, std_ext_header_size, has_*, ecu, timestamp_dms},
   DltExtendedHeader::from_buf, DltMessage::from_headers, is_storage_header_pattern, is_serial_header_pattern,
   parse_dlt_with_storage_header, parse_dlt_with_serial_header  -- and the encoders used as ground truth.
   Model only, no proofs (proofs: Dlt/FrameProofs.v).

   Conventions: a byte string is a [list N]; machine integers are [N]; list positions are [nat]
   (converted with N.to_nat where the Rust code indexes with a usize computed from a u16).
   [parse_*] are total: every slice/index/subtraction of the Rust functions is guarded by the length
   checks in front of it; the checked transcription [parse_*_chk] (res monad, Panic where a slice, an
   `expect` or a usize subtraction could fail) is proved equal to [Ok (parse_* ..)] in FrameProofs.v. *)
From Coq Require Import List NArith Bool.
From AdltV Require Import Base.Res Base.MachInt.
Import ListNotations.
Open Scope N_scope.

Definition bytes := list N.
Definition wf_bytes (l : bytes) : Prop := Forall (fun b => b < 256) l.
Definition wf_bytesb (l : bytes) : bool := forallb (fun b => b <? 256) l.
Definition blen (l : bytes) : N := N.of_nat (length l).
Definition byte_at (l : bytes) (i : nat) : N := nth i l 0.
(* &l[a .. a+n] (total: shorter when out of range) *)
Definition slice (l : bytes) (a n : nat) : bytes := firstn n (skipn a l).

(* DltChar4 *)
Definition char4 := (N * N * N * N)%type.
Definition char4_at (l : bytes) (i : nat) : char4 :=
  (byte_at l i, byte_at l (i + 1), byte_at l (i + 2), byte_at l (i + 3)).
Definition c4_bytes (c : char4) : bytes := match c with (a, b, c', d) => [a; b; c'; d] end.
Definition wf_char4 (c : char4) : Prop := match c with (a, b, c', d) => a < 256 /\ b < 256 /\ c' < 256 /\ d < 256 end.
Definition c4_eqb (x y : char4) : bool :=
  match x, y with (a, b, c, d), (a', b', c', d') => (a =? a') && (b =? b') && (c =? c') && (d =? d') end.

(* u16/u32 from bytes *)
Definition le32 (b0 b1 b2 b3 : N) : N := b0 + 256 * b1 + 65536 * b2 + 16777216 * b3.
Definition be32 (b0 b1 b2 b3 : N) : N := le32 b3 b2 b1 b0.
Definition be16 (b0 b1 : N) : N := 256 * b0 + b1.
Definition le32_at (l : bytes) (i : nat) : N := le32 (byte_at l i) (byte_at l (i + 1)) (byte_at l (i + 2)) (byte_at l (i + 3)).
Definition be32_at (l : bytes) (i : nat) : N := be32 (byte_at l i) (byte_at l (i + 1)) (byte_at l (i + 2)) (byte_at l (i + 3)).
(* u16/u32 to bytes (to_le_bytes / to_be_bytes) *)
Definition le32_bytes (v : N) : bytes := [v mod 256; (v / 256) mod 256; (v / 65536) mod 256; (v / 16777216) mod 256].
Definition be32_bytes (v : N) : bytes := [(v / 16777216) mod 256; (v / 65536) mod 256; (v / 256) mod 256; v mod 256].
Definition be16_bytes (v : N) : bytes := [(v / 256) mod 256; v mod 256].

(* ---- headers *)
Record storage_hdr := { sh_secs : N; sh_micros : N; sh_ecu : char4 }.
Record std_hdr := { htyp : N; mcnt : N; len : N }.
Record ext_hdr := { verb_mstp_mtin : N; noar : N; apid : char4; ctid : char4 }.
(* DltMessage without the constant fields payload_text = None, lifecycle = 0 *)
Record msg := {
  m_index : N;
  m_reception_us : N;
  m_ecu : char4;
  m_timestamp : N;
  m_std : std_hdr;
  m_ext : option ext_hdr;
  m_payload : bytes
}.

Definition DLT_STORAGE_HEADER_SIZE : N := 16.
Definition DLT_SERIAL_HEADER_SIZE : N := 4.
Definition DLT_MIN_STD_HEADER_SIZE : N := 4.
Definition MIN_DLT_MSG_SIZE : N := 20.
Definition DLT_EXT_HEADER_SIZE : N := 10.
Definition US_PER_SEC : N := 1000000.

(* is_storage_header_pattern: "DLT\x01"; is_serial_header_pattern: "DLS\x01"; false when fewer than 4 bytes *)
Definition is_storage_pat (l : bytes) : bool :=
  match l with
  | a :: b :: c :: d :: _ => (a =? 68) && (b =? 76) && (c =? 84) && (d =? 1)
  | _ => false
  end.
Definition is_serial_pat (l : bytes) : bool :=
  match l with
  | a :: b :: c :: d :: _ => (a =? 68) && (b =? 76) && (c =? 83) && (d =? 1)
  | _ => false
  end.

(* htyp bit field: (htyp & mask) > 0 *)
Definition has_ext_hdr (h : std_hdr) : bool := N.testbit (htyp h) 0.
Definition is_big_endian (h : std_hdr) : bool := N.testbit (htyp h) 1.
Definition has_ecu_id (h : std_hdr) : bool := N.testbit (htyp h) 2.
Definition has_session_id (h : std_hdr) : bool := N.testbit (htyp h) 3.
Definition has_timestamp (h : std_hdr) : bool := N.testbit (htyp h) 4.

Definition std_ext_header_size (h : std_hdr) : N :=
  DLT_MIN_STD_HEADER_SIZE
  + (if has_ecu_id h then 4 else 0)
  + (if has_session_id h then 4 else 0)
  + (if has_timestamp h then 4 else 0)
  + (if has_ext_hdr h then DLT_EXT_HEADER_SIZE else 0).

(* DltStorageHeader::from_buf *)
Definition storage_from_buf (buf : bytes) : option storage_hdr :=
  if blen buf <? 16 then None
  else if negb (is_storage_pat buf) then None
  else Some {| sh_secs := le32_at buf 4; sh_micros := le32_at buf 8; sh_ecu := char4_at buf 12 |}.

(* DltStandardHeader::from_buf (callers guarantee >= 4 bytes; see parse_*_chk for the `expect`) *)
Definition std_from_buf (buf : bytes) : std_hdr :=
  {| htyp := byte_at buf 0; mcnt := byte_at buf 1; len := be16 (byte_at buf 2) (byte_at buf 3) |}.

Definition ext_from_buf (buf : bytes) : ext_hdr :=
  {| verb_mstp_mtin := byte_at buf 0; noar := byte_at buf 1; apid := char4_at buf 2; ctid := char4_at buf 6 |}.

Definition storage_reception_time_us (sh : storage_hdr) : N := sh_secs sh * US_PER_SEC + sh_micros sh.

(* DltMessage::from_headers *)
Definition from_headers (index : N) (sh : storage_hdr) (h : std_hdr) (add_header_buf payload : bytes) : msg :=
  let ecu := if has_ecu_id h then char4_at add_header_buf 0 else sh_ecu sh in
  let ts :=
    if has_timestamp h then
      let offset := ((if has_ecu_id h then 4 else 0) + (if has_session_id h then 4 else 0))%nat in
      be32_at add_header_buf offset
    else 0 in
  let ext :=
    if has_ext_hdr h then Some (ext_from_buf (skipn (length add_header_buf - 10) add_header_buf)) else None in
  {| m_index := index; m_reception_us := storage_reception_time_us sh; m_ecu := ecu; m_timestamp := ts;
     m_std := h; m_ext := ext; m_payload := payload |}.

(* `for i in 5..to_consume { if is_*_header_pattern(&data[i..]) {..} }` as: does the pattern start at one of
   the first k offsets of l (called with l = data[5..], k = to_consume - 5) *)
Fixpoint scan_pat (pat : bytes -> bool) (k : nat) (l : bytes) : bool :=
  match k with
  | O => false
  | S k' => pat l || match l with [] => false | _ :: t => scan_pat pat k' t end
  end.

Inductive pres : Type :=
| PMsg (consumed : N) (m : msg)     (* Ok((to_consume, msg)) *)
| PInvalid                          (* Err(InvalidData(_)) *)
| PNotEnough (missing : N).         (* Err(NotEnoughData(missing)) *)

(* the part both parsers share, entered once the frame header (hsz bytes, starting with the marker) is
   accepted: standard header, length checks, next-marker plausibility heuristic, field extraction.
   [short_invalid]: what `remaining < stdh.len` yields (storage: NotEnoughData, serial: InvalidData). *)
Definition parse_after_marker (hsz : N) (pat : bytes -> bool) (short_invalid : bool)
    (sh : storage_hdr) (index : N) (data : bytes) : pres :=
  let n := blen data in
  let remaining := n - hsz in
  let stdh := std_from_buf (skipn (N.to_nat hsz) data) in
  let hs := std_ext_header_size stdh in
  if len stdh <? hs then PInvalid
  else if remaining <? len stdh then (if short_invalid then PInvalid else PNotEnough (len stdh - remaining))
  else
    let payload_offset := hsz + hs in
    let payload_size := len stdh - hs in
    let remaining' := remaining - hs - payload_size in
    let to_consume := n - remaining' in
    if (4 <=? remaining') && negb (pat (skipn (N.to_nat to_consume) data))
       && scan_pat pat (N.to_nat to_consume - 5) (skipn 5 data)
    then PInvalid
    else PMsg to_consume
           (from_headers index sh stdh
              (slice data (N.to_nat (hsz + DLT_MIN_STD_HEADER_SIZE)) (N.to_nat (payload_offset - (hsz + DLT_MIN_STD_HEADER_SIZE))))
              (slice data (N.to_nat payload_offset) (N.to_nat payload_size))).

(* parse_dlt_with_storage_header(index, data) *)
Definition parse_storage (index : N) (data : bytes) : pres :=
  let n := blen data in
  if n <? MIN_DLT_MSG_SIZE then PNotEnough (MIN_DLT_MSG_SIZE - n)
  else match storage_from_buf data with
       | None => PInvalid
       | Some sh => parse_after_marker DLT_STORAGE_HEADER_SIZE is_storage_pat false sh index data
       end.

(* the storage header the serial parser makes up: secs = (2023-1970)*365*24*60*60, ecu "DLS\0" *)
Definition serial_storage_hdr : storage_hdr :=
  {| sh_secs := 1671408000; sh_micros := 0; sh_ecu := (68, 76, 83, 0) |}.

(* parse_dlt_with_serial_header(index, data) *)
Definition parse_serial (index : N) (data : bytes) : pres :=
  let n := blen data in
  if n <? DLT_SERIAL_HEADER_SIZE + DLT_MIN_STD_HEADER_SIZE then PNotEnough (MIN_DLT_MSG_SIZE - n)
  else if negb (is_serial_pat data) then PInvalid
  else parse_after_marker DLT_SERIAL_HEADER_SIZE is_serial_pat true serial_storage_hdr index data.

(* ---- checked transcription: every slice / index / `expect` / usize subtraction of the two Rust functions
   as an operation that can Panic.  Proved equal to Ok (parse_* ..) on every input (FrameProofs.v). *)
Definition slice_chk (l : bytes) (a b : N) : res bytes :=   (* &l[a..b] *)
  if (a <=? b) && (b <=? blen l) then Ok (slice l (N.to_nat a) (N.to_nat (b - a))) else Panic site_index.
Definition slice_from_chk (l : bytes) (a : N) : res bytes := (* &l[a..] *)
  if a <=? blen l then Ok (skipn (N.to_nat a) l) else Panic site_index.
Definition std_from_buf_chk (buf : bytes) : res std_hdr :=   (* from_buf(..).expect("no valid stdheader!") *)
  if blen buf <? 4 then Panic site_unwrap else Ok (std_from_buf buf).

Fixpoint scan_pat_chk (pat : bytes -> bool) (data : bytes) (i : N) (k : nat) : res bool :=
  match k with
  | O => Ok false
  | S k' => (d <- slice_from_chk data i ;; if pat d then Ok true else scan_pat_chk pat data (i + 1) k')%res
  end.

Definition from_headers_chk (index : N) (sh : storage_hdr) (h : std_hdr) (add payload : bytes) : res msg :=
  (_ <- (if has_ecu_id h then slice_chk add 0 4 else Ok []) ;;
   _ <- (if has_timestamp h
         then let offset := (if has_ecu_id h then 4 else 0) + (if has_session_id h then 4 else 0) in
              if offset + 3 <? blen add then Ok (@nil N) else Panic site_index
         else Ok (@nil N)) ;;
   _ <- (if has_ext_hdr h
         then (a <- sub_chk (blen add) DLT_EXT_HEADER_SIZE ;; slice_from_chk add a)
         else Ok []) ;;
   Ok (from_headers index sh h add payload))%res.

Definition parse_after_marker_chk (hsz : N) (pat : bytes -> bool) (short_invalid : bool)
    (sh : storage_hdr) (index : N) (data : bytes) : res pres :=
  (let n := blen data in
   remaining <- sub_chk n hsz ;;
   d1 <- slice_from_chk data hsz ;;
   stdh <- std_from_buf_chk d1 ;;
   let hs := std_ext_header_size stdh in
   if len stdh <? hs then Ok PInvalid
   else if remaining <? len stdh
   then (if short_invalid then Ok PInvalid else (k <- sub_chk (len stdh) remaining ;; Ok (PNotEnough k)))
   else
     remaining1 <- sub_chk remaining hs ;;
     let payload_offset := hsz + hs in
     payload_size <- sub_chk (len stdh) hs ;;
     remaining2 <- sub_chk remaining1 payload_size ;;
     to_consume <- sub_chk n remaining2 ;;
     nxt <- (if 4 <=? remaining2 then (d <- slice_from_chk data to_consume ;; Ok (negb (pat d))) else Ok false) ;;
     found <- (if nxt then scan_pat_chk pat data 5 (N.to_nat to_consume - 5) else Ok false) ;;
     if found then Ok PInvalid
     else
       payload <- slice_chk data payload_offset (payload_offset + payload_size) ;;
       add <- slice_chk data (hsz + DLT_MIN_STD_HEADER_SIZE) payload_offset ;;
       m <- from_headers_chk index sh stdh add payload ;;
       Ok (PMsg to_consume m))%res.

Definition parse_storage_chk (index : N) (data : bytes) : res pres :=
  let n := blen data in
  if n <? MIN_DLT_MSG_SIZE then (k <- sub_chk MIN_DLT_MSG_SIZE n ;; Ok (PNotEnough k))%res
  else match storage_from_buf data with
       | None => Ok PInvalid
       | Some sh => parse_after_marker_chk DLT_STORAGE_HEADER_SIZE is_storage_pat false sh index data
       end.

Definition parse_serial_chk (index : N) (data : bytes) : res pres :=
  let n := blen data in
  if n <? DLT_SERIAL_HEADER_SIZE + DLT_MIN_STD_HEADER_SIZE then (k <- sub_chk MIN_DLT_MSG_SIZE n ;; Ok (PNotEnough k))%res
  else if negb (is_serial_pat data) then Ok PInvalid
  else parse_after_marker_chk DLT_SERIAL_HEADER_SIZE is_serial_pat true serial_storage_hdr index data.

(* ---- ground truth: abstract messages and their encodings *)
Record amsg := {
  a_secs : N; a_micros : N; a_secu : char4;      (* storage header (ignored by the serial framing) *)
  a_htyp : N; a_mcnt : N;                         (* any htyp byte: 32 flag combinations x 8 version values *)
  a_ecu : char4; a_sid : char4; a_ts : N;         (* written iff the htyp bit is set *)
  a_vmm : N; a_noar : N; a_apid : char4; a_ctid : char4;  (* extended header, written iff bit 0 is set *)
  a_payload : bytes
}.

Definition a_hdr0 (a : amsg) : std_hdr := {| htyp := a_htyp a; mcnt := a_mcnt a; len := 0 |}.
Definition a_hs (a : amsg) : N := std_ext_header_size (a_hdr0 a).
Definition a_len (a : amsg) : N := a_hs a + blen (a_payload a).
Definition a_std (a : amsg) : std_hdr := {| htyp := a_htyp a; mcnt := a_mcnt a; len := a_len a |}.

Definition wf_amsg (a : amsg) : Prop :=
  a_secs a < 4294967296 /\ a_micros a < 4294967296 /\ a_ts a < 4294967296 /\ a_len a <= 65535.
Definition wf_amsgb (a : amsg) : bool :=
  (a_secs a <? 4294967296) && (a_micros a <? 4294967296) && (a_ts a <? 4294967296) && (a_len a <=? 65535).

Definition enc_opt (a : amsg) : bytes :=
  (if has_ecu_id (a_hdr0 a) then c4_bytes (a_ecu a) else [])
  ++ (if has_session_id (a_hdr0 a) then c4_bytes (a_sid a) else [])
  ++ (if has_timestamp (a_hdr0 a) then be32_bytes (a_ts a) else [])
  ++ (if has_ext_hdr (a_hdr0 a) then [a_vmm a; a_noar a] ++ c4_bytes (a_apid a) ++ c4_bytes (a_ctid a) else []).
Definition enc_std (a : amsg) : bytes :=
  [a_htyp a; a_mcnt a] ++ be16_bytes (a_len a) ++ enc_opt a ++ a_payload a.
Definition enc_storage (a : amsg) : bytes :=
  [68; 76; 84; 1] ++ le32_bytes (a_secs a) ++ le32_bytes (a_micros a) ++ c4_bytes (a_secu a) ++ enc_std a.
Definition enc_serial (a : amsg) : bytes := [68; 76; 83; 1] ++ enc_std a.

(* the message a reader must deliver for [a] *)
Definition expect_with (sh : storage_hdr) (index : N) (a : amsg) : msg :=
  {| m_index := index;
     m_reception_us := storage_reception_time_us sh;
     m_ecu := if has_ecu_id (a_hdr0 a) then a_ecu a else sh_ecu sh;
     m_timestamp := if has_timestamp (a_hdr0 a) then a_ts a else 0;
     m_std := a_std a;
     m_ext := if has_ext_hdr (a_hdr0 a)
              then Some {| verb_mstp_mtin := a_vmm a; noar := a_noar a; apid := a_apid a; ctid := a_ctid a |}
              else None;
     m_payload := a_payload a |}.
Definition a_storage_hdr (a : amsg) : storage_hdr := {| sh_secs := a_secs a; sh_micros := a_micros a; sh_ecu := a_secu a |}.
Definition expect_storage (index : N) (a : amsg) : msg := expect_with (a_storage_hdr a) index a.
Definition expect_serial (index : N) (a : amsg) : msg := expect_with serial_storage_hdr index a.

(* framing selector used by the iterator theorems *)
Inductive framing := Storage | Serial.
Definition enc (f : framing) (a : amsg) : bytes := match f with Storage => enc_storage a | Serial => enc_serial a end.
Definition expect (f : framing) (i : N) (a : amsg) : msg := match f with Storage => expect_storage i a | Serial => expect_serial i a end.
Definition own_pat (f : framing) : bytes -> bool := match f with Storage => is_storage_pat | Serial => is_serial_pat end.
Definition min_size (f : framing) : N := match f with Storage => 20 | Serial => 8 end.
