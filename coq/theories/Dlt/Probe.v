(* Model of the probe the tool runs on every DLT input file, /repo/src/utils/mod.rs get_dlt_infos_from_read
   (get_dlt_infos_from_file = the same after reading the file's metadata; callers: `adlt convert`
   resolve_input_filename, `adlt remote` file_names_to_file_streams, both with read_size = 512 KiB):

     let mut buf = vec![0u8; read_size];
     let res = read.read(&mut buf)?;                                   // ONE read: res <= read_size bytes
     let mut it = get_dlt_message_iterator(ext, 0,
                    BufReader::with_capacity(read_size, Cursor::new(&buf[0..res])), ..);   // DLT extension: DltMessageIterator
     let first_msg = it.next();
     ecus_seen = {first_msg.ecu} + {m.ecu | m <- it}                   // only if there is a first message

   DltMessageIterator never asks its reader for more than fill_buf() shows, and std::io::BufReader::fill_buf refills
   only when its buffer is EMPTY: the iterator sees the whole window buf[0..res] at once exactly because the
   BufReader's capacity (read_size) is not smaller than the window.  [bufreader] models std's BufReader over a Cursor
   with an explicit capacity so that this dependency is part of the model.  Model only, no proofs
   (proofs: Dlt/ProbeProofs.v). *)
From Coq Require Import List NArith Bool.
From AdltV Require Import Base.Res Base.MachInt Dlt.Frame Dlt.Iter Dlt.IterFast.
Import ListNotations.
Open Scope N_scope.

(* std::io::BufReader<Cursor<&[u8]>>: (bytes buffered and not yet consumed, bytes the cursor has not delivered yet) *)
Definition bufreader := (bytes * bytes)%type.
Definition br_new (inner : bytes) : bufreader := ([], inner).
(* fill_buf: `if self.pos >= self.filled { self.inner.read(&mut self.buf[..cap]) }; &self.buf[self.pos..self.filled]` *)
Definition br_fill (cap : N) (r : bufreader) : bufreader * bytes :=
  match fst r with
  | [] => let b := firstn (N.to_nat cap) (snd r) in ((b, skipn (N.to_nat cap) (snd r)), b)
  | _ => (r, fst r)
  end.
(* consume: `self.pos = min(self.pos + amt, self.filled)` *)
Definition br_consume (n : N) (r : bufreader) : bufreader := (skipn (N.to_nat n) (fst r), snd r).

(* what the probe parses: the first [min read_size first_read] bytes of the source, [first_read] being the number of
   bytes the source is willing to deliver in one read() (a regular file / Cursor: everything) *)
Definition probe_window (read_size first_read : N) (data : bytes) : bytes :=
  firstn (N.to_nat (N.min read_size first_read)) data.

(* the messages the probe's iterator yields: DltMessageIterator::new(0, BufReader::with_capacity(cap, Cursor(window))) *)
Definition probe_msgs_cap (cap read_size first_read : N) (data : bytes) : res (list msg) :=
  let w := probe_window read_size first_read data in
  ('(ms, _, _) <- drain_gen bufreader (br_fill cap) br_consume false (S (length w)) (S (length w)) (ist_new 0) (br_new w) ;;
   Ok ms)%res.

(* DltFileInfos.first_msg and the ECU ids inserted into DltFileInfos.ecus_seen (in order, with repetitions; the
   HashSet holds the set of them).  `for m in it` stops at the first None as [drain_gen] does. *)
Definition probe_of (ms : list msg) : option msg * list char4 := (hd_error ms, map m_ecu ms).

(* the probe as it is in /repo: capacity = read_size *)
Definition probe_cap (cap read_size first_read : N) (data : bytes) : res (option msg * list char4) :=
  (ms <- probe_msgs_cap cap read_size first_read data ;; Ok (probe_of ms))%res.
Definition probe (read_size first_read : N) (data : bytes) : res (option msg * list char4) :=
  probe_cap read_size read_size first_read data.

(* the same, evaluated with the accelerated Cursor iterator on the window (equal: ProbeProofs.probe_exec_eq) *)
Definition probe_exec (read_size first_read : N) (data : bytes) : res (option msg * list char4) :=
  ('(ms, _, _) <- run_fast 0 (probe_window read_size first_read data) ;; Ok (probe_of ms))%res.
