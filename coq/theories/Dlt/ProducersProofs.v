(* Proofs about Dlt/Producers.v: every message the crate builds around a payload it encoded itself decodes,
   with the flags the message carries, to the arguments that were encoded; and the reason why the flag matters:
   a payload of typed values decoded in the OTHER byte order yields no argument at all. *)
From Coq Require Import List NArith ZArith Bool Lia.
From AdltV Require Import Base.Res Base.MachInt Dlt.Args Dlt.ArgsProofs Dlt.Text Dlt.TextProofs Dlt.Producers.
Import ListNotations.
Open Scope N_scope.

(* ------------------------------------------------------------------ a type word read in the wrong order *)
(* a word whose low 16 bits are zero has none of the bits a mask below 2^16 asks for *)
Lemma land_hi16 k mask : mask < 65536 -> N.land (k * 65536) mask = 0.
Proof.
  intros H. apply N.bits_inj_0. intros i. rewrite N.land_spec.
  destruct (N.lt_ge_cases i 16) as [Hi|Hi].
  - replace (k * 65536) with (N.shiftl k 16) by (rewrite N.shiftl_mul_pow2; reflexivity).
    rewrite N.shiftl_spec_low by exact Hi. reflexivity.
  - destruct mask as [|m]; [now rewrite N.bits_0, andb_false_r|].
    rewrite (N.bits_above_log2 (N.pos m) i), andb_false_r; [reflexivity|].
    apply N.log2_lt_pow2; [lia|]. eapply N.lt_le_trans; [exact H|].
    change 65536 with (2 ^ 16). apply N.pow_le_mono_r; lia.
Qed.
Lemma has_hi16 k mask : mask < 65536 -> has (k * 65536) mask = false.
Proof. intros H. unfold has. now rewrite land_hi16. Qed.

(* every type word of a typed value is below 2^16: written in one order and read in the other, its two
   significant bytes end up in the upper half *)
Lemma le_bytes4_small ti : ti < 65536 -> le_bytes 4 ti = [ti mod 256; ti / 256; 0; 0].
Proof.
  intros H. cbn [le_bytes].
  assert (H1 : ti / 256 < 256) by (apply N.div_lt_upper_bound; lia).
  rewrite (N.mod_small (ti / 256) 256) by exact H1.
  rewrite (N.div_small (ti / 256) 256) by exact H1. reflexivity.
Qed.
Lemma swapped_word be ti : ti < 65536 ->
  word_val (negb be) (word_bytes be 4 ti) = (ti mod 256 * 256 + ti / 256) * 65536.
Proof.
  intros H. unfold word_val, word_bytes, be_val, be_bytes.
  destruct be; cbn [negb]; rewrite (le_bytes4_small ti H); cbn [rev app le_val]; lia.
Qed.

Theorem wrong_order_decodes_nothing be ti tail :
  ti < 65536 -> fits (word_bytes be 4 ti ++ tail) ->
  msg_args true (negb be) (word_bytes be 4 ti ++ tail) = Ok [].
Proof.
  intros Hti Hf. set (p := word_bytes be 4 ti ++ tail) in *.
  assert (Hp : plen p = 4 + plen tail) by (unfold p; rewrite plen_app, plen_word_bytes; reflexivity).
  assert (Hs : slice_chk p 0 4 = Ok (word_bytes be 4 ti)).
  { pose proof (slice_chk_app_mid [] (word_bytes be 4 ti) tail) as X.
    rewrite plen_nil, plen_word_bytes in X. exact X. }
  assert (Hn : arg_next p (iter_init true (negb be)) = Ok (None, with_index (iter_init true (negb be)) 4)).
  { rewrite arg_next_verbose by reflexivity. cbn [iter_init it_index it_be].
    replace (add_chk usizemax 0 4) with (Ok (A := N) 4) by reflexivity. cbn [bind].
    assert (Hle : (4 <=? plen p) = true) by (apply N.leb_le; lia). rewrite Hle, Hs. cbn [bind].
    rewrite (swapped_word be ti Hti). set (k := ti mod 256 * 256 + ti / 256).
    unfold verbose_body, fixed_len, refused_or_lenpref, is_lenpref.
    rewrite !has_hi16 by (vm_compute; reflexivity). reflexivity. }
  unfold msg_args, msg_args_st. cbn [collect]. rewrite Hn. reflexivity.
Qed.

(* the typed values, the arguments the serializer writes: all type words are small *)
Lemma value_ti_small v : wf_value v -> value_ti v < 65536.
Proof.
  destruct v as [b|t z|t n|t bits|[|] s|b]; cbn [wf_value value_ti]; intros H; try (vm_compute; reflexivity).
  - destruct H as [H _]. destruct (int_tyle_cases t H) as [->|[->|[->|[->| ->]]]]; vm_compute; reflexivity.
  - destruct H as [H _]. destruct (int_tyle_cases t H) as [->|[->|[->|[->| ->]]]]; vm_compute; reflexivity.
  - destruct H as [[->| ->] _]; vm_compute; reflexivity.
Qed.
Lemma sval_ti_small v : wf_sval v -> a_ti (sval_arg_d v) < 65536.
Proof.
  assert (T : forall t, 1 <= t <= 4 -> t = 1 \/ t = 2 \/ t = 3 \/ t = 4) by (intros; lia).
  destruct v as [b|t z|t n|t bits|s|b|b|]; cbn [wf_sval]; intros H; try (vm_compute; reflexivity).
  - destruct (T t H) as [->|[->|[->| ->]]]; vm_compute; reflexivity.
  - destruct (T t H) as [->|[->|[->| ->]]]; vm_compute; reflexivity.
  - destruct H as [->| ->]; vm_compute; reflexivity.
Qed.

(* typed values encoded in one order and decoded in the other: nothing comes back (not even a prefix) *)
Theorem values_other_order be (v : value) (vals : list value) :
  wf_value v -> fits (payload_from_args (map (value_arg be) (v :: vals))) ->
  msg_args true (negb be) (payload_from_args (map (value_arg be) (v :: vals))) = Ok [] /\
  msg_args true (negb be) (payload_from_args (map (value_arg be) (v :: vals))) <> Ok (map (value_arg (negb be)) (v :: vals)).
Proof.
  intros Hv Hf. rewrite payload_from_values in *. cbn [map] in *. rewrite enc_args_cons in *.
  assert (X : msg_args true (negb be) (enc_arg be (value_arg be v) ++ enc_args be (map (value_arg be) vals)) = Ok []).
  { unfold enc_arg at 1 in Hf. unfold enc_arg at 1. rewrite <- !app_assoc in *.
    apply wrong_order_decodes_nothing; [apply (value_ti_small v Hv)|exact Hf]. }
  rewrite X. split; [reflexivity|discriminate].
Qed.

(* the serializer's (host-order) output announced as big endian *)
Theorem serde_other_order (v : sval) (vals : list sval) :
  Forall wf_sval (v :: vals) -> fits (payload_from_args (map sval_arg_d (v :: vals))) ->
  exists n p, dlt_args (v :: vals) = SOk (n, p) /\ msg_args true (negb host_be) p = Ok [] /\
              msg_args true host_be p = Ok (map sval_arg_d (v :: vals)).
Proof.
  intros H F. destruct (dlt_args_layout _ H) as [E W].
  assert (U : payload_from_args (map sval_arg_d (v :: vals)) = enc_args false (map sval_arg_d (v :: vals))).
  { apply payload_from_args_uniform. eapply Forall_impl; [|exact W]. intros a Ha. apply (wf_arg_inv _ _ Ha). }
  rewrite U in F. eexists _, _. split; [exact E|]. split.
  - cbn [map] in *. rewrite enc_args_cons in *. unfold enc_arg at 1 in F. unfold enc_arg at 1.
    rewrite <- !app_assoc in *.
    apply (wrong_order_decodes_nothing false); [|exact F].
    apply sval_ti_small. now inversion H.
  - apply decode_encode; assumption.
Qed.

(* ------------------------------------------------------------------ one string through dlt_args! *)
Definition str_arg (be : bool) (text : bytes) : arg := value_arg be (VStr true (text ++ [0])).

Lemma dlt_args_str text : plen text < 65535 ->
  dlt_args [SStr text] = SOk (1, enc_args false [str_arg false text]) /\
  msg_args true false (enc_args false [str_arg false text]) = Ok [str_arg false text].
Proof.
  intros H.
  assert (Hw : Forall wf_sval [SStr text]) by (constructor; [exact H|constructor]).
  destruct (dlt_args_layout _ Hw) as [E W]. split; [exact E|].
  apply (decode_encode false _ W).
  unfold fits, isizemax. cbn [map enc_args flat_map]. rewrite app_nil_r, enc_arg_plen.
  cbn [sval_arg_d sval_arg a_raw a_ti]. rewrite plen_app.
  destruct (is_lenpref _); change (plen [0]) with 1; lia.
Qed.

Lemma dlt_args_str_too_large text : 65535 <= plen text -> dlt_args [SStr text] = SErr E_TOOLARGE.
Proof.
  intros H. unfold dlt_args. cbn [ser_all ser_one].
  apply N.leb_le in H. rewrite H. reflexivity.
Qed.

(* what "the built message decodes to what was encoded" means: with the message's own flags the iterator
   yields [args], the header's noar is their number, and they carry the message's byte order *)
Definition decodes_to (m : bmsg) (args : list arg) : Prop :=
  bmsg_args m = Ok args /\ m_noar m = N.of_nat (length args) /\ Forall (fun a => a_be a = m_be m) args.

(* ---- export plugin *)
Lemma plen_enc_str be text : plen (enc_args be [str_arg be text]) = 7 + plen text.
Proof.
  cbn [enc_args flat_map]. rewrite app_nil_r, enc_arg_plen. unfold str_arg.
  cbn [value_arg value_ti value_raw a_raw a_ti]. change (is_lenpref (N.lor TI_STRG SCOD_UTF8)) with true. cbv iota.
  rewrite plen_app. change (plen [0]) with 1. lia.
Qed.

Theorem export_info_text_decodes from_be text :
  0 < plen text <= 65510 ->
  exists m, export_info_text_msg from_be text = Some m /\ m_verbose m = true /\
            decodes_to m [str_arg (m_be m) text].
Proof.
  intros [H0 H]. destruct (dlt_args_str text) as [E D]; [lia|].
  unfold export_info_text_msg, dlt_args_or_default. rewrite E.
  assert (Hz : (plen text =? 0) = false) by (apply N.eqb_neq; lia). rewrite Hz.
  cbn [fst snd]. change (0 <? trunc 8 1) with true.
  assert (Hl : (INFO_HDR_LEN + plen (enc_args false [str_arg false text]) <=? 65535) = true).
  { apply N.leb_le. rewrite plen_enc_str. unfold INFO_HDR_LEN. lia. }
  rewrite Hl. cbn [andb].
  eexists. split; [reflexivity|]. split; [reflexivity|].
  unfold decodes_to, bmsg_args, export_get_info_msg. cbn [m_be m_verbose m_noar m_payload].
  split; [exact D|]. split; [reflexivity|]. constructor; [reflexivity|constructor].
Qed.

Theorem export_info_text_skipped from_be text :
  plen text = 0 \/ 65510 < plen text -> export_info_text_msg from_be text = None.
Proof.
  intros [H|H]; unfold export_info_text_msg.
  - rewrite H. reflexivity.
  - destruct (plen text =? 0); [reflexivity|].
    destruct (N.lt_ge_cases (plen text) 65535) as [L|L].
    + destruct (dlt_args_str text L) as [E _]. unfold dlt_args_or_default. rewrite E. cbn [fst snd].
      assert (Hl : (INFO_HDR_LEN + plen (enc_args false [str_arg false text]) <=? 65535) = false).
      { apply N.leb_gt. rewrite plen_enc_str. unfold INFO_HDR_LEN. lia. }
      rewrite Hl, andb_false_r. reflexivity.
    + unfold dlt_args_or_default. rewrite (dlt_args_str_too_large text L). reflexivity.
Qed.

Theorem export_created_decodes from_be text :
  exists args, decodes_to (export_created_msg from_be text) args /\
    (plen text < 65535 -> args = [str_arg host_be text]).
Proof.
  destruct (N.lt_ge_cases (plen text) 65535) as [H|H].
  - destruct (dlt_args_str text H) as [E D]. exists [str_arg host_be text]. split; [|reflexivity].
    unfold export_created_msg, dlt_args_or_default. rewrite E. cbn [fst snd].
    unfold decodes_to, bmsg_args, export_get_info_msg. cbn [m_be m_verbose m_noar m_payload].
    split; [exact D|]. split; [reflexivity|]. constructor; [reflexivity|constructor].
  - exists []. split; [|lia].
    unfold export_created_msg, dlt_args_or_default. rewrite (dlt_args_str_too_large text H). cbn [fst snd].
    unfold decodes_to, bmsg_args, export_get_info_msg. cbn [m_be m_verbose m_noar m_payload].
    split; [reflexivity|]. split; [reflexivity|constructor].
Qed.

(* the whole head of the export file, whatever the byte order of the message that triggered the export *)
Theorem export_info_msgs_decode from_be created texts :
  Forall (fun m => m_verbose m = true /\ m_be m = host_be /\ exists args, decodes_to m args)
         (export_info_msgs from_be created texts).
Proof.
  unfold export_info_msgs. constructor.
  - split; [reflexivity|]. split; [reflexivity|].
    destruct (export_created_decodes from_be created) as [args [D _]]. exists args. exact D.
  - induction texts as [|t r IH]; [constructor|]. cbn [flat_map]. apply Forall_app. split; [|exact IH].
    destruct (N.eq_dec (plen t) 0) as [Z|Z].
    { rewrite (export_info_text_skipped from_be t (or_introl Z)). constructor. }
    destruct (N.le_gt_cases (plen t) 65510) as [H|H].
    + destruct (export_info_text_decodes from_be t) as [m [E [V D]]]; [lia|]. rewrite E. cbn [opt_list].
      constructor; [|constructor]. split; [exact V|]. split; [|eexists; exact D].
      unfold export_info_text_msg in E. destruct (plen t =? 0); [discriminate|].
      destruct ((0 <? fst (dlt_args_or_default [SStr t])) && _); [|discriminate]. inversion E. reflexivity.
    + rewrite (export_info_text_skipped from_be t (or_intror H)). constructor.
Qed.

Theorem export_flag_independent_of_source texts created :
  export_info_msgs true created texts = export_info_msgs false created texts.
Proof. reflexivity. Qed.

(* ---- blf AppText: every text gives a message (no panic); it carries the text, cut to a prefix when it is longer
   than what fits a DLT message *)
Lemma char_boundary_le_le s k : (char_boundary_le s k <= k)%nat.
Proof. induction k as [|k IH]; cbn [char_boundary_le]; [lia|]. destruct (is_cont _); lia. Qed.
Lemma blf_cut_short text : plen (blf_cut text) <= BLF_TEXT_MAX.
Proof.
  unfold blf_cut. destruct (plen text <=? BLF_TEXT_MAX) eqn:E; [now apply N.leb_le|].
  generalize BLF_TEXT_MAX as mx. intros mx.
  pose proof (char_boundary_le_le text (N.to_nat mx)) as B.
  pose proof (firstn_le_length (char_boundary_le text (N.to_nat mx)) text) as L.
  unfold plen. lia.
Qed.
Lemma blf_cut_prefix text : exists rest, text = blf_cut text ++ rest /\ (plen text <= BLF_TEXT_MAX -> rest = []).
Proof.
  unfold blf_cut. destruct (plen text <=? BLF_TEXT_MAX) eqn:E.
  - exists []. now rewrite app_nil_r.
  - eexists. split; [symmetry; apply firstn_skipn|]. apply N.leb_gt in E. intros; lia.
Qed.

Theorem blf_apptext_decodes text :
  exists m, blf_apptext_msg text = Ok m /\ m_verbose m = true /\ decodes_to m [str_arg (m_be m) (blf_cut text)].
Proof.
  assert (H : plen (blf_cut text) < 65535).
  { eapply N.le_lt_trans; [apply blf_cut_short|]. vm_compute. reflexivity. }
  destruct (dlt_args_str _ H) as [E D]. unfold blf_apptext_msg. rewrite E.
  eexists. split; [reflexivity|]. split; [reflexivity|].
  unfold decodes_to, bmsg_args. cbn [m_be m_verbose m_noar m_payload].
  split; [exact D|]. split; [reflexivity|]. constructor; [reflexivity|constructor].
Qed.

(* ---- anonymize plugin: the sample string is written in the order of the message *)
Lemma dec_aux_length : forall f n acc, (length (dec_aux f n acc) <= f + length acc)%nat.
Proof.
  induction f as [|f IH]; intros n acc; cbn [dec_aux]; [lia|].
  destruct (n <? 10); cbn [length]; [lia|].
  specialize (IH (n / 10) ((48 + n mod 10) :: acc)). cbn [length] in IH. lia.
Qed.
Lemma pos_size_le : forall q k, N.pos q < 2 ^ N.of_nat k -> (Pos.size_nat q <= k)%nat.
Proof.
  induction q as [q IH|q IH|]; intros k H; (destruct k as [|k]; [cbn in H; lia|]);
  cbn [Pos.size_nat]; replace (N.of_nat (S k)) with (N.succ (N.of_nat k)) in H by lia;
  rewrite N.pow_succ_r' in H.
  - apply le_n_S, IH. lia.
  - apply le_n_S, IH. lia.
  - lia.
Qed.
Lemma size_nat_le64 n : n < 2 ^ 64 -> (N.size_nat n <= 64)%nat.
Proof.
  intros H. destruct n as [|q]; [cbn; lia|]. cbn [N.size_nat]. apply pos_size_le. exact H.
Qed.
Lemma anon_text_short rt : rt < 2 ^ 64 -> plen (anon_text rt) <= 100.
Proof.
  intros H. unfold anon_text. rewrite !plen_app. change (plen s_anon) with 22. change (plen [109; 115]) with 2.
  assert (D : plen (dec (rt / 1000)) <= 66).
  { unfold dec, plen. pose proof (dec_aux_length (S (N.size_nat (rt / 1000))) (rt / 1000) []) as L. cbn [length] in L.
    assert (S1 : (N.size_nat (rt / 1000) <= 64)%nat).
    { apply size_nat_le64. eapply N.le_lt_trans; [|exact H]. apply N.div_le_upper_bound; lia. }
    lia. }
  lia.
Qed.

Theorem anon_verbose_decodes (m : bmsg) rt :
  m_verbose m = true -> rt < 2 ^ 64 ->
  bmsg_args (anon_msg m rt) = Ok [str_arg (m_be m) (anon_text rt)] /\
  m_be (anon_msg m rt) = m_be m /\ m_verbose (anon_msg m rt) = true.
Proof.
  intros V H. unfold anon_msg. rewrite V. cbn [m_be m_verbose]. split; [|split; reflexivity].
  unfold bmsg_args. cbn [m_be m_verbose m_payload].
  pose proof (anon_text_short rt H) as L. set (t := anon_text rt) in *.
  assert (W : wf_args (m_be m) [str_arg (m_be m) t]).
  { constructor; [|constructor]. apply wf_value_arg. cbn [wf_value]. rewrite plen_app. change (plen [0]) with 1. lia. }
  assert (E : word_bytes (m_be m) 4 (N.lor TI_STRG SCOD_UTF8) ++ word_bytes (m_be m) 2 (trunc 16 (plen t + 1)) ++ t ++ [0]
              = enc_args (m_be m) [str_arg (m_be m) t]).
  { cbn [enc_args flat_map]. rewrite app_nil_r. unfold enc_arg, str_arg. cbn [value_arg value_ti value_raw a_ti a_raw].
    change (is_lenpref (N.lor TI_STRG SCOD_UTF8)) with true. cbv iota.
    rewrite plen_app. change (plen [0]) with 1. reflexivity. }
  rewrite E. apply decode_encode; [exact W|].
  unfold fits, isizemax. cbn [enc_args flat_map]. rewrite app_nil_r, enc_arg_plen.
  unfold str_arg. cbn [value_arg value_raw a_raw]. rewrite plen_app. change (plen [0]) with 1.
  destruct (is_lenpref _); lia.
Qed.

(* ---- text converters: the verbose log message carries no argument, noar says so *)
Theorem textline_log_decodes : decodes_to textline_log_msg [].
Proof. unfold decodes_to. split; [reflexivity|]. split; [reflexivity|constructor]. Qed.

(* the id of a non-verbose message built with `to_ne_bytes` is read back with the flag the message carries *)
Theorem can_frame_id_reads_back frame_id data :
  frame_id < 2 ^ 32 -> plen data <= 65000 ->
  exists rest, bmsg_args (can_frame_msg frame_id data) = Ok ({| a_ti := 0; a_be := host_be; a_raw := word_bytes host_be 4 frame_id |} :: rest) /\
               word_val (m_be (can_frame_msg frame_id data)) (word_bytes host_be 4 frame_id) = frame_id.
Proof.
  intros H L. unfold can_frame_msg, bmsg_args. cbn [m_be m_verbose m_payload].
  split with (x := if 0 <? plen data then [{| a_ti := 0; a_be := host_be; a_raw := data |}] else []).
  split; [|apply word_val_word_bytes_small; exact H].
  rewrite firstn_all2.
  2:{ rewrite app_length, word_bytes_length. unfold plen, LEN_WO_PAYLOAD in *. lia. }
  set (p := word_bytes host_be 4 frame_id ++ data).
  assert (Hp : plen p = 4 + plen data) by (unfold p; rewrite plen_app, plen_word_bytes; reflexivity).
  assert (S0 : slice_chk p 0 4 = Ok (word_bytes host_be 4 frame_id)).
  { pose proof (slice_chk_app_mid [] (word_bytes host_be 4 frame_id) data) as X.
    rewrite plen_nil, plen_word_bytes in X. exact X. }
  assert (F : length p = S (S (S (S (length data))))).
  { unfold p. rewrite app_length, word_bytes_length. reflexivity. }
  assert (Hle : (4 <=? plen p) = true) by (apply N.leb_le; lia).
  set (it0 := iter_init false host_be).
  assert (N0 : arg_next p it0 = Ok (Some {| a_ti := 0; a_be := host_be; a_raw := word_bytes host_be 4 frame_id |}, with_index it0 4)).
  { unfold arg_next. cbn [it0 iter_init it_verbose it_index it_be]. rewrite Hle, S0. reflexivity. }
  unfold msg_args, msg_args_st. fold it0. rewrite F.
  destruct (0 <? plen data) eqn:D.
  - apply N.ltb_lt in D. assert (Hlt : (4 <? plen p) = true) by (apply N.ltb_lt; lia).
    assert (S1 : slice_chk p 4 (plen p) = Ok data).
    { pose proof (slice_chk_app_mid (word_bytes host_be 4 frame_id) data []) as X.
      rewrite app_nil_r, plen_word_bytes in X. fold p in X. rewrite Hp. exact X. }
    assert (N1 : arg_next p (with_index it0 4) = Ok (Some {| a_ti := 0; a_be := host_be; a_raw := data |}, with_index (with_index it0 4) (plen p))).
    { unfold arg_next. cbn [it0 iter_init with_index it_verbose it_index it_be]. cbv iota. rewrite Hlt, S1. reflexivity. }
    assert (N2 : arg_next p (with_index (with_index it0 4) (plen p)) = Ok (None, with_index (with_index it0 4) (plen p))).
    { unfold arg_next. cbn [it0 iter_init with_index it_verbose it_index it_be].
      destruct (plen p) as [|q] eqn:Q; [lia|].
      destruct q as [q|q|]; try reflexivity. destruct q as [q|q|]; try reflexivity.
      destruct q; reflexivity. }
    rewrite collect_S, N0, collect_S, N1, collect_S, N2. reflexivity.
  - apply N.ltb_ge in D. assert (Hlt : (4 <? plen p) = false) by (apply N.ltb_ge; lia).
    assert (N1 : arg_next p (with_index it0 4) = Ok (None, with_index it0 4)).
    { unfold arg_next. cbn [it0 iter_init with_index it_verbose it_index it_be]. cbv iota. rewrite Hlt. reflexivity. }
    rewrite collect_S, N0, collect_S, N1. reflexivity.
Qed.
