(* Proofs about Dlt/Text.v: the decimal printer is the canonical one, two's complement printing,
   rendering of typed values = canonical form, no panic on whatever the iterator yields. *)
From Coq Require Import List NArith ZArith Bool Lia.
From AdltV Require Import Base.Res Base.MachInt Dlt.Args Dlt.ArgsProofs Dlt.Text.
Import ListNotations.
Open Scope N_scope.

(* ------------------------------------------------------------------ decimal printer *)
(* value of a digit string, continuing from [init] *)
Definition dval (l : bytes) (init : N) : N := fold_left (fun a d => a * 10 + (d - 48)) l init.
Definition is_digit (d : N) : Prop := 48 <= d <= 57.

Lemma size_nat_gt n : n < 2 ^ N.of_nat (N.size_nat n).
Proof.
  destruct n as [|p]; [cbn; lia|]. cbn [N.size_nat].
  induction p as [p IH|p IH|].
  - cbn [Pos.size_nat]. replace (N.of_nat (S (Pos.size_nat p))) with (N.succ (N.of_nat (Pos.size_nat p))) by lia.
    rewrite N.pow_succ_r'. lia.
  - cbn [Pos.size_nat]. replace (N.of_nat (S (Pos.size_nat p))) with (N.succ (N.of_nat (Pos.size_nat p))) by lia.
    rewrite N.pow_succ_r'. lia.
  - cbn. lia.
Qed.

Lemma div10_lt_pow n f : 10 <= n -> n < 2 ^ N.of_nat (S f) -> n / 10 < 2 ^ N.of_nat f.
Proof.
  intros H10 H. replace (N.of_nat (S f)) with (N.succ (N.of_nat f)) in H by lia. rewrite N.pow_succ_r' in H.
  apply N.div_lt_upper_bound; lia.
Qed.

Lemma dec_aux_S f n acc : dec_aux (S f) n acc =
  if n <? 10 then (48 + n) :: acc else dec_aux f (n / 10) ((48 + n mod 10) :: acc).
Proof. reflexivity. Qed.

Lemma dec_aux_val : forall f n acc, n < 2 ^ N.of_nat f -> dval (dec_aux (S f) n acc) 0 = dval acc n.
Proof.
  induction f as [|f IH]; intros n acc H.
  - cbn in H. assert (n = 0) by lia. subst n. reflexivity.
  - rewrite dec_aux_S. destruct (n <? 10) eqn:E.
    + apply N.ltb_lt in E. unfold dval. cbn [fold_left]. f_equal. lia.
    + apply N.ltb_ge in E. rewrite IH by (apply div10_lt_pow; assumption).
      unfold dval. cbn [fold_left]. f_equal.
      rewrite (N.add_comm 48), N.add_sub, N.mul_comm. symmetry. apply N.div_mod. discriminate.
Qed.

Lemma dec_aux_digits : forall f n acc, Forall is_digit acc -> Forall is_digit (dec_aux f n acc).
Proof.
  induction f as [|f IH]; intros n acc H; [exact H|].
  rewrite dec_aux_S. destruct (n <? 10) eqn:E.
  - apply N.ltb_lt in E. constructor; [unfold is_digit; lia|exact H].
  - apply IH. constructor; [|exact H]. unfold is_digit.
    assert (B : n mod 10 < 10) by (apply N.mod_upper_bound; discriminate).
    generalize dependent (n mod 10). intros m B. lia.
Qed.

Lemma dec_aux_head : forall f n acc, n < 2 ^ N.of_nat f -> 0 < n ->
  exists d r, dec_aux (S f) n acc = d :: r /\ d <> 48.
Proof.
  induction f as [|f IH]; intros n acc H Hp.
  - cbn in H. lia.
  - rewrite dec_aux_S. destruct (n <? 10) eqn:E.
    + exists (48 + n), acc. split; [reflexivity|lia].
    + apply N.ltb_ge in E. apply IH; [apply div10_lt_pow; assumption|].
      apply N.div_str_pos. lia.
Qed.

(* [dec n] is THE decimal numeral of n: digits only, value n, no leading zero (except "0") *)
Theorem dec_canonical n :
  Forall is_digit (dec n) /\ dval (dec n) 0 = n /\
  (n = 0 -> dec n = [48]) /\ (0 < n -> exists d r, dec n = d :: r /\ d <> 48).
Proof.
  unfold dec. repeat split.
  - apply dec_aux_digits. constructor.
  - rewrite dec_aux_val by apply size_nat_gt. reflexivity.
  - intros ->. reflexivity.
  - intros H. apply dec_aux_head; [apply size_nat_gt|exact H].
Qed.

(* ------------------------------------------------------------------ two's complement *)
Lemma sdec_twos (k : nat) (z : Z) : (0 < k)%nat ->
  (- 2 ^ (Z.of_nat (8 * k) - 1) <= z < 2 ^ (Z.of_nat (8 * k) - 1))%Z ->
  sdec (8 * N.of_nat k) (twos k z) = zdec z.
Proof.
  intros Hk Hz. unfold sdec, twos, zdec.
  set (W := Z.of_nat (8 * k)) in *.
  assert (HW : (1 <= W)%Z) by (unfold W; lia).
  set (P := (2 ^ (W - 1))%Z) in *.
  assert (HP : (0 < P)%Z) by (unfold P; apply Z.pow_pos_nonneg; lia).
  assert (H2 : (2 ^ W = 2 * P)%Z).
  { unfold P. replace W with (Z.succ (W - 1)) at 1 by lia. rewrite Z.pow_succ_r by lia. reflexivity. }
  assert (Nw : Z.of_N (2 ^ (8 * N.of_nat k)) = (2 * P)%Z).
  { rewrite N2Z.inj_pow. rewrite <- H2. f_equal. unfold W. lia. }
  assert (Nw1 : Z.of_N (2 ^ (8 * N.of_nat k - 1)) = P).
  { rewrite N2Z.inj_pow. unfold P. f_equal. rewrite N2Z.inj_sub by lia. unfold W. lia. }
  rewrite H2.
  destruct (z <? 0)%Z eqn:Ez.
  - apply Z.ltb_lt in Ez.
    assert (Hm : (z mod (2 * P) = z + 2 * P)%Z).
    { symmetry. apply Z.mod_unique with (q := (-1)%Z); lia. }
    rewrite Hm.
    assert (E : (Z.to_N (z + 2 * P) <? 2 ^ (8 * N.of_nat k - 1)) = false).
    { apply N.ltb_ge. apply N2Z.inj_le. rewrite Nw1, Z2N.id by lia. lia. }
    rewrite E. f_equal. f_equal. apply N2Z.inj. rewrite N2Z.inj_sub.
    + rewrite Nw, !Z2N.id by lia. lia.
    + apply N2Z.inj_le. rewrite Nw, Z2N.id by lia. lia.
  - apply Z.ltb_ge in Ez.
    rewrite Z.mod_small by lia.
    assert (E : (Z.to_N z <? 2 ^ (8 * N.of_nat k - 1)) = true).
    { apply N.ltb_lt. apply N2Z.inj_lt. rewrite Nw1, Z2N.id by lia. lia. }
    rewrite E. reflexivity.
Qed.

Lemma twos_bound (k : nat) z : twos k z < 2 ^ N.of_nat (8 * k).
Proof.
  unfold twos. apply N2Z.inj_lt. rewrite N2Z.inj_pow.
  assert (H : (0 < 2 ^ Z.of_nat (8 * k))%Z) by (apply Z.pow_pos_nonneg; lia).
  pose proof (Z.mod_pos_bound z _ H) as B. rewrite Z2N.id by lia.
  replace (Z.of_N (N.of_nat (8 * k))) with (Z.of_nat (8 * k)) by lia. simpl (Z.of_N 2). lia.
Qed.

(* ------------------------------------------------------------------ rendering *)
Section TextProofs.
  Variable fdisp32 : N -> bytes.
  Variable fdisp64 : N -> bytes.
  Variable lossy : bytes -> bytes.
  Variable w1252 : bytes -> bytes.
  Notation render_arg := (render_arg fdisp32 fdisp64 lossy w1252).
  Notation process_args := (process_args fdisp32 fdisp64 lossy w1252).
  Notation payload_text := (payload_text fdisp32 fdisp64 lossy w1252).
  Notation canon_value := (canon_value fdisp32 fdisp64 lossy w1252).
  Notation canon_text := (canon_text fdisp32 fdisp64 lossy w1252).

  (* no panic on anything the iterator yields *)
  Lemma render_arg_ok a : dec_inv a -> exists t, render_arg a = Ok t.
  Proof.
    intros H. unfold render_arg. unfold dec_inv in H.
    destruct (has (a_ti a) TI_BOOL).
    - specialize (H eq_refl). destruct (a_raw a) as [|v r]; [discriminate H|eauto].
    - destruct (has (a_ti a) TI_UINT); [eauto|].
      destruct (has (a_ti a) TI_SINT); [eauto|].
      destruct (has (a_ti a) TI_FLOA); [eauto|].
      destruct (has (a_ti a) TI_RAWD); [eauto|].
      destruct (has (a_ti a) TI_STRG); [|eauto].
      destruct (N.land (a_ti a) TI_MASK_SCOD =? SCOD_UTF8); [eauto|].
      destruct (N.land (a_ti a) TI_MASK_SCOD =? SCOD_ASCII); [eauto|].
      destruct (N.land (a_ti a) TI_MASK_SCOD =? SCOD_HEX); [eauto|].
      destruct (N.land (a_ti a) TI_MASK_SCOD =? SCOD_BIN); eauto.
  Qed.

  Lemma process_args_ok : forall l first, Forall dec_inv l -> exists t, process_args first l = Ok t.
  Proof.
    induction l as [|a r IH]; intros first H; [cbn; eauto|].
    apply Forall_cons_iff in H. destruct H as [Ha Hr].
    cbn [Text.process_args]. destruct (render_arg_ok a Ha) as [t Et]. rewrite Et.
    destruct (IH false Hr) as [t' Et']. rewrite Et'. eauto.
  Qed.

  Theorem payload_text_total be p : fits p -> wf_bytes p -> exists t, payload_text be p = Ok t.
  Proof.
    intros Hf Hw. unfold Text.payload_text, msg_args.
    destruct (msg_args_st_total true be p Hf Hw) as [l [it' [E [_ [_ Hinv]]]]]. rewrite E.
    apply process_args_ok. apply Hinv. reflexivity.
  Qed.

  (* typed values render to their canonical form *)
  Lemma word_val_value be (k : nat) v : v < 2 ^ N.of_nat (8 * k) -> word_val be (word_bytes be k v) = v.
  Proof.
    intros H. apply word_val_word_bytes_small.
    replace (256 ^ N.of_nat k) with (2 ^ N.of_nat (8 * k)); [exact H|].
    replace (N.of_nat (8 * k)) with (8 * N.of_nat k) by lia. rewrite N.pow_mul_r. reflexivity.
  Qed.

  Lemma render_value be v : wf_value v -> render_arg (value_arg be v) = Ok (canon_value v).
  Proof.
    destruct v as [b|t z|t n|t bits|u s|b]; cbn [wf_value]; unfold value_arg, Text.render_arg;
      cbn [a_ti a_be a_raw value_ti value_raw Text.canon_value].
    - intros _. destruct b; reflexivity.
    - intros [Ht Hz]. destruct (int_tyle_cases t Ht) as [E|[E|[E|[E|E]]]]; subst t;
        (match goal with |- context [width_bytes ?t] => set (k := width_bytes t) in * end;
         change (has _ TI_BOOL) with false; change (has _ TI_UINT) with false; change (has _ TI_SINT) with true; cbn iota;
         rewrite plen_word_bytes; rewrite (word_val_value be k) by apply twos_bound;
         change (is_width (N.of_nat k)) with true; cbn iota;
         rewrite sdec_twos; [reflexivity|unfold k; cbv; lia|exact Hz]).
    - intros [Ht Hn]. destruct (int_tyle_cases t Ht) as [E|[E|[E|[E|E]]]]; subst t;
        (match goal with |- context [width_bytes ?t] => set (k := width_bytes t) in * end;
         change (has _ TI_BOOL) with false; change (has _ TI_UINT) with true; cbn iota;
         rewrite plen_word_bytes; rewrite (word_val_value be k) by exact Hn;
         change (is_width (N.of_nat k)) with true; reflexivity).
    - intros [[E|E] Hb]; subst t;
        (match goal with |- context [width_bytes ?t] => set (k := width_bytes t) in * end;
         change (has _ TI_BOOL) with false; change (has _ TI_UINT) with false; change (has _ TI_SINT) with false;
         change (has _ TI_FLOA) with true; cbn iota;
         rewrite plen_word_bytes; rewrite (word_val_value be k) by exact Hb; reflexivity).
    - intros _. destruct u; reflexivity.
    - intros _. reflexivity.
  Qed.

  Fixpoint join_rest (l : list bytes) : bytes :=
    match l with [] => [] | t :: r => (32 :: t) ++ join_rest r end.
  Lemma join_sp_cons t r : join_sp (t :: r) = t ++ join_rest r.
  Proof.
    revert t. induction r as [|t' r IH]; intros t; [cbn; now rewrite app_nil_r|].
    change (join_sp (t :: t' :: r)) with (t ++ 32 :: join_sp (t' :: r)). rewrite IH. reflexivity.
  Qed.

  Lemma process_values_rest be vals : Forall wf_value vals ->
    process_args false (map (value_arg be) vals) = Ok (join_rest (map canon_value vals)).
  Proof.
    induction vals as [|v r IH]; intros H; [reflexivity|].
    apply Forall_cons_iff in H. destruct H as [Hv Hr].
    cbn [map Text.process_args join_rest]. rewrite render_value by exact Hv. rewrite IH by exact Hr. reflexivity.
  Qed.

  Lemma process_values be vals : Forall wf_value vals ->
    process_args true (map (value_arg be) vals) = Ok (canon_text vals).
  Proof.
    destruct vals as [|v r]; intros H; [reflexivity|].
    apply Forall_cons_iff in H. destruct H as [Hv Hr].
    unfold Text.canon_text. cbn [map Text.process_args]. rewrite join_sp_cons.
    rewrite render_value by exact Hv. rewrite process_values_rest by exact Hr. reflexivity.
  Qed.

  Theorem text_canonical be vals :
    Forall wf_value vals -> fits (payload_from_args (map (value_arg be) vals)) ->
    payload_text be (payload_from_args (map (value_arg be) vals)) = Ok (canon_text vals).
  Proof.
    intros Hwf Hf. unfold Text.payload_text. rewrite payload_from_values in *.
    rewrite decode_encode; [|apply wf_values_args; exact Hwf|exact Hf].
    apply process_values, Hwf.
  Qed.

  Theorem text_canonical_truncated be vals k :
    Forall wf_value vals -> fits (payload_from_args (map (value_arg be) vals)) ->
    payload_text be (firstn k (payload_from_args (map (value_arg be) vals)))
    = Ok (canon_text (firstn (n_complete be k (map (value_arg be) vals)) vals)).
  Proof.
    intros Hwf Hf. unfold Text.payload_text. rewrite payload_from_values in *.
    rewrite truncation_prefix; [|apply wf_values_args; exact Hwf|exact Hf].
    rewrite firstn_map. apply process_values. apply Forall_firstn', Hwf.
  Qed.
End TextProofs.

(* ------------------------------------------------------------------ the charset decoder models on ASCII *)
Definition ascii (s : bytes) : Prop := Forall (fun b => b < 128) s.

Lemma lossy_aux_ascii : forall s f, ascii s -> (length s <= f)%nat -> lossy_aux f s = s.
Proof.
  induction s as [|b r IH]; intros f H Hf.
  - destruct f; reflexivity.
  - destruct f as [|f]; [cbn in Hf; lia|].
    apply Forall_cons_iff in H. destruct H as [Hb Hr].
    cbn [lossy_aux utf8_step]. apply N.ltb_lt in Hb. rewrite Hb. cbn [firstn skipn app].
    rewrite IH; [reflexivity|exact Hr|cbn in Hf; lia].
Qed.

Lemma utf8_lossy_model_ascii s : ascii s -> utf8_lossy_model s = s.
Proof. intros H. apply lossy_aux_ascii; [exact H|lia]. Qed.

Lemma w1252_model_ascii s : ascii s -> w1252_model s = s.
Proof.
  induction s as [|b r IH]; intros H; [reflexivity|].
  apply Forall_cons_iff in H. destruct H as [Hb Hr].
  unfold w1252_model in *. cbn [flat_map]. rewrite IH by exact Hr.
  unfold w1252_cp, utf8_enc. apply N.ltb_lt in Hb. rewrite Hb. cbn [orb]. rewrite Hb. reflexivity.
Qed.

Lemma strip_nul_ascii s : ascii s -> ascii (strip_nul s).
Proof.
  induction s as [|b r IH]; intros H; [constructor|].
  apply Forall_cons_iff in H. destruct H as [Hb Hr].
  destruct r as [|c r'].
  - cbn [strip_nul]. destruct (b =? 0); constructor; [exact Hb|constructor].
  - change (strip_nul (b :: c :: r')) with (b :: strip_nul (c :: r')). constructor; [exact Hb|apply IH, Hr].
Qed.

(* with the decoder models, an ASCII string argument is shown as its bytes, one trailing NUL dropped,
   CR/LF/TAB as spaces — in either string coding *)
Theorem canon_ascii_string fd32 fd64 utf8 s : ascii s ->
  canon_value fd32 fd64 utf8_lossy_model w1252_model (VStr utf8 s) = map nl2sp (strip_nul s).
Proof.
  intros H. cbn [canon_value]. destruct s as [|b r]; [reflexivity|].
  destruct utf8; [rewrite utf8_lossy_model_ascii|rewrite w1252_model_ascii]; try reflexivity; apply strip_nul_ascii, H.
Qed.

Lemma strip_nul_spec s : strip_nul (s ++ [0]) = s.
Proof.
  induction s as [|b r IH]; [reflexivity|].
  cbn [app strip_nul]. destruct (r ++ [0]) as [|c r'] eqn:E; [destruct r; discriminate|].
  now rewrite IH.
Qed.

Lemma strip_nul_no_nul s x : x <> 0 -> strip_nul (s ++ [x]) = s ++ [x].
Proof.
  intros Hx. induction s as [|b r IH].
  - cbn. apply N.eqb_neq in Hx. now rewrite Hx.
  - cbn [app strip_nul]. destruct (r ++ [x]) as [|c r'] eqn:E; [destruct r; discriminate|].
    now rewrite IH.
Qed.
