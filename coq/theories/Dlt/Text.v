(* Model of the text rendering of verbose payloads, src/dlt/mod.rs:
   `DltMessage::process_msg_arg_iter` (per-type rendering, space separation) and the verbose branch of
   `DltMessage::payload_as_text`.  Text is the list of the UTF-8 bytes of the Rust `String`.
   External code = Section variables:
     [fdisp32]/[fdisp64]  `Display` of f32/f64 given the IEEE bit pattern
     [lossy]              `String::from_utf8_lossy` (as UTF-8 bytes)
     [w1252]              `encoding_rs::WINDOWS_1252.decode_without_bom_handling` (as UTF-8 bytes)
   `RE_NEW_LINE.replace_all(s, " ")` ([\r\n\t] -> ' ') is modelled on the UTF-8 bytes: the three
   characters are ASCII and never occur inside a multi-byte sequence of well-formed UTF-8.
   `itoa::Buffer::format` = the decimal printer [dec] / [sdec].
   No proofs in this file (proofs: Dlt/TextProofs.v). *)
From Coq Require Import List NArith ZArith Bool.
From AdltV Require Import Base.Res Base.MachInt Dlt.Args.
Import ListNotations.
Open Scope N_scope.

(* ---- decimal printer (itoa) *)
Fixpoint dec_aux (fuel : nat) (n : N) (acc : bytes) : bytes :=
  match fuel with
  | O => acc
  | S f => if n <? 10 then (48 + n) :: acc else dec_aux f (n / 10) ((48 + n mod 10) :: acc)
  end.
Definition dec (n : N) : bytes := dec_aux (S (N.size_nat n)) n [].
(* iN printed from its two's complement bits; [w] = number of bits *)
Definition sdec (w : N) (v : N) : bytes :=
  if v <? 2 ^ (w - 1) then dec v else 45 :: dec (2 ^ w - v).
(* the same printer on Z (used by the canonical form) *)
Definition zdec (z : Z) : bytes :=
  if (z <? 0)%Z then 45 :: dec (Z.to_N (- z)) else dec (Z.to_N z).

(* {:02x} *)
Definition hex_digit (d : N) : N := if d <? 10 then 48 + d else 87 + d.
Definition hex2 (c : N) : bytes := [hex_digit (c / 16); hex_digit (c mod 16)].

(* string literals *)
Definition s_true : bytes := [116; 114; 117; 101].
Definition s_false : bytes := [102; 97; 108; 115; 101].
Definition s_floa_len : bytes := [63; 60; 102; 108; 111; 97; 32; 119; 105; 116; 104; 32; 108; 101; 110; 61]. (* "?<floa with len=" *)
Definition s_raw_eq : bytes := [32; 114; 97; 119; 61].                                                        (* " raw=" *)
Definition s_scod_hex : bytes := [60; 115; 99; 111; 100; 32; 104; 101; 120; 32; 110; 121; 105; 33; 32; 116; 111; 100; 111; 62]. (* "<scod hex nyi! todo>" *)
Definition s_scod_bin : bytes := [60; 115; 99; 111; 100; 32; 98; 105; 110; 32; 110; 121; 105; 33; 32; 116; 111; 100; 111; 62]. (* "<scod bin nyi! todo>" *)
Definition s_scod_unknown : bytes := [60; 115; 99; 111; 100; 32; 117; 110; 107; 110; 111; 119; 110; 32].  (* "<scod unknown " *)

(* `{:?}` of a &[u8] *)
Fixpoint dbg_items (l : bytes) : bytes :=
  match l with
  | [] => []
  | [b] => dec b
  | b :: r => dec b ++ [44; 32] ++ dbg_items r
  end.
Definition dbg_list (l : bytes) : bytes := [91] ++ dbg_items l ++ [93].

(* raw data: "{:02x}" for the first, " {:02x}" for the others *)
Fixpoint hex_items (first : bool) (l : bytes) : bytes :=
  match l with
  | [] => []
  | c :: r => (if first then hex2 c else 32 :: hex2 c) ++ hex_items false r
  end.

Definition nl2sp (c : N) : N := if (c =? 13) || (c =? 10) || (c =? 9) then 32 else c.

(* `raw[0..len - if last == 0 {1} else {0}]` for a non-empty raw *)
Fixpoint strip_nul (raw : bytes) : bytes :=
  match raw with
  | [] => []
  | b :: r =>
      match r with
      | [] => if b =? 0 then [] else [b]
      | _ => b :: strip_nul r
      end
  end.

Definition site_text_index : N := 1802.
Definition is_width (n : N) : bool := (n =? 1) || (n =? 2) || (n =? 4) || (n =? 8) || (n =? 16).

Section Text.
  Variable fdisp32 : N -> bytes.
  Variable fdisp64 : N -> bytes.
  Variable lossy : bytes -> bytes.
  Variable w1252 : bytes -> bytes.

  (* one argument of the loop body of process_msg_arg_iter (without the separator) *)
  Definition render_arg (a : arg) : res bytes :=
    let ti := a_ti a in
    let raw := a_raw a in
    let n := plen raw in
    if has ti TI_BOOL then
      match raw with
      | [] => Panic site_text_index             (* arg.payload_raw[0] *)
      | v :: _ => Ok (if 0 <? v then s_true else s_false)
      end
    else if has ti TI_UINT then
      Ok (if is_width n then dec (word_val (a_be a) raw) else [])
    else if has ti TI_SINT then
      Ok (if is_width n then sdec (8 * n) (word_val (a_be a) raw) else [])
    else if has ti TI_FLOA then
      Ok (if n =? 4 then fdisp32 (word_val (a_be a) raw)
          else if n =? 8 then fdisp64 (word_val (a_be a) raw)
          else s_floa_len ++ dec n ++ s_raw_eq ++ dbg_list raw ++ [62])
    else if has ti TI_RAWD then
      Ok (hex_items true raw)
    else if has ti TI_STRG then
      let scod := N.land ti TI_MASK_SCOD in
      if scod =? SCOD_UTF8 then
        Ok (match raw with [] => [] | _ => map nl2sp (lossy (strip_nul raw)) end)
      else if scod =? SCOD_ASCII then
        Ok (match raw with [] => [] | _ => map nl2sp (w1252 (strip_nul raw)) end)
      else if scod =? SCOD_HEX then Ok s_scod_hex
      else if scod =? SCOD_BIN then Ok s_scod_bin
      else Ok (s_scod_unknown ++ dec scod ++ [62])
    else Ok [].

  (* the loop: `if nr_arg > 0 { text.push(' ') }` then the argument *)
  Fixpoint process_args (first : bool) (args : list arg) : res bytes :=
    match args with
    | [] => Ok []
    | a :: r =>
        match render_arg a with
        | Ok t =>
            match process_args false r with
            | Ok t' => Ok ((if first then t else 32 :: t) ++ t')
            | Panic s => Panic s
            | OutOfFuel => OutOfFuel
            end
        | Panic s => Panic s
        | OutOfFuel => OutOfFuel
        end
    end.

  (* payload_as_text, verbose branch, payload_text = None *)
  Definition payload_text (be : bool) (p : bytes) : res bytes :=
    match msg_args true be p with
    | Ok args => process_args true args
    | Panic s => Panic s
    | OutOfFuel => OutOfFuel
    end.

  (* ---- the canonical form of the property statement *)
  Definition canon_value (v : value) : bytes :=
    match v with
    | VBool b => if b then s_true else s_false
    | VSInt _ z => zdec z
    | VUInt _ n => dec n
    | VFloat t bits => if t =? 3 then fdisp32 bits else fdisp64 bits
    | VStr utf8 s =>
        match s with
        | [] => []
        | _ => map nl2sp ((if utf8 then lossy else w1252) (strip_nul s))
        end
    | VRaw b => hex_items true b
    end.
  Fixpoint join_sp (l : list bytes) : bytes :=
    match l with
    | [] => []
    | [t] => t
    | t :: r => t ++ 32 :: join_sp r
    end.
  Definition canon_text (vals : list value) : bytes := join_sp (map canon_value vals).
End Text.

(* ---- executable models of the two external charset decoders (used to instantiate [lossy]/[w1252] in the
   correspondence check; the theorems above hold for arbitrary functions) *)

(* UTF-8 encoding of a code point < 0x10000 *)
Definition utf8_enc (cp : N) : bytes :=
  if cp <? 128 then [cp]
  else if cp <? 2048 then [192 + cp / 64; 128 + cp mod 64]
  else [224 + cp / 4096; 128 + (cp / 64) mod 64; 128 + cp mod 64].

(* WHATWG index windows-1252, bytes 0x80..0x9F (encoding_rs WINDOWS_1252; every byte is mapped) *)
Definition w1252_hi : list N :=
  [8364; 129; 8218; 402; 8222; 8230; 8224; 8225; 710; 8240; 352; 8249; 338; 141; 381; 143;
   144; 8216; 8217; 8220; 8221; 8226; 8211; 8212; 732; 8482; 353; 8250; 339; 157; 382; 376].
Definition w1252_cp (c : N) : N :=
  if (c <? 128) || (160 <=? c) then c else nth (N.to_nat (c - 128)) w1252_hi 0.
Definition w1252_model (s : bytes) : bytes := flat_map (fun c => utf8_enc (w1252_cp c)) s.

(* String::from_utf8_lossy = core::str::Utf8Chunks: maximal valid prefix, then 1..3 bytes of an ill-formed
   sequence replaced by one U+FFFD ("maximal subpart" rule) *)
Definition is_cont (b : N) : bool := (128 <=? b) && (b <=? 191).
Definition in_range (lo hi b : N) : bool := (lo <=? b) && (b <=? hi).
Definition second3 (b0 b1 : N) : bool :=
  if b0 =? 224 then in_range 160 191 b1
  else if b0 =? 237 then in_range 128 159 b1
  else in_range 128 191 b1.
Definition second4 (b0 b1 : N) : bool :=
  if b0 =? 240 then in_range 144 191 b1
  else if b0 =? 244 then in_range 128 143 b1
  else in_range 128 191 b1.
(* (well-formed?, bytes consumed) for the sequence starting at the head of a non-empty [s] *)
Definition utf8_step (s : bytes) : bool * nat :=
  match s with
  | [] => (true, 0%nat)
  | b0 :: r =>
      if b0 <? 128 then (true, 1%nat)
      else if in_range 194 223 b0 then
        match r with
        | b1 :: _ => if is_cont b1 then (true, 2%nat) else (false, 1%nat)
        | [] => (false, 1%nat)
        end
      else if in_range 224 239 b0 then
        match r with
        | b1 :: r2 =>
            if second3 b0 b1 then
              match r2 with
              | b2 :: _ => if is_cont b2 then (true, 3%nat) else (false, 2%nat)
              | [] => (false, 2%nat)
              end
            else (false, 1%nat)
        | [] => (false, 1%nat)
        end
      else if in_range 240 244 b0 then
        match r with
        | b1 :: r2 =>
            if second4 b0 b1 then
              match r2 with
              | b2 :: r3 =>
                  if is_cont b2 then
                    match r3 with
                    | b3 :: _ => if is_cont b3 then (true, 4%nat) else (false, 3%nat)
                    | [] => (false, 3%nat)
                    end
                  else (false, 2%nat)
              | [] => (false, 2%nat)
              end
            else (false, 1%nat)
        | [] => (false, 1%nat)
        end
      else (false, 1%nat)
  end.
Fixpoint lossy_aux (fuel : nat) (s : bytes) : bytes :=
  match fuel with
  | O => []
  | S f =>
      match s with
      | [] => []
      | _ =>
          let (ok, n) := utf8_step s in
          (if ok then firstn n s else [239; 191; 189]) ++ lossy_aux f (skipn n s)
      end
  end.
Definition utf8_lossy_model (s : bytes) : bytes := lossy_aux (length s) s.
