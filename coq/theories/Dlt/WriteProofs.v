(* Proofs about Dlt/Write.v: what to_write produces for a parsed message is the storage encoding of an
   abstract message ([amsg_of]); hence (C01 single-message lemma) re-parsing consumes exactly the bytes
   written and returns the same fields; writing the re-read message reproduces the bytes; lifted to
   files (concatenated writes drained by the iterator). *)
From Coq Require Import List NArith Bool Lia Arith.
From AdltV Require Import Base.Res Base.MachInt Dlt.Frame Dlt.FrameProofs Dlt.Iter Dlt.IterProofs Dlt.Write.
Import ListNotations.
Open Scope N_scope.

(* ---------------------------------------------------------------- what every parsed message satisfies *)
Definition wf_msg (m : msg) : Prop :=
  len (m_std m) <= 65535 /\
  len (m_std m) = std_ext_header_size (m_std m) + blen (m_payload m) /\
  m_timestamp m < 4294967296 /\
  (has_timestamp (m_std m) = false -> m_timestamp m = 0) /\
  is_some (m_ext m) = has_ext_hdr (m_std m) /\
  exists secs micros, secs < 4294967296 /\ micros < 1000000 /\ m_reception_us m = secs * 1000000 + micros.

(* the fields the property lists *)
Definition same_fields (m m' : msg) : Prop :=
  m_ecu m' = m_ecu m /\ m_reception_us m' = m_reception_us m /\
  m_timestamp m' = m_timestamp m /\ has_timestamp (m_std m') = has_timestamp (m_std m) /\
  mcnt (m_std m') = mcnt (m_std m) /\ is_big_endian (m_std m') = is_big_endian (m_std m) /\
  m_ext m' = m_ext m /\ m_payload m' = m_payload m.

Definition c0 : char4 := (0, 0, 0, 0).
(* the abstract message whose storage encoding to_write emits *)
Definition amsg_of (m : msg) : amsg :=
  {| a_secs := m_reception_us m / 1000000; a_micros := m_reception_us m mod 1000000; a_secu := m_ecu m;
     a_htyp := written_htyp (is_big_endian (m_std m)) false false (has_timestamp (m_std m)) (is_some (m_ext m));
     a_mcnt := mcnt (m_std m); a_ecu := c0; a_sid := c0; a_ts := m_timestamp m;
     a_vmm := match m_ext m with Some e => verb_mstp_mtin e | None => 0 end;
     a_noar := match m_ext m with Some e => noar e | None => 0 end;
     a_apid := match m_ext m with Some e => apid e | None => c0 end;
     a_ctid := match m_ext m with Some e => ctid e | None => c0 end;
     a_payload := m_payload m |}.
(* what reading the written bytes back gives *)
Definition reparsed (idx : N) (m : msg) : msg := expect_storage idx (amsg_of m).

Lemma written_htyp_bits be e s t x :
  N.testbit (written_htyp be e s t x) 0 = x /\ N.testbit (written_htyp be e s t x) 1 = be /\
  N.testbit (written_htyp be e s t x) 2 = e /\ N.testbit (written_htyp be e s t x) 3 = s /\
  N.testbit (written_htyp be e s t x) 4 = t.
Proof. destruct be, e, s, t, x; repeat split. Qed.

Lemma divmod_unique rt secs micros :
  micros < 1000000 -> rt = secs * 1000000 + micros -> rt / 1000000 = secs /\ rt mod 1000000 = micros.
Proof.
  intros Hm E. split.
  - symmetry. apply (N.div_unique rt 1000000 secs micros Hm). lia.
  - symmetry. apply (N.mod_unique rt 1000000 secs micros Hm). lia.
Qed.

Lemma trunc_small w v : v < 2 ^ w -> trunc w v = v.
Proof. intros H. unfold trunc. apply N.mod_small; exact H. Qed.

Section OneMessage.
  Variable m : msg.
  Hypothesis Hwf : wf_msg m.

  Let be := is_big_endian (m_std m).
  Let ts := has_timestamp (m_std m).
  Let ex := is_some (m_ext m).

  Lemma amsg_of_flags :
    has_ext_hdr (a_hdr0 (amsg_of m)) = ex /\ is_big_endian (a_hdr0 (amsg_of m)) = be /\
    has_ecu_id (a_hdr0 (amsg_of m)) = false /\ has_session_id (a_hdr0 (amsg_of m)) = false /\
    has_timestamp (a_hdr0 (amsg_of m)) = ts.
  Proof.
    unfold has_ext_hdr, is_big_endian, has_ecu_id, has_session_id, has_timestamp. cbn [a_hdr0 amsg_of htyp a_htyp].
    apply written_htyp_bits.
  Qed.

  Lemma amsg_of_hs : a_hs (amsg_of m) = 4 + (if ts then 4 else 0) + (if ex then 10 else 0).
  Proof.
    destruct amsg_of_flags as (He & _ & Hc & Hs & Ht).
    unfold a_hs, std_ext_header_size. rewrite He, Hc, Hs, Ht. unfold DLT_MIN_STD_HEADER_SIZE, DLT_EXT_HEADER_SIZE. lia.
  Qed.

  Lemma amsg_of_hs_le : a_hs (amsg_of m) <= std_ext_header_size (m_std m).
  Proof.
    rewrite amsg_of_hs. destruct Hwf as (_ & _ & _ & _ & Hx & _).
    unfold std_ext_header_size, DLT_MIN_STD_HEADER_SIZE, DLT_EXT_HEADER_SIZE. fold ts. fold ex in Hx. rewrite <- Hx.
    destruct (has_ecu_id (m_std m)), (has_session_id (m_std m)), ts, ex; lia.
  Qed.

  Lemma amsg_of_wf : wf_amsg (amsg_of m).
  Proof.
    pose proof amsg_of_hs_le as Hle.
    destruct Hwf as (Hl & Hle2 & Ht & _ & _ & secs & micros & Hs & Hm & E).
    destruct (divmod_unique _ _ _ Hm E) as [Ed Em].
    unfold wf_amsg. cbn [a_secs a_micros a_ts amsg_of]. rewrite Ed, Em.
    repeat split; try lia.
    unfold a_len. cbn [a_payload amsg_of]. lia.
  Qed.

  (* C02_write_ok: to_write succeeds (the rewritten header is never longer than the original one, so the u16
     length cannot overflow) and emits the storage encoding of amsg_of m *)
  Lemma write_is_enc : msg_to_write m = Ok (WOk (enc_storage (amsg_of m))).
  Proof.
    pose proof amsg_of_hs_le as Hle. pose proof amsg_of_hs as Hhs.
    destruct amsg_of_flags as (Fe & Fb & Fc & Fs & Ft).
    destruct Hwf as (Hl & Hle2 & Ht & Hts0 & Hx & secs & micros & Hs & Hm & E).
    destruct (divmod_unique _ _ _ Hm E) as [Ed Em].
    unfold msg_to_write, std_to_write.
    assert (Hisome : is_some (if has_timestamp (m_std m) then Some (m_timestamp m) else None) = ts).
    { unfold ts. destruct (has_timestamp (m_std m)); reflexivity. }
    rewrite Hisome. fold ex.
    cbn [is_some bind].
    assert (L3 : (if ts then add_chk u16max DLT_MIN_STD_HEADER_SIZE 4 else Ok DLT_MIN_STD_HEADER_SIZE)
                 = Ok (4 + (if ts then 4 else 0))).
    { destruct ts; reflexivity. }
    rewrite L3. cbn [bind].
    assert (L4 : (if ex then add_chk u16max (4 + (if ts then 4 else 0)) DLT_EXT_HEADER_SIZE else Ok (4 + (if ts then 4 else 0)))
                 = Ok (a_hs (amsg_of m))).
    { rewrite Hhs. destruct ts, ex; reflexivity. }
    rewrite L4. cbn [bind].
    change (a_hs (amsg_of m) + blen (m_payload m)) with (a_len (amsg_of m)).
    assert (L5 : u16max <? a_len (amsg_of m) = false).
    { unfold a_len, u16max. cbn [a_payload amsg_of]. apply N.ltb_ge. lia. }
    rewrite L5. cbn [bind].
    f_equal. f_equal.
    unfold enc_storage, storage_to_write, storage_from_msg, enc_std, enc_opt. cbn [sh_secs sh_micros sh_ecu].
    rewrite Fe, Fc, Fs, Ft. cbn [a_secs a_micros a_secu a_htyp a_mcnt a_ts a_payload amsg_of app].
    unfold US_PER_SEC. rewrite Ed, Em.
    rewrite (trunc_small 32 secs) by (change (2 ^ 32) with 4294967296; exact Hs).
    rewrite (trunc_small 32 micros) by (change (2 ^ 32) with 4294967296; lia).
    rewrite <- !app_assoc. cbn [app]. do 4 f_equal. f_equal. f_equal. f_equal.
    generalize (a_len (amsg_of m)). intros L.
    clear. unfold ex, ts. cbn [a_vmm a_noar a_apid a_ctid amsg_of].
    destruct (has_timestamp (m_std m)); destruct (m_ext m) as [e|]; cbn [is_some app ext_to_write];
      rewrite <- ?app_assoc; reflexivity.
  Qed.

  (* C02_parse_write_fields *)
  Lemma reparsed_same_fields idx : same_fields m (reparsed idx m).
  Proof.
    destruct amsg_of_flags as (Fe & Fb & Fc & Fs & Ft).
    destruct Hwf as (Hl & Hle2 & Ht & Hts0 & Hx & secs & micros & Hs & Hm & E).
    unfold same_fields, reparsed, expect_storage, expect_with.
    cbn [m_ecu m_reception_us m_timestamp m_std m_ext m_payload].
    rewrite Fe, Fc, Ft.
    change (has_timestamp (a_std (amsg_of m))) with (has_timestamp (a_hdr0 (amsg_of m))).
    change (is_big_endian (a_std (amsg_of m))) with (is_big_endian (a_hdr0 (amsg_of m))).
    rewrite Ft, Fb.
    repeat split.
    - unfold storage_reception_time_us, a_storage_hdr, US_PER_SEC. cbn [sh_secs sh_micros a_secs a_micros amsg_of].
      pose proof (N.div_mod (m_reception_us m) 1000000 ltac:(lia)). lia.
    - unfold ts. destruct (has_timestamp (m_std m)) eqn:Eh; [reflexivity|]. symmetry. apply Hts0. reflexivity.
    - unfold ex. cbn [a_vmm a_noar a_apid a_ctid amsg_of].
      destruct (m_ext m) as [e|]; [|reflexivity]. cbn [is_some]. destruct e; reflexivity.
  Qed.

  Lemma reparsed_wf idx : wf_msg (reparsed idx m).
  Proof.
    destruct amsg_of_flags as (Fe & Fb & Fc & Fs & Ft).
    pose proof amsg_of_wf as (Hs' & Hm' & Ht' & Hl').
    destruct Hwf as (Hl & Hle2 & Ht & Hts0 & Hx & secs & micros & Hs & Hm & E).
    destruct (divmod_unique _ _ _ Hm E) as [Ed Em].
    unfold wf_msg, reparsed, expect_storage, expect_with.
    cbn [m_ecu m_reception_us m_timestamp m_std m_ext m_payload].
    change (has_timestamp (a_std (amsg_of m))) with (has_timestamp (a_hdr0 (amsg_of m))).
    change (has_ext_hdr (a_std (amsg_of m))) with (has_ext_hdr (a_hdr0 (amsg_of m))).
    rewrite Fe, Ft.
    split; [exact Hl'|]. split; [reflexivity|].
    split; [destruct ts; [exact Ht|lia]|].
    split; [intros Hf; rewrite Hf; reflexivity|].
    split; [destruct ex; reflexivity|].
    exists secs, micros. split; [exact Hs|]. split; [exact Hm|].
    unfold storage_reception_time_us, a_storage_hdr, US_PER_SEC. cbn [sh_secs sh_micros a_secs a_micros amsg_of].
    rewrite Ed, Em. reflexivity.
  Qed.

  (* the abstract message of the re-read message is the same one: writing is idempotent *)
  Lemma amsg_of_reparsed idx : amsg_of (reparsed idx m) = amsg_of m.
  Proof.
    destruct amsg_of_flags as (Fe & Fb & Fc & Fs & Ft).
    destruct (reparsed_same_fields idx) as (Se & Sr & St & Sht & Sm & Sb & Sx & Sp).
    unfold amsg_of at 1. rewrite Se, Sr, St, Sht, Sm, Sb, Sx, Sp. reflexivity.
  Qed.
End OneMessage.

(* C02_parse_write_fields, parsing part: the written bytes, followed by nothing / fewer than 4 bytes / the next
   message's marker, are consumed exactly and give [reparsed] *)
Theorem parse_write m idx bytes rest :
  wf_msg m -> msg_to_write m = Ok (WOk bytes) ->
  blen rest < 4 \/ is_storage_pat rest = true ->
  parse_storage idx (bytes ++ rest) = PMsg (blen bytes) (reparsed idx m).
Proof.
  intros Hwf Hw Hrest. rewrite (write_is_enc m Hwf) in Hw. inversion Hw; subst bytes.
  rewrite enc_storage_length. apply parse_storage_enc; [apply amsg_of_wf; exact Hwf|].
  destruct Hrest as [H|H]; [left; exact H|right; left; exact H].
Qed.

Theorem write_normal_form m idx bytes :
  wf_msg m -> msg_to_write m = Ok (WOk bytes) -> msg_to_write (reparsed idx m) = Ok (WOk bytes).
Proof.
  intros Hwf Hw. rewrite (write_is_enc _ (reparsed_wf m Hwf idx)), (amsg_of_reparsed m Hwf idx).
  rewrite <- Hw. symmetry. apply write_is_enc; exact Hwf.
Qed.

(* ---------------------------------------------------------------- every parsed message is wf_msg *)
Lemma byte_at_lt l i : wf_bytes l -> byte_at l i < 256.
Proof.
  intros H. unfold byte_at. destruct (nth_in_or_default i l 0) as [Hin|E]; [|rewrite E; lia].
  unfold wf_bytes in H. rewrite Forall_forall in H. exact (H _ Hin).
Qed.
Lemma wf_bytes_skipn l n : wf_bytes l -> wf_bytes (skipn n l).
Proof.
  unfold wf_bytes. rewrite !Forall_forall. intros H x Hin. apply H.
  rewrite <- (firstn_skipn n l). apply in_or_app. right. exact Hin.
Qed.
Lemma wf_bytes_firstn l n : wf_bytes l -> wf_bytes (firstn n l).
Proof.
  unfold wf_bytes. rewrite !Forall_forall. intros H x Hin. apply H.
  rewrite <- (firstn_skipn n l). apply in_or_app. left. exact Hin.
Qed.
Lemma be32_at_lt l i : wf_bytes l -> be32_at l i < 4294967296.
Proof.
  intros H. unfold be32_at, be32. apply le32_bound; apply byte_at_lt; exact H.
Qed.
Lemma be16_le a b : a < 256 -> b < 256 -> be16 a b <= 65535.
Proof. unfold be16. lia. Qed.


Lemma parse_after_marker_wf hsz pat short sh idx d n m :
  wf_bytes d ->
  sh_secs sh < 4294967296 -> sh_micros sh < 1000000 ->
  parse_after_marker hsz pat short sh idx d = PMsg n m -> wf_msg m.
Proof.
  intros Hd Hs Hm. unfold parse_after_marker.
  assert (Hlen : len (std_from_buf (skipn (N.to_nat hsz) d)) <= 65535).
  { unfold std_from_buf. cbn [len]. apply be16_le; apply byte_at_lt; apply wf_bytes_skipn; exact Hd. }
  remember (std_from_buf (skipn (N.to_nat hsz) d)) as stdh eqn:Estdh. clear Estdh.
  set (hs := std_ext_header_size stdh).
  pose proof (hs_bounds stdh) as Hhs. fold hs in Hhs.
  destruct (N.ltb_spec (len stdh) hs) as [|H1]; [discriminate|].
  destruct (N.ltb_spec (blen d - hsz) (len stdh)) as [|H2]; [destruct short; discriminate|].
  match goal with |- (if ?c then _ else _) = _ -> _ => destruct c end; [discriminate|].
  intros E. inversion E; subst n m. clear E.
  unfold wf_msg, from_headers.
  cbn [m_ecu m_reception_us m_timestamp m_std m_ext m_payload].
  split; [exact Hlen|].
  split.
  { fold hs. unfold blen at 1. rewrite slice_length; [lia|]. unfold blen in H2. lia. }
  split.
  { destruct (has_timestamp stdh); [|lia]. apply be32_at_lt. unfold slice. apply wf_bytes_firstn, wf_bytes_skipn. exact Hd. }
  split; [intros Hf; rewrite Hf; reflexivity|].
  split; [destruct (has_ext_hdr stdh); reflexivity|].
  exists (sh_secs sh), (sh_micros sh). repeat split; assumption.
Qed.

(* storage micros < 10^6 is a hypothesis on the bytes of the storage header *)
Definition storage_micros (d : bytes) : N := le32_at d 8.

Theorem parse_storage_wf idx d n m :
  wf_bytes d -> storage_micros d < 1000000 -> parse_storage idx d = PMsg n m -> wf_msg m.
Proof.
  intros Hd Hmic. unfold parse_storage, storage_from_buf.
  destruct (blen d <? MIN_DLT_MSG_SIZE); [discriminate|].
  destruct (blen d <? 16); [discriminate|].
  destruct (negb (is_storage_pat d)); [discriminate|].
  apply parse_after_marker_wf; [exact Hd| |exact Hmic].
  cbn [sh_secs]. unfold le32_at. apply le32_bound; apply byte_at_lt; exact Hd.
Qed.

Theorem parse_serial_wf idx d n m :
  wf_bytes d -> parse_serial idx d = PMsg n m -> wf_msg m.
Proof.
  intros Hd. unfold parse_serial.
  destruct (blen d <? DLT_SERIAL_HEADER_SIZE + DLT_MIN_STD_HEADER_SIZE); [discriminate|].
  destruct (negb (is_serial_pat d)); [discriminate|].
  apply parse_after_marker_wf; [exact Hd| |]; cbn; lia.
Qed.

(* ---------------------------------------------------------------- files *)
Definition segs_of (ms : list msg) : list seg := map (fun m => ([], amsg_of m)) ms.
Definition reparsed_list (start : N) (ms : list msg) : list msg := expect_list Storage start (segs_of ms).

Lemma write_all_stream ms : Forall wf_msg ms -> write_all ms = Ok (WOk (stream Storage (segs_of ms) [])).
Proof.
  induction 1 as [|m r Hm Hr IH]; cbn [write_all segs_of map stream]; [reflexivity|].
  rewrite (write_is_enc m Hm). cbn [bind]. fold (segs_of r). rewrite IH. cbn [bind app enc]. reflexivity.
Qed.

Lemma clean_segs_of ms : Forall wf_msg ms -> clean Storage (segs_of ms) [].
Proof.
  induction 1 as [|m r Hm Hr IH]; cbn [segs_of map clean].
  - intros i Hi. cbn in Hi. lia.
  - fold (segs_of r). split; [intros i Hi; cbn in Hi; lia|]. split; [|exact IH].
    destruct r as [|m2 r2]; [left; cbn; lia|]. right; left. reflexivity.
Qed.

Lemma reparsed_list_fields : forall ms start, Forall wf_msg ms -> Forall2 same_fields ms (reparsed_list start ms).
Proof.
  induction ms as [|m r IH]; intros start H; [constructor|].
  inversion H as [|? ? Hm Hr]; subst. unfold reparsed_list. cbn [segs_of map expect_list].
  constructor; [apply (reparsed_same_fields m Hm)|apply IH; exact Hr].
Qed.

Lemma reparsed_list_wf : forall ms start, Forall wf_msg ms -> Forall wf_msg (reparsed_list start ms).
Proof.
  induction ms as [|m r IH]; intros start H; [constructor|].
  inversion H as [|? ? Hm Hr]; subst. unfold reparsed_list. cbn [segs_of map expect_list].
  constructor; [apply (reparsed_wf m Hm)|apply IH; exact Hr].
Qed.

Lemma segs_of_reparsed_list : forall ms start, Forall wf_msg ms -> segs_of (reparsed_list start ms) = segs_of ms.
Proof.
  induction ms as [|m r IH]; intros start H; [reflexivity|].
  inversion H as [|? ? Hm Hr]; subst. unfold reparsed_list. cbn [segs_of map expect_list].
  change (expect Storage start (amsg_of m)) with (reparsed start m). rewrite (amsg_of_reparsed m Hm). f_equal.
  apply IH; exact Hr.
Qed.

Lemma expect_list_indices f : forall segs start, map m_index (expect_list f start segs) = map (fun k => start + N.of_nat k) (seq 0 (length segs)).
Proof.
  induction segs as [|[g a] r IH]; intros start; [reflexivity|].
  cbn [expect_list map length seq]. f_equal; [destruct f; cbn; lia|].
  rewrite IH. rewrite <- seq_shift, map_map. apply map_ext. intros k. lia.
Qed.

(* exporting a list of parsed messages and reading the export: every message comes back in order with the same
   fields, nothing is skipped, everything is consumed; exporting what was read gives the same bytes *)
Theorem export_roundtrip start ms :
  Forall wf_msg ms -> start + N.of_nat (length ms) <= u32max ->
  exists bytes st,
    write_all ms = Ok (WOk bytes) /\
    run_iter start bytes = Ok (reparsed_list start ms, st, []) /\
    Forall2 same_fields ms (reparsed_list start ms) /\
    i_skipped st = 0 /\ i_processed st = blen bytes /\ i_index st = start + N.of_nat (length ms) /\
    write_all (reparsed_list start ms) = Ok (WOk bytes).
Proof.
  intros Hwf Hidx.
  exists (stream Storage (segs_of ms) []).
  assert (Hlen : length (segs_of ms) = length ms) by (unfold segs_of; apply map_length).
  assert (Hl2 : (length (segs_of ms) <= length (stream Storage (segs_of ms) []))%nat).
  { clear. induction ms as [|m r IH]; cbn [segs_of map stream length]; [lia|].
    fold (segs_of r). rewrite !app_length. pose proof (enc_length_pos Storage (amsg_of m)). cbn [length]. lia. }
  destruct (drain_stream Storage (segs_of ms) [] (ist_new start)
              (S (length (stream Storage (segs_of ms) []))) (S (length (stream Storage (segs_of ms) []))))
    as (st & Hd & Hi & Hp & Hs & _ & _).
  - reflexivity.
  - apply clean_segs_of; exact Hwf.
  - unfold segs_of. rewrite Forall_map. cbn [snd]. eapply Forall_impl; [|exact Hwf]. intros m Hm. apply amsg_of_wf; exact Hm.
  - cbn [ist_new i_index]. rewrite Hlen. exact Hidx.
  - apply Nat.lt_succ_r. exact Hl2.
  - apply Nat.lt_succ_diag_r.
  - exists st. cbn [tail_of] in *. change (blen []) with 0 in *.
    cbn [ist_new i_index i_processed i_skipped] in *.
    assert (Hg : garbage_total (segs_of ms) = 0).
    { clear. induction ms as [|m r IH]; [reflexivity|]. cbn [segs_of map garbage_total]. fold (segs_of r). rewrite IH. reflexivity. }
    split; [apply write_all_stream; exact Hwf|].
    split; [exact Hd|].
    split; [apply reparsed_list_fields; exact Hwf|].
    split; [lia|]. split; [lia|]. split; [rewrite <- Hlen; lia|].
    rewrite (write_all_stream _ (reparsed_list_wf ms start Hwf)), (segs_of_reparsed_list ms start Hwf). reflexivity.
Qed.
