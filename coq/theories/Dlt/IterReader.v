(* The iterator over ANY buffering reader (Dlt/Iter.v, next_gen / drain_gen) on a stream whose frame markers sit
   only at the message starts: if every fill_buf shows a prefix of the remaining input that is either all of it
   or at least [low] bytes long, and  low >= 16 + 65535  (a complete storage-framed message of maximum length),
   the buffered iterator does exactly what the iterator over the whole buffer does -- hence recovers every
   message (IterProofs.iter_recovers_all).  This is the contract DltMessageIterator relies on when the crate
   wires it to LowMarkBufReader::new(file, 512 * 1024, DLT_MAX_STORAGE_MSG_SIZE [+ 4]); with a smaller low mark
   a window can end inside a message and the theorem's hypothesis (and the real iterator) fails.
   (For arbitrary streams, markers inside messages included, the bound is 65551 + 4: Dlt/ChunkProofs.v.) *)
From Coq Require Import List NArith Bool Lia Arith.
From AdltV Require Import Base.Res Base.MachInt Dlt.Frame Dlt.FrameProofs Dlt.Iter Dlt.IterProofs Dlt.IterTotal.
Import ListNotations.
Open Scope N_scope.

Definition MAX_STORAGE_MSG : N := 16 + 65535.

(* what a reader may show of the remaining input d *)
Definition window_ok (low : N) (d w : bytes) : Prop := (exists e, d = w ++ e) /\ (low <= blen w \/ w = d).
(* both parsers answer on every admissible window what they answer on the whole rest *)
Definition stable (low : N) (d : bytes) : Prop :=
  forall idx w, window_ok low d w ->
    parse_storage idx w = parse_storage idx d /\ parse_serial idx w = parse_serial idx d.

Lemma storage_pat_prefix w e : 4 <= blen w -> is_storage_pat (w ++ e) = is_storage_pat w.
Proof.
  destruct w as [|a [|b [|c [|d w']]]]; unfold blen; cbn [length]; try lia. intros _. reflexivity.
Qed.
Lemma serial_pat_prefix w e : 4 <= blen w -> is_serial_pat (w ++ e) = is_serial_pat w.
Proof.
  destruct w as [|a [|b [|c [|d w']]]]; unfold blen; cbn [length]; try lia. intros _. reflexivity.
Qed.
Lemma own_pat_prefix f w e : 4 <= blen w -> own_pat f (w ++ e) = own_pat f w.
Proof. destruct f; [apply storage_pat_prefix|apply serial_pat_prefix]. Qed.

(* no marker at the current position: both parsers say InvalidData on every window of >= 20 bytes *)
Lemma stable_nomark low d : 20 <= low -> any_marker d = false -> stable low d.
Proof.
  intros Hlow Hm idx w [[e He] [Hl| ->]]; [|split; reflexivity].
  unfold any_marker in Hm. apply orb_false_iff in Hm. destruct Hm as [Hs Hl'].
  assert (Hd : blen w <= blen d) by (rewrite He, blen_app; lia).
  rewrite He in Hs, Hl'. rewrite storage_pat_prefix in Hs by lia. rewrite serial_pat_prefix in Hl' by lia.
  split.
  - rewrite (parse_storage_nopat idx w) by (try lia; exact Hs).
    rewrite He. rewrite parse_storage_nopat; [reflexivity|rewrite blen_app; lia|rewrite storage_pat_prefix by lia; exact Hs].
  - rewrite (parse_serial_nopat idx w) by (try lia; exact Hl').
    rewrite He. rewrite parse_serial_nopat; [reflexivity|rewrite blen_app; lia|rewrite serial_pat_prefix by lia; exact Hl'].
Qed.

(* the parser of the stream's own framing on an encoded message that passes the heuristic *)
Lemma parse_own_enc f idx a rest :
  wf_amsg a -> accept_cond f a rest ->
  match f with Storage => parse_storage | Serial => parse_serial end idx (enc f a ++ rest)
  = PMsg (blen (enc f a)) (expect f idx a).
Proof.
  intros Hwf Hacc. pose proof (enc_length_nat f a) as Hel. rewrite enc_length.
  destruct f; cbn [enc expect own_pat] in *.
  - apply parse_storage_enc; [exact Hwf|].
    destruct Hacc as [H|[H|H]]; [left; exact H|right; left; exact H|right; right].
    intros i Hi. apply H. cbn [enc]. lia.
  - apply parse_serial_enc; [exact Hwf|].
    destruct Hacc as [H|[H|H]]; [left; exact H|right; left; exact H|right; right].
    intros i Hi. apply H. cbn [enc]. lia.
Qed.

(* the acceptance condition survives cutting the following bytes short (a window that ends after the message) *)
Lemma accept_cond_prefix f a R' e : accept_cond f a (R' ++ e) -> accept_cond f a R'.
Proof.
  intros Hacc. destruct (N.lt_ge_cases (blen R') 4) as [Hs|Hs]; [left; exact Hs|].
  destruct Hacc as [H|[H|H]].
  - rewrite blen_app in H. lia.
  - right; left. rewrite own_pat_prefix in H by exact Hs. exact H.
  - right; right. intros i Hi. specialize (H i Hi).
    rewrite app_assoc in H.
    assert (Hsplit : skipn i ((enc f a ++ R') ++ e) = skipn i (enc f a ++ R') ++ e).
    { rewrite skipn_app. replace (i - length (enc f a ++ R'))%nat with 0%nat by (rewrite app_length; lia). reflexivity. }
    rewrite Hsplit in H. rewrite own_pat_prefix in H; [exact H|].
    unfold blen in *. rewrite skipn_length, app_length. lia.
Qed.

Lemma stable_msg low f a R :
  wf_amsg a -> accept_cond f a R -> MAX_STORAGE_MSG <= low -> stable low (enc f a ++ R).
Proof.
  intros Hwf Hacc Hlow idx w [[e He] [Hl| ->]]; [|split; reflexivity].
  unfold MAX_STORAGE_MSG in Hlow.
  pose proof (enc_length f a) as Hel. destruct Hwf as (Hw1 & Hw2 & Hw3 & Hw4).
  assert (Hwf : wf_amsg a) by (repeat split; assumption).
  assert (Hge : (length (enc f a) <= length w)%nat).
  { unfold blen in *. destruct f; lia. }
  (* w = enc f a ++ R' with R = R' ++ e *)
  assert (Hw : w = enc f a ++ firstn (length w - length (enc f a)) R).
  { assert (E : firstn (length w) (enc f a ++ R) = w) by (rewrite He; apply firstn_app_exact; reflexivity).
    rewrite firstn_app in E. rewrite firstn_all2 in E by exact Hge. symmetry. exact E. }
  set (R' := firstn (length w - length (enc f a)) R) in *.
  assert (HR : R = R' ++ e).
  { apply (app_inv_head (enc f a)). rewrite app_assoc, <- Hw. exact He. }
  assert (Hacc' : accept_cond f a R') by (apply (accept_cond_prefix f a R' e); rewrite <- HR; exact Hacc).
  pose proof (min_size_le_enc f a) as Hmin.
  rewrite Hw.
  destruct f; cbn [min_size] in Hmin.
  - split.
    + rewrite (parse_own_enc Storage idx a R' Hwf Hacc'), (parse_own_enc Storage idx a R Hwf Hacc). reflexivity.
    + rewrite !parse_serial_nopat; try reflexivity; try apply is_serial_pat_enc_storage; rewrite blen_app; cbn [enc] in *; lia.
  - split.
    + rewrite !parse_storage_nopat; try reflexivity; try apply is_storage_pat_enc_serial.
      * rewrite blen_app. rewrite Hw, blen_app in Hl. cbn [enc] in *. rewrite HR, blen_app. lia.
      * rewrite <- Hw. lia.
    + rewrite (parse_own_enc Serial idx a R' Hwf Hacc'), (parse_own_enc Serial idx a R Hwf Hacc). reflexivity.
Qed.

(* a message start of a clean stream: the rest of the stream from there is an encoded message that passes the heuristic *)
Lemma starts_decomp f gfin : forall segs off k,
  clean f segs gfin -> Forall (fun s => wf_amsg (snd s)) segs -> In k (starts f off segs) ->
  exists a R, wf_amsg a /\ accept_cond f a R /\ skipn (k - off) (stream f segs gfin) = enc f a ++ R.
Proof.
  induction segs as [|[g a] r IH]; intros off k Hc Hwf Hin; cbn [starts] in Hin; [contradiction|].
  cbn [clean stream] in *. destruct Hc as (_ & Hacc & Hr). inversion Hwf as [|? ? Hwa Hwr]; subst. cbn [snd] in Hwa.
  destruct Hin as [E|Hin].
  - exists a, (stream f r gfin). split; [exact Hwa|]. split; [exact Hacc|].
    subst k. replace (off + length g - off)%nat with (length g) by lia. apply skipn_app_exact. reflexivity.
  - pose proof (starts_ge f r _ _ Hin) as Hge.
    destruct (IH _ _ Hr Hwr Hin) as (a' & R & H1 & H2 & H3).
    exists a', R. split; [exact H1|]. split; [exact H2|].
    replace (k - off)%nat with (length g + (length (enc f a) + (k - (off + length g + length (enc f a)))))%nat by lia.
    rewrite skipn_app_plus, skipn_app_plus. exact H3.
Qed.

Theorem stream_stable f (segs : list seg) gfin low :
  Forall (fun s => wf_amsg (snd s)) segs -> markers_only_at_starts f segs gfin -> MAX_STORAGE_MSG <= low ->
  forall k, stable low (skipn k (stream f segs gfin)).
Proof.
  intros Hwf Hm Hlow k.
  destruct (any_marker (skipn k (stream f segs gfin))) eqn:E.
  - assert (Hclean : clean f segs gfin).
    { apply (clean_of_markers f segs gfin 0%nat). intros i Ei. cbn [plus]. apply Hm; exact Ei. }
    destruct (starts_decomp f gfin segs 0%nat k Hclean Hwf (Hm k E)) as (a & R & H1 & H2 & H3).
    rewrite Nat.sub_0_r in H3. rewrite H3. apply stable_msg; assumption.
  - apply stable_nomark; [unfold MAX_STORAGE_MSG in Hlow; lia|exact E].
Qed.

(* ---------------------------------------------------------------- simulation: any reader vs the Cursor *)
Section AnyReader.
  Variables (R : Type) (fill : R -> R * bytes) (consume : N -> R -> R).
  Variable rem : R -> bytes.          (* the input not yet consumed (what a Cursor would show) *)
  Variable low : N.
  Hypothesis low_ge_min : MIN_DLT_MSG_SIZE <= low.   (* a window shorter than 20 bytes is the whole rest *)
  (* fill_buf does not lose input and shows an admissible window; consume drops what it is told to *)
  Hypothesis fill_spec : forall r, rem (fst (fill r)) = rem r /\ window_ok low (rem r) (snd (fill r)).
  Hypothesis consume_spec : forall r n, n <= blen (snd (fill r)) ->
    rem (consume n (fst (fill r))) = skipn (N.to_nat n) (rem r).

  Definition lift1 (x : res (option msg * ist * R)) : res (option msg * ist * bytes) :=
    match x with Ok (o, st, r) => Ok (o, st, rem r) | Panic s => Panic s | OutOfFuel => OutOfFuel end.
  Definition lift2 (x : res (list msg * ist * R)) : res (list msg * ist * bytes) :=
    match x with Ok (o, st, r) => Ok (o, st, rem r) | Panic s => Panic s | OutOfFuel => OutOfFuel end.

  Definition all_stable (d : bytes) : Prop := forall k, stable low (skipn k d).
  Lemma all_stable_skipn d k : all_stable d -> all_stable (skipn k d).
  Proof. intros H j. rewrite skipn_skipn. apply H. Qed.

  Lemma halves_on_window r st :
    all_stable (rem r) ->
    storage_half false st (snd (fill r)) = storage_half false st (rem r) /\
    serial_half st (snd (fill r)) = serial_half st (rem r).
  Proof.
    intros Hs. destruct (fill_spec r) as [_ Hw]. specialize (Hs 0%nat). cbn [skipn] in Hs.
    destruct (Hs (i_index st) _ Hw) as [E1 E2]. unfold storage_half, serial_half. rewrite E1, E2.
    (* `avail >= MIN_DLT_MSG_SIZE` is the same on the window and on the whole rest *)
    assert (Hav : (MIN_DLT_MSG_SIZE <=? blen (snd (fill r))) = (MIN_DLT_MSG_SIZE <=? blen (rem r))).
    { destruct Hw as [[e He] [Hl|Hl]]; [|rewrite Hl; reflexivity].
      assert (Hd : blen (snd (fill r)) <= blen (rem r)) by (pose proof (f_equal blen He) as Hb; rewrite blen_app in Hb; lia).
      destruct (N.leb_spec MIN_DLT_MSG_SIZE (blen (snd (fill r)))); destruct (N.leb_spec MIN_DLT_MSG_SIZE (blen (rem r))); try reflexivity; lia. }
    rewrite Hav. split; reflexivity.
  Qed.

  Lemma next_gen_sim : forall fuel st r,
    all_stable (rem r) -> lift1 (next_gen R fill consume false fuel st r) = next fuel st (rem r).
  Proof.
    induction fuel as [|fuel IH]; intros st r Hs; [reflexivity|].
    unfold next. rewrite next_S. fold next. cbn [next_gen].
    destruct (fill_spec r) as [Hrem1 Hwin1].
    destruct (halves_on_window r st Hs) as [Hst1 _].
    destruct (fill r) as [r1 w1] eqn:Ef. cbn [fst snd] in *.
    (* the serial half, entered on reader x with rem x = rem r *)
    assert (Hser : forall x, rem x = rem r ->
              lift1 (let '(r2, w2) := fill x in
                     a2 <- serial_half st w2 ;;
                     match a2 with
                     | AYield n m st' => Ok (Some m, st', consume n r2)
                     | ASkip st' => next_gen R fill consume false fuel st' (consume 1 r2)
                     | APass => next_gen R fill consume false fuel st r2
                     | AStop => Ok (None, st, r2)
                     end)%res
              = (a2 <- serial_half st (rem r) ;;
                 match a2 with
                 | AYield n m st' => Ok (Some m, st', skipn (N.to_nat n) (rem r))
                 | ASkip st' => next fuel st' (skipn 1 (rem r))
                 | APass => next fuel st (rem r)
                 | AStop => Ok (None, st, rem r)
                 end)%res).
    { intros x Hx.
      assert (Hsx : all_stable (rem x)) by (rewrite Hx; exact Hs).
      destruct (fill_spec x) as [Hrem2 Hwin2].
      destruct (halves_on_window x st Hsx) as [_ Hse].
      pose proof (consume_spec x) as Hcx.
      destruct (fill x) as [r2 w2] eqn:Ef2. cbn [fst snd] in *.
      rewrite Hse, Hx.
      pose proof (serial_half_cases st w2) as Hc. rewrite Hse, Hx in Hc.
      destruct (serial_half st (rem r)) as [[n m st'|st'| |]|s|]; cbn [bind lift1]; try reflexivity.
      - destruct Hc as (_ & Hn & _). rewrite Hcx by exact Hn. rewrite Hx. reflexivity.
      - destruct Hc as [_ H8]. rewrite IH.
        + rewrite Hcx by lia. rewrite Hx. reflexivity.
        + rewrite Hcx by lia. rewrite Hx. apply all_stable_skipn; exact Hs.
      - destruct Hc.
      - rewrite Hrem2, Hx. reflexivity. }
    destruct (i_det_serial st) eqn:Hdl.
    - cbn [bind]. destruct (i_det_storage st).
      + rewrite IH by exact Hs. reflexivity.
      + apply Hser. reflexivity.
    - rewrite Hst1.
      pose proof (storage_half_cases st w1) as Hc. rewrite Hst1 in Hc.
      pose proof (consume_spec r) as Hcr. rewrite Ef in Hcr. cbn [fst snd] in Hcr.
      destruct (storage_half false st (rem r)) as [[n m st'|st'| |]|s|]; cbn [bind lift1]; try reflexivity.
      + destruct Hc as (_ & Hn & _). rewrite Hcr by exact Hn. reflexivity.
      + destruct Hc as (_ & H20 & _). rewrite IH.
        * rewrite Hcr by lia. reflexivity.
        * rewrite Hcr by lia. apply all_stable_skipn; exact Hs.
      + destruct (i_det_storage st).
        * rewrite IH by (rewrite Hrem1; exact Hs). rewrite Hrem1. reflexivity.
        * apply Hser. exact Hrem1.
      + rewrite Hrem1. reflexivity.
  Qed.

  Lemma drain_gen_sim : forall fuel nfuel st r,
    all_stable (rem r) -> lift2 (drain_gen R fill consume false fuel nfuel st r) = drain_fuel fuel nfuel st (rem r).
  Proof.
    induction fuel as [|fuel IH]; intros nfuel st r Hs; [reflexivity|].
    unfold drain_fuel, drain_l. cbn [drain_gen]. fold (next_l false). fold next. fold (drain_l false). fold drain_fuel.
    pose proof (next_gen_sim nfuel st r Hs) as Hn.
    destruct (next_gen R fill consume false nfuel st r) as [[[o st1] r1]|s|]; cbn [lift1] in Hn; rewrite <- Hn; cbn [bind lift2];
      try reflexivity.
    destruct o as [m|]; [|reflexivity].
    assert (Hs1 : all_stable (rem r1)).
    { destruct (next_suffix nfuel st (rem r) (Some m) st1 (rem r1) (eq_sym Hn)) as [k Hk]. rewrite Hk. apply all_stable_skipn; exact Hs. }
    specialize (IH nfuel st1 r1 Hs1).
    destruct (drain_gen R fill consume false fuel nfuel st1 r1) as [[[ms st2] r2]|s|]; cbn [lift2] in IH; rewrite <- IH; reflexivity.
  Qed.

  (* the recovery theorem for the iterator over any such reader *)
  Theorem iter_recovers_all_any_reader f start (segs : list seg) gfin r0 :
    MAX_STORAGE_MSG <= low ->
    rem r0 = stream f segs gfin ->
    Forall (fun s => wf_amsg (snd s)) segs ->
    markers_only_at_starts f segs gfin ->
    start + N.of_nat (length segs) <= u32max ->
    let n := S (length (stream f segs gfin)) in
    exists st r',
      drain_gen R fill consume false n n (ist_new start) r0 = Ok (expect_list f start segs, st, r') /\
      (exists consumed, gfin = consumed ++ rem r') /\
      blen (rem r') < min_size f /\
      i_index st = start + N.of_nat (length segs) /\
      i_skipped st + blen (rem r') = garbage_total segs + blen gfin /\
      i_processed st + blen (rem r') = blen (stream f segs gfin) /\
      i_processed st <= blen (stream f segs gfin).
  Proof.
    intros Hlow Hr0 Hwf Hm Hidx n.
    destruct (iter_recovers_all f start segs gfin Hwf Hm Hidx) as (st & tail & Hrun & H1 & H2 & H3 & H4 & H5 & H6).
    pose proof (drain_gen_sim n n (ist_new start) r0) as Hsim.
    rewrite Hr0 in Hsim. specialize (Hsim (stream_stable f segs gfin low Hwf Hm Hlow)).
    unfold run_iter, run_iter_l in Hrun. fold drain_fuel in Hrun. fold n in Hrun. rewrite Hrun in Hsim.
    destruct (drain_gen R fill consume false n n (ist_new start) r0) as [[[ms st'] r']|s|]; cbn [lift2] in Hsim; try discriminate.
    inversion Hsim; subst. exists st, r'. repeat split; assumption.
  Qed.
End AnyReader.
