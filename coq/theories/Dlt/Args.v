(* Model of the verbose-argument codec of /repo:
   - src/dlt/mod.rs        `impl Iterator for DltMessageArgIterator` (verbose and non-verbose branch),
                           `IntoIterator for &DltMessage`
   - src/utils/mod.rs      `payload_from_args`
   - src/serde_verb_payload/ser_verb_payload.rs   `Serializer` (the scalar/str/bytes methods, the
                           `DltVerbArgTypeWrapper::DltScodAscii` rewrite), `dlt_args!`
   Bytes are [N]; `usize`/`u32`/`u16` are [N] with checked additions (debug build); every slice
   `&payload[a..b]` goes through [slice_chk] and is a [Panic] when it is out of range, so
   "no panic" = "never reads outside the payload".
   No proofs in this file (proofs: Dlt/ArgsProofs.v). *)
From Coq Require Import List NArith ZArith Bool.
From AdltV Require Import Base.Res Base.MachInt.
Import ListNotations.
Open Scope N_scope.

Definition bytes := list N.
Definition plen (p : bytes) : N := N.of_nat (length p).

(* uN::from_le_bytes / from_be_bytes, to_le_bytes / to_be_bytes *)
Fixpoint le_val (l : bytes) : N := match l with [] => 0 | b :: r => b + 256 * le_val r end.
Definition be_val (l : bytes) : N := le_val (rev l).
Fixpoint le_bytes (n : nat) (v : N) : bytes :=
  match n with O => [] | S k => v mod 256 :: le_bytes k (v / 256) end.
Definition be_bytes (n : nat) (v : N) : bytes := rev (le_bytes n v).
Definition word_val (be : bool) (l : bytes) : N := if be then be_val l else le_val l.
Definition word_bytes (be : bool) (n : nat) (v : N) : bytes := if be then be_bytes n v else le_bytes n v.

(* &p[a..b] *)
Definition site_slice : N := 1801.
Definition slice_chk (p : bytes) (a b : N) : res bytes :=
  if (a <=? b) && (b <=? plen p)
  then Ok (firstn (N.to_nat (b - a)) (skipn (N.to_nat a) p))
  else Panic site_slice.

(* ---- constants of src/dlt/mod.rs *)
Definition TI_MASK_TYLE : N := 15.
Definition TI_BOOL : N := 16.
Definition TI_SINT : N := 32.
Definition TI_UINT : N := 64.
Definition TI_FLOA : N := 128.
Definition TI_ARAY : N := 256.
Definition TI_STRG : N := 512.
Definition TI_RAWD : N := 1024.
Definition TI_VARI : N := 2048.
Definition TI_FIXP : N := 4096.
Definition TI_TRAI : N := 8192.
Definition TI_STRU : N := 16384.
Definition TI_MASK_SCOD : N := 229376.     (* 0x38000 *)
Definition SCOD_ASCII : N := 0.
Definition SCOD_UTF8 : N := 32768.
Definition SCOD_HEX : N := 65536.
Definition SCOD_BIN : N := 98304.

(* `type_info & MASK != 0` (same as `> 0` on u32) *)
Definition has (ti mask : N) : bool := negb (N.land ti mask =? 0).

(* the width table: TYLE 1..5 = 8..128 bit, everything else 0 *)
Definition tyle_len (tyle : N) : N :=
  match tyle with
  | 1 => 1 | 2 => 2 | 3 => 4 | 4 => 8 | 5 => 16
  | _ => 0
  end.

(* DltArg *)
Record arg := { a_ti : N; a_be : bool; a_raw : bytes }.
(* DltMessageArgIterator: the message contributes its payload and the two flags *)
Record iter := { it_verbose : bool; it_be : bool; it_index : N }.
Definition with_index (it : iter) (i : N) : iter :=
  {| it_verbose := it_verbose it; it_be := it_be it; it_index := i |}.
(* into_iter *)
Definition iter_init (verbose be : bool) : iter := {| it_verbose := verbose; it_be := be; it_index := 0 |}.

(* tail of the fixed-width branch: `if len > 0 && payload.len() >= index + len {Some(..)} else {None}; index += len` *)
Definition fixed_arg (p : bytes) (it : iter) (ti len : N) : res (option arg * iter) :=
  (e <- add_chk usizemax (it_index it) len ;;
   if (0 <? len) && (e <=? plen p) then
     raw <- slice_chk p (it_index it) e ;;
     Ok (Some {| a_ti := ti; a_be := it_be it; a_raw := raw |}, with_index it e)
   else Ok (None, with_index it e))%res.

(* STRG | RAWD: 16-bit length, then the bytes; "we incr. in any case" *)
Definition lenpref_arg (p : bytes) (it : iter) (ti : N) : res (option arg * iter) :=
  (i2 <- add_chk usizemax (it_index it) 2 ;;
   if plen p <? i2 then Ok (None, it)
   else
     s <- slice_chk p (it_index it) i2 ;;
     let len := word_val (it_be it) s in
     e <- add_chk usizemax i2 len ;;
     if e <=? plen p then
       raw <- slice_chk p i2 e ;;
       Ok (Some {| a_ti := ti; a_be := it_be it; a_raw := raw |}, with_index it e)
     else Ok (None, with_index it e))%res.

(* Iterator::next; the second component is the iterator state afterwards *)
Definition arg_next (p : bytes) (it : iter) : res (option arg * iter) :=
  if it_verbose it then
    (i4 <- add_chk usizemax (it_index it) 4 ;;
     if i4 <=? plen p then
       s <- slice_chk p (it_index it) i4 ;;
       let ti := word_val (it_be it) s in
       let it := with_index it i4 in
       let len := tyle_len (N.land ti TI_MASK_TYLE) in
       if has ti TI_VARI then Ok (None, it)
       else if has ti TI_FIXP then Ok (None, it)
       else if has ti TI_BOOL then
         if negb (len =? 1) then
           (* dlt-viewer persists bool with TYLE 0 *)
           if negb (len =? 0) then Ok (None, it) else fixed_arg p it ti 1
         else fixed_arg p it ti len
       else if has ti (N.lor TI_SINT TI_UINT) then
         if len <? 1 then Ok (None, it) else fixed_arg p it ti len
       else if has ti TI_FLOA then
         if len <? 2 then Ok (None, it) else fixed_arg p it ti len
       else if has ti (N.lor TI_STRG TI_RAWD) then lenpref_arg p it ti
       else Ok (None, it)
     else
       (* `else if payload.len() > index {return None}` and the final `None` *)
       Ok (None, it))%res
  else
    (* non-verbose: message id, then the rest *)
    match it_index it with
    | 0 =>
        if 4 <=? plen p then
          (raw <- slice_chk p 0 4 ;;
           i4 <- add_chk usizemax (it_index it) 4 ;;
           Ok (Some {| a_ti := 0; a_be := it_be it; a_raw := raw |}, with_index it i4))%res
        else Ok (None, it)
    | 4 =>
        if 4 <? plen p then
          (raw <- slice_chk p 4 (plen p) ;;
           Ok (Some {| a_ti := 0; a_be := it_be it; a_raw := raw |}, with_index it (plen p)))%res
        else Ok (None, it)
    | _ => Ok (None, it)
    end.

(* `for arg in &msg` / `.collect()`: items up to the first `None`; also returns the state at that point *)
Fixpoint collect (fuel : nat) (p : bytes) (it : iter) : res (list arg * iter) :=
  match fuel with
  | O => OutOfFuel
  | S f =>
      match arg_next p it with
      | Ok (None, it') => Ok ([], it')
      | Ok (Some a, it') =>
          match collect f p it' with
          | Ok (l, it'') => Ok (a :: l, it'')
          | Panic s => Panic s
          | OutOfFuel => OutOfFuel
          end
      | Panic s => Panic s
      | OutOfFuel => OutOfFuel
      end
  end.

Definition msg_args_st (verbose be : bool) (p : bytes) : res (list arg * iter) :=
  collect (S (length p)) p (iter_init verbose be).
Definition msg_args (verbose be : bool) (p : bytes) : res (list arg) :=
  match msg_args_st verbose be p with Ok (l, _) => Ok l | Panic s => Panic s | OutOfFuel => OutOfFuel end.

(* ---- utils::payload_from_args (byte order of the first argument) *)
Definition is_lenpref (ti : N) : bool := has ti (N.lor TI_STRG TI_RAWD).
Definition enc_arg (be : bool) (a : arg) : bytes :=
  word_bytes be 4 (a_ti a)
  ++ (if is_lenpref (a_ti a) then word_bytes be 2 (trunc 16 (plen (a_raw a))) else [])
  ++ a_raw a.
Definition enc_args (be : bool) (args : list arg) : bytes := flat_map (enc_arg be) args.
Definition payload_from_args (args : list arg) : bytes :=
  match args with
  | [] => []
  | a0 :: _ => enc_args (a_be a0) args
  end.

(* ---- typed values: what the property quantifies over *)
Inductive value :=
| VBool (b : bool)
| VSInt (tyle : N) (z : Z)        (* tyle 1..5, -2^(w-1) <= z < 2^(w-1) *)
| VUInt (tyle : N) (n : N)        (* tyle 1..5, n < 2^w *)
| VFloat (tyle : N) (bits : N)    (* tyle 3 | 4, IEEE bit pattern *)
| VStr (utf8 : bool) (s : bytes)  (* the bytes on the wire (with the terminating NUL if the sender adds one) *)
| VRaw (b : bytes).

Definition width_bytes (tyle : N) : nat := N.to_nat (tyle_len tyle).
Definition twos (nbytes : nat) (z : Z) : N := Z.to_N (z mod 2 ^ Z.of_nat (8 * nbytes)).

Definition value_ti (v : value) : N :=
  match v with
  | VBool _ => N.lor TI_BOOL 1
  | VSInt t _ => N.lor TI_SINT t
  | VUInt t _ => N.lor TI_UINT t
  | VFloat t _ => N.lor TI_FLOA t
  | VStr true _ => N.lor TI_STRG SCOD_UTF8
  | VStr false _ => N.lor TI_STRG SCOD_ASCII
  | VRaw _ => TI_RAWD
  end.
Definition value_raw (be : bool) (v : value) : bytes :=
  match v with
  | VBool b => [if b then 1 else 0]
  | VSInt t z => word_bytes be (width_bytes t) (twos (width_bytes t) z)
  | VUInt t n => word_bytes be (width_bytes t) n
  | VFloat t bits => word_bytes be (width_bytes t) bits
  | VStr _ s => s
  | VRaw b => b
  end.
Definition value_arg (be : bool) (v : value) : arg :=
  {| a_ti := value_ti v; a_be := be; a_raw := value_raw be v |}.

Definition int_tyle (t : N) : bool := (1 <=? t) && (t <=? 5).
Definition wf_value (v : value) : Prop :=
  match v with
  | VBool _ => True
  | VSInt t z => int_tyle t = true /\
      (- 2 ^ (Z.of_nat (8 * width_bytes t) - 1) <= z < 2 ^ (Z.of_nat (8 * width_bytes t) - 1))%Z
  | VUInt t n => int_tyle t = true /\ n < 2 ^ N.of_nat (8 * width_bytes t)
  | VFloat t bits => (t = 3 \/ t = 4) /\ bits < 2 ^ N.of_nat (8 * width_bytes t)
  | VStr _ s => plen s <= 65535
  | VRaw b => plen b <= 65535
  end.

(* the decoder's view: which arguments does the iterator give back unchanged?  (any type word, not only
   the ones of [value]) *)
Definition fixed_len (ti : N) : option N :=
  let len := tyle_len (N.land ti TI_MASK_TYLE) in
  if has ti TI_VARI || has ti TI_FIXP then None
  else if has ti TI_BOOL then (if (len =? 1) || (len =? 0) then Some 1 else None)
  else if has ti (N.lor TI_SINT TI_UINT) then (if len <? 1 then None else Some len)
  else if has ti TI_FLOA then (if len <? 2 then None else Some len)
  else None.
Definition wf_arg (be : bool) (a : arg) : bool :=
  (a_ti a <? 2 ^ 32) && Bool.eqb (a_be a) be &&
  negb (has (a_ti a) TI_VARI || has (a_ti a) TI_FIXP) &&
  match fixed_len (a_ti a) with
  | Some len => negb (is_lenpref (a_ti a)) && (plen (a_raw a) =? len)
  | None =>
      negb (has (a_ti a) TI_BOOL || has (a_ti a) (N.lor TI_SINT TI_UINT) || has (a_ti a) TI_FLOA)
      && is_lenpref (a_ti a) && (plen (a_raw a) <=? 65535)
  end.

(* ---- serde_verb_payload::Serializer (host = little endian: `to_ne_bytes` = `to_le_bytes`) *)
Inductive sval :=
| SBool (b : bool)
| SInt (tyle : N) (bits : N)      (* serialize_i8..i64: tyle 1..4, two's complement bits *)
| SUInt (tyle : N) (n : N)        (* serialize_u8..u64 *)
| SFloat (tyle : N) (bits : N)    (* serialize_f32 (3) / f64 (4) *)
| SStr (s : bytes)                (* serialize_str: UTF-8 bytes of the &str *)
| SBytes (b : bytes)              (* serialize_bytes *)
| SAscii (b : bytes)              (* DltVerbArgTypeWrapper::DltScodAscii(bytes) *)
| SUnit.                          (* serialize_unit / none / seq / map...: not implemented *)

Inductive sres (A : Type) := SOk (a : A) | SErr (kind : N).
Arguments SOk {A} a.
Arguments SErr {A} kind.
Definition E_UNSUPPORTED : N := 1.
Definition E_NYI : N := 2.
Definition E_TOOLARGE : N := 3.

Definition host_be : bool := false.
Definition ser_scalar (ti : N) (tyle : N) (v : N) : bytes :=
  word_bytes host_be 4 (N.lor ti tyle) ++ word_bytes host_be (width_bytes tyle) v.

Definition ser_bytes_with (ti : N) (b : bytes) : sres bytes :=
  if 65535 <? plen b then SErr E_TOOLARGE
  else SOk (word_bytes host_be 4 ti ++ word_bytes host_be 2 (trunc 16 (plen b)) ++ b).

Definition ser_one (v : sval) : sres bytes :=
  match v with
  | SBool b => SOk (ser_scalar TI_BOOL 1 (if b then 1 else 0))
  | SInt t bits => SOk (ser_scalar TI_SINT t bits)
  | SUInt t n => SOk (ser_scalar TI_UINT t n)
  | SFloat t bits => SOk (ser_scalar TI_FLOA t bits)
  | SStr s =>
      if 65535 <=? plen s then SErr E_TOOLARGE
      else SOk (word_bytes host_be 4 (N.lor TI_STRG SCOD_UTF8)
                ++ word_bytes host_be 2 (trunc 16 (1 + trunc 16 (plen s))) ++ s ++ [0])
  | SBytes b => ser_bytes_with TI_RAWD b
  | SAscii b =>
      (* serialised as bytes, then the type word RAWD is overwritten by STRG | SCOD_ASCII *)
      ser_bytes_with (N.lor TI_STRG SCOD_ASCII) b
  | SUnit => SErr E_NYI
  end.

(* dlt_args!: arguments in order into one buffer, the first error aborts; nr_args is a u8 *)
Fixpoint ser_all (vals : list sval) (nr : N) (out : bytes) : sres (N * bytes) :=
  match vals with
  | [] => SOk (nr, out)
  | v :: r =>
      match ser_one v with
      | SOk b => ser_all r (nr + 1) (out ++ b)
      | SErr k => SErr k
      end
  end.
Definition dlt_args (vals : list sval) : sres (N * bytes) := ser_all vals 0 [].

(* the argument a serialised value must decode to (little endian) *)
Definition sval_arg (v : sval) : option arg :=
  match v with
  | SBool b => Some {| a_ti := N.lor TI_BOOL 1; a_be := host_be; a_raw := [if b then 1 else 0] |}
  | SInt t bits => Some {| a_ti := N.lor TI_SINT t; a_be := host_be; a_raw := word_bytes host_be (width_bytes t) bits |}
  | SUInt t n => Some {| a_ti := N.lor TI_UINT t; a_be := host_be; a_raw := word_bytes host_be (width_bytes t) n |}
  | SFloat t bits => Some {| a_ti := N.lor TI_FLOA t; a_be := host_be; a_raw := word_bytes host_be (width_bytes t) bits |}
  | SStr s => Some {| a_ti := N.lor TI_STRG SCOD_UTF8; a_be := host_be; a_raw := s ++ [0] |}
  | SBytes b => Some {| a_ti := TI_RAWD; a_be := host_be; a_raw := b |}
  | SAscii b => Some {| a_ti := N.lor TI_STRG SCOD_ASCII; a_be := host_be; a_raw := b |}
  | SUnit => None
  end.
