(* Chunk independence: DltMessageIterator over LowMarkBufReader over any scripted source yields what it
   yields over the whole buffer, provided the low mark is at least LOOKAHEAD = longest frame + 4. *)
From Coq Require Import List NArith Bool Lia Arith.
From AdltV Require Import Base.Res Base.MachInt Dlt.Frame Dlt.FrameProofs Dlt.Iter Dlt.IterProofs Dlt.IterTotal
  Reader.LowMark Reader.LowMarkSpec Reader.LowMarkProofs Dlt.Chunk.
Import ListNotations.
Open Scope N_scope.

(* ------------------------------------------------------------------ a parse result obtained with LOOKAHEAD
   bytes in view is final: appending bytes does not change it *)
Definition pat_local (pat : bytes -> bool) : Prop :=
  forall y e, (4 <= length y)%nat -> pat (y ++ e) = pat y.

Lemma is_storage_pat_local : pat_local is_storage_pat.
Proof. intros y e H. destruct y as [|a [|b [|c [|d t]]]]; cbn in H; try lia. reflexivity. Qed.
Lemma is_serial_pat_local : pat_local is_serial_pat.
Proof. intros y e H. destruct y as [|a [|b [|c [|d t]]]]; cbn in H; try lia. reflexivity. Qed.

Lemma byte_at_app d e i : (i < length d)%nat -> byte_at (d ++ e) i = byte_at d i.
Proof. intros H. unfold byte_at. apply app_nth1. exact H. Qed.

Lemma byte_at_skipn d k i : byte_at (skipn k d) i = byte_at d (k + i).
Proof.
  unfold byte_at. revert d. induction k as [|k IH]; intros d; [reflexivity|].
  destruct d as [|h t]; [destruct i; reflexivity|]. cbn [skipn plus nth]. apply IH.
Qed.

Lemma byte_at_wf d i : wf_bytes d -> byte_at d i < 256.
Proof.
  unfold wf_bytes, byte_at. intros H. revert i. induction H as [|x l Hx Hl IH]; intros i.
  - destruct i; cbn; lia.
  - destruct i; cbn; [exact Hx|apply IH].
Qed.

Lemma skipn_app_le {A} k (d e : list A) : (k <= length d)%nat -> skipn k (d ++ e) = skipn k d ++ e.
Proof. intros H. rewrite skipn_app. replace (k - length d)%nat with 0%nat by lia. reflexivity. Qed.

Lemma slice_app d e a n : (a + n <= length d)%nat -> slice (d ++ e) a n = slice d a n.
Proof.
  intros H. unfold slice. rewrite skipn_app_le by lia. rewrite firstn_app.
  rewrite skipn_length. replace (n - (length d - a))%nat with 0%nat by lia. cbn. apply app_nil_r.
Qed.

Lemma scan_pat_app pat (Hp : pat_local pat) e : forall k x,
  (k + 3 <= length x)%nat -> scan_pat pat k (x ++ e) = scan_pat pat k x.
Proof.
  induction k as [|k IH]; intros x H; [reflexivity|]. cbn [scan_pat].
  rewrite (Hp x e) by lia. f_equal.
  destruct x as [|h t]; [cbn in H; lia|]. cbn [app]. apply IH. cbn in H. lia.
Qed.

Lemma std_from_buf_app d e k : (k + 4 <= length d)%nat ->
  std_from_buf (skipn k (d ++ e)) = std_from_buf (skipn k d).
Proof.
  intros H. unfold std_from_buf. rewrite !byte_at_skipn. rewrite !byte_at_app by lia. reflexivity.
Qed.

Lemma std_len_bound d k : wf_bytes d -> len (std_from_buf (skipn k d)) <= 65535.
Proof.
  intros H. unfold std_from_buf. cbn [len]. rewrite !byte_at_skipn. unfold be16.
  pose proof (byte_at_wf d (k + 2) H). pose proof (byte_at_wf d (k + 3) H). lia.
Qed.

Lemma parse_after_marker_stable hsz pat short sh idx d e :
  pat_local pat -> wf_bytes d -> hsz <= 16 -> hsz + 65535 + 4 <= blen d ->
  parse_after_marker hsz pat short sh idx (d ++ e) = parse_after_marker hsz pat short sh idx d.
Proof.
  intros Hp Hwf Hh Hn. unfold parse_after_marker. rewrite blen_app.
  assert (Hlen : N.to_nat (blen d) = length d) by (unfold blen; lia).
  rewrite (std_from_buf_app d e (N.to_nat hsz)) by lia.
  pose proof (std_len_bound d (N.to_nat hsz) Hwf) as Hlb.
  set (stdh := std_from_buf (skipn (N.to_nat hsz) d)) in *. clearbody stdh.
  pose proof (hs_bounds stdh) as Hhs.
  destruct (N.ltb_spec (len stdh) (std_ext_header_size stdh)) as [|H1]; [reflexivity|].
  destruct (N.ltb_spec (blen d + blen e - hsz) (len stdh)) as [H2|H2]; [lia|].
  destruct (N.ltb_spec (blen d - hsz) (len stdh)) as [H3|H3]; [lia|].
  set (hs := std_ext_header_size stdh) in *.
  replace (blen d + blen e - (blen d + blen e - hsz - hs - (len stdh - hs))) with (hsz + len stdh) by lia.
  replace (blen d - (blen d - hsz - hs - (len stdh - hs))) with (hsz + len stdh) by lia.
  assert (E1 : (4 <=? blen d + blen e - hsz - hs - (len stdh - hs)) = true) by (apply N.leb_le; lia).
  assert (E2 : (4 <=? blen d - hsz - hs - (len stdh - hs)) = true) by (apply N.leb_le; lia).
  rewrite E1, E2.
  rewrite (skipn_app_le (N.to_nat (hsz + len stdh)) d e) by lia.
  rewrite (Hp (skipn (N.to_nat (hsz + len stdh)) d) e) by (rewrite skipn_length; lia).
  rewrite (skipn_app_le 5 d e) by lia.
  rewrite (scan_pat_app pat Hp e) by (rewrite skipn_length; lia).
  unfold DLT_MIN_STD_HEADER_SIZE. rewrite !(slice_app d e) by lia. reflexivity.
Qed.

Lemma storage_from_buf_app d e : 16 <= blen d -> storage_from_buf (d ++ e) = storage_from_buf d.
Proof.
  intros H. assert (Hl : (16 <= length d)%nat) by (unfold blen in H; lia).
  unfold storage_from_buf. rewrite blen_app.
  destruct (N.ltb_spec (blen d + blen e) 16); [lia|]. destruct (N.ltb_spec (blen d) 16); [lia|].
  rewrite (is_storage_pat_local d e) by lia.
  unfold le32_at, char4_at. rewrite !byte_at_app by lia. reflexivity.
Qed.

Theorem parse_storage_stable idx d e :
  wf_bytes d -> LOOKAHEAD <= blen d -> parse_storage idx (d ++ e) = parse_storage idx d.
Proof.
  unfold LOOKAHEAD, MAX_FRAME. intros Hwf Hn. unfold parse_storage, MIN_DLT_MSG_SIZE. rewrite blen_app.
  destruct (N.ltb_spec (blen d + blen e) 20); [lia|]. destruct (N.ltb_spec (blen d) 20); [lia|].
  rewrite storage_from_buf_app by lia.
  destruct (storage_from_buf d) as [sh|]; [|reflexivity].
  apply parse_after_marker_stable; auto using is_storage_pat_local; unfold DLT_STORAGE_HEADER_SIZE; lia.
Qed.

Theorem parse_serial_stable idx d e :
  wf_bytes d -> LOOKAHEAD <= blen d -> parse_serial idx (d ++ e) = parse_serial idx d.
Proof.
  unfold LOOKAHEAD, MAX_FRAME. intros Hwf Hn. unfold parse_serial, DLT_SERIAL_HEADER_SIZE, DLT_MIN_STD_HEADER_SIZE.
  rewrite blen_app.
  destruct (N.ltb_spec (blen d + blen e) (4 + 4)); [lia|]. destruct (N.ltb_spec (blen d) (4 + 4)); [lia|].
  rewrite (is_serial_pat_local d e) by (unfold blen in Hn; lia).
  destruct (negb (is_serial_pat d)); [reflexivity|].
  apply parse_after_marker_stable; auto using is_serial_pat_local; lia.
Qed.

(* ------------------------------------------------------------------ two readers that show parse-equivalent
   windows make the iterator behave identically *)
Section Sim.
  Variables (R1 R2 : Type).
  Variables (fill1 : R1 -> R1 * bytes) (consume1 : N -> R1 -> R1).
  Variables (fill2 : R2 -> R2 * bytes) (consume2 : N -> R2 -> R2).
  Variable Rel : R1 -> R2 -> Prop.

  Definition half_equiv (w1 w2 : bytes) : Prop :=
    forall st, storage_half false st w1 = storage_half false st w2 /\ serial_half st w1 = serial_half st w2.

  Hypothesis H_fill : forall a b, Rel a b ->
    Rel (fst (fill1 a)) (fst (fill2 b)) /\ half_equiv (snd (fill1 a)) (snd (fill2 b)) /\
    (forall n, 1 <= n <= blen (snd (fill1 a)) -> Rel (consume1 n (fst (fill1 a))) (consume2 n (fst (fill2 b)))).

  Definition res_rel {A} (x : res (A * R1)) (y : res (A * R2)) : Prop :=
    match x, y with
    | Ok (o, a), Ok (o', b) => o = o' /\ Rel a b
    | Panic s, Panic s' => s = s'
    | OutOfFuel, OutOfFuel => True
    | _, _ => False
    end.

  Lemma next_sim : forall fuel st a b, Rel a b ->
    res_rel (next_gen R1 fill1 consume1 false fuel st a) (next_gen R2 fill2 consume2 false fuel st b).
  Proof.
    induction fuel as [|f IH]; intros st a b HR; [exact I|].
    cbn [next_gen].
    destruct (H_fill a b HR) as [HR1 [Heq1 Hcons1]].
    destruct (fill1 a) as [a1 w1] eqn:F1. destruct (fill2 b) as [b1 w2] eqn:F2. cbn [fst snd] in *.
    (* the serial attempt on readers a', b' related by Rel *)
    assert (Hserial : forall a' b', Rel a' b' ->
      res_rel
        (let '(r2, w2) := fill1 a' in
         bind (serial_half st w2) (fun a2 =>
           match a2 with
           | AYield n m st' => Ok (Some m, st', consume1 n r2)
           | AStop => Ok (None, st, r2)
           | ASkip st' => next_gen R1 fill1 consume1 false f st' (consume1 1 r2)
           | APass => next_gen R1 fill1 consume1 false f st r2
           end))
        (let '(r2, w2) := fill2 b' in
         bind (serial_half st w2) (fun a2 =>
           match a2 with
           | AYield n m st' => Ok (Some m, st', consume2 n r2)
           | AStop => Ok (None, st, r2)
           | ASkip st' => next_gen R2 fill2 consume2 false f st' (consume2 1 r2)
           | APass => next_gen R2 fill2 consume2 false f st r2
           end))).
    { intros a' b' HR'. destruct (H_fill a' b' HR') as [HR2 [Heq2 Hcons2]].
      destruct (fill1 a') as [a2 v1] eqn:G1. destruct (fill2 b') as [b2 v2] eqn:G2. cbn [fst snd] in *.
      destruct (Heq2 st) as [_ Hse]. rewrite <- Hse.
      pose proof (serial_half_cases st v1) as Hc.
      destruct (serial_half st v1) as [[n m st'|st'| |]|s|]; cbn [bind].
      - destruct Hc as [Hn1 [Hn2 _]]. split; [reflexivity|]. apply Hcons2. lia.
      - destruct Hc as [_ Hb]. apply IH. apply Hcons2. lia.
      - destruct Hc.
      - split; [reflexivity|exact HR2].
      - reflexivity.
      - exact I. }
    destruct (i_det_serial st) eqn:Hds.
    - (* serial framing latched: the storage attempt is skipped, the first window is not used *)
      cbn [bind]. destruct (i_det_storage st) eqn:Hdst.
      + apply IH. exact HR.
      + apply Hserial. exact HR.
    - destruct (Heq1 st) as [Hst _]. rewrite <- Hst.
      pose proof (storage_half_cases st w1) as Hc.
      destruct (storage_half false st w1) as [[n m st'|st'| |]|s|]; cbn [bind].
      + destruct Hc as [Hn1 [Hn2 _]]. split; [reflexivity|]. apply Hcons1. lia.
      + destruct Hc as [_ [Hb _]]. apply IH. apply Hcons1. lia.
      + destruct (i_det_storage st) eqn:Hdst.
        * apply IH. exact HR1.
        * apply Hserial. exact HR1.
      + split; [reflexivity|exact HR1].
      + reflexivity.
      + exact I.
  Qed.

  Lemma drain_sim : forall fuel nfuel st a b, Rel a b ->
    res_rel (drain_gen R1 fill1 consume1 false fuel nfuel st a) (drain_gen R2 fill2 consume2 false fuel nfuel st b).
  Proof.
    induction fuel as [|f IH]; intros nfuel st a b HR; [exact I|].
    cbn [drain_gen]. pose proof (next_sim nfuel st a b HR) as Hn.
    destruct (next_gen R1 fill1 consume1 false nfuel st a) as [[[o st'] a']|s|];
      destruct (next_gen R2 fill2 consume2 false nfuel st b) as [[[o2 st2] b']|s2|]; cbn [res_rel] in Hn; try contradiction.
    - destruct Hn as [Ho HR']. inversion Ho; subst o2 st2. cbn [bind].
      destruct o as [m|].
      + pose proof (IH nfuel st' a' b' HR') as Hd.
        destruct (drain_gen R1 fill1 consume1 false f nfuel st' a') as [[[ms st''] a'']|s|];
          destruct (drain_gen R2 fill2 consume2 false f nfuel st' b') as [[[ms2 st2] b'']|s2|]; cbn [res_rel] in Hd; try contradiction.
        * destruct Hd as [Hd HR'']. inversion Hd; subst. cbn [bind res_rel]. split; [reflexivity|exact HR''].
        * cbn [bind res_rel]. exact Hd.
        * exact I.
      + cbn [res_rel]. split; [reflexivity|exact HR'].
    - cbn [bind res_rel]. exact Hn.
    - exact I.
  Qed.
End Sim.

(* ------------------------------------------------------------------ the reader against the Cursor *)
Lemma wf_firstn k (l : bytes) : wf_bytes l -> wf_bytes (firstn k l).
Proof.
  unfold wf_bytes. intros H. revert k. induction H as [|x l Hx Hl IH]; intros k; destruct k; cbn; constructor; auto.
Qed.
Lemma wf_skipn k (l : bytes) : wf_bytes l -> wf_bytes (skipn k l).
Proof.
  unfold wf_bytes. intros H. revert k. induction H as [|x l Hx Hl IH]; intros k; destruct k; cbn; auto.
Qed.

Section Instance.
  Variable S : list N.
  Hypothesis Hwf : wf_bytes S.

  Definition rel (r : reader) (d : bytes) : Prop :=
    Inv S r /\ LOOKAHEAD <= r_low r /\ d = ndrop (stream_pos r) S.

  Lemma half_equiv_prefix w d :
    w = ntake (nlen w) d -> wf_bytes d -> (LOOKAHEAD <= nlen w \/ w = d) -> half_equiv w d.
  Proof.
    intros Hpre Hwd Hla st. destruct Hla as [Hla|Hla]; [|subst w; split; reflexivity].
    assert (Hd : d = w ++ ndrop (nlen w) d) by (rewrite Hpre at 1; symmetry; apply ntake_ndrop_cat).
    assert (Hww : wf_bytes w) by (rewrite Hpre; apply wf_firstn; exact Hwd).
    unfold storage_half, serial_half. rewrite Hd.
    rewrite (parse_storage_stable (i_index st) w _ Hww Hla), (parse_serial_stable (i_index st) w _ Hww Hla).
    (* `avail >= MIN_DLT_MSG_SIZE` (iterator fix 9045554) holds on the window and on the whole rest alike *)
    assert (Hav1 : (MIN_DLT_MSG_SIZE <=? blen w) = true)
      by (apply N.leb_le; unfold MIN_DLT_MSG_SIZE, LOOKAHEAD, MAX_FRAME, nlen, blen in *; lia).
    assert (Hav2 : (MIN_DLT_MSG_SIZE <=? blen (w ++ ndrop (nlen w) d)) = true)
      by (apply N.leb_le; rewrite blen_app; unfold MIN_DLT_MSG_SIZE, LOOKAHEAD, MAX_FRAME, nlen, blen in *; lia).
    rewrite Hav1, Hav2.
    split; reflexivity.
  Qed.

  Lemma rd_fill_rel a b : rel a b ->
    rel (fst (rd_fill a)) (fst (cursor_fill b)) /\ half_equiv (snd (rd_fill a)) (snd (cursor_fill b)) /\
    (forall n, 1 <= n <= blen (snd (rd_fill a)) ->
               rel (rd_consume n (fst (rd_fill a))) (cursor_consume n (fst (cursor_fill b)))).
  Proof.
    intros [HI [Hlow Hb]]. subst b.
    destruct (fill_buf_spec S a HI) as [r' [E [HI' [Hsp [Hla [_ [Hl' _]]]]]]].
    unfold rd_fill. rewrite E. unfold cursor_fill. cbn [fst snd].
    pose proof (window_spec S r' HI') as Hw. pose proof (window_len S r' HI') as Hwl.
    split; [|split].
    - split; [exact HI'|]. split; [lia|]. rewrite Hsp. reflexivity.
    - apply half_equiv_prefix.
      + rewrite Hwl, <- Hsp. exact Hw.
      + apply wf_skipn. exact Hwf.
      + destruct Hla as [Hla|Hla]; [left; lia|right].
        rewrite Hw, <- Hsp. apply ntake_all. rewrite nlen_ndrop.
        rewrite (inv_rest S r' HI') in Hla. apply (f_equal nlen) in Hla. rewrite nlen_ndrop in Hla. cbn in Hla.
        pose proof (inv_end S r' HI'). pose proof (inv_pos S r' HI'). unfold stream_pos. lia.
    - intros n Hn. change (blen (window r')) with (nlen (window r')) in Hn. rewrite Hwl in Hn.
      pose proof (inv_pos S r' HI'). pose proof (inv_cap S r' HI'). pose proof (inv_usz S r' HI').
      destruct (consume_spec S r' n HI' ltac:(lia)) as [r'' [E2 [HI'' [Hsp2 [_ [Hl2 _]]]]]].
      unfold rd_consume. rewrite E2. split; [exact HI''|]. split; [lia|].
      unfold cursor_consume. change (skipn (N.to_nat n) (ndrop (stream_pos a) S)) with (ndrop n (ndrop (stream_pos a) S)).
      rewrite ndrop_ndrop, Hsp2, Hsp. f_equal. lia.
  Qed.

  Lemma drain_rd_cursor fuel nfuel st r :
    Inv S r -> LOOKAHEAD <= r_low r ->
    iter_result (drain_rd fuel nfuel st r) = iter_result (drain_fuel fuel nfuel st (ndrop (stream_pos r) S)) /\
    (forall ms st' r', drain_rd fuel nfuel st r = Ok (ms, st', r') ->
       exists rest, drain_fuel fuel nfuel st (ndrop (stream_pos r) S) = Ok (ms, st', rest) /\
                    rest = ndrop (stream_pos r') S /\ Inv S r').
  Proof.
    intros HI Hlow.
    pose proof (drain_sim reader bytes rd_fill rd_consume cursor_fill cursor_consume rel rd_fill_rel
                  fuel nfuel st r (ndrop (stream_pos r) S) (conj HI (conj Hlow eq_refl))) as H.
    unfold drain_rd, drain_fuel, drain_l.
    destruct (drain_gen reader rd_fill rd_consume false fuel nfuel st r) as [[[ms st'] r']|s|];
      destruct (drain_gen bytes cursor_fill cursor_consume false fuel nfuel st (ndrop (stream_pos r) S)) as [[[ms2 st2] d']|s2|];
      cbn [res_rel] in H; try contradiction.
    - destruct H as [Ho [HI' [_ Hd]]]. inversion Ho; subst. split; [reflexivity|].
      intros ms st' r0 E. inversion E; subst. eexists. split; [reflexivity|]. split; [reflexivity|exact HI'].
    - subst. split; [reflexivity|]. intros; discriminate.
    - split; [reflexivity|]. intros; discriminate.
  Qed.
End Instance.

Theorem iter_chunk_independent data sched capacity low start :
  wf_bytes data -> LOOKAHEAD <= low -> low + CACHE_LINE_SIZE <= capacity -> capacity <= usizemax ->
  nlen data <= usizemax ->
  iter_result (run_iter_rd start capacity low data sched) = iter_result (run_iter start data).
Proof.
  intros Hwf Hlow Hc Hu Hd. unfold run_iter_rd, run_iter, run_iter_l.
  assert (Hl0 : 0 < low) by (unfold LOOKAHEAD, MAX_FRAME in Hlow; lia).
  destruct (new_reader_inv data sched capacity low Hl0 Hc Hu Hd) as [r0 [E0 [HI0 [Hsp0 [_ [Hl _]]]]]].
  rewrite E0. cbn [bind].
  destruct (drain_rd_cursor data Hwf (Datatypes.S (length data)) (Datatypes.S (length data)) (ist_new start) r0 HI0 ltac:(lia)) as [H _].
  rewrite Hsp0 in H. exact H.
Qed.

(* ------------------------------------------------------------------ position independence *)
Definition pres_shift (di : N) (p : pres) : pres :=
  match p with PMsg n m => PMsg n (msg_shift di m) | other => other end.

Lemma parse_after_marker_shift hsz pat short sh i di d :
  parse_after_marker hsz pat short sh (i + di) d = pres_shift di (parse_after_marker hsz pat short sh i d).
Proof.
  unfold parse_after_marker.
  repeat match goal with |- context [if ?c then _ else _] => destruct c end; reflexivity.
Qed.
Lemma parse_storage_shift i di d : parse_storage (i + di) d = pres_shift di (parse_storage i d).
Proof.
  unfold parse_storage. destruct (blen d <? MIN_DLT_MSG_SIZE); [reflexivity|].
  destruct (storage_from_buf d); [apply parse_after_marker_shift|reflexivity].
Qed.
Lemma parse_serial_shift i di d : parse_serial (i + di) d = pres_shift di (parse_serial i d).
Proof.
  unfold parse_serial. destruct (blen d <? DLT_SERIAL_HEADER_SIZE + DLT_MIN_STD_HEADER_SIZE); [reflexivity|].
  destruct (negb (is_serial_pat d)); [reflexivity|apply parse_after_marker_shift].
Qed.

Definition action_shift (di dp dk : N) (a : action) : action :=
  match a with
  | AYield n m st' => AYield n (msg_shift di m) (ist_shift di dp dk st')
  | ASkip st' => ASkip (ist_shift di dp dk st')
  | other => other
  end.
Definition is_yield (a : action) : bool := match a with AYield _ _ _ => true | _ => false end.

Lemma ist_eq a b c d e a' b' c' :
  a = a' -> b = b' -> c = c' ->
  {| i_index := a; i_processed := b; i_skipped := c; i_det_storage := d; i_det_serial := e |} =
  {| i_index := a'; i_processed := b'; i_skipped := c'; i_det_storage := d; i_det_serial := e |}.
Proof. intros -> -> ->. reflexivity. Qed.

Lemma on_msg_shift storage di dp dk st n m a :
  on_msg storage st n m = Ok a -> i_index st + di + 1 <= u32max ->
  on_msg storage (ist_shift di dp dk st) n (msg_shift di m) = Ok (action_shift di dp dk a).
Proof.
  unfold on_msg, add_chk. intros H Hb. destruct (i_index st + 1 <=? u32max); [|discriminate].
  cbn [bind] in H. inversion H; subst a. clear H. cbn [ist_shift i_index].
  assert (E : (i_index st + di + 1 <=? u32max) = true) by (apply N.leb_le; exact Hb). rewrite E.
  cbn [bind action_shift]. f_equal. f_equal. unfold ist_shift. cbn [i_index i_processed i_skipped i_det_storage i_det_serial].
  apply ist_eq; lia.
Qed.

Lemma skip1_shift di dp dk st : skip1 (ist_shift di dp dk st) = ist_shift di dp dk (skip1 st).
Proof. unfold skip1, ist_shift. cbn [i_index i_processed i_skipped i_det_storage i_det_serial]. apply ist_eq; lia. Qed.

Lemma storage_half_shift di dp dk st w a :
  storage_half false st w = Ok a -> (is_yield a = true -> i_index st + di + 1 <= u32max) ->
  storage_half false (ist_shift di dp dk st) w = Ok (action_shift di dp dk a).
Proof.
  unfold storage_half. cbn [ist_shift i_index i_det_storage]. rewrite parse_storage_shift.
  destruct (parse_storage (i_index st) w) as [n m| |k]; cbn [pres_shift orb]; intros H Hb.
  - apply on_msg_shift; [exact H|]. apply Hb. unfold on_msg in H.
    destruct (add_chk u32max (i_index st) 1); cbn [bind] in H; inversion H. reflexivity.
  - destruct (i_det_storage st); inversion H; subst a; cbn [action_shift]; [rewrite skip1_shift|]; reflexivity.
  - destruct (i_det_storage st); cbn [orb] in *; [|destruct (MIN_DLT_MSG_SIZE <=? blen w)]; inversion H; subst a; reflexivity.
Qed.

Lemma serial_half_shift di dp dk st w a :
  serial_half st w = Ok a -> (is_yield a = true -> i_index st + di + 1 <= u32max) ->
  serial_half (ist_shift di dp dk st) w = Ok (action_shift di dp dk a).
Proof.
  unfold serial_half. cbn [ist_shift i_index]. rewrite parse_serial_shift.
  destruct (parse_serial (i_index st) w) as [n m| |k]; cbn [pres_shift]; intros H Hb.
  - apply on_msg_shift; [exact H|]. apply Hb. unfold on_msg in H.
    destruct (add_chk u32max (i_index st) 1); cbn [bind] in H; inversion H. reflexivity.
  - inversion H; subst a. cbn [action_shift]. rewrite skip1_shift. reflexivity.
  - inversion H; subst a. reflexivity.
Qed.

Lemma next_shift di dp dk : forall fuel st d o st' d',
  next fuel st d = Ok (o, st', d') ->
  (o <> None -> i_index st' + di <= u32max) ->
  next fuel (ist_shift di dp dk st) d = Ok (option_map (msg_shift di) o, ist_shift di dp dk st', d').
Proof.
  unfold next.
  induction fuel as [|f IH]; intros st d o st' d' H Hb; [discriminate|].
  rewrite next_S in H |- *. cbn [ist_shift i_det_serial i_det_storage].
  (* index bound at a yield: the yielded state has index + 1 *)
  assert (Hy : forall storage n m st1, on_msg storage st n m = Ok (AYield n m st1) -> i_index st1 = i_index st + 1).
  { intros storage n m st1 E. unfold on_msg in E. destruct (add_chk u32max (i_index st) 1) as [x| |] eqn:Ea; cbn [bind] in E; inversion E.
    unfold add_chk in Ea. destruct (i_index st + 1 <=? u32max); inversion Ea. reflexivity. }
  assert (Hserial :
    forall (Hs : (a2 <- serial_half st d ;;
                  match a2 with
                  | AYield n m st'0 => Ok (Some m, st'0, skipn (N.to_nat n) d)
                  | AStop => Ok (None, st, d)
                  | ASkip st'0 => next_l false f st'0 (skipn 1 d)
                  | APass => next_l false f st d
                  end)%res = Ok (o, st', d')),
      (a2 <- serial_half (ist_shift di dp dk st) d ;;
       match a2 with
       | AYield n m st'0 => Ok (Some m, st'0, skipn (N.to_nat n) d)
       | AStop => Ok (None, ist_shift di dp dk st, d)
       | ASkip st'0 => next_l false f st'0 (skipn 1 d)
       | APass => next_l false f (ist_shift di dp dk st) d
       end)%res = Ok (option_map (msg_shift di) o, ist_shift di dp dk st', d')).
  { intros Hs. destruct (serial_half st d) as [a2| |] eqn:E2; cbn [bind] in Hs; try discriminate.
    assert (Hb2 : is_yield a2 = true -> i_index st + di + 1 <= u32max).
    { destruct a2 as [n m st1| | |]; try discriminate. intros _. inversion Hs; subst.
      assert (Hi : i_index st' = i_index st + 1).
      { unfold serial_half in E2. destruct (parse_serial (i_index st) d) as [n' m'| |]; try discriminate.
        pose proof E2 as E2'. unfold on_msg in E2'. destruct (add_chk u32max (i_index st) 1); cbn [bind] in E2'; inversion E2'; subst.
        exact (Hy false n m _ E2). }
      specialize (Hb ltac:(discriminate)). lia. }
    rewrite (serial_half_shift di dp dk st d a2 E2 Hb2). cbn [bind].
    destruct a2 as [n m st1|st1| |]; cbn [action_shift].
    - inversion Hs; subst. reflexivity.
    - apply IH; assumption.
    - apply IH; assumption.
    - inversion Hs; subst. reflexivity. }
  destruct (i_det_serial st) eqn:Hds.
  - cbn [bind] in H |- *. destruct (i_det_storage st) eqn:Hdst.
    + apply IH; assumption.
    + apply Hserial. exact H.
  - destruct (storage_half false st d) as [a1| |] eqn:E1; cbn [bind] in H; try discriminate.
    assert (Hb1 : is_yield a1 = true -> i_index st + di + 1 <= u32max).
    { destruct a1 as [n m st1| | |]; try discriminate. intros _. inversion H; subst.
      assert (Hi : i_index st' = i_index st + 1).
      { unfold storage_half in E1. destruct (parse_storage (i_index st) d) as [n' m'| |]; try discriminate.
        - pose proof E1 as E1'. unfold on_msg in E1'. destruct (add_chk u32max (i_index st) 1); cbn [bind] in E1'; inversion E1'; subst.
          exact (Hy true n m _ E1).
        - destruct (i_det_storage st); discriminate.
        - destruct (false || i_det_storage st || (MIN_DLT_MSG_SIZE <=? blen d)); discriminate. }
      specialize (Hb ltac:(discriminate)). lia. }
    rewrite (storage_half_shift di dp dk st d a1 E1 Hb1). cbn [bind].
    destruct a1 as [n m st1|st1| |]; cbn [action_shift].
    + inversion H; subst. reflexivity.
    + apply IH; assumption.
    + destruct (i_det_storage st) eqn:Hdst.
      * apply IH; assumption.
      * apply Hserial. exact H.
    + inversion H; subst. reflexivity.
Qed.

Lemma on_msg_index storage st n m a : on_msg storage st n m = Ok a ->
  exists st1, a = AYield n m st1 /\ i_index st1 = i_index st + 1.
Proof.
  unfold on_msg, add_chk. destruct (i_index st + 1 <=? u32max); [|discriminate]. cbn [bind].
  intros H. inversion H. eexists. split; reflexivity.
Qed.

Lemma next_index_mono : forall fuel st d o st' d', next fuel st d = Ok (o, st', d') -> i_index st <= i_index st'.
Proof.
  unfold next. induction fuel as [|f IH]; intros st d o st' d' H; [discriminate|].
  rewrite next_S in H.
  assert (Hserial : (a2 <- serial_half st d ;;
                  match a2 with
                  | AYield n m st'0 => Ok (Some m, st'0, skipn (N.to_nat n) d)
                  | AStop => Ok (None, st, d)
                  | ASkip st'0 => next_l false f st'0 (skipn 1 d)
                  | APass => next_l false f st d
                  end)%res = Ok (o, st', d') -> i_index st <= i_index st').
  { intros Hs. unfold serial_half in Hs. destruct (parse_serial (i_index st) d) as [n m| |k].
    - destruct (on_msg false st n m) as [a| |] eqn:E; cbn [bind] in Hs; try discriminate.
      destruct (on_msg_index _ _ _ _ _ E) as [st1 [-> Hi]]. inversion Hs; subst. lia.
    - cbn [bind] in Hs. apply IH in Hs. cbn [skip1 i_index] in Hs. exact Hs.
    - cbn [bind] in Hs. inversion Hs; subst. lia. }
  destruct (i_det_serial st).
  - cbn [bind] in H. destruct (i_det_storage st); [apply IH in H; exact H|apply Hserial; exact H].
  - unfold storage_half in H. destruct (parse_storage (i_index st) d) as [n m| |k].
    + destruct (on_msg true st n m) as [a| |] eqn:E; cbn [bind] in H; try discriminate.
      destruct (on_msg_index _ _ _ _ _ E) as [st1 [-> Hi]]. inversion H; subst. lia.
    + destruct (i_det_storage st); cbn [bind] in H.
      * apply IH in H. cbn [skip1 i_index] in H. exact H.
      * apply Hserial. exact H.
    + cbn [orb] in H. destruct (i_det_storage st); cbn [orb bind] in H.
      * inversion H; subst. lia.
      * destruct (MIN_DLT_MSG_SIZE <=? blen d); cbn [bind] in H.
        -- inversion H; subst. lia.
        -- apply Hserial. exact H.
Qed.

Lemma drain_index_mono : forall fuel nfuel st d ms st' rest,
  drain_fuel fuel nfuel st d = Ok (ms, st', rest) -> i_index st <= i_index st'.
Proof.
  unfold drain_fuel, drain_l. induction fuel as [|f IH]; intros nfuel st d ms st' rest H; [discriminate|].
  cbn [drain_gen] in H. change (next_gen bytes cursor_fill cursor_consume false nfuel st d) with (next nfuel st d) in H.
  destruct (next nfuel st d) as [[[o st1] d1]| |] eqn:En; cbn [bind] in H; try discriminate.
  pose proof (next_index_mono _ _ _ _ _ _ En) as Hm.
  destruct o as [m|].
  - destruct (drain_gen bytes cursor_fill cursor_consume false f nfuel st1 d1) as [[[ms1 st2] d2]| |] eqn:Ed; cbn [bind] in H; try discriminate.
    inversion H; subst. apply IH in Ed. lia.
  - inversion H; subst. exact Hm.
Qed.

(* what the iterator recognises from a given state does not depend on its counters: advancing index /
   bytes_processed / bytes_skipped shifts the results and nothing else (as long as the index fits u32) *)
Theorem drain_shift di dp dk : forall fuel nfuel st d ms st' rest,
  drain_fuel fuel nfuel st d = Ok (ms, st', rest) -> i_index st' + di <= u32max ->
  drain_fuel fuel nfuel (ist_shift di dp dk st) d = Ok (map (msg_shift di) ms, ist_shift di dp dk st', rest).
Proof.
  unfold drain_fuel, drain_l. induction fuel as [|f IH]; intros nfuel st d ms st' rest H Hb; [discriminate|].
  cbn [drain_gen] in H |- *.
  change (next_gen bytes cursor_fill cursor_consume false nfuel st d) with (next nfuel st d) in H.
  change (next_gen bytes cursor_fill cursor_consume false nfuel (ist_shift di dp dk st) d) with (next nfuel (ist_shift di dp dk st) d).
  destruct (next nfuel st d) as [[[o st1] d1]| |] eqn:En; cbn [bind] in H; try discriminate.
  destruct o as [m|].
  - destruct (drain_gen bytes cursor_fill cursor_consume false f nfuel st1 d1) as [[[ms1 st2] d2]| |] eqn:Ed; cbn [bind] in H; try discriminate.
    inversion H; subst. pose proof (drain_index_mono f nfuel st1 d1 ms1 st' rest Ed) as Hm.
    rewrite (next_shift di dp dk nfuel st d (Some m) st1 d1 En ltac:(intros _; lia)). cbn [bind option_map].
    rewrite (IH nfuel st1 d1 ms1 st' rest Ed Hb). reflexivity.
  - inversion H; subst.
    rewrite (next_shift di dp dk nfuel st d None st' rest En ltac:(intros C; contradiction C; reflexivity)). reflexivity.
Qed.

(* ------------------------------------------------------------------ whole messages in front of a suffix *)
(* every message of the prefix is accepted where it stands (C01's acceptance condition: the bytes behind it
   are fewer than 4, start with the frame marker, or no marker occurs inside the message) *)
Fixpoint prefix_ok (f : framing) (l : list amsg) (s : bytes) : Prop :=
  match l with
  | [] => True
  | a :: l' => wf_amsg a /\ accept_cond f a (encs f l' ++ s) /\ prefix_ok f l' s
  end.
Fixpoint yield_all (f : framing) (st : ist) (l : list amsg) : ist :=
  match l with [] => st | a :: l' => yield_all f (st_yield f st a) l' end.

Lemma drain_fuel_S fuel nfuel st d :
  drain_fuel (S fuel) nfuel st d =
  ('(o, st', r') <- next nfuel st d ;;
   match o with
   | None => Ok ([], st', r')
   | Some m => '(ms, st'', r'') <- drain_fuel fuel nfuel st' r' ;; Ok (m :: ms, st'', r'')
   end)%res.
Proof. reflexivity. Qed.

Lemma drain_prefix f : forall l s st fuel nfuel,
  st_ok f st -> prefix_ok f l s -> i_index st + N.of_nat (length l) <= u32max ->
  drain_fuel (length l + fuel) (S nfuel) st (encs f l ++ s) =
  ('(ms, st', rest) <- drain_fuel fuel (S nfuel) (yield_all f st l) s ;;
   Ok (expect_from f (i_index st) l ++ ms, st', rest))%res.
Proof.
  induction l as [|a l IH]; intros s st fuel nfuel Hok Hp Hb.
  - cbn [length plus encs flat_map app yield_all expect_from].
    destruct (drain_fuel fuel (S nfuel) st s) as [[[ms st'] rest]| |]; reflexivity.
  - cbn [prefix_ok] in Hp. destruct Hp as [Hwa [Hacc Hp]].
    cbn [length plus]. rewrite drain_fuel_S.
    unfold encs. cbn [flat_map]. fold (encs f l). rewrite <- app_assoc.
    assert (Hl : N.of_nat (length (a :: l)) = N.of_nat (length l) + 1) by (cbn [length]; lia).
    rewrite (turn_msg f nfuel st a (encs f l ++ s) Hok Hwa ltac:(lia) Hacc). cbn [bind].
    rewrite (IH s (st_yield f st a) fuel nfuel (st_ok_yield f st a Hok) Hp ltac:(cbn [st_yield i_index]; lia)).
    cbn [yield_all expect_from st_yield i_index].
    destruct (drain_fuel fuel (S nfuel) (yield_all f (st_yield f st a) l) s) as [[[ms st'] rest]| |]; reflexivity.
Qed.

Lemma blen_encs_cons f a l : blen (encs f (a :: l)) = blen (enc f a) + blen (encs f l).
Proof. unfold encs. cbn [flat_map]. apply blen_app. Qed.

Lemma yield_all_latched f : forall l st,
  own_detected f st = true ->
  yield_all f st l =
  ist_shift (i_index st + N.of_nat (length l)) (i_processed st + blen (encs f l)) (i_skipped st) (latched f st).
Proof.
  induction l as [|a l IH]; intros st Hown.
  - cbn [yield_all length encs flat_map]. unfold ist_shift, latched, own_detected in *.
    destruct st as [i p k ds dse]. cbn [i_index i_processed i_skipped i_det_storage i_det_serial] in *.
    destruct f; subst; apply ist_eq; cbn; lia.
  - cbn [yield_all]. rewrite IH by apply own_detected_yield.
    rewrite blen_encs_cons. unfold ist_shift, latched, st_yield, own_detected in *.
    destruct st as [i p k ds dse]. cbn [i_index i_processed i_skipped i_det_storage i_det_serial length] in *.
    destruct f; subst; apply ist_eq; lia.
Qed.

Lemma yield_all_latched_ne f a l st :
  yield_all f st (a :: l) =
  ist_shift (i_index st + N.of_nat (length (a :: l))) (i_processed st + blen (encs f (a :: l))) (i_skipped st) (latched f st).
Proof.
  cbn [yield_all]. rewrite yield_all_latched by apply own_detected_yield.
  rewrite blen_encs_cons. unfold ist_shift, latched, st_yield.
  destruct st as [i p k ds dse]. cbn [i_index i_processed i_skipped i_det_storage i_det_serial length].
  destruct f; apply ist_eq; lia.
Qed.

(* k >= 1 whole messages in front of s (or none, with the framing already latched): the stream yields those
   messages and then exactly what the latched iterator yields on s alone, with index / bytes_processed advanced
   by the prefix and nothing else changed *)
Theorem position_independent f l s st fuel nfuel ms st' rest :
  st_ok f st -> prefix_ok f l s -> (l <> [] \/ own_detected f st = true) ->
  drain_fuel fuel (S nfuel) (latched f st) s = Ok (ms, st', rest) ->
  i_index st + N.of_nat (length l) + i_index st' <= u32max ->
  drain_fuel (length l + fuel) (S nfuel) st (encs f l ++ s) =
  Ok (expect_from f (i_index st) l ++ map (msg_shift (i_index st + N.of_nat (length l))) ms,
      ist_shift (i_index st + N.of_nat (length l)) (i_processed st + blen (encs f l)) (i_skipped st) st',
      rest).
Proof.
  intros Hok Hp Hne Hd Hb.
  rewrite (drain_prefix f l s st fuel nfuel Hok Hp ltac:(lia)).
  assert (Hy : yield_all f st l =
               ist_shift (i_index st + N.of_nat (length l)) (i_processed st + blen (encs f l)) (i_skipped st) (latched f st)).
  { destruct l as [|a l']; [|apply yield_all_latched_ne].
    destruct Hne as [Hne|Hne]; [contradiction Hne; reflexivity|]. apply yield_all_latched. exact Hne. }
  rewrite Hy.
  rewrite (drain_shift (i_index st + N.of_nat (length l)) (i_processed st + blen (encs f l)) (i_skipped st)
             fuel (S nfuel) (latched f st) s ms st' rest Hd ltac:(lia)). reflexivity.
Qed.

(* ------------------------------------------------------------------ a fresh iterator recognises what a latched one does *)
Lemma no_other_marker_tl f d : no_other_marker f d -> no_other_marker f (skipn 1 d).
Proof. intros H i. rewrite FrameProofs.skipn_skipn. apply H. Qed.

Lemma blen_skipn1 (d : bytes) : blen (skipn 1 d) <= blen d.
Proof. unfold blen. rewrite skipn_length. lia. Qed.

(* fewer than 20 bytes, nothing latched, no serial marker: nothing is yielded any more *)
Lemma tail_none : forall fuel st d o st' d',
  i_det_storage st = false -> i_det_serial st = false -> blen d < 20 -> no_other_marker Storage d ->
  next fuel st d = Ok (o, st', d') -> o = None.
Proof.
  unfold next. induction fuel as [|f IH]; intros st d o st' d' Hs Hl Hb Hn H; [discriminate|].
  rewrite next_S in H. rewrite Hl, Hs in H.
  unfold storage_half in H. rewrite (parse_storage_short _ _ Hb) in H. rewrite Hs in H.
  assert (E : (MIN_DLT_MSG_SIZE <=? blen d) = false) by (apply N.leb_gt; exact Hb). rewrite E in H.
  cbn [orb bind] in H. unfold serial_half in H.
  destruct (N.lt_ge_cases (blen d) 8) as [H8|H8].
  - destruct (parse_serial_short (i_index st) d H8) as [k Hk]. rewrite Hk in H. cbn [bind] in H. inversion H. reflexivity.
  - rewrite (parse_serial_nopat (i_index st) d H8 (Hn 0%nat)) in H. cbn [bind] in H.
    apply (IH (skip1 st) (skipn 1 d) o st' d'); auto.
    + pose proof (blen_skipn1 d). lia.
    + apply (no_other_marker_tl Storage). exact Hn.
Qed.

Lemma next_fresh_storage : forall fuel st d o st' d',
  i_det_storage st = false -> i_det_serial st = false -> no_other_marker Storage d ->
  next fuel st d = Ok (o, st', d') ->
  (o = None /\ exists st'' d'', next fuel (latch Storage st) d = Ok (None, st'', d'')) \/
  (exists m, o = Some m /\ next fuel (latch Storage st) d = Ok (Some m, st', d')).
Proof.
  unfold next. induction fuel as [|f IH]; intros st d o st' d' Hs Hl Hn H; [discriminate|].
  pose proof H as H0. rewrite next_S in H |- *. cbn [latch i_det_serial i_det_storage]. rewrite Hl, Hs in H. rewrite Hl.
  unfold storage_half in *. cbn [latch i_index i_det_storage].
  destruct (parse_storage (i_index st) d) as [n m| |k] eqn:Ep.
  - (* a message: both yield it and end in the same state *)
    change (on_msg true (latch Storage st) n m) with (on_msg true st n m).
    destruct (on_msg true st n m) as [a| |] eqn:Eo; cbn [bind] in H |- *; try discriminate.
    destruct (on_msg_index _ _ _ _ _ Eo) as [st1 [-> _]]. inversion H; subst. right. exists m. split; reflexivity.
  - rewrite Hs in H. cbn [bind] in H |- *.
    pose proof (parse_storage_invalid _ _ Ep) as H20.
    unfold serial_half in H. rewrite (parse_serial_nopat (i_index st) d ltac:(lia) (Hn 0%nat)) in H. cbn [bind] in H.
    change (skip1 (latch Storage st)) with (latch Storage (skip1 st)).
    apply (IH (skip1 st) (skipn 1 d) o st' d'); auto. apply (no_other_marker_tl Storage). exact Hn.
  - rewrite Hs in H. cbn [orb] in H |- *.
    destruct (MIN_DLT_MSG_SIZE <=? blen d) eqn:E20; cbn [bind] in H |- *.
    + inversion H; subst. left. split; [reflexivity|]. eexists. eexists. reflexivity.
    + left. split; [|eexists; eexists; reflexivity].
      apply N.leb_gt in E20. unfold MIN_DLT_MSG_SIZE in E20.
      exact (tail_none (Datatypes.S f) st d o st' d' Hs Hl E20 Hn H0).
Qed.

Lemma next_fresh_serial : forall fuel st d o st' d',
  i_det_storage st = false -> i_det_serial st = false -> no_other_marker Serial d ->
  next fuel st d = Ok (o, st', d') ->
  (o = None /\ exists st'' d'', next fuel (latch Serial st) d = Ok (None, st'', d'')) \/
  (exists m, o = Some m /\ next fuel (latch Serial st) d = Ok (Some m, st', d')).
Proof.
  unfold next. induction fuel as [|f IH]; intros st d o st' d' Hs Hl Hn H; [discriminate|].
  rewrite next_S in H |- *. cbn [latch i_det_serial i_det_storage]. rewrite Hl, Hs in H. rewrite Hs. cbn [bind].
  assert (Hpass : storage_half false st d = Ok APass).
  { unfold storage_half. destruct (N.lt_ge_cases (blen d) 20) as [H20|H20].
    - rewrite (parse_storage_short _ _ H20). rewrite Hs.
      assert (E : (MIN_DLT_MSG_SIZE <=? blen d) = false) by (apply N.leb_gt; exact H20). rewrite E. reflexivity.
    - rewrite (parse_storage_nopat _ _ H20 (Hn 0%nat)). rewrite Hs. reflexivity. }
  rewrite Hpass in H. cbn [bind] in H.
  unfold serial_half in *. cbn [latch i_index].
  destruct (parse_serial (i_index st) d) as [n m| |k] eqn:Ep.
  - change (on_msg false (latch Serial st) n m) with (on_msg false st n m).
    destruct (on_msg false st n m) as [a| |] eqn:Eo; cbn [bind] in H |- *; try discriminate.
    destruct (on_msg_index _ _ _ _ _ Eo) as [st1 [-> _]]. inversion H; subst. right. exists m. split; reflexivity.
  - cbn [bind] in H |- *. change (skip1 (latch Serial st)) with (latch Serial (skip1 st)).
    apply (IH (skip1 st) (skipn 1 d) o st' d'); auto. apply (no_other_marker_tl Serial). exact Hn.
  - cbn [bind] in H |- *. inversion H; subst. left. split; [reflexivity|]. eexists. eexists. reflexivity.
Qed.

(* for one framing f and a byte string without the other framing's marker: a fresh iterator (nothing latched)
   yields exactly the messages an iterator with f already latched yields; once a message was yielded the two runs
   coincide completely (state, unconsumed rest) *)
Theorem fresh_like_latched f : forall fuel nfuel st s ms st' rest,
  i_det_storage st = false -> i_det_serial st = false -> no_other_marker f s ->
  drain_fuel fuel nfuel st s = Ok (ms, st', rest) ->
  exists st'' rest'', drain_fuel fuel nfuel (latch f st) s = Ok (ms, st'', rest'') /\
                      i_index st'' = i_index st' /\
                      (ms <> [] -> st'' = st' /\ rest'' = rest).
Proof.
  intros fuel nfuel st s ms st' rest Hs Hl Hn H.
  destruct fuel as [|fuel]; [discriminate|].
  rewrite drain_fuel_S in H |- *.
  destruct (next nfuel st s) as [[[o st1] d1]| |] eqn:En; cbn [bind] in H; try discriminate.
  assert (Hcases : (o = None /\ exists st'' d'', next nfuel (latch f st) s = Ok (None, st'', d'')) \/
                   (exists m, o = Some m /\ next nfuel (latch f st) s = Ok (Some m, st1, d1))).
  { destruct f; [exact (next_fresh_storage nfuel st s o st1 d1 Hs Hl Hn En)|exact (next_fresh_serial nfuel st s o st1 d1 Hs Hl Hn En)]. }
  destruct Hcases as [[-> [st'' [d'' E2]]]|[m [-> E2]]]; rewrite E2; cbn [bind].
  - inversion H; subst. exists st'', d''. split; [reflexivity|]. split; [|intros C; contradiction C; reflexivity].
    pose proof (next_inv nfuel st s ltac:(unfold not_both; rewrite Hs; reflexivity)) as P1. rewrite En in P1.
    pose proof (next_inv nfuel (latch f st) s ltac:(unfold not_both, latch; cbn [i_det_storage i_det_serial]; rewrite Hs, Hl; destruct f; reflexivity)) as P2.
    rewrite E2 in P2. cbn [next_post] in P1, P2.
    destruct P1 as [_ [_ [_ [_ [_ Q1]]]]]. destruct P2 as [_ [_ [_ [_ [_ Q2]]]]]. cbn [latch i_index] in Q2. congruence.
  - destruct (drain_fuel fuel nfuel st1 d1) as [[[ms1 st2] d2]| |]; cbn [bind] in H |- *; try discriminate.
    inversion H; subst. exists st', rest. split; [reflexivity|]. split; [reflexivity|]. intros _. split; reflexivity.
Qed.

Lemma latched_latch f st : st_ok f st -> latched f st = latch f (ist_new 0).
Proof. unfold st_ok, latched, latch, ist_new. destruct f; cbn [i_det_storage i_det_serial i_index i_processed i_skipped]; intros ->; reflexivity. Qed.

(* FRESH iterator on the suffix vs the iterator that continues behind k >= 1 whole messages: what a fresh iterator
   (start index 0) recognises in s is what the continuing one recognises there, indices advanced *)
Theorem position_independent_fresh f l s st fuel nfuel ms st' rest :
  st_ok f st -> prefix_ok f l s -> l <> [] -> no_other_marker f s ->
  drain_fuel fuel (S nfuel) (ist_new 0) s = Ok (ms, st', rest) ->
  i_index st + N.of_nat (length l) + i_index st' <= u32max ->
  exists st'' rest'',
    drain_fuel (length l + fuel) (S nfuel) st (encs f l ++ s) =
    Ok (expect_from f (i_index st) l ++ map (msg_shift (i_index st + N.of_nat (length l))) ms, st'', rest'') /\
    (ms <> [] ->
     st'' = ist_shift (i_index st + N.of_nat (length l)) (i_processed st + blen (encs f l)) (i_skipped st) st' /\
     rest'' = rest).
Proof.
  intros Hok Hp Hne Hn Hd Hb.
  destruct (fresh_like_latched f fuel (S nfuel) (ist_new 0) s ms st' rest eq_refl eq_refl Hn Hd) as [st2 [rest2 [E2 [Hi Hsame]]]].
  rewrite <- (latched_latch f st Hok) in E2.
  pose proof (position_independent f l s st fuel nfuel ms st2 rest2 Hok Hp (or_introl Hne) E2 ltac:(rewrite Hi; exact Hb)) as P.
  eexists. eexists. split; [exact P|].
  intros Hms. destruct (Hsame Hms) as [-> ->]. split; reflexivity.
Qed.
