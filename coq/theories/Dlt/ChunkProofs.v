(* Chunk independence: DltMessageIterator over LowMarkBufReader over any scripted source yields what it
   yields over the whole buffer, provided the low mark is at least LOOKAHEAD = longest frame + 4. *)
From Coq Require Import List NArith Bool Lia Arith.
From AdltV Require Import Base.Res Base.MachInt Dlt.Frame Dlt.FrameProofs Dlt.Iter Dlt.IterProofs Dlt.IterTotal
  Reader.LowMark Reader.LowMarkSpec Reader.LowMarkProofs Dlt.Chunk.
Import ListNotations.
Open Scope N_scope.

(* ------------------------------------------------------------------ a parse result obtained with LOOKAHEAD
   bytes in view is final: appending bytes does not change it *)
Definition pat_local (pat : bytes -> bool) : Prop :=
  forall y e, (4 <= length y)%nat -> pat (y ++ e) = pat y.

Lemma is_storage_pat_local : pat_local is_storage_pat.
Proof. intros y e H. destruct y as [|a [|b [|c [|d t]]]]; cbn in H; try lia. reflexivity. Qed.
Lemma is_serial_pat_local : pat_local is_serial_pat.
Proof. intros y e H. destruct y as [|a [|b [|c [|d t]]]]; cbn in H; try lia. reflexivity. Qed.

Lemma byte_at_app d e i : (i < length d)%nat -> byte_at (d ++ e) i = byte_at d i.
Proof. intros H. unfold byte_at. apply app_nth1. exact H. Qed.

Lemma byte_at_skipn d k i : byte_at (skipn k d) i = byte_at d (k + i).
Proof.
  unfold byte_at. revert d. induction k as [|k IH]; intros d; [reflexivity|].
  destruct d as [|h t]; [destruct i; reflexivity|]. cbn [skipn plus nth]. apply IH.
Qed.

Lemma byte_at_wf d i : wf_bytes d -> byte_at d i < 256.
Proof.
  unfold wf_bytes, byte_at. intros H. revert i. induction H as [|x l Hx Hl IH]; intros i.
  - destruct i; cbn; lia.
  - destruct i; cbn; [exact Hx|apply IH].
Qed.

Lemma skipn_app_le {A} k (d e : list A) : (k <= length d)%nat -> skipn k (d ++ e) = skipn k d ++ e.
Proof. intros H. rewrite skipn_app. replace (k - length d)%nat with 0%nat by lia. reflexivity. Qed.

Lemma slice_app d e a n : (a + n <= length d)%nat -> slice (d ++ e) a n = slice d a n.
Proof.
  intros H. unfold slice. rewrite skipn_app_le by lia. rewrite firstn_app.
  rewrite skipn_length. replace (n - (length d - a))%nat with 0%nat by lia. cbn. apply app_nil_r.
Qed.

Lemma scan_pat_app pat (Hp : pat_local pat) e : forall k x,
  (k + 3 <= length x)%nat -> scan_pat pat k (x ++ e) = scan_pat pat k x.
Proof.
  induction k as [|k IH]; intros x H; [reflexivity|]. cbn [scan_pat].
  rewrite (Hp x e) by lia. f_equal.
  destruct x as [|h t]; [cbn in H; lia|]. cbn [app]. apply IH. cbn in H. lia.
Qed.

Lemma std_from_buf_app d e k : (k + 4 <= length d)%nat ->
  std_from_buf (skipn k (d ++ e)) = std_from_buf (skipn k d).
Proof.
  intros H. unfold std_from_buf. rewrite !byte_at_skipn. rewrite !byte_at_app by lia. reflexivity.
Qed.

Lemma std_len_bound d k : wf_bytes d -> len (std_from_buf (skipn k d)) <= 65535.
Proof.
  intros H. unfold std_from_buf. cbn [len]. rewrite !byte_at_skipn. unfold be16.
  pose proof (byte_at_wf d (k + 2) H). pose proof (byte_at_wf d (k + 3) H). lia.
Qed.

Lemma parse_after_marker_stable hsz pat short sh idx d e :
  pat_local pat -> wf_bytes d -> hsz <= 16 -> hsz + 65535 + 4 <= blen d ->
  parse_after_marker hsz pat short sh idx (d ++ e) = parse_after_marker hsz pat short sh idx d.
Proof.
  intros Hp Hwf Hh Hn. unfold parse_after_marker. rewrite blen_app.
  assert (Hlen : N.to_nat (blen d) = length d) by (unfold blen; lia).
  rewrite (std_from_buf_app d e (N.to_nat hsz)) by lia.
  pose proof (std_len_bound d (N.to_nat hsz) Hwf) as Hlb.
  set (stdh := std_from_buf (skipn (N.to_nat hsz) d)) in *. clearbody stdh.
  pose proof (hs_bounds stdh) as Hhs.
  destruct (N.ltb_spec (len stdh) (std_ext_header_size stdh)) as [|H1]; [reflexivity|].
  destruct (N.ltb_spec (blen d + blen e - hsz) (len stdh)) as [H2|H2]; [lia|].
  destruct (N.ltb_spec (blen d - hsz) (len stdh)) as [H3|H3]; [lia|].
  set (hs := std_ext_header_size stdh) in *.
  replace (blen d + blen e - (blen d + blen e - hsz - hs - (len stdh - hs))) with (hsz + len stdh) by lia.
  replace (blen d - (blen d - hsz - hs - (len stdh - hs))) with (hsz + len stdh) by lia.
  assert (E1 : (4 <=? blen d + blen e - hsz - hs - (len stdh - hs)) = true) by (apply N.leb_le; lia).
  assert (E2 : (4 <=? blen d - hsz - hs - (len stdh - hs)) = true) by (apply N.leb_le; lia).
  rewrite E1, E2.
  rewrite (skipn_app_le (N.to_nat (hsz + len stdh)) d e) by lia.
  rewrite (Hp (skipn (N.to_nat (hsz + len stdh)) d) e) by (rewrite skipn_length; lia).
  rewrite (skipn_app_le 5 d e) by lia.
  rewrite (scan_pat_app pat Hp e) by (rewrite skipn_length; lia).
  unfold DLT_MIN_STD_HEADER_SIZE. rewrite !(slice_app d e) by lia. reflexivity.
Qed.

Lemma storage_from_buf_app d e : 16 <= blen d -> storage_from_buf (d ++ e) = storage_from_buf d.
Proof.
  intros H. assert (Hl : (16 <= length d)%nat) by (unfold blen in H; lia).
  unfold storage_from_buf. rewrite blen_app.
  destruct (N.ltb_spec (blen d + blen e) 16); [lia|]. destruct (N.ltb_spec (blen d) 16); [lia|].
  rewrite (is_storage_pat_local d e) by lia.
  unfold le32_at, char4_at. rewrite !byte_at_app by lia. reflexivity.
Qed.

Theorem parse_storage_stable idx d e :
  wf_bytes d -> LOOKAHEAD <= blen d -> parse_storage idx (d ++ e) = parse_storage idx d.
Proof.
  unfold LOOKAHEAD, MAX_FRAME. intros Hwf Hn. unfold parse_storage, MIN_DLT_MSG_SIZE. rewrite blen_app.
  destruct (N.ltb_spec (blen d + blen e) 20); [lia|]. destruct (N.ltb_spec (blen d) 20); [lia|].
  rewrite storage_from_buf_app by lia.
  destruct (storage_from_buf d) as [sh|]; [|reflexivity].
  apply parse_after_marker_stable; auto using is_storage_pat_local; unfold DLT_STORAGE_HEADER_SIZE; lia.
Qed.

Theorem parse_serial_stable idx d e :
  wf_bytes d -> LOOKAHEAD <= blen d -> parse_serial idx (d ++ e) = parse_serial idx d.
Proof.
  unfold LOOKAHEAD, MAX_FRAME. intros Hwf Hn. unfold parse_serial, DLT_SERIAL_HEADER_SIZE, DLT_MIN_STD_HEADER_SIZE.
  rewrite blen_app.
  destruct (N.ltb_spec (blen d + blen e) (4 + 4)); [lia|]. destruct (N.ltb_spec (blen d) (4 + 4)); [lia|].
  rewrite (is_serial_pat_local d e) by (unfold blen in Hn; lia).
  destruct (negb (is_serial_pat d)); [reflexivity|].
  apply parse_after_marker_stable; auto using is_serial_pat_local; lia.
Qed.

(* ------------------------------------------------------------------ two readers that show parse-equivalent
   windows make the iterator behave identically *)
Section Sim.
  Variables (R1 R2 : Type).
  Variables (fill1 : R1 -> R1 * bytes) (consume1 : N -> R1 -> R1).
  Variables (fill2 : R2 -> R2 * bytes) (consume2 : N -> R2 -> R2).
  Variable Rel : R1 -> R2 -> Prop.

  Definition half_equiv (w1 w2 : bytes) : Prop :=
    forall st, storage_half false st w1 = storage_half false st w2 /\ serial_half st w1 = serial_half st w2.

  Hypothesis H_fill : forall a b, Rel a b ->
    Rel (fst (fill1 a)) (fst (fill2 b)) /\ half_equiv (snd (fill1 a)) (snd (fill2 b)) /\
    (forall n, 1 <= n <= blen (snd (fill1 a)) -> Rel (consume1 n (fst (fill1 a))) (consume2 n (fst (fill2 b)))).

  Definition res_rel {A} (x : res (A * R1)) (y : res (A * R2)) : Prop :=
    match x, y with
    | Ok (o, a), Ok (o', b) => o = o' /\ Rel a b
    | Panic s, Panic s' => s = s'
    | OutOfFuel, OutOfFuel => True
    | _, _ => False
    end.

  Lemma next_sim : forall fuel st a b, Rel a b ->
    res_rel (next_gen R1 fill1 consume1 false fuel st a) (next_gen R2 fill2 consume2 false fuel st b).
  Proof.
    induction fuel as [|f IH]; intros st a b HR; [exact I|].
    cbn [next_gen].
    destruct (H_fill a b HR) as [HR1 [Heq1 Hcons1]].
    destruct (fill1 a) as [a1 w1] eqn:F1. destruct (fill2 b) as [b1 w2] eqn:F2. cbn [fst snd] in *.
    (* the serial attempt on readers a', b' related by Rel *)
    assert (Hserial : forall a' b', Rel a' b' ->
      res_rel
        (let '(r2, w2) := fill1 a' in
         bind (serial_half st w2) (fun a2 =>
           match a2 with
           | AYield n m st' => Ok (Some m, st', consume1 n r2)
           | AStop => Ok (None, st, r2)
           | ASkip st' => next_gen R1 fill1 consume1 false f st' (consume1 1 r2)
           | APass => next_gen R1 fill1 consume1 false f st r2
           end))
        (let '(r2, w2) := fill2 b' in
         bind (serial_half st w2) (fun a2 =>
           match a2 with
           | AYield n m st' => Ok (Some m, st', consume2 n r2)
           | AStop => Ok (None, st, r2)
           | ASkip st' => next_gen R2 fill2 consume2 false f st' (consume2 1 r2)
           | APass => next_gen R2 fill2 consume2 false f st r2
           end))).
    { intros a' b' HR'. destruct (H_fill a' b' HR') as [HR2 [Heq2 Hcons2]].
      destruct (fill1 a') as [a2 v1] eqn:G1. destruct (fill2 b') as [b2 v2] eqn:G2. cbn [fst snd] in *.
      destruct (Heq2 st) as [_ Hse]. rewrite <- Hse.
      pose proof (serial_half_cases st v1) as Hc.
      destruct (serial_half st v1) as [[n m st'|st'| |]|s|]; cbn [bind].
      - destruct Hc as [Hn1 [Hn2 _]]. split; [reflexivity|]. apply Hcons2. lia.
      - destruct Hc as [_ Hb]. apply IH. apply Hcons2. lia.
      - destruct Hc.
      - split; [reflexivity|exact HR2].
      - reflexivity.
      - exact I. }
    destruct (i_det_serial st) eqn:Hds.
    - (* serial framing latched: the storage attempt is skipped, the first window is not used *)
      cbn [bind]. destruct (i_det_storage st) eqn:Hdst.
      + apply IH. exact HR.
      + apply Hserial. exact HR.
    - destruct (Heq1 st) as [Hst _]. rewrite <- Hst.
      pose proof (storage_half_cases st w1) as Hc.
      destruct (storage_half false st w1) as [[n m st'|st'| |]|s|]; cbn [bind].
      + destruct Hc as [Hn1 [Hn2 _]]. split; [reflexivity|]. apply Hcons1. lia.
      + destruct Hc as [_ [Hb _]]. apply IH. apply Hcons1. lia.
      + destruct (i_det_storage st) eqn:Hdst.
        * apply IH. exact HR1.
        * apply Hserial. exact HR1.
      + split; [reflexivity|exact HR1].
      + reflexivity.
      + exact I.
  Qed.

  Lemma drain_sim : forall fuel nfuel st a b, Rel a b ->
    res_rel (drain_gen R1 fill1 consume1 false fuel nfuel st a) (drain_gen R2 fill2 consume2 false fuel nfuel st b).
  Proof.
    induction fuel as [|f IH]; intros nfuel st a b HR; [exact I|].
    cbn [drain_gen]. pose proof (next_sim nfuel st a b HR) as Hn.
    destruct (next_gen R1 fill1 consume1 false nfuel st a) as [[[o st'] a']|s|];
      destruct (next_gen R2 fill2 consume2 false nfuel st b) as [[[o2 st2] b']|s2|]; cbn [res_rel] in Hn; try contradiction.
    - destruct Hn as [Ho HR']. inversion Ho; subst o2 st2. cbn [bind].
      destruct o as [m|].
      + pose proof (IH nfuel st' a' b' HR') as Hd.
        destruct (drain_gen R1 fill1 consume1 false f nfuel st' a') as [[[ms st''] a'']|s|];
          destruct (drain_gen R2 fill2 consume2 false f nfuel st' b') as [[[ms2 st2] b'']|s2|]; cbn [res_rel] in Hd; try contradiction.
        * destruct Hd as [Hd HR'']. inversion Hd; subst. cbn [bind res_rel]. split; [reflexivity|exact HR''].
        * cbn [bind res_rel]. exact Hd.
        * exact I.
      + cbn [res_rel]. split; [reflexivity|exact HR'].
    - cbn [bind res_rel]. exact Hn.
    - exact I.
  Qed.
End Sim.

(* ------------------------------------------------------------------ the reader against the Cursor *)
Lemma wf_firstn k (l : bytes) : wf_bytes l -> wf_bytes (firstn k l).
Proof.
  unfold wf_bytes. intros H. revert k. induction H as [|x l Hx Hl IH]; intros k; destruct k; cbn; constructor; auto.
Qed.
Lemma wf_skipn k (l : bytes) : wf_bytes l -> wf_bytes (skipn k l).
Proof.
  unfold wf_bytes. intros H. revert k. induction H as [|x l Hx Hl IH]; intros k; destruct k; cbn; auto.
Qed.

Section Instance.
  Variable S : list N.
  Hypothesis Hwf : wf_bytes S.

  Definition rel (r : reader) (d : bytes) : Prop :=
    Inv S r /\ LOOKAHEAD <= r_low r /\ d = ndrop (stream_pos r) S.

  Lemma half_equiv_prefix w d :
    w = ntake (nlen w) d -> wf_bytes d -> (LOOKAHEAD <= nlen w \/ w = d) -> half_equiv w d.
  Proof.
    intros Hpre Hwd Hla st. destruct Hla as [Hla|Hla]; [|subst w; split; reflexivity].
    assert (Hd : d = w ++ ndrop (nlen w) d) by (rewrite Hpre at 1; symmetry; apply ntake_ndrop_cat).
    assert (Hww : wf_bytes w) by (rewrite Hpre; apply wf_firstn; exact Hwd).
    unfold storage_half, serial_half. rewrite Hd.
    rewrite (parse_storage_stable (i_index st) w _ Hww Hla), (parse_serial_stable (i_index st) w _ Hww Hla).
    split; reflexivity.
  Qed.

  Lemma rd_fill_rel a b : rel a b ->
    rel (fst (rd_fill a)) (fst (cursor_fill b)) /\ half_equiv (snd (rd_fill a)) (snd (cursor_fill b)) /\
    (forall n, 1 <= n <= blen (snd (rd_fill a)) ->
               rel (rd_consume n (fst (rd_fill a))) (cursor_consume n (fst (cursor_fill b)))).
  Proof.
    intros [HI [Hlow Hb]]. subst b.
    destruct (fill_buf_spec S a HI) as [r' [E [HI' [Hsp [Hla [_ [Hl' _]]]]]]].
    unfold rd_fill. rewrite E. unfold cursor_fill. cbn [fst snd].
    pose proof (window_spec S r' HI') as Hw. pose proof (window_len S r' HI') as Hwl.
    split; [|split].
    - split; [exact HI'|]. split; [lia|]. rewrite Hsp. reflexivity.
    - apply half_equiv_prefix.
      + rewrite Hwl, <- Hsp. exact Hw.
      + apply wf_skipn. exact Hwf.
      + destruct Hla as [Hla|Hla]; [left; lia|right].
        rewrite Hw, <- Hsp. apply ntake_all. rewrite nlen_ndrop.
        rewrite (inv_rest S r' HI') in Hla. apply (f_equal nlen) in Hla. rewrite nlen_ndrop in Hla. cbn in Hla.
        pose proof (inv_end S r' HI'). pose proof (inv_pos S r' HI'). unfold stream_pos. lia.
    - intros n Hn. change (blen (window r')) with (nlen (window r')) in Hn. rewrite Hwl in Hn.
      pose proof (inv_pos S r' HI'). pose proof (inv_cap S r' HI'). pose proof (inv_usz S r' HI').
      destruct (consume_spec S r' n HI' ltac:(lia)) as [r'' [E2 [HI'' [Hsp2 [_ [Hl2 _]]]]]].
      unfold rd_consume. rewrite E2. split; [exact HI''|]. split; [lia|].
      unfold cursor_consume. change (skipn (N.to_nat n) (ndrop (stream_pos a) S)) with (ndrop n (ndrop (stream_pos a) S)).
      rewrite ndrop_ndrop, Hsp2, Hsp. f_equal. lia.
  Qed.

  Lemma drain_rd_cursor fuel nfuel st r :
    Inv S r -> LOOKAHEAD <= r_low r ->
    iter_result (drain_rd fuel nfuel st r) = iter_result (drain_fuel fuel nfuel st (ndrop (stream_pos r) S)) /\
    (forall ms st' r', drain_rd fuel nfuel st r = Ok (ms, st', r') ->
       exists rest, drain_fuel fuel nfuel st (ndrop (stream_pos r) S) = Ok (ms, st', rest) /\
                    rest = ndrop (stream_pos r') S /\ Inv S r').
  Proof.
    intros HI Hlow.
    pose proof (drain_sim reader bytes rd_fill rd_consume cursor_fill cursor_consume rel rd_fill_rel
                  fuel nfuel st r (ndrop (stream_pos r) S) (conj HI (conj Hlow eq_refl))) as H.
    unfold drain_rd, drain_fuel, drain_l.
    destruct (drain_gen reader rd_fill rd_consume false fuel nfuel st r) as [[[ms st'] r']|s|];
      destruct (drain_gen bytes cursor_fill cursor_consume false fuel nfuel st (ndrop (stream_pos r) S)) as [[[ms2 st2] d']|s2|];
      cbn [res_rel] in H; try contradiction.
    - destruct H as [Ho [HI' [_ Hd]]]. inversion Ho; subst. split; [reflexivity|].
      intros ms st' r0 E. inversion E; subst. eexists. split; [reflexivity|]. split; [reflexivity|exact HI'].
    - subst. split; [reflexivity|]. intros; discriminate.
    - split; [reflexivity|]. intros; discriminate.
  Qed.
End Instance.

Theorem iter_chunk_independent data sched capacity low start :
  wf_bytes data -> LOOKAHEAD <= low -> low + CACHE_LINE_SIZE <= capacity -> capacity <= usizemax ->
  nlen data <= usizemax ->
  iter_result (run_iter_rd start capacity low data sched) = iter_result (run_iter start data).
Proof.
  intros Hwf Hlow Hc Hu Hd. unfold run_iter_rd, run_iter, run_iter_l.
  assert (Hl0 : 0 < low) by (unfold LOOKAHEAD, MAX_FRAME in Hlow; lia).
  destruct (new_reader_inv data sched capacity low Hl0 Hc Hu Hd) as [r0 [E0 [HI0 [Hsp0 [_ [Hl _]]]]]].
  rewrite E0. cbn [bind].
  destruct (drain_rd_cursor data Hwf (Datatypes.S (length data)) (Datatypes.S (length data)) (ist_new start) r0 HI0 ltac:(lia)) as [H _].
  rewrite Hsp0 in H. exact H.
Qed.
