(* Model of the unfiltered, unsorted `adlt convert <in> -o <out>` pipeline of /repo/src/bin/adlt/convert.rs as a whole:
     reader thread   DltMessageIterator over the file, indices from 0               (Dlt/Iter.v: run_iter 0)
     lc_thread       adlt::lifecycle::parse_lifecycles_buffered_from_stream; every message passes through it and is
                     handed on by its outflow closure (possibly after having been buffered)      (Lifecycle/Model.v: detect)
     (no plugin / sort / filter thread without the respective options)
     t4              `msg.to_write(file)?` per message received, in the order received           (Dlt/Write.v: write_all)
   The lifecycle detector model works on the view of a message it reads (index, ECU, reception time, timestamp in us,
   timestamp presence, control-request flag); what it hands on is found again by its index (the iterator numbers the
   messages consecutively, so indices are unique).  The channels between the threads are FIFO.
   Model only, no proofs (proofs: Dlt/WritePipelineProofs.v). *)
From Coq Require Import List NArith Bool.
From AdltV Require Import Base.Res Base.MachInt Dlt.Frame Dlt.Iter Dlt.Write Reader.LowMark Dlt.Chunk.
From AdltV Require Lifecycle.Model Dlt.Args FileTransfer.Ft.
Import ListNotations.
Open Scope N_scope.

Module LM := AdltV.Lifecycle.Model.

(* DltChar4 as a number (the detector only compares ECU ids) *)
Definition ecu_key (c : char4) : N := match c with (a, b, c', d) => be32 a b c' d end.

(* DltMessage::is_ctrl_request: extended header with `(verb_mstp_mtin >> 1) & 7 == 3 && verb_mstp_mtin >> 4 == 1` *)
Definition is_ctrl_request (m : msg) : bool :=
  match m_ext m with
  | Some e => (((verb_mstp_mtin e / 2) mod 8) =? 3) && ((verb_mstp_mtin e / 16) =? 1)
  | None => false
  end.

(* what the lifecycle detector reads of a message: timestamp_us() = timestamp_dms * 100 *)
Definition lc_view (m : msg) : LM.msg :=
  {| LM.m_index := m_index m; LM.m_ecu := ecu_key (m_ecu m); LM.m_rt := m_reception_us m;
     LM.m_ts := m_timestamp m * 100; LM.m_has_ts := has_timestamp (m_std m); LM.m_creq := is_ctrl_request m;
     LM.m_lc := 0 |}.

Definition find_index (ms : list msg) (i : N) : list msg :=
  match find (fun m => m_index m =? i) ms with Some m => [m] | None => [] end.

(* the messages in the order in which the detector hands them to its outflow (a fresh process: NEXT_LC_ID = 1,
   empty lifecycle table); the lifecycle field it sets is not part of the DLT frame *)
Definition delivered_indices (ms : list msg) : list N :=
  map (fun x => LM.m_index (fst x)) (fst (LM.detect 1 [] (map lc_view ms))).
Definition lifecycle_stage (ms : list msg) : list msg := flat_map (find_index ms) (delivered_indices ms).

(* the file `adlt convert -o` writes for the input file [data] *)
Definition convert_o (data : bytes) : res wres :=
  match run_iter 0 data with
  | Ok (ms, _, _) => write_all (lifecycle_stage ms)
  | Panic s => Panic s
  | OutOfFuel => OutOfFuel
  end.

(* the same with the reader wiring of convert.rs (get_single_it): the iterator runs over
   LowMarkBufReader::new(file, BUFREADER_CAPACITY = 512 KiB, DLT_MAX_STORAGE_MSG_SIZE + 4) -- Reader/LowMark.v (fill_buf with
   its compaction of the unconsumed bytes to a 4096-aligned end, consume), Dlt/Chunk.v (run_iter_rd).  [sched]: the sizes
   of the file's (possibly short) reads. *)
Definition BUFREADER_CAPACITY : N := 524288.
Definition CONVERT_LOW_MARK : N := 65551 + 4.
Definition convert_o_rd (data : bytes) (sched : list N) : res wres :=
  match run_iter_rd 0 BUFREADER_CAPACITY CONVERT_LOW_MARK data sched with
  | Ok (ms, _, _) => write_all (lifecycle_stage ms)
  | Panic s => Panic s
  | OutOfFuel => OutOfFuel
  end.

(* boolean form of the invariant of parsed messages (Dlt/WriteProofs.v: wf_msg), for messages built directly *)
Definition wf_msgb (m : msg) : bool :=
  (len (m_std m) <=? 65535) && (len (m_std m) =? std_ext_header_size (m_std m) + blen (m_payload m))
  && (m_timestamp m <? 4294967296) && (has_timestamp (m_std m) || (m_timestamp m =? 0))
  && Bool.eqb (is_some (m_ext m)) (has_ext_hdr (m_std m)) && (m_reception_us m / 1000000 <? 4294967296).

(* ------------------------------------------------------------------ the `-o` path
   State of a path of the file system: None = absent, Some content = a regular file with that content.
   Output thread t4 of convert.rs: `std::fs::File::create(s)` wrapped into a BufWriter; one `msg.to_write(file)?` per
   message received; `flush` at the end (and on drop when a `?` leaves the closure early).  The file is written
   sequentially from offset 0; a write into a file replaces the bytes at the write position and leaves what lies beyond the
   last byte written (only opening with `truncate` discards the old content). *)
Definition fs_path := option bytes.

(* the content a file opened for writing (position 0, created when absent) starts with *)
Definition open_for_write (truncate : bool) (prior : fs_path) : bytes :=
  if truncate then [] else match prior with Some c => c | None => [] end.

(* sequential writes of [b] from offset 0 into a file holding [c] *)
Definition overwrite (c b : bytes) : bytes := b ++ skipn (length b) c.

(* std::fs::File::create = OpenOptions::new().write(true).create(true).truncate(true) *)
Definition FILE_CREATE_TRUNCATES : bool := true.

(* the `-o` path after `adlt convert <in> -o <path>`, [prior] = its state before the command, [data] = content of <in>.
   When a to_write returns Err the bytes written so far reach the file through the BufWriter's drop. *)
Definition convert_o_path (prior : fs_path) (data : bytes) : res fs_path :=
  match convert_o data with
  | Ok (WOk b) => Ok (Some (overwrite (open_for_write FILE_CREATE_TRUNCATES prior) b))
  | Ok (WErr p) => Ok (Some (overwrite (open_for_write FILE_CREATE_TRUNCATES prior) p))
  | Panic s => Panic s
  | OutOfFuel => OutOfFuel
  end.

(* the same path written by several commands in a row (inputs [datas], in this order); the state after every command *)
Fixpoint convert_o_chain (prior : fs_path) (datas : list bytes) : list (res fs_path) :=
  match datas with
  | [] => []
  | d :: r =>
      let p := convert_o_path prior d in
      p :: convert_o_chain (match p with Ok s => s | _ => prior end) r
  end.

(* ------------------------------------------------------------------ the plugin stage (wave 7)
   With one of the options --file_transfer[=glob] (+ --file_transfer_path/_apid/_ctid), --nonverbose_path, --someip_path,
   --rewrite_path, --can_path, --muniic_path (and --anon: property C19, it rewrites ids on purpose) `plugins_active` of
   convert() is not empty and a plugin thread runs between lc_thread and the sort / filter / output threads:
       plugins_process_msgs(rx_from_lc_thread, outflow, plugins_active)              (src/plugins/mod.rs)
       for mut msg in inflow {
           let mut forward_msg = true;
           for plugin in &mut plugins_active { if !plugin.process_msg(&mut msg) { forward_msg = false; break; } }
           if forward_msg { outflow(msg)?; }
       }
   (the same loop as C19's Plugins/Chain.v, here on the messages of Dlt/Frame.v, i.e. on exactly the fields to_write reads;
   payload_text and the lifecycle id, which the decoders may set, are not part of a DLT frame).  None of these options
   selects messages: selection is -f / --eac / --lcs / -b / -e (property C14).
   A plugin: private state + process_msg (new state, the possibly modified message, forward?). *)
Record plugin := {
  p_st : Type;
  p_state : p_st;
  p_step : p_st -> msg -> p_st * msg * bool
}.

Definition p_apply (p : plugin) (m : msg) : plugin * msg * bool :=
  match p_step p (p_state p) m with
  | (s', m', b) => ({| p_st := p_st p; p_state := s'; p_step := p_step p |}, m', b)
  end.

(* the inner loop: the first `false` ends the pass, later plugins do not see the message *)
Fixpoint plugins_pass (ps : list plugin) (m : msg) : list plugin * msg * bool :=
  match ps with
  | [] => ([], m, true)
  | p :: r =>
      match p_apply p m with
      | (p', m', true) => match plugins_pass r m' with (r', m'', b) => (p' :: r', m'', b) end
      | (p', m', false) => (p' :: r, m', false)
      end
  end.

(* the outer loop (FIFO channel to the next thread: outflow never fails) *)
Fixpoint plugins_process (ps : list plugin) (ms : list msg) : list msg :=
  match ms with
  | [] => []
  | m :: rest =>
      match plugins_pass ps m with
      | (ps', m', fwd) => (if fwd then [m'] else []) ++ plugins_process ps' rest
      end
  end.

(* `adlt convert <plugin options> -o`: reader -> lifecycle stage -> [stage] -> writer *)
Definition convert_o_with (stage : list msg -> list msg) (data : bytes) : res wres :=
  match run_iter 0 data with
  | Ok (ms, _, _) => write_all (stage (lifecycle_stage ms))
  | Panic s => Panic s
  | OutOfFuel => OutOfFuel
  end.
Definition convert_o_plugins (ps : list plugin) (data : bytes) : res wres := convert_o_with (plugins_process ps) data.

(* What a plugin other than the anonymiser may do to the part of a message that to_write reads (the contract C19 states
   as `frame` in Plugins/Chain.v): fill in a MISSING extended header (NonVerbosePlugin, from the FIBEX frame description;
   the writer then writes it: header completion, /repo commit f6163bb made the 16 bit len overflow of that an Err); set
   the timestamp only if [allow_ts] (RewritePlugin with a `timeStamp` capture group).  Everything else is kept. *)
Definition completes (allow_ts : bool) (m m' : msg) : Prop :=
  m_index m' = m_index m /\ m_reception_us m' = m_reception_us m /\ m_ecu m' = m_ecu m /\ m_std m' = m_std m /\
  m_payload m' = m_payload m /\
  (match m_ext m with Some e => m_ext m' = Some e | None => True end) /\
  (allow_ts = true \/ m_timestamp m' = m_timestamp m).

(* a plugin that never drops and stays inside that contract on the states it can reach ... *)
Definition Conservative (allow_ts : bool) (p : plugin) : Prop :=
  exists I : p_st p -> Prop,
    I (p_state p) /\
    forall s m, I s -> match p_step p s m with (s', m', b) => I s' /\ completes allow_ts m m' /\ b = true end.
(* ... and one that hands every message on untouched *)
Definition Exact (p : plugin) : Prop :=
  exists I : p_st p -> Prop,
    I (p_state p) /\ forall s m, I s -> match p_step p s m with (s', m', b) => I s' /\ m' = m /\ b = true end.

(* undo the completion: the message [m'] with the extended header and timestamp of [m] *)
Definition uncomplete (m m' : msg) : msg :=
  {| m_index := m_index m'; m_reception_us := m_reception_us m'; m_ecu := m_ecu m'; m_timestamp := m_timestamp m;
     m_std := m_std m'; m_ext := m_ext m; m_payload := m_payload m' |}.
Fixpoint uncomplete_all (ms ms' : list msg) : list msg :=
  match ms, ms' with
  | m :: r, m' :: r' => uncomplete m m' :: uncomplete_all r r'
  | _, _ => []
  end.

(* ---- FileTransferPlugin as configured by convert():
     json!({"name":"file_transfer","allowSave":false, "keepFLDA":true, "autoSavePath": <--file_transfer_path or "./">,
            "autoSaveGlob": <--file_transfer>}) + "apid" / "ctid" from --file_transfer_apid / --file_transfer_ctid;
   FileTransferPlugin::from_json reads the keys "enabled" (default true), "allowSave", "keepFLDA" (DEFAULT FALSE: FLDA messages
   are swallowed unless the configuration says keepFLDA = true), "apid", "ctid", "autoSavePath", "autoSaveGlob".
   The plugin itself is C17's model (FileTransfer/Ft.v) on the arguments decoded by C18's model (Dlt/Args.v);
   process_msg never modifies the message, and whether it forwards it depends on the message only (not on the transfers
   seen so far): false exactly for a message classified as FLDA when keepFLDA is off. *)
Module DA := AdltV.Dlt.Args.
Module FT := AdltV.FileTransfer.Ft.

Definition ft_arg (a : DA.arg) : FT.arg := FT.mkArg (DA.a_ti a) (DA.a_be a) (DA.a_raw a).
(* what process_msg reads: ecu, apid / ctid / verb_mstp_mtin / noar, the arguments (`msg.into_iter()`); the lifecycle id
   only enters the transfer key *)
Definition ft_view (m : msg) : FT.msg :=
  FT.mkMsg (ecu_key (m_ecu m)) 0
    (match m_ext m with
     | Some e => Some (FT.mkExt (ecu_key (apid e)) (ecu_key (ctid e)) (verb_mstp_mtin e) (noar e))
     | None => None
     end)
    (match m_ext m with
     | Some e =>
         match DA.msg_args (N.testbit (verb_mstp_mtin e) 0) (is_big_endian (m_std m)) (m_payload m) with
         | Ok l => map ft_arg l
         | _ => []
         end
     | None => []     (* only read for verbose messages *)
     end).

(* return value of FileTransferPlugin::process_msg *)
Definition ft_forwards (c : FT.cfg) (m : msg) : bool :=
  match FT.classify c (ft_view m) with FT.KFlda => FT.c_keep_flda c | _ => true end.
Definition ft_plugin (c : FT.cfg) : plugin :=
  {| p_st := unit; p_state := tt; p_step := fun _ m => (tt, m, ft_forwards c m) |}.

(* the value convert() puts under the key "keepFLDA" / what from_json uses when the key is absent *)
Definition CLI_KEEP_FLDA : bool := true.
Definition FROM_JSON_DEFAULT_KEEP_FLDA : bool := false.
(* [apid], [ctid]: --file_transfer_apid / _ctid (DltChar4 as number); [dir]: --file_transfer_path; [glob]: --file_transfer *)
Definition cli_ft_cfg (apid ctid : option N) (dir : option (list N)) (glob : list N -> bool) : FT.cfg :=
  FT.mkCfg true false CLI_KEEP_FLDA apid ctid (Some (match dir with Some d => d | None => [46; 47] end)) (Some glob).
(* the same configuration without a (correctly spelled) "keepFLDA" entry *)
Definition cli_ft_cfg_no_keep (apid ctid : option N) (dir : option (list N)) (glob : list N -> bool) : FT.cfg :=
  FT.mkCfg true false FROM_JSON_DEFAULT_KEEP_FLDA apid ctid (Some (match dir with Some d => d | None => [46; 47] end)) (Some glob).

(* `adlt convert --file_transfer=<glob> [--file_transfer_apid a] [--file_transfer_ctid c] [--file_transfer_path d] -o` *)
Definition convert_o_ft (apid ctid : option N) (dir : option (list N)) (glob : list N -> bool) (data : bytes) : res wres :=
  convert_o_plugins [ft_plugin (cli_ft_cfg apid ctid dir glob)] data.
