(* Model of the unfiltered, unsorted `adlt convert <in> -o <out>` pipeline of /repo/src/bin/adlt/convert.rs as a whole:
     reader thread   DltMessageIterator over the file, indices from 0               (Dlt/Iter.v: run_iter 0)
     lc_thread       adlt::lifecycle::parse_lifecycles_buffered_from_stream; every message passes through it and is
                     handed on by its outflow closure (possibly after having been buffered)      (Lifecycle/Model.v: detect)
     (no plugin / sort / filter thread without the respective options)
     t4              `msg.to_write(file)?` per message received, in the order received           (Dlt/Write.v: write_all)
   The lifecycle detector model works on the view of a message it reads (index, ECU, reception time, timestamp in us,
   timestamp presence, control-request flag); what it hands on is found again by its index (the iterator numbers the
   messages consecutively, so indices are unique).  The channels between the threads are FIFO.
   Model only, no proofs (proofs: Dlt/WritePipelineProofs.v). *)
From Coq Require Import List NArith Bool.
From AdltV Require Import Base.Res Base.MachInt Dlt.Frame Dlt.Iter Dlt.Write.
From AdltV Require Lifecycle.Model.
Import ListNotations.
Open Scope N_scope.

Module LM := AdltV.Lifecycle.Model.

(* DltChar4 as a number (the detector only compares ECU ids) *)
Definition ecu_key (c : char4) : N := match c with (a, b, c', d) => be32 a b c' d end.

(* DltMessage::is_ctrl_request: extended header with `(verb_mstp_mtin >> 1) & 7 == 3 && verb_mstp_mtin >> 4 == 1` *)
Definition is_ctrl_request (m : msg) : bool :=
  match m_ext m with
  | Some e => (((verb_mstp_mtin e / 2) mod 8) =? 3) && ((verb_mstp_mtin e / 16) =? 1)
  | None => false
  end.

(* what the lifecycle detector reads of a message: timestamp_us() = timestamp_dms * 100 *)
Definition lc_view (m : msg) : LM.msg :=
  {| LM.m_index := m_index m; LM.m_ecu := ecu_key (m_ecu m); LM.m_rt := m_reception_us m;
     LM.m_ts := m_timestamp m * 100; LM.m_has_ts := has_timestamp (m_std m); LM.m_creq := is_ctrl_request m;
     LM.m_lc := 0 |}.

Definition find_index (ms : list msg) (i : N) : list msg :=
  match find (fun m => m_index m =? i) ms with Some m => [m] | None => [] end.

(* the messages in the order in which the detector hands them to its outflow (a fresh process: NEXT_LC_ID = 1,
   empty lifecycle table); the lifecycle field it sets is not part of the DLT frame *)
Definition delivered_indices (ms : list msg) : list N :=
  map (fun x => LM.m_index (fst x)) (fst (LM.detect 1 [] (map lc_view ms))).
Definition lifecycle_stage (ms : list msg) : list msg := flat_map (find_index ms) (delivered_indices ms).

(* the file `adlt convert -o` writes for the input file [data] *)
Definition convert_o (data : bytes) : res wres :=
  match run_iter 0 data with
  | Ok (ms, _, _) => write_all (lifecycle_stage ms)
  | Panic s => Panic s
  | OutOfFuel => OutOfFuel
  end.
