(* Model of the unfiltered, unsorted `adlt convert <in> -o <out>` pipeline of /repo/src/bin/adlt/convert.rs as a whole:
     reader thread   DltMessageIterator over the file, indices from 0               (Dlt/Iter.v: run_iter 0)
     lc_thread       adlt::lifecycle::parse_lifecycles_buffered_from_stream; every message passes through it and is
                     handed on by its outflow closure (possibly after having been buffered)      (Lifecycle/Model.v: detect)
     (no plugin / sort / filter thread without the respective options)
     t4              `msg.to_write(file)?` per message received, in the order received           (Dlt/Write.v: write_all)
   The lifecycle detector model works on the view of a message it reads (index, ECU, reception time, timestamp in us,
   timestamp presence, control-request flag); what it hands on is found again by its index (the iterator numbers the
   messages consecutively, so indices are unique).  The channels between the threads are FIFO.
   Model only, no proofs (proofs: Dlt/WritePipelineProofs.v). *)
From Coq Require Import List NArith Bool.
From AdltV Require Import Base.Res Base.MachInt Dlt.Frame Dlt.Iter Dlt.Write Reader.LowMark Dlt.Chunk.
From AdltV Require Lifecycle.Model.
Import ListNotations.
Open Scope N_scope.

Module LM := AdltV.Lifecycle.Model.

(* DltChar4 as a number (the detector only compares ECU ids) *)
Definition ecu_key (c : char4) : N := match c with (a, b, c', d) => be32 a b c' d end.

(* DltMessage::is_ctrl_request: extended header with `(verb_mstp_mtin >> 1) & 7 == 3 && verb_mstp_mtin >> 4 == 1` *)
Definition is_ctrl_request (m : msg) : bool :=
  match m_ext m with
  | Some e => (((verb_mstp_mtin e / 2) mod 8) =? 3) && ((verb_mstp_mtin e / 16) =? 1)
  | None => false
  end.

(* what the lifecycle detector reads of a message: timestamp_us() = timestamp_dms * 100 *)
Definition lc_view (m : msg) : LM.msg :=
  {| LM.m_index := m_index m; LM.m_ecu := ecu_key (m_ecu m); LM.m_rt := m_reception_us m;
     LM.m_ts := m_timestamp m * 100; LM.m_has_ts := has_timestamp (m_std m); LM.m_creq := is_ctrl_request m;
     LM.m_lc := 0 |}.

Definition find_index (ms : list msg) (i : N) : list msg :=
  match find (fun m => m_index m =? i) ms with Some m => [m] | None => [] end.

(* the messages in the order in which the detector hands them to its outflow (a fresh process: NEXT_LC_ID = 1,
   empty lifecycle table); the lifecycle field it sets is not part of the DLT frame *)
Definition delivered_indices (ms : list msg) : list N :=
  map (fun x => LM.m_index (fst x)) (fst (LM.detect 1 [] (map lc_view ms))).
Definition lifecycle_stage (ms : list msg) : list msg := flat_map (find_index ms) (delivered_indices ms).

(* the file `adlt convert -o` writes for the input file [data] *)
Definition convert_o (data : bytes) : res wres :=
  match run_iter 0 data with
  | Ok (ms, _, _) => write_all (lifecycle_stage ms)
  | Panic s => Panic s
  | OutOfFuel => OutOfFuel
  end.

(* the same with the reader wiring of convert.rs (get_single_it): the iterator runs over
   LowMarkBufReader::new(file, BUFREADER_CAPACITY = 512 KiB, DLT_MAX_STORAGE_MSG_SIZE + 4) -- Reader/LowMark.v (fill_buf with
   its compaction of the unconsumed bytes to a 4096-aligned end, consume), Dlt/Chunk.v (run_iter_rd).  [sched]: the sizes
   of the file's (possibly short) reads. *)
Definition BUFREADER_CAPACITY : N := 524288.
Definition CONVERT_LOW_MARK : N := 65551 + 4.
Definition convert_o_rd (data : bytes) (sched : list N) : res wres :=
  match run_iter_rd 0 BUFREADER_CAPACITY CONVERT_LOW_MARK data sched with
  | Ok (ms, _, _) => write_all (lifecycle_stage ms)
  | Panic s => Panic s
  | OutOfFuel => OutOfFuel
  end.

(* boolean form of the invariant of parsed messages (Dlt/WriteProofs.v: wf_msg), for messages built directly *)
Definition wf_msgb (m : msg) : bool :=
  (len (m_std m) <=? 65535) && (len (m_std m) =? std_ext_header_size (m_std m) + blen (m_payload m))
  && (m_timestamp m <? 4294967296) && (has_timestamp (m_std m) || (m_timestamp m =? 0))
  && Bool.eqb (is_some (m_ext m)) (has_ext_hdr (m_std m)) && (m_reception_us m / 1000000 <? 4294967296).

(* ------------------------------------------------------------------ the `-o` path
   State of a path of the file system: None = absent, Some content = a regular file with that content.
   Output thread t4 of convert.rs: `std::fs::File::create(s)` wrapped into a BufWriter; one `msg.to_write(file)?` per
   message received; `flush` at the end (and on drop when a `?` leaves the closure early).  The file is written
   sequentially from offset 0; a write into a file replaces the bytes at the write position and leaves what lies beyond the
   last byte written (only opening with `truncate` discards the old content). *)
Definition fs_path := option bytes.

(* the content a file opened for writing (position 0, created when absent) starts with *)
Definition open_for_write (truncate : bool) (prior : fs_path) : bytes :=
  if truncate then [] else match prior with Some c => c | None => [] end.

(* sequential writes of [b] from offset 0 into a file holding [c] *)
Definition overwrite (c b : bytes) : bytes := b ++ skipn (length b) c.

(* std::fs::File::create = OpenOptions::new().write(true).create(true).truncate(true) *)
Definition FILE_CREATE_TRUNCATES : bool := true.

(* the `-o` path after `adlt convert <in> -o <path>`, [prior] = its state before the command, [data] = content of <in>.
   When a to_write returns Err the bytes written so far reach the file through the BufWriter's drop. *)
Definition convert_o_path (prior : fs_path) (data : bytes) : res fs_path :=
  match convert_o data with
  | Ok (WOk b) => Ok (Some (overwrite (open_for_write FILE_CREATE_TRUNCATES prior) b))
  | Ok (WErr p) => Ok (Some (overwrite (open_for_write FILE_CREATE_TRUNCATES prior) p))
  | Panic s => Panic s
  | OutOfFuel => OutOfFuel
  end.

(* the same path written by several commands in a row (inputs [datas], in this order); the state after every command *)
Fixpoint convert_o_chain (prior : fs_path) (datas : list bytes) : list (res fs_path) :=
  match datas with
  | [] => []
  | d :: r =>
      let p := convert_o_path prior d in
      p :: convert_o_chain (match p with Ok s => s | _ => prior end) r
  end.
