(* Model of DltMessageIterator (/repo/src/utils/dltmessageiterator.rs): `next` = loop { storage attempt unless the
   serial framing is latched; serial attempt unless the storage framing is latched }, skip one byte on
   InvalidData, stop on NotEnoughData, counters index / bytes_processed / bytes_skipped, latches
   detected_storage_header / detected_serial_header.  Model only, no proofs (proofs: Dlt/IterProofs.v).

   The two halves of one loop turn are pure functions of (iterator state, window shown by fill_buf)
   -> [action]; [next_gen] runs them over an arbitrary reader (fill_buf / consume), [next]/[drain] are the
   instance for a reader that always shows the whole remaining input (std::io::Cursor). *)
From Coq Require Import List NArith Bool.
From AdltV Require Import Base.Res Base.MachInt Dlt.Frame.
Import ListNotations.
Open Scope N_scope.

Record ist := {
  i_index : N;            (* u32 *)
  i_processed : N;        (* usize; never exceeds the input length (IterProofs), hence modelled unchecked *)
  i_skipped : N;
  i_det_storage : bool;
  i_det_serial : bool
}.
Definition ist_new (start : N) : ist :=
  {| i_index := start; i_processed := 0; i_skipped := 0; i_det_storage := false; i_det_serial := false |}.

Inductive action : Type :=
| AYield (consumed : N) (m : msg) (st' : ist)   (* reader.consume(consumed); return Some(m) *)
| ASkip (st' : ist)                             (* reader.consume(1); next loop turn *)
| APass                                         (* nothing consumed, state unchanged; go on *)
| AStop.                                        (* break; return None *)

(* Ok((res, msg)) arm: `self.index += 1` is a checked u32 addition (debug build) *)
Definition on_msg (storage : bool) (st : ist) (consumed : N) (m : msg) : res action :=
  (idx <- add_chk u32max (i_index st) 1 ;;
   Ok (AYield consumed m
         {| i_index := idx; i_processed := i_processed st + consumed; i_skipped := i_skipped st;
            i_det_storage := if storage then true else i_det_storage st;
            i_det_serial := if storage then i_det_serial st else true |}))%res.

Definition skip1 (st : ist) : ist :=
  {| i_index := i_index st; i_processed := i_processed st + 1; i_skipped := i_skipped st + 1;
     i_det_storage := i_det_storage st; i_det_serial := i_det_serial st |}.

(* `if !self.detected_serial_header { let data = fill_buf(); let avail = data.len();
        match parse_dlt_with_storage_header(..) {..} }` on window w.
   NotEnoughData arm (code in /repo, [legacy = false], after commits 47301c0 and 9045554):
   `if self.detected_storage_header || avail >= MIN_DLT_MSG_SIZE { break }` -- only when fewer bytes than the
   smallest storage-header message are available and the storage framing is not latched does the loop fall through
   to the serial attempt (a shorter serial-header message may follow); an incomplete storage-header message stops
   the iterator whether or not a message preceded it.
   [legacy = true] is the code before 47301c0 (every non-InvalidData error breaks the loop), kept for the
   refuted-witness theorem only. *)
Definition storage_half (legacy : bool) (st : ist) (w : bytes) : res action :=
  match parse_storage (i_index st) w with
  | PMsg n m => on_msg true st n m
  | PInvalid => if i_det_storage st then Ok (ASkip (skip1 st)) else Ok APass
  | PNotEnough _ => if legacy || i_det_storage st || (MIN_DLT_MSG_SIZE <=? blen w) then Ok AStop else Ok APass
  end.

(* `if !self.detected_storage_header { match parse_dlt_with_serial_header(..) {..} }` *)
Definition serial_half (st : ist) (w : bytes) : res action :=
  match parse_serial (i_index st) w with
  | PMsg n m => on_msg false st n m
  | PInvalid => Ok (ASkip (skip1 st))
  | PNotEnough _ => Ok AStop
  end.

Section Reader.
  Variable R : Type.
  Variable fill_buf : R -> R * bytes.      (* may refill: returns the reader and the window shown *)
  Variable consume : N -> R -> R.
  Variable legacy : bool.

  Fixpoint next_gen (fuel : nat) (st : ist) (r : R) : res (option msg * ist * R) :=
    match fuel with
    | O => OutOfFuel
    | S f =>
        (let '(r1, w1) := fill_buf r in
         a1 <- (if i_det_serial st then Ok APass else storage_half legacy st w1) ;;
         let r1 := if i_det_serial st then r else r1 in
         match a1 with
         | AYield n m st' => Ok (Some m, st', consume n r1)
         | AStop => Ok (None, st, r1)
         | ASkip st' => next_gen f st' (consume 1 r1)   (* only when the storage framing is latched *)
         | APass =>
             if i_det_storage st then next_gen f st r1  (* both latched (unreachable): the Rust loop spins *)
             else
               let '(r2, w2) := fill_buf r1 in
               a2 <- serial_half st w2 ;;
               match a2 with
               | AYield n m st' => Ok (Some m, st', consume n r2)
               | AStop => Ok (None, st, r2)
               | ASkip st' => next_gen f st' (consume 1 r2)
               | APass => next_gen f st r2
               end
         end)%res
    end.

  (* call next until it returns None; [fuel] bounds both the number of calls and each call's loop *)
  Fixpoint drain_gen (fuel nfuel : nat) (st : ist) (r : R) : res (list msg * ist * R) :=
    match fuel with
    | O => OutOfFuel
    | S f =>
        ('(o, st', r') <- next_gen nfuel st r ;;
         match o with
         | None => Ok ([], st', r')
         | Some m => '(ms, st'', r'') <- drain_gen f nfuel st' r' ;; Ok (m :: ms, st'', r'')
         end)%res
    end.
End Reader.

(* std::io::Cursor over the whole input: the reader state is the remaining input *)
Definition cursor_fill (r : bytes) : bytes * bytes := (r, r).
Definition cursor_consume (n : N) (r : bytes) : bytes := skipn (N.to_nat n) r.

Definition next_l (legacy : bool) := next_gen bytes cursor_fill cursor_consume legacy.
Definition drain_l (legacy : bool) := drain_gen bytes cursor_fill cursor_consume legacy.
Definition next := next_l false.
Definition drain_fuel := drain_l false.

(* DltMessageIterator::new(start, Cursor::new(data)) drained: messages, final state, unconsumed rest *)
Definition run_iter_l (legacy : bool) (start : N) (data : bytes) : res (list msg * ist * bytes) :=
  drain_l legacy (S (length data)) (S (length data)) (ist_new start) data.
Definition run_iter := run_iter_l false.
