(* Proofs about Dlt/Probe.v (the probe of an input file, get_dlt_infos_from_read):
   - a std BufReader whose capacity is not smaller than the bytes behind it is transparent for the iterator
     (br_drain_cursor; ChunkProofs.drain_sim with "buffer ++ not yet read = what a Cursor would show");
     hence probe = the Cursor iterator on the window = probe_exec (probe_exec_eq);
   - the iterator on a WINDOW of a stream (its first n bytes, cut anywhere): exactly the messages that are
     completely inside the window, whatever the cut leaves of the next one (window_run): the part up to the last
     complete message is handled as in IterProofs.drain_stream, the rest -- a marker-free run and possibly a proper
     prefix of the next message -- is "dead": no parser accepts anything at any of its positions (dead_tail), because a
     parser that sees the standard header of an incomplete message asks for more bytes than there are;
   - the probe's first message and ECU list (probe_exact, probe_first). *)
From Coq Require Import List NArith Bool Lia Arith.
From AdltV Require Import Base.Res Base.MachInt Dlt.Frame Dlt.FrameProofs Dlt.Iter Dlt.IterProofs Dlt.IterTotal
  Dlt.IterReader Dlt.ChunkProofs Dlt.IterFast Dlt.IterFastProofs Dlt.Probe.
Import ListNotations.
Open Scope N_scope.

(* ---------------------------------------------------------------- the BufReader is transparent when it can hold everything *)
Section BufReader.
  Variable cap : N.

  Definition br_rel (r : bufreader) (d : bytes) : Prop :=
    d = fst r ++ snd r /\ (snd r = [] \/ (fst r = [] /\ blen (snd r) <= cap)).

  Lemma half_equiv_refl w : half_equiv w w.
  Proof. intros st. split; reflexivity. Qed.

  Lemma br_fill_rel a b : br_rel a b ->
    br_rel (fst (br_fill cap a)) (fst (cursor_fill b)) /\ half_equiv (snd (br_fill cap a)) (snd (cursor_fill b)) /\
    (forall n, 1 <= n <= blen (snd (br_fill cap a)) ->
               br_rel (br_consume n (fst (br_fill cap a))) (cursor_consume n (fst (cursor_fill b)))).
  Proof.
    destruct a as [buf inner]. intros [Hb Hc]. cbn [fst snd] in *. subst b.
    unfold br_fill, cursor_fill. cbn [fst snd].
    destruct buf as [|x t].
    - assert (Hle : (length inner <= N.to_nat cap)%nat).
      { destruct Hc as [->|[_ H]]; [cbn; lia|unfold blen in H; lia]. }
      rewrite (firstn_all2 inner Hle), (skipn_all2 inner Hle). cbn [app fst snd].
      split; [|split].
      + split; [cbn [fst snd]; rewrite app_nil_r; reflexivity|left; reflexivity].
      + apply half_equiv_refl.
      + intros n _. unfold br_consume, cursor_consume, br_rel. cbn [fst snd].
        split; [rewrite app_nil_r; reflexivity|left; reflexivity].
    - destruct Hc as [Hi|[Hi _]]; [|discriminate]. subst inner. cbn [fst snd]. rewrite app_nil_r.
      split; [|split].
      + split; [cbn [fst snd]; rewrite app_nil_r; reflexivity|left; reflexivity].
      + apply half_equiv_refl.
      + intros n _. unfold br_consume, cursor_consume, br_rel. cbn [fst snd].
        split; [rewrite app_nil_r; reflexivity|left; reflexivity].
  Qed.

  Lemma br_drain_cursor fuel nfuel st w : blen w <= cap ->
    match drain_gen bufreader (br_fill cap) br_consume false fuel nfuel st (br_new w) with
    | Ok (ms, st', _) => exists d', drain_fuel fuel nfuel st w = Ok (ms, st', d')
    | Panic s => drain_fuel fuel nfuel st w = Panic s
    | OutOfFuel => drain_fuel fuel nfuel st w = OutOfFuel
    end.
  Proof.
    intros Hw.
    assert (H0 : br_rel (br_new w) w).
    { unfold br_rel, br_new. cbn [fst snd app]. split; [reflexivity|right; split; [reflexivity|exact Hw]]. }
    pose proof (drain_sim bufreader bytes (br_fill cap) br_consume cursor_fill cursor_consume br_rel br_fill_rel
                  fuel nfuel st (br_new w) w H0) as H.
    unfold drain_fuel, drain_l.
    destruct (drain_gen bufreader (br_fill cap) br_consume false fuel nfuel st (br_new w)) as [[[ms st'] r']|s|];
      destruct (drain_gen bytes cursor_fill cursor_consume false fuel nfuel st w) as [[[ms2 st2] d']|s2|];
      cbn [res_rel] in H; try contradiction.
    - destruct H as [Ho _]. inversion Ho; subst. exists d'. reflexivity.
    - subst. reflexivity.
    - reflexivity.
  Qed.
End BufReader.

(* ---------------------------------------------------------------- an incomplete message is not parsed *)
Lemma std_from_buf_prefix w e : (4 <= length w)%nat -> std_from_buf (w ++ e) = std_from_buf w.
Proof. destruct w as [|a [|b [|c [|d w']]]]; cbn [length]; try lia. intros _. reflexivity. Qed.

Lemma pam_short hsz pat short sh idx P n m :
  blen P - hsz < len (std_from_buf (skipn (N.to_nat hsz) P)) ->
  parse_after_marker hsz pat short sh idx P <> PMsg n m.
Proof.
  intros H. unfold parse_after_marker. cbv zeta.
  destruct (len (std_from_buf (skipn (N.to_nat hsz) P)) <? std_ext_header_size (std_from_buf (skipn (N.to_nat hsz) P)));
    [discriminate|].
  destruct (N.ltb_spec (blen P - hsz) (len (std_from_buf (skipn (N.to_nat hsz) P)))) as [_|Hc]; [|lia].
  destruct short; discriminate.
Qed.

(* P is a proper prefix of the encoding of a *)
Definition partial (f : framing) (a : amsg) (P : bytes) : Prop := exists e, e <> [] /\ enc f a = P ++ e.

Lemma partial_std (hdr : bytes) a P e (hsz : nat) :
  length hdr = hsz -> hdr ++ enc_std a = P ++ e -> (hsz + 4 <= length P)%nat -> a_len a <= 65535 ->
  std_from_buf (skipn hsz P) = a_std a.
Proof.
  intros Hh He Hp Hlen.
  assert (Hx : enc_std a = skipn hsz P ++ e).
  { apply (f_equal (skipn hsz)) in He. rewrite (skipn_app_exact hdr _ hsz (eq_sym Hh)) in He.
    rewrite skipn_app in He. replace (hsz - length P)%nat with 0%nat in He by lia. exact He. }
  rewrite <- (std_from_buf_prefix (skipn hsz P) e) by (rewrite skipn_length; lia).
  rewrite <- Hx. unfold enc_std, std_from_buf, a_std.
  cbv [app be16_bytes byte_at nth]. rewrite be16_bytes_dec by exact Hlen. reflexivity.
Qed.

Lemma partial_short f a P e : e <> [] -> enc f a = P ++ e ->
  blen P < (match f with Storage => 16 | Serial => 4 end) + a_len a.
Proof.
  intros Hne He. pose proof (f_equal blen He) as Hb. rewrite enc_length, blen_app in Hb.
  destruct e as [|x e]; [contradiction|]. unfold blen in *. cbn [length] in Hb. lia.
Qed.

Lemma parse_storage_partial idx a P n m : wf_amsg a -> partial Storage a P -> parse_storage idx P <> PMsg n m.
Proof.
  intros Hwf [e [Hne He]]. pose proof (partial_short Storage a P e Hne He) as Hlen. cbv beta iota in Hlen. cbn [enc] in He.
  unfold parse_storage, MIN_DLT_MSG_SIZE.
  destruct (N.ltb_spec (blen P) 20) as [|H20]; [discriminate|].
  destruct (storage_from_buf P) as [sh|]; [|discriminate].
  apply pam_short. unfold DLT_STORAGE_HEADER_SIZE. change (N.to_nat 16) with 16%nat.
  rewrite (partial_std (sto_hdr_bytes a) a P e 16).
  - cbn [len a_std]. lia.
  - pose proof (sto_hdr_bytes_length a) as H. unfold blen in H. lia.
  - rewrite <- He. pose proof (enc_storage_split a []) as H. rewrite !app_nil_r in H. symmetry. exact H.
  - unfold blen in H20. lia.
  - apply Hwf.
Qed.

Lemma parse_serial_partial idx a P n m : wf_amsg a -> partial Serial a P -> parse_serial idx P <> PMsg n m.
Proof.
  intros Hwf [e [Hne He]]. pose proof (partial_short Serial a P e Hne He) as Hlen. cbv beta iota in Hlen. cbn [enc] in He.
  unfold parse_serial, DLT_SERIAL_HEADER_SIZE, DLT_MIN_STD_HEADER_SIZE.
  destruct (N.ltb_spec (blen P) (4 + 4)) as [|H8]; [discriminate|].
  destruct (negb (is_serial_pat P)); [discriminate|].
  apply pam_short. change (N.to_nat 4) with 4%nat.
  rewrite (partial_std [68; 76; 83; 1] a P e 4).
  - cbn [len a_std]. lia.
  - reflexivity.
  - rewrite <- He. reflexivity.
  - unfold blen in H8. lia.
  - apply Hwf.
Qed.

Lemma parse_serial_not_msg index d : is_serial_pat d = false -> forall n m, parse_serial index d <> PMsg n m.
Proof.
  intros Hp n m. unfold parse_serial.
  destruct (blen d <? DLT_SERIAL_HEADER_SIZE + DLT_MIN_STD_HEADER_SIZE); [discriminate|]. rewrite Hp. discriminate.
Qed.

Lemma storage_pat_len l : is_storage_pat l = true -> 4 <= blen l.
Proof. destruct l as [|a [|b [|c [|d w']]]]; cbn; try discriminate. unfold blen. cbn [length]. lia. Qed.
Lemma serial_pat_len l : is_serial_pat l = true -> 4 <= blen l.
Proof. destruct l as [|a [|b [|c [|d w']]]]; cbn; try discriminate. unfold blen. cbn [length]. lia. Qed.

Lemma partial_dead f a P idx n m : wf_amsg a -> partial f a P ->
  parse_storage idx P <> PMsg n m /\ parse_serial idx P <> PMsg n m.
Proof.
  intros Hwf Hp. destruct f.
  - split; [apply (parse_storage_partial idx a); assumption|].
    apply parse_serial_not_msg. destruct (is_serial_pat P) eqn:E; [|reflexivity].
    destruct Hp as [e [_ He]]. cbn [enc] in He.
    pose proof (serial_pat_prefix P e (serial_pat_len P E)) as Hx. rewrite <- He, E in Hx.
    pose proof (is_serial_pat_enc_storage a []) as Hy. rewrite app_nil_r in Hy. congruence.
  - split; [|apply (parse_serial_partial idx a); assumption].
    apply parse_storage_not_msg. destruct (is_storage_pat P) eqn:E; [|reflexivity].
    destruct Hp as [e [_ He]]. cbn [enc] in He.
    pose proof (storage_pat_prefix P e (storage_pat_len P E)) as Hx. rewrite <- He, E in Hx.
    pose proof (is_storage_pat_enc_serial a []) as Hy. rewrite app_nil_r in Hy. congruence.
Qed.

(* ---------------------------------------------------------------- dead tails: no parser accepts anything anywhere *)
Definition dead (T : bytes) : Prop :=
  forall k idx n m, parse_storage idx (skipn k T) <> PMsg n m /\ parse_serial idx (skipn k T) <> PMsg n m.

Lemma dead_of_partial f T :
  (forall k, any_marker (skipn k T) = true -> exists a, wf_amsg a /\ partial f a (skipn k T)) -> dead T.
Proof.
  intros H k idx n m. destruct (any_marker (skipn k T)) eqn:E.
  - destruct (H k E) as [a [Hwf Hp]]. apply (partial_dead f a); assumption.
  - unfold any_marker in E. apply orb_false_iff in E. destruct E as [E1 E2].
    split; [apply parse_storage_not_msg|apply parse_serial_not_msg]; assumption.
Qed.

Lemma any_marker_prefix w e : any_marker w = true -> any_marker (w ++ e) = true.
Proof.
  unfold any_marker. intros H. apply orb_true_iff in H. apply orb_true_iff. destruct H as [H|H].
  - left. rewrite storage_pat_prefix by (apply storage_pat_len; exact H). exact H.
  - right. rewrite serial_pat_prefix by (apply serial_pat_len; exact H). exact H.
Qed.

Lemma skipn_firstn_prefix {A} k m (l : list A) : exists e, skipn k l = skipn k (firstn m l) ++ e.
Proof.
  exists (skipn (k - length (firstn m l)) (skipn m l)).
  rewrite <- (firstn_skipn m l) at 1. apply skipn_app.
Qed.

(* the marker hypothesis relative to an offset (as in IterProofs.clean_of_markers) *)
Definition markers_off (f : framing) (off : nat) (segs : list seg) (gfin : bytes) : Prop :=
  forall i, any_marker (skipn i (stream f segs gfin)) = true -> In (off + i)%nat (starts f off segs).

Lemma markers_off_tail f off g a r gfin :
  markers_off f off ((g, a) :: r) gfin -> markers_off f (off + length g + length (enc f a)) r gfin.
Proof.
  intros H i E. pose proof (enc_length_pos f a) as Hpos.
  rewrite <- (skipn_app_plus (enc f a)), <- (skipn_app_plus g) in E.
  apply H in E. cbn [starts] in E. destruct E as [E|E]; [lia|].
  replace (off + length g + length (enc f a) + i)%nat with (off + (length g + (length (enc f a) + i)))%nat by lia.
  exact E.
Qed.

Lemma markers_off_app f : forall s1 s2 gfin off,
  markers_off f off (s1 ++ s2) gfin -> markers_off f (off + length (stream f s1 [])) s2 gfin.
Proof.
  induction s1 as [|[g a] r IH]; intros s2 gfin off H.
  - cbn [stream length app] in *. replace (off + 0)%nat with off by lia. exact H.
  - cbn [app] in H. apply markers_off_tail in H. apply IH in H. cbn [stream]. rewrite !app_length.
    replace (off + (length g + (length (enc f a) + length (stream f r []))))%nat
      with (off + length g + length (enc f a) + length (stream f r []))%nat by lia.
    exact H.
Qed.

(* what is left of a stream after a cut in front of / inside its first message (or without any message) is dead *)
Lemma dead_tail f off s2 gfin m :
  markers_off f off s2 gfin -> Forall (fun s => wf_amsg (snd s)) s2 ->
  (s2 = [] \/ exists g a r, s2 = (g, a) :: r /\ (m < length g + length (enc f a))%nat) ->
  dead (firstn m (stream f s2 gfin)).
Proof.
  intros Hm Hwf Hcut. apply (dead_of_partial f). intros k E.
  set (S2 := stream f s2 gfin) in *.
  assert (Hk : (k < length (firstn m S2))%nat).
  { destruct (Nat.lt_ge_cases k (length (firstn m S2))) as [Hl|Hl]; [exact Hl|].
    rewrite skipn_all2 in E by lia. discriminate. }
  destruct (skipn_firstn_prefix k m S2) as [e He].
  assert (E2 : any_marker (skipn k S2) = true) by (rewrite He; apply any_marker_prefix; exact E).
  apply Hm in E2.
  destruct Hcut as [->|(g & a & r & -> & Hlt)]; [destruct E2|].
  cbn [starts] in E2. rewrite firstn_length in Hk.
  destruct E2 as [E2|E2]; [|apply starts_ge in E2; lia].
  assert (Hkg : k = length g) by lia. subst k.
  inversion Hwf as [|? ? Hwa Hwr]; subst. cbn [snd] in Hwa.
  exists a. split; [exact Hwa|].
  unfold S2. cbn [stream].
  rewrite firstn_app, (firstn_all2 g) by lia.
  rewrite (skipn_app_exact g _ (length g) eq_refl).
  rewrite firstn_app. replace (m - length g - length (enc f a))%nat with 0%nat by lia.
  cbn [firstn]. rewrite app_nil_r.
  exists (skipn (m - length g) (enc f a)). split.
  - intros Hnil. apply (f_equal (@length N)) in Hnil. rewrite skipn_length in Hnil. cbn [length] in Hnil. lia.
  - symmetry. apply firstn_skipn.
Qed.

(* ---------------------------------------------------------------- the complete messages in front of a dead tail *)
Fixpoint clean_segs (f : framing) (segs : list seg) (T : bytes) : Prop :=
  match segs with
  | [] => True
  | (g, a) :: r =>
      (forall i, (i < length g)%nat -> nomark (skipn i (g ++ enc f a ++ stream f r T))) /\
      accept_cond f a (stream f r T) /\
      clean_segs f r T
  end.

Lemma stream_app f : forall s1 s2 gfin, stream f (s1 ++ s2) gfin = stream f s1 (stream f s2 gfin).
Proof.
  induction s1 as [|[g a] r IH]; intros s2 gfin; cbn [app stream]; [reflexivity|]. rewrite IH. reflexivity.
Qed.

Lemma stream_tail f : forall s X, stream f s X = stream f s [] ++ X.
Proof.
  induction s as [|[g a] r IH]; intros X; cbn [stream app]; [reflexivity|].
  rewrite (IH X). rewrite <- !app_assoc. reflexivity.
Qed.

Lemma clean_split f : forall s1 s2 gfin, clean f (s1 ++ s2) gfin -> clean_segs f s1 (stream f s2 gfin).
Proof.
  induction s1 as [|[g a] r IH]; intros s2 gfin H; cbn [clean_segs]; [exact I|].
  cbn [app clean] in H. destruct H as (Hg & Ha & Hr). rewrite stream_app in Hg, Ha.
  split; [exact Hg|]. split; [exact Ha|]. apply IH. exact Hr.
Qed.

Lemma clean_segs_prefix f : forall s T e, clean_segs f s (T ++ e) -> clean_segs f s T.
Proof.
  induction s as [|[g a] r IH]; intros T e H; cbn [clean_segs] in *; [exact I|].
  destruct H as (Hg & Ha & Hr). split; [|split].
  - intros i Hi. specialize (Hg i Hi).
    rewrite (stream_tail f r (T ++ e)) in Hg. rewrite (stream_tail f r T).
    assert (Hre : g ++ enc f a ++ stream f r [] ++ T ++ e = (g ++ enc f a ++ stream f r [] ++ T) ++ e)
      by (rewrite <- !app_assoc; reflexivity).
    rewrite Hre in Hg.
    assert (Hsplit : skipn i ((g ++ enc f a ++ stream f r [] ++ T) ++ e) = skipn i (g ++ enc f a ++ stream f r [] ++ T) ++ e).
    { rewrite skipn_app. replace (i - length (g ++ enc f a ++ stream f r [] ++ T))%nat with 0%nat
        by (rewrite app_length; lia). reflexivity. }
    rewrite Hsplit in Hg.
    assert (H4 : 4 <= blen (skipn i (g ++ enc f a ++ stream f r [] ++ T))).
    { pose proof (enc_length_pos f a). unfold blen. rewrite skipn_length, !app_length. lia. }
    destruct Hg as [H1 H2]. rewrite storage_pat_prefix in H1 by exact H4. rewrite serial_pat_prefix in H2 by exact H4.
    split; assumption.
  - rewrite (stream_tail f r (T ++ e)), app_assoc in Ha. apply accept_cond_prefix in Ha.
    rewrite <- stream_tail in Ha. exact Ha.
  - apply (IH T e). exact Hr.
Qed.

Lemma st_ok_not_both f st : st_ok f st -> not_both st.
Proof. unfold not_both. destruct f; cbn [st_ok]; intros ->; [apply andb_false_r|apply andb_false_l]. Qed.

Lemma dead_drain T fuel nfuel st :
  dead T -> not_both st -> i_index st + 1 <= u32max -> (length T < nfuel)%nat ->
  exists st' rest, drain_fuel (S fuel) nfuel st T = Ok ([], st', rest).
Proof.
  intros Hd Hnb Hi Hf. rewrite drain_S.
  pose proof (next_inv nfuel st T Hnb) as Hn.
  destruct (next nfuel st T) as [[[o st1] d1]|s|] eqn:En; cbn [bind].
  - destruct o as [m|].
    + exfalso. destruct (next_from_parse _ _ _ _ _ _ En) as (k & idx & n & [H|H]).
      * exact (proj1 (Hd k idx n m) H).
      * exact (proj2 (Hd k idx n m) H).
    + eexists. eexists. reflexivity.
  - unfold next_post in Hn. lia.
  - unfold next_post in Hn. lia.
Qed.

Lemma drain_stream_dead f : forall segs T st fuel nfuel,
  st_ok f st -> clean_segs f segs T -> Forall (fun s => wf_amsg (snd s)) segs -> dead T ->
  i_index st + N.of_nat (length segs) + 1 <= u32max ->
  (length segs < fuel)%nat -> (length (stream f segs T) < nfuel)%nat ->
  exists st' rest, drain_fuel fuel nfuel st (stream f segs T) = Ok (expect_list f (i_index st) segs, st', rest).
Proof.
  induction segs as [|[g a] r IH]; intros T st fuel nfuel Hok Hclean Hwf Hdead Hidx Hfuel Hnfuel.
  - cbn [stream expect_list length] in *. destruct fuel as [|fuel]; [lia|].
    apply dead_drain; [exact Hdead|apply (st_ok_not_both f); exact Hok|lia|exact Hnfuel].
  - cbn [stream expect_list length clean_segs] in *. destruct Hclean as (Hg & Hm & Hr).
    inversion Hwf as [|? ? Hwa Hwr]; subst. cbn [snd] in Hwa.
    destruct fuel as [|fuel]; [lia|].
    set (R := stream f r T) in *.
    assert (Hlen : length (g ++ enc f a ++ R) = (length g + (length (enc f a) + length R))%nat)
      by (rewrite !app_length; reflexivity).
    rewrite drain_S.
    replace nfuel with (length g + (nfuel - length g))%nat by lia.
    rewrite (skip_run f g _ st (enc f a ++ R) Hok Hg).
    2:{ rewrite blen_app. pose proof (stop_size_le_min f (own_detected f st)). pose proof (min_size_le_enc f a). lia. }
    destruct (nfuel - length g)%nat as [|nf] eqn:Hnf; [lia|].
    rewrite (turn_msg f nf (skip_by (blen g) st) a R).
    + cbn [bind].
      destruct (IH T (st_yield f (skip_by (blen g) st) a) fuel (length g + S nf)%nat) as (st' & rest & Hd).
      * apply st_ok_yield, st_ok_skip_by; exact Hok.
      * exact Hr.
      * exact Hwr.
      * exact Hdead.
      * cbn [st_yield skip_by i_index]. lia.
      * lia.
      * fold R. lia.
      * fold R in Hd. cbn [st_yield skip_by i_index] in Hd. rewrite Hd. cbn [bind].
        eexists. eexists. reflexivity.
    + apply st_ok_skip_by; exact Hok.
    + exact Hwa.
    + cbn [skip_by i_index]. lia.
    + exact Hm.
Qed.

Lemma segs_le_stream f : forall s X, (length s <= length (stream f s X))%nat.
Proof.
  induction s as [|[g a] r IH]; intros X; cbn [stream length]; [lia|].
  rewrite !app_length. pose proof (enc_length_pos f a). specialize (IH X). lia.
Qed.

(* ---------------------------------------------------------------- the iterator on the first n bytes of a stream *)
Theorem window_run f start s1 s2 gfin n :
  Forall (fun s => wf_amsg (snd s)) (s1 ++ s2) ->
  markers_only_at_starts f (s1 ++ s2) gfin ->
  (length (stream f s1 []) <= n)%nat ->
  (s2 = [] \/ exists g a r, s2 = (g, a) :: r /\ (n < length (stream f s1 []) + length g + length (enc f a))%nat) ->
  start + N.of_nat (length s1) + 1 <= u32max ->
  exists st rest, run_iter start (firstn n (stream f (s1 ++ s2) gfin)) = Ok (expect_list f start s1, st, rest).
Proof.
  intros Hwf Hm Hn Hcut Hidx.
  set (B := stream f s1 []) in *. set (S2 := stream f s2 gfin). set (T := firstn (n - length B) S2).
  assert (HW : firstn n (stream f (s1 ++ s2) gfin) = stream f s1 T).
  { rewrite stream_app, (stream_tail f s1 (stream f s2 gfin)), (stream_tail f s1 T). fold B. fold S2.
    rewrite firstn_app, (firstn_all2 B) by lia. reflexivity. }
  rewrite HW.
  apply Forall_app in Hwf. destruct Hwf as [Hwf1 Hwf2].
  assert (Hmo : markers_off f 0 (s1 ++ s2) gfin) by (intros i E; cbn [plus]; apply Hm; exact E).
  assert (Hclean : clean_segs f s1 T).
  { apply (clean_segs_prefix f s1 T (skipn (n - length B) S2)). unfold T. rewrite firstn_skipn.
    apply clean_split. apply (clean_of_markers f _ gfin 0%nat). exact Hmo. }
  assert (Hdead : dead T).
  { apply (dead_tail f (0 + length B) s2 gfin).
    - apply markers_off_app. exact Hmo.
    - exact Hwf2.
    - destruct Hcut as [->|(g & a & r & -> & Hlt)]; [left; reflexivity|].
      right. exists g, a, r. split; [reflexivity|lia]. }
  destruct (drain_stream_dead f s1 T (ist_new start) (S (length (stream f s1 T))) (S (length (stream f s1 T))))
    as (st & rest & Hd).
  - destruct f; reflexivity.
  - exact Hclean.
  - exact Hwf1.
  - exact Hdead.
  - cbn [ist_new i_index]. exact Hidx.
  - pose proof (segs_le_stream f s1 T). lia.
  - lia.
  - exists st, rest. exact Hd.
Qed.

(* every stream splits at every n into the messages that end within n bytes and the rest *)
Lemma split_at f : forall segs n, exists s1 s2,
  segs = s1 ++ s2 /\ (length (stream f s1 []) <= n)%nat /\
  (s2 = [] \/ exists g a r, s2 = (g, a) :: r /\ (n < length (stream f s1 []) + length g + length (enc f a))%nat) /\
  (forall g a r, segs = (g, a) :: r -> (length g + length (enc f a) <= n)%nat -> exists r1, s1 = (g, a) :: r1).
Proof.
  induction segs as [|[g a] r IH]; intros n.
  - exists [], []. cbn [app stream length]. split; [reflexivity|]. split; [lia|]. split; [left; reflexivity|].
    intros; discriminate.
  - destruct (le_lt_dec (length g + length (enc f a)) n) as [Hle|Hgt].
    + destruct (IH (n - length g - length (enc f a))%nat) as (s1 & s2 & E & Hl & Hc & _). subst r.
      exists ((g, a) :: s1), s2. split; [reflexivity|]. cbn [stream]. rewrite !app_length. split; [lia|]. split.
      * destruct Hc as [->|(g2 & a2 & r2 & -> & Hlt)]; [left; reflexivity|].
        right. exists g2, a2, r2. split; [reflexivity|lia].
      * intros g' a' r' E _. inversion E; subst. eexists. reflexivity.
    + exists [], ((g, a) :: r). cbn [app stream length]. split; [reflexivity|]. split; [lia|]. split.
      * right. exists g, a, r. split; [reflexivity|lia].
      * intros g' a' r' E Hle. inversion E; subst. lia.
Qed.

(* ---------------------------------------------------------------- the probe *)
Lemma probe_window_len rs fr data : blen (probe_window rs fr data) <= rs.
Proof. unfold probe_window, blen. rewrite firstn_length. lia. Qed.

Lemma probe_cap_cursor cap rs fr data : blen (probe_window rs fr data) <= cap ->
  probe_cap cap rs fr data = ('(ms, _, _) <- run_iter 0 (probe_window rs fr data) ;; Ok (probe_of ms))%res.
Proof.
  intros Hc. unfold probe_cap, probe_msgs_cap. cbv zeta. set (w := probe_window rs fr data) in *.
  pose proof (br_drain_cursor cap (S (length w)) (S (length w)) (ist_new 0) w Hc) as H.
  unfold run_iter, run_iter_l. fold drain_fuel.
  destruct (drain_gen bufreader (br_fill cap) br_consume false (S (length w)) (S (length w)) (ist_new 0) (br_new w))
    as [[[ms st] r]|s|].
  - destruct H as [d' H]. rewrite H. reflexivity.
  - rewrite H. reflexivity.
  - rewrite H. reflexivity.
Qed.

Theorem probe_exec_eq rs fr data : probe rs fr data = probe_exec rs fr data.
Proof.
  unfold probe. rewrite probe_cap_cursor by apply probe_window_len.
  unfold probe_exec. rewrite run_fast_eq. reflexivity.
Qed.

Theorem probe_exact f s1 s2 gfin rs fr :
  Forall (fun s => wf_amsg (snd s)) (s1 ++ s2) ->
  markers_only_at_starts f (s1 ++ s2) gfin ->
  N.of_nat (length s1) + 1 <= u32max ->
  blen (stream f s1 []) <= N.min rs fr ->
  (s2 = [] \/ exists g a r, s2 = (g, a) :: r /\ N.min rs fr < blen (stream f s1 []) + blen g + blen (enc f a)) ->
  probe rs fr (stream f (s1 ++ s2) gfin) = Ok (probe_of (expect_list f 0 s1)).
Proof.
  intros Hwf Hm Hidx Hin Hcut.
  unfold probe. rewrite probe_cap_cursor by apply probe_window_len. unfold probe_window.
  destruct (window_run f 0 s1 s2 gfin (N.to_nat (N.min rs fr))) as (st & rest & Hr).
  - exact Hwf.
  - exact Hm.
  - unfold blen in Hin. lia.
  - destruct Hcut as [->|(g & a & r & -> & Hlt)]; [left; reflexivity|].
    right. exists g, a, r. split; [reflexivity|unfold blen in Hlt; lia].
  - lia.
  - rewrite Hr. reflexivity.
Qed.

Theorem probe_first f g a r gfin rs fr :
  Forall (fun s => wf_amsg (snd s)) ((g, a) :: r) ->
  markers_only_at_starts f ((g, a) :: r) gfin ->
  N.min rs fr < u32max ->
  blen g + blen (enc f a) <= N.min rs fr ->
  exists ecus,
    probe rs fr (stream f ((g, a) :: r) gfin) = Ok (Some (expect f 0 a), ecus) /\ In (m_ecu (expect f 0 a)) ecus.
Proof.
  intros Hwf Hm Hu Hin.
  destruct (split_at f ((g, a) :: r) (N.to_nat (N.min rs fr))) as (s1 & s2 & E & Hl & Hc & Hf).
  destruct (Hf g a r eq_refl ltac:(unfold blen in Hin; lia)) as [r1 Hs1]. subst s1.
  rewrite E in Hwf, Hm |- *.
  assert (Hp : probe rs fr (stream f (((g, a) :: r1) ++ s2) gfin) = Ok (probe_of (expect_list f 0 ((g, a) :: r1)))).
  { apply (probe_exact f ((g, a) :: r1) s2 gfin rs fr Hwf Hm).
    - pose proof (segs_le_stream f ((g, a) :: r1) []). unfold seg in *. lia.
    - unfold blen. lia.
    - destruct Hc as [->|(g2 & a2 & r2 & -> & Hlt)]; [left; reflexivity|].
      right. exists g2, a2, r2. split; [reflexivity|unfold blen; lia]. }
  exists (map m_ecu (expect_list f 0 ((g, a) :: r1))). split; [exact Hp|left; reflexivity].
Qed.
