(* C02, pipeline part: the lifecycle stage between reader and writer of `adlt convert -o` hands on exactly the messages
   it received, in the order received (C05's forwarding theorem, Lifecycle/ForwardProofs.v), so the file written is
   write_all of the messages read. *)
From Coq Require Import List NArith Bool Lia.
From AdltV Require Import Base.Res Base.MachInt Dlt.Frame Dlt.Iter Dlt.Write Dlt.WritePipeline.
From AdltV Require Lifecycle.Model Lifecycle.ForwardProofs.
Import ListNotations.
Open Scope N_scope.

Module FP := AdltV.Lifecycle.ForwardProofs.

Definition strip_index (s : N * N * N * N * bool * bool) : N := let '(i, _, _, _, _, _) := s in i.

(* whatever the lifecycle history of the stream is: the detector delivers the indices in input order *)
Lemma delivered_indices_input ms : delivered_indices ms = map m_index ms.
Proof.
  unfold delivered_indices.
  pose proof (FP.detect_forward 1 [] (map lc_view ms)) as H.
  transitivity (map strip_index (map FP.strip (map fst (fst (LM.detect 1 [] (map lc_view ms)))))).
  - rewrite !map_map. apply map_ext. intros x. reflexivity.
  - rewrite H. rewrite !map_map. apply map_ext. intros m. reflexivity.
Qed.

Lemma find_app_none {A} (f : A -> bool) pre l :
  (forall x, In x pre -> f x = false) -> find f (pre ++ l) = find f l.
Proof.
  induction pre as [|a pre IH]; intros H; [reflexivity|].
  cbn [app find]. rewrite (H a (or_introl eq_refl)). apply IH. intros x Hx. apply H. right. exact Hx.
Qed.

Lemma flat_map_find_gen : forall ms pre,
  NoDup (map m_index (pre ++ ms)) -> flat_map (find_index (pre ++ ms)) (map m_index ms) = ms.
Proof.
  induction ms as [|m ms IH]; intros pre Hnd; [reflexivity|].
  cbn [map flat_map].
  assert (Hpre : forall x, In x pre -> (m_index x =? m_index m) = false).
  { intros x Hx. apply N.eqb_neq. intros E.
    rewrite map_app in Hnd. cbn [map] in Hnd. apply NoDup_remove_2 in Hnd. apply Hnd.
    apply in_or_app. left. rewrite <- E. apply in_map. exact Hx. }
  unfold find_index at 1. rewrite (find_app_none _ pre (m :: ms) Hpre). cbn [find]. rewrite N.eqb_refl.
  cbn [app]. f_equal.
  replace (pre ++ m :: ms) with ((pre ++ [m]) ++ ms) by (rewrite <- app_assoc; reflexivity).
  apply IH. rewrite <- app_assoc. exact Hnd.
Qed.

(* the lifecycle stage is the identity on a list of messages with pairwise different indices *)
Theorem lifecycle_stage_id ms : NoDup (map m_index ms) -> lifecycle_stage ms = ms.
Proof.
  intros Hnd. unfold lifecycle_stage. rewrite delivered_indices_input.
  exact (flat_map_find_gen ms [] Hnd).
Qed.

Lemma NoDup_consecutive start : forall n k, NoDup (map (fun j => start + N.of_nat j) (seq k n)).
Proof.
  induction n as [|n IH]; intros k; [constructor|].
  cbn [seq map]. constructor; [|apply IH].
  intros Hin. apply in_map_iff in Hin. destruct Hin as (j & Hj & Hin). apply in_seq in Hin. lia.
Qed.

(* what `adlt convert -o` writes = to_write of every message the reader yields, in order *)
Theorem convert_o_is_write_all data ms st rest :
  run_iter 0 data = Ok (ms, st, rest) ->
  map m_index ms = map (fun k => 0 + N.of_nat k) (seq 0 (length ms)) ->
  convert_o data = write_all ms.
Proof.
  intros Hr Hidx. unfold convert_o. rewrite Hr. rewrite lifecycle_stage_id; [reflexivity|].
  rewrite Hidx. apply NoDup_consecutive.
Qed.
