(* C02, pipeline part: the lifecycle stage between reader and writer of `adlt convert -o` hands on exactly the messages
   it received, in the order received (C05's forwarding theorem, Lifecycle/ForwardProofs.v), so the file written is
   write_all of the messages read. *)
From Coq Require Import List NArith Bool Lia.
From AdltV Require Import Base.Res Base.MachInt Dlt.Frame Dlt.Iter Dlt.Write Dlt.WriteProofs Dlt.WritePipeline.
From AdltV Require Import Reader.LowMark Dlt.Chunk Dlt.ChunkProofs.
From AdltV Require Lifecycle.Model Lifecycle.ForwardProofs.
Import ListNotations.
Open Scope N_scope.

Module FP := AdltV.Lifecycle.ForwardProofs.

Definition strip_index (s : N * N * N * N * bool * bool) : N := let '(i, _, _, _, _, _) := s in i.

(* whatever the lifecycle history of the stream is: the detector delivers the indices in input order *)
Lemma delivered_indices_input ms : delivered_indices ms = map m_index ms.
Proof.
  unfold delivered_indices.
  pose proof (FP.detect_forward 1 [] (map lc_view ms)) as H.
  transitivity (map strip_index (map FP.strip (map fst (fst (LM.detect 1 [] (map lc_view ms)))))).
  - rewrite !map_map. apply map_ext. intros x. reflexivity.
  - rewrite H. rewrite !map_map. apply map_ext. intros m. reflexivity.
Qed.

Lemma find_app_none {A} (f : A -> bool) pre l :
  (forall x, In x pre -> f x = false) -> find f (pre ++ l) = find f l.
Proof.
  induction pre as [|a pre IH]; intros H; [reflexivity|].
  cbn [app find]. rewrite (H a (or_introl eq_refl)). apply IH. intros x Hx. apply H. right. exact Hx.
Qed.

Lemma flat_map_find_gen : forall ms pre,
  NoDup (map m_index (pre ++ ms)) -> flat_map (find_index (pre ++ ms)) (map m_index ms) = ms.
Proof.
  induction ms as [|m ms IH]; intros pre Hnd; [reflexivity|].
  cbn [map flat_map].
  assert (Hpre : forall x, In x pre -> (m_index x =? m_index m) = false).
  { intros x Hx. apply N.eqb_neq. intros E.
    rewrite map_app in Hnd. cbn [map] in Hnd. apply NoDup_remove_2 in Hnd. apply Hnd.
    apply in_or_app. left. rewrite <- E. apply in_map. exact Hx. }
  unfold find_index at 1. rewrite (find_app_none _ pre (m :: ms) Hpre). cbn [find]. rewrite N.eqb_refl.
  cbn [app]. f_equal.
  replace (pre ++ m :: ms) with ((pre ++ [m]) ++ ms) by (rewrite <- app_assoc; reflexivity).
  apply IH. rewrite <- app_assoc. exact Hnd.
Qed.

(* the lifecycle stage is the identity on a list of messages with pairwise different indices *)
Theorem lifecycle_stage_id ms : NoDup (map m_index ms) -> lifecycle_stage ms = ms.
Proof.
  intros Hnd. unfold lifecycle_stage. rewrite delivered_indices_input.
  exact (flat_map_find_gen ms [] Hnd).
Qed.

Lemma NoDup_consecutive start : forall n k, NoDup (map (fun j => start + N.of_nat j) (seq k n)).
Proof.
  induction n as [|n IH]; intros k; [constructor|].
  cbn [seq map]. constructor; [|apply IH].
  intros Hin. apply in_map_iff in Hin. destruct Hin as (j & Hj & Hin). apply in_seq in Hin. lia.
Qed.

(* what `adlt convert -o` writes = to_write of every message the reader yields, in order *)
Theorem convert_o_is_write_all data ms st rest :
  run_iter 0 data = Ok (ms, st, rest) ->
  map m_index ms = map (fun k => 0 + N.of_nat k) (seq 0 (length ms)) ->
  convert_o data = write_all ms.
Proof.
  intros Hr Hidx. unfold convert_o. rewrite Hr. rewrite lifecycle_stage_id; [reflexivity|].
  rewrite Hidx. apply NoDup_consecutive.
Qed.

(* the reader wiring of convert.rs does not change what is exported: every window the LowMarkBufReader shows holds a whole
   maximum-sized message plus the 4 look-ahead bytes (or everything up to the end of the file) *)
Theorem convert_o_rd_eq data sched :
  wf_bytes data -> nlen data <= usizemax -> convert_o_rd data sched = convert_o data.
Proof.
  intros Hwf Hlen.
  assert (H := iter_chunk_independent data sched BUFREADER_CAPACITY CONVERT_LOW_MARK 0 Hwf).
  specialize (H ltac:(vm_compute; discriminate) ltac:(vm_compute; discriminate) ltac:(vm_compute; discriminate) Hlen).
  unfold convert_o_rd, convert_o.
  destruct (run_iter_rd 0 BUFREADER_CAPACITY CONVERT_LOW_MARK data sched) as [[[ms st] r]|s|];
    destruct (run_iter 0 data) as [[[ms' st'] r']|s'|]; cbn [iter_result] in H; try discriminate; inversion H; reflexivity.
Qed.

Lemma wf_msgb_sound m : wf_msgb m = true -> wf_msg m.
Proof.
  unfold wf_msgb, wf_msg. rewrite !andb_true_iff. intros [[[[[H1 H2] H3] H4] H5] H6].
  apply N.leb_le in H1. apply N.eqb_eq in H2. apply N.ltb_lt in H3. apply N.ltb_lt in H6. apply Bool.eqb_prop in H5.
  split; [exact H1|]. split; [exact H2|]. split; [exact H3|]. split.
  - intros Hn. rewrite Hn in H4. cbn [orb] in H4. apply N.eqb_eq in H4. exact H4.
  - split; [exact H5|].
    exists (m_reception_us m / 1000000), (m_reception_us m mod 1000000). split; [exact H6|]. split.
    + apply N.mod_lt. discriminate.
    + rewrite N.mul_comm. apply N.div_mod. discriminate.
Qed.

Lemma Forall2_len {A B} (R : A -> B -> Prop) l l' : Forall2 R l l' -> length l = length l'.
Proof. induction 1; cbn [length]; congruence. Qed.

(* a file that is the writer's output for messages satisfying the invariant (a file in normal form): reading it gives
   the re-read messages, and `convert -o` writes the file again *)
Theorem convert_o_normal_form ms :
  Forall wf_msg ms -> N.of_nat (length ms) <= u32max ->
  exists bytes st,
    write_all ms = Ok (WOk bytes) /\ run_iter 0 bytes = Ok (reparsed_list 0 ms, st, []) /\
    Forall2 same_fields ms (reparsed_list 0 ms) /\ convert_o bytes = Ok (WOk bytes).
Proof.
  intros Hwf Hn.
  destruct (export_roundtrip 0 ms Hwf ltac:(lia)) as (bytes & st & Hw & Hr & Hf & _ & _ & _ & Hw2).
  exists bytes, st. repeat split; try assumption.
  rewrite (convert_o_is_write_all bytes (reparsed_list 0 ms) st [] Hr); [exact Hw2|].
  rewrite <- (Forall2_len _ _ _ Hf). unfold reparsed_list. rewrite expect_list_indices. unfold segs_of. rewrite map_length. reflexivity.
Qed.

(* ------------------------------------------------------------------ the `-o` path *)
Lemma overwrite_nil b : overwrite [] b = b.
Proof. unfold overwrite. rewrite skipn_nil. apply app_nil_r. Qed.

(* File::create truncates: the writer starts from the empty file whatever the path held *)
Lemma open_for_write_create prior : open_for_write FILE_CREATE_TRUNCATES prior = [].
Proof. reflexivity. Qed.

(* the path holds exactly what the writer wrote *)
Theorem convert_o_path_is_convert_o prior data :
  convert_o_path prior data =
  match convert_o data with
  | Ok (WOk b) => Ok (Some b)
  | Ok (WErr p) => Ok (Some p)
  | Panic s => Panic s
  | OutOfFuel => OutOfFuel
  end.
Proof.
  unfold convert_o_path. rewrite open_for_write_create.
  destruct (convert_o data) as [[b|p]|s|]; rewrite ?overwrite_nil; reflexivity.
Qed.

Theorem convert_o_path_prior_irrelevant prior1 prior2 data : convert_o_path prior1 data = convert_o_path prior2 data.
Proof. rewrite !convert_o_path_is_convert_o. reflexivity. Qed.

Lemma convert_o_chain_length : forall datas prior, length (convert_o_chain prior datas) = length datas.
Proof. induction datas as [|d r IH]; intros prior; cbn [convert_o_chain length]; [reflexivity|]. rewrite IH. reflexivity. Qed.

(* every state of the chain: that of the respective command run on a fresh path *)
Theorem convert_o_chain_each : forall datas prior, convert_o_chain prior datas = map (convert_o_path None) datas.
Proof.
  induction datas as [|d r IH]; intros prior; cbn [convert_o_chain map]; [reflexivity|].
  rewrite IH. f_equal.
Qed.

(* ... in particular its final state is that of the last command run on a fresh path *)
Theorem convert_o_chain_last datas prior d dflt :
  last (convert_o_chain prior (datas ++ [d])) dflt = convert_o_path None d.
Proof. rewrite convert_o_chain_each, map_app. cbn [map]. apply last_last. Qed.

(* what the truncation is needed for: a writer that starts from the old content leaves the old tail behind *)
Lemma overwrite_keeps_tail c b :
  (length b < length c)%nat -> overwrite (open_for_write false (Some c)) b = b ++ skipn (length b) c /\ overwrite (open_for_write false (Some c)) b <> b.
Proof.
  intros H. split; [reflexivity|]. unfold overwrite, open_for_write. intros E.
  assert (L : length (b ++ skipn (length b) c) = length b) by (rewrite E; reflexivity).
  rewrite app_length, skipn_length in L. lia.
Qed.

(* ------------------------------------------------------------------ the plugin stage (wave 7) *)
Lemma completes_refl a m : completes a m m.
Proof.
  unfold completes. repeat split; try reflexivity.
  - destruct (m_ext m); auto.
  - right; reflexivity.
Qed.

Lemma completes_trans a m1 m2 m3 : completes a m1 m2 -> completes a m2 m3 -> completes a m1 m3.
Proof.
  unfold completes. intros (A1 & A2 & A3 & A4 & A5 & A6 & A7) (B1 & B2 & B3 & B4 & B5 & B6 & B7).
  repeat split; try congruence.
  - destruct (m_ext m1) as [e|]; [|exact I]. rewrite A6 in B6. exact B6.
  - destruct A7 as [A7|A7]; [left; exact A7|]. destruct B7 as [B7|B7]; [left; exact B7|right; congruence].
Qed.

Lemma conservative_apply a p m : Conservative a p ->
  Conservative a (fst (fst (p_apply p m))) /\ completes a m (snd (fst (p_apply p m))) /\ snd (p_apply p m) = true.
Proof.
  intros (I & H0 & Hstep). unfold p_apply. pose proof (Hstep (p_state p) m H0) as H1.
  destruct (p_step p (p_state p) m) as [[s' m'] b]. destruct H1 as (Hs & Hc & Hb). cbn [fst snd].
  split; [|split; assumption]. exists I. split; [exact Hs|exact Hstep].
Qed.

Lemma pass_conservative a : forall ps m, Forall (Conservative a) ps ->
  Forall (Conservative a) (fst (fst (plugins_pass ps m))) /\ completes a m (snd (fst (plugins_pass ps m))) /\
  snd (plugins_pass ps m) = true.
Proof.
  induction ps as [|p r IH]; intros m Hps; cbn [plugins_pass fst snd].
  - split; [constructor|]. split; [apply completes_refl|reflexivity].
  - inversion Hps as [|x l Hp Hr]; subst x l.
    destruct (conservative_apply a p m Hp) as (Hp' & Hc & Hb).
    destruct (p_apply p m) as [[p' m'] b]. cbn [fst snd] in Hp', Hc, Hb. subst b.
    destruct (IH m' Hr) as (Hr' & Hc' & Hb').
    destruct (plugins_pass r m') as [[r' m''] b']. cbn [fst snd] in *.
    split; [constructor; assumption|]. split; [exact (completes_trans a m m' m'' Hc Hc')|exact Hb'].
Qed.

(* a chain of conservative plugins hands on every message, in order, each inside the contract *)
Theorem plugins_process_conservative a : forall ms ps, Forall (Conservative a) ps ->
  Forall2 (completes a) ms (plugins_process ps ms).
Proof.
  induction ms as [|m rest IH]; intros ps Hps; cbn [plugins_process]; [constructor|].
  destruct (pass_conservative a ps m Hps) as (Hps' & Hc & Hb).
  destruct (plugins_pass ps m) as [[ps' m'] b]. cbn [fst snd] in *. subst b. cbn [app].
  constructor; [exact Hc|exact (IH ps' Hps')].
Qed.

Lemma exact_apply p m : Exact p -> Exact (fst (fst (p_apply p m))) /\ snd (fst (p_apply p m)) = m /\ snd (p_apply p m) = true.
Proof.
  intros (I & H0 & Hstep). unfold p_apply. pose proof (Hstep (p_state p) m H0) as H1.
  destruct (p_step p (p_state p) m) as [[s' m'] b]. destruct H1 as (Hs & Hc & Hb). cbn [fst snd].
  split; [|split; assumption]. exists I. split; [exact Hs|exact Hstep].
Qed.

Lemma pass_exact : forall ps m, Forall Exact ps ->
  Forall Exact (fst (fst (plugins_pass ps m))) /\ snd (fst (plugins_pass ps m)) = m /\ snd (plugins_pass ps m) = true.
Proof.
  induction ps as [|p r IH]; intros m Hps; cbn [plugins_pass fst snd].
  - split; [constructor|]. split; reflexivity.
  - inversion Hps as [|x l Hp Hr]; subst x l.
    destruct (exact_apply p m Hp) as (Hp' & Hc & Hb).
    destruct (p_apply p m) as [[p' m'] b]. cbn [fst snd] in Hp', Hc, Hb. subst b m'.
    destruct (IH m Hr) as (Hr' & Hc' & Hb').
    destruct (plugins_pass r m) as [[r' m''] b']. cbn [fst snd] in *.
    split; [constructor; assumption|]. split; assumption.
Qed.

(* a chain of plugins that forward untouched is the identity on the message list *)
Theorem plugins_process_exact : forall ms ps, Forall Exact ps -> plugins_process ps ms = ms.
Proof.
  induction ms as [|m rest IH]; intros ps Hps; cbn [plugins_process]; [reflexivity|].
  destruct (pass_exact ps m Hps) as (Hps' & Hc & Hb).
  destruct (plugins_pass ps m) as [[ps' m'] b]. cbn [fst snd] in *. subst b m'. cbn [app].
  f_equal. exact (IH ps' Hps').
Qed.

Lemma uncomplete_id a m m' : completes a m m' -> uncomplete m m' = m.
Proof.
  unfold completes, uncomplete. intros (A1 & A2 & A3 & A4 & A5 & _ & _).
  destruct m, m'; cbn in *. subst. reflexivity.
Qed.

Lemma uncomplete_all_id a : forall ms ms', Forall2 (completes a) ms ms' -> uncomplete_all ms ms' = ms.
Proof.
  induction 1 as [|m m' r r' Hc _ IH]; cbn [uncomplete_all]; [reflexivity|].
  rewrite (uncomplete_id a m m' Hc), IH. reflexivity.
Qed.

(* the export under a plugin stage of conservative plugins: to_write of the input's messages, in order, each completed
   within the contract; undoing the completions gives the export without the stage *)
Theorem convert_o_plugins_conservative a ps data ms st rest :
  Forall (Conservative a) ps ->
  run_iter 0 data = Ok (ms, st, rest) ->
  map m_index ms = map (fun k => 0 + N.of_nat k) (seq 0 (length ms)) ->
  exists ms',
    convert_o_plugins ps data = write_all ms' /\ Forall2 (completes a) ms ms' /\
    write_all (uncomplete_all ms ms') = convert_o data.
Proof.
  intros Hps Hr Hidx. exists (plugins_process ps ms).
  assert (Hlc : lifecycle_stage ms = ms) by (apply lifecycle_stage_id; rewrite Hidx; apply NoDup_consecutive).
  pose proof (plugins_process_conservative a ms ps Hps) as Hc.
  split; [unfold convert_o_plugins, convert_o_with; rewrite Hr, Hlc; reflexivity|]. split; [exact Hc|].
  rewrite (uncomplete_all_id a _ _ Hc). symmetry. exact (convert_o_is_write_all data ms st rest Hr Hidx).
Qed.

(* ... and under plugins that forward untouched it IS the export without the stage (no hypothesis on the file) *)
Theorem convert_o_plugins_exact ps data : Forall Exact ps -> convert_o_plugins ps data = convert_o data.
Proof.
  intros Hps. unfold convert_o_plugins, convert_o_with, convert_o.
  destruct (run_iter 0 data) as [[[ms st] rest]|s|]; try reflexivity.
  rewrite (plugins_process_exact _ ps Hps). reflexivity.
Qed.

(* FileTransferPlugin: forwards everything when keepFLDA is on *)
Lemma ft_forwards_keep c m : FT.c_keep_flda c = true -> ft_forwards c m = true.
Proof. intros H. unfold ft_forwards. destruct (FT.classify c (ft_view m)); try reflexivity. exact H. Qed.

Lemma ft_plugin_exact c : FT.c_keep_flda c = true -> Exact (ft_plugin c).
Proof.
  intros H. exists (fun _ => True). split; [exact I|]. intros s m _. cbn [ft_plugin p_step].
  split; [exact I|]. split; [reflexivity|exact (ft_forwards_keep c m H)].
Qed.

(* ft_forwards is the return value of the model of process_msg (C17's FT.step) whenever that returns *)
Lemma ft_forwards_is_step c s m s' b : FT.step c s (ft_view m) = Ok (s', b) -> b = ft_forwards c m.
Proof.
  unfold FT.step, ft_forwards. destruct (FT.classify c (ft_view m)).
  - destruct (FT.step_flst c s (ft_view m)); cbn; intros H; inversion H; reflexivity.
  - destruct (FT.step_flda c s (ft_view m)); cbn; intros H; inversion H; reflexivity.
  - destruct (FT.step_flfi c s (ft_view m)); cbn; intros H; inversion H; reflexivity.
  - intros H; inversion H; reflexivity.
Qed.

(* the CLI's file-transfer options: the export is the export without them *)
Theorem convert_o_ft_eq apid ctid dir glob data : convert_o_ft apid ctid dir glob data = convert_o data.
Proof.
  unfold convert_o_ft. apply convert_o_plugins_exact. constructor; [|constructor].
  apply ft_plugin_exact. reflexivity.
Qed.
