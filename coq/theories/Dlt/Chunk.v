(* DltMessageIterator (Dlt/Iter.v, generic loop [next_gen]) running over the LowMarkBufReader model
   (Reader/LowMark.v) over a scripted short-read source.  Model only; proofs: Dlt/ChunkProofs.v.

   Iter.v's generic loop takes total reader operations; the two wrappers below map a panic of the reader
   (proved impossible for every reader state reachable from [new_reader], LowMarkProofs.v) to "nothing
   happens". *)
From Coq Require Import List NArith Bool.
From AdltV Require Import Base.Res Base.MachInt Dlt.Frame Dlt.Iter Reader.LowMark.
Import ListNotations.
Open Scope N_scope.

Definition rd_fill (r : reader) : reader * bytes :=
  match fill_buf_now r with Ok r1 => (r1, window r1) | _ => (r, []) end.
Definition rd_consume (n : N) (r : reader) : reader :=
  match consume r n with Ok r1 => r1 | _ => r end.

Definition next_rd := next_gen reader rd_fill rd_consume false.
Definition drain_rd := drain_gen reader rd_fill rd_consume false.

(* DltMessageIterator::new(start, LowMarkBufReader::new(source, capacity, low_mark)) drained *)
Definition run_iter_rd (start capacity low_mark : N) (data sched : list N) : res (list msg * ist * reader) :=
  (r <- new_reader {| s_rest := data; s_sched := sched |} capacity low_mark ;;
   drain_rd (S (length data)) (S (length data)) (ist_new start) r)%res.

(* the longest frame either parser can accept (storage header 16 + u16::MAX) plus the 4 bytes of the
   next-marker test: the look-ahead that makes a parse result final *)
Definition MAX_FRAME : N := 65551.
Definition LOOKAHEAD : N := MAX_FRAME + 4.

(* what a drained iterator delivered: the messages and the final counters / latches (the reader is dropped) *)
Definition iter_result {R} (x : res (list msg * ist * R)) : res (list msg * ist) :=
  match x with Ok (ms, st, _) => Ok (ms, st) | Panic s => Panic s | OutOfFuel => OutOfFuel end.
