(* DltMessageIterator (Dlt/Iter.v, generic loop [next_gen]) running over the LowMarkBufReader model
   (Reader/LowMark.v) over a scripted short-read source.  Model only; proofs: Dlt/ChunkProofs.v.

   Iter.v's generic loop takes total reader operations; the two wrappers below map a panic of the reader
   (proved impossible for every reader state reachable from [new_reader], LowMarkProofs.v) to "nothing
   happens". *)
From Coq Require Import List NArith Bool.
From AdltV Require Import Base.Res Base.MachInt Dlt.Frame Dlt.Iter Reader.LowMark.
Import ListNotations.
Open Scope N_scope.

Definition rd_fill (r : reader) : reader * bytes :=
  match fill_buf_now r with Ok r1 => (r1, window r1) | _ => (r, []) end.
Definition rd_consume (n : N) (r : reader) : reader :=
  match consume r n with Ok r1 => r1 | _ => r end.

Definition next_rd := next_gen reader rd_fill rd_consume false.
Definition drain_rd := drain_gen reader rd_fill rd_consume false.

(* DltMessageIterator::new(start, LowMarkBufReader::new(source, capacity, low_mark)) drained *)
Definition run_iter_rd (start capacity low_mark : N) (data sched : list N) : res (list msg * ist * reader) :=
  (r <- new_reader {| s_rest := data; s_sched := sched |} capacity low_mark ;;
   drain_rd (S (length data)) (S (length data)) (ist_new start) r)%res.

(* the longest frame either parser can accept (storage header 16 + u16::MAX) plus the 4 bytes of the
   next-marker test: the look-ahead that makes a parse result final *)
Definition MAX_FRAME : N := 65551.
Definition LOOKAHEAD : N := MAX_FRAME + 4.

(* what a drained iterator delivered: the messages and the final counters / latches (the reader is dropped) *)
Definition iter_result {R} (x : res (list msg * ist * R)) : res (list msg * ist) :=
  match x with Ok (ms, st, _) => Ok (ms, st) | Panic s => Panic s | OutOfFuel => OutOfFuel end.

(* ---- position independence: the same iterator run with counters advanced by (di messages, dp bytes
   processed, dk bytes skipped) *)
Definition msg_shift (di : N) (m : msg) : msg :=
  {| m_index := m_index m + di; m_reception_us := m_reception_us m; m_ecu := m_ecu m; m_timestamp := m_timestamp m;
     m_std := m_std m; m_ext := m_ext m; m_payload := m_payload m |}.
Definition ist_shift (di dp dk : N) (st : ist) : ist :=
  {| i_index := i_index st + di; i_processed := i_processed st + dp; i_skipped := i_skipped st + dk;
     i_det_storage := i_det_storage st; i_det_serial := i_det_serial st |}.
(* the state after whole messages of framing f were yielded, counters reset: only the latch remains *)
Definition latched (f : framing) (st : ist) : ist :=
  {| i_index := 0; i_processed := 0; i_skipped := 0;
     i_det_storage := match f with Storage => true | Serial => i_det_storage st end;
     i_det_serial := match f with Storage => i_det_serial st | Serial => true end |}.
Definition encs (f : framing) (l : list amsg) : bytes := flat_map (enc f) l.
Fixpoint expect_from (f : framing) (idx : N) (l : list amsg) : list msg :=
  match l with [] => [] | a :: l' => expect f idx a :: expect_from f (idx + 1) l' end.

(* ---- fresh iterator vs one that has already latched its framing *)
(* the state with the latch of framing f set, everything else kept *)
Definition latch (f : framing) (st : ist) : ist :=
  {| i_index := i_index st; i_processed := i_processed st; i_skipped := i_skipped st;
     i_det_storage := match f with Storage => true | Serial => i_det_storage st end;
     i_det_serial := match f with Storage => i_det_serial st | Serial => true end |}.
(* the frame marker of the other framing *)
Definition other_pat (f : framing) : bytes -> bool :=
  match f with Storage => is_serial_pat | Serial => is_storage_pat end.
Definition no_other_marker (f : framing) (s : bytes) : Prop := forall i, other_pat f (skipn i s) = false.
