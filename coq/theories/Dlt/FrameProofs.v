(* Proofs about Dlt/Frame.v: integer codecs, the single-message lemmas (a parser accepts exactly the
   encoding of a well-formed message and returns its fields), the rejection lemmas for marker-free
   positions, and the equality of the checked transcription with the total one. *)
From Coq Require Import List NArith Bool Lia Arith.
From AdltV Require Import Base.Res Base.MachInt Dlt.Frame.
Import ListNotations.
Open Scope N_scope.

(* ---------------------------------------------------------------- integer codecs *)
Lemma be16_bytes_dec v : v <= 65535 -> be16 ((v / 256) mod 256) (v mod 256) = v.
Proof.
  intros H. unfold be16.
  assert (Hd : v / 256 < 256) by (apply N.div_lt_upper_bound; lia).
  rewrite (N.mod_small (v / 256) 256) by exact Hd.
  pose proof (N.div_mod v 256 ltac:(lia)). lia.
Qed.

Lemma split4 v : v < 4294967296 ->
  v = v mod 256 + 256 * ((v / 256) mod 256) + 65536 * ((v / 65536) mod 256) + 16777216 * ((v / 16777216) mod 256).
Proof.
  intros H.
  assert (E1 : v / 65536 = v / 256 / 256) by (rewrite N.div_div by lia; reflexivity).
  assert (E2 : v / 16777216 = v / 256 / 256 / 256) by (rewrite !N.div_div by lia; reflexivity).
  rewrite E1, E2.
  pose proof (N.div_mod v 256 ltac:(lia)) as D0.
  pose proof (N.div_mod (v / 256) 256 ltac:(lia)) as D1.
  pose proof (N.div_mod (v / 256 / 256) 256 ltac:(lia)) as D2.
  assert (Hd : v / 256 / 256 / 256 < 256).
  { rewrite !N.div_div by lia. apply N.div_lt_upper_bound; lia. }
  rewrite (N.mod_small (v / 256 / 256 / 256) 256) by exact Hd.
  lia.
Qed.

Lemma le32_bytes_dec v : v < 4294967296 ->
  le32 (v mod 256) ((v / 256) mod 256) ((v / 65536) mod 256) ((v / 16777216) mod 256) = v.
Proof. intros H. unfold le32. symmetry. apply split4; exact H. Qed.

Lemma be32_bytes_dec v : v < 4294967296 ->
  be32 ((v / 16777216) mod 256) ((v / 65536) mod 256) ((v / 256) mod 256) (v mod 256) = v.
Proof. intros H. unfold be32. apply le32_bytes_dec; exact H. Qed.

Lemma le32_bound b0 b1 b2 b3 : b0 < 256 -> b1 < 256 -> b2 < 256 -> b3 < 256 -> le32 b0 b1 b2 b3 < 4294967296.
Proof. unfold le32. lia. Qed.

(* encode after decode, for bytes *)
Lemma le32_enc_dec b0 b1 b2 b3 : b0 < 256 -> b1 < 256 -> b2 < 256 -> b3 < 256 ->
  le32_bytes (le32 b0 b1 b2 b3) = [b0; b1; b2; b3].
Proof.
  intros H0 H1 H2 H3. unfold le32_bytes, le32.
  assert (E0 : (b0 + 256 * b1 + 65536 * b2 + 16777216 * b3) mod 256 = b0).
  { replace (b0 + 256 * b1 + 65536 * b2 + 16777216 * b3) with (b0 + (b1 + 256 * b2 + 65536 * b3) * 256) by lia.
    rewrite N.mod_add by lia. apply N.mod_small; exact H0. }
  assert (D0 : (b0 + 256 * b1 + 65536 * b2 + 16777216 * b3) / 256 = b1 + 256 * b2 + 65536 * b3).
  { replace (b0 + 256 * b1 + 65536 * b2 + 16777216 * b3) with (b0 + (b1 + 256 * b2 + 65536 * b3) * 256) by lia.
    rewrite N.div_add by lia. rewrite (N.div_small b0 256) by exact H0. lia. }
  assert (E1 : (b1 + 256 * b2 + 65536 * b3) mod 256 = b1).
  { replace (b1 + 256 * b2 + 65536 * b3) with (b1 + (b2 + 256 * b3) * 256) by lia.
    rewrite N.mod_add by lia. apply N.mod_small; exact H1. }
  assert (D1 : (b1 + 256 * b2 + 65536 * b3) / 256 = b2 + 256 * b3).
  { replace (b1 + 256 * b2 + 65536 * b3) with (b1 + (b2 + 256 * b3) * 256) by lia.
    rewrite N.div_add by lia. rewrite (N.div_small b1 256) by exact H1. lia. }
  assert (E2 : (b2 + 256 * b3) mod 256 = b2).
  { replace (b2 + 256 * b3) with (b2 + b3 * 256) by lia. rewrite N.mod_add by lia. apply N.mod_small; exact H2. }
  assert (D2 : (b2 + 256 * b3) / 256 = b3).
  { replace (b2 + 256 * b3) with (b2 + b3 * 256) by lia. rewrite N.div_add by lia. rewrite (N.div_small b2 256) by exact H2. lia. }
  set (x := b0 + 256 * b1 + 65536 * b2 + 16777216 * b3) in *.
  assert (Q2 : x / 65536 = x / 256 / 256) by (rewrite N.div_div by lia; reflexivity).
  assert (Q3 : x / 16777216 = x / 256 / 256 / 256) by (rewrite !N.div_div by lia; reflexivity).
  rewrite Q2, Q3, E0, D0, E1, D1, E2, D2. rewrite (N.mod_small b3 256) by exact H3. reflexivity.
Qed.

(* ---------------------------------------------------------------- list helpers *)
Lemma blen_app a b : blen (a ++ b) = blen a + blen b.
Proof. unfold blen. rewrite app_length. lia. Qed.

Lemma skipn_app_exact {A} (a b : list A) n : n = length a -> skipn n (a ++ b) = b.
Proof. intros ->. rewrite skipn_app, skipn_all, Nat.sub_diag. reflexivity. Qed.

Lemma firstn_app_exact {A} (a b : list A) n : n = length a -> firstn n (a ++ b) = a.
Proof. intros ->. rewrite firstn_app, firstn_all, Nat.sub_diag. cbn. apply app_nil_r. Qed.

Lemma slice_mid (x y z : bytes) a n : a = length x -> n = length y -> slice (x ++ y ++ z) a n = y.
Proof. intros Ha Hn. unfold slice. rewrite (skipn_app_exact x _ a Ha). apply firstn_app_exact; exact Hn. Qed.

Lemma slice_length l a n : (a + n <= length l)%nat -> length (slice l a n) = n.
Proof. intros H. unfold slice. rewrite firstn_length, skipn_length. lia. Qed.

Lemma skipn_skipn {A} (l : list A) a b : skipn a (skipn b l) = skipn (b + a) l.
Proof.
  revert l. induction b as [|b IH]; intros l; cbn [skipn plus]; [reflexivity|].
  destruct l as [|x l]; [destruct a; reflexivity|]. apply IH.
Qed.

Lemma is_storage_pat_nil : is_storage_pat [] = false. Proof. reflexivity. Qed.
Lemma is_serial_pat_nil : is_serial_pat [] = false. Proof. reflexivity. Qed.

(* the scan finds nothing iff the pattern starts at none of the first k offsets *)
Lemma scan_pat_false pat (Hnil : pat [] = false) k : forall l,
  scan_pat pat k l = false <-> (forall i, (i < k)%nat -> pat (skipn i l) = false).
Proof.
  induction k as [|k IH]; intros l; cbn [scan_pat].
  - split; [intros _ i Hi; lia|reflexivity].
  - rewrite orb_false_iff. split.
    + intros [H0 Hr] i Hi. destruct i as [|i]; [exact H0|].
      destruct l as [|x t]; [cbn; exact Hnil|]. cbn [skipn]. apply (proj1 (IH t) Hr). lia.
    + intros H. split; [exact (H 0%nat ltac:(lia))|].
      destruct l as [|x t]; [reflexivity|]. apply IH. intros i Hi. exact (H (S i) ltac:(lia)).
Qed.

(* ---------------------------------------------------------------- header sizes and encodings *)
Lemma hs_bounds h : 4 <= std_ext_header_size h <= 26.
Proof.
  unfold std_ext_header_size, DLT_MIN_STD_HEADER_SIZE, DLT_EXT_HEADER_SIZE.
  destruct (has_ecu_id h), (has_session_id h), (has_timestamp h), (has_ext_hdr h); lia.
Qed.

Lemma hs_a_std a : std_ext_header_size (a_std a) = a_hs a.
Proof. reflexivity. Qed.

Lemma a_hs_bounds a : 4 <= a_hs a <= 26.
Proof. apply hs_bounds. Qed.

Lemma c4_bytes_length c : length (c4_bytes c) = 4%nat.
Proof. destruct c as [[[? ?] ?] ?]. reflexivity. Qed.

Lemma enc_opt_length a : N.of_nat (length (enc_opt a)) + 4 = a_hs a.
Proof.
  unfold enc_opt, a_hs, std_ext_header_size, DLT_MIN_STD_HEADER_SIZE, DLT_EXT_HEADER_SIZE.
  rewrite !app_length.
  destruct (has_ecu_id (a_hdr0 a)), (has_session_id (a_hdr0 a)), (has_timestamp (a_hdr0 a)), (has_ext_hdr (a_hdr0 a));
    cbn [length app be32_bytes]; rewrite ?app_length, ?c4_bytes_length; cbn [length]; lia.
Qed.

Lemma enc_std_length a : blen (enc_std a) = a_len a.
Proof.
  unfold enc_std, a_len. rewrite !blen_app. pose proof (enc_opt_length a) as H.
  unfold blen in *. cbn [length be16_bytes app]. lia.
Qed.

Lemma enc_storage_length a : blen (enc_storage a) = 16 + a_len a.
Proof.
  unfold enc_storage. rewrite !blen_app, enc_std_length. unfold blen. rewrite c4_bytes_length. cbn [length le32_bytes]. lia.
Qed.
Lemma enc_serial_length a : blen (enc_serial a) = 4 + a_len a.
Proof. unfold enc_serial. rewrite blen_app, enc_std_length. reflexivity. Qed.

Lemma enc_length f a : blen (enc f a) = (match f with Storage => 16 | Serial => 4 end) + a_len a.
Proof. destruct f; [apply enc_storage_length|apply enc_serial_length]. Qed.

(* from_headers recovers the fields from the optional header parts *)
Lemma from_headers_enc index sh a :
  a_ts a < 4294967296 ->
  from_headers index sh (a_std a) (enc_opt a) (a_payload a) = expect_with sh index a.
Proof.
  intros Hts. unfold from_headers, expect_with, enc_opt.
  change (has_ecu_id (a_std a)) with (has_ecu_id (a_hdr0 a)).
  change (has_session_id (a_std a)) with (has_session_id (a_hdr0 a)).
  change (has_timestamp (a_std a)) with (has_timestamp (a_hdr0 a)).
  change (has_ext_hdr (a_std a)) with (has_ext_hdr (a_hdr0 a)).
  destruct (a_ecu a) as [[[e0 e1] e2] e3], (a_sid a) as [[[s0 s1] s2] s3],
           (a_apid a) as [[[p0 p1] p2] p3], (a_ctid a) as [[[c0 c1] c2] c3].
  pose proof (be32_bytes_dec (a_ts a) Hts) as Hd.
  destruct (has_ecu_id (a_hdr0 a)), (has_session_id (a_hdr0 a)), (has_timestamp (a_hdr0 a)), (has_ext_hdr (a_hdr0 a));
    cbv [app c4_bytes be32_bytes length Nat.sub skipn ext_from_buf char4_at be32_at byte_at nth Nat.add];
    rewrite ?Hd; reflexivity.
Qed.

(* ---------------------------------------------------------------- single-message lemmas *)
(* the shared part accepts exactly hdr ++ enc_std a when what follows is absent/short, a marker, or no
   marker starts at offsets 5 .. end-1 *)
Lemma parse_after_marker_enc hsz pat short sh index a (hdr rest : bytes) :
  pat [] = false ->
  blen hdr = hsz -> 4 <= hsz ->
  wf_amsg a ->
  (blen rest < 4 \/ pat rest = true \/
   forall i, (5 <= i < N.to_nat (hsz + a_len a))%nat -> pat (skipn i (hdr ++ enc_std a ++ rest)) = false) ->
  parse_after_marker hsz pat short sh index (hdr ++ enc_std a ++ rest)
  = PMsg (hsz + a_len a) (expect_with sh index a).
Proof.
  intros Hnil Hh Hh4 (Hsecs & Hmic & Hts & Hlen) Hnext.
  unfold parse_after_marker.
  set (data := hdr ++ enc_std a ++ rest).
  assert (Hn : blen data = hsz + a_len a + blen rest).
  { unfold data. rewrite !blen_app, enc_std_length, Hh. lia. }
  assert (Hhl : N.to_nat hsz = length hdr) by (unfold blen in Hh; lia).
  assert (Hstd : std_from_buf (skipn (N.to_nat hsz) data) = a_std a).
  { unfold data. rewrite (skipn_app_exact hdr _ _ Hhl). unfold enc_std, std_from_buf, a_std.
    cbv [app be16_bytes byte_at nth]. rewrite be16_bytes_dec by exact Hlen. reflexivity. }
  rewrite Hstd, hs_a_std. cbn [len a_std].
  pose proof (a_hs_bounds a) as Hhs.
  assert (Hal : a_len a = a_hs a + blen (a_payload a)) by reflexivity.
  rewrite Hn.
  destruct (N.ltb_spec (a_len a) (a_hs a)) as [Hc|_]; [lia|].
  destruct (N.ltb_spec (hsz + a_len a + blen rest - hsz) (a_len a)) as [Hc|_]; [lia|].
  replace (hsz + a_len a + blen rest - hsz - a_hs a - (a_len a - a_hs a)) with (blen rest) by lia.
  replace (hsz + a_len a + blen rest - blen rest) with (hsz + a_len a) by lia.
  assert (Hskip : skipn (N.to_nat (hsz + a_len a)) data = rest).
  { unfold data. rewrite app_assoc. apply skipn_app_exact. rewrite app_length.
    pose proof (enc_std_length a) as He. unfold blen in He. lia. }
  rewrite Hskip.
  assert (Hcond : (4 <=? blen rest) && negb (pat rest) && scan_pat pat (N.to_nat (hsz + a_len a) - 5) (skipn 5 data) = false).
  { destruct Hnext as [Hr|[Hr|Hr]].
    - destruct (N.leb_spec 4 (blen rest)) as [Hc|_]; [lia|reflexivity].
    - rewrite Hr. cbn [negb]. rewrite andb_false_r. reflexivity.
    - rewrite andb_false_iff. right. apply (scan_pat_false pat Hnil). intros i Hi.
      rewrite skipn_skipn. apply Hr. lia. }
  rewrite Hcond.
  f_equal.
  assert (Hopt : slice data (N.to_nat (hsz + DLT_MIN_STD_HEADER_SIZE)) (N.to_nat (hsz + a_hs a - (hsz + DLT_MIN_STD_HEADER_SIZE))) = enc_opt a).
  { unfold data, enc_std. rewrite (app_assoc [a_htyp a; a_mcnt a] (be16_bytes (a_len a))).
    rewrite <- !app_assoc. rewrite (app_assoc hdr). rewrite (app_assoc (hdr ++ _)).
    pose proof (enc_opt_length a) as Ho. unfold DLT_MIN_STD_HEADER_SIZE.
    apply slice_mid; rewrite ?app_length; cbn [length be16_bytes app]; lia. }
  assert (Hpay : slice data (N.to_nat (hsz + a_hs a)) (N.to_nat (a_len a - a_hs a)) = a_payload a).
  { unfold data, enc_std.
    rewrite (app_assoc [a_htyp a; a_mcnt a] (be16_bytes (a_len a))).
    rewrite <- !app_assoc. rewrite (app_assoc hdr). rewrite (app_assoc (hdr ++ _)). rewrite (app_assoc ((hdr ++ _) ++ _)).
    pose proof (enc_opt_length a) as Ho. unfold blen in Hal.
    apply slice_mid; rewrite ?app_length; cbn [length be16_bytes app]; lia. }
  rewrite Hopt, Hpay. apply from_headers_enc; exact Hts.
Qed.

Definition sto_hdr_bytes (a : amsg) : bytes :=
  [68; 76; 84; 1] ++ le32_bytes (a_secs a) ++ le32_bytes (a_micros a) ++ c4_bytes (a_secu a).

Lemma enc_storage_split a rest : enc_storage a ++ rest = sto_hdr_bytes a ++ enc_std a ++ rest.
Proof. unfold enc_storage, sto_hdr_bytes. rewrite <- !app_assoc. reflexivity. Qed.

Lemma sto_hdr_bytes_length a : blen (sto_hdr_bytes a) = 16.
Proof. unfold sto_hdr_bytes, blen. rewrite !app_length, c4_bytes_length. reflexivity. Qed.

Lemma storage_from_buf_enc a x :
  a_secs a < 4294967296 -> a_micros a < 4294967296 ->
  storage_from_buf (sto_hdr_bytes a ++ x) = Some (a_storage_hdr a).
Proof.
  intros Hs Hm. unfold storage_from_buf.
  rewrite blen_app, sto_hdr_bytes_length.
  destruct (N.ltb_spec (16 + blen x) 16) as [Hc|_]; [lia|].
  unfold sto_hdr_bytes, a_storage_hdr. destruct (a_secu a) as [[[u0 u1] u2] u3].
  cbv [app le32_bytes c4_bytes is_storage_pat le32_at char4_at byte_at nth Nat.add].
  rewrite !N.eqb_refl. cbn [andb negb].
  rewrite (le32_bytes_dec _ Hs), (le32_bytes_dec _ Hm). reflexivity.
Qed.

Theorem parse_storage_enc index a rest :
  wf_amsg a ->
  (blen rest < 4 \/ is_storage_pat rest = true \/
   forall i, (5 <= i < N.to_nat (16 + a_len a))%nat -> is_storage_pat (skipn i (enc_storage a ++ rest)) = false) ->
  parse_storage index (enc_storage a ++ rest) = PMsg (16 + a_len a) (expect_storage index a).
Proof.
  intros Hwf Hnext. pose proof Hwf as (Hs & Hm & _ & _).
  unfold parse_storage. rewrite blen_app, enc_storage_length.
  pose proof (a_hs_bounds a) as Hhs. assert (Hal : a_len a = a_hs a + blen (a_payload a)) by reflexivity.
  unfold MIN_DLT_MSG_SIZE.
  destruct (N.ltb_spec (16 + a_len a + blen rest) 20) as [Hc|_]; [lia|].
  rewrite enc_storage_split, (storage_from_buf_enc a _ Hs Hm).
  unfold DLT_STORAGE_HEADER_SIZE, expect_storage.
  apply parse_after_marker_enc; try reflexivity; try exact Hwf; try lia.
  - apply sto_hdr_bytes_length.
  - rewrite <- enc_storage_split. exact Hnext.
Qed.

Lemma is_serial_pat_enc a x : is_serial_pat (enc_serial a ++ x) = true.
Proof. reflexivity. Qed.
Lemma is_storage_pat_enc a x : is_storage_pat (enc_storage a ++ x) = true.
Proof. reflexivity. Qed.
Lemma is_storage_pat_enc_serial a x : is_storage_pat (enc_serial a ++ x) = false.
Proof. reflexivity. Qed.
Lemma is_serial_pat_enc_storage a x : is_serial_pat (enc_storage a ++ x) = false.
Proof. reflexivity. Qed.

Theorem parse_serial_enc index a rest :
  wf_amsg a ->
  (blen rest < 4 \/ is_serial_pat rest = true \/
   forall i, (5 <= i < N.to_nat (4 + a_len a))%nat -> is_serial_pat (skipn i (enc_serial a ++ rest)) = false) ->
  parse_serial index (enc_serial a ++ rest) = PMsg (4 + a_len a) (expect_serial index a).
Proof.
  intros Hwf Hnext.
  unfold parse_serial. rewrite blen_app, enc_serial_length, is_serial_pat_enc.
  pose proof (a_hs_bounds a) as Hhs. assert (Hal : a_len a = a_hs a + blen (a_payload a)) by reflexivity.
  unfold DLT_SERIAL_HEADER_SIZE, DLT_MIN_STD_HEADER_SIZE.
  destruct (N.ltb_spec (4 + a_len a + blen rest) (4 + 4)) as [Hc|_]; [lia|].
  cbn [negb]. unfold expect_serial, enc_serial. rewrite <- app_assoc.
  apply parse_after_marker_enc; try reflexivity; try exact Hwf; try lia.
  rewrite app_assoc. exact Hnext.
Qed.

(* ---------------------------------------------------------------- rejection lemmas *)
Lemma parse_storage_short index d : blen d < 20 -> parse_storage index d = PNotEnough (20 - blen d).
Proof. intros H. unfold parse_storage, MIN_DLT_MSG_SIZE. destruct (N.ltb_spec (blen d) 20); [reflexivity|lia]. Qed.

Lemma parse_storage_nopat index d : 20 <= blen d -> is_storage_pat d = false -> parse_storage index d = PInvalid.
Proof.
  intros H Hp. unfold parse_storage, MIN_DLT_MSG_SIZE, storage_from_buf.
  destruct (N.ltb_spec (blen d) 20); [lia|].
  destruct (N.ltb_spec (blen d) 16); [lia|]. rewrite Hp. reflexivity.
Qed.

Lemma parse_serial_short index d : blen d < 8 -> exists k, parse_serial index d = PNotEnough k.
Proof.
  intros H. unfold parse_serial, DLT_SERIAL_HEADER_SIZE, DLT_MIN_STD_HEADER_SIZE.
  destruct (N.ltb_spec (blen d) (4 + 4)); [eexists; reflexivity|lia].
Qed.

Lemma parse_serial_nopat index d : 8 <= blen d -> is_serial_pat d = false -> parse_serial index d = PInvalid.
Proof.
  intros H Hp. unfold parse_serial, DLT_SERIAL_HEADER_SIZE, DLT_MIN_STD_HEADER_SIZE.
  destruct (N.ltb_spec (blen d) (4 + 4)); [lia|]. rewrite Hp. reflexivity.
Qed.

(* a storage parse result is never a message when the data does not start with the marker *)
Lemma parse_storage_not_msg index d : is_storage_pat d = false -> forall n m, parse_storage index d <> PMsg n m.
Proof.
  intros Hp n m. unfold parse_storage, storage_from_buf.
  destruct (blen d <? MIN_DLT_MSG_SIZE); [discriminate|].
  destruct (blen d <? 16); [discriminate|]. rewrite Hp. discriminate.
Qed.

(* ---------------------------------------------------------------- the checked transcription never panics *)
Ltac decide_chk :=
  repeat match goal with
         | |- context [if ?a <=? ?b then _ else _] =>
             let H := fresh "Hc" in destruct (N.leb_spec a b) as [H|H]; try (exfalso; unfold blen in *; lia)
         end.

Lemma scan_pat_chk_ok pat data : forall k i,
  N.of_nat k + i <= blen data ->
  scan_pat_chk pat data i k = Ok (scan_pat pat k (skipn (N.to_nat i) data)).
Proof.
  induction k as [|k IH]; intros i Hb; cbn [scan_pat_chk scan_pat]; [reflexivity|].
  unfold slice_from_chk. destruct (N.leb_spec i (blen data)) as [_|Hc]; [|lia]. cbn [bind].
  destruct (pat (skipn (N.to_nat i) data)) eqn:Ep; [reflexivity|]. cbn [orb].
  rewrite IH by lia.
  destruct (skipn (N.to_nat i) data) as [|x t] eqn:El.
  - exfalso. assert (Hl : length (skipn (N.to_nat i) data) = 0%nat) by (rewrite El; reflexivity).
    rewrite skipn_length in Hl. unfold blen in Hb. lia.
  - f_equal. f_equal. replace (N.to_nat (i + 1)) with (N.to_nat i + 1)%nat by lia.
    rewrite <- skipn_skipn, El. reflexivity.
Qed.

Lemma from_headers_chk_ok index sh h add payload :
  blen add + 4 = std_ext_header_size h ->
  from_headers_chk index sh h add payload = Ok (from_headers index sh h add payload).
Proof.
  intros Hl. unfold from_headers_chk, slice_chk, slice_from_chk, sub_chk.
  unfold std_ext_header_size, DLT_MIN_STD_HEADER_SIZE, DLT_EXT_HEADER_SIZE in *.
  destruct (has_ecu_id h), (has_session_id h), (has_timestamp h), (has_ext_hdr h); cbn [andb bind];
    repeat match goal with
           | |- context [?a <=? ?b] =>
               let H := fresh "Hc" in destruct (N.leb_spec a b) as [H|H]; [|exfalso; lia]; cbn [andb bind]
           | |- context [?a <? ?b] =>
               let H := fresh "Hc" in destruct (N.ltb_spec a b) as [H|H]; [|exfalso; lia]; cbn [andb bind]
           end; reflexivity.
Qed.

Lemma parse_after_marker_chk_ok hsz pat short sh index data :
  1 <= hsz -> hsz + 4 <= blen data ->
  parse_after_marker_chk hsz pat short sh index data = Ok (parse_after_marker hsz pat short sh index data).
Proof.
  intros Hh1 Hn. unfold parse_after_marker_chk, parse_after_marker.
  unfold sub_chk at 1. destruct (N.leb_spec hsz (blen data)) as [_|Hc]; [|lia]. cbn [bind].
  unfold slice_from_chk at 1. destruct (N.leb_spec hsz (blen data)) as [_|Hc]; [|lia]. cbn [bind].
  unfold std_from_buf_chk.
  assert (Hd1 : blen (skipn (N.to_nat hsz) data) = blen data - hsz) by (unfold blen; rewrite skipn_length; lia).
  rewrite Hd1. destruct (N.ltb_spec (blen data - hsz) 4) as [Hc|_]; [lia|]. cbn [bind].
  remember (std_from_buf (skipn (N.to_nat hsz) data)) as stdh eqn:E. clear E Hd1.
  pose proof (hs_bounds stdh) as Hhs. set (hs := std_ext_header_size stdh) in *.
  destruct (N.ltb_spec (len stdh) hs) as [|H1]; [reflexivity|].
  destruct (N.ltb_spec (blen data - hsz) (len stdh)) as [H2|H2].
  - destruct short; [reflexivity|]. unfold sub_chk. destruct (N.leb_spec (blen data - hsz) (len stdh)); [reflexivity|lia].
  - unfold sub_chk at 1. destruct (N.leb_spec hs (blen data - hsz)) as [_|Hc]; [|lia]. cbn [bind].
    unfold sub_chk at 1. destruct (N.leb_spec hs (len stdh)) as [_|Hc]; [|lia]. cbn [bind].
    unfold sub_chk at 1. destruct (N.leb_spec (len stdh - hs) (blen data - hsz - hs)) as [_|Hc]; [|lia]. cbn [bind].
    unfold sub_chk at 1. destruct (N.leb_spec (blen data - hsz - hs - (len stdh - hs)) (blen data)) as [_|Hc]; [|lia]. cbn [bind].
    set (rem2 := blen data - hsz - hs - (len stdh - hs)).
    set (tc := blen data - rem2).
    assert (Htc : tc = hsz + len stdh) by (unfold tc, rem2; lia).
    assert (Hnxt : (if 4 <=? rem2 then (d <- slice_from_chk data tc ;; Ok (negb (pat d)))%res else Ok false)
                   = Ok ((4 <=? rem2) && negb (pat (skipn (N.to_nat tc) data)))).
    { destruct (4 <=? rem2); [|reflexivity]. unfold slice_from_chk.
      destruct (N.leb_spec tc (blen data)) as [_|Hc]; [reflexivity|lia]. }
    rewrite Hnxt. cbn [bind].
    assert (Hfound : (if (4 <=? rem2) && negb (pat (skipn (N.to_nat tc) data))
                      then scan_pat_chk pat data 5 (N.to_nat tc - 5) else Ok false)
                     = Ok ((4 <=? rem2) && negb (pat (skipn (N.to_nat tc) data))
                           && scan_pat pat (N.to_nat tc - 5) (skipn 5 data))).
    { destruct ((4 <=? rem2) && negb (pat (skipn (N.to_nat tc) data))); [|reflexivity].
      rewrite scan_pat_chk_ok by lia. reflexivity. }
    rewrite Hfound. cbn [bind].
    destruct ((4 <=? rem2) && negb (pat (skipn (N.to_nat tc) data)) && scan_pat pat (N.to_nat tc - 5) (skipn 5 data));
      [reflexivity|].
    unfold slice_chk.
    destruct (N.leb_spec (hsz + hs) (hsz + hs + (len stdh - hs))) as [_|Hc]; [|lia].
    destruct (N.leb_spec (hsz + hs + (len stdh - hs)) (blen data)) as [_|Hc]; [|lia].
    cbn [andb bind].
    destruct (N.leb_spec (hsz + DLT_MIN_STD_HEADER_SIZE) (hsz + hs)) as [_|Hc]; [|unfold DLT_MIN_STD_HEADER_SIZE in *; lia].
    destruct (N.leb_spec (hsz + hs) (blen data)) as [_|Hc]; [|lia].
    cbn [andb bind].
    replace (hsz + hs + (len stdh - hs) - (hsz + hs)) with (len stdh - hs) by lia.
    rewrite from_headers_chk_ok; [reflexivity|].
    unfold blen at 1. rewrite slice_length; [unfold DLT_MIN_STD_HEADER_SIZE; fold hs; lia|].
    unfold blen, DLT_MIN_STD_HEADER_SIZE in *. lia.
Qed.

Theorem parse_storage_chk_ok index data : parse_storage_chk index data = Ok (parse_storage index data).
Proof.
  unfold parse_storage_chk, parse_storage, MIN_DLT_MSG_SIZE.
  destruct (N.ltb_spec (blen data) 20) as [H|H].
  - unfold sub_chk. destruct (N.leb_spec (blen data) 20); [reflexivity|lia].
  - destruct (storage_from_buf data); [|reflexivity].
    apply parse_after_marker_chk_ok; unfold DLT_STORAGE_HEADER_SIZE; lia.
Qed.

Theorem parse_serial_chk_ok index data : parse_serial_chk index data = Ok (parse_serial index data).
Proof.
  unfold parse_serial_chk, parse_serial, MIN_DLT_MSG_SIZE, DLT_SERIAL_HEADER_SIZE, DLT_MIN_STD_HEADER_SIZE.
  destruct (N.ltb_spec (blen data) (4 + 4)) as [H|H].
  - unfold sub_chk. destruct (N.leb_spec (blen data) 20); [reflexivity|lia].
  - destruct (negb (is_serial_pat data)); [reflexivity|].
    apply parse_after_marker_chk_ok; lia.
Qed.
