(* Model of the DLT writer of /repo/src/dlt/mod.rs: DltStorageHeader::{from_msg, to_write},
   DltStandardHeader::to_write (recomputes htyp and len; checked u16 additions of a debug build for the header
   part; io::Error(InvalidInput) before anything of the standard header is written when header + payload do
   not fit the 16 bit len field), DltExtendedHeader::to_write, DltMessage::to_write; and of what the
   `-o` path of `adlt convert` does with them (one to_write per selected message, in order).
   Model only, no proofs (proofs: Dlt/WriteProofs.v). *)
From Coq Require Import List NArith Bool.
From AdltV Require Import Base.Res Base.MachInt Dlt.Frame.
Import ListNotations.
Open Scope N_scope.

(* DltStorageHeader::from_msg: `(rt / US_PER_SEC) as u32`, `(rt % US_PER_SEC) as u32` *)
Definition storage_from_msg (m : msg) : storage_hdr :=
  {| sh_secs := trunc 32 (m_reception_us m / US_PER_SEC);
     sh_micros := trunc 32 (m_reception_us m mod US_PER_SEC);
     sh_ecu := m_ecu m |}.

(* DltStorageHeader::to_write *)
Definition storage_to_write (sh : storage_hdr) : bytes :=
  [68; 76; 84; 1] ++ le32_bytes (sh_secs sh) ++ le32_bytes (sh_micros sh) ++ c4_bytes (sh_ecu sh).

(* DltExtendedHeader::to_write *)
Definition ext_to_write (e : ext_hdr) : bytes :=
  [verb_mstp_mtin e; noar e] ++ c4_bytes (apid e) ++ c4_bytes (ctid e).

Definition b2n (b : bool) : N := if b then 1 else 0.
Definition is_some {A} (o : option A) : bool := match o with Some _ => true | None => false end.

(* the htyp byte to_write composes: version 1, the byte order of the original header, and one bit per part that
   is written (distinct bits, so `|=` is addition) *)
Definition written_htyp (big_endian has_ecu has_sid has_ts has_ext : bool) : N :=
  32 + 2 * b2n big_endian + 4 * b2n has_ecu + 8 * b2n has_sid + 16 * b2n has_ts + b2n has_ext.

(* outcome of writing into a writer that itself never fails (Vec<u8>, a healthy file):
   Ok(()) with the bytes appended, or Err(io::Error) with what had been appended before the error *)
Inductive wres : Type :=
| WOk (b : bytes)
| WErr (partial : bytes).

(* DltStandardHeader::to_write(writer, std_hdr, ext_hdr, ecu, session_id, timestamp, payload) *)
Definition std_to_write (h : std_hdr) (ext : option ext_hdr) (ecu : option char4) (session_id timestamp : option N)
    (payload : bytes) : res wres :=
  (let htyp' := written_htyp (is_big_endian h) (is_some ecu) (is_some session_id) (is_some timestamp) (is_some ext) in
   l0 <- Ok DLT_MIN_STD_HEADER_SIZE ;;
   l1 <- (if is_some ecu then add_chk u16max l0 4 else Ok l0) ;;
   l2 <- (if is_some session_id then add_chk u16max l1 4 else Ok l1) ;;
   l3 <- (if is_some timestamp then add_chk u16max l2 4 else Ok l2) ;;
   l4 <- (if is_some ext then add_chk u16max l3 DLT_EXT_HEADER_SIZE else Ok l3) ;;
   (* u16::try_from(len as usize + payload.len()): Err(InvalidInput) when it does not fit; nothing written yet *)
   let l5 := l4 + blen payload in
   if u16max <? l5 then Ok (WErr [])
   else
   Ok (WOk ([htyp'; mcnt h] ++ be16_bytes l5
       ++ (match ecu with Some e => c4_bytes e | None => [] end)
       ++ (match session_id with Some s => be32_bytes s | None => [] end)
       ++ (match timestamp with Some t => be32_bytes t | None => [] end)
       ++ (match ext with Some e => ext_to_write e | None => [] end)
       ++ payload)))%res.

(* DltMessage::to_write: the storage header is written first (`storage_header.to_write(writer)?`), so it stays in the
   writer when the standard header part fails *)
Definition msg_to_write (m : msg) : res wres :=
  (r <- std_to_write (m_std m) (m_ext m) None None
         (if has_timestamp (m_std m) then Some (m_timestamp m) else None) (m_payload m) ;;
   let sto := storage_to_write (storage_from_msg m) in
   match r with
   | WOk b => Ok (WOk (sto ++ b))
   | WErr p => Ok (WErr (sto ++ p))
   end)%res.

(* the output thread of `adlt convert -o`: for msg in selected { msg.to_write(file)? } -- stops at the first error *)
Fixpoint write_all (ms : list msg) : res wres :=
  match ms with
  | [] => Ok (WOk [])
  | m :: r =>
      (w <- msg_to_write m ;;
       match w with
       | WErr p => Ok (WErr p)
       | WOk b =>
           ws <- write_all r ;;
           match ws with WOk bs => Ok (WOk (b ++ bs)) | WErr p => Ok (WErr (b ++ p)) end
       end)%res
  end.
