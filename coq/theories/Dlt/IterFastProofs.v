(* run_fast (Dlt/IterFast.v) = run_iter (Dlt/Iter.v) on every input: a jump of [next_fast] is a run of skip turns of
   [next] (IterProofs.skip_run), everything else is one turn of [next]; results of [next] / [drain_fuel] other than
   OutOfFuel do not depend on the fuel. *)
From Coq Require Import List NArith Bool Lia Arith.
From AdltV Require Import Base.Res Base.MachInt Dlt.Frame Dlt.FrameProofs Dlt.Iter Dlt.IterProofs Dlt.IterTotal Dlt.IterFast.
Import ListNotations.
Open Scope N_scope.

Lemma next_turn fuel st data : next (S fuel) st data = turn (next fuel) st data.
Proof. unfold next. rewrite next_S. reflexivity. Qed.

Lemma next_O st data : next O st data = OutOfFuel.
Proof. reflexivity. Qed.

(* a turn either does not look at its continuation or is a tail call of it *)
Lemma turn_cases k st data :
  (forall k', turn k' st data = turn k st data) \/
  (exists st' d', forall k', turn k' st data = k' st' d').
Proof.
  unfold turn.
  destruct (if i_det_serial st then Ok APass else storage_half false st data) as [[n m st'|st'| |]|s|]; cbn [bind].
  - left. intros k'. reflexivity.
  - right. exists st', (skipn 1 data). intros k'. reflexivity.
  - destruct (i_det_storage st).
    + right. exists st, data. intros k'. reflexivity.
    + destruct (serial_half st data) as [[n m st'|st'| |]|s|]; cbn [bind].
      * left. intros k'. reflexivity.
      * right. exists st', (skipn 1 data). intros k'. reflexivity.
      * right. exists st, data. intros k'. reflexivity.
      * left. intros k'. reflexivity.
      * left. intros k'. reflexivity.
      * left. intros k'. reflexivity.
  - left. intros k'. reflexivity.
  - left. intros k'. reflexivity.
  - left. intros k'. reflexivity.
Qed.

(* a result other than OutOfFuel does not depend on the fuel *)
Lemma next_mono : forall F st data r,
  next F st data = r -> r <> OutOfFuel -> forall F', (F <= F')%nat -> next F' st data = r.
Proof.
  induction F as [|F IH]; intros st data r H Hr F' Hle.
  - rewrite next_O in H. subst r. contradiction Hr. reflexivity.
  - destruct F' as [|F']; [lia|]. rewrite next_turn in *.
    destruct (turn_cases (next F) st data) as [Hind|[st' [d' Htail]]].
    + rewrite (Hind (next F')). exact H.
    + rewrite Htail in H. rewrite Htail. apply (IH st' d' r H Hr). lia.
Qed.

Lemma free_run_spec : forall l i, (i < free_run l)%nat -> any_mark (skipn i l) = false.
Proof.
  induction l as [|x t IH]; intros i Hi; cbn [free_run] in Hi; [lia|].
  destruct (any_mark (x :: t)) eqn:E; [lia|].
  destruct i as [|i]; [exact E|]. cbn [skipn]. apply IH. lia.
Qed.

Lemma skip_many_by k st : skip_many k st = skip_by k st.
Proof. reflexivity. Qed.

Lemma jump_run j st data F :
  jump st data = S j ->
  next (S j + F) st data = next F (skip_many (N.of_nat (S j)) st) (skipn (S j) data).
Proof.
  unfold jump. intros Hj.
  destruct (i_det_storage st && i_det_serial st) eqn:Hb; [discriminate|].
  set (keep := if i_det_storage st then 20%nat else 8%nat) in *.
  assert (H1 : (S j <= free_run data)%nat) by lia.
  assert (H2 : (S j + keep <= length data)%nat) by lia.
  set (g := firstn (S j) data). set (R := skipn (S j) data).
  assert (Hg : length g = S j) by (unfold g; rewrite firstn_length; lia).
  assert (Hd : g ++ R = data) by apply firstn_skipn.
  assert (HR : (keep <= length R)%nat) by (unfold R; rewrite skipn_length; lia).
  set (f := if i_det_storage st then Storage else Serial).
  transitivity (next (length g + F) st (g ++ R)); [rewrite Hd, Hg; reflexivity|].
  rewrite (skip_run f g F st R).
  - unfold skip_many, skip_by, blen. rewrite Hg. reflexivity.
  - unfold f. destruct (i_det_storage st) eqn:E; cbn [st_ok].
    + rewrite andb_true_l in Hb. exact Hb.
    + exact E.
  - intros i Hi. pose proof (free_run_spec data i ltac:(lia)) as Hm.
    unfold any_mark in Hm. apply orb_false_iff in Hm. rewrite Hd. exact Hm.
  - unfold f, keep in *. unfold blen.
    destruct (i_det_storage st) eqn:E; cbn [own_detected stop_size min_size].
    + rewrite E in *. cbn [stop_size min_size]. lia.
    + destruct (i_det_serial st); cbn [stop_size min_size]; lia.
Qed.

Lemma fast_to_plain : forall fuel st data r,
  next_fast fuel st data = r -> r <> OutOfFuel -> exists F, next F st data = r.
Proof.
  induction fuel as [|f IH]; intros st data r H Hr.
  - cbn in H. subst r. contradiction Hr. reflexivity.
  - cbn [next_fast] in H. destruct (jump st data) as [|j] eqn:Hj.
    + destruct (turn_cases (next_fast f) st data) as [Hind|[st' [d' Htail]]].
      * exists 1%nat. rewrite next_turn. rewrite (Hind (next O)). exact H.
      * rewrite Htail in H. destruct (IH st' d' r H Hr) as [F HF].
        exists (S F). rewrite next_turn, Htail. exact HF.
    + destruct (IH _ _ r H Hr) as [F HF].
      exists (S j + F)%nat. rewrite (jump_run j st data F Hj). exact HF.
Qed.

Lemma drain_S f nf st data :
  drain_fuel (S f) nf st data =
  ('(o, st', r') <- next nf st data ;;
   match o with
   | None => Ok ([], st', r')
   | Some m => '(ms, st'', r'') <- drain_fuel f nf st' r' ;; Ok (m :: ms, st'', r'')
   end)%res.
Proof. reflexivity. Qed.

Lemma drain_O nf st data : drain_fuel O nf st data = OutOfFuel.
Proof. reflexivity. Qed.

Lemma drain_mono_n : forall fuel nf st data r,
  drain_fuel fuel nf st data = r -> r <> OutOfFuel -> forall nf', (nf <= nf')%nat -> drain_fuel fuel nf' st data = r.
Proof.
  induction fuel as [|f IH]; intros nf st data r H Hr nf' Hle.
  - rewrite drain_O in *. exact H.
  - rewrite drain_S in *.
    destruct (next nf st data) as [[[o st1] d1]|s|] eqn:Hn; cbn [bind] in H.
    + rewrite (next_mono nf st data _ Hn ltac:(discriminate) nf' Hle). cbn [bind].
      destruct o as [m|]; [|exact H].
      destruct (drain_fuel f nf st1 d1) as [[[ms st2] d2]|s|] eqn:Hd; cbn [bind] in H.
      * rewrite (IH nf st1 d1 _ Hd ltac:(discriminate) nf' Hle). exact H.
      * rewrite (IH nf st1 d1 _ Hd ltac:(discriminate) nf' Hle). exact H.
      * subst r. contradiction Hr. reflexivity.
    + rewrite (next_mono nf st data _ Hn ltac:(discriminate) nf' Hle). exact H.
    + subst r. contradiction Hr. reflexivity.
Qed.

Lemma drain_mono_f : forall fuel nf st data r,
  drain_fuel fuel nf st data = r -> r <> OutOfFuel -> forall fuel', (fuel <= fuel')%nat -> drain_fuel fuel' nf st data = r.
Proof.
  induction fuel as [|f IH]; intros nf st data r H Hr fuel' Hle.
  - rewrite drain_O in H. subst r. contradiction Hr. reflexivity.
  - destruct fuel' as [|f']; [lia|]. rewrite drain_S in *.
    destruct (next nf st data) as [[[o st1] d1]|s|]; cbn [bind] in *; [|exact H|exact H].
    destruct o as [m|]; [|exact H].
    destruct (drain_fuel f nf st1 d1) as [[[ms st2] d2]|s|] eqn:Hd; cbn [bind] in H.
    + rewrite (IH nf st1 d1 _ Hd ltac:(discriminate) f' ltac:(lia)). exact H.
    + rewrite (IH nf st1 d1 _ Hd ltac:(discriminate) f' ltac:(lia)). exact H.
    + subst r. contradiction Hr. reflexivity.
Qed.

Lemma drain_fast_to_plain : forall fuel nf st data r,
  drain_fast fuel nf st data = r -> r <> OutOfFuel -> exists F NF, drain_fuel F NF st data = r.
Proof.
  induction fuel as [|f IH]; intros nf st data r H Hr.
  - cbn in H. subst r. contradiction Hr. reflexivity.
  - cbn [drain_fast] in H.
    destruct (next_fast nf st data) as [[[o st1] d1]|s|] eqn:Hn; cbn [bind] in H.
    + destruct (fast_to_plain nf st data _ Hn ltac:(discriminate)) as [F1 HF1].
      destruct o as [m|].
      * destruct (drain_fast f nf st1 d1) as [[[ms st2] d2]|s|] eqn:Hd; cbn [bind] in H.
        -- destruct (IH nf st1 d1 _ Hd ltac:(discriminate)) as [F2 [NF2 HF2]].
           exists (S F2), (Nat.max F1 NF2). rewrite drain_S.
           rewrite (next_mono F1 st data _ HF1 ltac:(discriminate) (Nat.max F1 NF2) ltac:(lia)). cbn [bind].
           rewrite (drain_mono_n F2 NF2 st1 d1 _ HF2 ltac:(discriminate) (Nat.max F1 NF2) ltac:(lia)). exact H.
        -- destruct (IH nf st1 d1 _ Hd ltac:(discriminate)) as [F2 [NF2 HF2]].
           exists (S F2), (Nat.max F1 NF2). rewrite drain_S.
           rewrite (next_mono F1 st data _ HF1 ltac:(discriminate) (Nat.max F1 NF2) ltac:(lia)). cbn [bind].
           rewrite (drain_mono_n F2 NF2 st1 d1 _ HF2 ltac:(discriminate) (Nat.max F1 NF2) ltac:(lia)). exact H.
        -- subst r. contradiction Hr. reflexivity.
      * exists 1%nat, F1. rewrite drain_S, HF1. exact H.
    + destruct (fast_to_plain nf st data _ Hn ltac:(discriminate)) as [F1 HF1].
      exists 1%nat, F1. rewrite drain_S, HF1. exact H.
    + subst r. contradiction Hr. reflexivity.
Qed.

(* the accelerated run is the run of the model, on every input *)
Theorem run_fast_eq start data : run_fast start data = run_iter start data.
Proof.
  unfold run_fast.
  set (n := S (length data)).
  assert (Hplain : run_iter start data = drain_fuel n n (ist_new start) data) by reflexivity.
  pose proof (run_iter_terminates start data) as Hterm. rewrite Hplain in Hterm.
  assert (Hgen : forall r, drain_fast n n (ist_new start) data = r -> r <> OutOfFuel -> r = run_iter start data).
  { intros r Hd Hr. destruct (drain_fast_to_plain n n (ist_new start) data r Hd Hr) as [F [NF HF]].
    set (M := Nat.max (Nat.max F NF) n).
    pose proof (drain_mono_f F NF _ _ _ HF Hr M ltac:(lia)) as H1.
    pose proof (drain_mono_n M NF _ _ _ H1 Hr M ltac:(lia)) as H2.
    pose proof (drain_mono_f n n _ _ _ eq_refl Hterm M ltac:(lia)) as H3.
    pose proof (drain_mono_n M n _ _ _ H3 Hterm M ltac:(lia)) as H4.
    rewrite Hplain, <- H2, <- H4. reflexivity. }
  destruct (drain_fast n n (ist_new start) data) as [a|s|] eqn:Hd.
  - apply Hgen; [reflexivity|discriminate].
  - apply Hgen; [reflexivity|discriminate].
  - reflexivity.
Qed.
