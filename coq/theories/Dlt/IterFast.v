(* An accelerated, executable form of the Cursor iterator of Dlt/Iter.v, for the correspondence shards only:
   [next] re-measures the remaining input at every position (the parsers start with `data.len()`), so a run over a
   garbage run of G bytes in front of W remaining bytes costs G * W list steps in the model -- garbage of 8 KiB is
   seconds, of 64 KiB minutes.  [next_fast] looks for the next position at which a frame marker starts and jumps
   there in one step (keeping the bytes the loop needs in view to decide to stop); where it cannot jump it performs
   exactly one loop turn of [next].  Dlt/IterFastProofs.v proves [run_fast = run_iter] for EVERY input
   (Properties/C01.v, C01_fast_iter_equal), so Exec/C01.v may evaluate either.  Model only, no proofs. *)
From Coq Require Import List NArith Bool.
From AdltV Require Import Base.Res Base.MachInt Dlt.Frame Dlt.Iter.
Import ListNotations.
Open Scope N_scope.

Definition any_mark (l : bytes) : bool := is_storage_pat l || is_serial_pat l.

(* number of leading positions of l at which no frame marker starts *)
Fixpoint free_run (l : bytes) : nat :=
  match l with
  | [] => O
  | _ :: t => if any_mark l then O else S (free_run t)
  end.

(* k bytes skipped one by one: `bytes_processed += 1; bytes_skipped += 1` k times *)
Definition skip_many (k : N) (st : ist) : ist :=
  {| i_index := i_index st; i_processed := i_processed st + k; i_skipped := i_skipped st + k;
     i_det_storage := i_det_storage st; i_det_serial := i_det_serial st |}.

(* how many bytes the loop skips for certain: marker-free positions, as long as at least [keep] bytes stay in view
   (with fewer the loop stops: 20 once the storage framing is latched, else 8) *)
Definition jump (st : ist) (data : bytes) : nat :=
  if i_det_storage st && i_det_serial st then O
  else Nat.min (free_run data) (length data - (if i_det_storage st then 20 else 8)).

(* one loop turn of DltMessageIterator::next over a Cursor, the continuation [k] standing for "loop again"
   (Dlt/IterProofs.v next_S: next (S fuel) = turn (next fuel)) *)
Definition turn (k : ist -> bytes -> res (option msg * ist * bytes)) (st : ist) (data : bytes)
    : res (option msg * ist * bytes) :=
  (a1 <- (if i_det_serial st then Ok APass else storage_half false st data) ;;
   match a1 with
   | AYield n m st' => Ok (Some m, st', skipn (N.to_nat n) data)
   | AStop => Ok (None, st, data)
   | ASkip st' => k st' (skipn 1 data)
   | APass =>
       if i_det_storage st then k st data
       else
         a2 <- serial_half st data ;;
         match a2 with
         | AYield n m st' => Ok (Some m, st', skipn (N.to_nat n) data)
         | AStop => Ok (None, st, data)
         | ASkip st' => k st' (skipn 1 data)
         | APass => k st data
         end
   end)%res.

Fixpoint next_fast (fuel : nat) (st : ist) (data : bytes) : res (option msg * ist * bytes) :=
  match fuel with
  | O => OutOfFuel
  | S f =>
      match jump st data with
      | O => turn (next_fast f) st data
      | S j => next_fast f (skip_many (N.of_nat (S j)) st) (skipn (S j) data)
      end
  end.

Fixpoint drain_fast (fuel nfuel : nat) (st : ist) (data : bytes) : res (list msg * ist * bytes) :=
  match fuel with
  | O => OutOfFuel
  | S f =>
      ('(o, st', r') <- next_fast nfuel st data ;;
       match o with
       | None => Ok ([], st', r')
       | Some m => '(ms, st'', r'') <- drain_fast f nfuel st' r' ;; Ok (m :: ms, st'', r'')
       end)%res
  end.

(* DltMessageIterator::new(start, Cursor::new(data)) drained -- the accelerated evaluation; should it ever run out
   of fuel (it does not: every step consumes input) the plain model answers *)
Definition run_fast (start : N) (data : bytes) : res (list msg * ist * bytes) :=
  match drain_fast (S (length data)) (S (length data)) (ist_new start) data with
  | OutOfFuel => run_iter start data
  | r => r
  end.
