(* Proofs about Dlt/Iter.v that hold for EVERY input (no hypothesis on the bytes): the Cursor iterator
   terminates within fuel |data|+1, panics only on index overflow, and its counters account for the input:
   processed + unconsumed = |input|, skipped <= processed, index = start + number of messages. *)
From Coq Require Import List NArith Bool Lia Arith.
From AdltV Require Import Base.Res Base.MachInt Dlt.Frame Dlt.FrameProofs Dlt.Iter Dlt.IterProofs.
Import ListNotations.
Open Scope N_scope.

(* ---------------------------------------------------------------- what a parser result tells about the data *)
Lemma parse_after_marker_consumed hsz pat short sh idx d n m :
  hsz <= blen d -> parse_after_marker hsz pat short sh idx d = PMsg n m -> hsz + 4 <= n /\ n <= blen d.
Proof.
  intros Hh. unfold parse_after_marker.
  remember (std_from_buf (skipn (N.to_nat hsz) d)) as stdh eqn:E. clear E.
  pose proof (hs_bounds stdh) as Hhs.
  destruct (N.ltb_spec (len stdh) (std_ext_header_size stdh)) as [|H1]; [discriminate|].
  destruct (N.ltb_spec (blen d - hsz) (len stdh)) as [|H2]; [destruct short; discriminate|].
  match goal with |- (if ?c then _ else _) = _ -> _ => destruct c end; [discriminate|].
  intros E. inversion E; subst. lia.
Qed.

Lemma parse_storage_msg idx d n m : parse_storage idx d = PMsg n m -> 20 <= n /\ n <= blen d.
Proof.
  unfold parse_storage, MIN_DLT_MSG_SIZE. destruct (N.ltb_spec (blen d) 20) as [|H]; [discriminate|].
  destruct (storage_from_buf d); [|discriminate]. intros E.
  apply parse_after_marker_consumed in E; unfold DLT_STORAGE_HEADER_SIZE in *; lia.
Qed.
Lemma parse_storage_invalid idx d : parse_storage idx d = PInvalid -> 20 <= blen d.
Proof.
  unfold parse_storage, MIN_DLT_MSG_SIZE. destruct (N.ltb_spec (blen d) 20) as [|H]; [discriminate|]. intros _. exact H.
Qed.
Lemma parse_serial_msg idx d n m : parse_serial idx d = PMsg n m -> 8 <= n /\ n <= blen d.
Proof.
  unfold parse_serial, DLT_SERIAL_HEADER_SIZE, DLT_MIN_STD_HEADER_SIZE.
  destruct (N.ltb_spec (blen d) (4 + 4)) as [|H]; [discriminate|].
  destruct (negb (is_serial_pat d)); [discriminate|]. intros E.
  apply parse_after_marker_consumed in E; lia.
Qed.
Lemma parse_serial_invalid idx d : parse_serial idx d = PInvalid -> 8 <= blen d.
Proof.
  unfold parse_serial, DLT_SERIAL_HEADER_SIZE, DLT_MIN_STD_HEADER_SIZE.
  destruct (N.ltb_spec (blen d) (4 + 4)) as [|H]; [discriminate|]. intros _. lia.
Qed.

(* ---------------------------------------------------------------- the two halves of a loop turn *)
Definition yields (storage : bool) (st : ist) (n : N) (st' : ist) : Prop :=
  i_index st' = i_index st + 1 /\ i_processed st' = i_processed st + n /\ i_skipped st' = i_skipped st /\
  i_det_storage st' = (if storage then true else i_det_storage st) /\
  i_det_serial st' = (if storage then i_det_serial st else true).

Lemma on_msg_cases storage st n m :
  match on_msg storage st n m with
  | Ok (AYield n' m' st') => n' = n /\ m' = m /\ yields storage st n st'
  | Ok _ => False
  | Panic _ => u32max < i_index st + 1
  | OutOfFuel => False
  end.
Proof.
  unfold on_msg, add_chk. destruct (N.leb_spec (i_index st + 1) u32max) as [H|H]; cbn [bind].
  - split; [reflexivity|]. split; [reflexivity|]. unfold yields. cbn. repeat split; reflexivity.
  - exact H.
Qed.

Lemma storage_half_cases st w :
  match storage_half false st w with
  | Ok (AYield n m st') => 20 <= n /\ n <= blen w /\ yields true st n st'
  | Ok (ASkip st') => st' = skip1 st /\ 20 <= blen w /\ i_det_storage st = true
  | Ok APass => i_det_storage st = false
  | Ok AStop => True
  | Panic _ => u32max < i_index st + 1 /\ 8 <= blen w
  | OutOfFuel => False
  end.
Proof.
  unfold storage_half. destruct (parse_storage (i_index st) w) as [n m| |k] eqn:E.
  - pose proof (on_msg_cases true st n m) as H. destruct (parse_storage_msg _ _ _ _ E) as [Hn1 Hn2].
    destruct (on_msg true st n m) as [[n' m' st'|?| |]|s|]; try solve [destruct H]; [|split; [exact H|lia]].
    destruct H as (-> & -> & Hy). split; [assumption|split; assumption].
  - destruct (i_det_storage st) eqn:Hd; [|reflexivity]. split; [reflexivity|]. split; [|reflexivity].
    exact (parse_storage_invalid _ _ E).
  - cbn [orb]. destruct (i_det_storage st); [exact I|reflexivity].
Qed.

Lemma serial_half_cases st w :
  match serial_half st w with
  | Ok (AYield n m st') => 8 <= n /\ n <= blen w /\ yields false st n st'
  | Ok (ASkip st') => st' = skip1 st /\ 8 <= blen w
  | Ok APass => False
  | Ok AStop => True
  | Panic _ => u32max < i_index st + 1 /\ 8 <= blen w
  | OutOfFuel => False
  end.
Proof.
  unfold serial_half. destruct (parse_serial (i_index st) w) as [n m| |k] eqn:E.
  - pose proof (on_msg_cases false st n m) as H. destruct (parse_serial_msg _ _ _ _ E) as [Hn1 Hn2].
    destruct (on_msg false st n m) as [[n' m' st'|?| |]|s|]; try solve [destruct H]; [|split; [exact H|lia]].
    destruct H as (-> & -> & Hy). split; [assumption|split; assumption].
  - split; [reflexivity|]. exact (parse_serial_invalid _ _ E).
  - exact I.
Qed.

(* ---------------------------------------------------------------- one call of next, any input *)
Definition not_both (st : ist) : Prop := i_det_storage st && i_det_serial st = false.

Definition next_post (fuel : nat) (st : ist) (data : bytes) (r : res (option msg * ist * bytes)) : Prop :=
  match r with
  | Ok (o, st', data') =>
      i_processed st' + blen data' = i_processed st + blen data /\
      i_skipped st' + i_processed st <= i_skipped st + i_processed st' /\
      i_skipped st <= i_skipped st' /\
      not_both st' /\
      (exists pre, data = pre ++ data') /\
      match o with
      | Some _ => i_index st' = i_index st + 1 /\ blen data' + 8 <= blen data
      | None => i_index st' = i_index st
      end
  | Panic _ => u32max < i_index st + 1 /\ 1 <= blen data
  | OutOfFuel => (fuel <= length data)%nat
  end.

Lemma blen_skipn (d : bytes) k : N.of_nat k <= blen d -> blen (skipn k d) + N.of_nat k = blen d.
Proof. unfold blen. rewrite skipn_length. lia. Qed.

Lemma skipn_suffix {A} k (d : list A) : exists pre, d = pre ++ skipn k d.
Proof. exists (firstn k d). symmetry. apply firstn_skipn. Qed.

Lemma next_post_yield fuel st data (storage : bool) n (m : msg) st' :
  not_both st -> (if storage then i_det_serial st = false else i_det_storage st = false) ->
  8 <= n -> n <= blen data -> yields storage st n st' ->
  next_post fuel st data (Ok (Some m, st', skipn (N.to_nat n) data)).
Proof.
  intros Hnb Hother H8 Hn (Hi & Hp & Hs & Hds & Hdl). unfold next_post.
  pose proof (blen_skipn data (N.to_nat n) ltac:(lia)) as Hb.
  split; [lia|]. split; [lia|]. split; [lia|].
  split.
  { unfold not_both. rewrite Hds, Hdl. destruct storage; rewrite Hother; [reflexivity|apply andb_false_l]. }
  split; [apply skipn_suffix|]. split; [exact Hi|lia].
Qed.

Lemma next_post_skip fuel st data r :
  1 <= blen data ->
  next_post fuel (skip1 st) (skipn 1 data) r -> next_post (S fuel) st data r.
Proof.
  intros H1. pose proof (blen_skipn data 1 ltac:(lia)) as Hb.
  unfold next_post. destruct r as [[[o st'] data']|s|].
  - cbn [skip1 i_processed i_skipped i_index]. intros (Hp & Hs & Hs2 & Hnb & [pre Hpre] & Ho).
    split; [lia|]. split; [lia|]. split; [lia|]. split; [exact Hnb|].
    split.
    { destruct (skipn_suffix 1 data) as [p1 Hp1]. exists (p1 ++ pre). rewrite <- app_assoc, <- Hpre. exact Hp1. }
    destruct o; [destruct Ho; split; lia|exact Ho].
  - cbn [skip1 i_index]. intros [H Hb1]. split; [exact H|lia].
  - unfold blen in *. rewrite skipn_length. lia.
Qed.

Lemma next_inv : forall fuel st data, not_both st -> next_post fuel st data (next fuel st data).
Proof.
  induction fuel as [|fuel IH]; intros st data Hnb.
  - cbn. lia.
  - unfold next. rewrite next_S. fold next.
    assert (Hstop : next_post (S fuel) st data (Ok (None, st, data))).
    { unfold next_post. repeat split; try lia; try exact Hnb. exists []. reflexivity. }
    assert (Hser : i_det_storage st = false ->
                   next_post (S fuel) st data
                     (a2 <- serial_half st data ;;
                      match a2 with
                      | AYield n m st' => Ok (Some m, st', skipn (N.to_nat n) data)
                      | ASkip st' => next fuel st' (skipn 1 data)
                      | APass => next fuel st data
                      | AStop => Ok (None, st, data)
                      end)%res).
    { intros Hds. pose proof (serial_half_cases st data) as Hc.
      destruct (serial_half st data) as [[n m st'|st'| |]|s|]; cbn [bind].
      - destruct Hc as (H8 & Hn & Hy). apply (next_post_yield (S fuel) st data false); assumption.
      - destruct Hc as [-> H8]. apply next_post_skip; [lia|]. apply IH. exact Hnb.
      - destruct Hc.
      - exact Hstop.
      - destruct Hc as [Hc1 Hc2]. split; [exact Hc1|lia].
      - destruct Hc. }
    destruct (i_det_serial st) eqn:Hdl.
    + (* serial framing latched: the storage half is not entered *)
      cbn [bind]. assert (Hds : i_det_storage st = false).
      { unfold not_both in Hnb. rewrite Hdl, andb_true_r in Hnb. exact Hnb. }
      rewrite Hds. apply Hser. exact Hds.
    + pose proof (storage_half_cases st data) as Hc.
      destruct (storage_half false st data) as [[n m st'|st'| |]|s|]; cbn [bind].
      * destruct Hc as (H20 & Hn & Hy). apply (next_post_yield (S fuel) st data true); try assumption. lia.
      * destruct Hc as (-> & H20 & _). apply next_post_skip; [lia|]. apply IH. exact Hnb.
      * rewrite Hc. apply Hser. exact Hc.
      * exact Hstop.
      * destruct Hc as [Hc1 Hc2]. split; [exact Hc1|lia].
      * destruct Hc.
Qed.

(* ---------------------------------------------------------------- drain, any input *)
Lemma drain_inv : forall fuel nfuel st data,
  not_both st -> (length data < nfuel)%nat -> (length data < fuel)%nat ->
  match drain_fuel fuel nfuel st data with
  | Ok (ms, st', rest) =>
      i_processed st' + blen rest = i_processed st + blen data /\
      i_skipped st' + i_processed st <= i_skipped st + i_processed st' /\
      i_index st' = i_index st + N.of_nat (length ms) /\
      (exists pre, data = pre ++ rest)
  | Panic _ => u32max < i_index st + N.of_nat (length data)
  | OutOfFuel => False
  end.
Proof.
  induction fuel as [|fuel IH]; intros nfuel st data Hnb Hnf Hf; [lia|].
  unfold drain_fuel, drain_l. cbn [drain_gen]. fold (next_l false). fold next. fold (drain_l false). fold drain_fuel.
  pose proof (next_inv nfuel st data Hnb) as Hn. unfold next_post in Hn.
  destruct (next nfuel st data) as [[[o st1] d1]|s|]; cbn [bind].
  - destruct Hn as (Hp & Hs & Hs2 & Hnb1 & [pre Hpre] & Ho).
    destruct o as [m|].
    + destruct Ho as [Hi Hlen].
      assert (Hl1 : (length d1 + 8 <= length data)%nat) by (unfold blen in Hlen; lia).
      specialize (IH nfuel st1 d1 Hnb1 ltac:(lia) ltac:(lia)).
      destruct (drain_fuel fuel nfuel st1 d1) as [[[ms st2] rest]|s|]; cbn [bind].
      * destruct IH as (Hp2 & Hs3 & Hi2 & [pre2 Hpre2]).
        split; [lia|]. split; [lia|]. split; [cbn [length]; lia|].
        exists (pre ++ pre2). rewrite <- app_assoc, <- Hpre2. exact Hpre.
      * lia.
      * exact IH.
    + split; [lia|]. split; [lia|]. split; [cbn [length]; lia|]. exists pre. exact Hpre.
  - unfold blen in Hn. lia.
  - lia.
Qed.

(* every input: termination, no panic unless the u32 index overflows, counters account for the input *)
Theorem run_iter_total start data :
  start + N.of_nat (length data) <= u32max ->
  exists ms st rest,
    run_iter start data = Ok (ms, st, rest) /\
    i_processed st + blen rest = blen data /\
    i_processed st <= blen data /\
    i_skipped st <= i_processed st /\
    i_index st = start + N.of_nat (length ms) /\
    (exists consumed, data = consumed ++ rest).
Proof.
  intros Hidx.
  pose proof (drain_inv (S (length data)) (S (length data)) (ist_new start) data eq_refl ltac:(lia) ltac:(lia)) as H.
  unfold run_iter, run_iter_l. fold drain_fuel.
  destruct (drain_fuel (S (length data)) (S (length data)) (ist_new start) data) as [[[ms st] rest]|s|].
  - cbn [ist_new i_processed i_skipped i_index] in H. destruct H as (Hp & Hs & Hi & Hpre).
    exists ms, st, rest. repeat split; try lia; try assumption.
  - cbn [ist_new i_index] in H. lia.
  - destruct H.
Qed.

(* without the bound on the index: never out of fuel, and a panic is an index overflow *)
Theorem run_iter_terminates start data : run_iter start data <> OutOfFuel.
Proof.
  pose proof (drain_inv (S (length data)) (S (length data)) (ist_new start) data eq_refl ltac:(lia) ltac:(lia)) as H.
  unfold run_iter, run_iter_l. fold drain_fuel.
  destruct (drain_fuel (S (length data)) (S (length data)) (ist_new start) data) as [[[ms st] rest]|s|];
    [discriminate|discriminate|destruct H].
Qed.
