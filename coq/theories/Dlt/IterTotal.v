(* Proofs about Dlt/Iter.v that hold for EVERY input (no hypothesis on the bytes): the Cursor iterator
   terminates within fuel |data|+1, panics only on index overflow, and its counters account for the input:
   processed + unconsumed = |input|, skipped <= processed, index = start + number of messages. *)
From Coq Require Import List NArith Bool Lia Arith.
From AdltV Require Import Base.Res Base.MachInt Dlt.Frame Dlt.FrameProofs Dlt.Iter Dlt.IterProofs.
Import ListNotations.
Open Scope N_scope.

(* ---------------------------------------------------------------- what a parser result tells about the data *)
Lemma parse_after_marker_consumed hsz pat short sh idx d n m :
  hsz <= blen d -> parse_after_marker hsz pat short sh idx d = PMsg n m -> hsz + 4 <= n /\ n <= blen d.
Proof.
  intros Hh. unfold parse_after_marker.
  remember (std_from_buf (skipn (N.to_nat hsz) d)) as stdh eqn:E. clear E.
  pose proof (hs_bounds stdh) as Hhs.
  destruct (N.ltb_spec (len stdh) (std_ext_header_size stdh)) as [|H1]; [discriminate|].
  destruct (N.ltb_spec (blen d - hsz) (len stdh)) as [|H2]; [destruct short; discriminate|].
  match goal with |- (if ?c then _ else _) = _ -> _ => destruct c end; [discriminate|].
  intros E. inversion E; subst. lia.
Qed.

Lemma parse_storage_msg idx d n m : parse_storage idx d = PMsg n m -> 20 <= n /\ n <= blen d.
Proof.
  unfold parse_storage, MIN_DLT_MSG_SIZE. destruct (N.ltb_spec (blen d) 20) as [|H]; [discriminate|].
  destruct (storage_from_buf d); [|discriminate]. intros E.
  apply parse_after_marker_consumed in E; unfold DLT_STORAGE_HEADER_SIZE in *; lia.
Qed.
Lemma parse_storage_invalid idx d : parse_storage idx d = PInvalid -> 20 <= blen d.
Proof.
  unfold parse_storage, MIN_DLT_MSG_SIZE. destruct (N.ltb_spec (blen d) 20) as [|H]; [discriminate|]. intros _. exact H.
Qed.
Lemma parse_serial_msg idx d n m : parse_serial idx d = PMsg n m -> 8 <= n /\ n <= blen d.
Proof.
  unfold parse_serial, DLT_SERIAL_HEADER_SIZE, DLT_MIN_STD_HEADER_SIZE.
  destruct (N.ltb_spec (blen d) (4 + 4)) as [|H]; [discriminate|].
  destruct (negb (is_serial_pat d)); [discriminate|]. intros E.
  apply parse_after_marker_consumed in E; lia.
Qed.
Lemma parse_serial_invalid idx d : parse_serial idx d = PInvalid -> 8 <= blen d.
Proof.
  unfold parse_serial, DLT_SERIAL_HEADER_SIZE, DLT_MIN_STD_HEADER_SIZE.
  destruct (N.ltb_spec (blen d) (4 + 4)) as [|H]; [discriminate|]. intros _. lia.
Qed.

(* ---------------------------------------------------------------- the two halves of a loop turn *)
Definition yields (storage : bool) (st : ist) (n : N) (st' : ist) : Prop :=
  i_index st' = i_index st + 1 /\ i_processed st' = i_processed st + n /\ i_skipped st' = i_skipped st /\
  i_det_storage st' = (if storage then true else i_det_storage st) /\
  i_det_serial st' = (if storage then i_det_serial st else true).

Lemma on_msg_cases storage st n m :
  match on_msg storage st n m with
  | Ok (AYield n' m' st') => n' = n /\ m' = m /\ yields storage st n st'
  | Ok _ => False
  | Panic _ => u32max < i_index st + 1
  | OutOfFuel => False
  end.
Proof.
  unfold on_msg, add_chk. destruct (N.leb_spec (i_index st + 1) u32max) as [H|H]; cbn [bind].
  - split; [reflexivity|]. split; [reflexivity|]. unfold yields. cbn. repeat split; reflexivity.
  - exact H.
Qed.

Lemma storage_half_cases st w :
  match storage_half false st w with
  | Ok (AYield n m st') => 20 <= n /\ n <= blen w /\ yields true st n st'
  | Ok (ASkip st') => st' = skip1 st /\ 20 <= blen w /\ i_det_storage st = true
  | Ok APass => i_det_storage st = false
  | Ok AStop => True
  | Panic _ => u32max < i_index st + 1 /\ 8 <= blen w
  | OutOfFuel => False
  end.
Proof.
  unfold storage_half. destruct (parse_storage (i_index st) w) as [n m| |k] eqn:E.
  - pose proof (on_msg_cases true st n m) as H. destruct (parse_storage_msg _ _ _ _ E) as [Hn1 Hn2].
    destruct (on_msg true st n m) as [[n' m' st'|?| |]|s|]; try solve [destruct H]; [|split; [exact H|lia]].
    destruct H as (-> & -> & Hy). split; [assumption|split; assumption].
  - destruct (i_det_storage st) eqn:Hd; [|reflexivity]. split; [reflexivity|]. split; [|reflexivity].
    exact (parse_storage_invalid _ _ E).
  - cbn [orb]. destruct (i_det_storage st); [exact I|]. cbn [orb]. destruct (MIN_DLT_MSG_SIZE <=? blen w); [exact I|reflexivity].
Qed.

Lemma serial_half_cases st w :
  match serial_half st w with
  | Ok (AYield n m st') => 8 <= n /\ n <= blen w /\ yields false st n st'
  | Ok (ASkip st') => st' = skip1 st /\ 8 <= blen w
  | Ok APass => False
  | Ok AStop => True
  | Panic _ => u32max < i_index st + 1 /\ 8 <= blen w
  | OutOfFuel => False
  end.
Proof.
  unfold serial_half. destruct (parse_serial (i_index st) w) as [n m| |k] eqn:E.
  - pose proof (on_msg_cases false st n m) as H. destruct (parse_serial_msg _ _ _ _ E) as [Hn1 Hn2].
    destruct (on_msg false st n m) as [[n' m' st'|?| |]|s|]; try solve [destruct H]; [|split; [exact H|lia]].
    destruct H as (-> & -> & Hy). split; [assumption|split; assumption].
  - split; [reflexivity|]. exact (parse_serial_invalid _ _ E).
  - exact I.
Qed.

(* ---------------------------------------------------------------- one call of next, any input *)
Definition not_both (st : ist) : Prop := i_det_storage st && i_det_serial st = false.

Definition next_post (fuel : nat) (st : ist) (data : bytes) (r : res (option msg * ist * bytes)) : Prop :=
  match r with
  | Ok (o, st', data') =>
      i_processed st' + blen data' = i_processed st + blen data /\
      i_skipped st' + i_processed st <= i_skipped st + i_processed st' /\
      i_skipped st <= i_skipped st' /\
      not_both st' /\
      (exists pre, data = pre ++ data') /\
      match o with
      | Some _ => i_index st' = i_index st + 1 /\ blen data' + 8 <= blen data
      | None => i_index st' = i_index st
      end
  | Panic _ => u32max < i_index st + 1 /\ 1 <= blen data
  | OutOfFuel => (fuel <= length data)%nat
  end.

Lemma blen_skipn (d : bytes) k : N.of_nat k <= blen d -> blen (skipn k d) + N.of_nat k = blen d.
Proof. unfold blen. rewrite skipn_length. lia. Qed.

Lemma skipn_suffix {A} k (d : list A) : exists pre, d = pre ++ skipn k d.
Proof. exists (firstn k d). symmetry. apply firstn_skipn. Qed.

Lemma next_post_yield fuel st data (storage : bool) n (m : msg) st' :
  not_both st -> (if storage then i_det_serial st = false else i_det_storage st = false) ->
  8 <= n -> n <= blen data -> yields storage st n st' ->
  next_post fuel st data (Ok (Some m, st', skipn (N.to_nat n) data)).
Proof.
  intros Hnb Hother H8 Hn (Hi & Hp & Hs & Hds & Hdl). unfold next_post.
  pose proof (blen_skipn data (N.to_nat n) ltac:(lia)) as Hb.
  split; [lia|]. split; [lia|]. split; [lia|].
  split.
  { unfold not_both. rewrite Hds, Hdl. destruct storage; rewrite Hother; [reflexivity|apply andb_false_l]. }
  split; [apply skipn_suffix|]. split; [exact Hi|lia].
Qed.

Lemma next_post_skip fuel st data r :
  1 <= blen data ->
  next_post fuel (skip1 st) (skipn 1 data) r -> next_post (S fuel) st data r.
Proof.
  intros H1. pose proof (blen_skipn data 1 ltac:(lia)) as Hb.
  unfold next_post. destruct r as [[[o st'] data']|s|].
  - cbn [skip1 i_processed i_skipped i_index]. intros (Hp & Hs & Hs2 & Hnb & [pre Hpre] & Ho).
    split; [lia|]. split; [lia|]. split; [lia|]. split; [exact Hnb|].
    split.
    { destruct (skipn_suffix 1 data) as [p1 Hp1]. exists (p1 ++ pre). rewrite <- app_assoc, <- Hpre. exact Hp1. }
    destruct o; [destruct Ho; split; lia|exact Ho].
  - cbn [skip1 i_index]. intros [H Hb1]. split; [exact H|lia].
  - unfold blen in *. rewrite skipn_length. lia.
Qed.

Lemma next_inv : forall fuel st data, not_both st -> next_post fuel st data (next fuel st data).
Proof.
  induction fuel as [|fuel IH]; intros st data Hnb.
  - cbn. lia.
  - unfold next. rewrite next_S. fold next.
    assert (Hstop : next_post (S fuel) st data (Ok (None, st, data))).
    { unfold next_post. repeat split; try lia; try exact Hnb. exists []. reflexivity. }
    assert (Hser : i_det_storage st = false ->
                   next_post (S fuel) st data
                     (a2 <- serial_half st data ;;
                      match a2 with
                      | AYield n m st' => Ok (Some m, st', skipn (N.to_nat n) data)
                      | ASkip st' => next fuel st' (skipn 1 data)
                      | APass => next fuel st data
                      | AStop => Ok (None, st, data)
                      end)%res).
    { intros Hds. pose proof (serial_half_cases st data) as Hc.
      destruct (serial_half st data) as [[n m st'|st'| |]|s|]; cbn [bind].
      - destruct Hc as (H8 & Hn & Hy). apply (next_post_yield (S fuel) st data false); assumption.
      - destruct Hc as [-> H8]. apply next_post_skip; [lia|]. apply IH. exact Hnb.
      - destruct Hc.
      - exact Hstop.
      - destruct Hc as [Hc1 Hc2]. split; [exact Hc1|lia].
      - destruct Hc. }
    destruct (i_det_serial st) eqn:Hdl.
    + (* serial framing latched: the storage half is not entered *)
      cbn [bind]. assert (Hds : i_det_storage st = false).
      { unfold not_both in Hnb. rewrite Hdl, andb_true_r in Hnb. exact Hnb. }
      rewrite Hds. apply Hser. exact Hds.
    + pose proof (storage_half_cases st data) as Hc.
      destruct (storage_half false st data) as [[n m st'|st'| |]|s|]; cbn [bind].
      * destruct Hc as (H20 & Hn & Hy). apply (next_post_yield (S fuel) st data true); try assumption. lia.
      * destruct Hc as (-> & H20 & _). apply next_post_skip; [lia|]. apply IH. exact Hnb.
      * rewrite Hc. apply Hser. exact Hc.
      * exact Hstop.
      * destruct Hc as [Hc1 Hc2]. split; [exact Hc1|lia].
      * destruct Hc.
Qed.

(* ---------------------------------------------------------------- drain, any input *)
Lemma drain_inv : forall fuel nfuel st data,
  not_both st -> (length data < nfuel)%nat -> (length data < fuel)%nat ->
  match drain_fuel fuel nfuel st data with
  | Ok (ms, st', rest) =>
      i_processed st' + blen rest = i_processed st + blen data /\
      i_skipped st' + i_processed st <= i_skipped st + i_processed st' /\
      i_index st' = i_index st + N.of_nat (length ms) /\
      (exists pre, data = pre ++ rest)
  | Panic _ => u32max < i_index st + N.of_nat (length data)
  | OutOfFuel => False
  end.
Proof.
  induction fuel as [|fuel IH]; intros nfuel st data Hnb Hnf Hf; [lia|].
  unfold drain_fuel, drain_l. cbn [drain_gen]. fold (next_l false). fold next. fold (drain_l false). fold drain_fuel.
  pose proof (next_inv nfuel st data Hnb) as Hn. unfold next_post in Hn.
  destruct (next nfuel st data) as [[[o st1] d1]|s|]; cbn [bind].
  - destruct Hn as (Hp & Hs & Hs2 & Hnb1 & [pre Hpre] & Ho).
    destruct o as [m|].
    + destruct Ho as [Hi Hlen].
      assert (Hl1 : (length d1 + 8 <= length data)%nat) by (unfold blen in Hlen; lia).
      specialize (IH nfuel st1 d1 Hnb1 ltac:(lia) ltac:(lia)).
      destruct (drain_fuel fuel nfuel st1 d1) as [[[ms st2] rest]|s|]; cbn [bind].
      * destruct IH as (Hp2 & Hs3 & Hi2 & [pre2 Hpre2]).
        split; [lia|]. split; [lia|]. split; [cbn [length]; lia|].
        exists (pre ++ pre2). rewrite <- app_assoc, <- Hpre2. exact Hpre.
      * lia.
      * exact IH.
    + split; [lia|]. split; [lia|]. split; [cbn [length]; lia|]. exists pre. exact Hpre.
  - unfold blen in Hn. lia.
  - lia.
Qed.

(* every input: termination, no panic unless the u32 index overflows, counters account for the input *)
Theorem run_iter_total start data :
  start + N.of_nat (length data) <= u32max ->
  exists ms st rest,
    run_iter start data = Ok (ms, st, rest) /\
    i_processed st + blen rest = blen data /\
    i_processed st <= blen data /\
    i_skipped st <= i_processed st /\
    i_index st = start + N.of_nat (length ms) /\
    (exists consumed, data = consumed ++ rest).
Proof.
  intros Hidx.
  pose proof (drain_inv (S (length data)) (S (length data)) (ist_new start) data eq_refl ltac:(lia) ltac:(lia)) as H.
  unfold run_iter, run_iter_l. fold drain_fuel.
  destruct (drain_fuel (S (length data)) (S (length data)) (ist_new start) data) as [[[ms st] rest]|s|].
  - cbn [ist_new i_processed i_skipped i_index] in H. destruct H as (Hp & Hs & Hi & Hpre).
    exists ms, st, rest. repeat split; try lia; try assumption.
  - cbn [ist_new i_index] in H. lia.
  - destruct H.
Qed.

(* without the bound on the index: never out of fuel, and a panic is an index overflow *)
Theorem run_iter_terminates start data : run_iter start data <> OutOfFuel.
Proof.
  pose proof (drain_inv (S (length data)) (S (length data)) (ist_new start) data eq_refl ltac:(lia) ltac:(lia)) as H.
  unfold run_iter, run_iter_l. fold drain_fuel.
  destruct (drain_fuel (S (length data)) (S (length data)) (ist_new start) data) as [[[ms st] rest]|s|];
    [discriminate|discriminate|destruct H].
Qed.

(* ---------------------------------------------------------------- every yielded message is a parser result on a suffix *)
Definition from_parse (data : bytes) (m : msg) : Prop :=
  exists k idx n, parse_storage idx (skipn k data) = PMsg n m \/ parse_serial idx (skipn k data) = PMsg n m.

Lemma on_msg_yield storage st n m n' m' st' : on_msg storage st n m = Ok (AYield n' m' st') -> n' = n /\ m' = m.
Proof.
  unfold on_msg. destruct (add_chk u32max (i_index st) 1); cbn [bind]; intros E; inversion E. split; reflexivity.
Qed.

Lemma storage_half_yield st w n m st' : storage_half false st w = Ok (AYield n m st') -> parse_storage (i_index st) w = PMsg n m.
Proof.
  unfold storage_half. destruct (parse_storage (i_index st) w) as [n0 m0| |k].
  - intros E. apply on_msg_yield in E. destruct E; subst. reflexivity.
  - destruct (i_det_storage st); discriminate.
  - destruct (false || i_det_storage st || (MIN_DLT_MSG_SIZE <=? blen w)); discriminate.
Qed.
Lemma serial_half_yield st w n m st' : serial_half st w = Ok (AYield n m st') -> parse_serial (i_index st) w = PMsg n m.
Proof.
  unfold serial_half. destruct (parse_serial (i_index st) w) as [n0 m0| |k]; try discriminate.
  intros E. apply on_msg_yield in E. destruct E; subst. reflexivity.
Qed.

Lemma from_parse_skip k data m : from_parse (skipn k data) m -> from_parse data m.
Proof.
  intros (j & idx & n & H). exists (k + j)%nat, idx, n. rewrite <- skipn_skipn. exact H.
Qed.

Lemma next_from_parse : forall fuel st data m st' d',
  next fuel st data = Ok (Some m, st', d') -> from_parse data m.
Proof.
  induction fuel as [|fuel IH]; intros st data m st' d'; [discriminate|].
  unfold next. rewrite next_S. fold next.
  assert (Hser : (a2 <- serial_half st data ;;
                  match a2 with
                  | AYield n m st' => Ok (Some m, st', skipn (N.to_nat n) data)
                  | ASkip st' => next fuel st' (skipn 1 data)
                  | APass => next fuel st data
                  | AStop => Ok (None, st, data)
                  end)%res = Ok (Some m, st', d') -> from_parse data m).
  { destruct (serial_half st data) as [[n m0 st0|st0| |]|s|] eqn:E; cbn [bind]; try discriminate.
    - intros E2. inversion E2; subst. apply serial_half_yield in E. exists 0%nat, (i_index st), n. right. exact E.
    - intros E2. apply (from_parse_skip 1). exact (IH _ _ _ _ _ E2).
    - intros E2. exact (IH _ _ _ _ _ E2). }
  destruct (i_det_serial st).
  - cbn [bind]. destruct (i_det_storage st); [intros E; exact (IH _ _ _ _ _ E)|exact Hser].
  - destruct (storage_half false st data) as [[n m0 st0|st0| |]|s|] eqn:E; cbn [bind]; try discriminate.
    + intros E2. inversion E2; subst. apply storage_half_yield in E. exists 0%nat, (i_index st), n. left. exact E.
    + intros E2. apply (from_parse_skip 1). exact (IH _ _ _ _ _ E2).
    + destruct (i_det_storage st); [intros E2; exact (IH _ _ _ _ _ E2)|exact Hser].
Qed.

Lemma next_suffix : forall fuel st data o st' d',
  next fuel st data = Ok (o, st', d') -> exists k, d' = skipn k data.
Proof.
  induction fuel as [|fuel IH]; intros st data o st' d'; [discriminate|].
  unfold next. rewrite next_S. fold next.
  assert (Hser : (a2 <- serial_half st data ;;
                  match a2 with
                  | AYield n m st' => Ok (Some m, st', skipn (N.to_nat n) data)
                  | ASkip st' => next fuel st' (skipn 1 data)
                  | APass => next fuel st data
                  | AStop => Ok (None, st, data)
                  end)%res = Ok (o, st', d') -> exists k, d' = skipn k data).
  { destruct (serial_half st data) as [[n m0 st0|st0| |]|s|]; cbn [bind]; try discriminate.
    - intros E2. inversion E2; subst. eexists; reflexivity.
    - intros E2. destruct (IH _ _ _ _ _ E2) as [k Hk]. exists (1 + k)%nat. rewrite <- skipn_skipn. exact Hk.
    - intros E2. exact (IH _ _ _ _ _ E2).
    - intros E2. inversion E2; subst. exists 0%nat. reflexivity. }
  destruct (i_det_serial st).
  - cbn [bind]. destruct (i_det_storage st); [intros E; exact (IH _ _ _ _ _ E)|exact Hser].
  - destruct (storage_half false st data) as [[n m0 st0|st0| |]|s|]; cbn [bind]; try discriminate.
    + intros E2. inversion E2; subst. eexists; reflexivity.
    + intros E2. destruct (IH _ _ _ _ _ E2) as [k Hk]. exists (1 + k)%nat. rewrite <- skipn_skipn. exact Hk.
    + destruct (i_det_storage st); [intros E2; exact (IH _ _ _ _ _ E2)|exact Hser].
    + intros E2. inversion E2; subst. exists 0%nat. reflexivity.
Qed.

Lemma drain_from_parse : forall fuel nfuel st data ms st' rest,
  drain_fuel fuel nfuel st data = Ok (ms, st', rest) -> Forall (from_parse data) ms.
Proof.
  induction fuel as [|fuel IH]; intros nfuel st data ms st' rest; [discriminate|].
  unfold drain_fuel, drain_l. cbn [drain_gen]. fold (next_l false). fold next. fold (drain_l false). fold drain_fuel.
  destruct (next nfuel st data) as [[[o st1] d1]|s|] eqn:En; cbn [bind]; try discriminate.
  destruct o as [m|].
  - destruct (drain_fuel fuel nfuel st1 d1) as [[[ms2 st2] rest2]|s|] eqn:Ed; cbn [bind]; try discriminate.
    intros E. inversion E; subst. constructor.
    + exact (next_from_parse _ _ _ _ _ _ En).
    + destruct (next_suffix _ _ _ _ _ _ En) as [k Hk]. subst d1.
      eapply Forall_impl; [|exact (IH _ _ _ _ _ _ Ed)]. intros a. apply from_parse_skip.
  - intros E. inversion E; subst. constructor.
Qed.

Theorem run_iter_from_parse start data ms st rest :
  run_iter start data = Ok (ms, st, rest) -> Forall (from_parse data) ms.
Proof. unfold run_iter, run_iter_l. fold drain_fuel. apply drain_from_parse. Qed.

(* ---------------------------------------------------------------- numbering of the yielded messages *)
Lemma parse_after_marker_index hsz pat short sh idx d n m :
  parse_after_marker hsz pat short sh idx d = PMsg n m -> m_index m = idx.
Proof.
  unfold parse_after_marker.
  destruct (_ <? _); [discriminate|]. destruct (_ <? _); [destruct short; discriminate|].
  match goal with |- (if ?c then _ else _) = _ -> _ => destruct c end; [discriminate|].
  intros E. inversion E; subst. reflexivity.
Qed.
Lemma parse_storage_index idx d n m : parse_storage idx d = PMsg n m -> m_index m = idx.
Proof.
  unfold parse_storage. destruct (_ <? _); [discriminate|]. destruct (storage_from_buf d); [|discriminate].
  apply parse_after_marker_index.
Qed.
Lemma parse_serial_index idx d n m : parse_serial idx d = PMsg n m -> m_index m = idx.
Proof.
  unfold parse_serial. destruct (_ <? _); [discriminate|]. destruct (negb _); [discriminate|].
  apply parse_after_marker_index.
Qed.

Lemma on_msg_ok storage st n m a : on_msg storage st n m = Ok a -> i_index st + 1 <= u32max.
Proof.
  unfold on_msg, add_chk. destruct (N.leb_spec (i_index st + 1) u32max) as [H|H]; [intros _; exact H|discriminate].
Qed.

Lemma next_yield_index : forall fuel st data m st' d',
  next fuel st data = Ok (Some m, st', d') -> m_index m = i_index st /\ i_index st + 1 <= u32max.
Proof.
  induction fuel as [|fuel IH]; intros st data m st' d'; [discriminate|].
  unfold next. rewrite next_S. fold next.
  assert (Hser : (a2 <- serial_half st data ;;
                  match a2 with
                  | AYield n m st' => Ok (Some m, st', skipn (N.to_nat n) data)
                  | ASkip st' => next fuel st' (skipn 1 data)
                  | APass => next fuel st data
                  | AStop => Ok (None, st, data)
                  end)%res = Ok (Some m, st', d') -> m_index m = i_index st /\ i_index st + 1 <= u32max).
  { destruct (serial_half st data) as [[n m0 st0|st0| |]|s|] eqn:E; cbn [bind]; try discriminate.
    - intros E2. inversion E2; subst. split.
      + apply serial_half_yield in E. exact (parse_serial_index _ _ _ _ E).
      + unfold serial_half in E. destruct (parse_serial (i_index st) data); try discriminate. exact (on_msg_ok _ _ _ _ _ E).
    - intros E2. pose proof (serial_half_cases st data) as Hc. rewrite E in Hc. destruct Hc as [-> _].
      exact (IH _ _ _ _ _ E2).
    - intros E2. exact (IH _ _ _ _ _ E2). }
  destruct (i_det_serial st).
  - cbn [bind]. destruct (i_det_storage st); [intros E; exact (IH _ _ _ _ _ E)|exact Hser].
  - destruct (storage_half false st data) as [[n m0 st0|st0| |]|s|] eqn:E; cbn [bind]; try discriminate.
    + intros E2. inversion E2; subst. split.
      * apply storage_half_yield in E. exact (parse_storage_index _ _ _ _ E).
      * unfold storage_half in E. destruct (parse_storage (i_index st) data);
          try (destruct (i_det_storage st); discriminate); try (destruct (false || i_det_storage st || (MIN_DLT_MSG_SIZE <=? blen data)); discriminate).
        exact (on_msg_ok _ _ _ _ _ E).
    + intros E2. pose proof (storage_half_cases st data) as Hc. rewrite E in Hc. destruct Hc as (-> & _ & _).
      exact (IH _ _ _ _ _ E2).
    + destruct (i_det_storage st); [intros E2; exact (IH _ _ _ _ _ E2)|exact Hser].
Qed.

Lemma drain_indices : forall fuel nfuel st data ms st' rest,
  not_both st -> i_index st <= u32max ->
  drain_fuel fuel nfuel st data = Ok (ms, st', rest) ->
  i_index st + N.of_nat (length ms) <= u32max /\
  map m_index ms = map (fun k => i_index st + N.of_nat k) (seq 0 (length ms)).
Proof.
  induction fuel as [|fuel IH]; intros nfuel st data ms st' rest Hnb Hle; [discriminate|].
  unfold drain_fuel, drain_l. cbn [drain_gen]. fold (next_l false). fold next. fold (drain_l false). fold drain_fuel.
  pose proof (next_inv nfuel st data Hnb) as Hn. unfold next_post in Hn.
  destruct (next nfuel st data) as [[[o st1] d1]|s|] eqn:En; cbn [bind]; try discriminate.
  destruct Hn as (_ & _ & _ & Hnb1 & _ & Ho).
  destruct o as [m|].
  - destruct (drain_fuel fuel nfuel st1 d1) as [[[ms2 st2] rest2]|s|] eqn:Ed; cbn [bind]; try discriminate.
    intros E. inversion E; subst. destruct Ho as [Hi _].
    destruct (next_yield_index _ _ _ _ _ _ En) as [Hm Hb].
    destruct (IH _ _ _ _ _ _ Hnb1 ltac:(lia) Ed) as [Hb2 Hmap].
    split; [cbn [length]; lia|].
    cbn [length seq map]. f_equal; [lia|].
    rewrite Hmap. rewrite <- seq_shift, map_map. apply map_ext. intros k. lia.
  - intros E. inversion E; subst. cbn. split; [lia|reflexivity].
Qed.

Theorem run_iter_indices start data ms st rest :
  start <= u32max ->
  run_iter start data = Ok (ms, st, rest) ->
  start + N.of_nat (length ms) <= u32max /\
  map m_index ms = map (fun k => start + N.of_nat k) (seq 0 (length ms)).
Proof.
  unfold run_iter, run_iter_l. fold drain_fuel. intros Hs H.
  exact (drain_indices _ _ (ist_new start) data ms st rest eq_refl Hs H).
Qed.
