(* Proofs about Dlt/Iter.v over the Cursor reader: one loop turn on a marker-free position (skip),
   on a too short rest (stop), on an encoded message (yield); runs over garbage; the drain theorem for
   streams  g0 ++ enc m1 ++ g1 ++ ... ++ enc mn ++ gn  whose markers sit only at the message starts. *)
From Coq Require Import List NArith Bool Lia Arith.
From AdltV Require Import Base.Res Base.MachInt Dlt.Frame Dlt.FrameProofs Dlt.Iter.
Import ListNotations.
Open Scope N_scope.

(* ---------------------------------------------------------------- unfolding of one loop turn (Cursor) *)
Lemma next_S legacy fuel st data :
  next_l legacy (S fuel) st data =
  (a1 <- (if i_det_serial st then Ok APass else storage_half legacy st data) ;;
   match a1 with
   | AYield n m st' => Ok (Some m, st', skipn (N.to_nat n) data)
   | AStop => Ok (None, st, data)
   | ASkip st' => next_l legacy fuel st' (skipn 1 data)
   | APass =>
       if i_det_storage st then next_l legacy fuel st data
       else
         a2 <- serial_half st data ;;
         match a2 with
         | AYield n m st' => Ok (Some m, st', skipn (N.to_nat n) data)
         | AStop => Ok (None, st, data)
         | ASkip st' => next_l legacy fuel st' (skipn 1 data)
         | APass => next_l legacy fuel st data
         end
   end)%res.
Proof.
  unfold next_l. cbn [next_gen cursor_fill]. destruct (i_det_serial st); reflexivity.
Qed.

(* ---------------------------------------------------------------- vocabulary of the theorems *)
Definition nomark (l : bytes) : Prop := is_storage_pat l = false /\ is_serial_pat l = false.
(* the latch of the other framing is not set *)
Definition st_ok (f : framing) (st : ist) : Prop :=
  match f with Storage => i_det_serial st = false | Serial => i_det_storage st = false end.
Definition own_detected (f : framing) (st : ist) : bool :=
  match f with Storage => i_det_storage st | Serial => i_det_serial st end.
(* the iterator gives up when fewer bytes than this remain *)
Definition stop_size (f : framing) (detected : bool) : N := if detected then min_size f else 8.

Definition skip_by (k : N) (st : ist) : ist :=
  {| i_index := i_index st; i_processed := i_processed st + k; i_skipped := i_skipped st + k;
     i_det_storage := i_det_storage st; i_det_serial := i_det_serial st |}.

Definition st_yield (f : framing) (st : ist) (a : amsg) : ist :=
  {| i_index := i_index st + 1; i_processed := i_processed st + blen (enc f a); i_skipped := i_skipped st;
     i_det_storage := match f with Storage => true | Serial => i_det_storage st end;
     i_det_serial := match f with Storage => i_det_serial st | Serial => true end |}.

Lemma skip_by_0 st : skip_by 0 st = st.
Proof. destruct st. unfold skip_by. cbn. f_equal; lia. Qed.
Lemma skip_by_skip1 k st : skip_by k (skip1 st) = skip_by (k + 1) st.
Proof. unfold skip_by, skip1. cbn. f_equal; lia. Qed.

Lemma stop_size_le_min f d : stop_size f d <= min_size f.
Proof. destruct f, d; cbn; lia. Qed.
Lemma stop_size_ge8 f d : 8 <= stop_size f d.
Proof. destruct f, d; cbn; lia. Qed.

(* the storage half on a window without a message *)
Lemma storage_half_short st w :
  blen w < 20 -> storage_half false st w = if i_det_storage st then Ok AStop else Ok APass.
Proof.
  intros H. unfold storage_half. rewrite (parse_storage_short _ _ H). unfold MIN_DLT_MSG_SIZE.
  destruct (N.leb_spec 20 (blen w)) as [Hc|_]; [lia|]. cbn [orb]. rewrite orb_false_r. reflexivity.
Qed.
Lemma storage_half_nopat st w :
  20 <= blen w -> is_storage_pat w = false ->
  storage_half false st w = if i_det_storage st then Ok (ASkip (skip1 st)) else Ok APass.
Proof. intros H Hp. unfold storage_half. rewrite (parse_storage_nopat _ _ H Hp). reflexivity. Qed.

(* ---------------------------------------------------------------- single turns *)
Lemma turn_skip f fuel st data :
  st_ok f st -> nomark data -> stop_size f (own_detected f st) <= blen data ->
  next (S fuel) st data = next fuel (skip1 st) (skipn 1 data).
Proof.
  intros Hok [Hns Hnl] Hlen. unfold next. rewrite next_S.
  assert (Hsh : i_det_storage st = false -> storage_half false st data = Ok APass).
  { intros Hd. destruct (N.lt_ge_cases (blen data) 20) as [Hs|Hs].
    - rewrite (storage_half_short _ _ Hs), Hd. reflexivity.
    - rewrite (storage_half_nopat _ _ Hs Hns), Hd. reflexivity. }
  assert (H8 : 8 <= blen data) by (pose proof (stop_size_ge8 f (own_detected f st)); lia).
  assert (Hse : serial_half st data = Ok (ASkip (skip1 st))).
  { unfold serial_half. rewrite (parse_serial_nopat _ _ H8 Hnl). reflexivity. }
  destruct f; cbn [st_ok own_detected] in *.
  - rewrite Hok.
    destruct (i_det_storage st) eqn:Hd; cbn [stop_size min_size] in Hlen.
    + rewrite (storage_half_nopat _ _ Hlen Hns), Hd. reflexivity.
    + rewrite (Hsh eq_refl). cbn [bind]. rewrite Hse. reflexivity.
  - destruct (i_det_serial st) eqn:Hd.
    + cbn [bind]. rewrite Hok, Hse. reflexivity.
    + rewrite (Hsh Hok). cbn [bind]. rewrite Hok, Hse. reflexivity.
Qed.

Lemma turn_stop f fuel st data :
  st_ok f st -> blen data < stop_size f (own_detected f st) ->
  next (S fuel) st data = Ok (None, st, data).
Proof.
  intros Hok Hlen. unfold next. rewrite next_S.
  assert (H20 : blen data < 20) by (pose proof (stop_size_le_min f (own_detected f st)); destruct f; cbn [min_size] in *; lia).
  rewrite (storage_half_short _ _ H20).
  assert (Hse : blen data < 8 -> serial_half st data = Ok AStop).
  { intros H8. unfold serial_half. destruct (parse_serial_short (i_index st) data H8) as [k Hk]. rewrite Hk. reflexivity. }
  destruct f; cbn [st_ok own_detected] in *.
  - rewrite Hok. destruct (i_det_storage st) eqn:Hd; cbn [stop_size min_size] in Hlen.
    + reflexivity.
    + cbn [bind]. rewrite (Hse Hlen). reflexivity.
  - destruct (i_det_serial st) eqn:Hd; cbn [stop_size min_size] in Hlen.
    + cbn [bind]. rewrite Hok, (Hse Hlen). reflexivity.
    + rewrite Hok. cbn [bind]. rewrite (Hse Hlen). reflexivity.
Qed.

Definition accept_cond (f : framing) (a : amsg) (rest : bytes) : Prop :=
  blen rest < 4 \/ own_pat f rest = true \/
  forall i, (5 <= i < length (enc f a))%nat -> own_pat f (skipn i (enc f a ++ rest)) = false.

Lemma enc_length_nat f a : N.of_nat (length (enc f a)) = (match f with Storage => 16 | Serial => 4 end) + a_len a.
Proof. exact (enc_length f a). Qed.

Lemma turn_msg f fuel st a rest :
  st_ok f st -> wf_amsg a -> i_index st + 1 <= u32max -> accept_cond f a rest ->
  next (S fuel) st (enc f a ++ rest) = Ok (Some (expect f (i_index st) a), st_yield f st a, rest).
Proof.
  intros Hok Hwf Hidx Hacc. unfold next. rewrite next_S. unfold storage_half, serial_half.
  pose proof (enc_length_nat f a) as Hel.
  assert (Hadd : add_chk u32max (i_index st) 1 = Ok (i_index st + 1)).
  { unfold add_chk. destruct (N.leb_spec (i_index st + 1) u32max); [reflexivity|lia]. }
  destruct f; cbn [st_ok own_detected enc expect own_pat] in *.
  - rewrite Hok.
    rewrite (parse_storage_enc (i_index st) a rest Hwf).
    + unfold on_msg. rewrite Hadd. cbn [bind].
      rewrite (skipn_app_exact (enc_storage a) rest) by lia.
      unfold st_yield. rewrite enc_length. reflexivity.
    + destruct Hacc as [H|[H|H]]; [left; exact H|right; left; exact H|right; right].
      intros i Hi. apply H. cbn [enc]. lia.
  - assert (Hser : parse_serial (i_index st) (enc_serial a ++ rest) = PMsg (4 + a_len a) (expect_serial (i_index st) a)).
    { apply (parse_serial_enc (i_index st) a rest Hwf).
      destruct Hacc as [H|[H|H]]; [left; exact H|right; left; exact H|right; right].
      intros i Hi. apply H. cbn [enc]. lia. }
    assert (Hfin : (a2 <- match parse_serial (i_index st) (enc_serial a ++ rest) with
                          | PMsg n m => on_msg false st n m
                          | PInvalid => Ok (ASkip (skip1 st))
                          | PNotEnough _ => Ok AStop
                          end ;;
                    match a2 with
                    | AYield n m st' => Ok (Some m, st', skipn (N.to_nat n) (enc_serial a ++ rest))
                    | ASkip st' => next_l false fuel st' (skipn 1 (enc_serial a ++ rest))
                    | APass => next_l false fuel st (enc_serial a ++ rest)
                    | AStop => Ok (None, st, enc_serial a ++ rest)
                    end)%res = Ok (Some (expect_serial (i_index st) a), st_yield Serial st a, rest)).
    { rewrite Hser. unfold on_msg. rewrite Hadd. cbn [bind].
      rewrite (skipn_app_exact (enc_serial a) rest) by lia.
      unfold st_yield. rewrite enc_length. reflexivity. }
    destruct (i_det_serial st) eqn:Hd.
    + cbn [bind]. rewrite Hok. exact Hfin.
    + assert (Ha : storage_half false st (enc_serial a ++ rest) = Ok APass).
      { destruct (N.lt_ge_cases (blen (enc_serial a ++ rest)) 20) as [Hs|Hs].
        - rewrite (storage_half_short _ _ Hs), Hok. reflexivity.
        - rewrite (storage_half_nopat _ _ Hs (is_storage_pat_enc_serial a rest)), Hok. reflexivity. }
      unfold storage_half in Ha.
      rewrite Ha. cbn [bind]. rewrite Hok. exact Hfin.
Qed.

(* ---------------------------------------------------------------- runs over garbage *)
Lemma st_ok_skip1 f st : st_ok f st -> st_ok f (skip1 st).
Proof. destruct f; exact (fun H => H). Qed.
Lemma own_detected_skip1 f st : own_detected f (skip1 st) = own_detected f st.
Proof. destruct f; reflexivity. Qed.
Lemma st_ok_skip_by f k st : st_ok f st -> st_ok f (skip_by k st).
Proof. destruct f; exact (fun H => H). Qed.
Lemma own_detected_skip_by f k st : own_detected f (skip_by k st) = own_detected f st.
Proof. destruct f; reflexivity. Qed.

Lemma skip_run f : forall g fuel st R,
  st_ok f st ->
  (forall i, (i < length g)%nat -> nomark (skipn i (g ++ R))) ->
  stop_size f (own_detected f st) <= blen R ->
  next (length g + fuel) st (g ++ R) = next fuel (skip_by (blen g) st) R.
Proof.
  induction g as [|x g IH]; intros fuel st R Hok Hfree Hlen.
  - cbn [length app plus]. change (blen []) with 0. rewrite skip_by_0. reflexivity.
  - cbn [length plus]. rewrite (turn_skip f).
    + cbn [app skipn]. rewrite IH.
      * rewrite skip_by_skip1. f_equal. unfold blen. cbn [length]. f_equal. lia.
      * apply st_ok_skip1; exact Hok.
      * intros i Hi. exact (Hfree (S i) ltac:(cbn [length]; lia)).
      * rewrite own_detected_skip1. exact Hlen.
    + exact Hok.
    + exact (Hfree 0%nat ltac:(cbn [length]; lia)).
    + rewrite blen_app. lia.
Qed.

(* what stays unconsumed of a trailing garbage run: drop bytes until fewer than m remain *)
Fixpoint tail_of (m : N) (g : bytes) : bytes :=
  match g with
  | [] => []
  | _ :: t => if blen g <? m then g else tail_of m t
  end.

Lemma tail_of_le m g : blen (tail_of m g) <= blen g.
Proof.
  induction g as [|x g IH]; cbn [tail_of]; [lia|].
  destruct (blen (x :: g) <? m); [lia|]. unfold blen in *. cbn [length]. lia.
Qed.
Lemma tail_of_short m g : 0 < m -> blen (tail_of m g) < m.
Proof.
  intros Hm. induction g as [|x g IH]; cbn [tail_of]; [exact Hm|].
  destruct (N.ltb_spec (blen (x :: g)) m); [assumption|exact IH].
Qed.
Lemma tail_of_suffix m g : exists pre, g = pre ++ tail_of m g.
Proof.
  induction g as [|x g [pre IH]]; cbn [tail_of]; [exists []; reflexivity|].
  destruct (blen (x :: g) <? m); [exists []; reflexivity|]. exists (x :: pre). cbn [app]. f_equal. exact IH.
Qed.
(* exact size: everything when the run is shorter than m, else m - 1 bytes *)
Lemma tail_of_length m g : 0 < m -> blen (tail_of m g) = N.min (blen g) (m - 1).
Proof.
  intros Hm. induction g as [|x g IH]; cbn [tail_of]; [unfold blen; cbn; lia|].
  destruct (N.ltb_spec (blen (x :: g)) m) as [H|H]; [lia|].
  rewrite IH. unfold blen in *. cbn [length] in *. lia.
Qed.

Lemma final_run f : forall g fuel st,
  st_ok f st ->
  (forall i, (i < length g)%nat -> nomark (skipn i g)) ->
  (length g < fuel)%nat ->
  let tail := tail_of (stop_size f (own_detected f st)) g in
  next fuel st g = Ok (None, skip_by (blen g - blen tail) st, tail).
Proof.
  induction g as [|x g IH]; intros fuel st Hok Hfree Hfuel; cbv zeta.
  - destruct fuel as [|fuel]; [cbn in Hfuel; lia|].
    rewrite (turn_stop f); [|exact Hok|pose proof (stop_size_ge8 f (own_detected f st)); unfold blen; cbn [length]; lia].
    cbn [tail_of]. change (blen []) with 0. cbn. rewrite skip_by_0. reflexivity.
  - destruct fuel as [|fuel]; [cbn in Hfuel; lia|].
    cbn [tail_of].
    destruct (N.ltb_spec (blen (x :: g)) (stop_size f (own_detected f st))) as [Hs|Hs].
    + rewrite (turn_stop f _ _ _ Hok Hs). rewrite N.sub_diag, skip_by_0. reflexivity.
    + rewrite (turn_skip f _ _ _ Hok (Hfree 0%nat ltac:(cbn [length]; lia)) Hs).
      cbn [skipn].
      specialize (IH fuel (skip1 st) (st_ok_skip1 f st Hok)).
      rewrite own_detected_skip1 in IH. cbv zeta in IH. rewrite IH.
      * rewrite skip_by_skip1.
        assert (E : blen g - blen (tail_of (stop_size f (own_detected f st)) g) + 1
                    = blen (x :: g) - blen (tail_of (stop_size f (own_detected f st)) g)).
        { pose proof (tail_of_le (stop_size f (own_detected f st)) g). unfold blen in *. cbn [length]. lia. }
        rewrite E. reflexivity.
      * intros i Hi. exact (Hfree (S i) ltac:(cbn [length]; lia)).
      * cbn [length] in Hfuel. lia.
Qed.

(* ---------------------------------------------------------------- streams *)
Definition seg := (bytes * amsg)%type.   (* garbage run in front of a message, the message *)
Fixpoint stream (f : framing) (segs : list seg) (gfin : bytes) : bytes :=
  match segs with
  | [] => gfin
  | (g, a) :: r => g ++ enc f a ++ stream f r gfin
  end.
Fixpoint expect_list (f : framing) (idx : N) (segs : list seg) : list msg :=
  match segs with
  | [] => []
  | (_, a) :: r => expect f idx a :: expect_list f (idx + 1) r
  end.
Fixpoint garbage_total (segs : list seg) : N :=
  match segs with [] => 0 | (g, _) :: r => blen g + garbage_total r end.
(* offsets at which the messages start, for a stream that begins at offset off *)
Fixpoint starts (f : framing) (off : nat) (segs : list seg) : list nat :=
  match segs with
  | [] => []
  | (g, a) :: r => (off + length g)%nat :: starts f (off + length g + length (enc f a)) r
  end.

(* local form of the hypothesis: no marker starts inside a garbage run, and every message passes the
   next-marker heuristic (followed by < 4 bytes, by a marker, or free of markers at offsets 5 .. end-1) *)
Fixpoint clean (f : framing) (segs : list seg) (gfin : bytes) : Prop :=
  match segs with
  | [] => forall i, (i < length gfin)%nat -> nomark (skipn i gfin)
  | (g, a) :: r =>
      let R := enc f a ++ stream f r gfin in
      (forall i, (i < length g)%nat -> nomark (skipn i (g ++ R))) /\
      accept_cond f a (stream f r gfin) /\
      clean f r gfin
  end.

Definition nonempty {A} (l : list A) : bool := match l with [] => false | _ => true end.

Lemma st_ok_yield f st a : st_ok f st -> st_ok f (st_yield f st a).
Proof. destruct f; exact (fun H => H). Qed.
Lemma own_detected_yield f st a : own_detected f (st_yield f st a) = true.
Proof. destruct f; reflexivity. Qed.

Lemma min_size_le_enc f a : min_size f <= blen (enc f a).
Proof. rewrite enc_length. pose proof (a_hs_bounds a). unfold a_len. destruct f; cbn [min_size]; lia. Qed.

Lemma drain_stream f : forall segs gfin st fuel nfuel,
  st_ok f st -> clean f segs gfin -> Forall (fun s => wf_amsg (snd s)) segs ->
  i_index st + N.of_nat (length segs) <= u32max ->
  (length segs < fuel)%nat -> (length (stream f segs gfin) < nfuel)%nat ->
  let tail := tail_of (stop_size f (own_detected f st || nonempty segs)) gfin in
  exists st',
    drain_fuel fuel nfuel st (stream f segs gfin) = Ok (expect_list f (i_index st) segs, st', tail) /\
    i_index st' = i_index st + N.of_nat (length segs) /\
    i_processed st' + blen tail = i_processed st + blen (stream f segs gfin) /\
    i_skipped st' + blen tail = i_skipped st + garbage_total segs + blen gfin /\
    st_ok f st' /\ own_detected f st' = own_detected f st || nonempty segs.
Proof.
  induction segs as [|[g a] r IH]; intros gfin st fuel nfuel Hok Hclean Hwf Hidx Hfuel Hnfuel; cbv zeta.
  - cbn [stream nonempty expect_list garbage_total length] in *. rewrite orb_false_r.
    destruct fuel as [|fuel]; [lia|].
    unfold drain_fuel, drain_l. cbn [drain_gen]. fold (next_l false). fold next.
    pose proof (final_run f gfin nfuel st Hok Hclean Hnfuel) as Hrun. cbv zeta in Hrun. rewrite Hrun. cbn [bind].
    eexists. split; [reflexivity|].
    pose proof (tail_of_le (stop_size f (own_detected f st)) gfin) as Hle.
    cbn [skip_by i_index i_processed i_skipped].
    repeat split; try lia; try (apply st_ok_skip_by; exact Hok); try apply own_detected_skip_by.
  - cbn [stream nonempty expect_list garbage_total length] in *. rewrite orb_true_r.
    destruct Hclean as (Hg & Hm & Hr).
    inversion Hwf as [|? ? Hwa Hwr]; subst. cbn [snd] in Hwa.
    destruct fuel as [|fuel]; [lia|].
    set (R := stream f r gfin) in *.
    assert (Hlen : length (g ++ enc f a ++ R) = (length g + (length (enc f a) + length R))%nat)
      by (rewrite !app_length; reflexivity).
    unfold drain_fuel, drain_l. cbn [drain_gen]. fold (next_l false). fold next. fold (drain_l false). fold drain_fuel.
    replace nfuel with (length g + (nfuel - length g))%nat by lia.
    rewrite (skip_run f g _ st (enc f a ++ R) Hok Hg).
    2:{ rewrite blen_app. pose proof (stop_size_le_min f (own_detected f st)). pose proof (min_size_le_enc f a). lia. }
    destruct (nfuel - length g)%nat as [|nf] eqn:Hnf; [lia|].
    rewrite (turn_msg f nf (skip_by (blen g) st) a R).
    + cbn [bind].
      specialize (IH gfin (st_yield f (skip_by (blen g) st) a) fuel (length g + S nf)%nat).
      destruct IH as (st' & Hd & Hi & Hp & Hs & Hok' & Hdet).
      * apply st_ok_yield, st_ok_skip_by; exact Hok.
      * exact Hr.
      * exact Hwr.
      * cbn [st_yield skip_by i_index]. lia.
      * lia.
      * fold R. lia.
      * rewrite own_detected_yield in Hd, Hp, Hs. cbn [orb] in Hd, Hp, Hs.
        fold R in Hd. rewrite Hd. cbn [bind].
        exists st'. split; [reflexivity|].
        cbn [st_yield skip_by i_index i_processed i_skipped] in Hi, Hp, Hs.
        fold R in Hp. rewrite !blen_app.
        repeat split; try lia; [exact Hok'|]. rewrite Hdet, own_detected_yield. reflexivity.
    + apply st_ok_skip_by; exact Hok.
    + exact Hwa.
    + cbn [skip_by i_index]. lia.
    + exact Hm.
Qed.

(* ---------------------------------------------------------------- global form of the marker hypothesis *)
Definition any_marker (l : bytes) : bool := is_storage_pat l || is_serial_pat l.
(* neither frame marker occurs anywhere except at the start of each message *)
Definition markers_only_at_starts (f : framing) (segs : list seg) (gfin : bytes) : Prop :=
  forall i, any_marker (skipn i (stream f segs gfin)) = true -> In i (starts f 0 segs).
Definition markers_only_at_startsb (f : framing) (segs : list seg) (gfin : bytes) : bool :=
  let s := stream f segs gfin in
  forallb (fun i => negb (any_marker (skipn i s)) || existsb (Nat.eqb i) (starts f 0 segs)) (seq 0 (length s)).

Lemma markers_only_at_startsb_sound f segs gfin :
  markers_only_at_startsb f segs gfin = true -> markers_only_at_starts f segs gfin.
Proof.
  unfold markers_only_at_startsb, markers_only_at_starts. intros H i Hm.
  rewrite forallb_forall in H.
  destruct (Nat.lt_ge_cases i (length (stream f segs gfin))) as [Hi|Hi].
  - specialize (H i ltac:(apply in_seq; lia)). rewrite Hm in H. cbn [negb orb] in H.
    apply existsb_exists in H. destruct H as (j & Hj & E). apply Nat.eqb_eq in E. subst j. exact Hj.
  - rewrite skipn_all2 in Hm by lia. discriminate.
Qed.

Lemma nomark_of_no_marker l : any_marker l = false -> nomark l.
Proof. unfold any_marker, nomark. apply orb_false_iff. Qed.

Lemma starts_ge f : forall segs off x, In x (starts f off segs) -> (off <= x)%nat.
Proof.
  induction segs as [|[g a] r IH]; intros off x Hin; cbn [starts] in Hin; [contradiction|].
  destruct Hin as [E|Hin]; [lia|]. apply IH in Hin. lia.
Qed.

Lemma skipn_app_plus {A} (a b : list A) i : skipn (length a + i) (a ++ b) = skipn i b.
Proof.
  rewrite skipn_app. rewrite skipn_all2 by lia. replace (length a + i - length a)%nat with i by lia. reflexivity.
Qed.

Lemma enc_length_pos f a : (8 <= length (enc f a))%nat.
Proof. pose proof (min_size_le_enc f a) as H. unfold blen in H. destruct f; cbn [min_size] in H; lia. Qed.

Lemma clean_of_markers f : forall segs gfin off,
  (forall i, any_marker (skipn i (stream f segs gfin)) = true -> In (off + i)%nat (starts f off segs)) ->
  clean f segs gfin.
Proof.
  induction segs as [|[g a] r IH]; intros gfin off H; cbn [clean stream starts] in *.
  - intros i _. apply nomark_of_no_marker. destruct (any_marker (skipn i gfin)) eqn:E; [|reflexivity].
    destruct (H i E).
  - pose proof (enc_length_pos f a) as Hpos.
    split; [|split].
    + intros i Hi. apply nomark_of_no_marker.
      destruct (any_marker (skipn i (g ++ enc f a ++ stream f r gfin))) eqn:E; [|reflexivity].
      apply H in E. destruct E as [E|E]; [lia|]. apply starts_ge in E. lia.
    + right; right. intros i Hi.
      assert (Hn : nomark (skipn i (enc f a ++ stream f r gfin))).
      { apply nomark_of_no_marker.
        destruct (any_marker (skipn i (enc f a ++ stream f r gfin))) eqn:E; [|reflexivity].
        rewrite <- (skipn_app_plus g) in E. apply H in E. destruct E as [E|E]; [lia|]. apply starts_ge in E. lia. }
      destruct Hn as [H1 H2]. destruct f; assumption.
    + apply (IH gfin (off + length g + length (enc f a))%nat). intros i E.
      rewrite <- (skipn_app_plus (enc f a)), <- (skipn_app_plus g) in E. apply H in E.
      destruct E as [E|E]; [lia|].
      replace (off + length g + length (enc f a) + i)%nat with (off + (length g + (length (enc f a) + i)))%nat by lia.
      exact E.
Qed.

(* ---------------------------------------------------------------- the recovery theorem *)
Theorem iter_recovers_all f start (segs : list seg) gfin :
  Forall (fun s => wf_amsg (snd s)) segs ->
  markers_only_at_starts f segs gfin ->
  start + N.of_nat (length segs) <= u32max ->
  exists st tail,
    run_iter start (stream f segs gfin) = Ok (expect_list f start segs, st, tail) /\
    (exists consumed, gfin = consumed ++ tail) /\
    blen tail < min_size f /\
    i_index st = start + N.of_nat (length segs) /\
    i_skipped st + blen tail = garbage_total segs + blen gfin /\
    i_processed st + blen tail = blen (stream f segs gfin) /\
    i_processed st <= blen (stream f segs gfin).
Proof.
  intros Hwf Hmark Hidx.
  assert (Hclean : clean f segs gfin).
  { apply (clean_of_markers f segs gfin 0%nat). intros i E. cbn [plus]. apply Hmark; exact E. }
  assert (Hlen : (length segs <= length (stream f segs gfin))%nat).
  { clear. induction segs as [|[g a] r IH]; cbn [stream length]; [lia|].
    rewrite !app_length. pose proof (enc_length_pos f a). lia. }
  destruct (drain_stream f segs gfin (ist_new start) (S (length (stream f segs gfin))) (S (length (stream f segs gfin))))
    as (st & Hd & Hi & Hp & Hs & _ & _).
  - destruct f; reflexivity.
  - exact Hclean.
  - exact Hwf.
  - exact Hidx.
  - apply Nat.lt_succ_r. exact Hlen.
  - apply Nat.lt_succ_diag_r.
  - cbn [ist_new i_index i_processed i_skipped] in *.
    set (tail := tail_of (stop_size f (own_detected f (ist_new start) || nonempty segs)) gfin) in *.
    exists st, tail. split; [exact Hd|].
    split; [apply tail_of_suffix|].
    split.
    { pose proof (stop_size_le_min f (own_detected f (ist_new start) || nonempty segs)) as H1.
      pose proof (stop_size_ge8 f (own_detected f (ist_new start) || nonempty segs)) as H2.
      pose proof (tail_of_short (stop_size f (own_detected f (ist_new start) || nonempty segs)) gfin ltac:(lia)) as H3.
      fold tail in H3. lia. }
    repeat split; lia.
Qed.

(* the legacy (pre-repair) loop differs only while nothing is latched and fewer than 20 bytes remain *)
Definition tiny_serial_witness : bytes := [68; 76; 83; 1; 32; 7; 0; 7; 97; 98; 99].

(* a linear-time check of the marker hypothesis (for long example streams) *)
Fixpoint marker_positions (off : nat) (l : bytes) : list nat :=
  match l with
  | [] => []
  | _ :: t => (if any_marker l then [off] else []) ++ marker_positions (S off) t
  end.
Definition markers_only_at_starts_lin (f : framing) (segs : list seg) (gfin : bytes) : bool :=
  forallb (fun p => existsb (Nat.eqb p) (starts f 0 segs)) (marker_positions 0 (stream f segs gfin)).

Lemma marker_positions_complete : forall l off i,
  any_marker (skipn i l) = true -> In (off + i)%nat (marker_positions off l).
Proof.
  induction l as [|x t IH]; intros off i H.
  - destruct i; discriminate.
  - cbn [marker_positions]. apply in_or_app. destruct i as [|i].
    + left. cbn [skipn] in H. rewrite H. left. lia.
    + right. cbn [skipn] in H. replace (off + S i)%nat with (S off + i)%nat by lia. apply IH; exact H.
Qed.

Lemma markers_only_at_starts_lin_sound f segs gfin :
  markers_only_at_starts_lin f segs gfin = true -> markers_only_at_starts f segs gfin.
Proof.
  unfold markers_only_at_starts_lin, markers_only_at_starts. intros H i Hm.
  rewrite forallb_forall in H.
  specialize (H i (marker_positions_complete _ 0%nat i Hm)).
  apply existsb_exists in H. destruct H as (j & Hj & E). apply Nat.eqb_eq in E. subst j. exact Hj.
Qed.

(* /repo commit 9045554: an incomplete storage-header message (valid header, at least 20 bytes in view, fewer bytes
   than its length field announces) stops the iterator whether or not the storage framing is latched -- what is
   recognised in the bytes behind it does not depend on a message having preceded them *)
Lemma incomplete_storage_frame_stops fuel st d k :
  i_det_serial st = false -> 20 <= blen d -> parse_storage (i_index st) d = PNotEnough k ->
  next (S fuel) st d = Ok (None, st, d).
Proof.
  intros Hs Hl Hp. unfold next. rewrite next_S, Hs. unfold storage_half. rewrite Hp.
  unfold MIN_DLT_MSG_SIZE. destruct (N.leb_spec 20 (blen d)) as [_|Hc]; [|lia].
  rewrite orb_true_r. reflexivity.
Qed.
