(* Model of the places INSIDE the crate that build a DLT message around a payload they encoded themselves
   (C18: "encoding ... and decoding yields the same arguments" includes the crate's own producers: the
   standard header's MSBF flag of the built message must describe the byte order the payload was written in).

   - src/plugins/export.rs      `ExportPlugin::get_info_msg`, the info messages of `get_export_file`
                                (payload from `dlt_args!` = host order; flag = cfg!(target_endian = "big"))
   - src/utils/blf2dltmsgiterator.rs   `msg_from_object`, `ObjectTypes::AppText65` (text cut to what fits a message,
                                payload from `dlt_args!`; const HTYP)
   - src/plugins/anonymize.rs   `payload_anon` (verbose: one UTF-8 string written with `to_endian_vec!` in the order
                                of the message, flag kept; non-verbose: message id kept + reception time in ms as u64)
   - src/utils/logcat2dltmsgiterator.rs, genlog2dltmsgiterator.rs   the log message of a text line (verbose,
                                noar 0, empty payload, text cached) and `get_apid_info_msg`
   - src/utils/asc2dltmsgiterator.rs   CAN / CANFD frames (frame id `to_ne_bytes` + data) and the BusMapping info message
   The host is little endian ([host_be] of Dlt/Args.v).  A built message is reduced to what the argument
   iterator and `payload_as_text` read: the two flags, noar, the payload.
   No proofs in this file (proofs: Dlt/ProducersProofs.v). *)
From Coq Require Import List NArith Bool.
From AdltV Require Import Base.Res Base.MachInt Dlt.Args Dlt.Text.
Import ListNotations.
Open Scope N_scope.

Record bmsg := { m_be : bool; m_verbose : bool; m_noar : N; m_payload : bytes }.

(* what a reader of the built message decodes: the iterator is created from the message's OWN flags *)
Definition bmsg_args (m : bmsg) : res (list arg) := msg_args (m_verbose m) (m_be m) (m_payload m).

(* `dlt_args!(..).unwrap_or_default()` : (0, vec![]) on an error; noar is a u8 *)
Definition dlt_args_or_default (vals : list sval) : N * bytes :=
  match dlt_args vals with
  | SOk (n, p) => (trunc 8 n, p)
  | SErr _ => (0, [])
  end.

(* ---- ExportPlugin::get_info_msg(mcnt, from_msg, noar, payload): time stamps and ecu are taken from the
   message that triggered the export, the byte-order flag is the HOST's (the payload comes from dlt_args!) *)
Definition export_get_info_msg (from_be : bool) (noar : N) (payload : bytes) : bmsg :=
  {| m_be := host_be; m_verbose := true; m_noar := noar; m_payload := payload |}.
(* first info message ("File created by adlt v.. on ..") : written whatever dlt_args! returned *)
Definition export_created_msg (from_be : bool) (text : bytes) : bmsg :=
  let np := dlt_args_or_default [SStr text] in export_get_info_msg from_be (fst np) (snd np).
(* one entry of `infoTexts`: skipped when empty, when the serializer refused it, or when the message would not fit
   the 16-bit length of the standard header (4 + timestamp 4 + extended header 10 + payload) *)
Definition INFO_HDR_LEN : N := 18.
Definition export_info_text_msg (from_be : bool) (text : bytes) : option bmsg :=
  if plen text =? 0 then None
  else
    let np := dlt_args_or_default [SStr text] in
    if (0 <? fst np) && (INFO_HDR_LEN + plen (snd np) <=? 65535)
    then Some (export_get_info_msg from_be (fst np) (snd np)) else None.
Definition opt_list {A} (o : option A) : list A := match o with Some a => [a] | None => [] end.
(* get_export_file: everything written in front of the first exported message *)
Definition export_info_msgs (from_be : bool) (created : bytes) (texts : list bytes) : list bmsg :=
  export_created_msg from_be created :: flat_map (fun t => opt_list (export_info_text_msg from_be t)) texts.

(* ---- BLF2DltMsgIterator::msg_from_object, AppText65: the text (already decoded lossily by ablf, hence valid
   UTF-8) is cut at a char boundary to what fits a DLT message, then `dlt_args!(&text[..n]).unwrap()` *)
Definition site_blf_unwrap : N := 1803.
Definition LEN_WO_PAYLOAD : N := 22.   (* 4 + 4 (ecu) + 4 (timestamp) + 10 *)
(* `while !text.is_char_boundary(k) { k -= 1 }` for 0 < k < len: a byte 0x80..0xBF continues a character *)
Fixpoint char_boundary_le (s : bytes) (k : nat) : nat :=
  match k with
  | O => O
  | S k' => if is_cont (nth k s 0) then char_boundary_le s k' else k
  end.
Definition BLF_TEXT_MAX : N := 65535 - LEN_WO_PAYLOAD - 7.
Definition blf_cut (text : bytes) : bytes :=
  if plen text <=? BLF_TEXT_MAX then text else firstn (char_boundary_le text (N.to_nat BLF_TEXT_MAX)) text.
Definition blf_apptext_msg (text : bytes) : res bmsg :=
  match dlt_args [SStr (blf_cut text)] with
  | SOk (n, p) => Ok {| m_be := host_be; m_verbose := true; m_noar := trunc 8 n; m_payload := p |}
  | SErr _ => Panic site_blf_unwrap
  end.

(* ---- AnonymizePlugin::payload_anon on a message that is neither a control request nor a response *)
Definition s_anon : bytes :=  (* "--anon,reception_time:" *)
  [45; 45; 97; 110; 111; 110; 44; 114; 101; 99; 101; 112; 116; 105; 111; 110; 95; 116; 105; 109; 101; 58].
Definition anon_text (reception_time_us : N) : bytes := s_anon ++ dec (reception_time_us / 1000) ++ [109; 115].
Definition anon_msg (m : bmsg) (reception_time_us : N) : bmsg :=
  if m_verbose m then
    let t := anon_text reception_time_us in
    {| m_be := m_be m; m_verbose := true; m_noar := m_noar m;   (* noar is left as it was *)
       m_payload := word_bytes (m_be m) 4 (N.lor TI_STRG SCOD_UTF8)
                    ++ word_bytes (m_be m) 2 (trunc 16 (plen t + 1)) ++ t ++ [0] |}
  else if 4 <=? plen (m_payload m) then
    {| m_be := m_be m; m_verbose := false; m_noar := m_noar m;
       m_payload := firstn 4 (m_payload m) ++ word_bytes (m_be m) 8 (trunc 64 (reception_time_us / 1000)) |}
  else m.

(* ---- text converters (logcat .txt, generic .log): the log message of a line *)
Definition textline_log_msg : bmsg := {| m_be := host_be; m_verbose := true; m_noar := 0; m_payload := [] |}.
(* get_apid_info_msg / the BusMapping message of the asc converter: GET_LOG_INFO response, status 7, one
   application id with its description, everything `to_ne_bytes` *)
Definition apid_info_msg (apid : bytes) (desc : bytes) : bmsg :=
  let d := firstn (N.to_nat (65535 - LEN_WO_PAYLOAD - 15)) desc in
  {| m_be := host_be; m_verbose := false; m_noar := 2;
     m_payload := word_bytes host_be 4 3 ++ [7] ++ word_bytes host_be 2 1 ++ apid ++ word_bytes host_be 2 0
                  ++ word_bytes host_be 2 (trunc 16 (plen d)) ++ d |}.
(* asc: a CAN / CANFD frame *)
Definition can_frame_msg (frame_id : N) (data : bytes) : bmsg :=
  {| m_be := host_be; m_verbose := false; m_noar := 2;
     m_payload := firstn (N.to_nat (65535 - LEN_WO_PAYLOAD)) (word_bytes host_be 4 frame_id ++ data) |}.
