(* The iterator as the crate wires it -- DltMessageIterator over LowMarkBufReader (model: Reader/LowMark.v, the
   reader of property C04) -- over a source that delivers its bytes in ARBITRARY slices (scripted short reads:
   pipe, socket, any slicing `Read`), on a stream whose frame markers sit only at the message starts:
   for every read-size schedule, every capacity >= low + 4096 and every low mark >= 16 + 65535 the run recovers
   exactly the messages (IterProofs.iter_recovers_all), i.e. C01's clause does not depend on how the stream is
   read.  This is the instance of IterReader.iter_recovers_all_any_reader for the concrete reader; it is obtained
   with C04's simulation lemma (ChunkProofs.drain_sim) from the reader's look-ahead guarantee
   (LowMarkProofs.fill_buf_spec: fill_buf shows >= low_mark bytes or everything up to the end, whatever the
   source's read sizes were) and IterReader.stream_stable (on such a stream both parsers answer on every such
   window what they answer on the whole rest).
   (C04's iter_chunk_independent needs low >= 65555 because it covers arbitrary streams; the call sites of the
   crate that pass DLT_MAX_STORAGE_MSG_SIZE = 65551 are covered by the theorem below.) *)
From Coq Require Import List NArith Bool Lia Arith.
From AdltV Require Import Base.Res Base.MachInt Dlt.Frame Dlt.FrameProofs Dlt.Iter Dlt.IterProofs Dlt.IterTotal
  Dlt.IterReader Reader.LowMark Reader.LowMarkSpec Reader.LowMarkProofs Dlt.Chunk Dlt.ChunkProofs.
Import ListNotations.
Open Scope N_scope.

(* a window admissible for a stable rest makes both halves of the loop behave as on the whole rest *)
Lemma half_equiv_window low d w :
  MIN_DLT_MSG_SIZE <= low -> stable low d -> window_ok low d w -> half_equiv w d.
Proof.
  intros Hmin Hs Hw st. destruct (Hs (i_index st) w Hw) as [E1 E2].
  unfold storage_half, serial_half. rewrite E1, E2.
  assert (Hav : (MIN_DLT_MSG_SIZE <=? blen w) = (MIN_DLT_MSG_SIZE <=? blen d)).
  { destruct Hw as [[e He] [Hl|Hl]]; [|rewrite Hl; reflexivity].
    assert (Hd : blen w <= blen d) by (pose proof (f_equal blen He) as Hb; rewrite blen_app in Hb; lia).
    destruct (N.leb_spec MIN_DLT_MSG_SIZE (blen w)); destruct (N.leb_spec MIN_DLT_MSG_SIZE (blen d)); try reflexivity; lia. }
  rewrite Hav. split; reflexivity.
Qed.

Section Scheduled.
  Variable S : list N.               (* the whole byte string of the source *)
  Variable low : N.
  Hypothesis low_ge_min : MIN_DLT_MSG_SIZE <= low.
  Hypothesis S_stable : forall k, stable low (skipn k S).

  Definition rel_s (r : reader) (d : bytes) : Prop :=
    Inv S r /\ r_low r = low /\ d = ndrop (stream_pos r) S.

  Lemma rd_fill_rel_s a b : rel_s a b ->
    rel_s (fst (rd_fill a)) (fst (cursor_fill b)) /\ half_equiv (snd (rd_fill a)) (snd (cursor_fill b)) /\
    (forall n, 1 <= n <= blen (snd (rd_fill a)) ->
               rel_s (rd_consume n (fst (rd_fill a))) (cursor_consume n (fst (cursor_fill b)))).
  Proof.
    intros [HI [Hlow Hb]]. subst b.
    destruct (fill_buf_spec S a HI) as [r' [E [HI' [Hsp [Hla [_ [Hl' _]]]]]]].
    unfold rd_fill. rewrite E. unfold cursor_fill. cbn [fst snd].
    pose proof (window_spec S r' HI') as Hw. pose proof (window_len S r' HI') as Hwl.
    split; [|split].
    - split; [exact HI'|]. split; [lia|]. rewrite Hsp. reflexivity.
    - apply (half_equiv_window low); [exact low_ge_min|apply S_stable|].
      rewrite <- Hsp. split.
      + exists (ndrop (r_cap r' - r_pos r') (ndrop (stream_pos r') S)). rewrite Hw. symmetry. apply ntake_ndrop_cat.
      + destruct Hla as [Hla|Hla]; [left; change (blen (window r')) with (nlen (window r')); lia|right].
        rewrite Hw. apply ntake_all. rewrite nlen_ndrop.
        rewrite (inv_rest S r' HI') in Hla. apply (f_equal nlen) in Hla. rewrite nlen_ndrop in Hla. cbn in Hla.
        pose proof (inv_end S r' HI'). pose proof (inv_pos S r' HI'). unfold stream_pos. lia.
    - intros n Hn. change (blen (window r')) with (nlen (window r')) in Hn. rewrite Hwl in Hn.
      pose proof (inv_pos S r' HI'). pose proof (inv_cap S r' HI'). pose proof (inv_usz S r' HI').
      destruct (consume_spec S r' n HI' ltac:(lia)) as [r'' [E2 [HI'' [Hsp2 [_ [Hl2 _]]]]]].
      unfold rd_consume. rewrite E2. split; [exact HI''|]. split; [lia|].
      unfold cursor_consume. change (skipn (N.to_nat n) (ndrop (stream_pos a) S)) with (ndrop n (ndrop (stream_pos a) S)).
      rewrite ndrop_ndrop, Hsp2, Hsp. f_equal. lia.
  Qed.

  Lemma drain_rd_cursor_s fuel nfuel st r :
    Inv S r -> r_low r = low ->
    match drain_rd fuel nfuel st r with
    | Ok (ms, st', r') => drain_fuel fuel nfuel st (ndrop (stream_pos r) S) = Ok (ms, st', ndrop (stream_pos r') S)
    | Panic s => drain_fuel fuel nfuel st (ndrop (stream_pos r) S) = Panic s
    | OutOfFuel => drain_fuel fuel nfuel st (ndrop (stream_pos r) S) = OutOfFuel
    end.
  Proof.
    intros HI Hlow.
    pose proof (drain_sim reader bytes rd_fill rd_consume cursor_fill cursor_consume rel_s rd_fill_rel_s
                  fuel nfuel st r (ndrop (stream_pos r) S) (conj HI (conj Hlow eq_refl))) as H.
    unfold drain_rd, drain_fuel, drain_l.
    destruct (drain_gen reader rd_fill rd_consume false fuel nfuel st r) as [[[ms st'] r']|s|];
      destruct (drain_gen bytes cursor_fill cursor_consume false fuel nfuel st (ndrop (stream_pos r) S)) as [[[ms2 st2] d']|s2|];
      cbn [res_rel] in H; try contradiction.
    - destruct H as [Ho [_ [_ Hd]]]. inversion Ho; subst. reflexivity.
    - subst. reflexivity.
    - reflexivity.
  Qed.
End Scheduled.

(* the recovery theorem for the crate's wiring under every read-size schedule *)
Theorem iter_recovers_all_scheduled f start (segs : list seg) gfin (sched : list N) capacity low :
  MAX_STORAGE_MSG <= low -> low + CACHE_LINE_SIZE <= capacity -> capacity <= usizemax ->
  nlen (stream f segs gfin) <= usizemax ->
  Forall (fun s => wf_amsg (snd s)) segs ->
  markers_only_at_starts f segs gfin ->
  start + N.of_nat (length segs) <= u32max ->
  exists st r',
    run_iter_rd start capacity low (stream f segs gfin) sched = Ok (expect_list f start segs, st, r') /\
    let tail := ndrop (stream_pos r') (stream f segs gfin) in   (* what the reader has not handed out *)
    (exists consumed, gfin = consumed ++ tail) /\
    blen tail < min_size f /\
    i_index st = start + N.of_nat (length segs) /\
    i_skipped st + blen tail = garbage_total segs + blen gfin /\
    i_processed st + blen tail = blen (stream f segs gfin) /\
    i_processed st <= blen (stream f segs gfin).
Proof.
  intros Hlow Hc Hu Hd Hwf Hm Hidx.
  assert (Hmin : MIN_DLT_MSG_SIZE <= low) by (unfold MAX_STORAGE_MSG, MIN_DLT_MSG_SIZE in *; lia).
  assert (Hl0 : 0 < low) by (unfold MAX_STORAGE_MSG in Hlow; lia).
  destruct (iter_recovers_all f start segs gfin Hwf Hm Hidx) as (st & tail & Hrun & H1 & H2 & H3 & H4 & H5 & H6).
  set (S := stream f segs gfin) in *.
  destruct (new_reader_inv S sched capacity low Hl0 Hc Hu Hd) as [r0 [E0 [HI0 [Hsp0 [_ [Hl _]]]]]].
  unfold run_iter_rd. rewrite E0. cbn [bind].
  pose proof (drain_rd_cursor_s S low Hmin (stream_stable f segs gfin low Hwf Hm Hlow)
                (Datatypes.S (length S)) (Datatypes.S (length S)) (ist_new start) r0 HI0 Hl) as Hsim.
  rewrite Hsp0 in Hsim. cbn [ndrop N.to_nat skipn] in Hsim.
  unfold run_iter, run_iter_l in Hrun. fold drain_fuel in Hrun.
  destruct (drain_rd (Datatypes.S (length S)) (Datatypes.S (length S)) (ist_new start) r0) as [[[ms st'] r']|s|];
    rewrite Hrun in Hsim; try discriminate.
  inversion Hsim; subst ms st' tail. exists st, r'. split; [reflexivity|]. cbv zeta. repeat split; assumption.
Qed.
