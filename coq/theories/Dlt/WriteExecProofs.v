(* The shortcut Exec/C02.v takes for the large files of the export family is what the full evaluation yields. *)
From Coq Require Import List NArith Bool Lia.
From AdltV Require Import Base.Obs Base.Res Base.MachInt Dlt.Frame Dlt.Iter Dlt.Write Dlt.WriteProofs Dlt.WritePipeline
  Dlt.WritePipelineProofs Exec.C01 Exec.C02.
Import ListNotations.
Open Scope N_scope.

Lemma bytes_eqb_refl l : bytes_eqb l l = true.
Proof. induction l as [|x l IH]; cbn [bytes_eqb]; [reflexivity|]. rewrite N.eqb_refl. exact IH. Qed.

Lemma mcnt_seq_same : forall ms ms' i, Forall2 same_fields ms ms' -> mcnt_seq i ms' = mcnt_seq i ms.
Proof.
  induction ms as [|m r IH]; intros ms' i H; inversion H as [|? m' ? r' Hm Hr]; subst; [reflexivity|].
  cbn [mcnt_seq]. destruct Hm as (_ & _ & _ & _ & Hc & _). rewrite Hc. f_equal. apply IH. exact Hr.
Qed.

Theorem export_obs_fast_sound ms inp :
  forallb wf_msgb ms = true -> N.of_nat (length ms) <= u32max -> write_all ms = Ok (WOk inp) ->
  export_obs_slow inp = export_obs_fast ms inp.
Proof.
  intros Hb Hn Hw.
  assert (Hwf : Forall wf_msg ms).
  { apply Forall_forall. intros m Hm. apply wf_msgb_sound. rewrite forallb_forall in Hb. apply Hb. exact Hm. }
  destruct (convert_o_normal_form ms Hwf Hn) as (bytes & st & Hw' & Hr & Hf & Hc).
  rewrite Hw in Hw'. inversion Hw'; subst bytes.
  unfold export_obs_slow, export_obs_fast. rewrite Hc, Hr, bytes_eqb_refl.
  rewrite <- (Forall2_len _ _ _ Hf). rewrite (mcnt_seq_same ms _ 0 Hf). reflexivity.
Qed.
