(* Proofs about Dlt/Args.v: byte/word round trips, the decoder on encoded arguments (compositional),
   truncation, totality / in-bounds for arbitrary payloads, the serde layout. *)
From Coq Require Import List NArith ZArith Bool Lia.
From AdltV Require Import Base.Res Base.MachInt Dlt.Args.
Import ListNotations.
Open Scope N_scope.

(* ------------------------------------------------------------------ words *)
Lemma le_bytes_length n v : length (le_bytes n v) = n.
Proof. revert v. induction n as [|n IH]; intros v; cbn [le_bytes length]; [reflexivity|now rewrite IH]. Qed.

Lemma word_bytes_length be n v : length (word_bytes be n v) = n.
Proof. unfold word_bytes, be_bytes. destruct be; [rewrite rev_length|]; apply le_bytes_length. Qed.

Lemma le_val_le_bytes n v : le_val (le_bytes n v) = v mod 256 ^ N.of_nat n.
Proof.
  revert v. induction n as [|n IH]; intros v.
  - cbn. now rewrite N.mod_1_r.
  - cbn [le_bytes le_val]. rewrite IH.
    replace (N.of_nat (S n)) with (N.succ (N.of_nat n)) by lia.
    rewrite N.pow_succ_r'.
    rewrite (N.mod_mul_r v 256 (256 ^ N.of_nat n)); [reflexivity|lia|].
    apply N.pow_nonzero. lia.
Qed.

Lemma word_val_word_bytes be n v : word_val be (word_bytes be n v) = v mod 256 ^ N.of_nat n.
Proof.
  unfold word_val, word_bytes, be_val, be_bytes. destruct be; [rewrite rev_involutive|]; apply le_val_le_bytes.
Qed.

Lemma word_val_word_bytes_small be n v : v < 256 ^ N.of_nat n -> word_val be (word_bytes be n v) = v.
Proof. intros H. rewrite word_val_word_bytes. now apply N.mod_small. Qed.

(* ------------------------------------------------------------------ lengths, slices *)
Lemma plen_app a b : plen (a ++ b) = plen a + plen b.
Proof. unfold plen. rewrite app_length. lia. Qed.
Lemma plen_nil : plen [] = 0. Proof. reflexivity. Qed.
Lemma plen_cons x l : plen (x :: l) = 1 + plen l.
Proof. unfold plen. cbn [length]. lia. Qed.
Lemma plen_word_bytes be n v : plen (word_bytes be n v) = N.of_nat n.
Proof. unfold plen. now rewrite word_bytes_length. Qed.

Lemma slice_chk_app_mid pre x rest :
  slice_chk (pre ++ x ++ rest) (plen pre) (plen pre + plen x) = Ok x.
Proof.
  unfold slice_chk.
  assert (Hc : (plen pre <=? plen pre + plen x) && (plen pre + plen x <=? plen (pre ++ x ++ rest)) = true).
  { rewrite !plen_app. apply andb_true_intro. split; apply N.leb_le; lia. }
  rewrite Hc. f_equal.
  replace (N.to_nat (plen pre)) with (length pre) by (unfold plen; lia).
  replace (N.to_nat (plen pre + plen x - plen pre)) with (length x) by (unfold plen; lia).
  rewrite skipn_app, skipn_all, Nat.sub_diag. cbn [skipn app].
  rewrite firstn_app, firstn_all, Nat.sub_diag. cbn [firstn]. now rewrite app_nil_r.
Qed.

(* a successful slice is a sub-slice of the payload *)
Definition sub_slice (p raw : bytes) : Prop :=
  exists off : nat, (off + length raw <= length p)%nat /\ raw = firstn (length raw) (skipn off p).

Lemma slice_chk_ok p a b s : slice_chk p a b = Ok s -> a <= b /\ b <= plen p /\ plen s = b - a /\ sub_slice p s.
Proof.
  unfold slice_chk. destruct ((a <=? b) && (b <=? plen p)) eqn:Hc; [|discriminate].
  apply andb_prop in Hc. destruct Hc as [H1 H2]. apply N.leb_le in H1. apply N.leb_le in H2.
  intros H. inversion H as [Hs]; clear H.
  assert (Hlen : length (firstn (N.to_nat (b - a)) (skipn (N.to_nat a) p)) = N.to_nat (b - a)).
  { rewrite firstn_length, skipn_length. unfold plen in H2. lia. }
  repeat split; try assumption.
  - unfold plen. rewrite Hlen. lia.
  - exists (N.to_nat a). rewrite Hlen. split; [unfold plen in H2; lia|reflexivity].
Qed.

Lemma slice_chk_total p a b : a <= b -> b <= plen p -> exists s, slice_chk p a b = Ok s.
Proof.
  intros H1 H2. unfold slice_chk.
  apply N.leb_le in H1. apply N.leb_le in H2. rewrite H1, H2. cbn. eauto.
Qed.

Lemma add_chk_ok max a b : a + b <= max -> add_chk max a b = Ok (a + b).
Proof. intros H. unfold add_chk. apply N.leb_le in H. now rewrite H. Qed.

(* ------------------------------------------------------------------ the decision tree of next() *)
Definition refused_or_lenpref (p : bytes) (it : iter) (ti : N) : res (option arg * iter) :=
  if negb (has ti TI_VARI || has ti TI_FIXP || has ti TI_BOOL || has ti (N.lor TI_SINT TI_UINT) || has ti TI_FLOA)
     && is_lenpref ti
  then lenpref_arg p it ti else Ok (None, it).

Definition verbose_body (p : bytes) (it : iter) (ti : N) : res (option arg * iter) :=
  match fixed_len ti with
  | Some len => fixed_arg p it ti len
  | None => refused_or_lenpref p it ti
  end.

Lemma tyle_len_cases t : tyle_len t = 0 \/ tyle_len t = 1 \/ tyle_len t = 2 \/ tyle_len t = 4 \/ tyle_len t = 8 \/ tyle_len t = 16.
Proof.
  unfold tyle_len.
  destruct t as [|q]; [tauto|].
  destruct q as [[[q|q|]|[q|q|]|]|[[q|q|]|[q|q|]|]|]; tauto.
Qed.

Lemma arg_next_verbose p it :
  it_verbose it = true ->
  arg_next p it =
    (i4 <- add_chk usizemax (it_index it) 4 ;;
     if i4 <=? plen p then
       s <- slice_chk p (it_index it) i4 ;;
       verbose_body p (with_index it i4) (word_val (it_be it) s)
     else Ok (None, it))%res.
Proof.
  intros Hv. unfold arg_next. rewrite Hv.
  destruct (add_chk usizemax (it_index it) 4) as [i4| |]; cbn [bind]; try reflexivity.
  destruct (i4 <=? plen p); [|reflexivity].
  destruct (slice_chk p (it_index it) i4) as [s| |]; cbn [bind]; try reflexivity.
  set (ti := word_val (it_be it) s).
  unfold verbose_body, refused_or_lenpref, fixed_len, is_lenpref.
  destruct (has ti TI_VARI); [reflexivity|].
  destruct (has ti TI_FIXP); [reflexivity|].
  cbn [orb].
  destruct (has ti TI_BOOL).
  { destruct (tyle_len (N.land ti TI_MASK_TYLE) =? 1) eqn:E1.
    - apply N.eqb_eq in E1. rewrite E1. reflexivity.
    - cbn [negb orb]. destruct (tyle_len (N.land ti TI_MASK_TYLE) =? 0); reflexivity. }
  destruct (has ti (N.lor TI_SINT TI_UINT)).
  { destruct (tyle_len (N.land ti TI_MASK_TYLE) <? 1); reflexivity. }
  destruct (has ti TI_FLOA).
  { destruct (tyle_len (N.land ti TI_MASK_TYLE) <? 2); reflexivity. }
  cbn [orb negb andb].
  destruct (has ti (N.lor TI_STRG TI_RAWD)); reflexivity.
Qed.

Lemma fixed_len_pos ti len : fixed_len ti = Some len -> 1 <= len <= 16.
Proof.
  unfold fixed_len. intros E.
  destruct (tyle_len_cases (N.land ti TI_MASK_TYLE)) as [H|[H|[H|[H|[H|H]]]]]; rewrite H in E;
  destruct (has ti TI_VARI || has ti TI_FIXP), (has ti TI_BOOL), (has ti (N.lor TI_SINT TI_UINT)), (has ti TI_FLOA);
  cbn in E; try discriminate; inversion E; lia.
Qed.

(* ------------------------------------------------------------------ totality, progress, in-bounds *)
Definition slack : N := 65541.   (* 4 + 2 + 65535 *)

(* what one call of next() guarantees, for ANY payload and ANY state within [slack] of the end *)
Definition step_spec (p : bytes) (it : iter) (o : option arg) (it' : iter) : Prop :=
  it_verbose it' = it_verbose it /\ it_be it' = it_be it /\
  it_index it' <= plen p + slack /\
  match o with
  | Some a => it_index it < it_index it' /\ it_index it' <= plen p /\ sub_slice p (a_raw a) /\ a_be a = it_be it
  | None => True
  end.

Lemma word_val_bound2 be s : plen s = 2 -> Forall (fun b => b < 256) s -> word_val be s <= 65535.
Proof.
  intros Hl Hb. unfold plen in Hl.
  destruct s as [|x [|y [|z s]]]; cbn [length] in Hl; try lia.
  inversion Hb as [|? ? Hx Hb']; subst. inversion Hb' as [|? ? Hy _]; subst.
  unfold word_val, be_val. destruct be; cbn [rev app le_val]; lia.
Qed.

Lemma Forall_firstn' {A} (P : A -> Prop) n l : Forall P l -> Forall P (firstn n l).
Proof. revert l. induction n as [|n IH]; intros l H; [constructor|]. destruct l; [constructor|]. inversion H; subst. cbn. constructor; auto. Qed.
Lemma Forall_skipn' {A} (P : A -> Prop) n l : Forall P l -> Forall P (skipn n l).
Proof. revert l. induction n as [|n IH]; intros l H; [exact H|]. destruct l; [constructor|]. inversion H; subst. cbn. auto. Qed.
Lemma sub_slice_Forall (P : N -> Prop) p s : sub_slice p s -> Forall P p -> Forall P s.
Proof. intros [off [_ E]] H. rewrite E. apply Forall_firstn', Forall_skipn', H. Qed.

Definition wf_bytes (p : bytes) : Prop := Forall (fun b => b < 256) p.
(* Vec<u8> never exceeds isize::MAX bytes *)
Definition isizemax : N := 9223372036854775807.
Definition fits (p : bytes) : Prop := plen p <= isizemax.

(* what the text renderer relies on *)
Definition dec_inv (a : arg) : Prop := has (a_ti a) TI_BOOL = true -> plen (a_raw a) = 1.

Lemma fixed_len_bool ti len : fixed_len ti = Some len -> has ti TI_BOOL = true -> len = 1.
Proof.
  unfold fixed_len. intros E Hb. rewrite Hb in E.
  destruct (has ti TI_VARI || has ti TI_FIXP); [discriminate|].
  destruct ((tyle_len (N.land ti TI_MASK_TYLE) =? 1) || (tyle_len (N.land ti TI_MASK_TYLE) =? 0)); [|discriminate].
  now inversion E.
Qed.

Lemma fixed_arg_step p it ti len :
  fits p -> it_index it <= plen p -> 1 <= len <= 16 ->
  exists o it', fixed_arg p it ti len = Ok (o, it') /\
    it_verbose it' = it_verbose it /\ it_be it' = it_be it /\ it_index it' = it_index it + len /\
    match o with
    | Some a => it_index it' <= plen p /\ sub_slice p (a_raw a) /\ a_be a = it_be it /\ a_ti a = ti /\ plen (a_raw a) = len
    | None => plen p < it_index it + len
    end.
Proof.
  intros Hf Hi Hl. unfold fixed_arg, fits, isizemax in *.
  rewrite add_chk_ok by (unfold usizemax, u64max; lia). cbn [bind].
  assert (H0 : (0 <? len) = true) by (apply N.ltb_lt; lia). rewrite H0. cbn [andb].
  destruct (it_index it + len <=? plen p) eqn:E.
  - apply N.leb_le in E.
    destruct (slice_chk_total p (it_index it) (it_index it + len)) as [s Hs]; [lia|lia|].
    rewrite Hs. cbn [bind].
    destruct (slice_chk_ok _ _ _ _ Hs) as [_ [_ [Hlen Hsub]]].
    eexists _, _. split; [reflexivity|]. cbn. repeat split; auto. lia.
  - apply N.leb_gt in E. eexists _, _. split; [reflexivity|]. cbn. repeat split; auto.
Qed.

Lemma lenpref_arg_step p it ti :
  fits p -> wf_bytes p -> it_index it <= plen p ->
  exists o it', lenpref_arg p it ti = Ok (o, it') /\
    it_verbose it' = it_verbose it /\ it_be it' = it_be it /\
    it_index it <= it_index it' /\ it_index it' <= plen p + 65537 /\
    match o with
    | Some a => it_index it + 2 <= it_index it' /\ it_index it' <= plen p /\ sub_slice p (a_raw a) /\ a_be a = it_be it /\ a_ti a = ti
    | None => True
    end.
Proof.
  intros Hf Hw Hi. unfold lenpref_arg, fits, isizemax in *.
  rewrite add_chk_ok by (unfold usizemax, u64max; lia). cbn [bind].
  destruct (plen p <? it_index it + 2) eqn:E.
  { eexists _, _. split; [reflexivity|]. repeat split; auto; lia. }
  apply N.ltb_ge in E.
  destruct (slice_chk_total p (it_index it) (it_index it + 2)) as [s Hs]; [lia|lia|].
  rewrite Hs. cbn [bind].
  destruct (slice_chk_ok _ _ _ _ Hs) as [_ [_ [Hlen Hsub]]].
  assert (Hv : word_val (it_be it) s <= 65535).
  { apply word_val_bound2; [lia|]. eapply sub_slice_Forall; eauto. }
  rewrite add_chk_ok by (unfold usizemax, u64max; lia). cbn [bind].
  destruct (it_index it + 2 + word_val (it_be it) s <=? plen p) eqn:E2.
  - apply N.leb_le in E2.
    destruct (slice_chk_total p (it_index it + 2) (it_index it + 2 + word_val (it_be it) s)) as [r Hr]; [lia|lia|].
    rewrite Hr. cbn [bind].
    destruct (slice_chk_ok _ _ _ _ Hr) as [_ [_ [_ Hsub2]]].
    eexists _, _. split; [reflexivity|]. cbn. repeat split; auto; lia.
  - eexists _, _. split; [reflexivity|]. cbn. repeat split; auto; lia.
Qed.

Lemma arg_next_step p it :
  fits p -> wf_bytes p -> it_index it <= plen p + slack ->
  exists o it', arg_next p it = Ok (o, it') /\ step_spec p it o it' /\
    match o with Some a => it_verbose it = true -> dec_inv a | None => True end.
Proof.
  intros Hf Hw Hi. destruct (it_verbose it) eqn:Hv.
  - rewrite arg_next_verbose by exact Hv.
    assert (Hf' := Hf). unfold fits, isizemax, slack in *.
    rewrite add_chk_ok by (unfold usizemax, u64max; lia). cbn [bind].
    destruct (it_index it + 4 <=? plen p) eqn:E.
    2:{ eexists _, _. split; [reflexivity|]. unfold step_spec. repeat split; auto. }
    apply N.leb_le in E.
    destruct (slice_chk_total p (it_index it) (it_index it + 4)) as [s Hs]; [lia|lia|].
    rewrite Hs. cbn [bind].
    set (ti := word_val (it_be it) s). set (it1 := with_index it (it_index it + 4)).
    unfold verbose_body.
    destruct (fixed_len ti) as [len|] eqn:Efl.
    + destruct (fixed_arg_step p it1 ti len Hf') as [o [it' [H1 [H2 [H3 [H4 H5]]]]]];
        [cbn; lia|eapply fixed_len_pos; eauto|].
      pose proof (fixed_len_pos _ _ Efl) as Hlen.
      exists o, it'. split; [exact H1|]. cbn in H2, H3, H4.
      split.
      * unfold step_spec, slack. refine (conj _ (conj _ (conj _ _))); try congruence; try lia.
        destruct o as [a|]; [|exact I]. destruct H5 as [H5 [H6 [H7 [H8 H9]]]].
        refine (conj _ (conj _ (conj _ _))); auto; try lia.
      * destruct o as [a|]; [|exact I]. intros _. destruct H5 as [_ [_ [_ [H8 H9]]]].
        unfold dec_inv. rewrite H8, H9. intros Hb. eapply fixed_len_bool; eauto.
    + unfold refused_or_lenpref.
      destruct (negb (has ti TI_VARI || has ti TI_FIXP || has ti TI_BOOL || has ti (N.lor TI_SINT TI_UINT) || has ti TI_FLOA) && is_lenpref ti) eqn:Ec.
      * destruct (lenpref_arg_step p it1 ti Hf' Hw) as [o [it' [H1 [H2 [H3 [H4 [H5 H6]]]]]]]; [cbn; lia|].
        exists o, it'. split; [exact H1|]. cbn in H2, H3, H4, H5.
        split.
        -- unfold step_spec, slack. refine (conj _ (conj _ (conj _ _))); try congruence; try lia.
           destruct o as [a|]; [|exact I]. cbn in H6. destruct H6 as [H6 [H7 [H8 [H9 H10]]]].
           refine (conj _ (conj _ (conj _ _))); auto; try lia.
        -- destruct o as [a|]; [|exact I]. intros _. destruct H6 as [_ [_ [_ [_ H10]]]].
           unfold dec_inv. rewrite H10. intros Hb.
           apply andb_prop in Ec. destruct Ec as [Ec _]. apply negb_true_iff in Ec.
           rewrite Hb in Ec. rewrite !orb_true_r in Ec. cbn in Ec. discriminate.
      * eexists _, _. split; [reflexivity|]. unfold step_spec. cbn. repeat split; auto; lia.
  - unfold arg_next. rewrite Hv. unfold fits, isizemax, slack in *.
    destruct (it_index it) as [|q] eqn:Ei.
    + destruct (4 <=? plen p) eqn:E.
      * apply N.leb_le in E.
        destruct (slice_chk_total p 0 4) as [s Hs]; [lia|lia|]. rewrite Hs. cbn [bind].
        rewrite add_chk_ok by (unfold usizemax, u64max; lia). cbn [bind].
        destruct (slice_chk_ok _ _ _ _ Hs) as [_ [_ [_ Hsub]]].
        eexists _, _. split; [reflexivity|]. unfold step_spec. cbn. rewrite Ei. repeat split; auto; try lia; try discriminate.
      * eexists _, _. split; [reflexivity|]. unfold step_spec. repeat split; auto. lia.
    + destruct q as [q|[q|[q|q|]|]|];
        try (eexists _, _; split; [reflexivity|]; split; [unfold step_spec, slack; rewrite ?Ei; repeat split; auto; lia|exact I]).
      destruct (4 <? plen p) eqn:E.
      * apply N.ltb_lt in E.
        destruct (slice_chk_total p 4 (plen p)) as [s Hs]; [lia|lia|]. rewrite Hs. cbn [bind].
        destruct (slice_chk_ok _ _ _ _ Hs) as [_ [_ [_ Hsub]]].
        eexists _, _. split; [reflexivity|]. unfold step_spec. cbn. rewrite Ei. repeat split; auto; try lia; try discriminate.
      * eexists _, _. split; [reflexivity|]. unfold step_spec, slack. rewrite ?Ei. repeat split; auto; lia.
Qed.

(* ------------------------------------------------------------------ the collecting loop *)
Lemma collect_mono f p it r : collect f p it = Ok r -> forall k, collect (f + k) p it = Ok r.
Proof.
  revert it r. induction f as [|f IH]; intros it r H k; [discriminate|].
  cbn [Nat.add collect] in *.
  destruct (arg_next p it) as [[[a|] it']| |]; try discriminate; [|exact H].
  destruct (collect f p it') as [[l it'']| |] eqn:E; try discriminate.
  rewrite (IH _ _ E k). exact H.
Qed.

Lemma collect_det f1 f2 p it r1 r2 : collect f1 p it = Ok r1 -> collect f2 p it = Ok r2 -> r1 = r2.
Proof.
  intros H1 H2. pose proof (collect_mono _ _ _ _ H1 f2) as A. pose proof (collect_mono _ _ _ _ H2 f1) as B.
  rewrite Nat.add_comm in B. rewrite A in B. now inversion B.
Qed.

Lemma collect_total p : fits p -> wf_bytes p -> forall f it,
  it_index it <= plen p + slack -> (N.to_nat (plen p - it_index it) < f)%nat ->
  exists l it', collect f p it = Ok (l, it') /\
    Forall (fun a => sub_slice p (a_raw a)) l /\ Forall (fun a => a_be a = it_be it) l /\
    (it_verbose it = true -> Forall dec_inv l) /\
    it_verbose it' = it_verbose it /\ it_be it' = it_be it /\ it_index it' <= plen p + slack.
Proof.
  intros Hf Hw. induction f as [|f IH]; intros it Hi Hm; [lia|].
  cbn [collect].
  destruct (arg_next_step p it Hf Hw Hi) as [o [it' [H1 [H2 H3]]]]. rewrite H1.
  destruct H2 as [Hv [Hb [Hi' Ho]]].
  destruct o as [a|].
  - destruct Ho as [Hlt [Hle [Hsub Hbe]]].
    destruct (IH it' Hi') as [l [it'' [E [A [B [C [D1 [D2 D3]]]]]]]]; [lia|].
    rewrite E. exists (a :: l), it''. split; [reflexivity|].
    repeat split; try congruence.
    + constructor; assumption.
    + constructor; [assumption|]. rewrite Hb in B. exact B.
    + intros V. constructor; [auto|]. apply C. congruence.
  - exists [], it'. split; [reflexivity|]. repeat split; auto.
Qed.

Theorem msg_args_st_total verbose be p : fits p -> wf_bytes p ->
  exists l it', msg_args_st verbose be p = Ok (l, it') /\
    Forall (fun a => sub_slice p (a_raw a)) l /\ Forall (fun a => a_be a = be) l /\ (verbose = true -> Forall dec_inv l).
Proof.
  intros Hf Hw. unfold msg_args_st.
  destruct (collect_total p Hf Hw (S (length p)) (iter_init verbose be)) as [l [it' [E [A [B [C _]]]]]].
  - cbn. unfold slack. lia.
  - cbn. unfold plen. lia.
  - exists l, it'. repeat split; auto.
Qed.

Lemma msg_args_eq verbose be p f l it' : fits p -> wf_bytes p ->
  collect f p (iter_init verbose be) = Ok (l, it') -> msg_args verbose be p = Ok l.
Proof.
  intros Hf Hw H. unfold msg_args.
  destruct (msg_args_st_total verbose be p Hf Hw) as [l0 [it0 [E _]]]. rewrite E.
  unfold msg_args_st in E. pose proof (collect_det _ _ _ _ _ _ E H) as X. now inversion X.
Qed.

(* ------------------------------------------------------------------ the decoder on an encoded argument *)
Definition mk_it (be : bool) (i : N) : iter := {| it_verbose := true; it_be := be; it_index := i |}.

Lemma fits_usize p : fits p -> forall k, k <= 70000 -> plen p + k <= usizemax.
Proof. unfold fits, isizemax, usizemax, u64max. intros. lia. Qed.

Lemma fixed_arg_enc pre0 raw rest be i ti :
  i = plen pre0 -> 0 < plen raw -> fits (pre0 ++ raw ++ rest) ->
  fixed_arg (pre0 ++ raw ++ rest) (mk_it be i) ti (plen raw)
  = Ok (Some {| a_ti := ti; a_be := be; a_raw := raw |}, mk_it be (i + plen raw)).
Proof.
  intros -> Hpos Hf. unfold fixed_arg. cbn [it_index mk_it it_be].
  pose proof (fits_usize _ Hf 0) as Hu. rewrite !plen_app in Hu.
  rewrite add_chk_ok by lia. cbn [bind].
  apply N.ltb_lt in Hpos. rewrite Hpos. cbn [andb].
  assert (E : (plen pre0 + plen raw <=? plen (pre0 ++ raw ++ rest)) = true) by (apply N.leb_le; rewrite !plen_app; lia).
  rewrite E. rewrite slice_chk_app_mid. reflexivity.
Qed.

Lemma fixed_arg_short p be i ti len :
  fits p -> i <= plen p -> len <= 16 -> plen p < i + len ->
  fixed_arg p (mk_it be i) ti len = Ok (None, mk_it be (i + len)).
Proof.
  intros Hf Hi Hl Hs. unfold fixed_arg. cbn [it_index mk_it].
  pose proof (fits_usize _ Hf 16) as Hu.
  rewrite add_chk_ok by lia. cbn [bind].
  apply N.leb_gt in Hs. rewrite Hs. rewrite andb_false_r. reflexivity.
Qed.

Lemma trunc16_small x : x <= 65535 -> trunc 16 x = x.
Proof. intros H. unfold trunc. apply N.mod_small. change (2 ^ 16) with 65536. lia. Qed.

Lemma lenpref_arg_enc pre0 raw rest be i ti :
  i = plen pre0 -> plen raw <= 65535 ->
  fits (pre0 ++ word_bytes be 2 (trunc 16 (plen raw)) ++ raw ++ rest) ->
  lenpref_arg (pre0 ++ word_bytes be 2 (trunc 16 (plen raw)) ++ raw ++ rest) (mk_it be i) ti
  = Ok (Some {| a_ti := ti; a_be := be; a_raw := raw |}, mk_it be (i + 2 + plen raw)).
Proof.
  intros -> Hl Hf. unfold lenpref_arg. cbn [it_index mk_it it_be].
  set (lw := word_bytes be 2 (trunc 16 (plen raw))) in *.
  assert (Hlw : plen lw = 2) by (unfold lw; now rewrite plen_word_bytes).
  pose proof (fits_usize _ Hf 0) as Hu. rewrite !plen_app, Hlw in Hu.
  rewrite add_chk_ok by lia. cbn [bind].
  assert (E : (plen (pre0 ++ lw ++ raw ++ rest) <? plen pre0 + 2) = false) by (apply N.ltb_ge; rewrite !plen_app; lia).
  rewrite E.
  replace (plen pre0 + 2) with (plen pre0 + plen lw) by lia.
  rewrite slice_chk_app_mid. cbn [bind].
  assert (Hv : word_val be lw = plen raw).
  { unfold lw. rewrite word_val_word_bytes_small; [apply trunc16_small; exact Hl|].
    rewrite trunc16_small by exact Hl. change (256 ^ N.of_nat 2) with 65536. lia. }
  rewrite Hv. rewrite add_chk_ok by lia. cbn [bind].
  assert (E2 : (plen pre0 + plen lw + plen raw <=? plen (pre0 ++ lw ++ raw ++ rest)) = true) by (apply N.leb_le; rewrite !plen_app; lia).
  rewrite E2.
  replace (pre0 ++ lw ++ raw ++ rest) with ((pre0 ++ lw) ++ raw ++ rest) by (now rewrite <- app_assoc).
  replace (plen pre0 + plen lw) with (plen (pre0 ++ lw)) by (now rewrite plen_app).
  rewrite slice_chk_app_mid. cbn [bind]. rewrite plen_app, Hlw. reflexivity.
Qed.

Lemma wf_arg_inv be a : wf_arg be a = true ->
  a_ti a < 4294967296 /\ a_be a = be /\
  ((exists len, fixed_len (a_ti a) = Some len /\ is_lenpref (a_ti a) = false /\ plen (a_raw a) = len) \/
   (fixed_len (a_ti a) = None /\ is_lenpref (a_ti a) = true /\ plen (a_raw a) <= 65535 /\
    negb (has (a_ti a) TI_VARI || has (a_ti a) TI_FIXP || has (a_ti a) TI_BOOL
          || has (a_ti a) (N.lor TI_SINT TI_UINT) || has (a_ti a) TI_FLOA) = true)).
Proof.
  unfold wf_arg. intros H.
  apply andb_prop in H. destruct H as [H H4]. apply andb_prop in H. destruct H as [H H3].
  apply andb_prop in H. destruct H as [H1 H2].
  apply N.ltb_lt in H1. change (2 ^ 32) with 4294967296 in H1. apply eqb_prop in H2.
  split; [exact H1|]. split; [exact H2|].
  destruct (fixed_len (a_ti a)) as [len|].
  - left. exists len. apply andb_prop in H4. destruct H4 as [A B]. apply negb_true_iff in A. apply N.eqb_eq in B. auto.
  - right. apply andb_prop in H4. destruct H4 as [H4 C]. apply andb_prop in H4. destruct H4 as [A B].
    apply N.leb_le in C. repeat split; auto.
    apply negb_true_iff in H3. apply negb_true_iff in A. apply negb_true_iff.
    apply orb_false_iff in H3. destruct H3 as [V F]. apply orb_false_iff in A. destruct A as [A Fl]. apply orb_false_iff in A. destruct A as [Bo SU].
    rewrite V, F, Bo, SU, Fl. reflexivity.
Qed.

Lemma enc_arg_plen be a : plen (enc_arg be a) = 4 + (if is_lenpref (a_ti a) then 2 else 0) + plen (a_raw a).
Proof.
  unfold enc_arg. rewrite !plen_app, plen_word_bytes.
  destruct (is_lenpref (a_ti a)); [rewrite plen_word_bytes|rewrite plen_nil]; lia.
Qed.

Lemma arg_eta a be : a_be a = be -> {| a_ti := a_ti a; a_be := be; a_raw := a_raw a |} = a.
Proof. destruct a; cbn; intros ->; reflexivity. Qed.

Lemma arg_next_enc be pre a rest p :
  wf_arg be a = true -> p = pre ++ enc_arg be a ++ rest -> fits p ->
  arg_next p (mk_it be (plen pre)) = Ok (Some a, mk_it be (plen pre + plen (enc_arg be a))).
Proof.
  intros Hwf -> Hf.
  destruct (wf_arg_inv _ _ Hwf) as [Hti [Hbe Hcase]].
  rewrite arg_next_verbose by reflexivity. cbn [it_index mk_it it_be].
  pose proof (fits_usize _ Hf 4) as Hu. rewrite !plen_app in Hu.
  rewrite add_chk_ok by lia. cbn [bind].
  pose proof (enc_arg_plen be a) as Hel.
  assert (E : (plen pre + 4 <=? plen (pre ++ enc_arg be a ++ rest)) = true).
  { apply N.leb_le. rewrite !plen_app, Hel. lia. }
  rewrite E.
  unfold enc_arg in *. set (tw := word_bytes be 4 (a_ti a)) in *.
  assert (Htw : plen tw = 4) by (unfold tw; now rewrite plen_word_bytes).
  rewrite <- !app_assoc.
  replace (plen pre + 4) with (plen pre + plen tw) by lia.
  rewrite slice_chk_app_mid. cbn [bind].
  assert (Hv : word_val be tw = a_ti a).
  { unfold tw. apply word_val_word_bytes_small. change (256 ^ N.of_nat 4) with 4294967296. exact Hti. }
  rewrite Hv. unfold verbose_body, with_index. cbn [it_verbose it_be mk_it].
  change {| it_verbose := true; it_be := be; it_index := plen pre + plen tw |} with (mk_it be (plen pre + plen tw)).
  destruct Hcase as [[len [Hfl [Hlp Hlen]]]|[Hfl [Hlp [Hlen Hneg]]]].
  - rewrite Hfl. rewrite Hlp in *. cbn [app].
    pose proof (fixed_len_pos _ _ Hfl) as Hpos.
    replace (pre ++ tw ++ a_raw a ++ rest) with ((pre ++ tw) ++ a_raw a ++ rest) by (now rewrite <- app_assoc).
    rewrite <- Hlen.
    rewrite (fixed_arg_enc (pre ++ tw) (a_raw a) rest be (plen pre + plen tw) (a_ti a)).
    + rewrite arg_eta by exact Hbe. f_equal. f_equal. f_equal. rewrite ?plen_app, ?plen_nil. lia.
    + now rewrite plen_app.
    + lia.
    + cbn [app] in Hf. rewrite <- !app_assoc in Hf. rewrite <- app_assoc. exact Hf.
  - rewrite Hfl. unfold refused_or_lenpref. rewrite Hneg, Hlp. cbn [andb].
    rewrite Hlp in *.
    replace (pre ++ tw ++ word_bytes be 2 (trunc 16 (plen (a_raw a))) ++ a_raw a ++ rest)
      with ((pre ++ tw) ++ word_bytes be 2 (trunc 16 (plen (a_raw a))) ++ a_raw a ++ rest) by (now rewrite <- app_assoc).
    rewrite (lenpref_arg_enc (pre ++ tw) (a_raw a) rest be (plen pre + plen tw) (a_ti a)).
    + rewrite arg_eta by exact Hbe. f_equal. f_equal. f_equal. rewrite ?plen_app, ?plen_word_bytes. change (N.of_nat 2) with 2. lia.
    + now rewrite plen_app.
    + exact Hlen.
    + rewrite <- !app_assoc. rewrite <- !app_assoc in Hf. exact Hf.
Qed.

(* ------------------------------------------------------------------ compositionality *)
Definition wf_args (be : bool) (args : list arg) : Prop := Forall (fun a => wf_arg be a = true) args.

Lemma enc_args_cons be a r : enc_args be (a :: r) = enc_arg be a ++ enc_args be r.
Proof. reflexivity. Qed.

Lemma collect_enc be : forall args pre rest p f r,
  wf_args be args -> p = pre ++ enc_args be args ++ rest -> fits p ->
  collect f p (mk_it be (plen pre + plen (enc_args be args))) = Ok r ->
  collect (f + length args) p (mk_it be (plen pre)) = Ok (args ++ fst r, snd r).
Proof.
  induction args as [|a args IH]; intros pre rest p f r Hwf Hp Hf H.
  - cbn [length enc_args flat_map app] in *. rewrite plen_nil, N.add_0_r in H. rewrite Nat.add_0_r.
    rewrite H. now destruct r.
  - apply Forall_cons_iff in Hwf; destruct Hwf as [Ha Hr].
    rewrite enc_args_cons in *.
    cbn [length]. rewrite Nat.add_succ_r. cbn [collect].
    rewrite (arg_next_enc be pre a (enc_args be args ++ rest) p Ha); [|rewrite Hp; now rewrite <- app_assoc|exact Hf].
    specialize (IH (pre ++ enc_arg be a) rest p f r Hr).
    rewrite plen_app in IH.
    rewrite IH.
    + destruct r. reflexivity.
    + rewrite Hp. now rewrite <- !app_assoc.
    + exact Hf.
    + rewrite plen_app in H. rewrite <- H. f_equal. f_equal. lia.
Qed.

Lemma arg_next_at_end be p i : fits p -> plen p < i + 4 -> i <= plen p + slack ->
  arg_next p (mk_it be i) = Ok (None, mk_it be i).
Proof.
  intros Hf Hi Hs. rewrite arg_next_verbose by reflexivity. cbn [it_index mk_it].
  pose proof (fits_usize _ Hf 70000) as Hu. unfold slack in Hs.
  rewrite add_chk_ok by lia. cbn [bind].
  apply N.leb_gt in Hi. now rewrite Hi.
Qed.

Lemma enc_arg_len_ge be a : (4 <= length (enc_arg be a))%nat.
Proof. unfold enc_arg. rewrite app_length, word_bytes_length. lia. Qed.

Lemma enc_args_len_ge be args : (length args <= length (enc_args be args))%nat.
Proof.
  induction args as [|a r IH]; [cbn; lia|]. rewrite enc_args_cons, app_length. cbn [length].
  pose proof (enc_arg_len_ge be a). lia.
Qed.

Lemma collect_to_msg_args be p f l it' :
  collect f p (mk_it be 0) = Ok (l, it') -> (f <= S (length p))%nat -> msg_args true be p = Ok l.
Proof.
  intros H Hle. unfold msg_args, msg_args_st.
  replace (S (length p)) with (f + (S (length p) - f))%nat by lia.
  change (iter_init true be) with (mk_it be 0).
  now rewrite (collect_mono _ _ _ _ H).
Qed.

(* decode (encode args ++ rest) = args ++ (whatever the rest decodes to) *)
Theorem decode_encode_app be args rest :
  wf_args be args -> fits (enc_args be args ++ rest) -> wf_bytes (enc_args be args ++ rest) ->
  exists l, msg_args true be (enc_args be args ++ rest) = Ok (args ++ l).
Proof.
  intros Hwf Hf Hw. set (p := enc_args be args ++ rest) in *.
  destruct (collect_total p Hf Hw (S (length p)) (mk_it be (plen [] + plen (enc_args be args)))) as [l [it' [E _]]].
  - cbn [it_index mk_it]. unfold p, slack. rewrite plen_app, plen_nil. lia.
  - cbn [it_index mk_it]. unfold plen. lia.
  - pose proof (collect_enc be args [] rest p _ _ Hwf eq_refl Hf E) as H. cbn [fst snd] in H.
    exists l. unfold msg_args.
    destruct (msg_args_st_total true be p Hf Hw) as [l0 [it0 [E0 _]]]. rewrite E0.
    unfold msg_args_st in E0. change (iter_init true be) with (mk_it be (plen [])) in E0.
    pose proof (collect_det _ _ _ _ _ _ E0 H) as X. now inversion X.
Qed.

Theorem decode_encode be args :
  wf_args be args -> fits (enc_args be args) ->
  msg_args true be (enc_args be args) = Ok args.
Proof.
  intros Hwf Hf. set (p := enc_args be args) in *.
  assert (E : collect 1 p (mk_it be (plen [] + plen (enc_args be args))) = Ok ([], mk_it be (plen [] + plen (enc_args be args)))).
  { cbn [collect]. rewrite arg_next_at_end; [reflexivity|exact Hf| |]; unfold p, slack; rewrite plen_nil; lia. }
  pose proof (collect_enc be args [] [] p _ _ Hwf (eq_sym (app_nil_r _)) Hf E) as H.
  cbn [fst snd] in H. rewrite app_nil_r in H.
  eapply collect_to_msg_args; [exact H|]. pose proof (enc_args_len_ge be args). unfold p. lia.
Qed.

(* ------------------------------------------------------------------ truncation *)
Lemma firstn_app_ge {A} (l1 l2 : list A) n : (length l1 <= n)%nat -> firstn n (l1 ++ l2) = l1 ++ firstn (n - length l1) l2.
Proof. intros H. rewrite firstn_app. now rewrite firstn_all2 by exact H. Qed.
Lemma firstn_app_lt {A} (l1 l2 : list A) n : (n <= length l1)%nat -> firstn n (l1 ++ l2) = firstn n l1.
Proof. intros H. rewrite firstn_app. replace (n - length l1)%nat with O by lia. cbn. now rewrite app_nil_r. Qed.

Lemma lenpref_arg_short1 p be i ti : fits p -> i <= plen p -> plen p < i + 2 ->
  lenpref_arg p (mk_it be i) ti = Ok (None, mk_it be i).
Proof.
  intros Hf Hi Hs. unfold lenpref_arg. cbn [it_index mk_it].
  pose proof (fits_usize _ Hf 2) as Hu. rewrite add_chk_ok by lia. cbn [bind].
  apply N.ltb_lt in Hs. now rewrite Hs.
Qed.

Lemma lenpref_arg_short2 pre0 be v t ti :
  v <= 65535 -> plen t < v -> fits (pre0 ++ word_bytes be 2 v ++ t) ->
  lenpref_arg (pre0 ++ word_bytes be 2 v ++ t) (mk_it be (plen pre0)) ti = Ok (None, mk_it be (plen pre0 + 2 + v)).
Proof.
  intros Hv Ht Hf. unfold lenpref_arg. cbn [it_index mk_it it_be].
  set (lw := word_bytes be 2 v) in *.
  assert (Hlw : plen lw = 2) by (unfold lw; now rewrite plen_word_bytes).
  pose proof (fits_usize _ Hf 0) as Hu. rewrite !plen_app, Hlw in Hu.
  rewrite add_chk_ok by lia. cbn [bind].
  assert (E : (plen (pre0 ++ lw ++ t) <? plen pre0 + 2) = false) by (apply N.ltb_ge; rewrite !plen_app; lia).
  rewrite E.
  replace (plen pre0 + 2) with (plen pre0 + plen lw) by lia.
  rewrite slice_chk_app_mid. cbn [bind].
  assert (Hval : word_val be lw = v).
  { unfold lw. rewrite word_val_word_bytes_small; [reflexivity|]. change (256 ^ N.of_nat 2) with 65536. lia. }
  rewrite Hval.
  pose proof (fits_usize _ Hf 65535) as Hu2. rewrite !plen_app, Hlw in Hu2.
  rewrite add_chk_ok by lia. cbn [bind].
  assert (E2 : (plen pre0 + plen lw + v <=? plen (pre0 ++ lw ++ t)) = false) by (apply N.leb_gt; rewrite !plen_app; lia).
  rewrite E2. rewrite Hlw. reflexivity.
Qed.

(* a strict prefix of one argument's encoding yields nothing *)
Lemma arg_next_cut be pre a m p :
  wf_arg be a = true -> (m < length (enc_arg be a))%nat -> p = pre ++ firstn m (enc_arg be a) -> fits p ->
  exists it', arg_next p (mk_it be (plen pre)) = Ok (None, it').
Proof.
  intros Hwf Hm -> Hf.
  destruct (wf_arg_inv _ _ Hwf) as [Hti [Hbe Hcase]].
  assert (Hpl : plen (pre ++ firstn m (enc_arg be a)) = plen pre + N.of_nat m).
  { rewrite plen_app. unfold plen at 2. rewrite firstn_length. f_equal. lia. }
  destruct (Nat.lt_ge_cases m 4) as [Hm4|Hm4].
  { eexists. apply arg_next_at_end; [exact Hf| |unfold slack]; rewrite Hpl; lia. }
  rewrite arg_next_verbose by reflexivity. cbn [it_index mk_it it_be].
  pose proof (fits_usize _ Hf 4) as Hu. rewrite Hpl in Hu.
  rewrite add_chk_ok by lia. cbn [bind].
  assert (E : (plen pre + 4 <=? plen (pre ++ firstn m (enc_arg be a))) = true) by (apply N.leb_le; rewrite Hpl; lia).
  rewrite E.
  unfold enc_arg in *. set (tw := word_bytes be 4 (a_ti a)) in *.
  assert (Htwl : length tw = 4%nat) by (unfold tw; apply word_bytes_length).
  assert (Htw : plen tw = 4) by (unfold plen; rewrite Htwl; reflexivity).
  rewrite firstn_app_ge in * by lia. rewrite Htwl in *.
  replace (plen pre + 4) with (plen pre + plen tw) by lia.
  rewrite slice_chk_app_mid. cbn [bind].
  assert (Hv : word_val be tw = a_ti a).
  { unfold tw. apply word_val_word_bytes_small. change (256 ^ N.of_nat 4) with 4294967296. exact Hti. }
  rewrite Hv. unfold verbose_body, with_index. cbn [it_verbose it_be mk_it].
  change {| it_verbose := true; it_be := be; it_index := plen pre + plen tw |} with (mk_it be (plen pre + plen tw)).
  rewrite app_length, Htwl in Hm.
  destruct Hcase as [[len [Hfl [Hlp Hlen]]]|[Hfl [Hlp [Hlen Hneg]]]].
  - rewrite Hfl. rewrite Hlp in *. cbn [app] in *.
    pose proof (fixed_len_pos _ _ Hfl) as Hpos.
    eexists. apply fixed_arg_short; [exact Hf| | |].
    + rewrite !plen_app. lia.
    + lia.
    + rewrite !plen_app, Htw. unfold plen at 2. rewrite firstn_length. unfold plen in Hlen. lia.
  - rewrite Hfl. unfold refused_or_lenpref. rewrite Hneg, Hlp. cbn [andb].
    rewrite Hlp in *.
    set (lw := word_bytes be 2 (trunc 16 (plen (a_raw a)))) in *.
    assert (Hlwl : length lw = 2%nat) by (unfold lw; apply word_bytes_length).
    rewrite app_length, Hlwl in Hm.
    destruct (Nat.lt_ge_cases (m - 4) 2) as [Hm2|Hm2].
    + eexists. apply lenpref_arg_short1; [exact Hf| |].
      * rewrite !plen_app. lia.
      * rewrite !plen_app, Htw. unfold plen at 2. rewrite firstn_length. lia.
    + rewrite firstn_app_ge in * by lia. rewrite Hlwl in *.
      replace (pre ++ tw ++ lw ++ firstn (m - 4 - 2) (a_raw a)) with ((pre ++ tw) ++ lw ++ firstn (m - 4 - 2) (a_raw a)) in *
        by (now rewrite <- app_assoc).
      replace (plen pre + plen tw) with (plen (pre ++ tw)) by (now rewrite plen_app).
      eexists. unfold lw. apply lenpref_arg_short2.
      * rewrite trunc16_small; exact Hlen.
      * rewrite trunc16_small by exact Hlen. unfold plen. rewrite firstn_length. lia.
      * exact Hf.
Qed.

Lemma collect_S f p it : collect (S f) p it =
  match arg_next p it with
  | Ok (None, it') => Ok ([], it')
  | Ok (Some a, it') =>
      match collect f p it' with
      | Ok (l, it'') => Ok (a :: l, it'')
      | Panic s => Panic s
      | OutOfFuel => OutOfFuel
      end
  | Panic s => Panic s
  | OutOfFuel => OutOfFuel
  end.
Proof. reflexivity. Qed.

(* number of arguments whose encoding lies completely inside the first k bytes *)
Fixpoint n_complete (be : bool) (k : nat) (args : list arg) : nat :=
  match args with
  | [] => O
  | a :: r => let n := length (enc_arg be a) in if (n <=? k)%nat then S (n_complete be (k - n) r) else O
  end.

Lemma collect_cut be : forall args pre k p,
  wf_args be args -> p = pre ++ firstn k (enc_args be args) -> fits p ->
  exists it', collect (S (n_complete be k args)) p (mk_it be (plen pre)) = Ok (firstn (n_complete be k args) args, it').
Proof.
  induction args as [|a args IH]; intros pre k p Hwf Hp Hf.
  - cbn [n_complete firstn collect]. cbn [enc_args flat_map] in Hp. rewrite firstn_nil, app_nil_r in Hp. subst p.
    rewrite arg_next_at_end; [eauto|exact Hf|lia|unfold slack; lia].
  - apply Forall_cons_iff in Hwf; destruct Hwf as [Ha Hr].
    rewrite enc_args_cons in Hp. cbn [n_complete].
    destruct (length (enc_arg be a) <=? k)%nat eqn:E.
    + apply Nat.leb_le in E. rewrite firstn_app_ge in Hp by exact E.
      cbn [firstn]. rewrite collect_S.
      rewrite (arg_next_enc be pre a (firstn (k - length (enc_arg be a)) (enc_args be args)) p Ha Hp Hf).
      destruct (IH (pre ++ enc_arg be a) (k - length (enc_arg be a))%nat p Hr) as [it' Hc].
      * rewrite Hp. now rewrite <- app_assoc.
      * exact Hf.
      * rewrite plen_app in Hc. rewrite Hc. eauto.
    + apply Nat.leb_gt in E. rewrite firstn_app_lt in Hp by lia.
      cbn [firstn]. rewrite collect_S.
      destruct (arg_next_cut be pre a k p Ha E Hp Hf) as [it' Hn]. rewrite Hn. eauto.
Qed.

Lemma n_complete_le be args : forall k, (n_complete be k args <= k)%nat /\ (n_complete be k args <= length (enc_args be args))%nat.
Proof.
  induction args as [|a r IH]; intros k; cbn [n_complete]; [lia|].
  rewrite enc_args_cons, app_length.
  destruct (length (enc_arg be a) <=? k)%nat eqn:E; [|lia].
  apply Nat.leb_le in E. destruct (IH (k - length (enc_arg be a))%nat) as [A B].
  pose proof (enc_arg_len_ge be a). lia.
Qed.

Theorem truncation_prefix be args k :
  wf_args be args -> fits (enc_args be args) ->
  msg_args true be (firstn k (enc_args be args)) = Ok (firstn (n_complete be k args) args).
Proof.
  intros Hwf Hf.
  assert (Hf' : fits (firstn k (enc_args be args))).
  { unfold fits, plen in *. rewrite firstn_length. lia. }
  destruct (collect_cut be args [] k _ Hwf eq_refl Hf') as [it' H].
  eapply collect_to_msg_args; [exact H|].
  destruct (n_complete_le be args k) as [A B]. rewrite firstn_length. lia.
Qed.

(* ------------------------------------------------------------------ typed values are well-formed arguments *)
Lemma wf_arg_fixed be ti raw len :
  ti < 4294967296 -> has ti TI_VARI = false -> has ti TI_FIXP = false ->
  fixed_len ti = Some len -> is_lenpref ti = false -> plen raw = len ->
  wf_arg be {| a_ti := ti; a_be := be; a_raw := raw |} = true.
Proof.
  intros H1 H2 H3 H4 H5 H6. unfold wf_arg. cbn [a_ti a_be a_raw].
  rewrite H2, H3, H4, H5, H6, eqb_reflx, N.eqb_refl.
  apply N.ltb_lt in H1. change (2 ^ 32) with 4294967296. rewrite H1. reflexivity.
Qed.

Lemma wf_arg_lenpref be ti raw :
  ti < 4294967296 -> has ti TI_VARI = false -> has ti TI_FIXP = false ->
  has ti TI_BOOL = false -> has ti (N.lor TI_SINT TI_UINT) = false -> has ti TI_FLOA = false ->
  is_lenpref ti = true -> plen raw <= 65535 ->
  wf_arg be {| a_ti := ti; a_be := be; a_raw := raw |} = true.
Proof.
  intros H1 H2 H3 H4 H5 H6 H7 H8. unfold wf_arg, fixed_len. cbn [a_ti a_be a_raw].
  rewrite H2, H3, H4, H5, H6, H7, eqb_reflx.
  apply N.ltb_lt in H1. change (2 ^ 32) with 4294967296. rewrite H1.
  apply N.leb_le in H8. rewrite H8. reflexivity.
Qed.

Lemma int_tyle_cases t : int_tyle t = true -> t = 1 \/ t = 2 \/ t = 3 \/ t = 4 \/ t = 5.
Proof.
  unfold int_tyle. intros H. apply andb_prop in H. destruct H as [A B].
  apply N.leb_le in A. apply N.leb_le in B. lia.
Qed.

Lemma wf_value_arg be v : wf_value v -> wf_arg be (value_arg be v) = true.
Proof.
  destruct v as [b|t z|t n|t bits|u s|b]; cbn [wf_value]; unfold value_arg; cbn [value_ti value_raw].
  - intros _. apply wf_arg_fixed with (len := 1); reflexivity.
  - intros [Ht _]. destruct (int_tyle_cases t Ht) as [E|[E|[E|[E|E]]]]; subst t;
      (eapply wf_arg_fixed; [reflexivity|reflexivity|reflexivity|reflexivity|reflexivity|rewrite plen_word_bytes; reflexivity]).
  - intros [Ht _]. destruct (int_tyle_cases t Ht) as [E|[E|[E|[E|E]]]]; subst t;
      (eapply wf_arg_fixed; [reflexivity|reflexivity|reflexivity|reflexivity|reflexivity|rewrite plen_word_bytes; reflexivity]).
  - intros [[E|E] _]; subst t;
      (eapply wf_arg_fixed; [reflexivity|reflexivity|reflexivity|reflexivity|reflexivity|rewrite plen_word_bytes; reflexivity]).
  - intros H. destruct u; apply wf_arg_lenpref; try reflexivity; exact H.
  - intros H. apply wf_arg_lenpref; try reflexivity; exact H.
Qed.

Lemma wf_values_args be vals : Forall wf_value vals -> wf_args be (map (value_arg be) vals).
Proof. intros H. unfold wf_args. rewrite Forall_map. eapply Forall_impl; [|exact H]. intros v. apply wf_value_arg. Qed.

(* payload_from_args takes the byte order of the first argument *)
Lemma payload_from_args_uniform be args : Forall (fun a => a_be a = be) args -> payload_from_args args = enc_args be args.
Proof. destruct args as [|a r]; [reflexivity|]. intros H. inversion H; subst. reflexivity. Qed.

Lemma payload_from_values be vals : payload_from_args (map (value_arg be) vals) = enc_args be (map (value_arg be) vals).
Proof. apply payload_from_args_uniform. rewrite Forall_map. apply Forall_forall. reflexivity. Qed.

(* ------------------------------------------------------------------ the serde serializer writes the same layout *)
Definition wf_sval (v : sval) : Prop :=
  match v with
  | SBool _ => True
  | SInt t _ | SUInt t _ => 1 <= t <= 4
  | SFloat t _ => t = 3 \/ t = 4
  | SStr s => plen s < 65535
  | SBytes b | SAscii b => plen b <= 65535
  | SUnit => False
  end.
Definition dummy_arg : arg := {| a_ti := 0; a_be := false; a_raw := [] |}.
Definition sval_arg_d (v : sval) : arg := match sval_arg v with Some a => a | None => dummy_arg end.

Lemma ser_one_layout v : wf_sval v -> ser_one v = SOk (enc_arg false (sval_arg_d v)) /\ wf_arg false (sval_arg_d v) = true.
Proof.
  destruct v as [b|t x|t x|t x|s|b|b|]; cbn [wf_sval]; intros H; unfold sval_arg_d; cbn [sval_arg ser_one].
  - split; [destruct b; reflexivity|]. apply wf_arg_fixed with (len := 1); reflexivity.
  - assert (E : t = 1 \/ t = 2 \/ t = 3 \/ t = 4) by lia. destruct E as [E|[E|[E|E]]]; subst t;
      (split; [reflexivity|eapply wf_arg_fixed; [reflexivity|reflexivity|reflexivity|reflexivity|reflexivity|rewrite plen_word_bytes; reflexivity]]).
  - assert (E : t = 1 \/ t = 2 \/ t = 3 \/ t = 4) by lia. destruct E as [E|[E|[E|E]]]; subst t;
      (split; [reflexivity|eapply wf_arg_fixed; [reflexivity|reflexivity|reflexivity|reflexivity|reflexivity|rewrite plen_word_bytes; reflexivity]]).
  - destruct H as [E|E]; subst t;
      (split; [reflexivity|eapply wf_arg_fixed; [reflexivity|reflexivity|reflexivity|reflexivity|reflexivity|rewrite plen_word_bytes; reflexivity]]).
  - assert (E : (65535 <=? plen s) = false) by (apply N.leb_gt; exact H). rewrite E.
    split.
    + unfold enc_arg. cbn [a_ti a_raw]. change (is_lenpref (N.lor TI_STRG SCOD_UTF8)) with true. cbn iota.
      rewrite plen_app. change (plen [0]) with 1.
      rewrite (trunc16_small (plen s)) by lia. rewrite N.add_comm. reflexivity.
    + apply wf_arg_lenpref; try reflexivity. rewrite plen_app. change (plen [0]) with 1. lia.
  - unfold ser_bytes_with. assert (E : (65535 <? plen b) = false) by (apply N.ltb_ge; exact H). rewrite E.
    split; [reflexivity|]. apply wf_arg_lenpref; try reflexivity. exact H.
  - unfold ser_bytes_with. assert (E : (65535 <? plen b) = false) by (apply N.ltb_ge; exact H). rewrite E.
    split; [reflexivity|]. apply wf_arg_lenpref; try reflexivity. exact H.
  - contradiction.
Qed.

Lemma ser_all_layout : forall vals nr out, Forall wf_sval vals ->
  ser_all vals nr out = SOk (nr + N.of_nat (length vals), out ++ enc_args false (map sval_arg_d vals)).
Proof.
  induction vals as [|v r IH]; intros nr out H.
  - cbn. now rewrite N.add_0_r, app_nil_r.
  - apply Forall_cons_iff in H. destruct H as [Hv Hr].
    cbn [ser_all]. destruct (ser_one_layout v Hv) as [E _]. rewrite E.
    rewrite IH by exact Hr. cbn [map length]. rewrite enc_args_cons, <- app_assoc. f_equal. f_equal. lia.
Qed.

Theorem dlt_args_layout vals : Forall wf_sval vals ->
  dlt_args vals = SOk (N.of_nat (length vals), enc_args false (map sval_arg_d vals)) /\
  wf_args false (map sval_arg_d vals).
Proof.
  intros H. split.
  - unfold dlt_args. now rewrite ser_all_layout.
  - unfold wf_args. rewrite Forall_map. eapply Forall_impl; [|exact H]. intros v Hv. apply ser_one_layout, Hv.
Qed.
