(* C03, modelled core: the time and length arithmetic of the text converters, as repaired by the fixes 21ad8ac, d799ea3
   (asc), 9d724de (logcat) and be7e6d2 (u16 `len`):

     src/utils/asc2dltmsgiterator.rs      parse_signed_time_str, timestamp_dms_from, the date line (offset to the
                                          reference time), one CAN line of RE_MSG (timestamp, data length, the data
                                          slice `line.get(loc_d_start..loc_d_end).and_then(hex_to_bytes)`, payload
                                          truncation, `len`), the `len` of a BusMapping message
     src/utils/logcat2dltmsgiterator.rs   parse_time_str, reception_time_us_from, timestamp_dms_from, the `len` of
                                          the GET_LOG_INFO message of a new tag (same code in genlog2dltmsgiterator.rs)

   Conventions as in Crash/TextUtils.v (a &str is its UTF-8 bytes; `&s[a..b]` = [str_slice]; `s.get(a..b)` = [str_get]).
   u64 / usize / u32 / u16 values are N, i64 values are Z.  `parse::<T>()` is transcribed from core::num (from_str_radix
   with radix 10): an optional sign ('+', for signed types also '-'), then at least one ASCII digit, the value must
   fit; everything else is an error -- which the converters turn into 0 by `unwrap_or_default()`.  So a digit string
   of ANY length is handled: too long / non-ASCII digits (the regexes' \d is Unicode aware) => 0.
   saturating_mul / saturating_add / saturating_sub / saturating_add_signed / wrapping_add / `as` casts never panic and
   are total functions here; `*=`, `+=`, `-=`, unary `-`, `+`, `-`, `*` on usize are checked operations.
   External (inputs of the model): the capture locations of the regexes, chrono's result for a date line.
   No proofs in this file (Crash/TextTimeProofs.v). *)
From Coq Require Import List NArith ZArith Bool.
From AdltV Require Import Base.Res Base.MachInt Crash.TextUtils.
Import ListNotations.
Open Scope N_scope.

Definition i64max : Z := 9223372036854775807.
Definition i64min : Z := (-9223372036854775808)%Z.
Definition i64max_n : N := 9223372036854775807.
Definition site_neg_overflow : N := 42.

Definition sat_i64 (z : Z) : Z := Z.max i64min (Z.min i64max z).
Definition i64_mul_chk (a b : Z) : res Z :=
  let r := (a * b)%Z in if ((i64min <=? r) && (r <=? i64max))%Z then Ok r else Panic site_mul_overflow.
Definition i64_neg_chk (a : Z) : res Z := if (a =? i64min)%Z then Panic site_neg_overflow else Ok (- a)%Z.
(* `x as i64` of a u64, `x as u32` / `x as u64` of an i64 (two's complement) *)
Definition u64_as_i64 (n : N) : Z := if n <=? i64max_n then Z.of_N n else (Z.of_N n - 18446744073709551616)%Z.
Definition i64_as_u32 (z : Z) : N := Z.to_N (z mod 4294967296).
Definition i64_as_u64 (z : Z) : N := Z.to_N (z mod 18446744073709551616).
Definition sat_add_u64 (a b : N) : N := N.min (a + b) u64max.
(* u64::saturating_add_signed(i64) *)
Definition sat_add_signed_u64 (a : N) (b : Z) : N :=
  let r := (Z.of_N a + b)%Z in
  if (r <? 0)%Z then 0 else if (Z.of_N u64max <? r)%Z then u64max else Z.to_N r.

(* ------------------------------------------------------------------ str::parse::<integer>() *)
Definition dec_digit (c : N) : option N := if (48 <=? c) && (c <=? 57) then Some (c - 48) else None.
Fixpoint dec_value (acc : N) (ds : bytes) : option N :=
  match ds with
  | [] => Some acc
  | c :: r => match dec_digit c with Some d => dec_value (acc * 10 + d) r | None => None end
  end.
(* unsigned types: "+"? digits; '-' is an invalid digit *)
Definition parse_unsigned (max : N) (s : bytes) : option N :=
  match s with
  | [] => None
  | c :: r =>
      let ds := if c =? 43 then r else s in
      match ds with
      | [] => None
      | _ => match dec_value 0 ds with Some v => if v <=? max then Some v else None | None => None end
      end
  end.
Definition parse_i64 (s : bytes) : option Z :=
  match s with
  | [] => None
  | c :: r =>
      if c =? 45 then
        match r with
        | [] => None
        | _ => match dec_value 0 r with
               | Some v => if v <=? 9223372036854775808 then Some (- Z.of_N v)%Z else None
               | None => None
               end
        end
      else
        let ds := if c =? 43 then r else s in
        match ds with
        | [] => None
        | _ => match dec_value 0 ds with
               | Some v => if v <=? i64max_n then Some (Z.of_N v) else None
               | None => None
               end
        end
  end.

(* str::find('.') / str::starts_with('-'): byte searches (ASCII) *)
Fixpoint find_byte (b : N) (s : bytes) (i : N) : option N :=
  match s with
  | [] => None
  | c :: r => if c =? b then Some i else find_byte b r (i + 1)
  end.
Definition starts_with_byte (b : N) (s : bytes) : bool := match s with c :: _ => c =? b | [] => false end.
(* s.get(a..b) *)
Definition str_get (s : bytes) (a b : N) : option bytes :=
  if (a <=? b) && is_char_boundary s a && is_char_boundary s b
  then Some (firstn (N.to_nat (b - a)) (skipn (N.to_nat a) s))
  else None.

(* ------------------------------------------------------------------ asc: parse_signed_time_str *)
(* `while len_fraction < 6 { timestamp_fraction_us *= 10; len_fraction += 1; }` *)
Fixpoint frac_up_i64 (fuel : nat) (f : Z) (len : N) : res (Z * N) :=
  match fuel with
  | O => OutOfFuel
  | S k => if len <? 6 then (f' <- i64_mul_chk f 10 ;; l' <- add_chk usizemax len 1 ;; frac_up_i64 k f' l')%res
           else Ok (f, len)
  end.
(* `while len_fraction > 6 { timestamp_fraction_us /= 10; len_fraction -= 1; }` *)
Fixpoint frac_down_i64 (fuel : nat) (f : Z) (len : N) : res (Z * N) :=
  match fuel with
  | O => OutOfFuel
  | S k => if 6 <? len then (l' <- sub_chk len 1 ;; frac_down_i64 k (Z.quot f 10) l')%res
           else Ok (f, len)
  end.

Definition parse_signed_time_str (timestamp : bytes) : res Z :=
  (let timestamp_is_neg := starts_with_byte 45 timestamp in
   let offset_timestamp := if timestamp_is_neg then 1 else 0 in
   let dot_idx := match find_byte 46 timestamp 0 with Some i => i | None => blen timestamp end in
   secs_s <- str_slice timestamp offset_timestamp dot_idx ;;
   let timestamp_secs_us := sat_i64 (match parse_i64 secs_s with Some v => v | None => 0%Z end * 1000000) in
   timestamp_fraction_us <-
     (if dot_idx <? blen timestamp then
        d1 <- add_chk usizemax dot_idx 1 ;;
        fs <- str_slice_from timestamp d1 ;;
        let len_fraction := blen fs in
        let f0 := u64_as_i64 (unwrap_or (parse_unsigned u64max fs) 0) in
        if negb (len_fraction =? 6) then
          x <- frac_up_i64 7 f0 len_fraction ;;
          y <- frac_down_i64 (S (length fs)) (fst x) (snd x) ;;
          Ok (fst y)
        else Ok f0
      else Ok 0%Z) ;;
   let timestamp_us := sat_i64 (timestamp_secs_us + timestamp_fraction_us) in
   if timestamp_is_neg then i64_neg_chk timestamp_us else Ok timestamp_us)%res.

(* ------------------------------------------------------------------ asc: iterator state, date line, CAN line *)
Record asc_st := { a_date_us : N; a_offset_dms : N; a_first_neg : Z }.
Definition LEN_WO_PAYLOAD : N := 22.       (* DLT_MIN_STD_HEADER_SIZE + 4 + 4 + DLT_EXT_HEADER_SIZE *)

Definition timestamp_dms_from (st : asc_st) (timestamp_us : Z) : res N :=
  (if (0 <=? timestamp_us)%Z then
     Ok (wrapping_add 32 (a_offset_dms st) (i64_as_u32 (Z.quot timestamp_us 100)))
   else if 0 <? a_offset_dms st then
     n <- i64_neg_chk timestamp_us ;;
     Ok (sat_sub (a_offset_dms st) (i64_as_u32 (Z.quot n 100)))
   else Ok (i64_as_u32 (Z.quot (sat_i64 (timestamp_us - a_first_neg st)) 100)))%res.

(* a "date .." line that chrono parsed to nt (microseconds since 1970, may be negative);
   `nt_us = nt.max(0) as u64`, first_neg reset, offset to the reference time if that is earlier *)
Definition asc_date_line (st : asc_st) (reference : option N) (nt : Z) : res asc_st :=
  (let nt_us := Z.to_N (Z.max nt 0) in
   off <- (match reference with
           | Some r => if r <? nt_us then (d <- sub_chk nt_us r ;; Ok (trunc 32 (d / 100))) else Ok (a_offset_dms st)
           | None => Ok (a_offset_dms st)
           end) ;;
   Ok {| a_date_us := nt_us; a_offset_dms := off; a_first_neg := 0%Z |})%res.

(* one line matched by RE_MSG; (ts_a, ts_b) = capture 1 (timestamp), (d_a, d_b) = capture 5 (data length).
   result: state, reception time, timestamp_dms, standard_header.len, the data bytes behind the 4 bytes frame id *)
Definition asc_can_line (st : asc_st) (line : bytes) (ts_a ts_b d_a d_b : N) : res (asc_st * (N * N * N * bytes)) :=
  (ts_s <- str_slice line ts_a ts_b ;;
   timestamp_us <- parse_signed_time_str ts_s ;;
   let st := if (timestamp_us <? 0)%Z && (a_first_neg st =? 0)%Z
             then {| a_date_us := a_date_us st; a_offset_dms := a_offset_dms st; a_first_neg := timestamp_us |} else st in
   d_s <- str_slice line d_a d_b ;;
   let data_len := unwrap_or (parse_unsigned u16max d_s) 0 in
   loc_d_start <- add_chk usizemax d_b 1 ;;
   x <- mul_chk usizemax 3 data_len ;;
   y <- add_chk usizemax loc_d_start x ;;
   loc_d_end <- sub_chk y 1 ;;
   data <- (if (0 <? data_len) && (loc_d_end <? blen line) then
              match str_get line loc_d_start loc_d_end with Some sl => hex_to_bytes sl | None => Ok None end
            else Ok None) ;;
   cap <- add_chk usizemax 4 data_len ;;                   (* Vec::with_capacity(4 + data_len) *)
   lim <- sub_chk u16max LEN_WO_PAYLOAD ;;                 (* payload.truncate(u16::MAX - len_wo_payload) *)
   let data := unwrap_or data [] in
   let kept := firstn (N.to_nat (lim - 4)) data in
   let payload_len := N.min (4 + blen data) lim in
   len <- add_chk u16max LEN_WO_PAYLOAD (trunc 16 payload_len) ;;
   tdms <- timestamp_dms_from st timestamp_us ;;
   Ok (st, (sat_add_signed_u64 (a_date_us st) timestamp_us, tdms, len, kept)))%res.

(* `len` of the GET_LOG_INFO message of a BusMapping line (asc) / of a new tag (logcat, genlog): 15 bytes before
   the name, the name cut to u16::MAX - len_wo_payload - 15 bytes *)
Definition info_msg_len (name_len : N) : res N :=
  (l1 <- sub_chk u16max LEN_WO_PAYLOAD ;;
   l2 <- sub_chk l1 15 ;;
   let n := N.min name_len l2 in
   add_chk u16max LEN_WO_PAYLOAD (trunc 16 (15 + n)))%res.

(* ------------------------------------------------------------------ logcat: parse_time_str and the message times *)
Fixpoint frac_up_u64 (fuel : nat) (f : N) (len : N) : res (N * N) :=
  match fuel with
  | O => OutOfFuel
  | S k => if len <? 6 then (f' <- mul_chk u64max f 10 ;; l' <- add_chk usizemax len 1 ;; frac_up_u64 k f' l')%res
           else Ok (f, len)
  end.
Fixpoint frac_down_u64 (fuel : nat) (f : N) (len : N) : res (N * N) :=
  match fuel with
  | O => OutOfFuel
  | S k => if 6 <? len then (l' <- sub_chk len 1 ;; frac_down_u64 k (f / 10) l')%res
           else Ok (f, len)
  end.

Definition parse_time_str (timestamp : bytes) : res N :=
  (let dot_idx := match find_byte 46 timestamp 0 with Some i => i | None => blen timestamp end in
   secs_s <- str_slice timestamp 0 dot_idx ;;
   let timestamp_secs_us := N.min (unwrap_or (parse_unsigned u64max secs_s) 0 * 1000000) u64max in
   timestamp_fraction_us <-
     (if dot_idx <? blen timestamp then
        d1 <- add_chk usizemax dot_idx 1 ;;
        fs <- str_slice_from timestamp d1 ;;
        let len_fraction := blen fs in
        let f0 := unwrap_or (parse_unsigned u64max fs) 0 in
        if len_fraction =? 3 then mul_chk u64max f0 1000
        else if negb (len_fraction =? 6) then
          x <- frac_up_u64 7 f0 len_fraction ;;
          y <- frac_down_u64 (S (length fs)) (fst x) (snd x) ;;
          Ok (fst y)
        else Ok f0
      else Ok 0) ;;
   Ok (sat_add_u64 timestamp_secs_us timestamp_fraction_us))%res.

(* reception_time_us_from / timestamp_dms_from of the logcat converter *)
Definition logcat_reception_time (recorded_start_time_us timestamp_us : N) : N :=
  N.min (sat_add_u64 recorded_start_time_us timestamp_us) i64max_n.
Definition logcat_timestamp_dms (timestamp_us : N) : N := trunc 32 (timestamp_us / 100).
(* one line matched by RE_MONOTONIC: reception time, timestamp_dms *)
Definition logcat_mono_line (recorded_start_time_us : N) (ts_s : bytes) : res (N * N) :=
  (timestamp_us <- parse_time_str ts_s ;;
   Ok (logcat_reception_time recorded_start_time_us timestamp_us, logcat_timestamp_dms timestamp_us))%res.
