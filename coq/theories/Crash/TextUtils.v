(* C03, modelled core: byte-exact model of the string helpers of src/utils/mod.rs that the text converters
   (logcat, generic log, CAN asc) call for every line:

     get_4digit_str(a_str, iteration)       candidate text "<prefix><iteration>" cut to 4 bytes at a char boundary
     get_apid_for_tag(namespace, tag)       as repaired by 4e6600d, c5fa240, 7a6b3d3: the abbreviation of a tag
                                            (blank / short / snake_case / CamelCase), the `loop` over candidates
                                            with the u16 `iteration` counter, the tag -> apid map per namespace
     hex_to_bytes(s)                        as repaired by 8d20f25
     DltChar4::from_str (src/dlt/mod.rs)    non-ASCII => Err, else the first <= 4 bytes, zero padded

   Conventions.  A `&str` / `String` is the list of its UTF-8 bytes ([bytes] = list N); `len()` = byte length
   ([blen]); the std functions used are transcribed from their definitions:
     str::is_char_boundary(i)   i == 0 || (i >= len ? i == len : (bytes[i] as i8) >= -0x40)
     &s[a..b]                   panics unless a <= b and both are char boundaries ([str_slice]; a boundary is <= len)
     str::chars()               UTF-8 decoder to code points ([chars]; on valid UTF-8 it is the std iterator)
     char::is_ascii / is_ascii_uppercase / == '_'       on code points
     str::trim()                White_Space of Unicode: the ASCII part U+0009..U+000D, U+0020 exactly, the non-ASCII part is
                                the enumerated list [ws_nonascii] (U+0085 U+00A0 U+1680 U+2000..U+200A U+2028 U+2029
                                U+202F U+205F U+3000); leading and trailing characters are removed
     str::contains('_')         a byte 0x5f (an ASCII byte is never part of a multi-byte character)
     u16::to_string             decimal digits ([dec])
     format!("{}{:0len$}")      the number left-padded with '0' to the width ([pad0]); never truncates
     u8::from_str_radix(_, 16)  optional leading '+' (a lone "+" or "-" is an error, '-' is not a sign for unsigned
                                types), then 1.. hex digits of either case, value <= 255
   Every `unwrap`, slice `&a_str[0..end]`, `end -= 1`, `4 - len_str`, `4 - len_number`, `iteration += 1`, `acc + 1`
   (usize), `needed_other -= 1`, `s.len() - 2`, `i + 2` is an operation of the [res] monad that returns [Panic] when the
   Rust operation would (debug build); `loop` / `while` run on explicit fuel ([OutOfFuel] is proved unreachable).
   The HashMap<String, DltChar4> of one namespace is an association list ([amap]); `map.iter().find(|(_k, v)| v ==
   &&apid)` only tests existence, so the iteration order of the HashMap is irrelevant.  A DltChar4 is the big-endian
   u32 of its 4 bytes.  Outside the model: the RwLock (`write().unwrap()` panics only after a panic of another
   holder), allocation of the strings.
   No proofs in this file (Crash/TextUtilsProofs.v). *)
From Coq Require Import List NArith Bool.
From AdltV Require Import Base.Res Base.MachInt.
Import ListNotations.
Open Scope N_scope.

Definition bytes := list N.
Definition blen (l : bytes) : N := N.of_nat (length l).

Definition site_str_slice : N := 40.     (* &s[a..b]: a > b, out of range or not on a char boundary *)
Definition site_unwrap_err : N := 41.    (* Result::unwrap() on Err / Option::unwrap() on None *)

Definition unwrap_res {A} (o : option A) : res A := match o with Some a => Ok a | None => Panic site_unwrap_err end.
Definition unwrap_or {A} (o : option A) (d : A) : A := match o with Some a => a | None => d end.

(* ------------------------------------------------------------------ str primitives *)
(* UTF-8 continuation byte 10xxxxxx *)
Definition is_cont (b : N) : bool := (128 <=? b) && (b <? 192).

Definition is_char_boundary (s : bytes) (i : N) : bool :=
  if i =? 0 then true
  else if blen s <=? i then i =? blen s
  else negb (is_cont (nth (N.to_nat i) s 0)).

(* &s[a..b] *)
Definition str_slice (s : bytes) (a b : N) : res bytes :=
  if (a <=? b) && is_char_boundary s a && is_char_boundary s b
  then Ok (firstn (N.to_nat (b - a)) (skipn (N.to_nat a) s))
  else Panic site_str_slice.
(* &s[a..] *)
Definition str_slice_from (s : bytes) (a : N) : res bytes := str_slice s a (blen s).

Definition is_ascii_b (b : N) : bool := b <? 128.
Definition all_ascii (s : bytes) : bool := forallb is_ascii_b s.

(* the well-formed UTF-8 byte strings (the values of type &str): shortest form, no surrogates, <= U+10FFFF *)
Fixpoint utf8_valid (s : bytes) : bool :=
  match s with
  | [] => true
  | b0 :: r =>
      if b0 <? 128 then utf8_valid r
      else if (194 <=? b0) && (b0 <? 224) then
        match r with b1 :: r1 => is_cont b1 && utf8_valid r1 | _ => false end
      else if (224 <=? b0) && (b0 <? 240) then
        match r with
        | b1 :: b2 :: r2 =>
            is_cont b1 && is_cont b2 && (negb (b0 =? 224) || (160 <=? b1)) && (negb (b0 =? 237) || (b1 <? 160)) && utf8_valid r2
        | _ => false
        end
      else if (240 <=? b0) && (b0 <? 245) then
        match r with
        | b1 :: b2 :: b3 :: r3 =>
            is_cont b1 && is_cont b2 && is_cont b3 && (negb (b0 =? 240) || (144 <=? b1)) && (negb (b0 =? 244) || (b1 <? 144)) && utf8_valid r3
        | _ => false
        end
      else false
  end.

Definition cp2 (b0 b1 : N) : N := (b0 mod 32) * 64 + b1 mod 64.
Definition cp3 (b0 b1 b2 : N) : N := (b0 mod 16) * 4096 + (b1 mod 64) * 64 + b2 mod 64.
Definition cp4 (b0 b1 b2 b3 : N) : N := (b0 mod 8) * 262144 + (b1 mod 64) * 4096 + (b2 mod 64) * 64 + b3 mod 64.

(* str::chars(): the code points (65533 = U+FFFD stands for a truncated sequence, which a &str never has) *)
Fixpoint chars (s : bytes) : list N :=
  match s with
  | [] => []
  | b0 :: r =>
      if b0 <? 128 then b0 :: chars r
      else if b0 <? 224 then
        match r with b1 :: r1 => cp2 b0 b1 :: chars r1 | _ => [65533] end
      else if b0 <? 240 then
        match r with b1 :: b2 :: r2 => cp3 b0 b1 b2 :: chars r2 | _ => [65533] end
      else
        match r with b1 :: b2 :: b3 :: r3 => cp4 b0 b1 b2 b3 :: chars r3 | _ => [65533] end
  end.

(* char::is_whitespace = Unicode White_Space *)
Definition ws_nonascii : list N :=
  [133; 160; 5760; 8192; 8193; 8194; 8195; 8196; 8197; 8198; 8199; 8200; 8201; 8202; 8232; 8233; 8239; 8287; 12288].
Definition is_ws (c : N) : bool := ((9 <=? c) && (c <=? 13)) || (c =? 32) || existsb (N.eqb c) ws_nonascii.

(* str::trim_start(): drops leading white-space characters (no white space beyond U+3000: 4-byte characters stop it) *)
Fixpoint trim_start (s : bytes) : bytes :=
  match s with
  | [] => []
  | b0 :: r =>
      if b0 <? 128 then (if is_ws b0 then trim_start r else s)
      else if b0 <? 224 then
        match r with b1 :: r1 => if is_ws (cp2 b0 b1) then trim_start r1 else s | _ => s end
      else if b0 <? 240 then
        match r with b1 :: b2 :: r2 => if is_ws (cp3 b0 b1 b2) then trim_start r2 else s | _ => s end
      else s
  end.
(* str::trim_end() on the reversed byte list: the last character is 1 ASCII byte, or a lead byte 110xxxxx + 1, or
   1110xxxx + 2 continuation bytes *)
Fixpoint trim_end_rev (r : bytes) : bytes :=
  match r with
  | [] => []
  | c0 :: r0 =>
      if c0 <? 128 then (if is_ws c0 then trim_end_rev r0 else r)
      else
        match r0 with
        | c1 :: r1 =>
            if (192 <=? c1) && (c1 <? 224) then (if is_ws (cp2 c1 c0) then trim_end_rev r1 else r)
            else
              match r1 with
              | c2 :: r2 =>
                  if (224 <=? c2) && (c2 <? 240) && is_cont c1 then (if is_ws (cp3 c2 c1 c0) then trim_end_rev r2 else r)
                  else r
              | [] => r
              end
        | [] => r
        end
  end.
(* (reversal by rev_append: linear time) *)
Definition trim (s : bytes) : bytes := rev_append (trim_end_rev (rev_append (trim_start s) [])) [].

(* u16::to_string / Display of an unsigned integer: decimal digits, no sign, no leading zero *)
Fixpoint dec_fuel (fuel : nat) (n : N) : bytes :=
  match fuel with
  | O => []
  | S f => if n <? 10 then [48 + n] else dec_fuel f (n / 10) ++ [48 + n mod 10]
  end.
Definition dec (n : N) : bytes := dec_fuel 20 n.        (* 20 digits: every u64 *)
(* {:0w$} *)
Definition pad0 (w : N) (d : bytes) : bytes := repeat 48 (N.to_nat (w - blen d)) ++ d.

(* ------------------------------------------------------------------ DltChar4::from_str *)
(* chars[..min(len, 4)].clone_from_slice(&bytes[..min(len, 4)]) into [0; 4]; as big-endian u32 *)
Definition c4_of (s : bytes) : N := nth 0 s 0 * 16777216 + nth 1 s 0 * 65536 + nth 2 s 0 * 256 + nth 3 s 0.
Definition char4_from_str (s : bytes) : option N := if all_ascii s then Some (c4_of s) else None.

(* ------------------------------------------------------------------ get_4digit_str *)
(* `while !a_str.is_char_boundary(end) { end -= 1; }` *)
Fixpoint back_to_boundary (fuel : nat) (s : bytes) (e : N) : res N :=
  match fuel with
  | O => OutOfFuel
  | S f => if is_char_boundary s e then Ok e else (e' <- sub_chk e 1 ;; back_to_boundary f s e')%res
  end.

Definition get_4digit_str (a_str : bytes) (iteration : N) : res bytes :=
  (if iteration =? 0 then Ok a_str else
   let len_str := blen a_str in
   let number_str := dec iteration in
   let len_number := blen number_str in
   needed_str <- (if 3 <? len_number then Ok 0 else sub_chk 4 len_number) ;;
   if len_str <? needed_str then
     w <- sub_chk 4 len_str ;;
     Ok (a_str ++ pad0 w number_str)
   else
     e <- back_to_boundary (S (N.to_nat needed_str)) a_str needed_str ;;
     pre <- str_slice a_str 0 e ;;
     Ok (pre ++ number_str))%res.

(* ------------------------------------------------------------------ abbreviation of a tag of more than 4 bytes *)
Definition is_underscore (c : N) : bool := c =? 95.
Definition is_ascii_c (c : N) : bool := c <? 128.
Definition is_ascii_upper (c : N) : bool := (65 <=? c) && (c <=? 90).

(* chars().fold(0usize, |acc, c| if p(c) { acc + 1 } else { acc })   (usize since fix bf09881; u32 before: max = u32max) *)
Definition count_chk_gen (max : N) (p : N -> bool) (cs : list N) : res N :=
  fold_left (fun acc c => (a <- acc ;; if p c then add_chk max a 1 else Ok a)%res) cs (Ok 0).
Definition count_chk := count_chk_gen usizemax.

(* `for c in trimmed_tag.chars() { .. if abbrev.len() >= 4 { break; } }` of the snake_case branch; a pushed char is
   ASCII, i.e. one byte *)
Fixpoint snake_loop (cs : list N) (abbrev : bytes) (take_next : bool) (needed_other : N) : res bytes :=
  match cs with
  | [] => Ok abbrev
  | c :: r =>
      (st <- (if is_underscore c then Ok (abbrev, true, needed_other)
              else if is_ascii_c c then
                (if take_next || (0 <? needed_other) then
                   n' <- (if negb take_next then sub_chk needed_other 1 else Ok needed_other) ;;
                   Ok (abbrev ++ [c], false, n')
                 else Ok (abbrev, false, needed_other))
              else Ok (abbrev, take_next, needed_other)) ;;
       let '(abbrev', take_next', needed') := st in
       if 4 <=? blen abbrev' then Ok abbrev' else snake_loop r abbrev' take_next' needed')%res
  end.
Definition snake_abbrev (t : bytes) : res bytes :=
  (nr_underscore <- count_chk is_underscore (chars t) ;;
   needed_other <- (if nr_underscore <? 3 then sub_chk 3 nr_underscore else Ok 0) ;;
   snake_loop (chars t) [] true needed_other)%res.

Fixpoint camel_loop (cs : list N) (abbrev : bytes) (needed_lowercase : N) : res bytes :=
  match cs with
  | [] => Ok abbrev
  | c :: r =>
      (st <- (if is_ascii_upper c then Ok (abbrev ++ [c], needed_lowercase)
              else if (0 <? needed_lowercase) && is_ascii_c c then
                n' <- sub_chk needed_lowercase 1 ;; Ok (abbrev ++ [c], n')
              else Ok (abbrev, needed_lowercase)) ;;
       let '(abbrev', needed') := st in
       if 4 <=? blen abbrev' then Ok abbrev' else camel_loop r abbrev' needed')%res
  end.
Definition camel_abbrev (t : bytes) : res bytes :=
  (nr_capital <- count_chk is_ascii_upper (chars t) ;;
   needed_lowercase <- (if nr_capital <? 4 then sub_chk 4 nr_capital else Ok 0) ;;
   camel_loop (chars t) [] needed_lowercase)%res.

(* ------------------------------------------------------------------ one turn of the loop: the apid candidate *)
Definition NOAS : bytes := [78; 111; 65; 115].          (* "NoAs" *)
(* DltChar4::from_str(&get_4digit_str("NoAs", iteration)).unwrap(): the argument of unwrap_or, evaluated eagerly *)
Definition noas_apid (iteration : N) : res N :=
  (s <- get_4digit_str NOAS iteration ;; unwrap_res (char4_from_str s))%res.

Definition candidate (trimmed_tag : bytes) (iteration : N) : res N :=
  (let n := blen trimmed_tag in
   if n =? 0 then
     s <- get_4digit_str [32] iteration ;; unwrap_res (char4_from_str s)
   else if n <=? 4 then
     s <- get_4digit_str trimmed_tag iteration ;;
     d <- noas_apid iteration ;;
     Ok (unwrap_or (char4_from_str s) d)
   else
     abbrev <- (if existsb is_underscore trimmed_tag then snake_abbrev trimmed_tag else camel_abbrev trimmed_tag) ;;
     s <- get_4digit_str abbrev iteration ;;
     d <- noas_apid iteration ;;
     Ok (unwrap_or (char4_from_str s) d))%res.

(* ------------------------------------------------------------------ the map of one namespace and the loop *)
Definition amap := list (bytes * N).
Fixpoint bytes_eqb (a b : bytes) : bool :=
  match a, b with
  | [], [] => true
  | x :: a', y :: b' => (x =? y) && bytes_eqb a' b'
  | _, _ => false
  end.
Definition map_get (k : bytes) (m : amap) : option N :=
  match find (fun kv => bytes_eqb (fst kv) k) m with Some kv => Some (snd kv) | None => None end.
(* map.insert(tag.to_owned(), apid): both call sites are reached only after `map.get(tag)` returned None and the map
   was not changed since, so the key is new and the entry is added *)
Definition map_insert (k : bytes) (v : N) (m : amap) : amap := (k, v) :: m.
(* map.iter().find(|(_k, v)| v == &&apid).is_some() *)
Definition values_contain (m : amap) (apid : N) : bool := existsb (fun kv => snd kv =? apid) m.

Definition LAST_ITERATION : N := 9999.

(* result: (apid, iteration at which it was taken, map afterwards) *)
Fixpoint apid_loop (fuel : nat) (m : amap) (tag trimmed_tag : bytes) (iteration : N) : res (N * N * amap) :=
  match fuel with
  | O => OutOfFuel
  | S f =>
      (apid <- candidate trimmed_tag iteration ;;
       if values_contain m apid then
         if LAST_ITERATION <=? iteration then Ok (apid, iteration, map_insert tag apid m)
         else
           iteration' <- add_chk u16max iteration 1 ;;
           apid_loop f m tag trimmed_tag iteration'
       else Ok (apid, iteration, map_insert tag apid m))%res
  end.

Definition APID_FUEL : nat := N.to_nat 10001.
Definition get_apid_for_tag (m : amap) (tag : bytes) : res (N * N * amap) :=
  match map_get tag m with
  | Some e => Ok (e, 0, m)
  | None => apid_loop APID_FUEL m tag (trim tag) 0
  end.

(* the code before fix 7a6b3d3: no bound on the iteration *)
Fixpoint apid_loop_before_fix (fuel : nat) (m : amap) (tag trimmed_tag : bytes) (iteration : N) : res (N * N * amap) :=
  match fuel with
  | O => OutOfFuel
  | S f =>
      (apid <- candidate trimmed_tag iteration ;;
       if values_contain m apid then
         iteration' <- add_chk u16max iteration 1 ;;
         apid_loop_before_fix f m tag trimmed_tag iteration'
       else Ok (apid, iteration, map_insert tag apid m))%res
  end.
Definition get_apid_for_tag_before_fix (fuel : nat) (m : amap) (tag : bytes) : res (N * N * amap) :=
  match map_get tag m with
  | Some e => Ok (e, 0, m)
  | None => apid_loop_before_fix fuel m tag (trim tag) 0
  end.

(* GLOBAL_TAG_APID_MAP: namespace -> map; `namespace_map.entry(namespace).or_default()` *)
Definition nsmap := list (N * amap).
Definition ns_get (ns : N) (g : nsmap) : amap :=
  match find (fun e => fst e =? ns) g with Some e => snd e | None => [] end.
Definition ns_put (ns : N) (m : amap) (g : nsmap) : nsmap :=
  (ns, m) :: filter (fun e => negb (fst e =? ns)) g.
Definition get_apid_for_tag_ns (g : nsmap) (ns : N) (tag : bytes) : res (N * N * nsmap) :=
  (r <- get_apid_for_tag (ns_get ns g) tag ;;
   let '(apid, it, m') := r in Ok (apid, it, ns_put ns m' g))%res.

(* a sequence of calls in one namespace, starting from the map m: the apids in call order *)
Fixpoint fold_calls {S A B} (f : S -> A -> res (B * S)) (s : S) (l : list A) : res (list B * S) :=
  match l with
  | [] => Ok ([], s)
  | a :: r =>
      (x <- f s a ;;
       y <- fold_calls f (snd x) r ;;
       Ok (fst x :: fst y, snd y))%res
  end.
Definition apid_call (m : amap) (tag : bytes) : res (N * amap) :=
  (x <- get_apid_for_tag m tag ;; Ok (fst (fst x), snd x))%res.
Definition apids_of_tags (m : amap) (tags : list bytes) : res (list N * amap) := fold_calls apid_call m tags.

(* ------------------------------------------------------------------ hex_to_bytes *)
Definition hex_digit (c : N) : option N :=
  if (48 <=? c) && (c <=? 57) then Some (c - 48)
  else if (97 <=? c) && (c <=? 102) then Some (c - 87)
  else if (65 <=? c) && (c <=? 70) then Some (c - 55)
  else None.
(* the digit loop of from_str_radix with the overflow check of the target type *)
Fixpoint radix16_digits (max acc : N) (ds : bytes) : option N :=
  match ds with
  | [] => Some acc
  | c :: r =>
      match hex_digit c with
      | Some d => if acc * 16 + d <=? max then radix16_digits max (acc * 16 + d) r else None
      | None => None
      end
  end.
Definition u8_from_str_radix16 (src : bytes) : option N :=
  match src with
  | [] => None
  | c :: r =>
      if (c =? 43) || (c =? 45) then
        match r with
        | [] => None                                             (* "+" or "-" alone *)
        | _ => if c =? 43 then radix16_digits 255 0 r else None  (* '-' is an invalid digit for an unsigned type *)
        end
      else radix16_digits 255 0 src
  end.

(* `for i in (0..s.len()).step_by(3)` (the iterator yields 0, 3, 6, .. < len) *)
Fixpoint hex_loop (fuel : nat) (s : bytes) (i : N) (v : bytes) : res (option bytes) :=
  match fuel with
  | O => OutOfFuel
  | S f =>
      if blen s <=? i then Ok (Some v)
      else
        (e <- add_chk usizemax i 2 ;;
         sl <- str_slice s i e ;;
         match u8_from_str_radix16 sl with
         | Some b => hex_loop f s (i + 3) (v ++ [b])
         | None => Ok None
         end)%res
  end.
Definition hex_to_bytes (s : bytes) : res (option bytes) :=
  (if blen s <? 2 then Ok None else
   l2 <- sub_chk (blen s) 2 ;;
   if negb (l2 mod 3 =? 0) then Ok None
   else if negb (all_ascii s) then Ok None
   else
     cap <- add_chk usizemax (blen s) 1 ;;      (* Vec::with_capacity((s.len() + 1) / 3) *)
     hex_loop (S (length s)) s 0 [])%res.
