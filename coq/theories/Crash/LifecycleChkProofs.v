(* C03, modelled core: the checked arithmetic of the lifecycle detector (Crash/LifecycleChk.v) never panics
   and computes what the model (Lifecycle/Model.v) computes — for ALL lifecycles satisfying the range
   invariant [lc_ok] (preserved by new / update / merge, hence by every run of the detector) and all messages
   in the machine ranges [msg_ok]: reception time <= B, timestamp_us <= u32::MAX * 100, where B is any bound
   with B + u32::MAX * 100 + 60 s <= u64::MAX (e.g. B = 2^63; every reader produces far smaller times). *)
From Coq Require Import List NArith Bool Lia.
From AdltV Require Import Base.Res Base.MachInt Lifecycle.Model Crash.LifecycleChk.
Import ListNotations.
Open Scope N_scope.

Definition TSMAX : N := 429496729500.   (* u32::MAX * 100: the largest DltMessage::timestamp_us() *)

Lemma add_chk_ok mx a b : a + b <= mx -> add_chk mx a b = Ok (a + b).
Proof. intros H. unfold add_chk. apply N.leb_le in H. rewrite H. reflexivity. Qed.
Lemma sub_chk_ok a b : b <= a -> sub_chk a b = Ok (a - b).
Proof. intros H. unfold sub_chk. apply N.leb_le in H. rewrite H. reflexivity. Qed.

Ltac consts := unfold TSMAX, US_PER_SEC, MAX_BUFFERING_DELAY, MachInt.u64max, Model.u64max in *.

Section Bounds.
  Variable B : N.
  Hypothesis HB : B + TSMAX + 60000000 <= MachInt.u64max.

  Definition msg_ok (m : msg) : Prop := m_rt m <= B /\ m_ts m <= TSMAX.
  Definition lc_ok (L : lcy) : Prop :=
    l_min_ts L <= l_max_ts L /\ l_max_ts L <= TSMAX /\ l_start L <= B /\ l_last_rt L <= B.

  Lemma end_time_chk_ok L : lc_ok L -> end_time_chk L = Ok (end_time L).
  Proof.
    intros (H1 & H2 & H3 & H4). unfold end_time_chk, end_time.
    destruct (l_max_ts L =? 0); [reflexivity|]. apply add_chk_ok. consts. lia.
  Qed.
  Lemma end_time_le L : lc_ok L -> end_time L <= B + TSMAX.
  Proof.
    intros (H1 & H2 & H3 & H4). unfold end_time. destruct (l_max_ts L =? 0); consts; lia.
  Qed.

  Lemma slightly_overlapping_chk_ok L o :
    lc_ok L -> o <= B -> slightly_overlapping_chk L o = Ok (slightly_overlapping L o).
  Proof.
    intros HL Ho. pose proof (end_time_le L HL) as He. destruct HL as (H1 & H2 & H3 & H4).
    unfold slightly_overlapping_chk, slightly_overlapping.
    rewrite end_time_chk_ok by (repeat split; assumption). cbn [bind].
    destruct (o <=? end_time L) eqn:E1; cbn [negb andb]; [|reflexivity].
    rewrite add_chk_ok by (consts; lia). cbn [bind].
    destruct (end_time L <? o + US_PER_SEC * 2) eqn:E2; cbn [negb andb]; [|reflexivity].
    rewrite add_chk_ok by (consts; lia). cbn [bind]. reflexivity.
  Qed.

  Lemma new_lc_chk_ok id m : new_lc_chk id m = Ok (new_lc id m).
  Proof.
    unfold new_lc_chk, new_lc.
    destruct (m_creq m).
    - rewrite sub_chk_ok by lia. reflexivity.
    - destruct (m_rt m <? m_ts m) eqn:E.
      + rewrite sub_chk_ok by lia. reflexivity.
      + apply N.ltb_ge in E. rewrite sub_chk_ok by lia. reflexivity.
  Qed.
  Lemma new_lc_ok id m : msg_ok m -> lc_ok (new_lc id m).
  Proof.
    intros (H1 & H2). unfold new_lc, lc_ok. cbn [l_min_ts l_max_ts l_start l_last_rt].
    destruct (m_creq m); [consts; lia|]. destruct (m_rt m <? m_ts m); consts; lia.
  Qed.

  Lemma resume_detected_chk_ok L m :
    lc_ok L -> msg_ok m ->
    resume_detected_chk L (m_rt m) (m_ts m) (m_rt m - m_ts m) =
    Ok ((l_last_rt L + US_PER_SEC * 10 <=? m_rt m) && (l_max_ts L <=? m_ts m) &&
        (l_start L + US_PER_SEC * 10 <=? m_rt m - m_ts m) &&
        (m_rt m - m_ts m - l_start L <? (m_rt m - l_last_rt L) + US_PER_SEC * 30)).
  Proof.
    intros (H1 & H2 & H3 & H4) (M1 & M2). unfold resume_detected_chk.
    rewrite add_chk_ok by (consts; lia). cbn [bind].
    destruct (l_last_rt L + US_PER_SEC * 10 <=? m_rt m) eqn:E1; cbn [negb andb]; [|reflexivity].
    destruct (l_max_ts L <=? m_ts m) eqn:E2; cbn [negb andb]; [|reflexivity].
    rewrite add_chk_ok by (consts; lia). cbn [bind].
    destruct (l_start L + US_PER_SEC * 10 <=? m_rt m - m_ts m) eqn:E3; cbn [negb andb]; [|reflexivity].
    apply N.leb_le in E1. apply N.leb_le in E3.
    rewrite sub_chk_ok by (consts; lia). cbn [bind].
    rewrite add_chk_ok by (consts; lia). cbn [bind].
    rewrite sub_chk_ok by (consts; lia). cbn [bind]. reflexivity.
  Qed.

  Lemma update_chk_ok L m fresh :
    lc_ok L -> msg_ok m -> update_chk L m fresh = Ok (update L m fresh).
  Proof.
    intros HL Hm. pose proof HL as (H1 & H2 & H3 & H4). pose proof Hm as (M1 & M2).
    unfold update_chk, update.
    destruct (m_creq m); [reflexivity|].
    rewrite end_time_chk_ok by assumption. cbn [bind].
    rewrite slightly_overlapping_chk_ok by (try assumption; lia). cbn [bind].
    destruct (m_rt m - m_ts m <? l_start L) eqn:Emv.
    - apply N.ltb_lt in Emv. rewrite sub_chk_ok by lia. cbn [bind].
      match goal with |- (if ?c then _ else _) = _ => destruct c end; [reflexivity|].
      rewrite resume_detected_chk_ok by assumption. cbn [bind].
      match goal with |- (if ?c then _ else _) = _ => destruct c end.
      + destruct (l_max_ts L <? m_ts m); cbn [bind]; [reflexivity|].
        destruct (l_resume L) as [r|]; cbn [bind]; [|reflexivity].
        rewrite sub_chk_ok by (apply N.div_le_upper_bound; lia). cbn [bind]. reflexivity.
      + rewrite new_lc_chk_ok. cbn [bind]. reflexivity.
    - cbn [bind].
      match goal with |- (if ?c then _ else _) = _ => destruct c end; [reflexivity|].
      rewrite resume_detected_chk_ok by assumption. cbn [bind].
      match goal with |- (if ?c then _ else _) = _ => destruct c end.
      + destruct (l_max_ts L <? m_ts m); cbn [bind]; [reflexivity|].
        destruct (l_resume L) as [r|]; cbn [bind]; [|reflexivity].
        rewrite sub_chk_ok by (apply N.div_le_upper_bound; lia). cbn [bind]. reflexivity.
      + rewrite new_lc_chk_ok. cbn [bind]. reflexivity.
  Qed.

  (* ---- the range invariant is preserved *)
  Lemma bump_nr_ok L b : lc_ok L -> lc_ok (bump_nr L b).
  Proof. intros H. exact H. Qed.
  Lemma with_resume_ok L r : lc_ok L -> lc_ok (with_resume L r).
  Proof. intros H. exact H. Qed.

  Lemma update_ok L m fresh :
    lc_ok L -> msg_ok m ->
    lc_ok (fst (update L m fresh)) /\ (forall Ln, snd (update L m fresh) = Some Ln -> lc_ok Ln).
  Proof.
    intros HL Hm. pose proof HL as (H1 & H2 & H3 & H4). pose proof Hm as (M1 & M2).
    unfold update.
    destruct (m_creq m); [split; [apply bump_nr_ok; assumption|intros Ln Hn; discriminate]|].
    match goal with |- context [if ?c then (bump_nr L false, None) else _] => destruct c end;
      [split; [apply bump_nr_ok; assumption|intros Ln Hn; discriminate]|].
    match goal with |- context [if ?c then _ else (L, _)] => destruct c end.
    - split; [|intros Ln Hn; discriminate].
      cbn [fst]. unfold lc_ok. cbn [l_min_ts l_max_ts l_start l_last_rt].
      repeat split.
      + destruct (m_ts m <? l_min_ts L) eqn:E1; destruct (l_max_ts L <? m_ts m) eqn:E2;
          try apply N.ltb_lt in E1; try apply N.ltb_ge in E1; try apply N.ltb_lt in E2; try apply N.ltb_ge in E2;
          destruct (l_resume L) as [r|]; try destruct (r_max_ts r <? m_ts m); lia.
      + destruct (l_max_ts L <? m_ts m); lia.
      + destruct (m_rt m - m_ts m <? l_start L) eqn:E; [apply N.ltb_lt in E|]; lia.
      + lia.
    - split; [exact HL|]. cbn [snd]. intros Ln Hn. inversion Hn; subst Ln.
      match goal with |- lc_ok (if ?c then _ else _) => destruct c end;
        [apply with_resume_ok|]; apply new_lc_ok; assumption.
  Qed.

  Lemma merge_ok P L : lc_ok P -> lc_ok L -> lc_ok (merge P L).
  Proof.
    intros (P1 & P2 & P3 & P4) (L1 & L2 & L3 & L4). unfold merge, lc_ok.
    cbn [l_min_ts l_max_ts l_start l_last_rt].
    destruct (l_start L <? l_start P); destruct (l_min_ts L <? l_min_ts P) eqn:E1;
      destruct (l_max_ts P <? l_max_ts L) eqn:E2; destruct (l_last_rt P <? l_last_rt L);
      try apply N.ltb_lt in E1; try apply N.ltb_ge in E1; try apply N.ltb_lt in E2; try apply N.ltb_ge in E2;
      repeat split; lia.
  Qed.

  Lemma needs_merge_chk_ok P L : lc_ok P -> lc_ok L -> needs_merge_chk P L = Ok (needs_merge P L).
  Proof.
    intros HP (L1 & L2 & L3 & L4). unfold needs_merge_chk, needs_merge.
    rewrite end_time_chk_ok by assumption. cbn [bind].
    destruct (l_start L <=? end_time P); cbn [negb andb]; [|reflexivity].
    destruct (is_resume L); cbn [negb andb]; [reflexivity|].
    rewrite slightly_overlapping_chk_ok by assumption. cbn [bind]. reflexivity.
  Qed.

  Lemma confirmable_chk_ok m L :
    lc_ok L -> msg_ok m -> m_ts m + MAX_BUFFERING_DELAY < m_rt m ->
    confirmable_chk m L (m_ts m + MAX_BUFFERING_DELAY) = Ok (confirmable m L).
  Proof.
    intros HL (M1 & M2) Hg. pose proof HL as (H1 & H2 & H3 & H4).
    unfold confirmable_chk, confirmable.
    rewrite sub_chk_ok by lia. cbn [bind].
    destruct ((l_start L <? m_rt m - (m_ts m + MAX_BUFFERING_DELAY)) && (l_ecu L =? m_ecu m)); cbn [orb]; [reflexivity|].
    rewrite sub_chk_ok by lia. cbn [bind].
    destruct (MAX_BUFFERING_DELAY <? l_max_ts L - l_min_ts L); cbn [orb]; [reflexivity|].
    rewrite sub_chk_ok by lia. cbn [bind].
    rewrite end_time_chk_ok by assumption. cbn [bind]. reflexivity.
  Qed.

  Lemma resume_time_chk_total L : lc_ok L -> is_ok (resume_time_chk L) = true.
  Proof.
    intros (H1 & H2 & H3 & H4). unfold resume_time_chk. destruct (l_resume L) as [r|]; [|reflexivity].
    rewrite add_chk_ok by (consts; lia). cbn [bind].
    destruct (r_start r <? l_start L) eqn:E.
    - apply N.ltb_lt in E. rewrite sub_chk_ok by lia. cbn [bind]. rewrite sub_chk_ok by lia. reflexivity.
    - cbn [bind]. rewrite sub_chk_ok by lia. reflexivity.
  Qed.

  (* ---- the detector state: every lifecycle of every ECU is in range *)
  Definition em_ok (em : emap_t) : Prop := Forall (fun kv => Forall lc_ok (snd kv)) em.

  Lemma lookup_ok e em : em_ok em -> Forall lc_ok (lookup e em).
  Proof.
    induction em as [|[k v] r IH]; intros H; cbn [lookup]; [constructor|].
    inversion H; subst. destruct (k =? e); [assumption|apply IH; assumption].
  Qed.
  Lemma store_ok e v em : em_ok em -> Forall lc_ok v -> em_ok (store e v em).
  Proof.
    induction em as [|[k w] r IH]; intros H Hv; cbn [store].
    - constructor; [exact Hv|constructor].
    - inversion H; subst. destruct (k =? e); constructor; try assumption. apply IH; assumption.
  Qed.
  Lemma all_lcs_ok em : em_ok em -> Forall lc_ok (all_lcs em).
  Proof.
    induction em as [|[k v] r IH]; intros H; unfold all_lcs; cbn [flat_map]; [constructor|].
    inversion H; subst. apply Forall_app. split; [apply Forall_rev; assumption|apply IH; assumption].
  Qed.

  Lemma set_lc_ok m i : msg_ok m -> msg_ok (set_lc m i).
  Proof. intros H. exact H. Qed.

  Lemma phase1_ok d m0 :
    em_ok (emap d) -> msg_ok m0 ->
    phase1_chk d m0 = Ok (phase1 d m0) /\ em_ok (p_emap (phase1 d m0)) /\ msg_ok (p_msg (phase1 d m0)).
  Proof.
    intros Hem Hm. unfold phase1_chk, phase1.
    pose proof (lookup_ok (m_ecu m0) (emap d) Hem) as Hl. apply Forall_rev in Hl.
    destruct (rev (lookup (m_ecu m0) (emap d))) as [|L prevs] eqn:El.
    - rewrite new_lc_chk_ok. cbn [bind p_emap p_msg]. repeat split; try (apply Hm).
      apply store_ok; [assumption|]. constructor; [apply new_lc_ok; assumption|constructor].
    - inversion Hl as [|? ? HL Hprevs]; subst.
      rewrite (update_chk_ok L m0 (next_id d) HL Hm). cbn [bind].
      destruct (update_ok L m0 (next_id d) HL Hm) as [Hu1 Hu2].
      destruct (update L m0 (next_id d)) as [L' [Ln|]] eqn:Eu; cbn [fst snd] in Hu1, Hu2.
      + cbn [p_emap p_msg]. repeat split; try (apply Hm).
        apply store_ok; [assumption|]. apply Forall_app. split; [apply Forall_rev; assumption|].
        constructor; [assumption|]. constructor; [apply Hu2; reflexivity|constructor].
      + destruct prevs as [|P pp].
        * cbn [p_emap p_msg]. repeat split; try (apply Hm).
          apply store_ok; [assumption|]. cbn [rev app]. constructor; [assumption|constructor].
        * inversion Hprevs as [|? ? HP Hpp]; subst.
          rewrite (needs_merge_chk_ok P L' HP Hu1). cbn [bind]. split; [reflexivity|].
          assert (Hnm : em_ok (store (m_ecu m0) (rev (P :: pp) ++ [L']) (emap d))).
          { apply store_ok; [assumption|]. apply Forall_app. split; [apply Forall_rev; assumption|].
            constructor; [assumption|constructor]. }
          assert (Hmg : em_ok (store (m_ecu m0) (rev pp ++ [merge P L']) (emap d))).
          { apply store_ok; [assumption|]. apply Forall_app. split; [apply Forall_rev; assumption|].
            constructor; [apply merge_ok; assumption|constructor]. }
          match goal with |- context [if ?c then _ else _] => destruct c end.
          -- destruct (remove_id (l_id L') (buffered d)); cbn [p_emap p_msg]; split; try assumption; apply Hm.
          -- cbn [p_emap p_msg]. split; [assumption|apply Hm].
  Qed.

  Lemma confirm_pass_chk_ok m ls :
    Forall lc_ok ls -> msg_ok m -> m_ts m + MAX_BUFFERING_DELAY < m_rt m ->
    forall c, confirm_pass_chk m (m_ts m + MAX_BUFFERING_DELAY) ls c = Ok (confirm_pass m ls c).
  Proof.
    intros Hls Hm Hg. induction Hls as [|L r HL Hr IH]; intros c; cbn [confirm_pass_chk confirm_pass]; [reflexivity|].
    destruct (inb (l_id L) (c_buf c)); cbn [andb]; [|apply IH].
    rewrite confirmable_chk_ok by assumption. cbn [bind].
    destruct (confirmable m L); [|apply IH].
    destruct (release (l_id L) (remove_id (l_id L) (c_buf c)) (c_q c) (c_tr c)) as [[o q'] tr']. apply IH.
  Qed.

  Lemma phase2_chk_ok d p :
    em_ok (p_emap p) -> msg_ok (p_msg p) -> phase2_chk d p = Ok (phase2 d p).
  Proof.
    intros Hem Hm. pose proof Hm as (M1 & M2). unfold phase2_chk, phase2.
    destruct (next_check d <? m_rt (p_msg p)); [|reflexivity].
    rewrite add_chk_ok by (consts; lia). cbn [bind].
    destruct (m_ts (p_msg p) + MAX_BUFFERING_DELAY <? m_rt (p_msg p)) eqn:Eg.
    - apply N.ltb_lt in Eg.
      rewrite confirm_pass_chk_ok by (try assumption; apply all_lcs_ok; assumption). cbn [bind].
      rewrite add_chk_ok by (consts; lia). reflexivity.
    - cbn [bind]. rewrite add_chk_ok by (consts; lia). reflexivity.
  Qed.

  Lemma step_emap d m0 : emap (fst (step d m0)) = p_emap (phase1 d m0).
  Proof.
    unfold step. destruct (phase2 d (phase1 d m0)) as [c nc].
    destruct (c_buf c).
    - destruct (regular_refresh false (p_emap (phase1 d m0)) (m_index m0) (last_reg d) (c_vis c) (c_pend c)
                  (mark (m_lc (p_msg (phase1 d m0))) (c_tr c))) as [[[v pd] tr2] lr]. reflexivity.
    - reflexivity.
  Qed.

  Lemma step_chk_ok d m0 :
    em_ok (emap d) -> msg_ok m0 -> step_chk d m0 = Ok (step d m0) /\ em_ok (emap (fst (step d m0))).
  Proof.
    intros Hem Hm. destruct (phase1_ok d m0 Hem Hm) as (E1 & E2 & E3).
    unfold step_chk. rewrite E1. cbn [bind]. rewrite phase2_chk_ok by assumption. cbn [bind].
    split; [reflexivity|]. rewrite step_emap. assumption.
  Qed.

  Lemma run_chk_ok ms : forall d,
    em_ok (emap d) -> Forall msg_ok ms -> run_chk d ms = Ok (run d ms) /\ em_ok (emap (fst (run d ms))).
  Proof.
    induction ms as [|m r IH]; intros d Hem Hms; cbn [run_chk run]; [split; [reflexivity|assumption]|].
    inversion Hms as [|? ? Hm Hr]; subst.
    destruct (step_chk_ok d m Hem Hm) as [E1 E2]. rewrite E1. cbn [bind].
    destruct (step d m) as [d1 o1]. cbn [fst snd] in *.
    destruct (IH d1 E2 Hr) as [E3 E4]. rewrite E3. cbn [bind].
    destruct (run d1 r) as [d2 o2]. cbn [fst snd] in *. split; [reflexivity|assumption].
  Qed.

  Lemma init_emap_ok ls : forall em, em_ok em -> Forall lc_ok ls -> em_ok (init_emap ls em).
  Proof.
    induction ls as [|L r IH]; intros em Hem Hls; cbn [init_emap]; [assumption|].
    inversion Hls; subst. apply IH; [|assumption]. apply store_ok; [assumption|].
    apply Forall_app. split; [apply lookup_ok; assumption|constructor; [assumption|constructor]].
  Qed.

  (* the detector, started on an empty or pre-populated table, never panics in its time arithmetic *)
  Theorem detector_arith_no_panic first pre ms :
    Forall lc_ok pre -> Forall msg_ok ms ->
    run_chk (init first pre) ms = Ok (run (init first pre) ms).
  Proof.
    intros Hpre Hms. apply run_chk_ok; [|assumption].
    unfold init. cbn [emap]. apply init_emap_ok; [constructor|assumption].
  Qed.

  (* and every lifecycle it holds afterwards is in range again (so the next run, listing, resume_time are fine) *)
  Theorem detector_keeps_ranges first pre ms :
    Forall lc_ok pre -> Forall msg_ok ms ->
    Forall lc_ok (all_lcs (emap (fst (run (init first pre) ms)))).
  Proof.
    intros Hpre Hms. apply all_lcs_ok. apply run_chk_ok; [|assumption].
    unfold init. cbn [emap]. apply init_emap_ok; [constructor|assumption].
  Qed.
End Bounds.

(* ------------------------------------------------------------------ index arithmetic of the regular refresh *)
Lemma refresh_due_sat_is_model (lastreg lastidx : N) :
  lastidx <= u32max -> refresh_due_sat lastreg lastidx = (lastreg + 100000 <? lastidx).
Proof.
  intros H. unfold refresh_due_sat, sat_add.
  destruct (N.min_spec u32max (lastreg + 100000)) as [[Hlt ->]|[Hle ->]]; [|reflexivity].
  destruct (N.ltb_spec u32max lastidx); destruct (N.ltb_spec (lastreg + 100000) lastidx); try reflexivity; lia.
Qed.

Lemma refresh_due_before_fix_panics :
  exists lastreg lastidx, lastreg <= lastidx /\ lastidx <= u32max /\
    refresh_due_before_fix lastreg lastidx = Panic site_add_overflow.
Proof. exists 4294867296, 4294867297. repeat split; vm_compute; congruence. Qed.

Lemma refresh_due_before_fix_ok_below (lastreg lastidx : N) :
  lastreg + 100000 <= u32max -> refresh_due_before_fix lastreg lastidx = Ok (refresh_due_sat lastreg lastidx).
Proof.
  intros H. unfold refresh_due_before_fix, add_chk, refresh_due_sat, sat_add.
  destruct (N.leb_spec (lastreg + 100000) u32max); [|lia]. cbn. rewrite N.min_r by lia. reflexivity.
Qed.
