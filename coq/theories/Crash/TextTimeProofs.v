(* Proofs about Crash/TextTime.v (time and length arithmetic of the asc / logcat converters). *)
From Coq Require Import List NArith ZArith Bool Lia Arith.
From AdltV Require Import Base.Res Base.MachInt Crash.TextUtils Crash.TextUtilsProofs Crash.TextTime.
Import ListNotations.
Open Scope N_scope.

(* ------------------------------------------------------------------ parse::<integer>() *)
Lemma dec_digit_le9 c d : dec_digit c = Some d -> d <= 9.
Proof.
  unfold dec_digit. destruct ((48 <=? c) && (c <=? 57)) eqn:E; [|discriminate].
  apply andb_true_iff in E. destruct E as [A B]. apply N.leb_le in A, B. intros H; inversion H. lia.
Qed.
Lemma dec_value_bound : forall ds acc v, dec_value acc ds = Some v -> v < (acc + 1) * 10 ^ blen ds.
Proof.
  induction ds as [|c r IH]; intros acc v H.
  - cbn in H. inversion H; subst. rewrite blen_nil. cbn. lia.
  - cbn [dec_value] in H. destruct (dec_digit c) as [d|] eqn:Ed; [|discriminate].
    apply IH in H. pose proof (dec_digit_le9 c d Ed) as Hd.
    rewrite blen_cons. replace (1 + blen r) with (N.succ (blen r)) by lia. rewrite N.pow_succ_r'.
    assert (0 < 10 ^ blen r) by (apply N.neq_0_lt_0; apply N.pow_nonzero; lia). nia.
Qed.
Lemma parse_unsigned_bound max s v : parse_unsigned max s = Some v -> v < 10 ^ blen s /\ v <= max.
Proof.
  unfold parse_unsigned. destruct s as [|c r]; [discriminate|].
  assert (G : forall ds, (blen ds <= blen (c :: r)) ->
              match ds with [] => None | _ :: _ => match dec_value 0 ds with Some v0 => if v0 <=? max then Some v0 else None | None => None end end = Some v ->
              v < 10 ^ blen (c :: r) /\ v <= max).
  { intros ds Hl H. destruct ds as [|x ds']; [discriminate|].
    destruct (dec_value 0 (x :: ds')) as [v0|] eqn:Ev; [|discriminate].
    destruct (v0 <=? max) eqn:Em; [|discriminate]. inversion H; subst v0. apply N.leb_le in Em. split; [|exact Em].
    apply dec_value_bound in Ev. replace ((0 + 1) * 10 ^ blen (x :: ds')) with (10 ^ blen (x :: ds')) in Ev by lia.
    apply N.lt_le_trans with (10 ^ blen (x :: ds')); [exact Ev|]. apply N.pow_le_mono_r; [lia|exact Hl]. }
  destruct (c =? 43); [apply (G r)|apply (G (c :: r))]; rewrite ?blen_cons; lia.
Qed.
Lemma parse_i64_range s z : parse_i64 s = Some z -> (i64min <= z <= i64max)%Z.
Proof.
  unfold parse_i64, i64min, i64max, i64max_n. destruct s as [|c r]; [discriminate|].
  destruct (c =? 45).
  - destruct r as [|x r']; [discriminate|]. destruct (dec_value 0 (x :: r')) as [v|]; [|discriminate].
    destruct (v <=? 9223372036854775808) eqn:E; [|discriminate]. apply N.leb_le in E. intros H; inversion H. lia.
  - assert (G : forall ds, match ds with [] => None | _ :: _ => match dec_value 0 ds with Some v => if v <=? 9223372036854775807 then Some (Z.of_N v) else None | None => None end end = Some z ->
                (-9223372036854775808 <= z <= 9223372036854775807)%Z).
    { intros ds H. destruct ds as [|x ds']; [discriminate|]. destruct (dec_value 0 (x :: ds')) as [v|]; [|discriminate].
      destruct (v <=? 9223372036854775807) eqn:E; [|discriminate]. apply N.leb_le in E. inversion H. lia. }
    destruct (c =? 43); [apply (G r)|apply (G (c :: r))].
Qed.
(* without a leading '-' the value is not negative *)
Lemma parse_i64_nonneg s z : parse_i64 s = Some z -> starts_with_byte 45 s = false -> (0 <= z)%Z.
Proof.
  unfold parse_i64, starts_with_byte. destruct s as [|c r]; [discriminate|]. intros H Hc. rewrite Hc in H.
  assert (G : forall ds, match ds with [] => None | _ :: _ => match dec_value 0 ds with Some v => if v <=? i64max_n then Some (Z.of_N v) else None | None => None end end = Some z -> (0 <= z)%Z).
  { intros ds H0. destruct ds as [|x ds']; [discriminate|]. destruct (dec_value 0 (x :: ds')) as [v|]; [|discriminate].
    destruct (v <=? i64max_n); [|discriminate]. inversion H0. lia. }
  destruct (c =? 43); [apply (G r H)|apply (G (c :: r) H)].
Qed.

(* ------------------------------------------------------------------ UTF-8: the byte behind an ASCII byte starts a char *)
Lemma valid_hd_not_cont b r : utf8_valid (b :: r) = true -> is_cont b = false.
Proof.
  cbn [utf8_valid]. unfold is_cont. destruct (b <? 128) eqn:E1.
  { intros _. apply N.ltb_lt in E1. replace (128 <=? b) with false by (symmetry; apply N.leb_gt; lia). reflexivity. }
  destruct ((194 <=? b) && (b <? 224)) eqn:E2.
  { apply andb_true_iff in E2. destruct E2 as [A _]. apply N.leb_le in A. intros _.
    replace (b <? 192) with false by (symmetry; apply N.ltb_ge; lia). apply andb_false_r. }
  destruct ((224 <=? b) && (b <? 240)) eqn:E3.
  { apply andb_true_iff in E3. destruct E3 as [A _]. apply N.leb_le in A. intros _.
    replace (b <? 192) with false by (symmetry; apply N.ltb_ge; lia). apply andb_false_r. }
  destruct ((240 <=? b) && (b <? 245)) eqn:E4; [|discriminate].
  apply andb_true_iff in E4. destruct E4 as [A _]. apply N.leb_le in A. intros _.
  replace (b <? 192) with false by (symmetry; apply N.ltb_ge; lia). apply andb_false_r.
Qed.
Lemma cont_not_ascii a : is_cont a = true -> a <? 128 = false.
Proof. unfold is_cont. intros H. apply andb_true_iff in H. destruct H as [A _]. apply N.leb_le in A. apply N.ltb_ge. exact A. Qed.

Local Opaque is_cont.
Lemma valid_after_ascii : forall n (p : bytes), (length p <= n)%nat -> forall a q,
  utf8_valid (p ++ a :: q) = true -> a <? 128 = true -> match q with [] => True | c :: _ => is_cont c = false end.
Proof.
  induction n as [|n IH]; intros p Hn a q Hv Ha.
  - destruct p; [|cbn in Hn; lia]. cbn [app utf8_valid] in Hv. rewrite Ha in Hv.
    destruct q as [|c q']; [exact I|]. apply (valid_hd_not_cont c q' Hv).
  - destruct p as [|b0 p1].
    { cbn [app utf8_valid] in Hv. rewrite Ha in Hv. destruct q as [|c q']; [exact I|]. apply (valid_hd_not_cont c q' Hv). }
    cbn [length] in Hn. cbn [app utf8_valid] in Hv. destruct (b0 <? 128).
    { apply (IH p1) with (a := a); [lia|exact Hv|exact Ha]. }
    destruct ((194 <=? b0) && (b0 <? 224)).
    { destruct p1 as [|b1 p2].
      - cbn [app] in Hv. apply andb_true_iff in Hv. destruct Hv as [Hc _]. rewrite (cont_not_ascii a Hc) in Ha. discriminate.
      - cbn [app] in Hv. apply andb_true_iff in Hv. destruct Hv as [_ Hv]. cbn [length] in Hn. apply (IH p2) with (a := a); [lia|exact Hv|exact Ha]. }
    destruct ((224 <=? b0) && (b0 <? 240)).
    { destruct p1 as [|b1 [|b2 p3]]; cbn [app] in Hv.
      - destruct q as [|x q']; [discriminate|]. repeat (apply andb_true_iff in Hv; destruct Hv as [Hv ?]).
        rewrite (cont_not_ascii a Hv) in Ha. discriminate.
      - repeat (apply andb_true_iff in Hv; destruct Hv as [Hv ?]).
        match goal with H : is_cont a = true |- _ => rewrite (cont_not_ascii a H) in Ha end. discriminate.
      - repeat (apply andb_true_iff in Hv; destruct Hv as [Hv ?]). cbn [length] in Hn. apply (IH p3) with (a := a); [lia|assumption|exact Ha]. }
    destruct ((240 <=? b0) && (b0 <? 245)); [|discriminate].
    destruct p1 as [|b1 [|b2 [|b3 p4]]]; cbn [app] in Hv.
    + destruct q as [|x [|y q']]; try discriminate. repeat (apply andb_true_iff in Hv; destruct Hv as [Hv ?]).
      rewrite (cont_not_ascii a Hv) in Ha. discriminate.
    + destruct q as [|x q']; [discriminate|]. repeat (apply andb_true_iff in Hv; destruct Hv as [Hv ?]).
      match goal with H : is_cont a = true |- _ => rewrite (cont_not_ascii a H) in Ha end. discriminate.
    + repeat (apply andb_true_iff in Hv; destruct Hv as [Hv ?]).
      match goal with H : is_cont a = true |- _ => rewrite (cont_not_ascii a H) in Ha end. discriminate.
    + repeat (apply andb_true_iff in Hv; destruct Hv as [Hv ?]). cbn [length] in Hn. apply (IH p4) with (a := a); [lia|assumption|exact Ha].
Qed.

Local Transparent is_cont.

Lemma nth_app_exact (p q : bytes) (x : N) : nth (length p) (p ++ x :: q) 0 = x.
Proof. induction p as [|y p IH]; [reflexivity|]. cbn [length app nth]. exact IH. Qed.
Lemma boundary_len (s : bytes) : is_char_boundary s (blen s) = true.
Proof.
  unfold is_char_boundary. destruct (blen s =? 0); [reflexivity|]. rewrite N.leb_refl. apply N.eqb_refl.
Qed.
(* the position OF an ASCII byte is a char boundary (no validity needed) ... *)
Lemma boundary_at_ascii (p q : bytes) (a : N) : a <? 128 = true -> is_char_boundary (p ++ a :: q) (blen p) = true.
Proof.
  intros Ha. unfold is_char_boundary. destruct (blen p =? 0); [reflexivity|].
  replace (blen (p ++ a :: q) <=? blen p) with false by (symmetry; apply N.leb_gt; rewrite blen_app, blen_cons; lia).
  unfold blen. rewrite Nat2N.id, nth_app_exact. unfold is_cont. apply N.ltb_lt in Ha.
  replace (128 <=? a) with false by (symmetry; apply N.leb_gt; exact Ha). reflexivity.
Qed.
(* ... and in a well-formed string so is the position BEHIND it *)
Lemma boundary_after_ascii (p q : bytes) (a : N) : utf8_valid (p ++ a :: q) = true -> a <? 128 = true ->
  is_char_boundary (p ++ a :: q) (blen p + 1) = true.
Proof.
  intros Hv Ha. pose proof (valid_after_ascii _ p (le_n _) a q Hv Ha) as Hq.
  unfold is_char_boundary. replace (blen p + 1 =? 0) with false by (symmetry; apply N.eqb_neq; lia).
  rewrite blen_app, blen_cons. destruct q as [|c q'].
  - rewrite blen_nil. replace (blen p + (1 + 0) <=? blen p + 1) with true by (symmetry; apply N.leb_le; lia).
    apply N.eqb_eq. lia.
  - rewrite blen_cons. replace (blen p + (1 + (1 + blen q')) <=? blen p + 1) with false by (symmetry; apply N.leb_gt; lia).
    replace (p ++ a :: c :: q') with ((p ++ [a]) ++ c :: q') by (rewrite <- app_assoc; reflexivity).
    replace (N.to_nat (blen p + 1)) with (length (p ++ [a])) by (rewrite app_length; unfold blen; cbn [length]; lia).
    rewrite nth_app_exact, Hq. reflexivity.
Qed.

Lemma find_byte_split b : forall s i0 i, find_byte b s i0 = Some i -> exists p q, s = p ++ b :: q /\ i = i0 + blen p.
Proof.
  induction s as [|c r IH]; intros i0 i H; [discriminate|]. cbn [find_byte] in H. destruct (c =? b) eqn:E.
  - apply N.eqb_eq in E. subst c. inversion H; subst. exists [], r. split; [reflexivity|]. rewrite blen_nil. lia.
  - destruct (IH _ _ H) as (p & q & -> & ->). exists (c :: p), q. split; [reflexivity|]. rewrite blen_cons. lia.
Qed.

Lemma slice_len (s : bytes) (a b : N) (r : bytes) : str_slice s a b = Ok r -> blen r = b - a.
Proof.
  unfold str_slice. destruct (a <=? b) eqn:E1; [|discriminate]. cbn [andb].
  destruct (is_char_boundary s a) eqn:E2; [|discriminate]. cbn [andb].
  destruct (is_char_boundary s b) eqn:E3; [|discriminate]. intros H; inversion H; subst r.
  apply boundary_le in E3. apply N.leb_le in E1. unfold blen in *. rewrite firstn_length, skipn_length. lia.
Qed.
Lemma slice_ok (s : bytes) (a b : N) : a <= b -> is_char_boundary s a = true -> is_char_boundary s b = true ->
  str_slice s a b = Ok (firstn (N.to_nat (b - a)) (skipn (N.to_nat a) s)).
Proof.
  intros H1 H2 H3. unfold str_slice. rewrite H2, H3. replace (a <=? b) with true by (symmetry; apply N.leb_le; exact H1). reflexivity.
Qed.

(* ------------------------------------------------------------------ the fraction loops *)
Lemma frac_up_u64_ok : forall fuel len f, (N.to_nat (6 - len) < fuel)%nat ->
  (len < 6 -> f * 10 ^ (6 - len) <= 100000000000) ->
  frac_up_u64 fuel f len = Ok (f * 10 ^ (6 - len), N.max len 6).
Proof.
  induction fuel as [|k IH]; intros len f Hf Hb; [lia|]. cbn [frac_up_u64]. destruct (len <? 6) eqn:E.
  - apply N.ltb_lt in E. specialize (Hb E).
    assert (Hp : 10 ^ (6 - len) = 10 * 10 ^ (6 - (len + 1))).
    { replace (6 - len) with (N.succ (6 - (len + 1))) by lia. apply N.pow_succ_r'. }
    assert (0 < 10 ^ (6 - (len + 1))) by (apply N.neq_0_lt_0; apply N.pow_nonzero; lia).
    unfold mul_chk, u64max. replace (f * 10 <=? 18446744073709551615) with true by (symmetry; apply N.leb_le; nia).
    cbn [bind]. unfold add_chk, usizemax, u64max.
    replace (len + 1 <=? 18446744073709551615) with true by (symmetry; apply N.leb_le; lia). cbn [bind].
    rewrite IH; [|lia|intros _; rewrite Hp in Hb; lia]. f_equal. f_equal; [rewrite Hp; lia|lia].
  - apply N.ltb_ge in E. replace (6 - len) with 0 by lia. rewrite N.pow_0_r, N.mul_1_r. f_equal. f_equal. lia.
Qed.
Lemma frac_down_u64_ok : forall fuel len f, (N.to_nat (len - 6) < fuel)%nat ->
  exists f', frac_down_u64 fuel f len = Ok (f', N.min len 6) /\ f' <= f.
Proof.
  induction fuel as [|k IH]; intros len f Hf; [lia|]. cbn [frac_down_u64]. destruct (6 <? len) eqn:E.
  - apply N.ltb_lt in E. unfold sub_chk. replace (1 <=? len) with true by (symmetry; apply N.leb_le; lia). cbn [bind].
    destruct (IH (len - 1) (f / 10)) as (f' & H1 & H2); [lia|]. exists f'. split.
    + rewrite H1. f_equal. f_equal. lia.
    + apply N.le_trans with (f / 10); [exact H2|]. apply N.div_le_upper_bound; lia.
  - apply N.ltb_ge in E. exists f. split; [f_equal; f_equal; lia|lia].
Qed.

Lemma frac_up_i64_ok : forall fuel len n, (N.to_nat (6 - len) < fuel)%nat ->
  (len < 6 -> n * 10 ^ (6 - len) <= 100000000000) ->
  frac_up_i64 fuel (Z.of_N n) len = Ok (Z.of_N (n * 10 ^ (6 - len)), N.max len 6).
Proof.
  induction fuel as [|k IH]; intros len n Hf Hb; [lia|]. cbn [frac_up_i64]. destruct (len <? 6) eqn:E.
  - apply N.ltb_lt in E. specialize (Hb E).
    assert (Hp : 10 ^ (6 - len) = 10 * 10 ^ (6 - (len + 1))).
    { replace (6 - len) with (N.succ (6 - (len + 1))) by lia. apply N.pow_succ_r'. }
    assert (0 < 10 ^ (6 - (len + 1))) by (apply N.neq_0_lt_0; apply N.pow_nonzero; lia).
    unfold i64_mul_chk, i64min, i64max.
    replace ((-9223372036854775808 <=? Z.of_N n * 10) && (Z.of_N n * 10 <=? 9223372036854775807))%Z with true.
    2:{ symmetry. apply andb_true_iff. split; apply Z.leb_le; nia. }
    cbn [bind]. unfold add_chk, usizemax, u64max.
    replace (len + 1 <=? 18446744073709551615) with true by (symmetry; apply N.leb_le; lia). cbn [bind].
    replace (Z.of_N n * 10)%Z with (Z.of_N (n * 10)) by lia.
    rewrite IH; [|lia|intros _; rewrite Hp in Hb; lia]. f_equal. f_equal; [f_equal; rewrite Hp; lia|lia].
  - apply N.ltb_ge in E. replace (6 - len) with 0 by lia. rewrite N.pow_0_r, N.mul_1_r. f_equal. f_equal. lia.
Qed.
(* nothing to scale up: any i64 value passes *)
Lemma frac_up_i64_noop k f len : 6 <= len -> frac_up_i64 (S k) f len = Ok (f, len).
Proof. intros H. cbn [frac_up_i64]. replace (len <? 6) with false by (symmetry; apply N.ltb_ge; exact H). reflexivity. Qed.
Lemma quot10_bounds (f : Z) : (i64min <= f <= i64max -> i64min < Z.quot f 10 <= i64max)%Z.
Proof.
  unfold i64min, i64max. intros [H1 H2]. split.
  - apply Z.lt_le_trans with (Z.quot (-9223372036854775808) 10); [reflexivity|]. apply Z.quot_le_mono; lia.
  - apply Z.le_trans with (Z.quot 9223372036854775807 10); [apply Z.quot_le_mono; lia|]. cbn. lia.
Qed.
Lemma frac_down_i64_ok : forall fuel len f, (N.to_nat (len - 6) < fuel)%nat -> (i64min <= f <= i64max)%Z ->
  exists f', frac_down_i64 fuel f len = Ok (f', N.min len 6) /\
             (6 < len -> (i64min < f' <= i64max)%Z) /\ (len <= 6 -> f' = f).
Proof.
  induction fuel as [|k IH]; intros len f Hf Hr; [lia|]. cbn [frac_down_i64]. destruct (6 <? len) eqn:E.
  - apply N.ltb_lt in E. unfold sub_chk. replace (1 <=? len) with true by (symmetry; apply N.leb_le; lia). cbn [bind].
    pose proof (quot10_bounds f Hr) as Hq.
    destruct (IH (len - 1) (Z.quot f 10)) as (f' & H1 & H2 & H3); [lia|lia|]. exists f'. split; [|split].
    + rewrite H1. f_equal. f_equal. lia.
    + intros _. destruct (N.eq_dec len 7) as [->|Hne].
      * rewrite H3 by lia. exact Hq.
      * apply H2. lia.
    + lia.
  - apply N.ltb_ge in E. exists f. split; [f_equal; f_equal; lia|]. split; [lia|reflexivity].
Qed.

(* ------------------------------------------------------------------ logcat: parse_time_str, for every &str *)
Lemma u64_as_i64_small v : v <= i64max_n -> u64_as_i64 v = Z.of_N v.
Proof. intros H. unfold u64_as_i64. replace (v <=? i64max_n) with true by (symmetry; apply N.leb_le; exact H). reflexivity. Qed.
Lemma u64_as_i64_range v : v <= u64max -> (i64min <= u64_as_i64 v <= i64max)%Z.
Proof.
  unfold u64_as_i64, i64max_n, i64min, i64max, u64max. intros H. destruct (v <=? 9223372036854775807) eqn:E.
  - apply N.leb_le in E. lia.
  - apply N.leb_gt in E. lia.
Qed.

(* the fraction behind the dot: its slice is in range and on boundaries; length of the slice *)
Lemma fraction_slice (p q : bytes) : utf8_valid (p ++ 46 :: q) = true ->
  exists fs, str_slice_from (p ++ 46 :: q) (blen p + 1) = Ok fs /\ blen fs = blen q.
Proof.
  intros Hv. unfold str_slice_from. rewrite slice_ok.
  - eexists. split; [reflexivity|]. unfold blen. rewrite firstn_length, skipn_length, app_length. cbn [length]. lia.
  - rewrite blen_app, blen_cons. lia.
  - apply boundary_after_ascii; [exact Hv|reflexivity].
  - apply boundary_len.
Qed.

(* the bound that makes the multiplications safe: a string of fewer than 6 bytes parses to less than 10^6 / 10^len *)
Lemma small_fraction_bound (f0 len : N) : f0 < 10 ^ len -> len < 6 -> f0 * 10 ^ (6 - len) <= 100000000000.
Proof.
  intros H1 H2. assert (E : 10 ^ len * 10 ^ (6 - len) = 10 ^ 6) by (rewrite <- N.pow_add_r; f_equal; lia).
  assert (0 < 10 ^ (6 - len)) by (apply N.neq_0_lt_0; apply N.pow_nonzero; lia).
  change (10 ^ 6) with 1000000 in E. nia.
Qed.

Theorem parse_time_str_total (ts : bytes) : utf8_valid ts = true -> blen ts + 1 <= usizemax ->
  exists v, parse_time_str ts = Ok v /\ v <= u64max.
Proof.
  intros Hv Hl. unfold parse_time_str.
  assert (Hfin : forall a x, exists v, Ok (sat_add_u64 (N.min a u64max) x) = Ok v /\ v <= u64max).
  { intros a x. eexists. split; [reflexivity|]. unfold sat_add_u64. lia. }
  destruct (find_byte 46 ts 0) as [i|] eqn:Ef.
  - destruct (find_byte_split 46 ts 0 i Ef) as (p & q & -> & ->). rewrite N.add_0_l.
    rewrite slice_ok; [|lia|reflexivity|apply boundary_at_ascii; reflexivity]. cbn [bind].
    replace (blen p <? blen (p ++ 46 :: q)) with true by (symmetry; apply N.ltb_lt; rewrite blen_app, blen_cons; lia).
    unfold add_chk at 1. replace (blen p + 1 <=? usizemax) with true by (symmetry; apply N.leb_le; rewrite blen_app, blen_cons in Hl; lia).
    cbn [bind]. destruct (fraction_slice p q Hv) as (fs & Hfs & Hlen). rewrite Hfs. cbn [bind].
    set (f0 := unwrap_or (parse_unsigned u64max fs) 0).
    assert (Hf1 : f0 < 10 ^ blen fs).
    { unfold f0. destruct (parse_unsigned u64max fs) as [v|] eqn:Ep; cbn [unwrap_or].
      - apply parse_unsigned_bound in Ep. apply Ep.
      - apply N.neq_0_lt_0. apply N.pow_nonzero. lia. }
    destruct (blen fs =? 3) eqn:E3.
    { apply N.eqb_eq in E3. rewrite E3 in Hf1. unfold mul_chk, u64max.
      replace (f0 * 1000 <=? 18446744073709551615) with true by (symmetry; apply N.leb_le; cbn in Hf1; lia). cbn [bind]. apply Hfin. }
    destruct (blen fs =? 6) eqn:E6; cbn [negb]; [cbn [bind]; apply Hfin|].
    rewrite frac_up_u64_ok; [|lia|intros Hs; apply small_fraction_bound; assumption].
    cbn [bind fst snd].
    destruct (frac_down_u64_ok (S (length fs)) (N.max (blen fs) 6) (f0 * 10 ^ (6 - blen fs))) as (f' & H1 & _); [unfold blen; lia|].
    rewrite H1. cbn [bind fst]. apply Hfin.
  - rewrite slice_ok; [|lia|reflexivity|apply boundary_len]. cbn [bind]. rewrite N.ltb_irrefl. cbn [bind]. apply Hfin.
Qed.

(* ------------------------------------------------------------------ asc: parse_signed_time_str *)
(* the shape the regexes guarantee ("-?\d+\.\d{6}"): at most one leading '-' *)
Definition ts_shape (ts : bytes) : Prop := starts_with_byte 45 ts = true -> nth 1 ts 0 <> 45.

Lemma sat_i64_range z : (i64min <= sat_i64 z <= i64max)%Z.
Proof. unfold sat_i64, i64min, i64max. lia. Qed.
Lemma sat_i64_nonneg z : (0 <= z)%Z -> (0 <= sat_i64 z)%Z.
Proof. unfold sat_i64, i64min, i64max. lia. Qed.
Lemma sat_i64_gt_min z : (i64min < z)%Z -> (i64min < sat_i64 z)%Z.
Proof. unfold sat_i64, i64min, i64max. lia. Qed.

Lemma hd_firstn_not (k : nat) (r : bytes) (x : N) : nth 0 r 0 <> x -> x <> 0 -> starts_with_byte x (firstn k r) = false.
Proof.
  intros H Hx. unfold starts_with_byte. destruct k as [|k]; [reflexivity|]. destruct r as [|c r']; [reflexivity|].
  cbn [firstn]. cbn [nth] in H. apply N.eqb_neq. exact H.
Qed.

(* the seconds part: never negative under the shape *)
Lemma secs_part_nonneg (ts : bytes) (off dot : N) :
  (off = 0 /\ starts_with_byte 45 ts = false) \/ (off = 1 /\ nth 1 ts 0 <> 45) ->
  (0 <= sat_i64 (match parse_i64 (firstn (N.to_nat (dot - off)) (skipn (N.to_nat off) ts)) with Some v => v | None => 0 end * 1000000))%Z.
Proof.
  intros Hs. apply sat_i64_nonneg. destruct (parse_i64 _) as [z|] eqn:Ep; [|lia].
  assert (Hn : starts_with_byte 45 (firstn (N.to_nat (dot - off)) (skipn (N.to_nat off) ts)) = false).
  { destruct Hs as [[-> H0]|[-> H1]].
    - cbn [N.to_nat skipn]. unfold starts_with_byte in *. destruct (N.to_nat (dot - 0)); [reflexivity|].
      destruct ts as [|c r]; [reflexivity|]. cbn [firstn]. exact H0.
    - apply hd_firstn_not; [|lia]. destruct ts as [|c [|d r]]; cbn in *; try lia; try exact H1. }
  pose proof (parse_i64_nonneg _ z Ep Hn). lia.
Qed.

(* the fraction part: Ok, and above i64::MIN *)
Lemma fraction_part_ok (fs : bytes) :
  exists f, (if negb (blen fs =? 6) then
               (x <- frac_up_i64 7 (u64_as_i64 (unwrap_or (parse_unsigned u64max fs) 0)) (blen fs) ;;
                y <- frac_down_i64 (S (length fs)) (fst x) (snd x) ;; Ok (fst y))%res
             else Ok (u64_as_i64 (unwrap_or (parse_unsigned u64max fs) 0))) = Ok f /\ (i64min < f <= i64max)%Z.
Proof.
  set (v := unwrap_or (parse_unsigned u64max fs) 0).
  assert (Hv : v < 10 ^ blen fs /\ v <= u64max).
  { unfold v. destruct (parse_unsigned u64max fs) as [w|] eqn:Ep; cbn [unwrap_or].
    - apply parse_unsigned_bound in Ep. exact Ep.
    - split; [apply N.neq_0_lt_0; apply N.pow_nonzero; lia|unfold u64max; lia]. }
  destruct Hv as [Hv1 Hv2].
  destruct (blen fs =? 6) eqn:E6; cbn [negb].
  { apply N.eqb_eq in E6. rewrite E6 in Hv1. change (10 ^ 6) with 1000000 in Hv1. eexists. split; [reflexivity|].
    rewrite u64_as_i64_small by (unfold i64max_n; lia). unfold i64min, i64max. lia. }
  apply N.eqb_neq in E6. destruct (N.lt_ge_cases (blen fs) 6) as [Hs|Hb].
  - pose proof (small_fraction_bound v (blen fs) Hv1 Hs) as Hsb.
    assert (Hsmall : v <= i64max_n).
    { assert (0 < 10 ^ (6 - blen fs)) by (apply N.neq_0_lt_0; apply N.pow_nonzero; lia). unfold i64max_n. nia. }
    rewrite (u64_as_i64_small v Hsmall). rewrite frac_up_i64_ok; [|lia|intros _; exact Hsb]. cbn [bind fst snd].
    destruct (frac_down_i64_ok (S (length fs)) (N.max (blen fs) 6) (Z.of_N (v * 10 ^ (6 - blen fs)))) as (f' & H1 & _ & H3).
    { lia. } { unfold i64min, i64max. lia. }
    rewrite H1. cbn [bind fst]. eexists. split; [reflexivity|]. rewrite H3 by lia. unfold i64min, i64max. lia.
  - change 7%nat with (S 6). rewrite frac_up_i64_noop by exact Hb. cbn [bind fst snd].
    destruct (frac_down_i64_ok (S (length fs)) (blen fs) (u64_as_i64 v)) as (f' & H1 & H2 & _).
    { unfold blen. lia. } { apply u64_as_i64_range. exact Hv2. }
    rewrite H1. cbn [bind fst]. eexists. split; [reflexivity|]. apply H2. lia.
Qed.

(* parse_signed_time_str: for every &str of the regexes' shape: Ok, and the value can be negated *)
Theorem parse_signed_time_str_total (ts : bytes) : utf8_valid ts = true -> blen ts + 1 <= usizemax -> ts_shape ts ->
  exists v, parse_signed_time_str ts = Ok v /\ (i64min < v <= i64max)%Z.
Proof.
  intros Hv Hl Hshape. unfold parse_signed_time_str.
  set (neg := starts_with_byte 45 ts). set (off := if neg then 1 else 0).
  (* the dot index and the two slices *)
  assert (Hoff : is_char_boundary ts off = true /\ ((off = 0 /\ starts_with_byte 45 ts = false) \/ (off = 1 /\ nth 1 ts 0 <> 45))).
  { unfold off, neg. destruct (starts_with_byte 45 ts) eqn:Es.
    - split; [|right; split; [reflexivity|apply Hshape; exact Es]].
      destruct ts as [|c r]; [discriminate|]. cbn in Es. apply N.eqb_eq in Es. subst c.
      apply (boundary_after_ascii [] r 45 Hv). reflexivity.
    - split; [reflexivity|left; split; reflexivity]. }
  destruct Hoff as [Hob Hcase].
  assert (Hfinal : forall secs f, (0 <= secs <= i64max)%Z -> (i64min < f <= i64max)%Z ->
            exists v, (let t := sat_i64 (secs + f) in if neg then i64_neg_chk t else Ok t) = Ok v /\ (i64min < v <= i64max)%Z).
  { intros secs f Hs Hf. cbv zeta. pose proof (sat_i64_range (secs + f)) as Hr.
    assert (Hg : (i64min < sat_i64 (secs + f))%Z) by (apply sat_i64_gt_min; lia).
    destruct neg.
    - unfold i64_neg_chk. replace (sat_i64 (secs + f) =? i64min)%Z with false by (symmetry; apply Z.eqb_neq; lia).
      eexists. split; [reflexivity|]. unfold i64min, i64max in *. lia.
    - eexists. split; [reflexivity|]. lia. }
  destruct (find_byte 46 ts 0) as [i|] eqn:Ef.
  - destruct (find_byte_split 46 ts 0 i Ef) as (p & q & Ets & ->). rewrite N.add_0_l.
    assert (Hle : off <= blen p).
    { unfold off, neg. destruct (starts_with_byte 45 ts) eqn:Es; [|lia]. subst ts.
      destruct p as [|c p']; [cbn in Es; discriminate|]. rewrite blen_cons. lia. }
    assert (Hbd : is_char_boundary ts (blen p) = true) by (subst ts; apply boundary_at_ascii; reflexivity).
    rewrite (slice_ok ts off (blen p) Hle Hob Hbd). cbn [bind].
    replace (blen p <? blen ts) with true by (symmetry; apply N.ltb_lt; subst ts; rewrite blen_app, blen_cons; lia).
    unfold add_chk at 1. replace (blen p + 1 <=? usizemax) with true by (symmetry; apply N.leb_le; subst ts; rewrite blen_app, blen_cons in Hl; lia).
    cbn [bind]. subst ts. destruct (fraction_slice p q Hv) as (fs & Hfs & _). rewrite Hfs. cbn [bind].
    destruct (fraction_part_ok fs) as (f & Hf1 & Hf2). rewrite Hf1. cbn [bind].
    apply Hfinal; [|exact Hf2]. split; [apply secs_part_nonneg; exact Hcase|apply sat_i64_range].
  - assert (Hle : off <= blen ts).
    { unfold off, neg. destruct (starts_with_byte 45 ts) eqn:Es; [|lia]. destruct ts; [discriminate|]. rewrite blen_cons. lia. }
    rewrite (slice_ok ts off (blen ts) Hle Hob (boundary_len ts)). cbn [bind]. rewrite N.ltb_irrefl. cbn [bind].
    apply Hfinal; [|unfold i64min, i64max; lia]. split; [apply secs_part_nonneg; exact Hcase|apply sat_i64_range].
Qed.

(* without the shape the unary minus does overflow: the function is safe under the regex, not on every string *)
Theorem parse_signed_time_str_needs_shape :
  exists ts, utf8_valid ts = true /\ ~ ts_shape ts /\ parse_signed_time_str ts = Panic site_neg_overflow.
Proof.
  (* "--9223372036854775808.0" *)
  exists [45; 45; 57; 50; 50; 51; 51; 55; 50; 48; 51; 54; 56; 53; 52; 55; 55; 53; 56; 48; 56; 46; 48].
  split; [reflexivity|]. split; [|vm_compute; reflexivity].
  intros H. apply H; reflexivity.
Qed.

(* ------------------------------------------------------------------ asc: the iterator arithmetic *)
Theorem timestamp_dms_from_total (st : asc_st) (ts : Z) : (i64min < ts)%Z ->
  exists d, timestamp_dms_from st ts = Ok d.
Proof.
  intros H. unfold timestamp_dms_from. destruct (0 <=? ts)%Z; [eexists; reflexivity|].
  destruct (0 <? a_offset_dms st); [|eexists; reflexivity].
  unfold i64_neg_chk. replace (ts =? i64min)%Z with false by (symmetry; apply Z.eqb_neq; lia).
  cbn [bind]. eexists; reflexivity.
Qed.
Theorem asc_date_line_total (st : asc_st) (reference : option N) (nt : Z) : exists st', asc_date_line st reference nt = Ok st'.
Proof.
  unfold asc_date_line. destruct reference as [r|]; [|eexists; reflexivity].
  destruct (r <? Z.to_N (Z.max nt 0)) eqn:E; [|eexists; reflexivity].
  apply N.ltb_lt in E. unfold sub_chk. replace (r <=? Z.to_N (Z.max nt 0)) with true by (symmetry; apply N.leb_le; lia).
  cbn [bind]. eexists; reflexivity.
Qed.
Theorem info_msg_len_ok (n : N) : exists l, info_msg_len n = Ok l /\ l <= u16max.
Proof.
  unfold info_msg_len, LEN_WO_PAYLOAD, u16max. change (sub_chk 65535 22) with (Ok 65513 : res N). cbn [bind].
  change (sub_chk 65513 15) with (Ok 65498 : res N). cbn [bind].
  assert (H : N.min n 65498 <= 65498) by lia. unfold trunc.
  change (2 ^ 16) with 65536. rewrite N.mod_small by lia. unfold add_chk.
  replace (22 + (15 + N.min n 65498) <=? 65535) with true by (symmetry; apply N.leb_le; lia).
  eexists. split; [reflexivity|lia].
Qed.

(* one CAN line: whatever the line is (any length up to usize::MAX - 200 000, any data length field), once the regex has
   matched (capture locations on char boundaries, timestamp of its shape): no panic, len <= u16::MAX *)
Theorem asc_can_line_total (st : asc_st) (line ts_s d_s : bytes) (ts_a ts_b d_a d_b : N) :
  str_slice line ts_a ts_b = Ok ts_s -> utf8_valid ts_s = true -> ts_shape ts_s ->
  str_slice line d_a d_b = Ok d_s -> d_b <= blen line -> blen line + 200000 <= usizemax ->
  exists st' rt tdms len data, asc_can_line st line ts_a ts_b d_a d_b = Ok (st', (rt, tdms, len, data)) /\
    len <= u16max /\ rt <= u64max /\ blen data + 4 + LEN_WO_PAYLOAD <= u16max.
Proof.
  intros Hts Hv Hshape Hds Hdb Hl. unfold asc_can_line. rewrite Hts. cbn [bind].
  assert (Htl : blen ts_s + 1 <= usizemax).
  { pose proof (slice_len _ _ _ _ Hts) as E. unfold str_slice in Hts.
    destruct (ts_a <=? ts_b); [|discriminate]. destruct (is_char_boundary line ts_a); [|discriminate]. cbn [andb] in Hts.
    destruct (is_char_boundary line ts_b) eqn:Eb; [|discriminate]. apply boundary_le in Eb. unfold usizemax, u64max in *. lia. }
  destruct (parse_signed_time_str_total ts_s Hv Htl Hshape) as (t & Ht & Htr). rewrite Ht. cbn [bind].
  rewrite Hds. cbn [bind].
  set (data_len := unwrap_or (parse_unsigned u16max d_s) 0).
  assert (Hdl : data_len <= 65535).
  { unfold data_len. destruct (parse_unsigned u16max d_s) as [w|] eqn:Ep; cbn [unwrap_or]; [|lia].
    apply parse_unsigned_bound in Ep. unfold u16max in Ep. lia. }
  unfold usizemax, u64max in Hl.
  unfold add_chk at 1. replace (d_b + 1 <=? usizemax) with true by (symmetry; apply N.leb_le; unfold usizemax, u64max; lia). cbn [bind].
  unfold mul_chk. replace (3 * data_len <=? usizemax) with true by (symmetry; apply N.leb_le; unfold usizemax, u64max; lia). cbn [bind].
  unfold add_chk at 1. replace (d_b + 1 + 3 * data_len <=? usizemax) with true by (symmetry; apply N.leb_le; unfold usizemax, u64max; lia). cbn [bind].
  unfold sub_chk at 1. replace (1 <=? d_b + 1 + 3 * data_len) with true by (symmetry; apply N.leb_le; lia). cbn [bind].
  set (st1 := if (t <? 0)%Z && (a_first_neg st =? 0)%Z then _ else st).
  assert (Hdata : exists o, (if (0 <? data_len) && (d_b + 1 + 3 * data_len - 1 <? blen line)
                             then match str_get line (d_b + 1) (d_b + 1 + 3 * data_len - 1) with Some sl => hex_to_bytes sl | None => Ok None end
                             else Ok None) = Ok o /\ (forall v, o = Some v -> 3 * blen v <= blen line + 3)).
  { destruct ((0 <? data_len) && (d_b + 1 + 3 * data_len - 1 <? blen line)); [|exists None; split; [reflexivity|discriminate]].
    unfold str_get. destruct ((d_b + 1 <=? d_b + 1 + 3 * data_len - 1) && is_char_boundary line (d_b + 1) && is_char_boundary line (d_b + 1 + 3 * data_len - 1)) eqn:Eg;
      [|exists None; split; [reflexivity|discriminate]].
    set (sl := firstn _ _).
    assert (Hsl : blen sl <= blen line).
    { unfold sl, blen. rewrite firstn_length, skipn_length. lia. }
    rewrite hex_to_bytes_spec by (unfold usizemax, u64max; lia).
    eexists. split; [reflexivity|]. intros v Hvv. destruct (all_ascii sl); [|discriminate].
    assert (G : forall n q vs, (length q <= n)%nat -> hex_groups q = Some vs -> (3 * length vs <= length q + 1)%nat).
    { induction n as [|n IH]; intros q vs Hn Hq.
      - destruct q; [discriminate|cbn in Hn; lia].
      - destruct q as [|a [|b [|c rest]]]; try discriminate.
        + cbn [hex_groups] in Hq. destruct (u8_from_str_radix16 [a; b]); [|discriminate]. inversion Hq. cbn. lia.
        + cbn [hex_groups] in Hq. destruct (u8_from_str_radix16 [a; b]); [|discriminate].
          destruct (hex_groups rest) as [vs'|] eqn:Er; [|discriminate]. inversion Hq. cbn [length] in *.
          specialize (IH rest vs' ltac:(lia) Er). lia. }
    specialize (G _ sl v (le_n _) Hvv). unfold blen in *. lia. }
  destruct Hdata as (o & Ho & Hob). rewrite Ho. cbn [bind].
  unfold add_chk at 1. replace (4 + data_len <=? usizemax) with true by (symmetry; apply N.leb_le; unfold usizemax, u64max; lia). cbn [bind].
  unfold LEN_WO_PAYLOAD, u16max. change (sub_chk 65535 22) with (Ok 65513 : res N). cbn [bind].
  assert (Hm : N.min (4 + blen (unwrap_or o [])) 65513 <= 65513) by lia.
  unfold trunc. change (2 ^ 16) with 65536. rewrite N.mod_small by lia.
  unfold add_chk at 1. replace (22 + N.min (4 + blen (unwrap_or o [])) 65513 <=? 65535) with true by (symmetry; apply N.leb_le; lia). cbn [bind].
  destruct (timestamp_dms_from_total st1 t) as (d & Hd); [lia|]. rewrite Hd. cbn [bind].
  do 5 eexists. split; [reflexivity|]. split; [lia|]. split.
  - unfold sat_add_signed_u64, u64max. destruct (Z.of_N (a_date_us st1) + t <? 0)%Z; [lia|].
    destruct (Z.of_N 18446744073709551615 <? Z.of_N (a_date_us st1) + t)%Z eqn:E; [lia|]. apply Z.ltb_ge in E. lia.
  - unfold blen. rewrite firstn_length. lia.
Qed.

(* ------------------------------------------------------------------ logcat: one monotonic line *)
Theorem logcat_mono_line_total (start : N) (ts : bytes) : utf8_valid ts = true -> blen ts + 1 <= usizemax ->
  exists rt tdms, logcat_mono_line start ts = Ok (rt, tdms) /\ rt <= i64max_n /\ tdms <= u32max.
Proof.
  intros Hv Hl. unfold logcat_mono_line. destruct (parse_time_str_total ts Hv Hl) as (v & H1 & _). rewrite H1. cbn [bind].
  eexists. eexists. split; [reflexivity|]. split.
  - unfold logcat_reception_time. lia.
  - unfold logcat_timestamp_dms, trunc, u32max. pose proof (N.mod_upper_bound (v / 100) (2 ^ 32)). change (2 ^ 32) with 4294967296 in *. lia.
Qed.

(* ------------------------------------------------------------------ the same operations, checked: what the fixes removed *)
(* 21ad8ac: `secs * 1_000_000` as a checked i64 multiplication panics for the timestamp 99999999999999.000000 *)
Lemma asc_secs_mul_before_fix_refuted : i64_mul_chk 99999999999999 1000000 = Panic site_mul_overflow.
Proof. vm_compute. reflexivity. Qed.
(* be7e6d2: `len_wo_payload + payload.len() as u16` without the cut of the payload: 22 + 65514 *)
Lemma u16_len_before_fix_refuted : add_chk u16max LEN_WO_PAYLOAD (trunc 16 (4 + 65510)) = Panic site_add_overflow.
Proof. vm_compute. reflexivity. Qed.
(* 9d724de: `secs * US_PER_SEC` as a checked u64 multiplication, timestamp 99999999999999.000 *)
Lemma logcat_secs_mul_before_fix_refuted : mul_chk u64max 99999999999999 1000000 = Panic site_mul_overflow.
Proof. vm_compute. reflexivity. Qed.
