(* C03, modelled core: byte-exact model of src/dlt/control_msgs.rs — the parsers of control-message bodies:
     parse_payload_int<T>               (u16 / i8 / i32 instances: width 2 / 1 / 4)
     parse_ctrl_log_info_payload        GET_LOG_INFO response, statuses 3..7, app / context loops with the
                                        `offset` / `avail` bookkeeping, descriptions
     parse_ctrl_sw_version_payload      GET_SOFTWARE_VERSION response
     parse_ctrl_unregister_context_payload, parse_ctrl_connection_info_payload, parse_ctrl_timezone_payload
   in the [res] monad: every `payload.get(a..b).unwrap()`, `&payload[a..b]`, `payload[i]`, `Option::unwrap`,
   usize `+` and usize `-` of the source is an operation that returns [Panic] when the Rust operation would.

   Not modelled (external, total): WINDOWS_1252.decode_without_bom_handling and RE_NEW_LINE.replace_all — a
   description / version string is kept as the raw byte slice it is decoded from (one char per byte);
   signed integers (i8 log level / trace status, i32 gmt offset) are kept as their unsigned byte value;
   Vec::with_capacity(count_app_ids as usize) (at most 65535 entries).
   No proofs in this file (Crash/ControlMsgsProofs.v). *)
From Coq Require Import List NArith Bool.
From AdltV Require Import Base.Res Base.MachInt.
Import ListNotations.
Open Scope N_scope.

Definition bytes := list N.
Definition blen (l : bytes) : N := N.of_nat (length l).
(* the n bytes from position a (total; callers check the range first) *)
Definition sub (l : bytes) (a n : N) : bytes := firstn (N.to_nat n) (skipn (N.to_nat a) l).

(* payload.get(a..b).unwrap() *)
Definition get_unwrap (l : bytes) (a b : N) : res bytes :=
  if (a <=? b) && (b <=? blen l) then Ok (sub l a (b - a)) else Panic site_unwrap.
(* &payload[a..b] *)
Definition index_range (l : bytes) (a b : N) : res bytes :=
  if (a <=? b) && (b <=? blen l) then Ok (sub l a (b - a)) else Panic site_index.
(* &payload[a..] *)
Definition index_from (l : bytes) (a : N) : res bytes :=
  if a <=? blen l then Ok (skipn (N.to_nat a) l) else Panic site_index.
(* payload[i] *)
Definition index1 (l : bytes) (i : N) : res N :=
  match nth_error l (N.to_nat i) with Some b => Ok b | None => Panic site_index end.
Definition unwrap {A} (o : option A) : res A := match o with Some a => Ok a | None => Panic site_unwrap end.

(* T::from_be_bytes / T::from_le_bytes (unsigned value of the byte string) *)
Definition from_be (bs : bytes) : N := fold_left (fun acc b => acc * 256 + b) bs 0.
Definition from_le (bs : bytes) : N := fold_right (fun b acc => b + 256 * acc) 0 bs.
Definition from_bytes (be : bool) (bs : bytes) : N := if be then from_be bs else from_le bs.

(* parse_payload_int::<T>(is_big_endian, payload, offset), w = size_of::<T>() *)
Definition parse_payload_int (w : N) (be : bool) (p : bytes) (offset : N) : res (option N) :=
  (e <- add_chk usizemax offset w ;;
   if blen p <? e then Ok None
   else buf <- get_unwrap p offset e ;; Ok (Some (from_bytes be buf)))%res.   (* try_into of a w byte slice succeeds *)

(* ------------------------------------------------------------------ GET_LOG_INFO *)
Record ctx := { c_id : bytes; c_ll : option N; c_ts : option N; c_desc : option bytes }.
Record app := { a_id : bytes; a_ctxs : list ctx; a_desc : option bytes }.

(* `let len_desc: u16 = parse_payload_int(..).unwrap(); offset += 2; avail -= 2;
    if len_desc > 0 && avail >= len_desc { .. &payload[offset..offset + len_desc] ..; offset += len_desc; avail -= len_desc; }`
   (entered after the test `avail >= 2`) *)
Definition desc_field (be : bool) (p : bytes) (offset avail : N) : res (option bytes * N * N) :=
  (lo <- parse_payload_int 2 be p offset ;;
   len <- unwrap lo ;;
   offset <- add_chk usizemax offset 2 ;;
   avail <- sub_chk avail 2 ;;
   if (0 <? len) && (len <=? avail) then
     e <- add_chk usizemax offset len ;;
     d <- index_range p offset e ;;
     avail <- sub_chk avail len ;;
     Ok (Some d, e, avail)
   else Ok (None, offset, avail))%res.

(* one turn of `for _c in 0..count_context_ids`; None = `return vec![]` *)
Definition ctx_step (hl hts hd be : bool) (p : bytes) (offset avail : N) : res (option (ctx * N * N)) :=
  (if avail <? 4 then Ok None else
   e <- add_chk usizemax offset 4 ;;
   id <- get_unwrap p offset e ;;
   avail <- sub_chk avail 4 ;;
   let offset := e in
   r1 <- (if hl then
            if avail <? 1 then Ok None else
            ll <- parse_payload_int 1 be p offset ;;
            avail <- sub_chk avail 1 ;; offset <- add_chk usizemax offset 1 ;; Ok (Some (ll, offset, avail))
          else Ok (Some (None, offset, avail))) ;;
   match r1 with
   | None => Ok None
   | Some (ll, offset, avail) =>
     r2 <- (if hts then
              if avail <? 1 then Ok None else
              ts <- parse_payload_int 1 be p offset ;;
              avail <- sub_chk avail 1 ;; offset <- add_chk usizemax offset 1 ;; Ok (Some (ts, offset, avail))
            else Ok (Some (None, offset, avail))) ;;
     match r2 with
     | None => Ok None
     | Some (ts, offset, avail) =>
       if hd then
         if 2 <=? avail then
           '(d, offset, avail) <- desc_field be p offset avail ;;
           Ok (Some ({| c_id := id; c_ll := ll; c_ts := ts; c_desc := d |}, offset, avail))
         else Ok None
       else Ok (Some ({| c_id := id; c_ll := ll; c_ts := ts; c_desc := None |}, offset, avail))
     end
   end)%res.

Fixpoint ctx_loop (n : nat) (hl hts hd be : bool) (p : bytes) (offset avail : N) (acc : list ctx)
  : res (option (list ctx * N * N)) :=
  match n with
  | O => Ok (Some (rev acc, offset, avail))
  | S n' =>
      (r <- ctx_step hl hts hd be p offset avail ;;
       match r with
       | None => Ok None
       | Some (c, offset, avail) => ctx_loop n' hl hts hd be p offset avail (c :: acc)
       end)%res
  end.

(* `for _i in 0..count_app_ids`: `break` returns what was pushed so far; an abort of the context loop returns [] *)
Fixpoint app_loop (n : nat) (hl hts hd be : bool) (p : bytes) (offset avail : N) (acc : list app) : res (list app) :=
  match n with
  | O => Ok (rev acc)
  | S n' =>
      (if avail <? 6 then Ok (rev acc) else
       e4 <- add_chk usizemax offset 4 ;;
       id <- get_unwrap p offset e4 ;;
       o4 <- add_chk usizemax offset 4 ;;
       lo <- parse_payload_int 2 be p o4 ;;
       cc <- unwrap lo ;;
       offset <- add_chk usizemax offset 6 ;;
       avail <- sub_chk avail 6 ;;
       r <- ctx_loop (N.to_nat cc) hl hts hd be p offset avail [] ;;
       match r with
       | None => Ok []
       | Some (cs, offset, avail) =>
           if hd then
             if 2 <=? avail then
               '(d, offset, avail) <- desc_field be p offset avail ;;
               app_loop n' hl hts hd be p offset avail ({| a_id := id; a_ctxs := cs; a_desc := d |} :: acc)
             else Ok (rev acc)                       (* break before apids.push(apid_info) *)
           else app_loop n' hl hts hd be p offset avail ({| a_id := id; a_ctxs := cs; a_desc := None |} :: acc)
       end)%res
  end.

Definition has_ll (status : N) : bool := (status =? 4) || (status =? 6) || (status =? 7).
Definition has_ts (status : N) : bool := (status =? 5) || (status =? 6) || (status =? 7).
Definition has_d (status : N) : bool := status =? 7.

Definition parse_log_info (status : N) (be : bool) (p : bytes) : res (list app) :=
  (if (3 <=? status) && (status <=? 7) then
     if 2 <=? blen p then
       lo <- parse_payload_int 2 be p 0 ;;
       cnt <- unwrap lo ;;
       avail <- sub_chk (blen p) 2 ;;
       app_loop (N.to_nat cnt) (has_ll status) (has_ts status) (has_d status) be p 2 avail []
     else Ok []
   else Ok [])%res.

(* ------------------------------------------------------------------ GET_SOFTWARE_VERSION *)
Definition parse_sw_version (be : bool) (p : bytes) : res (option bytes) :=
  (if 4 <=? blen p then
     b <- get_unwrap p 0 4 ;;
     let sw_len := from_bytes be b in
     rest <- index_from p 4 ;;
     if sw_len <=? blen rest then s <- index_range rest 0 sw_len ;; Ok (Some s) else Ok None
   else Ok None)%res.

(* ------------------------------------------------------------------ user defined services *)
Definition parse_unregister_context (p : bytes) : res (option (bytes * bytes * bytes)) :=
  (if blen p =? 12 then
     a <- index_range p 0 4 ;; c <- index_range p 4 8 ;; m <- index_range p 8 12 ;; Ok (Some (a, c, m))
   else Ok None)%res.

Definition parse_connection_info (p : bytes) : res (option (N * bytes)) :=
  (if blen p =? 5 then s <- index1 p 0 ;; m <- index_range p 1 5 ;; Ok (Some (s, m)) else Ok None)%res.

Definition parse_timezone (be : bool) (p : bytes) : res (option (N * bool)) :=
  (if blen p =? 5 then
     go <- parse_payload_int 4 be p 0 ;; g <- unwrap go ;;
     d <- index1 p 4 ;; Ok (Some (g, 0 <? d))
   else Ok None)%res.
