(* C03, modelled core: the time arithmetic of src/lifecycle/mod.rs with every non-saturating Rust
   operation written as a CHECKED operation of Base/MachInt.v in the [res] monad, exactly where the source
   has it (debug build: an overflowing `+` or an underflowing `-` panics):

     Lifecycle::end_time                self.start_time + self.max_timestamp_us
     Lifecycle::is_slightly_overlapping other_start_us + 2 s, self.start_time + 10 s     (&& short-circuits)
     Lifecycle::new                     msg.reception_time_us - timestamp_us
     Lifecycle::update                  self.start_time - msg_lc_start, last_reception_time + 10 s,
                                        start_time + 10 s, (rt - last_reception_time) + 30 s,
                                        msg_lc_start - self.start_time, max - max / 8      (&& short-circuits)
     the merge test of the detector     prev_lc.end_time(), prev_lc.is_slightly_overlapping(lc2.start_time)
     the once-per-second confirmation   ts + 60 s, rt - (ts + 60 s), lc.max - lc.min, rt - 60 s, lc.end_time(),
                                        rt + 1 s

   [update_chk], [new_lc_chk] ... compute the same values as [update], [new_lc] ... of Lifecycle/Model.v
   (which uses N's truncated subtraction behind explicit guards); [phase1_chk] / [phase2_chk] / [step_chk] /
   [run_chk] evaluate, in program order, every checked operation the detector loop performs for one
   message and then return the model's result.  Crash/LifecycleChkProofs.v proves that none of them can
   return [Panic] (for ALL message sequences within the machine ranges): the detector arithmetic never
   underflows or overflows.

   Not checked here (said in docs/C03.md): the u32 counters nr_msgs / nr_control_req_msgs (bounded by the
   number of messages, itself bounded by the u32 message index whose overflow is C01's subject), `saturating_sub`
   (cannot panic), Lifecycle::merge (no subtraction, no time addition).  No proofs in this file. *)
From Coq Require Import List NArith Bool.
From AdltV Require Import Base.Res Base.MachInt Lifecycle.Model.
Import ListNotations.
Open Scope N_scope.

Definition end_time_chk (L : lcy) : res N :=
  if l_max_ts L =? 0 then Ok (l_last_rt L) else add_chk u64max (l_start L) (l_max_ts L).

(* other_start_us <= cur_end_time && (other_start_us + 2 s) > cur_end_time && cur_end_time > (self.start_time + 10 s) *)
Definition slightly_overlapping_chk (L : lcy) (other_start : N) : res bool :=
  (e <- end_time_chk L ;;
   if negb (other_start <=? e) then Ok false else
   s2 <- add_chk u64max other_start (US_PER_SEC * 2) ;;
   if negb (e <? s2) then Ok false else
   s10 <- add_chk u64max (l_start L) (US_PER_SEC * 10) ;;
   Ok (s10 <? e))%res.

Definition new_lc_chk (id : N) (m : msg) : res lcy :=
  (let ts := if m_creq m then 0 else if m_rt m <? m_ts m then 0 else m_ts m in
   st <- sub_chk (m_rt m) ts ;;
   Ok {| l_id := id; l_ecu := m_ecu m; l_nr := 1; l_nr_creq := if m_creq m then 1 else 0;
         l_start := st; l_min_ts := ts; l_max_ts := ts; l_last_rt := m_rt m; l_resume := None |})%res.

(* the `is_resume` conjunction of Lifecycle::update, left to right with short-circuit *)
Definition resume_detected_chk (L : lcy) (rt ts lc_start : N) : res bool :=
  (a1 <- add_chk u64max (l_last_rt L) (US_PER_SEC * 10) ;;
   if negb (a1 <=? rt) then Ok false else
   if negb (l_max_ts L <=? ts) then Ok false else
   a2 <- add_chk u64max (l_start L) (US_PER_SEC * 10) ;;
   if negb (a2 <=? lc_start) then Ok false else
   d1 <- sub_chk rt (l_last_rt L) ;;
   s <- add_chk u64max d1 (US_PER_SEC * 30) ;;
   d2 <- sub_chk lc_start (l_start L) ;;
   Ok (d2 <? s))%res.

Definition update_chk (L : lcy) (m : msg) (fresh : N) : res (lcy * option lcy) :=
  (if m_creq m then Ok (bump_nr L true, None) else
   let ts := m_ts m in
   let rt := m_rt m in
   let lc_start := rt - ts in                       (* saturating_sub *)
   cur_end <- end_time_chk L ;;
   so <- slightly_overlapping_chk L lc_start ;;
   let part := (negb so && (lc_start <=? cur_end)) || negb (m_has_ts m) in
   would_move <- (if lc_start <? l_start L then sub_chk (l_start L) lc_start else Ok 0) ;;
   if part && (MAX_BUFFERING_DELAY <? would_move) && (0 <? l_max_ts L) then Ok (bump_nr L false, None) else
   resume_detected <- resume_detected_chk L rt ts lc_start ;;
   if negb resume_detected && part then
     let min' :=
         if ts <? l_min_ts L then
           match l_resume L with
           | Some r => if r_max_ts r <? ts then ts else l_min_ts L
           | None => ts
           end
         else l_min_ts L in
     let max' := if l_max_ts L <? ts then ts else l_max_ts L in
     res' <- (if l_max_ts L <? ts then Ok (l_resume L) else
                match l_resume L with
                | Some r => lim <- sub_chk (r_max_ts r) (r_max_ts r / 8) ;;
                            Ok (if ts <? lim then None else Some r)
                | None => Ok None
                end) ;;
     Ok ({| l_id := l_id L; l_ecu := l_ecu L; l_nr := l_nr L + 1; l_nr_creq := l_nr_creq L;
            l_start := if lc_start <? l_start L then lc_start else l_start L;
            l_min_ts := min'; l_max_ts := max'; l_last_rt := rt; l_resume := res' |}, None)
   else
     Ln <- new_lc_chk fresh m ;;
     Ok (L, Some (if resume_detected
                  then with_resume Ln (Some {| r_id := l_id L; r_max_ts := l_max_ts L; r_start := l_start L |})
                  else Ln)))%res.

(* lc2.start_time <= prev_lc.end_time() && !lc2.is_resume() && !prev_lc.is_slightly_overlapping(lc2.start_time) *)
Definition needs_merge_chk (P L : lcy) : res bool :=
  (e <- end_time_chk P ;;
   if negb (l_start L <=? e) then Ok false else
   if is_resume L then Ok false else
   so <- slightly_overlapping_chk P (l_start L) ;;
   Ok (negb so))%res.

(* the confirmation test; [g] = msg_timestamp_us + max_buffering_delay_us computed by the enclosing `if` *)
Definition confirmable_chk (m : msg) (L : lcy) (g : N) : res bool :=
  (min_lc_start <- sub_chk (m_rt m) g ;;
   if (l_start L <? min_lc_start) && (l_ecu L =? m_ecu m) then Ok true else
   d <- sub_chk (l_max_ts L) (l_min_ts L) ;;
   if MAX_BUFFERING_DELAY <? d then Ok true else
   r <- sub_chk (m_rt m) MAX_BUFFERING_DELAY ;;
   e <- end_time_chk L ;;
   Ok (e <? r))%res.

(* ---- the detector loop: the checked operations of one message, in program order, then the model's value *)
Definition phase1_chk (d : det) (m0 : msg) : res p1 :=
  (match rev (lookup (m_ecu m0) (emap d)) with
   | [] => _ <- new_lc_chk (next_id d) m0 ;; Ok (phase1 d m0)
   | L :: prevs_rev =>
       r <- update_chk L m0 (next_id d) ;;
       match r, prevs_rev with
       | (L', None), P :: _ => _ <- needs_merge_chk P L' ;; Ok (phase1 d m0)
       | _, _ => Ok (phase1 d m0)
       end
   end)%res.

(* `for lc in ..: if !buffered_lcs.contains(&lc.id) { continue }; if <confirmation test> {..}` *)
Fixpoint confirm_pass_chk (m : msg) (g : N) (ls : list lcy) (c : cstate) : res cstate :=
  match ls with
  | [] => Ok c
  | L :: r =>
      if inb (l_id L) (c_buf c) then
        (b <- confirmable_chk m L g ;;
         if b then
           let buf' := remove_id (l_id L) (c_buf c) in
           let vis' := refresh (c_vis c) (c_pend c ++ [PUpdate (l_id L) L]) in
           let '(o, q', tr') := release (l_id L) buf' (c_q c) (c_tr c) in
           confirm_pass_chk m g r {| c_buf := buf'; c_vis := vis'; c_pend := []; c_q := q'; c_tr := tr';
                                     c_out := c_out c ++ map (fun x => (x, vis')) o |}
         else confirm_pass_chk m g r c)%res
      else confirm_pass_chk m g r c
  end.

Definition phase2_chk (d : det) (p : p1) : res (cstate * N) :=
  (let c0 := {| c_buf := p_buf p; c_vis := vis d; c_pend := p_pend p; c_q := p_q p; c_tr := p_tr p; c_out := [] |} in
   let m := p_msg p in
   if next_check d <? m_rt m then
     g <- add_chk u64max (m_ts m) MAX_BUFFERING_DELAY ;;
     c <- (if g <? m_rt m then confirm_pass_chk m g (all_lcs (p_emap p)) c0 else Ok c0) ;;
     nc <- add_chk u64max (m_rt m) US_PER_SEC ;;
     Ok (c, nc)
   else Ok (c0, next_check d))%res.

Definition step_chk (d : det) (m0 : msg) : res (det * list delivery) :=
  (p <- phase1_chk d m0 ;;
   _ <- phase2_chk d p ;;
   Ok (step d m0))%res.

Fixpoint run_chk (d : det) (ms : list msg) : res (det * list delivery) :=
  match ms with
  | [] => Ok (d, [])
  | m :: r =>
      (s1 <- step_chk d m ;;
       s2 <- run_chk (fst s1) r ;;
       Ok (fst s2, snd s1 ++ snd s2))%res
  end.

(* `adlt convert` prints for every listed lifecycle: resume_time(), end_time() *)
Definition resume_time_chk (L : lcy) : res N :=
  match l_resume L with
  | Some r =>
      (a <- add_chk u64max (l_start L) (l_min_ts L) ;;
       b <- (if r_start r <? l_start L then sub_chk (l_start L) (r_start r) else Ok 0) ;;
       sub_chk a b)%res
  | None => Ok (l_start L)
  end.

(* the periodic ("regular") refresh test of the detector, on u32 message indices:
     repaired (4811f3c):  last_regular_refresh_index.saturating_add(100_000) < last_msg_index
     before:              last_regular_refresh_index + 100_000 < last_msg_index          (checked add in a debug build) *)
Definition sat_add (max a b : N) : N := N.min max (a + b).
Definition refresh_due_sat (lastreg lastidx : N) : bool := sat_add u32max lastreg 100000 <? lastidx.
Definition refresh_due_before_fix (lastreg lastidx : N) : res bool :=
  (s <- add_chk u32max lastreg 100000 ;; Ok (s <? lastidx))%res.
