(* Proofs about Crash/TextUtils.v (get_4digit_str, get_apid_for_tag, hex_to_bytes of src/utils/mod.rs). *)
From Coq Require Import List NArith Bool Lia Arith.
From AdltV Require Import Base.Res Base.MachInt Crash.TextUtils.
Import ListNotations.
Open Scope N_scope.

(* ------------------------------------------------------------------ small facts *)
Lemma blen_app (a b : bytes) : blen (a ++ b) = blen a + blen b.
Proof. unfold blen. rewrite app_length. lia. Qed.
Lemma blen_nil : blen [] = 0.
Proof. reflexivity. Qed.
Lemma blen_cons x (a : bytes) : blen (x :: a) = 1 + blen a.
Proof. unfold blen. cbn [length]. lia. Qed.

Lemma bytes_eqb_refl (a : bytes) : bytes_eqb a a = true.
Proof. induction a as [|x a IH]; cbn; [reflexivity|]. rewrite N.eqb_refl. exact IH. Qed.
Lemma bytes_eqb_eq (a b : bytes) : bytes_eqb a b = true <-> a = b.
Proof.
  revert b. induction a as [|x a IH]; intros [|y b]; cbn; split; intros H; try discriminate; try reflexivity.
  - apply andb_true_iff in H. destruct H as [H1 H2]. apply N.eqb_eq in H1. apply IH in H2. subst. reflexivity.
  - inversion H; subst. rewrite N.eqb_refl. apply bytes_eqb_refl.
Qed.

Lemma is_char_boundary_0 (s : bytes) : is_char_boundary s 0 = true.
Proof. reflexivity. Qed.
Lemma boundary_le (s : bytes) (i : N) : is_char_boundary s i = true -> i <= blen s.
Proof.
  unfold is_char_boundary. destruct (i =? 0) eqn:E0; [apply N.eqb_eq in E0; lia|].
  destruct (blen s <=? i) eqn:E1; [|apply N.leb_gt in E1; lia].
  intros H. apply N.eqb_eq in H. lia.
Qed.

(* `while !a_str.is_char_boundary(end) { end -= 1; }`: ends on a boundary at or below the start, never underflows *)
Lemma back_to_boundary_ok (s : bytes) : forall fuel e, (N.to_nat e < fuel)%nat ->
  exists e', back_to_boundary fuel s e = Ok e' /\ e' <= e /\ is_char_boundary s e' = true.
Proof.
  induction fuel as [|f IH]; intros e Hf; [lia|].
  cbn [back_to_boundary]. destruct (is_char_boundary s e) eqn:Eb.
  - exists e. repeat split; [lia|exact Eb].
  - assert (He : e <> 0) by (intros ->; rewrite is_char_boundary_0 in Eb; discriminate).
    unfold sub_chk. destruct (1 <=? e) eqn:E1; [|apply N.leb_gt in E1; lia]. cbn [bind].
    destruct (IH (e - 1)) as (e' & H1 & H2 & H3); [lia|].
    exists e'. repeat split; [exact H1|lia|exact H3].
Qed.

(* &a_str[0..end] with `end` a boundary: in range and on boundaries, the prefix of that many bytes *)
Lemma str_slice_prefix_ok (s : bytes) (e : N) :
  is_char_boundary s e = true -> str_slice s 0 e = Ok (firstn (N.to_nat e) s).
Proof.
  intros H. unfold str_slice. rewrite is_char_boundary_0, H.
  replace (0 <=? e) with true by (symmetry; apply N.leb_le; lia). cbn [andb].
  rewrite N.sub_0_r. reflexivity.
Qed.

(* ------------------------------------------------------------------ decimal digits *)
Lemma dec_fuel_nonempty f n : (1 <= length (dec_fuel (S f) n))%nat.
Proof.
  cbn [dec_fuel]. destruct (n <? 10); [cbn; lia|]. rewrite app_length. cbn [length]. lia.
Qed.
Lemma dec_nonempty n : 1 <= blen (dec n).
Proof. unfold dec, blen. pose proof (dec_fuel_nonempty 19 n). lia. Qed.

Lemma dec_fuel_ascii f n : all_ascii (dec_fuel f n) = true.
Proof.
  revert n. induction f as [|f IH]; intros n; [reflexivity|]. cbn [dec_fuel].
  destruct (n <? 10) eqn:E.
  - apply N.ltb_lt in E. cbn [all_ascii forallb]. unfold is_ascii_b. replace (48 + n <? 128) with true; [reflexivity|].
    symmetry. apply N.ltb_lt. lia.
  - unfold all_ascii. rewrite forallb_app. fold (all_ascii (dec_fuel f (n / 10))). rewrite IH. cbn [forallb andb].
    unfold is_ascii_b. replace (48 + n mod 10 <? 128) with true; [reflexivity|].
    symmetry. apply N.ltb_lt. pose proof (N.mod_upper_bound n 10). lia.
Qed.
Lemma dec_ascii n : all_ascii (dec n) = true.
Proof. apply dec_fuel_ascii. Qed.

(* enough fuel: one more unit changes nothing *)
Lemma dec_fuel_more : forall f n, n < 10 ^ N.of_nat (S f) -> dec_fuel (S (S f)) n = dec_fuel (S f) n.
Proof.
  induction f as [|f IH]; intros n Hn.
  - cbn in Hn. cbn [dec_fuel]. destruct (n <? 10) eqn:E; [reflexivity|]. apply N.ltb_ge in E. lia.
  - change (dec_fuel (S (S (S f))) n) with (if n <? 10 then [48 + n] else dec_fuel (S (S f)) (n / 10) ++ [48 + n mod 10]).
    change (dec_fuel (S (S f)) n) with (if n <? 10 then [48 + n] else dec_fuel (S f) (n / 10) ++ [48 + n mod 10]).
    destruct (n <? 10) eqn:E; [reflexivity|].
    rewrite IH; [reflexivity|].
    apply N.div_lt_upper_bound; [lia|].
    replace (N.of_nat (S (S f))) with (N.succ (N.of_nat (S f))) in Hn by lia.
    rewrite N.pow_succ_r' in Hn. exact Hn.
Qed.

Lemma dec_step n : 10 <= n -> n < 10 ^ 20 -> dec n = dec (n / 10) ++ [48 + n mod 10].
Proof.
  intros H1 H2. unfold dec.
  change (dec_fuel 20 n) with (if n <? 10 then [48 + n] else dec_fuel 19 (n / 10) ++ [48 + n mod 10]).
  destruct (n <? 10) eqn:E; [apply N.ltb_lt in E; lia|].
  rewrite (dec_fuel_more 18 (n / 10)); [reflexivity|].
  apply N.div_lt_upper_bound; [lia|]. change (N.of_nat 19) with 19.
  replace (10 * 10 ^ 19) with (10 ^ 20) by reflexivity. exact H2.
Qed.
Lemma dec_small n : n < 10 -> dec n = [48 + n].
Proof. intros H. unfold dec. cbn [dec_fuel]. apply N.ltb_lt in H. rewrite H. reflexivity. Qed.

Lemma dec_len_1 n : n < 10 -> blen (dec n) = 1.
Proof. intros H. rewrite dec_small by exact H. reflexivity. Qed.
Lemma dec_len_2 n : 10 <= n -> n < 100 -> blen (dec n) = 2.
Proof.
  intros H1 H2. rewrite dec_step; [|lia|apply N.lt_trans with 100; [exact H2|reflexivity]].
  rewrite blen_app, dec_len_1; [reflexivity|]. apply N.div_lt_upper_bound; lia.
Qed.
Lemma dec_len_3 n : 100 <= n -> n < 1000 -> blen (dec n) = 3.
Proof.
  intros H1 H2. rewrite dec_step; [|lia|apply N.lt_trans with 1000; [exact H2|reflexivity]].
  rewrite blen_app, dec_len_2; [reflexivity| |].
  - apply N.div_le_lower_bound; lia.
  - apply N.div_lt_upper_bound; lia.
Qed.
Lemma dec_len_4 n : 1000 <= n -> n < 10000 -> blen (dec n) = 4.
Proof.
  intros H1 H2. rewrite dec_step; [|lia|apply N.lt_trans with 10000; [exact H2|reflexivity]].
  rewrite blen_app, dec_len_3; [reflexivity| |].
  - apply N.div_le_lower_bound; lia.
  - apply N.div_lt_upper_bound; lia.
Qed.
Lemma dec_len_5 n : 10000 <= n -> n < 100000 -> blen (dec n) = 5.
Proof.
  intros H1 H2. rewrite dec_step; [|lia|apply N.lt_trans with 100000; [exact H2|reflexivity]].
  rewrite blen_app, dec_len_4; [reflexivity| |].
  - apply N.div_le_lower_bound; lia.
  - apply N.div_lt_upper_bound; lia.
Qed.
(* four or more digits from 1000 on *)
Lemma dec_len_ge_4 n : 1000 <= n -> 4 <= blen (dec n).
Proof.
  intros H. unfold dec.
  assert (G : forall f m, 1000 <= m -> (4 <= length (dec_fuel (S (S (S (S f)))) m))%nat).
  { intros f m Hm.
    change (dec_fuel (S (S (S (S f)))) m) with (if m <? 10 then [48 + m] else dec_fuel (S (S (S f))) (m / 10) ++ [48 + m mod 10]).
    destruct (m <? 10) eqn:E1; [apply N.ltb_lt in E1; lia|]. rewrite app_length. cbn [length].
    assert (H10 : 100 <= m / 10) by (apply N.div_le_lower_bound; lia).
    change (dec_fuel (S (S (S f))) (m / 10)) with (if m / 10 <? 10 then [48 + m / 10] else dec_fuel (S (S f)) (m / 10 / 10) ++ [48 + (m / 10) mod 10]).
    destruct (m / 10 <? 10) eqn:E2; [apply N.ltb_lt in E2; lia|]. rewrite app_length. cbn [length].
    assert (H100 : 10 <= m / 10 / 10) by (apply N.div_le_lower_bound; lia).
    change (dec_fuel (S (S f)) (m / 10 / 10)) with (if m / 10 / 10 <? 10 then [48 + m / 10 / 10] else dec_fuel (S f) (m / 10 / 10 / 10) ++ [48 + (m / 10 / 10) mod 10]).
    destruct (m / 10 / 10 <? 10) eqn:E3; [apply N.ltb_lt in E3; lia|]. rewrite app_length. cbn [length].
    pose proof (dec_fuel_nonempty f (m / 10 / 10 / 10)). lia. }
  unfold blen. specialize (G 16%nat n H). lia.
Qed.

(* ------------------------------------------------------------------ get_4digit_str *)
Lemma all_ascii_app (a b : bytes) : all_ascii (a ++ b) = all_ascii a && all_ascii b.
Proof. apply forallb_app. Qed.
Lemma all_ascii_firstn (k : nat) (s : bytes) : all_ascii s = true -> all_ascii (firstn k s) = true.
Proof.
  revert s. induction k as [|k IH]; intros [|x s] H; try reflexivity.
  cbn [firstn all_ascii forallb] in *. apply andb_true_iff in H. destruct H as [H1 H2].
  rewrite H1. cbn [andb]. apply IH. exact H2.
Qed.
Lemma all_ascii_repeat48 (k : nat) : all_ascii (repeat 48 k) = true.
Proof. induction k as [|k IH]; [reflexivity|]. cbn [repeat all_ascii forallb]. fold (all_ascii (repeat 48 k)). rewrite IH. reflexivity. Qed.

(* never a panic, for every byte string and every iteration; what is returned, and: the slice `&a_str[0..end]`
   is taken at a char boundary end <= 3, end <= len *)
Lemma get_4digit_str_spec (s : bytes) (it : N) :
  exists r, get_4digit_str s it = Ok r /\
    ((it = 0 /\ r = s) \/
     (it <> 0 /\ blen s < 4 /\ r = s ++ pad0 (4 - blen s) (dec it)) \/
     (it <> 0 /\ exists e, e <= 3 /\ e <= blen s /\ is_char_boundary s e = true /\
                         str_slice s 0 e = Ok (firstn (N.to_nat e) s) /\ r = firstn (N.to_nat e) s ++ dec it)).
Proof.
  unfold get_4digit_str. destruct (it =? 0) eqn:E0.
  { apply N.eqb_eq in E0. exists s. split; [reflexivity|]. left. split; [exact E0|reflexivity]. }
  apply N.eqb_neq in E0. pose proof (dec_nonempty it) as Hd.
  destruct (3 <? blen (dec it)) eqn:E3.
  - cbn [bind]. replace (blen s <? 0) with false by (symmetry; apply N.ltb_ge; lia).
    cbn [N.to_nat back_to_boundary]. rewrite is_char_boundary_0. cbn [bind].
    rewrite (str_slice_prefix_ok s 0 (is_char_boundary_0 s)). cbn [bind].
    eexists. split; [reflexivity|]. right. right. split; [exact E0|]. exists 0.
    repeat split; try lia; try (apply str_slice_prefix_ok; reflexivity).
  - apply N.ltb_ge in E3. unfold sub_chk at 1.
    replace (blen (dec it) <=? 4) with true by (symmetry; apply N.leb_le; lia). cbn [bind].
    destruct (blen s <? 4 - blen (dec it)) eqn:E4.
    + apply N.ltb_lt in E4. unfold sub_chk. replace (blen s <=? 4) with true by (symmetry; apply N.leb_le; lia).
      cbn [bind]. eexists. split; [reflexivity|]. right. left. repeat split; [exact E0|lia].
    + apply N.ltb_ge in E4.
      destruct (back_to_boundary_ok s (S (N.to_nat (4 - blen (dec it)))) (4 - blen (dec it))) as (e & H1 & H2 & H3); [lia|].
      rewrite H1. cbn [bind]. rewrite (str_slice_prefix_ok s e H3). cbn [bind].
      eexists. split; [reflexivity|]. right. right. split; [exact E0|]. exists e.
      repeat split; try lia; try exact H3; try (apply str_slice_prefix_ok; exact H3).
Qed.

Lemma get_4digit_str_total (s : bytes) (it : N) : exists r, get_4digit_str s it = Ok r.
Proof. destruct (get_4digit_str_spec s it) as (r & H & _). exists r. exact H. Qed.

Lemma get_4digit_str_ascii (s r : bytes) (it : N) :
  all_ascii s = true -> get_4digit_str s it = Ok r -> all_ascii r = true.
Proof.
  intros Ha Hr. destruct (get_4digit_str_spec s it) as (r' & H & Hc). rewrite Hr in H. inversion H; subst r'.
  destruct Hc as [[_ ->]|[(_ & _ & ->)|(_ & e & _ & _ & _ & _ & ->)]].
  - exact Ha.
  - rewrite all_ascii_app, Ha. unfold pad0. rewrite all_ascii_app, all_ascii_repeat48, dec_ascii. reflexivity.
  - rewrite all_ascii_app, all_ascii_firstn, dec_ascii by exact Ha. reflexivity.
Qed.

(* from iteration 1000 on the prefix is dropped completely *)
Lemma get_4digit_str_ge_1000 (s : bytes) (it : N) : 1000 <= it -> get_4digit_str s it = Ok (dec it).
Proof.
  intros H. unfold get_4digit_str. replace (it =? 0) with false by (symmetry; apply N.eqb_neq; lia).
  pose proof (dec_len_ge_4 it H) as H4.
  replace (3 <? blen (dec it)) with true by (symmetry; apply N.ltb_lt; lia). cbn [bind].
  replace (blen s <? 0) with false by (symmetry; apply N.ltb_ge; lia).
  cbn [N.to_nat back_to_boundary]. rewrite is_char_boundary_0. cbn [bind].
  rewrite (str_slice_prefix_ok s 0 (is_char_boundary_0 s)). cbn [bind N.to_nat firstn app]. reflexivity.
Qed.

Lemma char4_ascii (s : bytes) : all_ascii s = true -> char4_from_str s = Some (c4_of s).
Proof. intros H. unfold char4_from_str. rewrite H. reflexivity. Qed.

Lemma noas_apid_total (it : N) : exists a, noas_apid it = Ok a.
Proof.
  unfold noas_apid. destruct (get_4digit_str_total NOAS it) as (r & Hr). rewrite Hr. cbn [bind].
  rewrite char4_ascii; [eexists; reflexivity|]. apply (get_4digit_str_ascii NOAS r it); [reflexivity|exact Hr].
Qed.

(* ------------------------------------------------------------------ chars / trim: lengths *)
Lemma chars_length_aux : forall n (s : bytes), (length s <= n)%nat -> (length (chars s) <= length s)%nat.
Proof.
  induction n as [|n IH]; intros s Hn.
  - destruct s; [cbn; lia|cbn in Hn; lia].
  - destruct s as [|b0 r]; [cbn; lia|]. cbn [chars]. cbn [length] in Hn.
    destruct (b0 <? 128).
    { cbn [length]. specialize (IH r). lia. }
    destruct (b0 <? 224).
    { destruct r as [|b1 r1]; [cbn; lia|]. cbn [length] in *. specialize (IH r1). lia. }
    destruct (b0 <? 240).
    { destruct r as [|b1 [|b2 r2]]; try (cbn; lia). cbn [length] in *. specialize (IH r2). lia. }
    destruct r as [|b1 [|b2 [|b3 r3]]]; try (cbn; lia). cbn [length] in *. specialize (IH r3). lia.
Qed.
Lemma chars_length (s : bytes) : (length (chars s) <= length s)%nat.
Proof. apply (chars_length_aux (length s)). lia. Qed.

Lemma trim_start_length_aux : forall n (s : bytes), (length s <= n)%nat -> (length (trim_start s) <= length s)%nat.
Proof.
  induction n as [|n IH]; intros s Hn.
  - destruct s; [cbn; lia|cbn in Hn; lia].
  - destruct s as [|b0 r]; [cbn; lia|]. cbn [trim_start]. cbn [length] in Hn.
    destruct (b0 <? 128).
    { destruct (is_ws b0); [|lia]. cbn [length]. specialize (IH r). lia. }
    destruct (b0 <? 224).
    { destruct r as [|b1 r1]; [lia|]. destruct (is_ws (cp2 b0 b1)); [|lia]. cbn [length] in *. specialize (IH r1). lia. }
    destruct (b0 <? 240); [|lia].
    destruct r as [|b1 [|b2 r2]]; try lia. destruct (is_ws (cp3 b0 b1 b2)); [|lia]. cbn [length] in *. specialize (IH r2). lia.
Qed.
Lemma trim_end_rev_length_aux : forall n (s : bytes), (length s <= n)%nat -> (length (trim_end_rev s) <= length s)%nat.
Proof.
  induction n as [|n IH]; intros s Hn.
  - destruct s; [cbn; lia|cbn in Hn; lia].
  - destruct s as [|c0 r0]; [cbn; lia|]. cbn [trim_end_rev]. cbn [length] in Hn.
    destruct (c0 <? 128).
    { destruct (is_ws c0); [|lia]. cbn [length]. specialize (IH r0). lia. }
    destruct r0 as [|c1 r1]; [lia|].
    destruct ((192 <=? c1) && (c1 <? 224)).
    { destruct (is_ws (cp2 c1 c0)); [|lia]. cbn [length] in *. specialize (IH r1). lia. }
    destruct r1 as [|c2 r2]; [lia|].
    destruct ((224 <=? c2) && (c2 <? 240) && is_cont c1); [|lia].
    destruct (is_ws (cp3 c2 c1 c0)); [|lia]. cbn [length] in *. specialize (IH r2). lia.
Qed.
Lemma trim_length (s : bytes) : (length (trim s) <= length s)%nat.
Proof.
  unfold trim. rewrite <- !rev_alt. rewrite rev_length.
  pose proof (trim_end_rev_length_aux _ (rev (trim_start s)) (le_n _)) as H1. rewrite rev_length in H1.
  pose proof (trim_start_length_aux _ s (le_n _)). lia.
Qed.

(* ------------------------------------------------------------------ the abbreviation loops *)
Lemma count_chk_gen_acc (max : N) (p : N -> bool) : forall cs a, a + N.of_nat (length cs) <= max ->
  exists n, fold_left (fun acc c => (x <- acc ;; if p c then add_chk max x 1 else Ok x)%res) cs (Ok a) = Ok n /\
            a <= n /\ n <= a + N.of_nat (length cs).
Proof.
  induction cs as [|c cs IH]; intros a Ha.
  - exists a. cbn. repeat split; lia.
  - cbn [fold_left bind]. cbn [length] in Ha. destruct (p c).
    + unfold add_chk. replace (a + 1 <=? max) with true by (symmetry; apply N.leb_le; lia).
      destruct (IH (a + 1)) as (n & H1 & H2 & H3); [lia|]. exists n. split; [exact H1|]. cbn [length]. lia.
    + destruct (IH a) as (n & H1 & H2 & H3); [lia|]. exists n. split; [exact H1|]. cbn [length]. lia.
Qed.
Lemma count_chk_ok (p : N -> bool) (cs : list N) : N.of_nat (length cs) <= usizemax ->
  exists n, count_chk p cs = Ok n.
Proof.
  intros H. destruct (count_chk_gen_acc usizemax p cs 0) as (n & H1 & _); [lia|]. exists n. exact H1.
Qed.

Lemma snake_loop_total : forall cs abbrev tn needed, exists r, snake_loop cs abbrev tn needed = Ok r.
Proof.
  induction cs as [|c cs IH]; intros abbrev tn needed; [eexists; reflexivity|].
  cbn [snake_loop]. destruct (is_underscore c).
  { cbn [bind]. destruct (4 <=? blen abbrev); [eexists; reflexivity|apply IH]. }
  destruct (is_ascii_c c).
  2:{ cbn [bind]. destruct (4 <=? blen abbrev); [eexists; reflexivity|apply IH]. }
  destruct tn; cbn [orb negb].
  { cbn [bind]. destruct (4 <=? blen (abbrev ++ [c])); [eexists; reflexivity|apply IH]. }
  destruct (0 <? needed) eqn:En.
  - apply N.ltb_lt in En. unfold sub_chk. replace (1 <=? needed) with true by (symmetry; apply N.leb_le; lia).
    cbn [bind]. destruct (4 <=? blen (abbrev ++ [c])); [eexists; reflexivity|apply IH].
  - cbn [bind]. destruct (4 <=? blen abbrev); [eexists; reflexivity|apply IH].
Qed.
Lemma camel_loop_total : forall cs abbrev needed, exists r, camel_loop cs abbrev needed = Ok r.
Proof.
  induction cs as [|c cs IH]; intros abbrev needed; [eexists; reflexivity|].
  cbn [camel_loop]. destruct (is_ascii_upper c).
  { cbn [bind]. destruct (4 <=? blen (abbrev ++ [c])); [eexists; reflexivity|apply IH]. }
  destruct (0 <? needed) eqn:En; cbn [andb].
  - destruct (is_ascii_c c).
    + apply N.ltb_lt in En. unfold sub_chk. replace (1 <=? needed) with true by (symmetry; apply N.leb_le; lia).
      cbn [bind]. destruct (4 <=? blen (abbrev ++ [c])); [eexists; reflexivity|apply IH].
    + cbn [bind]. destruct (4 <=? blen abbrev); [eexists; reflexivity|apply IH].
  - cbn [bind]. destruct (4 <=? blen abbrev); [eexists; reflexivity|apply IH].
Qed.

Lemma snake_abbrev_total (t : bytes) : blen t <= usizemax -> exists r, snake_abbrev t = Ok r.
Proof.
  intros H. unfold snake_abbrev.
  destruct (count_chk_ok is_underscore (chars t)) as (n & Hn).
  { pose proof (chars_length t). unfold blen in H. lia. }
  rewrite Hn. cbn [bind]. destruct (n <? 3) eqn:E.
  - apply N.ltb_lt in E. unfold sub_chk. replace (n <=? 3) with true by (symmetry; apply N.leb_le; lia).
    cbn [bind]. apply snake_loop_total.
  - cbn [bind]. apply snake_loop_total.
Qed.
Lemma camel_abbrev_total (t : bytes) : blen t <= usizemax -> exists r, camel_abbrev t = Ok r.
Proof.
  intros H. unfold camel_abbrev.
  destruct (count_chk_ok is_ascii_upper (chars t)) as (n & Hn).
  { pose proof (chars_length t). unfold blen in H. lia. }
  rewrite Hn. cbn [bind]. destruct (n <? 4) eqn:E.
  - apply N.ltb_lt in E. unfold sub_chk. replace (n <=? 4) with true by (symmetry; apply N.leb_le; lia).
    cbn [bind]. apply camel_loop_total.
  - cbn [bind]. apply camel_loop_total.
Qed.

(* ------------------------------------------------------------------ one candidate: total *)
Lemma candidate_total (t : bytes) (it : N) : blen t <= usizemax -> exists a, candidate t it = Ok a.
Proof.
  intros H. unfold candidate. destruct (blen t =? 0).
  { destruct (get_4digit_str_total [32] it) as (r & Hr). rewrite Hr. cbn [bind].
    rewrite char4_ascii; [eexists; reflexivity|]. apply (get_4digit_str_ascii [32] r it); [reflexivity|exact Hr]. }
  destruct (noas_apid_total it) as (d & Hd).
  destruct (blen t <=? 4).
  { destruct (get_4digit_str_total t it) as (r & Hr). rewrite Hr, Hd. cbn [bind]. eexists; reflexivity. }
  assert (Ha : exists ab, (if existsb is_underscore t then snake_abbrev t else camel_abbrev t) = Ok ab).
  { destruct (existsb is_underscore t); [apply snake_abbrev_total|apply camel_abbrev_total]; exact H. }
  destruct Ha as (ab & Hab). rewrite Hab. cbn [bind].
  destruct (get_4digit_str_total ab it) as (r & Hr). rewrite Hr, Hd. cbn [bind]. eexists; reflexivity.
Qed.

(* from iteration 1000 on the candidate is the number itself, whatever the tag *)
Lemma candidate_ge_1000 (t : bytes) (it : N) : blen t <= usizemax -> 1000 <= it -> candidate t it = Ok (c4_of (dec it)).
Proof.
  intros H Hi. unfold candidate, noas_apid. rewrite !get_4digit_str_ge_1000 by exact Hi.
  destruct (blen t =? 0).
  { cbn [bind]. rewrite char4_ascii by apply dec_ascii. reflexivity. }
  destruct (blen t <=? 4).
  { cbn [bind]. rewrite char4_ascii by apply dec_ascii. reflexivity. }
  assert (Ha : exists ab, (if existsb is_underscore t then snake_abbrev t else camel_abbrev t) = Ok ab).
  { destruct (existsb is_underscore t); [apply snake_abbrev_total|apply camel_abbrev_total]; exact H. }
  destruct Ha as (ab & Hab). rewrite Hab. cbn [bind]. rewrite get_4digit_str_ge_1000 by exact Hi. cbn [bind].
  rewrite char4_ascii by apply dec_ascii. reflexivity.
Qed.

(* ------------------------------------------------------------------ the map *)
Lemma map_get_insert_same (k : bytes) (v : N) (m : amap) : map_get k (map_insert k v m) = Some v.
Proof. unfold map_get, map_insert. cbn [find fst]. rewrite bytes_eqb_refl. reflexivity. Qed.

(* a call for one tag leaves the apids of all other tags as they are *)
Lemma map_get_insert_other (k k' : bytes) (v : N) (m : amap) : k' <> k -> map_get k' (map_insert k v m) = map_get k' m.
Proof.
  intros Hne. unfold map_get, map_insert. cbn [find fst].
  assert (E' : bytes_eqb k k' = false).
  { destruct (bytes_eqb k k') eqn:E2; [apply bytes_eqb_eq in E2; subst; contradiction|reflexivity]. }
  rewrite E'. reflexivity.
Qed.

(* ------------------------------------------------------------------ the loop, as repaired: at most 10000 turns *)
Lemma apid_loop_ok (m : amap) (tag t : bytes) : blen t <= usizemax ->
  forall fuel it, it <= LAST_ITERATION -> (N.to_nat (10000 - it) <= fuel)%nat ->
  exists a it', apid_loop fuel m tag t it = Ok (a, it', map_insert tag a m) /\
                it <= it' /\ it' <= LAST_ITERATION /\ candidate t it' = Ok a /\
                (values_contain m a = true -> it' = LAST_ITERATION) /\
                (forall j b, it <= j -> j < it' -> candidate t j = Ok b -> values_contain m b = true).
Proof.
  intros Ht. unfold LAST_ITERATION. induction fuel as [|f IH]; intros it Hit Hf; [lia|].
  cbn [apid_loop]. destruct (candidate_total t it Ht) as (a & Ha). rewrite Ha. cbn [bind].
  destruct (values_contain m a) eqn:Ev.
  - unfold LAST_ITERATION. destruct (9999 <=? it) eqn:E9.
    + apply N.leb_le in E9. exists a, it. repeat split; try lia; try exact Ha.
    + apply N.leb_gt in E9. unfold add_chk, u16max.
      replace (it + 1 <=? 65535) with true by (symmetry; apply N.leb_le; lia). cbn [bind].
      destruct (IH (it + 1)) as (a' & it' & H1 & H2 & H3 & H4 & H5 & H6); [lia|lia|].
      exists a', it'. repeat split; try lia; try assumption.
      intros j b Hj1 Hj2 Hc. destruct (N.eq_dec j it) as [->|Hne].
      * rewrite Ha in Hc. inversion Hc; subst b. exact Ev.
      * apply (H6 j b); [lia|exact Hj2|exact Hc].
  - exists a, it. repeat split; try lia; try exact Ha; try (rewrite Ev; discriminate).
Qed.

Lemma APID_FUEL_enough : (N.to_nat (10000 - 0) <= APID_FUEL)%nat.
Proof. unfold APID_FUEL. lia. Qed.

(* get_apid_for_tag: for EVERY map, every tag: Ok, within 10000 turns of the loop (the fuel 10001 is never used up);
   a tag that is in the map gets the apid of the map; a new tag gets a candidate of its trimmed form that is
   not in use, unless all candidates up to iteration 9999 are in use (then: the last candidate); every earlier
   candidate was in use *)
Theorem get_apid_for_tag_ok (m : amap) (tag : bytes) : blen tag <= usizemax ->
  exists a it m', get_apid_for_tag m tag = Ok (a, it, m') /\ it <= LAST_ITERATION /\
    (forall e, map_get tag m = Some e -> a = e /\ it = 0 /\ m' = m) /\
    (map_get tag m = None ->
       m' = map_insert tag a m /\ candidate (trim tag) it = Ok a /\
       (values_contain m a = true -> it = LAST_ITERATION) /\
       (forall j b, j < it -> candidate (trim tag) j = Ok b -> values_contain m b = true)).
Proof.
  intros Hl. unfold get_apid_for_tag. destruct (map_get tag m) as [e|] eqn:Eg.
  - exists e, 0, m. split; [reflexivity|]. split; [unfold LAST_ITERATION; lia|]. split.
    + intros e' He. inversion He; subst. repeat split.
    + intros H. discriminate.
  - assert (Ht : blen (trim tag) <= usizemax).
    { pose proof (trim_length tag). unfold blen in *. lia. }
    destruct (apid_loop_ok m tag (trim tag) Ht APID_FUEL 0) as (a & it & H1 & H2 & H3 & H4 & H5 & H6).
    { unfold LAST_ITERATION. lia. }
    { exact APID_FUEL_enough. }
    exists a, it, (map_insert tag a m). split; [exact H1|]. split; [exact H3|]. split.
    + intros e He. discriminate.
    + intros _. repeat split; try assumption. intros j b Hj Hc. apply (H6 j b); [lia|exact Hj|exact Hc].
Qed.

(* the same tag asked again gives the same apid, without a turn of the loop, and leaves the map as it is *)
Theorem get_apid_for_tag_idempotent (m m' : amap) (tag : bytes) (a it : N) :
  get_apid_for_tag m tag = Ok (a, it, m') -> get_apid_for_tag m' tag = Ok (a, 0, m').
Proof.
  unfold get_apid_for_tag. destruct (map_get tag m) as [e|] eqn:Eg.
  - intros H. inversion H; subst. rewrite Eg. reflexivity.
  - intros H.
    assert (Hm : m' = map_insert tag a m).
    { revert H. generalize APID_FUEL 0. induction n as [|f IH]; intros it0; cbn [apid_loop]; [discriminate|].
      destruct (candidate (trim tag) it0) as [c| |]; cbn [bind]; try discriminate.
      destruct (values_contain m c).
      - destruct (LAST_ITERATION <=? it0).
        + intros H; inversion H; subst. reflexivity.
        + destruct (add_chk u16max it0 1) as [i'| |]; cbn [bind]; try discriminate. apply IH.
      - intros H; inversion H; subst. reflexivity. }
    subst m'. rewrite map_get_insert_same. reflexivity.
Qed.

(* ... and the apids of the other tags are not touched by a call *)
Theorem get_apid_for_tag_keeps_others (m m' : amap) (tag other : bytes) (a it : N) :
  get_apid_for_tag m tag = Ok (a, it, m') -> other <> tag -> map_get other m' = map_get other m.
Proof.
  unfold get_apid_for_tag. destruct (map_get tag m) as [e|] eqn:Eg.
  - intros H _. inversion H; subst. reflexivity.
  - intros H Hne.
    assert (Hm : m' = map_insert tag a m).
    { revert H. generalize APID_FUEL 0. induction n as [|f IH]; intros it0; cbn [apid_loop]; [discriminate|].
      destruct (candidate (trim tag) it0) as [c| |]; cbn [bind]; try discriminate.
      destruct (values_contain m c).
      - destruct (LAST_ITERATION <=? it0).
        + intros H; inversion H; subst. reflexivity.
        + destruct (add_chk u16max it0 1) as [i'| |]; cbn [bind]; try discriminate. apply IH.
      - intros H; inversion H; subst. reflexivity. }
    subst m'. apply map_get_insert_other. exact Hne.
Qed.

(* the namespace level: total as well *)
Theorem get_apid_for_tag_ns_ok (g : nsmap) (ns : N) (tag : bytes) : blen tag <= usizemax ->
  exists a it g', get_apid_for_tag_ns g ns tag = Ok (a, it, g') /\ it <= LAST_ITERATION.
Proof.
  intros H. unfold get_apid_for_tag_ns.
  destruct (get_apid_for_tag_ok (ns_get ns g) tag H) as (a & it & m' & H1 & H2 & _).
  rewrite H1. cbn [bind]. exists a, it, (ns_put ns m' g). split; [reflexivity|exact H2].
Qed.

(* any sequence of calls *)
Theorem apids_of_tags_ok : forall (tags : list bytes) (m : amap),
  Forall (fun t => blen t <= usizemax) tags ->
  exists r m', apids_of_tags m tags = Ok (r, m') /\ length r = length tags.
Proof.
  unfold apids_of_tags. induction tags as [|t tags IH]; intros m Hf.
  - exists [], m. split; reflexivity.
  - inversion Hf as [|? ? Ht Hr]; subst. cbn [fold_calls]. unfold apid_call at 1.
    destruct (get_apid_for_tag_ok m t Ht) as (a & it & m1 & H1 & _). rewrite H1. cbn [bind fst snd].
    destruct (IH m1 Hr) as (r & m' & H2 & H3). rewrite H2. cbn [bind fst snd].
    exists (a :: r), m'. split; [reflexivity|]. cbn [length]. rewrite H3. reflexivity.
Qed.

(* ------------------------------------------------------------------ before fix 7a6b3d3: the loop without a bound *)
Lemma nth_app_short (a b : bytes) (k : nat) : (k < length a)%nat -> nth k (a ++ b) 0 = nth k a 0.
Proof. intros H. apply app_nth1. exact H. Qed.
Lemma c4_of_app (a b : bytes) : 4 <= blen a -> c4_of (a ++ b) = c4_of a.
Proof.
  intros H. unfold blen in H. unfold c4_of. rewrite !nth_app_short by lia. reflexivity.
Qed.
(* a number of five digits is cut to its first four by DltChar4::from_str: the candidate of iteration / 10 *)
Lemma c4_dec_div10 (n : N) : 10000 <= n -> n < 100000 -> c4_of (dec n) = c4_of (dec (n / 10)).
Proof.
  intros H1 H2. rewrite dec_step; [|lia|apply N.lt_trans with 100000; [exact H2|reflexivity]].
  apply c4_of_app. apply dec_len_ge_4. apply N.div_le_lower_bound; lia.
Qed.

(* if the candidates of the iterations 0..9999 are all in use, every later iteration collides as well ... *)
Lemma exhausted_all_collide (m : amap) (t : bytes) : blen t <= usizemax ->
  (forall it a, it <= 9999 -> candidate t it = Ok a -> values_contain m a = true) ->
  forall it, it <= 65535 -> exists a, candidate t it = Ok a /\ values_contain m a = true.
Proof.
  intros Ht Hall it Hit. destruct (candidate_total t it Ht) as (a & Ha). exists a. split; [exact Ha|].
  destruct (N.le_gt_cases it 9999) as [Hs|Hb]; [apply (Hall it a Hs Ha)|].
  rewrite candidate_ge_1000 in Ha by (try exact Ht; lia). inversion Ha; subst a.
  rewrite c4_dec_div10 by lia.
  apply (Hall (it / 10)).
  - apply N.lt_succ_r. apply N.div_lt_upper_bound; lia.
  - apply candidate_ge_1000; [exact Ht|]. apply N.div_le_lower_bound; lia.
Qed.
(* ... and the loop runs until `iteration += 1` overflows the u16 (debug build; a release build never returns) *)
Lemma apid_loop_before_fix_panics (m : amap) (tag t : bytes) :
  (forall it, it <= 65535 -> exists a, candidate t it = Ok a /\ values_contain m a = true) ->
  forall fuel it, it <= 65535 -> (N.to_nat (65536 - it) <= fuel)%nat ->
  apid_loop_before_fix fuel m tag t it = Panic site_add_overflow.
Proof.
  intros Hall. induction fuel as [|f IH]; intros it Hit Hf; [lia|].
  cbn [apid_loop_before_fix]. destruct (Hall it Hit) as (a & Ha & Hv). rewrite Ha. cbn [bind]. rewrite Hv.
  unfold add_chk, u16max. destruct (it + 1 <=? 65535) eqn:E.
  - apply N.leb_le in E. cbn [bind]. apply IH; lia.
  - reflexivity.
Qed.
Lemma apid_loop_before_fix_never_returns (m : amap) (tag t : bytes) :
  (forall it, it <= 65535 -> exists a, candidate t it = Ok a /\ values_contain m a = true) ->
  forall fuel it, it <= 65535 -> forall r, apid_loop_before_fix fuel m tag t it <> Ok r.
Proof.
  intros Hall. induction fuel as [|f IH]; intros it Hit r; [discriminate|].
  cbn [apid_loop_before_fix]. destruct (Hall it Hit) as (a & Ha & Hv). rewrite Ha. cbn [bind]. rewrite Hv.
  unfold add_chk, u16max. destruct (it + 1 <=? 65535) eqn:E.
  - apply N.leb_le in E. cbn [bind]. apply IH; lia.
  - discriminate.
Qed.

Theorem before_fix_panics_when_exhausted (m : amap) (tag : bytes) : blen tag <= usizemax ->
  map_get tag m = None ->
  (forall it a, it <= 9999 -> candidate (trim tag) it = Ok a -> values_contain m a = true) ->
  forall fuel, (N.to_nat 65536 <= fuel)%nat -> get_apid_for_tag_before_fix fuel m tag = Panic site_add_overflow.
Proof.
  intros Hl Hg Hall fuel Hf. unfold get_apid_for_tag_before_fix. rewrite Hg.
  assert (Ht : blen (trim tag) <= usizemax).
  { pose proof (trim_length tag). unfold blen in *. lia. }
  apply apid_loop_before_fix_panics; [|lia|lia].
  apply exhausted_all_collide; [exact Ht|exact Hall].
Qed.

(* the witness: tag "x" and the map in which the tags "xx0", "xx1", .. "xx9999" hold the 10000 candidates of "x" *)
Definition cand_of (t : bytes) (it : N) : N := match candidate t it with Ok a => a | _ => 0 end.
Definition exhausted_map (t : bytes) : amap :=
  map (fun i => (120 :: 120 :: dec (N.of_nat i), cand_of t (N.of_nat i))) (seq 0 (N.to_nat 10000)).
Definition TAG_X : bytes := [120].

Lemma exhausted_map_no_x : map_get TAG_X (exhausted_map TAG_X) = None.
Proof.
  unfold map_get. assert (H : forall l : list nat, find (fun kv : bytes * N => bytes_eqb (fst kv) TAG_X)
     (map (fun i => (120 :: 120 :: dec (N.of_nat i), cand_of TAG_X (N.of_nat i))) l) = None).
  { induction l as [|i l IH]; [reflexivity|]. cbn [map find fst]. unfold TAG_X at 1. cbn [bytes_eqb].
    rewrite N.eqb_refl. cbn [andb]. exact IH. }
  unfold exhausted_map. rewrite H. reflexivity.
Qed.
Lemma exhausted_map_has_all (it a : N) : it <= 9999 -> candidate (trim TAG_X) it = Ok a ->
  values_contain (exhausted_map TAG_X) a = true.
Proof.
  intros Hit Ha. change (trim TAG_X) with TAG_X in Ha.
  unfold values_contain. apply existsb_exists. exists (120 :: 120 :: dec it, a). split; [|cbn [snd]; apply N.eqb_refl].
  unfold exhausted_map. apply in_map_iff. exists (N.to_nat it). split.
  - rewrite N2Nat.id. unfold cand_of. rewrite Ha. reflexivity.
  - apply in_seq. lia.
Qed.

Theorem get_apid_for_tag_before_fix_panics :
  exists (m : amap) (tag : bytes), utf8_valid tag = true /\ map_get tag m = None /\
    (forall fuel, (N.to_nat 65536 <= fuel)%nat -> get_apid_for_tag_before_fix fuel m tag = Panic site_add_overflow) /\
    (forall fuel r, get_apid_for_tag_before_fix fuel m tag <> Ok r).
Proof.
  exists (exhausted_map TAG_X), TAG_X. split; [reflexivity|]. split; [exact exhausted_map_no_x|]. split.
  - apply before_fix_panics_when_exhausted.
    + unfold blen, usizemax, u64max. cbn. lia.
    + exact exhausted_map_no_x.
    + exact exhausted_map_has_all.
  - intros fuel r. unfold get_apid_for_tag_before_fix. rewrite exhausted_map_no_x.
    apply apid_loop_before_fix_never_returns; [|lia].
    apply exhausted_all_collide; [unfold blen, usizemax, u64max; cbn; lia|exact exhausted_map_has_all].
Qed.

(* ------------------------------------------------------------------ before fix bf09881: u32 counters *)
Lemma chars_repeat_ascii (c : N) (k : nat) : c <? 128 = true -> chars (repeat c k) = repeat c k.
Proof. intros H. induction k as [|k IH]; [reflexivity|]. cbn [repeat chars]. rewrite H, IH. reflexivity. Qed.
Lemma count_gen_overflows (max : N) (p : N -> bool) (c : N) : p c = true ->
  forall k a, a <= max -> max < a + N.of_nat k ->
  fold_left (fun acc x => (y <- acc ;; if p x then add_chk max y 1 else Ok y)%res) (repeat c k) (Ok a) = Panic site_add_overflow.
Proof.
  intros Hp. induction k as [|k IH]; intros a Ha Hk; [cbn in Hk; lia|].
  cbn [repeat fold_left bind]. rewrite Hp. unfold add_chk. destruct (a + 1 <=? max) eqn:E.
  - apply N.leb_le in E. apply IH; lia.
  - assert (G : forall l, fold_left (fun acc x => (y <- acc ;; if p x then add_chk max y 1 else Ok y)%res) l (Panic site_add_overflow) = Panic site_add_overflow :> res N).
    { induction l as [|x l IHl]; [reflexivity|]. cbn [fold_left bind]. exact IHl. }
    apply G.
Qed.
Lemma utf8_valid_repeat_ascii (c : N) (k : nat) : c <? 128 = true -> utf8_valid (repeat c k) = true.
Proof. intros H. induction k as [|k IH]; [reflexivity|]. cbn [repeat utf8_valid]. rewrite H. exact IH. Qed.
(* a tag of 2^32 underscores: the u32 counter of the code before the fix overflowed (replayed on the real code) *)
Theorem count_u32_before_fix_panics :
  exists t : bytes, utf8_valid t = true /\ blen t = 4294967296 /\
    count_chk_gen u32max is_underscore (chars t) = Panic site_add_overflow.
Proof.
  exists (repeat 95 (N.to_nat 4294967296)). split; [apply utf8_valid_repeat_ascii; reflexivity|]. split.
  - unfold blen. rewrite repeat_length. lia.
  - rewrite chars_repeat_ascii by reflexivity. unfold count_chk_gen.
    apply count_gen_overflows; [reflexivity|unfold u32max; lia|unfold u32max; lia].
Qed.

(* ------------------------------------------------------------------ hex_to_bytes *)
(* what the function computes, structurally: groups "hh" separated by ONE byte that is not looked at *)
Fixpoint hex_groups (q : bytes) : option bytes :=
  match q with
  | a :: b :: q1 =>
      match q1 with
      | [] => match u8_from_str_radix16 [a; b] with Some v => Some [v] | None => None end
      | _ :: rest =>
          match u8_from_str_radix16 [a; b] with
          | Some v => match hex_groups rest with Some vs => Some (v :: vs) | None => None end
          | None => None
          end
      end
  | _ => None
  end.

Lemma nth_ascii (s : bytes) (k : nat) : all_ascii s = true -> nth k s 0 <? 128 = true.
Proof.
  revert k. induction s as [|x s IH]; intros k H; [destruct k; reflexivity|].
  cbn [all_ascii forallb] in H. apply andb_true_iff in H. destruct H as [H1 H2].
  destruct k as [|k]; [exact H1|]. cbn [nth]. apply IH. exact H2.
Qed.
(* in an ASCII string every index up to the length is a char boundary *)
Lemma ascii_boundary (s : bytes) (i : N) : all_ascii s = true -> i <= blen s -> is_char_boundary s i = true.
Proof.
  intros Ha Hi. unfold is_char_boundary. destruct (i =? 0); [reflexivity|].
  destruct (blen s <=? i) eqn:E; [apply N.leb_le in E; apply N.eqb_eq; lia|].
  pose proof (nth_ascii s (N.to_nat i) Ha) as Hn. apply N.ltb_lt in Hn.
  unfold is_cont. replace (128 <=? nth (N.to_nat i) s 0) with false by (symmetry; apply N.leb_gt; exact Hn).
  reflexivity.
Qed.
Lemma skipn_app_exact (p l : bytes) : skipn (length p) (p ++ l) = l.
Proof. induction p as [|x p IH]; [reflexivity|]. cbn [length app skipn]. exact IH. Qed.
Lemma slice_mid (p r : bytes) (x y : N) : all_ascii (p ++ x :: y :: r) = true ->
  str_slice (p ++ x :: y :: r) (blen p) (blen p + 2) = Ok [x; y].
Proof.
  intros Ha. unfold str_slice.
  assert (Hl : blen (p ++ x :: y :: r) = blen p + 2 + blen r).
  { rewrite blen_app, !blen_cons. lia. }
  rewrite !ascii_boundary by (try exact Ha; lia).
  replace (blen p <=? blen p + 2) with true by (symmetry; apply N.leb_le; lia). cbn [andb].
  replace (blen p + 2 - blen p) with 2 by lia. unfold blen at 1. rewrite Nat2N.id, skipn_app_exact. reflexivity.
Qed.

Lemma hex_groups_shape : forall n q, (length q <= n)%nat -> hex_groups q <> None -> exists k, length q = (3 * k + 2)%nat.
Proof.
  induction n as [|n IH]; intros q Hn Hq.
  - destruct q; [cbn in Hq; contradiction|cbn in Hn; lia].
  - destruct q as [|a [|b [|c rest]]]; try (cbn in Hq; contradiction).
    + exists 0%nat. reflexivity.
    + cbn [hex_groups] in Hq. cbn [length] in Hn.
      destruct (IH rest) as (k & Hk); [lia| |].
      * intros E. rewrite E in Hq. destruct (u8_from_str_radix16 [a; b]); contradiction.
      * exists (S k). cbn [length]. lia.
Qed.

Lemma hex_loop_groups : forall n q, (length q <= n)%nat -> (exists k, length q = (3 * k + 2)%nat) ->
  forall p v0 fuel, all_ascii (p ++ q) = true -> (length q < fuel)%nat -> blen (p ++ q) + 2 <= usizemax ->
  hex_loop fuel (p ++ q) (blen p) v0 =
  Ok (match hex_groups q with Some vs => Some (v0 ++ vs) | None => None end).
Proof.
  induction n as [|n IH]; intros q Hn (k & Hk) p v0 fuel Ha Hf Hs; [lia|].
  destruct q as [|a [|b q1]]; try (cbn [length] in Hk; lia).
  destruct fuel as [|f]; [lia|]. cbn [hex_loop].
  assert (Hl : blen (p ++ a :: b :: q1) = blen p + 2 + blen q1) by (rewrite blen_app, !blen_cons; lia).
  replace (blen (p ++ a :: b :: q1) <=? blen p) with false by (symmetry; apply N.leb_gt; lia).
  unfold add_chk. replace (blen p + 2 <=? usizemax) with true by (symmetry; apply N.leb_le; lia). cbn [bind].
  rewrite (slice_mid p q1 a b Ha). cbn [bind].
  destruct q1 as [|c rest].
  - cbn [hex_groups]. destruct (u8_from_str_radix16 [a; b]) as [v|]; [|reflexivity].
    cbn [length] in Hf. destruct f as [|f']; [lia|]. cbn [hex_loop].
    replace (blen (p ++ [a; b]) <=? blen p + 3) with true by (symmetry; apply N.leb_le; rewrite Hl; cbn; lia).
    reflexivity.
  - cbn [hex_groups]. destruct (u8_from_str_radix16 [a; b]) as [v|]; [|reflexivity].
    cbn [length] in *.
    replace (p ++ a :: b :: c :: rest) with ((p ++ [a; b; c]) ++ rest) by (rewrite <- app_assoc; reflexivity).
    replace (blen p + 3) with (blen (p ++ [a; b; c])) by (rewrite blen_app; reflexivity).
    rewrite (IH rest); try lia.
    + destruct (hex_groups rest) as [vs|]; [|reflexivity]. rewrite <- app_assoc. reflexivity.
    + exists (k - 1)%nat. lia.
    + rewrite <- app_assoc. exact Ha.
    + rewrite <- app_assoc. exact Hs.
Qed.

(* hex_to_bytes: for EVERY &str no panic (every `&s[i..i + 2]` in range and on char boundaries, `s.len() - 2`
   guarded), and the value: Some exactly for the ASCII strings "hh?hh?..hh" — groups of two characters accepted by
   u8::from_str_radix(_, 16), separated by one arbitrary (ASCII) character that is not looked at *)
Theorem hex_to_bytes_spec (s : bytes) : blen s + 2 <= usizemax ->
  hex_to_bytes s = Ok (if all_ascii s then hex_groups s else None).
Proof.
  intros Hs. unfold hex_to_bytes. destruct (blen s <? 2) eqn:E2.
  { apply N.ltb_lt in E2. destruct s as [|a [|b r]]; try (rewrite !blen_cons in E2; lia);
      cbn [hex_groups]; destruct (all_ascii _); reflexivity. }
  apply N.ltb_ge in E2. unfold sub_chk. replace (2 <=? blen s) with true by (symmetry; apply N.leb_le; lia).
  cbn [bind]. destruct ((blen s - 2) mod 3 =? 0) eqn:E3; cbn [negb].
  2:{ apply N.eqb_neq in E3. destruct (hex_groups s) as [vs|] eqn:Eg; [|destruct (all_ascii s); reflexivity].
      exfalso. apply E3. destruct (hex_groups_shape _ s (le_n _)) as (k & Hk); [rewrite Eg; discriminate|].
      unfold blen. rewrite Hk. replace (N.of_nat (3 * k + 2) - 2) with (N.of_nat k * 3) by lia.
      apply N.mod_mul. lia. }
  apply N.eqb_eq in E3. destruct (all_ascii s) eqn:Ea; cbn [negb]; [|reflexivity].
  unfold add_chk. replace (blen s + 1 <=? usizemax) with true by (symmetry; apply N.leb_le; lia). cbn [bind].
  assert (Hk : exists k, length s = (3 * k + 2)%nat).
  { exists (N.to_nat ((blen s - 2) / 3)). pose proof (N.div_mod (blen s - 2) 3) as Hd. rewrite E3 in Hd.
    unfold blen in *. lia. }
  pose proof (hex_loop_groups _ s (le_n _) Hk [] [] (S (length s))) as H. cbn [app blen length] in H.
  change (blen []) with 0 in H. rewrite H; [|exact Ea|lia|exact Hs].
  destruct (hex_groups s); reflexivity.
Qed.
Theorem hex_to_bytes_total (s : bytes) : blen s + 2 <= usizemax -> exists o, hex_to_bytes s = Ok o.
Proof. intros H. rewrite hex_to_bytes_spec by exact H. eexists. reflexivity. Qed.

(* what u8::from_str_radix(_, 16) accepts for a two character slice: two hex digits, or '+' and one hex digit *)
Lemma hex_digit_lt16 c d : hex_digit c = Some d -> d < 16.
Proof.
  unfold hex_digit. destruct ((48 <=? c) && (c <=? 57)) eqn:E1.
  { apply andb_true_iff in E1. destruct E1 as [A B]. apply N.leb_le in A, B. intros H; inversion H; lia. }
  destruct ((97 <=? c) && (c <=? 102)) eqn:E2.
  { apply andb_true_iff in E2. destruct E2 as [A B]. apply N.leb_le in A, B. intros H; inversion H; lia. }
  destruct ((65 <=? c) && (c <=? 70)) eqn:E3; [|discriminate].
  apply andb_true_iff in E3. destruct E3 as [A B]. apply N.leb_le in A, B. intros H; inversion H; lia.
Qed.
Lemma hex_digit_not_sign c d : hex_digit c = Some d -> (c =? 43) || (c =? 45) = false.
Proof.
  unfold hex_digit. intros H. destruct (c =? 43) eqn:A; [apply N.eqb_eq in A; subst; cbn in H; discriminate|].
  destruct (c =? 45) eqn:B; [apply N.eqb_eq in B; subst; cbn in H; discriminate|]. reflexivity.
Qed.
Theorem u8_radix16_pair (a b v : N) :
  u8_from_str_radix16 [a; b] = Some v <->
  (exists x y, hex_digit a = Some x /\ hex_digit b = Some y /\ v = 16 * x + y) \/
  (a = 43 /\ exists y, hex_digit b = Some y /\ v = y).
Proof.
  unfold u8_from_str_radix16. destruct ((a =? 43) || (a =? 45)) eqn:Es.
  - destruct (a =? 43) eqn:E43.
    + apply N.eqb_eq in E43. subst a. cbn [radix16_digits]. split.
      * destruct (hex_digit b) as [y|] eqn:Eb; [|discriminate]. pose proof (hex_digit_lt16 b y Eb).
        replace (0 * 16 + y <=? 255) with true by (symmetry; apply N.leb_le; lia). intros HH; injection HH as <-.
        right. split; [reflexivity|]. exists y. split; [reflexivity|lia].
      * intros [(x & y & Hx & _)|(_ & y & Hy & ->)]; [cbn in Hx; discriminate|].
        rewrite Hy. pose proof (hex_digit_lt16 b y Hy).
        replace (0 * 16 + y <=? 255) with true by (symmetry; apply N.leb_le; lia). f_equal; lia.
    + split; [discriminate|]. intros [(x & y & Hx & _)|(Ha & _)].
      * pose proof (hex_digit_not_sign a x Hx) as Hn. rewrite E43 in Hn. rewrite Hn in Es. discriminate.
      * subst a. cbn in E43. discriminate.
  - cbn [radix16_digits]. split.
    + destruct (hex_digit a) as [x|] eqn:Ea; [|discriminate]. pose proof (hex_digit_lt16 a x Ea).
      replace (0 * 16 + x <=? 255) with true by (symmetry; apply N.leb_le; lia).
      destruct (hex_digit b) as [y|] eqn:Eb; [|discriminate]. pose proof (hex_digit_lt16 b y Eb).
      replace ((0 * 16 + x) * 16 + y <=? 255) with true by (symmetry; apply N.leb_le; lia).
      intros HH; injection HH as <-. left. exists x, y. repeat split. lia.
    + intros [(x & y & Hx & Hy & ->)|(-> & _)]; [|cbn in Es; discriminate].
      rewrite Hx. pose proof (hex_digit_lt16 a x Hx). pose proof (hex_digit_lt16 b y Hy).
      replace (0 * 16 + x <=? 255) with true by (symmetry; apply N.leb_le; lia). rewrite Hy.
      replace ((0 * 16 + x) * 16 + y <=? 255) with true by (symmetry; apply N.leb_le; lia). f_equal; lia.
Qed.
