(* C03, modelled core: the control-message body parsers (Crash/ControlMsgs.v, model of src/dlt/control_msgs.rs)
   never panic, for ALL payload byte strings, both byte orders and all status values; and on well-formed
   GET_LOG_INFO bodies they return exactly what was encoded (so the model is not a degenerate one).
   [fits p]: the usize additions offset + k (k <= 65535) cannot overflow — true for every slice in memory
   (a Vec<u8> has at most isize::MAX bytes). *)
From Coq Require Import List NArith Bool Lia Arith.
From AdltV Require Import Base.Res Base.MachInt Crash.ControlMsgs.
Import ListNotations.
Open Scope N_scope.

Definition fits (p : bytes) : Prop := blen p + 65535 <= usizemax.
(* the bookkeeping invariant of parse_ctrl_log_info_payload: `avail` is exactly what lies behind `offset` *)
Definition Inv (p : bytes) (offset avail : N) : Prop := offset + avail = blen p.

Lemma add_ok a b : a + b <= usizemax -> add_chk usizemax a b = Ok (a + b).
Proof. intros H. unfold add_chk. apply N.leb_le in H. rewrite H. reflexivity. Qed.
Lemma sub_ok a b : b <= a -> sub_chk a b = Ok (a - b).
Proof. intros H. unfold sub_chk. apply N.leb_le in H. rewrite H. reflexivity. Qed.

Lemma get_unwrap_ok p a b : a <= b -> b <= blen p -> get_unwrap p a b = Ok (sub p a (b - a)).
Proof.
  intros H1 H2. unfold get_unwrap. apply N.leb_le in H1. apply N.leb_le in H2. rewrite H1, H2. reflexivity.
Qed.
Lemma index_range_ok p a b : a <= b -> b <= blen p -> index_range p a b = Ok (sub p a (b - a)).
Proof.
  intros H1 H2. unfold index_range. apply N.leb_le in H1. apply N.leb_le in H2. rewrite H1, H2. reflexivity.
Qed.
Lemma index1_ok p i : i < blen p -> exists b, index1 p i = Ok b.
Proof.
  intros H. unfold index1. destruct (nth_error p (N.to_nat i)) as [b|] eqn:E; [exists b; reflexivity|].
  apply nth_error_None in E. unfold blen in H. lia.
Qed.

(* parse_payload_int never panics; it yields Some exactly when the integer lies inside the payload *)
Lemma ppi_ok w be p off :
  off + w <= usizemax ->
  (off + w <= blen p -> parse_payload_int w be p off = Ok (Some (from_bytes be (sub p off w)))) /\
  (blen p < off + w -> parse_payload_int w be p off = Ok None).
Proof.
  intros H. unfold parse_payload_int. rewrite add_ok by assumption. cbn [bind]. split; intros H2.
  - assert (E : (blen p <? off + w) = false) by (apply N.ltb_ge; assumption). rewrite E.
    rewrite get_unwrap_ok by lia. cbn [bind]. replace (off + w - off) with w by lia. reflexivity.
  - apply N.ltb_lt in H2. rewrite H2. reflexivity.
Qed.
Lemma ppi_total w be p off : off + w <= usizemax -> exists o, parse_payload_int w be p off = Ok o.
Proof.
  intros H. destruct (ppi_ok w be p off H) as [A B].
  destruct (N.le_gt_cases (off + w) (blen p)) as [C|C]; eexists; [apply A|apply B]; assumption.
Qed.

Section LogInfo.
  Variables (hl hts hd be : bool) (p : bytes).
  Hypothesis Hfits : fits p.

  Lemma desc_field_ok off av :
    Inv p off av -> 2 <= av ->
    exists d o' a', desc_field be p off av = Ok (d, o', a') /\ Inv p o' a'.
  Proof.
    unfold Inv, fits in *. intros HI H2. unfold desc_field.
    destruct (ppi_ok 2 be p off ltac:(lia)) as [A _]. rewrite A by lia. cbn [bind unwrap].
    rewrite add_ok by lia. cbn [bind]. rewrite sub_ok by lia. cbn [bind].
    set (len := from_bytes be (sub p off 2)).
    destruct ((0 <? len) && (len <=? av - 2)) eqn:E.
    - apply andb_true_iff in E. destruct E as [_ E]. apply N.leb_le in E.
      rewrite add_ok by lia. cbn [bind]. rewrite index_range_ok by lia. cbn [bind].
      rewrite sub_ok by lia. cbn [bind]. do 3 eexists. split; [reflexivity|lia].
    - do 3 eexists. split; [reflexivity|lia].
  Qed.

  Lemma ctx_step_ok off av :
    Inv p off av ->
    exists r, ctx_step hl hts hd be p off av = Ok r /\
              forall c o' a', r = Some (c, o', a') -> Inv p o' a'.
  Proof.
    unfold Inv, fits in *. intros HI. unfold ctx_step.
    destruct (av <? 4) eqn:E4; [eexists; split; [reflexivity|intros; discriminate]|].
    apply N.ltb_ge in E4.
    rewrite add_ok by lia. cbn [bind]. rewrite get_unwrap_ok by lia. cbn [bind].
    rewrite sub_ok by lia. cbn [bind].
    (* log level *)
    assert (S1 : exists r1, (if hl then
                if av - 4 <? 1 then Ok None else
                (ll <- parse_payload_int 1 be p (off + 4) ;;
                 avail <- sub_chk (av - 4) 1 ;; offset <- add_chk usizemax (off + 4) 1 ;; Ok (Some (ll, offset, avail)))%res
              else Ok (Some (None, off + 4, av - 4))) = Ok r1 /\
              forall ll o1 a1, r1 = Some (ll, o1, a1) -> o1 + a1 = blen p /\ off + 4 <= o1).
    { destruct hl; [|eexists; split; [reflexivity|intros ? ? ? H; inversion H; subst; lia]].
      destruct (av - 4 <? 1) eqn:E; [eexists; split; [reflexivity|intros; discriminate]|].
      apply N.ltb_ge in E. destruct (ppi_total 1 be p (off + 4) ltac:(lia)) as [o Ho]. rewrite Ho. cbn [bind].
      rewrite sub_ok by lia. cbn [bind]. rewrite add_ok by lia. cbn [bind].
      eexists; split; [reflexivity|intros ? ? ? H; inversion H; subst; lia]. }
    destruct S1 as [r1 [E1 P1]]. rewrite E1. cbn [bind].
    destruct r1 as [[[ll o1] a1]|]; [|eexists; split; [reflexivity|intros; discriminate]].
    destruct (P1 ll o1 a1 eq_refl) as [I1 _].
    (* trace status *)
    assert (S2 : exists r2, (if hts then
                if a1 <? 1 then Ok None else
                (ts <- parse_payload_int 1 be p o1 ;;
                 avail <- sub_chk a1 1 ;; offset <- add_chk usizemax o1 1 ;; Ok (Some (ts, offset, avail)))%res
              else Ok (Some (None, o1, a1))) = Ok r2 /\
              forall ts o2 a2, r2 = Some (ts, o2, a2) -> o2 + a2 = blen p).
    { destruct hts; [|eexists; split; [reflexivity|intros ? ? ? H; inversion H; subst; lia]].
      destruct (a1 <? 1) eqn:E; [eexists; split; [reflexivity|intros; discriminate]|].
      apply N.ltb_ge in E. destruct (ppi_total 1 be p o1 ltac:(lia)) as [o Ho]. rewrite Ho. cbn [bind].
      rewrite sub_ok by lia. cbn [bind]. rewrite add_ok by lia. cbn [bind].
      eexists; split; [reflexivity|intros ? ? ? H; inversion H; subst; lia]. }
    destruct S2 as [r2 [E2 P2]]. rewrite E2. cbn [bind].
    destruct r2 as [[[ts o2] a2]|]; [|eexists; split; [reflexivity|intros; discriminate]].
    pose proof (P2 ts o2 a2 eq_refl) as I2.
    destruct hd.
    - destruct (2 <=? a2) eqn:Ed; [|eexists; split; [reflexivity|intros; discriminate]].
      apply N.leb_le in Ed. destruct (desc_field_ok o2 a2 I2 Ed) as (d & o' & a' & Ed' & I').
      rewrite Ed'. cbn [bind]. eexists; split; [reflexivity|]. intros c o'' a'' H. inversion H; subst. exact I'.
    - eexists; split; [reflexivity|]. intros c o'' a'' H. inversion H; subst. exact I2.
  Qed.

  Lemma ctx_loop_ok n : forall off av acc,
    Inv p off av ->
    exists r, ctx_loop n hl hts hd be p off av acc = Ok r /\
              forall cs o' a', r = Some (cs, o', a') -> Inv p o' a'.
  Proof.
    induction n as [|n IH]; intros off av acc HI; cbn [ctx_loop].
    - eexists; split; [reflexivity|]. intros cs o' a' H. inversion H; subst. exact HI.
    - destruct (ctx_step_ok off av HI) as [r [E P]]. rewrite E. cbn [bind].
      destruct r as [[[c o1] a1]|]; [|eexists; split; [reflexivity|intros; discriminate]].
      apply IH. exact (P c o1 a1 eq_refl).
  Qed.

  Lemma app_loop_ok n : forall off av acc,
    Inv p off av -> exists r, app_loop n hl hts hd be p off av acc = Ok r.
  Proof.
    induction n as [|n IH]; intros off av acc HI; cbn [app_loop]; [eexists; reflexivity|].
    destruct (av <? 6) eqn:E6; [eexists; reflexivity|]. apply N.ltb_ge in E6.
    pose proof HI as HI'. unfold Inv, fits in HI', Hfits.
    rewrite (add_ok off 4) by lia. cbn [bind]. rewrite get_unwrap_ok by lia. cbn [bind].
    destruct (ppi_ok 2 be p (off + 4) ltac:(lia)) as [A _]. rewrite A by lia. cbn [bind unwrap].
    rewrite (add_ok off 6) by lia. cbn [bind]. rewrite sub_ok by lia. cbn [bind].
    assert (I6 : Inv p (off + 6) (av - 6)) by (unfold Inv; lia).
    destruct (ctx_loop_ok (N.to_nat (from_bytes be (sub p (off + 4) 2))) (off + 6) (av - 6) [] I6) as [r [E P]].
    rewrite E. cbn [bind].
    destruct r as [[[cs o1] a1]|]; [|eexists; reflexivity].
    pose proof (P cs o1 a1 eq_refl) as I1.
    destruct hd.
    - destruct (2 <=? a1) eqn:Ed; [|eexists; reflexivity].
      apply N.leb_le in Ed. destruct (desc_field_ok o1 a1 I1 Ed) as (d & o' & a' & Ed' & I').
      rewrite Ed'. cbn [bind]. apply IH. exact I'.
    - apply IH. exact I1.
  Qed.
End LogInfo.

Theorem log_info_no_panic (status : N) (be : bool) (p : bytes) :
  fits p -> exists apps, parse_log_info status be p = Ok apps.
Proof.
  intros Hf. unfold parse_log_info.
  destruct ((3 <=? status) && (status <=? 7)); [|eexists; reflexivity].
  destruct (2 <=? blen p) eqn:E2; [|eexists; reflexivity]. apply N.leb_le in E2.
  destruct (ppi_ok 2 be p 0 ltac:(unfold fits, usizemax, u64max in *; lia)) as [A _]. rewrite A by lia. cbn [bind unwrap].
  rewrite sub_ok by lia. cbn [bind].
  apply app_loop_ok; [exact Hf|unfold Inv; lia].
Qed.

Lemma blen_skipn p k : k <= blen p -> blen (skipn (N.to_nat k) p) = blen p - k.
Proof. intros H. unfold blen in *. rewrite skipn_length. lia. Qed.

Theorem sw_version_no_panic (be : bool) (p : bytes) : exists r, parse_sw_version be p = Ok r.
Proof.
  unfold parse_sw_version. destruct (4 <=? blen p) eqn:E; [|eexists; reflexivity]. apply N.leb_le in E.
  rewrite get_unwrap_ok by lia. cbn [bind]. unfold index_from.
  assert (E' : (4 <=? blen p) = true) by (apply N.leb_le; exact E). rewrite E'. cbn [bind].
  match goal with |- context [if ?c then _ else _] => destruct c eqn:El end; [|eexists; reflexivity].
  apply N.leb_le in El. rewrite index_range_ok by lia. cbn [bind]. eexists; reflexivity.
Qed.

Theorem unregister_context_no_panic (p : bytes) : exists r, parse_unregister_context p = Ok r.
Proof.
  unfold parse_unregister_context. destruct (blen p =? 12) eqn:E; [|eexists; reflexivity]. apply N.eqb_eq in E.
  rewrite !index_range_ok by lia. cbn [bind]. eexists; reflexivity.
Qed.

Theorem connection_info_no_panic (p : bytes) : exists r, parse_connection_info p = Ok r.
Proof.
  unfold parse_connection_info. destruct (blen p =? 5) eqn:E; [|eexists; reflexivity]. apply N.eqb_eq in E.
  destruct (index1_ok p 0 ltac:(lia)) as [b Hb]. rewrite Hb. cbn [bind].
  rewrite index_range_ok by lia. cbn [bind]. eexists; reflexivity.
Qed.

Theorem timezone_no_panic (be : bool) (p : bytes) : exists r, parse_timezone be p = Ok r.
Proof.
  unfold parse_timezone. destruct (blen p =? 5) eqn:E; [|eexists; reflexivity]. apply N.eqb_eq in E.
  destruct (ppi_ok 4 be p 0 ltac:(unfold usizemax, u64max; lia)) as [A _]. rewrite A by lia. cbn [bind unwrap].
  destruct (index1_ok p 4 ltac:(lia)) as [b Hb]. rewrite Hb. cbn [bind]. eexists; reflexivity.
Qed.

(* ------------------------------------------------------------------ functional sanity: parse (encode apps) = apps *)
Definition u16_bytes (be : bool) (v : N) : bytes := if be then [v / 256; v mod 256] else [v mod 256; v / 256].
Definition opt_bytes (d : option bytes) : bytes := match d with Some x => x | None => [] end.
Definition opt1 (o : option N) : bytes := match o with Some v => [v] | None => [] end.
(* description field: u16 length + bytes; "no description" is length 0 *)
Definition enc_desc (hd be : bool) (d : option bytes) : bytes :=
  if hd then u16_bytes be (blen (opt_bytes d)) ++ opt_bytes d else [].
Definition enc_ctx (hd be : bool) (c : ctx) : bytes :=
  c_id c ++ opt1 (c_ll c) ++ opt1 (c_ts c) ++ enc_desc hd be (c_desc c).
Definition enc_app (hd be : bool) (a : app) : bytes :=
  a_id a ++ u16_bytes be (N.of_nat (length (a_ctxs a))) ++ concat (map (enc_ctx hd be) (a_ctxs a)) ++ enc_desc hd be (a_desc a).
Definition enc_log_info (hd be : bool) (apps : list app) : bytes :=
  u16_bytes be (N.of_nat (length apps)) ++ concat (map (enc_app hd be) apps).

Definition wf_opt (h : bool) (o : option N) : Prop := if h then exists v, o = Some v else o = None.
Definition wf_desc (hd : bool) (d : option bytes) : Prop :=
  if hd then match d with Some x => 0 < blen x < 65536 | None => True end else d = None.
Definition wf_ctx (hl hts hd : bool) (c : ctx) : Prop :=
  blen (c_id c) = 4 /\ wf_opt hl (c_ll c) /\ wf_opt hts (c_ts c) /\ wf_desc hd (c_desc c).
Definition wf_app (hl hts hd : bool) (a : app) : Prop :=
  blen (a_id a) = 4 /\ N.of_nat (length (a_ctxs a)) < 65536 /\ Forall (wf_ctx hl hts hd) (a_ctxs a) /\ wf_desc hd (a_desc a).

Lemma blen_app a b : blen (a ++ b) = blen a + blen b.
Proof. unfold blen. rewrite app_length. lia. Qed.

Lemma from_u16 be v : v < 65536 -> from_bytes be (u16_bytes be v) = v.
Proof.
  intros H. pose proof (N.div_mod v 256 ltac:(lia)) as D.
  destruct be; unfold from_bytes, u16_bytes, from_be, from_le; cbn [fold_left fold_right]; lia.
Qed.
Lemma blen_u16 be v : blen (u16_bytes be v) = 2.
Proof. destruct be; reflexivity. Qed.
Lemma from_one be v : from_bytes be [v] = v.
Proof. destruct be; unfold from_bytes, from_be, from_le; cbn [fold_left fold_right]; lia. Qed.

(* reading x at the position behind pre *)
Lemma sub_mid pre x r : sub (pre ++ x ++ r) (blen pre) (blen x) = x.
Proof.
  unfold sub, blen. rewrite !Nat2N.id. rewrite skipn_app, skipn_all, Nat.sub_diag. cbn [List.app skipn].
  rewrite firstn_app, firstn_all, Nat.sub_diag. cbn [firstn]. apply app_nil_r.
Qed.
Lemma rd_get p pre x r off e : p = pre ++ x ++ r -> off = blen pre -> e = off + blen x -> get_unwrap p off e = Ok x.
Proof.
  intros -> -> ->. rewrite get_unwrap_ok; [|lia|rewrite !blen_app; lia].
  replace (blen pre + blen x - blen pre) with (blen x) by lia. rewrite sub_mid. reflexivity.
Qed.
Lemma rd_idx p pre x r off e : p = pre ++ x ++ r -> off = blen pre -> e = off + blen x -> index_range p off e = Ok x.
Proof.
  intros -> -> ->. rewrite index_range_ok; [|lia|rewrite !blen_app; lia].
  replace (blen pre + blen x - blen pre) with (blen x) by lia. rewrite sub_mid. reflexivity.
Qed.
Lemma rd_ppi w be p pre x r off :
  p = pre ++ x ++ r -> off = blen pre -> w = blen x -> fits p ->
  parse_payload_int w be p off = Ok (Some (from_bytes be x)).
Proof.
  intros -> -> -> Hf. unfold fits in Hf. rewrite !blen_app in Hf.
  destruct (ppi_ok (blen x) be (pre ++ x ++ r) (blen pre) ltac:(lia)) as [A _].
  rewrite A by (rewrite !blen_app; lia). rewrite sub_mid. reflexivity.
Qed.

Section RoundTrip.
  Variables (hl hts hd be : bool).

  Lemma desc_field_enc p pre d post :
    p = pre ++ enc_desc true be d ++ post -> fits p -> wf_desc true d ->
    desc_field be p (blen pre) (blen (enc_desc true be d ++ post)) = Ok (d, blen (pre ++ enc_desc true be d), blen post).
  Proof.
    intros Hp Hf Hw. unfold enc_desc in *. cbn [wf_desc] in Hw.
    assert (Hl : blen (opt_bytes d) < 65536) by (destruct d; cbn [opt_bytes] in *; [lia|cbn; lia]).
    unfold desc_field.
    rewrite (rd_ppi 2 be p pre (u16_bytes be (blen (opt_bytes d))) (opt_bytes d ++ post) (blen pre));
      [|rewrite Hp, <- app_assoc; reflexivity|reflexivity|rewrite blen_u16; reflexivity|exact Hf].
    cbn [bind unwrap]. rewrite from_u16 by exact Hl.
    pose proof Hf as Hf'. unfold fits in Hf'. rewrite Hp in Hf'. rewrite !blen_app, blen_u16 in Hf'.
    rewrite add_ok by lia. cbn [bind]. rewrite !blen_app, blen_u16. rewrite sub_ok by lia. cbn [bind].
    replace (2 + blen (opt_bytes d) + blen post - 2) with (blen (opt_bytes d) + blen post) by lia.
    destruct d as [x|]; cbn [opt_bytes] in *.
    - assert (E : ((0 <? blen x) && (blen x <=? blen x + blen post)) = true).
      { apply andb_true_iff. split; [apply N.ltb_lt; lia|apply N.leb_le; lia]. }
      rewrite E. rewrite add_ok by lia. cbn [bind].
      rewrite (rd_idx p (pre ++ u16_bytes be (blen x)) x post);
        [|rewrite Hp, <- !app_assoc; reflexivity|rewrite blen_app, blen_u16; reflexivity|reflexivity].
      cbn [bind]. rewrite sub_ok by lia. cbn [bind]. f_equal. f_equal; [f_equal; lia|lia].
    - change (blen []) with 0. change (0 <? 0) with false. cbn [andb].
      replace (blen pre + (2 + 0)) with (blen pre + 2) by lia. replace (0 + blen post) with (blen post) by lia. reflexivity.
  Qed.

  Lemma opt_block (h : bool) (o : option N) p pre' rest off av :
    wf_opt h o -> p = pre' ++ opt1 o ++ rest -> fits p -> off = blen pre' -> av = blen (opt1 o ++ rest) ->
    (if h then
       if av <? 1 then Ok None else
       (x <- parse_payload_int 1 be p off ;;
        a <- sub_chk av 1 ;; o' <- add_chk usizemax off 1 ;; Ok (Some (x, o', a)))%res
     else Ok (Some (None, off, av))) = Ok (Some (o, blen (pre' ++ opt1 o), blen rest)).
  Proof.
    intros Hw Hp Hf -> ->. pose proof Hf as Hf'. unfold fits in Hf'. rewrite Hp, !blen_app in Hf'.
    destruct h; cbn [wf_opt] in Hw.
    - destruct Hw as [v ->]. cbn [opt1] in *. rewrite blen_app. change (blen [v]) with 1 in *.
      assert (E : (1 + blen rest <? 1) = false) by (apply N.ltb_ge; lia). rewrite E.
      rewrite (rd_ppi 1 be p pre' [v] rest); [|exact Hp|reflexivity|reflexivity|exact Hf].
      cbn [bind]. rewrite from_one. rewrite sub_ok by lia. cbn [bind]. rewrite add_ok by lia. cbn [bind].
      rewrite blen_app. change (blen [v]) with 1. f_equal. f_equal. f_equal. lia.
    - subst o. cbn [opt1 List.app]. rewrite app_nil_r. reflexivity.
  Qed.

  Lemma ctx_step_enc p pre c post :
    p = pre ++ enc_ctx hd be c ++ post -> fits p -> wf_ctx hl hts hd c ->
    ctx_step hl hts hd be p (blen pre) (blen (enc_ctx hd be c ++ post)) =
    Ok (Some (c, blen (pre ++ enc_ctx hd be c), blen post)).
  Proof.
    destruct c as [id ll ts d]. unfold enc_ctx, wf_ctx. cbn [c_id c_ll c_ts c_desc].
    intros Hp Hf (Hid & Hll & Hts & Hd).
    set (D := enc_desc hd be d) in *.
    assert (Hp1 : p = pre ++ id ++ (opt1 ll ++ opt1 ts ++ D ++ post)) by (rewrite Hp, <- !app_assoc; reflexivity).
    assert (Hp2 : p = (pre ++ id) ++ opt1 ll ++ (opt1 ts ++ D ++ post)) by (rewrite Hp, <- !app_assoc; reflexivity).
    assert (Hp3 : p = (pre ++ id ++ opt1 ll) ++ opt1 ts ++ (D ++ post)) by (rewrite Hp, <- !app_assoc; reflexivity).
    pose proof Hf as Hf'. unfold fits in Hf'. rewrite Hp1, !blen_app in Hf'.
    unfold ctx_step.
    replace (blen ((id ++ opt1 ll ++ opt1 ts ++ D) ++ post)) with (4 + blen (opt1 ll ++ opt1 ts ++ D ++ post))
      by (rewrite <- !app_assoc, !blen_app; lia).
    assert (E4 : (4 + blen (opt1 ll ++ opt1 ts ++ D ++ post) <? 4) = false) by (apply N.ltb_ge; lia). rewrite E4.
    rewrite add_ok by lia. cbn [bind].
    rewrite (rd_get p pre id (opt1 ll ++ opt1 ts ++ D ++ post)); [|exact Hp1|reflexivity|lia]. cbn [bind].
    rewrite sub_ok by lia. cbn [bind].
    rewrite (opt_block hl ll p (pre ++ id) (opt1 ts ++ D ++ post)); [|exact Hll|exact Hp2|exact Hf|rewrite blen_app; lia|lia].
    cbn [bind].
    rewrite (opt_block hts ts p (pre ++ id ++ opt1 ll) (D ++ post));
      [|exact Hts|exact Hp3|exact Hf|rewrite <- !app_assoc; reflexivity|reflexivity].
    cbn [bind].
    unfold D in *. clear D. destruct hd; cbn [wf_desc] in Hd.
    - assert (E2 : (2 <=? blen (enc_desc true be d ++ post)) = true).
      { apply N.leb_le. unfold enc_desc. rewrite <- app_assoc, blen_app, blen_u16. lia. }
      rewrite E2.
      rewrite (desc_field_enc p ((pre ++ id ++ opt1 ll) ++ opt1 ts) d post);
        [|rewrite Hp, <- !app_assoc; reflexivity|exact Hf|exact Hd].
      cbn [bind]. rewrite <- !app_assoc. reflexivity.
    - subst d. unfold enc_desc. cbn [List.app]. rewrite !app_nil_r, <- !app_assoc. reflexivity.
  Qed.

  Lemma ctx_loop_enc p cs : forall pre post acc,
    p = pre ++ concat (map (enc_ctx hd be) cs) ++ post -> fits p -> Forall (wf_ctx hl hts hd) cs ->
    ctx_loop (length cs) hl hts hd be p (blen pre) (blen (concat (map (enc_ctx hd be) cs) ++ post)) acc =
    Ok (Some (rev acc ++ cs, blen (pre ++ concat (map (enc_ctx hd be) cs)), blen post)).
  Proof.
    induction cs as [|c cs IH]; intros pre post acc Hp Hf Hw; cbn [length ctx_loop map concat].
    - cbn [List.app]. rewrite !app_nil_r. reflexivity.
    - apply Forall_cons_iff in Hw. destruct Hw as [Hc Hcs].
      cbn [map concat] in Hp. rewrite <- app_assoc.
      rewrite (ctx_step_enc p pre c (concat (map (enc_ctx hd be) cs) ++ post));
        [|rewrite Hp, <- !app_assoc; reflexivity|exact Hf|exact Hc].
      cbn [bind].
      rewrite (IH (pre ++ enc_ctx hd be c) post (c :: acc));
        [|rewrite Hp, <- !app_assoc; reflexivity|exact Hf|exact Hcs].
      cbn [rev]. rewrite <- !app_assoc. reflexivity.
  Qed.

  Lemma app_loop_enc p apps : forall pre acc,
    p = pre ++ concat (map (enc_app hd be) apps) -> fits p -> Forall (wf_app hl hts hd) apps ->
    app_loop (length apps) hl hts hd be p (blen pre) (blen (concat (map (enc_app hd be) apps))) acc =
    Ok (rev acc ++ apps).
  Proof.
    induction apps as [|a apps IH]; intros pre acc Hp Hf Hw; cbn [length app_loop map concat].
    - rewrite app_nil_r. reflexivity.
    - apply Forall_cons_iff in Hw. destruct Hw as [Ha Has]. destruct a as [id cs d]. destruct Ha as (Hid & Hn & Hcs & Hd).
      cbn [a_id a_ctxs a_desc] in *. cbn [map concat] in Hp.
      set (C := concat (map (enc_ctx hd be) cs)) in *.
      set (R := concat (map (enc_app hd be) apps)) in *.
      set (U := u16_bytes be (N.of_nat (length cs))) in *.
      change (enc_app hd be {| a_id := id; a_ctxs := cs; a_desc := d |}) with (id ++ U ++ C ++ enc_desc hd be d) in *.
      assert (HU : blen U = 2) by apply blen_u16.
      pose proof Hf as Hf'. unfold fits in Hf'. rewrite Hp, !blen_app, HU in Hf'.
      replace (blen ((id ++ U ++ C ++ enc_desc hd be d) ++ R)) with (6 + blen (C ++ enc_desc hd be d ++ R))
        by (rewrite <- !app_assoc, !blen_app, HU; lia).
      assert (E6 : (6 + blen (C ++ enc_desc hd be d ++ R) <? 6) = false) by (apply N.ltb_ge; lia). rewrite E6.
      rewrite (add_ok (blen pre) 4) by lia. cbn [bind].
      rewrite (rd_get p pre id (U ++ C ++ enc_desc hd be d ++ R)); [|rewrite Hp, <- !app_assoc; reflexivity|reflexivity|lia].
      cbn [bind].
      rewrite (rd_ppi 2 be p (pre ++ id) U (C ++ enc_desc hd be d ++ R));
        [|rewrite Hp, <- !app_assoc; reflexivity|rewrite blen_app; lia|symmetry; exact HU|exact Hf].
      cbn [bind unwrap]. unfold U at 1. rewrite from_u16 by exact Hn. rewrite Nat2N.id.
      rewrite (add_ok (blen pre) 6) by lia. cbn [bind]. rewrite sub_ok by lia. cbn [bind].
      replace (blen pre + 6) with (blen (pre ++ id ++ U)) by (rewrite !blen_app, HU; lia).
      replace (6 + blen (C ++ enc_desc hd be d ++ R) - 6) with (blen (C ++ enc_desc hd be d ++ R)) by lia.
      unfold C at 1.
      rewrite (ctx_loop_enc p cs (pre ++ id ++ U) (enc_desc hd be d ++ R) []);
        [|rewrite Hp; unfold C; rewrite <- !app_assoc; reflexivity|exact Hf|exact Hcs].
      cbn [bind rev List.app]. fold C.
      destruct hd; cbn [wf_desc] in Hd.
      + assert (E2 : (2 <=? blen (enc_desc true be d ++ R)) = true).
        { apply N.leb_le. unfold enc_desc. rewrite <- app_assoc, blen_app, blen_u16. lia. }
        rewrite E2.
        rewrite (desc_field_enc p ((pre ++ id ++ U) ++ C) d R); [|rewrite Hp, <- !app_assoc; reflexivity|exact Hf|exact Hd].
        cbn [bind].
        rewrite (IH (((pre ++ id ++ U) ++ C) ++ enc_desc true be d) ({| a_id := id; a_ctxs := cs; a_desc := d |} :: acc));
          [|rewrite Hp; fold R; rewrite <- !app_assoc; reflexivity|exact Hf|exact Has].
        cbn [rev]. rewrite <- app_assoc. reflexivity.
      + subst d. unfold enc_desc in *. cbn [List.app] in *.
        rewrite (IH ((pre ++ id ++ U) ++ C) ({| a_id := id; a_ctxs := cs; a_desc := None |} :: acc));
          [|rewrite Hp; fold R; rewrite !app_nil_r, <- !app_assoc; reflexivity|exact Hf|exact Has].
        cbn [rev]. rewrite <- app_assoc. reflexivity.
  Qed.
End RoundTrip.

(* parse (encode apps) = apps, for every status 3..7, both byte orders, any list of well-formed entries *)
Theorem log_info_decode_encode (status : N) (be : bool) (apps : list app) :
  3 <= status <= 7 ->
  N.of_nat (length apps) < 65536 ->
  Forall (wf_app (has_ll status) (has_ts status) (has_d status)) apps ->
  fits (enc_log_info (has_d status) be apps) ->
  parse_log_info status be (enc_log_info (has_d status) be apps) = Ok apps.
Proof.
  intros Hs Hn Hw Hf. unfold parse_log_info.
  assert (E : ((3 <=? status) && (status <=? 7)) = true).
  { apply andb_true_iff. split; apply N.leb_le; lia. }
  rewrite E. set (p := enc_log_info (has_d status) be apps) in *.
  assert (Hp : p = [] ++ u16_bytes be (N.of_nat (length apps)) ++ concat (map (enc_app (has_d status) be) apps)) by reflexivity.
  assert (Hl : blen p = 2 + blen (concat (map (enc_app (has_d status) be) apps))).
  { rewrite Hp. cbn [List.app]. rewrite blen_app, blen_u16. reflexivity. }
  assert (E2 : (2 <=? blen p) = true) by (apply N.leb_le; lia). rewrite E2.
  rewrite (rd_ppi 2 be p [] (u16_bytes be (N.of_nat (length apps))) (concat (map (enc_app (has_d status) be) apps)));
    [|exact Hp|reflexivity|rewrite blen_u16; reflexivity|exact Hf].
  cbn [bind unwrap]. rewrite from_u16 by exact Hn. rewrite Nat2N.id.
  rewrite sub_ok by lia. cbn [bind]. rewrite Hl.
  replace (2 + blen (concat (map (enc_app (has_d status) be) apps)) - 2)
    with (blen (concat (map (enc_app (has_d status) be) apps))) by lia.
  pose proof (app_loop_enc (has_ll status) (has_ts status) (has_d status) be p apps
                (u16_bytes be (N.of_nat (length apps))) [] Hp Hf Hw) as H.
  rewrite blen_u16 in H. exact H.
Qed.

(* software version: a length (here < 256, written as u32 in the given byte order) followed by that many bytes,
   anything behind it: the string is returned *)
Definition len4 (be : bool) (l : N) : bytes := if be then [0; 0; 0; l] else [l; 0; 0; 0].
Theorem sw_version_decode_encode (be : bool) (s tail : bytes) :
  blen s < 256 -> parse_sw_version be (len4 be (blen s) ++ s ++ tail) = Ok (Some s).
Proof.
  intros Hl. unfold parse_sw_version.
  assert (L4 : blen (len4 be (blen s)) = 4) by (destruct be; reflexivity).
  assert (E : (4 <=? blen (len4 be (blen s) ++ s ++ tail)) = true) by (apply N.leb_le; rewrite !blen_app, L4; lia).
  rewrite E.
  rewrite (rd_get (len4 be (blen s) ++ s ++ tail) [] (len4 be (blen s)) (s ++ tail)); [|reflexivity|reflexivity|rewrite L4; reflexivity].
  cbn [bind]. unfold index_from. rewrite E. cbn [bind].
  assert (F : from_bytes be (len4 be (blen s)) = blen s).
  { destruct be; unfold from_bytes, len4, from_be, from_le; cbn [fold_left fold_right]; lia. }
  rewrite F.
  assert (S : skipn (N.to_nat 4) (len4 be (blen s) ++ s ++ tail) = s ++ tail) by (destruct be; reflexivity).
  rewrite S.
  assert (E2 : (blen s <=? blen (s ++ tail)) = true) by (apply N.leb_le; rewrite blen_app; lia). rewrite E2.
  rewrite (rd_idx (s ++ tail) [] s tail); [reflexivity|reflexivity|reflexivity|reflexivity].
Qed.
