(* C17 — the lifecycle component of the transfer key is an INPUT of the plugin.

   FileTransferPlugin keys a transfer by (msg.ecu, msg.lifecycle, serial).  `msg.lifecycle` is written by the lifecycle
   stage (parse_lifecycles_buffered_from_stream), which runs directly before the plugins in `adlt convert` and in the remote
   server.  This file separates what a message SAYS (ecu, serial, package number, payload: [content_key], [flda_content],
   [flst_content] -- independent of the lifecycle field) from the LABEL it carries ([m_lc]) and states the contract:

     - packages in order, all carrying the label of the announcement  =>  Complete with the exact bytes ([inorder_uniform]);
       messages of the same ecu and serial under another label are "other" messages: they address another key;
     - a package whose only copies carry another label than the announcement is not counted for the transfer: the transfer
       the announcement opened is never Complete ([mislabelled_not_complete]), whatever else the log contains.

   So "every message of a transfer is forwarded with one (its final) lifecycle id" is a hypothesis the in-order theorem
   needs from the stage before it; Properties/C17.v pins both statements and a witness that the hypothesis cannot be dropped. *)
From Coq Require Import List NArith Bool Lia.
From AdltV Require Import Base.Res Base.MachInt FileTransfer.Ft FileTransfer.FtProofs FileTransfer.FtReannounce.
Import ListNotations.
Open Scope N_scope.

(* the same message with another lifecycle id *)
Definition set_lc (l : N) (m : msg) : msg := mkMsg (m_ecu m) l (m_ext m) (m_args m).

(* (ecu, serial) a transfer message addresses, whatever its label *)
Definition content_key (c : cfg) (m : msg) : option (N * N) :=
  match msg_key c m with Some (e, _, sr) => Some (e, sr) | None => None end.
(* a package: ecu, serial, (number, payload) *)
Definition flda_content (c : cfg) (m : msg) : option (N * N * (N * list N)) :=
  match flda_op c m with Some ((e, _, sr), op) => Some (e, sr, op) | None => None end.
(* an announcement that opens a transfer: ecu, serial, announced values *)
Definition flst_content (c : cfg) (m : msg) : option (N * N * flst) :=
  match flst_of c m with Some ((e, _, sr), f) => Some (e, sr, f) | None => None end.

Lemma classify_set_lc c l m : classify c (set_lc l m) = classify c m.
Proof. reflexivity. Qed.

(* the content does not depend on the label ... *)
Lemma flda_content_set_lc c l m : flda_content c (set_lc l m) = flda_content c m.
Proof.
  unfold flda_content, flda_op. rewrite classify_set_lc. cbn [set_lc m_args m_ecu m_lc].
  destruct (classify c m); try reflexivity.
  destruct (flda_args (m_args m)) as [[[serial pnr] raw]|]; reflexivity.
Qed.
Lemma flst_content_set_lc c l m : flst_content c (set_lc l m) = flst_content c m.
Proof.
  unfold flst_content, flst_of. rewrite classify_set_lc. cbn [set_lc m_args m_ecu m_lc].
  destruct (classify c m); try reflexivity.
  destruct ((0 <? f_nr (parse_flst (m_args m))) && (0 <? f_bs (parse_flst (m_args m)))); reflexivity.
Qed.
Lemma content_key_set_lc c l m : content_key c (set_lc l m) = content_key c m.
Proof.
  unfold content_key, msg_key. rewrite classify_set_lc. cbn [set_lc m_args m_ecu m_lc].
  destruct (classify c m); try reflexivity.
  destruct (flda_args (m_args m)) as [[[serial pnr] raw]|]; reflexivity.
Qed.

(* ... and the key the plugin uses is content + label *)
Lemma flda_op_split c m e l sr op :
  flda_op c m = Some ((e, l, sr), op) <-> flda_content c m = Some (e, sr, op) /\ m_lc m = l.
Proof.
  unfold flda_content, flda_op. destruct (classify c m); try (split; [discriminate|intros [H _]; discriminate]).
  destruct (flda_args (m_args m)) as [[[serial pnr] raw]|]; [|split; [discriminate|intros [H _]; discriminate]].
  split.
  - intros H. inversion H. split; reflexivity.
  - intros [H1 H2]. inversion H1. subst. reflexivity.
Qed.
Lemma flst_of_split c m e l sr f :
  flst_of c m = Some ((e, l, sr), f) <-> flst_content c m = Some (e, sr, f) /\ m_lc m = l.
Proof.
  unfold flst_content, flst_of. destruct (classify c m); try (split; [discriminate|intros [H _]; discriminate]).
  destruct ((0 <? f_nr (parse_flst (m_args m))) && (0 <? f_bs (parse_flst (m_args m))));
    [|split; [discriminate|intros [H _]; discriminate]].
  split.
  - intros H. inversion H. split; reflexivity.
  - intros [H1 H2]. inversion H1. subst. reflexivity.
Qed.
Lemma msg_key_split c m e l sr :
  msg_key c m = Some (e, l, sr) <-> content_key c m = Some (e, sr) /\ m_lc m = l.
Proof.
  unfold content_key. destruct (msg_key c m) as [[[e' l'] sr']|] eqn:E.
  - assert (Hl : l' = m_lc m).
    { unfold msg_key in E. destruct (classify c m); try discriminate.
      - inversion E. reflexivity.
      - destruct (flda_args (m_args m)) as [[[serial pnr] raw]|]; [|discriminate]. inversion E. reflexivity.
      - inversion E. reflexivity. }
    split.
    + intros H. inversion H. subst. split; reflexivity.
    + intros [H1 H2]. inversion H1. subst. reflexivity.
  - split; [discriminate|intros [H _]; discriminate].
Qed.

(* ------------------------------------------------------------------ packages in order under ONE label *)
(* The log after the announcement, relative to (ecu e, serial sr) and the label lc of the announcement: messages that say
   nothing about (e, sr); messages about (e, sr) carrying ANOTHER label (for the plugin: another transfer key); duplicates of
   packages already sent and the packages [chunks] numbered next, next+1, .. in this order, all carrying the label lc. *)
Inductive InOrderU (c : cfg) (e sr lc : N) : N -> list (list N) -> list msg -> Prop :=
| iu_done next ms : InOrderU c e sr lc next [] ms
| iu_other next chunks m ms :
    content_key c m <> Some (e, sr) -> InOrderU c e sr lc next chunks ms -> InOrderU c e sr lc next chunks (m :: ms)
| iu_other_label next chunks m ms :
    m_lc m <> lc -> InOrderU c e sr lc next chunks ms -> InOrderU c e sr lc next chunks (m :: ms)
| iu_dup next chunks m ms pnr raw :
    flda_content c m = Some (e, sr, (pnr, raw)) -> m_lc m = lc -> 0 < pnr -> pnr < next ->
    InOrderU c e sr lc next chunks ms -> InOrderU c e sr lc next chunks (m :: ms)
| iu_pkg next p chunks m ms :
    flda_content c m = Some (e, sr, (next, p)) -> m_lc m = lc ->
    InOrderU c e sr lc (next + 1) chunks ms -> InOrderU c e sr lc next (p :: chunks) (m :: ms).

Lemma InOrderU_InOrder c e sr lc next chunks ms :
  InOrderU c e sr lc next chunks ms -> InOrder c (e, lc, sr) next chunks ms.
Proof.
  induction 1 as [next ms|next chunks m ms Hk _ IH|next chunks m ms Hl _ IH|next chunks m ms pnr raw Hc Hl H0 H1 _ IH|next p chunks m ms Hc Hl _ IH].
  - apply io_done.
  - apply io_other; [|exact IH]. intros Hm. apply Hk. apply (msg_key_split c m e lc sr) in Hm. exact (proj1 Hm).
  - apply io_other; [|exact IH]. intros Hm. apply Hl. apply (msg_key_split c m e lc sr) in Hm. exact (proj2 Hm).
  - eapply io_dup; [|exact H0|exact H1|exact IH]. apply flda_op_split. split; [exact Hc|exact Hl].
  - eapply io_pkg; [|exact IH]. apply flda_op_split. split; [exact Hc|exact Hl].
Qed.

(* All packages in order AND under the label of the announcement => Complete, bit-exact. *)
Theorem inorder_uniform c fs pre mflst post e sr lc f chunks s rets :
  flst_content c mflst = Some (e, sr, f) -> m_lc mflst = lc ->
  chunks <> [] -> N.of_nat (length chunks) = f_nr f -> chunks_ok (f_bs f) (f_nr f) 1 chunks ->
  (f_size f = 0 \/ f_size f = lenN (concat chunks)) ->
  InOrderU c e sr lc 1 chunks post ->
  run c (init_st fs) (pre ++ mflst :: post) = Ok (s, rets) ->
  exists i t, nth_error (s_transfers s) i = Some t /\ t_key t = (e, lc, sr) /\ t_state t = Complete /\ t_name t = f_name f /\
              t_size t = lenN (concat chunks) /\
              (c_allow_save c = true -> concat chunks <> [] -> saved_bytes s i = Some (concat chunks)) /\
              nth_error (map (fun t => (t_key t, t_state t)) (s_pub s)) i = Some ((e, lc, sr), Complete).
Proof.
  intros Hf Hl Hne Hlen Hok Hsz Hio Hrun.
  assert (Hfl : flst_of c mflst = Some ((e, lc, sr), f)) by (apply flst_of_split; split; assumption).
  exact (inorder_complete_exact c fs pre mflst post (e, lc, sr) f chunks s rets Hfl Hne Hlen Hok Hsz
           (InOrderU_InOrder c e sr lc 1 chunks post Hio) Hrun).
Qed.

(* ------------------------------------------------------------------ a package under another label is not counted *)
Lemma in_nums_fst (pk : list (N * list N)) j :
  map fst pk = nums 1 (length pk) -> 1 <= j -> j <= N.of_nat (length pk) -> exists raw, In (j, raw) pk.
Proof.
  intros Hm H1 H2.
  assert (Hi : (N.to_nat (j - 1) < length pk)%nat) by lia.
  pose proof (nth_error_nums (length pk) 1 (N.to_nat (j - 1)) Hi) as Hn.
  rewrite <- Hm in Hn. rewrite nth_error_map in Hn.
  destruct (nth_error pk (N.to_nat (j - 1))) as [[a raw]|] eqn:E; [|discriminate].
  cbn [option_map fst] in Hn. assert (Ha : a = 1 + N.of_nat (N.to_nat (j - 1))) by congruence. exists raw.
  apply nth_error_In in E. replace j with a by lia. exact E.
Qed.

Lemma in_ops_for c k ms op : In op (ops_for c k ms) -> exists x, In x ms /\ flda_op c x = Some (k, op).
Proof.
  unfold ops_for. intros H. apply in_flat_map in H. destruct H as [x [Hx Ho]]. exists x. split; [exact Hx|].
  unfold ops_of in Ho. destruct (flda_op c x) as [[k' op']|]; [|destruct Ho].
  destruct (key_eqb k k') eqn:Ek; [|destruct Ho].
  apply key_eqb_spec in Ek. subst k'. destruct Ho as [Ho|[]]. subst. reflexivity.
Qed.

Lemma own_part_incl c k ms x : In x (own_part c k ms) -> In x ms.
Proof.
  destruct (own_part_prefix c k ms) as [rest Hr]. intros H. rewrite Hr. apply in_or_app. left. exact H.
Qed.

(* The transfer opened by the announcement m (ecu e, serial sr, label lc): if every copy of package j (1 <= j <= announced
   number) that follows carries ANOTHER label -- e.g. the lifecycle stage forwarded it with the id of an interim lifecycle --
   the transfer is not Complete, whatever else the log holds (the other packages in order, duplicates, the end marker). *)
Theorem mislabelled_not_complete c fs pre m post e sr lc f j s rets :
  flst_content c m = Some (e, sr, f) -> m_lc m = lc -> 1 <= j -> j <= f_nr f ->
  (forall x raw, In x post -> flda_content c x = Some (e, sr, (j, raw)) -> m_lc x <> lc) ->
  run c (init_st fs) (pre ++ m :: post) = Ok (s, rets) ->
  exists s0 r0, run c (init_st fs) pre = Ok (s0, r0) /\
  exists t, nth_error (s_transfers s) (length (s_transfers s0)) = Some t /\ t_key t = (e, lc, sr) /\ t_name t = f_name f /\
            t_state t <> Complete /\ saved_bytes s (length (s_transfers s0)) = None.
Proof.
  intros Hf Hl H1 H2 Hno Hrun.
  assert (Hfl : flst_of c m = Some ((e, lc, sr), f)) by (apply flst_of_split; split; assumption).
  destruct (complete_from_own_announcement c fs pre m post (e, lc, sr) f s rets Hfl Hrun)
    as [s0 [r0 [Hr0 [t [Ht [Hk [Hn [Hnr Hc]]]]]]]].
  exists s0, r0. split; [exact Hr0|]. exists t. split; [exact Ht|]. split; [exact Hk|]. split; [exact Hn|].
  assert (Hnc : t_state t <> Complete).
  { intros Hcomp. destruct (Hc Hcomp) as [pk [Hsub [Hnum [Hlen _]]]].
    destruct (in_nums_fst pk j Hnum H1) as [raw Hin]; [rewrite Hlen; exact H2|].
    pose proof (sublist_In _ _ _ Hsub Hin) as Hin2.
    destruct (in_ops_for _ _ _ _ Hin2) as [x [Hx Hop]].
    apply own_part_incl in Hx. apply flda_op_split in Hop. destruct Hop as [Hcx Hlx].
    exact (Hno x raw Hx Hcx Hlx). }
  split; [exact Hnc|].
  destruct (saved_bytes s (length (s_transfers s0))) as [d|] eqn:Es; [|reflexivity].
  destruct (saved_only_complete c fs _ s rets _ d Hrun Es) as [t' [Ht' Hc']].
  rewrite Ht in Ht'. inversion Ht'. subst t'. contradiction.
Qed.
