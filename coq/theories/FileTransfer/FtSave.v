(* C17 — proofs about the save command of the model (apply_command "save") *)
From Coq Require Import List NArith Bool Lia.
From AdltV Require Import Base.Res Base.MachInt FileTransfer.Ft FileTransfer.FtProofs.
Import ListNotations.
Open Scope N_scope.


Lemma lookup_path_remove_same p fs : lookup_path p (remove_path p fs) = None.
Proof.
  induction fs as [|[q d] r IH]; cbn; [reflexivity|]. destruct (bytes_eqb p q) eqn:E; [exact IH|]. cbn. rewrite E. exact IH.
Qed.
Lemma lookup_path_remove_other p q fs : p <> q -> lookup_path q (remove_path p fs) = lookup_path q fs.
Proof.
  intros Hne. induction fs as [|[r d] fs IH]; cbn; [reflexivity|]. destruct (bytes_eqb p r) eqn:E.
  - apply bytes_eqb_spec in E. subst r. rewrite IH. destruct (bytes_eqb q p) eqn:E2; [|reflexivity].
    apply bytes_eqb_spec in E2. subst. contradiction.
  - cbn. rewrite IH. reflexivity.
Qed.
Lemma lookup_fs_write_same p d fs : lookup_path p (fs_write p d fs) = Some d.
Proof. unfold fs_write. cbn. rewrite bytes_eqb_refl. reflexivity. Qed.
Lemma lookup_fs_write_other p q d fs : p <> q -> lookup_path q (fs_write p d fs) = lookup_path q fs.
Proof.
  intros Hne. unfold fs_write. cbn. destruct (bytes_eqb q p) eqn:E; [apply bytes_eqb_spec in E; subst; contradiction|].
  apply lookup_path_remove_other. exact Hne.
Qed.
(* exactly one binding for the written path: nothing of the old content survives anywhere *)
Lemma fs_write_single p d fs q x : In (q, x) (fs_write p d fs) -> q = p -> x = d.
Proof.
  unfold fs_write. intros [H|H] ->; [inversion H; reflexivity|]. exfalso.
  induction fs as [|[r y] fs IH]; cbn in H; [contradiction|]. destruct (bytes_eqb p r) eqn:E; [auto|].
  destruct H as [H|H]; [inversion H; subst; rewrite bytes_eqb_refl in E; discriminate|auto].
Qed.

(* a save reported successful: the path holds exactly the handed-over data, every other path is untouched, the
   plugin state is untouched; a save reported failed changes nothing *)
Theorem save_cmd_spec cr s i p s' b :
  save_cmd cr s i p = (s', b) ->
  (b = true -> exists d, saved_bytes s i = Some d /\ lookup_path p (s_fs s') = Some d /\
                         (forall q x, In (q, x) (s_fs s') -> q = p -> x = d) /\
                         (forall q, q <> p -> lookup_path q (s_fs s') = lookup_path q (s_fs s)) /\
                         s_transfers s' = s_transfers s /\ s_completed s' = s_completed s /\ s_pub s' = s_pub s) /\
  (b = false -> s' = s).
Proof.
  unfold save_cmd. destruct (saved_bytes s i) as [d|] eqn:Ed; [|intros H; inversion H; subst; split; [discriminate|reflexivity]].
  destruct cr; intros H; inversion H; subst; clear H.
  - split; [|discriminate]. intros _. exists d. cbn. split; [reflexivity|]. split; [apply lookup_fs_write_same|].
    split; [intros q x Hin Hq; exact (fs_write_single p d (s_fs s) q x Hin Hq)|].
    split; [intros q Hq; apply lookup_fs_write_other; congruence|auto].
  - split; [discriminate|reflexivity].
Qed.

(* the content after a successful save does not depend on what the path (or the rest of the file system) held before *)
Theorem save_independent_of_prior_content s1 s2 i p s1' s2' b2 :
  s_completed s1 = s_completed s2 ->
  save_cmd true s1 i p = (s1', true) -> save_cmd true s2 i p = (s2', b2) ->
  b2 = true /\ lookup_path p (s_fs s1') = lookup_path p (s_fs s2').
Proof.
  unfold save_cmd, saved_bytes. intros Hc. rewrite Hc. destruct (lookup_nat i (s_completed s2)) as [d|]; [|discriminate].
  intros H1 H2. inversion H1; inversion H2; subst. cbn [s_fs]. split; [reflexivity|]. rewrite !lookup_fs_write_same. reflexivity.
Qed.

(* end to end: after any log and for any prior file system, a save reported successful leaves a file that is exactly
   the packages 1..n of a Complete transfer, whatever the path held before *)
Theorem save_writes_exact c fs ms s rets cr i p s' :
  run c (init_st fs) ms = Ok (s, rets) -> save_cmd cr s i p = (s', true) ->
  exists t pk, nth_error (s_transfers s) i = Some t /\ t_state t = Complete /\
    sublist pk (ops_for c (t_key t) ms) /\ map fst pk = nums 1 (length pk) /\
    t_size t = lenN (concat (map snd pk)) /\
    lookup_path p (s_fs s') = Some (concat (map snd pk)) /\
    (forall q x, In (q, x) (s_fs s') -> q = p -> x = concat (map snd pk)) /\
    (forall q, q <> p -> lookup_path q (s_fs s') = lookup_path q (s_fs s)).
Proof.
  intros Hrun Hs. destruct (save_cmd_spec _ _ _ _ _ _ Hs) as [Ht _]. destruct (Ht eq_refl) as [d [Hd [Hl [Hone [Hoth _]]]]].
  destruct (saved_only_complete _ _ _ _ _ _ _ Hrun Hd) as [t [Hn Hst]].
  destruct (complete_implies_exact _ _ _ _ _ _ _ Hrun Hn Hst) as [pk [P1 [P2 [P3 [P4 _]]]]].
  pose proof (P4 d Hd) as ->. exists t, pk. repeat split; auto.
Qed.
