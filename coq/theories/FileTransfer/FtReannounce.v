(* C17 — proofs about the model: several transfers over time under ONE key (ecu, lifecycle, serial).
   Every announcement (FLST) pushes a new transfer and `transfers_idx.insert(key, len - 1)` OVERWRITES the
   binding of the key ([push_transfer]: newest binding first, [lookup_key] returns the first one).  Hence
     - after an announcement the key is bound to the transfer it opened, and stays bound to it until the
       next announcement for this key ([reannounce_routes_to_newest]);
     - the packages a transfer accepts are packages of ITS OWN part of the log: the messages after the one
       that opened it and before the next announcement for its key ([own_segment]); a Complete transfer
       therefore never mixes bytes sent under two announcements;
     - a transfer whose key was announced again never changes any more ([superseded_frozen]). *)
From Coq Require Import List NArith Bool Lia Arith.
From AdltV Require Import Base.Res Base.MachInt FileTransfer.Ft FileTransfer.FtProofs.
Import ListNotations.
Open Scope N_scope.

(* m is an announcement that opens a transfer for key k *)
Definition opens (c : cfg) (k : key) (m : msg) : bool :=
  match flst_of c m with Some (k', _) => key_eqb k k' | None => false end.

(* the part of the log that belongs to a transfer with key k opened just before [ms]: up to (not including)
   the next announcement that opens a transfer for k *)
Fixpoint own_part (c : cfg) (k : key) (ms : list msg) : list msg :=
  match ms with
  | [] => []
  | m :: r => if opens c k m then [] else m :: own_part c k r
  end.

Lemma opens_spec c k m : opens c k m = true <-> exists f, flst_of c m = Some (k, f).
Proof.
  unfold opens. destruct (flst_of c m) as [[k' f]|]; split.
  - intros H. apply key_eqb_spec in H. subst. eauto.
  - intros [f' H]. inversion H; subst. apply key_eqb_refl.
  - discriminate.
  - intros [f' H]. discriminate.
Qed.

Lemma own_part_no_opening c k ms : Forall (fun m => opens c k m = false) (own_part c k ms).
Proof.
  induction ms as [|m r IH]; cbn; [constructor|]. destruct (opens c k m) eqn:E; constructor; assumption.
Qed.

Lemma own_part_all c k ms : Forall (fun m => opens c k m = false) ms -> own_part c k ms = ms.
Proof. induction 1 as [|m r Hm _ IH]; cbn; [reflexivity|]. rewrite Hm, IH. reflexivity. Qed.

Lemma own_part_prefix c k ms : exists rest, ms = own_part c k ms ++ rest.
Proof.
  induction ms as [|m r [rest IH]]; cbn; [exists []; reflexivity|].
  destruct (opens c k m); [exists (m :: r); reflexivity|]. exists rest. cbn. f_equal. exact IH.
Qed.

Lemma flst_not_flda c m k f : flst_of c m = Some (k, f) -> flda_op c m = None /\ classify c m = KFlst.
Proof. unfold flst_of, flda_op. destruct (classify c m); try discriminate. auto. Qed.

(* ------------------------------------------------------------------ what one message does to the index and to the number of transfers *)
Lemma after_change_shape c s i t s' :
  after_change c s i t = Ok s' -> s_idx s' = s_idx s /\ length (s_transfers s') = length (s_transfers s).
Proof.
  unfold after_change. destruct (if tstate_eqb _ _ then _ else _) as [t2 fs2]. intros H.
  apply update_state_shape in H. cbn in H. destruct H as [E1 [E2 _]]. split; [exact E2|].
  rewrite E1, map_length, replace_nth_length. reflexivity.
Qed.

Lemma step_index_cases c s m s' b :
  step c s m = Ok (s', b) ->
  (exists k f, flst_of c m = Some (k, f) /\ s_idx s' = (k, length (s_transfers s)) :: s_idx s /\
               length (s_transfers s') = S (length (s_transfers s)))
  \/ (exists k raw, flda_op c m = Some (k, (1, raw)) /\ lookup_key k (s_idx s) = None /\ flst_of c m = None /\
                    s_idx s' = (k, length (s_transfers s)) :: s_idx s /\
                    length (s_transfers s') = S (length (s_transfers s)))
  \/ (flst_of c m = None /\ s_idx s' = s_idx s /\ length (s_transfers s') = length (s_transfers s)).
Proof.
  intros H. unfold step in H. unfold flst_of, flda_op. destruct (classify c m) eqn:Ec.
  - unfold step_flst in H. cbn zeta.
    destruct ((0 <? f_nr (parse_flst (m_args m))) && (0 <? f_bs (parse_flst (m_args m)))); cbn [bind] in H.
    2:{ inversion H; subst. right. right. auto. }
    destruct (with_capacity _); cbn [bind] in H; try discriminate.
    destruct (update_state _) as [s1| |] eqn:Eu; cbn [bind] in H; try discriminate. inversion H; subst s1 b.
    apply update_state_shape in Eu. destruct Eu as [E1 [E2 _]]. left. eexists. eexists. split; [reflexivity|].
    split; [exact E2|]. rewrite E1, map_length. cbn. rewrite app_length. cbn. lia.
  - unfold step_flda in H. destruct (flda_args (m_args m)) as [[[serial pnr] raw]|]; cbn [bind] in H.
    2:{ inversion H; subst. right. right. auto. }
    destruct (flda_apply _ _ _ _ _) as [s1| |] eqn:Ef; cbn [bind] in H; try discriminate. inversion H; subst s1 b.
    unfold flda_apply in Ef. destruct (lookup_key _ _) as [j|] eqn:El.
    + destruct (nth_error _ _) as [tj|]; [|discriminate].
      destruct (add_flda tj pnr raw) as [[t' ch]| |]; cbn [bind] in Ef; try discriminate. destruct ch.
      * apply after_change_shape in Ef. right. right. tauto.
      * inversion Ef. right. right. cbn. rewrite replace_nth_length. auto.
    + destruct (pnr =? 1) eqn:Ep; [|inversion Ef; subst; right; right; auto].
      apply N.eqb_eq in Ep. subst pnr.
      destruct (with_capacity _) as [cap0| |]; cbn [bind] in Ef; try discriminate.
      destruct (add_flda _ _ _) as [[t' ch]| |] eqn:Ea; cbn [bind] in Ef; try discriminate.
      assert (Hkk : t_key t' = (m_ecu m, m_lc m, serial)).
      { assert (HT : TLoc [] (mkT (m_ecu m, m_lc m, serial) MISSING_FLST u64max MissingStart 0 0 1 0 0 cap0 [] None) []).
        { constructor; cbn; auto; try discriminate; try lia. apply sl_nil. intros _. unfold u64max. lia. }
        destruct (add_flda_TLoc _ _ _ _ _ _ _ HT Ea) as [acc' [_ HP]]. rewrite (fp_key _ _ _ _ _ _ _ HP). reflexivity. }
      apply update_state_shape in Ef. destruct Ef as [E1 [E2 _]]. cbn in E2. rewrite Hkk in E2.
      right. left. exists (m_ecu m, m_lc m, serial), raw. split; [reflexivity|]. split; [exact El|]. split; [reflexivity|].
      split; [exact E2|]. rewrite E1, map_length. cbn. rewrite app_length. cbn. lia.
  - unfold step_flfi in H. destruct (flfi_apply _ _ _) as [s1| |] eqn:Ef; cbn [bind] in H; try discriminate. inversion H; subst s1 b.
    unfold flfi_apply in Ef. destruct (lookup_key _ _) as [j|]; [|inversion Ef; subst; right; right; auto].
    destruct (nth_error _ _) as [tj|]; [|discriminate].
    destruct (check_finished tj true) as [[t' ch]| |]; cbn [bind] in Ef; try discriminate. destruct ch.
    + apply after_change_shape in Ef. right. right. tauto.
    + inversion Ef. right. right. cbn. rewrite replace_nth_length. auto.
  - inversion H; subst. right. right. auto.
Qed.

(* ------------------------------------------------------------------ provenance of ONE transfer: opened by this announcement, or recovered *)
Definition AnnBy (f : flst) (t : transfer) (acc : list (N * list N)) : Prop :=
  t_name t = f_name f /\ t_nr t = f_nr f /\ t_bs t = f_bs f /\ 0 < f_bs f /\ 0 < f_nr f /\ t_state t <> MissingStart /\
  (t_state t = Started -> t_size t = f_size f) /\
  (t_state t = Complete -> (f_size f = 0 \/ f_size f = t_size t) /\ t_size t = t_payload t /\ t_next t = t_nr t + 1) /\
  sizes_ok (f_bs f) (f_nr f) acc.

(* [Some (m0, f)]: opened by the announcement m0 with the values f; [None]: recovered from a first package *)
Definition Orig (c : cfg) (o : option (msg * flst)) (t : transfer) (acc : list (N * list N)) : Prop :=
  match o with
  | Some (m0, f) => flst_of c m0 = Some (t_key t, f) /\ AnnBy f t acc
  | None => Recovered t acc
  end.
Definition orig_log (o : option (msg * flst)) : list msg := match o with Some (m0, _) => [m0] | None => [] end.

Lemma Orig_Prov c o t acc : Orig c o t acc -> Prov c (orig_log o) t acc.
Proof.
  destruct o as [[m0 f]|]; cbn; [|intros H; right; exact H].
  intros [Hf [A3 [A4 [A5 [A6 [A7 [A8 [A9 [A10 A11]]]]]]]]]. left. exists m0, f. split; [left; reflexivity|].
  repeat split; auto; try apply A10; auto.
Qed.

Lemma Recovered_of_Prov c t acc : Prov c [] t acc -> Recovered t acc.
Proof. intros [[m [f [[] _]]]|H]; exact H. Qed.

(* the fields the provenance speaks about *)
Definition same_static (t t' : transfer) : Prop :=
  t_key t' = t_key t /\ t_state t' = t_state t /\ t_name t' = t_name t /\ t_nr t' = t_nr t /\ t_bs t' = t_bs t /\
  t_size t' = t_size t /\ t_payload t' = t_payload t /\ t_next t' = t_next t.

Lemma same_static_refl t : same_static t t.
Proof. repeat split. Qed.

Lemma Orig_static c o t t' acc : same_static t t' -> Orig c o t acc -> Orig c o t' acc.
Proof.
  intros [E1 [E2 [E3 [E4 [E5 [E6 [E7 E8]]]]]]]. destruct o as [[m0 f]|]; cbn.
  - unfold AnnBy. rewrite E1, E2, E3, E4, E5, E6, E7, E8. auto.
  - unfold Recovered. rewrite E2, E3, E4, E5, E6, E7. auto.
Qed.

Lemma ho_t_same_static t : same_static t (ho_t t).
Proof. destruct (ho_t_static t) as [E1 [E2 [E3 [E4 [E5 [E6 [E7 [E8 E9]]]]]]]]. repeat split; assumption. Qed.

Lemma AnnBy_add_flda f t t' acc acc' pnr raw ch :
  AnnBy f t acc -> flda_post t t' acc acc' pnr raw ch -> AnnBy f t' acc'.
Proof.
  intros [A3 [A4 [A5 [A6 [A7 [A8 [A9 [A10 A11]]]]]]]] [K1 K2 K3 K4 K5 K6 K7 K8 K9 K10 K11 K12 K13 K14].
  unfold AnnBy. rewrite K2, K3. assert (Hb : t_bs t' = t_bs t) by (apply K7; lia).
  rewrite Hb. repeat split; auto.
  - intros Hc. pose proof (K11 Hc) as Hc0. rewrite K12 by (rewrite Hc; reflexivity). auto.
  - destruct (is_active (t_state t)) eqn:Ea.
    + destruct (K13 H eq_refl) as [Hs _].
      assert (Hst : t_state t = Started) by (destruct (t_state t); try discriminate; [contradiction|reflexivity]).
      rewrite <- (A9 Hst). exact Hs.
    + destruct (K8 eq_refl) as [Hs [_ [_ [_ [Hsz _]]]]]. rewrite Hs in H. rewrite Hsz. apply A10. exact H.
  - destruct (is_active (t_state t)) eqn:Ea.
    + apply (K13 H eq_refl).
    + destruct (K8 eq_refl) as [Hs [_ [_ [_ [Hsz [Hpl _]]]]]]. rewrite Hs in H. rewrite Hsz, Hpl. apply A10. exact H.
  - destruct (is_active (t_state t)) eqn:Ea.
    + apply (K13 H eq_refl).
    + destruct (K8 eq_refl) as [Hs [_ [_ [_ [_ [_ Hnx]]]]]]. rewrite Hs in H. rewrite Hnx. apply A10. exact H.
  - destruct K14 as [->|[-> [Hp Hl]]]; [exact A11|]. apply Forall_app. split; [exact A11|]. constructor; [|constructor].
    cbn. rewrite Hb, A5, A4 in Hl. destruct (pnr =? f_nr f) eqn:E.
    + destruct Hl as [Hl|[_ Hl]]; lia.
    + apply N.eqb_neq in E. destruct Hl as [Hl|[Hl _]]; [exact Hl|contradiction].
Qed.

Lemma Orig_add_flda c o t t' acc acc' pnr raw ch :
  Orig c o t acc -> flda_post t t' acc acc' pnr raw ch -> Orig c o t' acc'.
Proof.
  intros HO HP. destruct o as [[m0 f]|]; cbn in *.
  - destruct HO as [Hf HA]. rewrite (fp_key _ _ _ _ _ _ _ HP). split; [exact Hf|]. eapply AnnBy_add_flda; eassumption.
  - apply (Recovered_of_Prov c). eapply Prov_add_flda; [right; exact HO|exact HP].
Qed.

Lemma Orig_flfi c o ops t acc t' ch :
  TLoc ops t acc -> Orig c o t acc -> check_finished t true = Ok (t', ch) ->
  TLoc ops t' acc /\ Orig c o t' acc /\ flfi_post t t' ch.
Proof.
  intros HT HO H. destruct (flfi_TLoc c (orig_log o) ops t acc t' ch HT (Orig_Prov _ _ _ _ HO) H) as [T1 [T2 T3]].
  split; [exact T1|]. split; [|exact T3].
  destruct o as [[m0 f]|]; cbn in *; [|apply (Recovered_of_Prov c); exact T2].
  destruct HO as [Hf [A3 [A4 [A5 [A6 [A7 [A8 [A9 [A10 A11]]]]]]]]]. rewrite (ff_key _ _ _ T3). split; [exact Hf|].
  apply check_finished_true_spec in H. destruct H as [_ [[_ [Hs _]]|[[_ [_ [_ ->]]]|[_ [_ ->]]]]].
  - contradiction.
  - unfold AnnBy. repeat split; auto; apply A10; auto.
  - unfold AnnBy. cbn. repeat split; auto; discriminate.
Qed.

(* ------------------------------------------------------------------ the invariant of transfer number i relative to ITS part of the log *)
Definition SegInv (c : cfg) (i : nat) (k : key) (o : option (msg * flst)) (seg : list msg) (s : st) : Prop :=
  exists t acc, nth_error (s_transfers s) i = Some t /\ t_key t = k /\ takes t = false /\
    TLoc (ops_for c k seg) t acc /\ SI (s_completed s) (s_fs s) i t acc /\ Orig c o t acc.

Definition bound (i : nat) (k : key) (s : st) : Prop := lookup_key k (s_idx s) = Some i.
Definition unbound (i : nat) (s : st) : Prop := forall k, lookup_key k (s_idx s) <> Some i.

Lemma takes_ho_t t : takes (ho_t t) = false.
Proof.
  unfold ho_t. destruct (takes t) eqn:E; [|exact E]. unfold takes. cbn. reflexivity.
Qed.

Lemma fs_grow_ext c fs fs' : fs_grow c fs fs' -> fs_ext fs fs'.
Proof. intros [->|[t [d [-> H]]]]; [left; reflexivity|right; eauto]. Qed.

(* transfer i after [after_change] was applied to it *)
Lemma after_change_at c s i t t' s' ops acc' :
  nth_error (s_transfers s) i = Some t ->
  TLoc ops t' acc' ->
  (forall d, lookup_nat i (s_completed s) = Some d -> t_state t' = Complete /\ d = concat (map snd acc')) ->
  (forall p, t_saved t' = Some p -> t_state t' = Complete /\ lookup_path p (s_fs s) = Some (concat (map snd acc'))) ->
  after_change c s i t' = Ok s' ->
  exists t2, nth_error (s_transfers s') i = Some t2 /\ takes t2 = false /\ same_static t' t2 /\
             TLoc ops t2 acc' /\ SI (s_completed s') (s_fs s') i t2 acc'.
Proof.
  intros Ht HT Hc Hs H. unfold after_change in H.
  assert (Hl : (i < length (s_transfers s))%nat) by (apply nth_error_Some; rewrite Ht; discriminate).
  assert (Hex : exists t1 fs1,
            (if tstate_eqb (t_state t') Complete then check_auto_save c t' (s_fs s) else (t', s_fs s)) = (t1, fs1) /\
            fs_ext (s_fs s) fs1 /\ TLoc ops t1 acc' /\ same_static t' t1 /\
            (forall p, t_saved t1 = Some p -> t_saved t' = Some p \/ (t_state t' = Complete /\ lookup_path p fs1 = Some (concat (map snd acc'))))).
  { destruct (tstate_eqb (t_state t') Complete) eqn:Est.
    - apply tstate_eqb_spec in Est. destruct (check_auto_save c t' (s_fs s)) as [t1 fs1] eqn:Eas.
      destruct (check_auto_save_spec _ _ _ _ _ _ _ Eas HT Est) as [He [HT1 [K1 [K2 [K3 [K4 [K5 [K6 [K7 [K9 K8]]]]]]]]]].
      exists t1, fs1. split; [reflexivity|]. split; [exact He|]. split; [exact HT1|]. split; [repeat split; assumption|].
      intros p Hp. destruct (K8 p Hp) as [Ho|Hn]; auto.
    - exists t', (s_fs s). split; [reflexivity|]. split; [apply fs_ext_refl|]. split; [exact HT|]. split; [apply same_static_refl|]. auto. }
  destruct Hex as [t1 [fs1 [E [He [HT1 [Hst Hsv]]]]]]. rewrite E in H. clear E.
  pose proof (update_state_fs _ _ H) as Hfs. cbn in Hfs.
  apply update_state_shape in H. cbn in H. destruct H as [E1 [_ [E3 _]]].
  exists (ho_t t1). rewrite E1, nth_error_map, nth_error_replace_same by exact Hl. cbn [option_map].
  split; [reflexivity|]. split; [apply takes_ho_t|].
  pose proof (ho_t_same_static t1) as Hh.
  assert (Hss : same_static t' (ho_t t1)).
  { destruct Hst as [A1 [A2 [A3 [A4 [A5 [A6 [A7 A8]]]]]]]. destruct Hh as [B1 [B2 [B3 [B4 [B5 [B6 [B7 B8]]]]]]].
    repeat split; congruence. }
  split; [exact Hss|]. split; [apply TLoc_ho_t; exact HT1|].
  destruct Hss as [_ [S2 _]]. destruct (ho_t_static t1) as [_ [_ [G3 _]]]. destruct Hst as [_ [Q2 _]].
  split.
  - intros d Hd. rewrite E3, lookup_nat_app in Hd.
    destruct (lookup_nat i (taken 0 (replace_nth i t1 (s_transfers s)))) as [d0|] eqn:Ek.
    + inversion Hd; subst d0. apply lookup_taken in Ek. destruct Ek as [t0 [_ [Hn [Htk ->]]]].
      rewrite Nat.sub_0_r, nth_error_replace_same in Hn by exact Hl. inversion Hn; subst t0.
      unfold takes in Htk. apply andb_true_iff in Htk. destruct Htk as [Hne Hc1]. apply tstate_eqb_spec in Hc1.
      rewrite S2, <- Q2. split; [exact Hc1|].
      apply negb_true_iff, bytes_eqb_nil_false in Hne. destruct (tl_d2 _ _ _ HT1) as [Hd0|Hd0]; [contradiction|exact Hd0].
    + rewrite S2. apply Hc. exact Hd.
  - intros p Hp. rewrite G3 in Hp. rewrite S2, Hfs. destruct (Hsv p Hp) as [Ho|[Hc1 Hn]].
    + destruct (Hs p Ho) as [Hc1 Hlk]. split; [exact Hc1|]. eapply fs_ext_lookup; eassumption.
    + split; assumption.
Qed.

(* a message that leaves transfer i and its handed-over data alone *)
Lemma SegInv_untouched c i k o seg seg' s s' :
  SegInv c i k o seg s ->
  nth_error (s_transfers s') i = nth_error (s_transfers s) i ->
  lookup_nat i (s_completed s') = lookup_nat i (s_completed s) ->
  fs_ext (s_fs s) (s_fs s') ->
  (exists x, ops_for c k seg' = ops_for c k seg ++ x) ->
  SegInv c i k o seg' s'.
Proof.
  intros [t [acc [Ht [Hk [Htk [HT [HS HO]]]]]]] E1 E2 He [x Hx].
  exists t, acc. rewrite E1. split; [exact Ht|]. split; [exact Hk|]. split; [exact Htk|].
  split; [rewrite Hx; apply TLoc_weaken; exact HT|]. split; [|exact HO].
  destruct HS as [H1 H2]. split.
  - intros d Hd. rewrite E2 in Hd. auto.
  - intros p Hp. destruct (H2 p Hp) as [Ha Hb]. split; [exact Ha|]. eapply fs_ext_lookup; eassumption.
Qed.

Lemma key_of_bound c pre s i k k' t :
  Inv0 c pre s -> nth_error (s_transfers s) i = Some t -> t_key t = k -> lookup_key k' (s_idx s) = Some i -> k' = k.
Proof.
  intros HI Ht Hk Hl. destruct (inv_idx _ _ _ HI k' i Hl) as [t0 [Ht0 Hk0]]. rewrite Ht in Ht0. inversion Ht0; subst. reflexivity.
Qed.

(* --- the key is bound to transfer i and the message does not open a new transfer for the key *)
Lemma seg_step_open c pre o seg i k s m s' b :
  Inv c pre s -> SegInv c i k o seg s -> bound i k s -> opens c k m = false -> step c s m = Ok (s', b) ->
  SegInv c i k o (seg ++ [m]) s' /\ bound i k s'.
Proof.
  intros [HI _] HS Hb Ho Hs. pose proof HS as [t [acc [Ht [Hk [Htk [HT [[T2 T3] HO]]]]]]].
  split.
  2:{ unfold bound in *. destruct (step_index_cases _ _ _ _ _ Hs) as [[k' [f [Hf [E _]]]]|[[k' [raw [_ [Hn [_ [E _]]]]]]|[_ [E _]]]]; rewrite E.
      - cbn. unfold opens in Ho. rewrite Hf in Ho. rewrite Ho. exact Hb.
      - cbn. destruct (key_eqb k k') eqn:Ek; [|exact Hb]. apply key_eqb_spec in Ek. subst k'. rewrite Hb in Hn. discriminate.
      - exact Hb. }
  pose proof (fs_grow_ext _ _ _ (step_fs _ _ _ _ _ Hs)) as Hfs.
  assert (Hl : (i < length (s_transfers s))%nat) by (apply nth_error_Some; rewrite Ht; discriminate).
  destruct (step_at _ _ _ _ _ _ _ Hs Ht Htk) as [_ Hcase].
  destruct Hcase as [[H1 H2]|[[km [pnr [raw [t1 [ch [Hop [Hl2 [Ha Hr]]]]]]]]|[km [t1 [ch [Hc [Hmk [Hl2 [Ha Hr]]]]]]]]].
  - (* untouched *)
    eapply SegInv_untouched; [exact HS|congruence|exact H2|exact Hfs|]. rewrite ops_for_snoc. eauto.
  - (* a package for this transfer *)
    assert (km = k) by (eapply key_of_bound; eassumption). subst km.
    assert (Hops : ops_for c k (seg ++ [m]) = ops_for c k seg ++ [(pnr, raw)]).
    { rewrite ops_for_snoc. unfold ops_of. rewrite Hop, key_eqb_refl. reflexivity. }
    destruct (add_flda_TLoc _ _ _ _ _ _ _ HT Ha) as [acc' [T1' HP]]. rewrite <- Hops in T1'.
    pose proof (Orig_add_flda _ _ _ _ _ _ _ _ _ HO HP) as HO'.
    assert (Hk' : t_key t1 = k) by (rewrite (fp_key _ _ _ _ _ _ _ HP); exact Hk).
    assert (Hcomp : forall d, lookup_nat i (s_completed s) = Some d -> t_state t1 = Complete /\ d = concat (map snd acc')).
    { intros d Hd. destruct (T2 d Hd) as [Hst ->]. assert (Hin : is_active (t_state t) = false) by (rewrite Hst; reflexivity).
      destruct (fp_inactive _ _ _ _ _ _ _ HP Hin) as [E1 [_ [E2 _]]]. rewrite E1, E2. auto. }
    assert (Hsav : forall p, t_saved t1 = Some p -> t_state t1 = Complete /\ lookup_path p (s_fs s) = Some (concat (map snd acc'))).
    { intros p Hp. rewrite (fp_saved _ _ _ _ _ _ _ HP) in Hp. destruct (T3 p Hp) as [Hst Hlk].
      assert (Hin : is_active (t_state t) = false) by (rewrite Hst; reflexivity).
      destruct (fp_inactive _ _ _ _ _ _ _ HP Hin) as [E1 [_ [E2 _]]]. rewrite E1, E2. auto. }
    destruct ch.
    + destruct (after_change_at _ _ _ _ _ _ _ _ Ht T1' Hcomp Hsav Hr) as [t2 [N1 [N2 [N3 [N4 N5]]]]].
      exists t2, acc'. split; [exact N1|]. split; [destruct N3 as [N3 _]; congruence|]. split; [exact N2|].
      split; [exact N4|]. split; [exact N5|]. eapply Orig_static; eassumption.
    + subst s'. exists t1, acc'. unfold put_transfer. cbn. rewrite nth_error_replace_same by exact Hl.
      split; [reflexivity|]. split; [exact Hk'|]. split.
      { pose proof (fp_nochange _ _ _ _ _ _ _ HP eq_refl) as Hsame. unfold takes in *.
        destruct (is_active (t_state t)) eqn:Eact.
        - rewrite Hsame. destruct (t_state t); try discriminate; cbn; apply andb_false_r.
        - destruct (fp_inactive _ _ _ _ _ _ _ HP Eact) as [E1 [_ [_ [E4 _]]]]. rewrite E1, E4. exact Htk. }
      split; [exact T1'|]. split; [split; assumption|exact HO'].
  - (* the end marker for this transfer *)
    assert (km = k) by (eapply key_of_bound; eassumption). subst km.
    assert (Hops : ops_for c k (seg ++ [m]) = ops_for c k seg).
    { rewrite ops_for_snoc. unfold ops_of, flda_op. rewrite Hc. apply app_nil_r. }
    destruct (Orig_flfi _ _ _ _ _ _ _ HT HO Ha) as [T1' [HO' HP]]. rewrite <- Hops in T1'.
    destruct ch.
    + assert (Hcomp : forall d, lookup_nat i (s_completed s) = Some d -> t_state t1 = Complete /\ d = concat (map snd acc)).
      { intros d Hd. destruct (T2 d Hd) as [Hst ->]. destruct (ff_complete _ _ _ HP Hst) as [-> _]. auto. }
      assert (Hsav : forall p, t_saved t1 = Some p -> t_state t1 = Complete /\ lookup_path p (s_fs s) = Some (concat (map snd acc))).
      { intros p Hp. rewrite (ff_saved _ _ _ HP) in Hp. destruct (T3 p Hp) as [Hst Hlk]. destruct (ff_complete _ _ _ HP Hst) as [-> _]. auto. }
      destruct (after_change_at _ _ _ _ _ _ _ _ Ht T1' Hcomp Hsav Hr) as [t2 [N1 [N2 [N3 [N4 N5]]]]].
      exists t2, acc. split; [exact N1|]. split; [destruct N3 as [N3 _]; rewrite N3, (ff_key _ _ _ HP); exact Hk|]. split; [exact N2|].
      split; [exact N4|]. split; [exact N5|]. eapply Orig_static; eassumption.
    + pose proof (ff_nochange _ _ _ HP eq_refl) as ->. subst s'. unfold put_transfer. rewrite (replace_nth_id _ _ _ Ht).
      exists t, acc. cbn. split; [exact Ht|]. split; [exact Hk|]. split; [exact Htk|]. split; [exact T1'|]. split; [split; assumption|exact HO].
Qed.

(* --- no key is bound to transfer i (its key was announced again): nothing touches it any more *)
Lemma seg_step_closed c pre o seg i k s m s' b :
  Inv c pre s -> SegInv c i k o seg s -> unbound i s -> step c s m = Ok (s', b) ->
  SegInv c i k o seg s' /\ unbound i s' /\
  nth_error (s_transfers s') i = nth_error (s_transfers s) i /\
  lookup_nat i (s_completed s') = lookup_nat i (s_completed s).
Proof.
  intros [HI _] HS Hu Hs. pose proof HS as [t [acc [Ht [Hk [Htk _]]]]].
  assert (Hl : (i < length (s_transfers s))%nat) by (apply nth_error_Some; rewrite Ht; discriminate).
  pose proof (fs_grow_ext _ _ _ (step_fs _ _ _ _ _ Hs)) as Hfs.
  destruct (step_at _ _ _ _ _ _ _ Hs Ht Htk) as [_ Hcase].
  destruct Hcase as [[H1 H2]|[[km [pnr [raw [t1 [ch [_ [Hl2 _]]]]]]]|[km [t1 [ch [_ [_ [Hl2 _]]]]]]]].
  2:{ exfalso. exact (Hu km Hl2). }
  2:{ exfalso. exact (Hu km Hl2). }
  split; [eapply SegInv_untouched; [exact HS|congruence|exact H2|exact Hfs|exists []; symmetry; apply app_nil_r]|].
  split; [|split; [congruence|exact H2]].
  intros k0 Hk0.
  destruct (step_index_cases _ _ _ _ _ Hs) as [[k' [f [_ [E _]]]]|[[k' [raw [_ [_ [_ [E _]]]]]]|[_ [E _]]]]; rewrite E in Hk0.
  - cbn in Hk0. destruct (key_eqb k0 k'); [inversion Hk0; lia|exact (Hu k0 Hk0)].
  - cbn in Hk0. destruct (key_eqb k0 k'); [inversion Hk0; lia|exact (Hu k0 Hk0)].
  - exact (Hu k0 Hk0).
Qed.

(* --- the message that opens the next transfer for the key: transfer i is left alone and loses the binding *)
Lemma seg_step_close c pre o seg i k s m s' b :
  Inv c pre s -> SegInv c i k o seg s -> opens c k m = true -> step c s m = Ok (s', b) ->
  SegInv c i k o seg s' /\ unbound i s' /\ bound (length (s_transfers s)) k s'.
Proof.
  intros [HI _] HS Ho Hs. pose proof HS as [t [acc [Ht [Hk [Htk _]]]]].
  apply opens_spec in Ho. destruct Ho as [f Hf]. destruct (flst_not_flda _ _ _ _ Hf) as [Hnf Hcl].
  assert (Hl : (i < length (s_transfers s))%nat) by (apply nth_error_Some; rewrite Ht; discriminate).
  pose proof (fs_grow_ext _ _ _ (step_fs _ _ _ _ _ Hs)) as Hfs.
  assert (Hidx : s_idx s' = (k, length (s_transfers s)) :: s_idx s).
  { destruct (step_index_cases _ _ _ _ _ Hs) as [[k' [f' [Hf' [E _]]]]|[[k' [raw [_ [_ [Hn _]]]]]|[Hn _]]]; congruence. }
  destruct (step_at _ _ _ _ _ _ _ Hs Ht Htk) as [_ Hcase].
  destruct Hcase as [[H1 H2]|[[km [pnr [raw [t1 [ch [Hop _]]]]]]|[km [t1 [ch [Hc _]]]]]]; try congruence.
  split; [eapply SegInv_untouched; [exact HS|congruence|exact H2|exact Hfs|exists []; symmetry; apply app_nil_r]|].
  split.
  - intros k0 Hk0. rewrite Hidx in Hk0. cbn in Hk0. destruct (key_eqb k0 k) eqn:Ek; [inversion Hk0; lia|].
    assert (k0 = k) by (eapply key_of_bound; eassumption). subst. rewrite key_eqb_refl in Ek. discriminate.
  - unfold bound. rewrite Hidx. cbn. rewrite key_eqb_refl. reflexivity.
Qed.

(* ------------------------------------------------------------------ runs *)
Lemma seg_run_closed c : forall post pre o seg i k s s' rets,
  Inv c pre s -> SegInv c i k o seg s -> unbound i s -> run c s post = Ok (s', rets) ->
  SegInv c i k o seg s' /\ unbound i s' /\
  nth_error (s_transfers s') i = nth_error (s_transfers s) i /\
  lookup_nat i (s_completed s') = lookup_nat i (s_completed s).
Proof.
  induction post as [|m r IH]; intros pre o seg i k s s' rets HI HS Hu H; cbn in H.
  - inversion H; subst. auto.
  - destruct (step c s m) as [[s1 b]| |] eqn:Es; cbn [bind] in H; try discriminate.
    destruct (run c s1 r) as [[s2 bs0]| |] eqn:Er; cbn [bind] in H; try discriminate. inversion H; subst s2 rets.
    destruct (seg_step_closed _ _ _ _ _ _ _ _ _ _ HI HS Hu Es) as [HS1 [Hu1 [E1 E2]]].
    destruct (IH (pre ++ [m]) o seg i k s1 s' bs0 (step_inv _ _ _ _ _ _ Es HI) HS1 Hu1 Er) as [HS2 [Hu2 [E3 E4]]].
    split; [exact HS2|]. split; [exact Hu2|]. split; congruence.
Qed.

Lemma seg_run c : forall post pre o seg i k s s' rets,
  Inv c pre s -> SegInv c i k o seg s -> bound i k s -> run c s post = Ok (s', rets) ->
  SegInv c i k o (seg ++ own_part c k post) s' /\ (own_part c k post = post -> bound i k s').
Proof.
  induction post as [|m r IH]; intros pre o seg i k s s' rets HI HS Hb H; cbn in H.
  - inversion H; subst. cbn. rewrite app_nil_r. auto.
  - destruct (step c s m) as [[s1 b]| |] eqn:Es; cbn [bind] in H; try discriminate.
    destruct (run c s1 r) as [[s2 bs0]| |] eqn:Er; cbn [bind] in H; try discriminate. inversion H; subst s2 rets.
    pose proof (step_inv _ _ _ _ _ _ Es HI) as HI1. cbn [own_part]. destruct (opens c k m) eqn:Eo.
    + destruct (seg_step_close _ _ _ _ _ _ _ _ _ _ HI HS Eo Es) as [HS1 [Hu1 _]].
      destruct (seg_run_closed c r _ _ _ _ _ _ _ _ HI1 HS1 Hu1 Er) as [HS2 _].
      rewrite app_nil_r. split; [exact HS2|]. intros Hc. discriminate.
    + destruct (seg_step_open _ _ _ _ _ _ _ _ _ _ HI HS Hb Eo Es) as [HS1 Hb1].
      destruct (IH _ _ _ _ _ _ _ _ HI1 HS1 Hb1 Er) as [HS2 Hb2].
      replace (seg ++ m :: own_part c k r) with ((seg ++ [m]) ++ own_part c k r) by (rewrite <- app_assoc; reflexivity).
      split; [exact HS2|]. intros Hc. apply Hb2. inversion Hc as [Hc']. rewrite Hc'. exact Hc'.
Qed.

(* ------------------------------------------------------------------ the message that opens transfer number i *)
Lemma seg_create c pre s m s' b :
  Inv c pre s -> step c s m = Ok (s', b) -> length (s_transfers s') = S (length (s_transfers s)) ->
  exists k o, msg_key c m = Some k /\ SegInv c (length (s_transfers s)) k o [m] s' /\ bound (length (s_transfers s)) k s' /\
              match o with
              | Some (m0, f) => m0 = m /\ flst_of c m = Some (k, f)
              | None => flst_of c m = None /\ exists raw, flda_op c m = Some (k, (1, raw))
              end.
Proof.
  intros [HI _] H Hlen. unfold step in H. unfold msg_key, flst_of, flda_op. destruct (classify c m) eqn:Ec.
  - (* announcement *)
    unfold step_flst in H. cbn zeta.
    destruct ((0 <? f_nr (parse_flst (m_args m))) && (0 <? f_bs (parse_flst (m_args m)))) eqn:Econd; cbn [bind] in H.
    2:{ inversion H; subst. lia. }
    destruct (with_capacity _) as [cap| |] eqn:Ecap; cbn [bind] in H; try discriminate.
    match type of H with context [update_state (push_transfer s ?t0)] => set (t := t0) in H end.
    destruct (update_state (push_transfer s t)) as [s1| |] eqn:Eu; cbn [bind] in H; try discriminate.
    inversion H; subst s1 b; clear H.
    set (f := parse_flst (m_args m)) in *. set (k := (m_ecu m, m_lc m, f_serial f)) in *.
    apply andb_true_iff in Econd. destruct Econd as [En Eb]. apply N.ltb_lt in En, Eb.
    pose proof (update_state_shape _ _ Eu) as [E1 [E2 [E3 _]]]. cbn in E1, E2, E3.
    assert (Hf : flst_of c m = Some (k, f)).
    { unfold flst_of. rewrite Ec. cbn zeta. fold f. replace (0 <? f_nr f) with true by (symmetry; apply N.ltb_lt; exact En).
      replace (0 <? f_bs f) with true by (symmetry; apply N.ltb_lt; exact Eb). reflexivity. }
    assert (Htk : takes t = false) by reflexivity.
    exists k, (Some (m, f)). split; [reflexivity|]. split; [|split].
    + exists t, []. rewrite E1, nth_error_map, nth_error_app2 by lia. rewrite Nat.sub_diag. cbn [nth_error option_map].
      rewrite (ho_t_id _ Htk). split; [reflexivity|]. split; [reflexivity|]. split; [exact Htk|]. split.
      { unfold t. constructor; cbn; auto; try discriminate; try lia. apply sl_nil. }
      split.
      { split.
        - intros d Hd. exfalso. rewrite E3, lookup_nat_app in Hd.
          destruct (lookup_nat (length (s_transfers s)) (taken 0 (s_transfers s ++ [t]))) as [d0|] eqn:Ek.
          + apply lookup_taken in Ek. destruct Ek as [t0 [_ [Hn [Htk0 _]]]].
            rewrite Nat.sub_0_r, nth_error_app2, Nat.sub_diag in Hn by lia. cbn in Hn. inversion Hn; subst t0. congruence.
          + apply (inv_comp _ _ _ HI) in Hd. lia.
        - intros p Hp. discriminate. }
      cbn. split; [exact Hf|]. unfold AnnBy, t. cbn. repeat split; auto; try discriminate. constructor.
    + unfold bound. rewrite E2. cbn [lookup_key]. rewrite key_eqb_refl. reflexivity.
    + split; reflexivity.
  - (* a first package for an unknown key *)
    unfold step_flda in H. destruct (flda_args (m_args m)) as [[[serial pnr] raw]|] eqn:Ea; cbn [bind] in H.
    2:{ inversion H; subst. lia. }
    set (k := (m_ecu m, m_lc m, serial)) in *.
    destruct (flda_apply c s k pnr raw) as [s1| |] eqn:Ef; cbn [bind] in H; try discriminate.
    inversion H; subst s1 b; clear H. unfold flda_apply in Ef.
    destruct (lookup_key k (s_idx s)) as [j|] eqn:El.
    { exfalso. destruct (nth_error (s_transfers s) j) as [tj|]; [|discriminate].
      destruct (add_flda tj pnr raw) as [[t' ch]| |]; cbn [bind] in Ef; try discriminate. destruct ch.
      - apply after_change_shape in Ef. lia.
      - inversion Ef; subst s'. cbn in Hlen. rewrite replace_nth_length in Hlen. lia. }
    destruct (pnr =? 1) eqn:Ep.
    2:{ inversion Ef; subst. lia. }
    apply N.eqb_eq in Ep. subst pnr.
    destruct (with_capacity _) as [cap| |] eqn:Ecap; cbn [bind] in Ef; try discriminate.
    match type of Ef with context [add_flda ?t0 1 raw] => set (t := t0) in Ef end.
    destruct (add_flda t 1 raw) as [[t' ch]| |] eqn:Eadd; cbn [bind] in Ef; try discriminate.
    assert (T1 : TLoc [] t []).
    { unfold t. constructor; cbn; auto; try discriminate; try lia. apply sl_nil. intros _. unfold u64max. lia. }
    assert (T4 : Prov c [] t []).
    { right. unfold t, Recovered. cbn. repeat split; auto; try discriminate. }
    destruct (add_flda_TLoc _ _ _ _ _ _ _ T1 Eadd) as [acc' [T1' HP]]. cbn [app] in T1'.
    pose proof (Recovered_of_Prov _ _ _ (Prov_add_flda _ _ _ _ _ _ _ _ _ T4 HP)) as T4'.
    assert (Hk' : t_key t' = k) by (rewrite (fp_key _ _ _ _ _ _ _ HP); reflexivity).
    pose proof (update_state_shape _ _ Ef) as [E1 [E2 [E3 _]]]. cbn in E1, E2, E3.
    exists k, None. split; [reflexivity|]. split; [|split].
    + exists (ho_t t'), acc'. rewrite E1, nth_error_map, nth_error_app2 by lia. rewrite Nat.sub_diag. cbn [nth_error option_map].
      destruct (ho_t_static t') as [G1 [G2 [G3 _]]].
      split; [reflexivity|]. split; [congruence|]. split; [apply takes_ho_t|]. split.
      { apply TLoc_ho_t. replace (ops_for c k [m]) with [(1, raw)]; [exact T1'|].
        cbn. unfold ops_of, flda_op. rewrite Ec, Ea. fold k. rewrite key_eqb_refl. reflexivity. }
      split.
      { split.
        - intros d Hd. rewrite E3, lookup_nat_app in Hd.
          destruct (lookup_nat (length (s_transfers s)) (taken 0 (s_transfers s ++ [t']))) as [d0|] eqn:Ek.
          + inversion Hd; subst d0. apply lookup_taken in Ek. destruct Ek as [t0 [_ [Hn [Htk0 ->]]]].
            rewrite Nat.sub_0_r, nth_error_app2, Nat.sub_diag in Hn by lia. cbn in Hn. inversion Hn; subst t0.
            unfold takes in Htk0. apply andb_true_iff in Htk0. destruct Htk0 as [Hne Hc1]. apply tstate_eqb_spec in Hc1.
            rewrite G2. split; [exact Hc1|].
            apply negb_true_iff, bytes_eqb_nil_false in Hne. destruct (tl_d2 _ _ _ T1') as [Hd0|Hd0]; [contradiction|exact Hd0].
          + exfalso. apply (inv_comp _ _ _ HI) in Hd. lia.
        - intros p Hp. rewrite G3, (fp_saved _ _ _ _ _ _ _ HP) in Hp. discriminate. }
      cbn. eapply (Orig_static c None); [apply ho_t_same_static|exact T4'].
    + unfold bound. rewrite E2. cbn [lookup_key]. rewrite Hk', key_eqb_refl. reflexivity.
    + split; [reflexivity|]. exists raw. reflexivity.
  - (* end marker: never opens a transfer *)
    exfalso. unfold step_flfi in H. destruct (flfi_apply _ _ _) as [s1| |] eqn:Ef; cbn [bind] in H; try discriminate.
    inversion H; subst s1 b. unfold flfi_apply in Ef. destruct (lookup_key _ _) as [j|]; [|inversion Ef; subst; lia].
    destruct (nth_error _ _) as [tj|]; [|discriminate].
    destruct (check_finished tj true) as [[t' ch]| |]; cbn [bind] in Ef; try discriminate. destruct ch.
    + apply after_change_shape in Ef. lia.
    + inversion Ef; subst s'. cbn in Hlen. rewrite replace_nth_length in Hlen. lia.
  - inversion H; subst. lia.
Qed.

(* ------------------------------------------------------------------ theorems *)
(* The transfer opened by message m (an announcement, or a first package for an unknown key) only ever accepts
   packages from ITS part of the log: m itself and what follows up to the next announcement for its key. *)
Theorem own_segment c fs pre m post s0 r0 s1 b s rets :
  run c (init_st fs) pre = Ok (s0, r0) -> step c s0 m = Ok (s1, b) ->
  length (s_transfers s1) = S (length (s_transfers s0)) ->
  run c (init_st fs) (pre ++ m :: post) = Ok (s, rets) ->
  exists k o, msg_key c m = Some k /\
    SegInv c (length (s_transfers s0)) k o (m :: own_part c k post) s /\
    (own_part c k post = post -> bound (length (s_transfers s0)) k s) /\
    match o with
    | Some (m0, f) => m0 = m /\ flst_of c m = Some (k, f)
    | None => flst_of c m = None /\ exists raw, flda_op c m = Some (k, (1, raw))
    end.
Proof.
  intros Hpre Hs Hlen Hrun.
  destruct (run_app _ _ _ _ _ _ Hrun) as [s0' [r1 [r2 [Hpre' Hrest]]]]. rewrite Hpre in Hpre'. inversion Hpre'; subst s0' r1.
  cbn in Hrest. rewrite Hs in Hrest. cbn [bind] in Hrest.
  destruct (run c s1 post) as [[s3 r3]| |] eqn:Er; cbn [bind] in Hrest; try discriminate. inversion Hrest; subst s3 r2.
  pose proof (run_Inv _ _ _ _ _ Hpre) as HI0.
  destruct (seg_create _ _ _ _ _ _ HI0 Hs Hlen) as [k [o [Hk [HS [Hb Ho]]]]].
  destruct (seg_run c post _ _ _ _ _ _ _ _ (step_inv _ _ _ _ _ _ Hs HI0) HS Hb Er) as [HS' Hb'].
  exists k, o. split; [exact Hk|]. split; [exact HS'|]. split; [exact Hb'|exact Ho].
Qed.

(* an announcement always opens a transfer *)
Lemma flst_opens c s m s' b k f :
  flst_of c m = Some (k, f) -> step c s m = Ok (s', b) -> length (s_transfers s') = S (length (s_transfers s)).
Proof.
  intros Hf Hs. destruct (step_index_cases _ _ _ _ _ Hs) as [[k' [f' [_ [_ E]]]]|[[k' [raw [_ [_ [Hn _]]]]]|[Hn _]]]; congruence.
Qed.

(* The announced transfer: if it is Complete at the end of the log, it consists of the packages 1..n found AFTER
   its announcement and BEFORE the next announcement for its key -- in this order, with the announced sizes --
   and what the save command and the auto-save write is their concatenation. *)
Theorem complete_from_own_announcement c fs pre m post k f s rets :
  flst_of c m = Some (k, f) ->
  run c (init_st fs) (pre ++ m :: post) = Ok (s, rets) ->
  exists s0 r0, run c (init_st fs) pre = Ok (s0, r0) /\
  exists t, nth_error (s_transfers s) (length (s_transfers s0)) = Some t /\ t_key t = k /\ t_name t = f_name f /\ t_nr t = f_nr f /\
    (t_state t = Complete ->
       exists pk : list (N * list N),
         sublist pk (ops_for c k (own_part c k post)) /\
         map fst pk = nums 1 (length pk) /\ N.of_nat (length pk) = f_nr f /\ sizes_ok (f_bs f) (f_nr f) pk /\
         (f_size f = 0 \/ f_size f = lenN (concat (map snd pk))) /\
         t_size t = lenN (concat (map snd pk)) /\
         (forall d, saved_bytes s (length (s_transfers s0)) = Some d -> d = concat (map snd pk)) /\
         (forall p, t_saved t = Some p -> lookup_path p (s_fs s) = Some (concat (map snd pk))) /\
         (t_data t = [] \/ t_data t = concat (map snd pk))).
Proof.
  intros Hf Hrun. destruct (run_app _ _ _ _ _ _ Hrun) as [s0 [r1 [r2 [Hpre Hrest]]]].
  exists s0, r1. split; [exact Hpre|].
  pose proof Hrest as Hrest'. cbn in Hrest'. destruct (step c s0 m) as [[s1 b]| |] eqn:Es; cbn [bind] in Hrest'; try discriminate.
  clear Hrest'. pose proof (flst_opens _ _ _ _ _ _ _ Hf Es) as Hlen.
  destruct (own_segment _ _ _ _ _ _ _ _ _ _ _ Hpre Es Hlen Hrun) as [k' [o [_ [[t [acc [Ht [Hk [_ [HT [[T2 T3] HO]]]]]]] [_ Ho]]]]].
  destruct o as [[m0 f']|]; [|destruct Ho as [Hn _]; congruence].
  destruct Ho as [-> Hf']. assert (Hkf : k' = k /\ f' = f) by (rewrite Hf in Hf'; inversion Hf'; auto).
  destruct Hkf as [-> ->]. clear Hf'.
  cbn in HO. destruct HO as [_ [A3 [A4 [A5 [A6 [A7 [A8 [A9 [A10 A11]]]]]]]]].
  exists t. split; [exact Ht|]. split; [exact Hk|]. split; [exact A3|]. split; [exact A4|].
  intros Hc. exists acc. destruct HT as [S1 S2 S3 S4 S5 S6 S7 S8 S9 S10 S11].
  destruct (A10 Hc) as [B1 [B2 B3]].
  assert (Hops : ops_for c k (m :: own_part c k post) = ops_for c k (own_part c k post)).
  { cbn. unfold ops_of. destruct (flst_not_flda _ _ _ _ Hf) as [-> _]. reflexivity. }
  rewrite Hops in S1.
  assert (Hsz : t_size t = lenN (concat (map snd acc))) by congruence.
  split; [exact S1|]. split; [exact S2|]. split; [lia|]. split; [exact A11|].
  split; [rewrite <- Hsz; exact B1|]. split; [exact Hsz|].
  split; [intros d Hd; apply (T2 d Hd)|]. split; [intros p Hp; apply (T3 p Hp)|exact S9].
Qed.

(* After an announcement for k, and as long as no further announcement for k follows, the key is bound to the transfer
   this announcement opened (the NEWEST one for the key, whatever older transfers with the same key exist): that is the
   transfer the following packages and the end marker for k are applied to. *)
Theorem reannounce_routes_to_newest c fs pre m seg k f s rets :
  flst_of c m = Some (k, f) -> Forall (fun x => opens c k x = false) seg ->
  run c (init_st fs) (pre ++ m :: seg) = Ok (s, rets) ->
  exists s0 r0, run c (init_st fs) pre = Ok (s0, r0) /\
    lookup_key k (s_idx s) = Some (length (s_transfers s0)) /\
    exists t, nth_error (s_transfers s) (length (s_transfers s0)) = Some t /\ t_key t = k /\ t_name t = f_name f.
Proof.
  intros Hf Hseg Hrun. destruct (run_app _ _ _ _ _ _ Hrun) as [s0 [r1 [r2 [Hpre Hrest]]]].
  exists s0, r1. split; [exact Hpre|].
  pose proof Hrest as Hrest'. cbn in Hrest'. destruct (step c s0 m) as [[s1 b]| |] eqn:Es; cbn [bind] in Hrest'; try discriminate.
  clear Hrest'. pose proof (flst_opens _ _ _ _ _ _ _ Hf Es) as Hlen.
  destruct (own_segment _ _ _ _ _ _ _ _ _ _ _ Hpre Es Hlen Hrun) as [k' [o [_ [[t [acc [Ht [Hk [_ [_ [_ HO]]]]]]] [Hb Ho]]]]].
  destruct o as [[m0 f']|]; [|destruct Ho as [Hn _]; congruence].
  destruct Ho as [-> Hf']. assert (Hkf : k' = k /\ f' = f) by (rewrite Hf in Hf'; inversion Hf'; auto).
  destruct Hkf as [-> ->]. clear Hf'.
  split; [apply Hb; apply own_part_all; exact Hseg|].
  exists t. cbn in HO. destruct HO as [_ [A3 _]]. auto.
Qed.

(* Once the key of a transfer is announced again, the older transfer never changes any more: not its state, not its
   counters or data, not what the save command delivers for it -- whatever follows in the log. *)
Theorem superseded_frozen c fs pre0 m0 mid m post k f s rets :
  run c (init_st fs) (pre0 ++ m0 :: mid ++ m :: post) = Ok (s, rets) ->
  (exists s0 r0 s1 b, run c (init_st fs) pre0 = Ok (s0, r0) /\ step c s0 m0 = Ok (s1, b) /\
                      length (s_transfers s1) = S (length (s_transfers s0)) /\ msg_key c m0 = Some k) ->
  flst_of c m = Some (k, f) ->
  exists s0 r0 s2 r2,
    run c (init_st fs) pre0 = Ok (s0, r0) /\ run c (init_st fs) (pre0 ++ m0 :: mid ++ [m]) = Ok (s2, r2) /\
    nth_error (s_transfers s) (length (s_transfers s0)) = nth_error (s_transfers s2) (length (s_transfers s0)) /\
    saved_bytes s (length (s_transfers s0)) = saved_bytes s2 (length (s_transfers s0)) /\
    lookup_key k (s_idx s2) <> Some (length (s_transfers s0)) /\ lookup_key k (s_idx s) <> Some (length (s_transfers s0)).
Proof.
  intros Hrun [s0 [r0 [s1 [b [Hpre [Hs [Hlen Hmk]]]]]]] Hf.
  exists s0, r0.
  replace (pre0 ++ m0 :: mid ++ m :: post) with ((pre0 ++ m0 :: mid ++ [m]) ++ post) in Hrun
    by (rewrite <- !app_assoc; cbn; rewrite <- app_assoc; reflexivity).
  destruct (run_app _ _ _ _ _ _ Hrun) as [s2 [r2 [r3 [Hrun2 Hrest]]]].
  exists s2, r2. split; [exact Hpre|]. split; [exact Hrun2|].
  (* the state just before the re-announcement *)
  replace (pre0 ++ m0 :: mid ++ [m]) with ((pre0 ++ m0 :: mid) ++ [m]) in Hrun2 by (rewrite <- app_assoc; reflexivity).
  destruct (run_app _ _ _ _ _ _ Hrun2) as [sa [ra [rb [Hruna Hm]]]].
  cbn in Hm. destruct (step c sa m) as [[sb bb]| |] eqn:Esm; cbn [bind] in Hm; try discriminate. inversion Hm; subst sb rb. clear Hm.
  destruct (own_segment _ _ _ _ _ _ _ _ _ _ _ Hpre Hs Hlen Hruna) as [k' [o [Hk' [HS _]]]].
  rewrite Hmk in Hk'. inversion Hk'; subst k'. clear Hk'.
  assert (Ho : opens c k m = true) by (apply opens_spec; eauto).
  pose proof (run_Inv _ _ _ _ _ Hruna) as HIa.
  destruct (seg_step_close _ _ _ _ _ _ _ _ _ _ HIa HS Ho Esm) as [HS2 [Hu2 _]].
  destruct (seg_run_closed c post _ _ _ _ _ _ _ _ (step_inv _ _ _ _ _ _ Esm HIa) HS2 Hu2 Hrest) as [_ [Hu3 [E1 E2]]].
  split; [exact E1|]. split; [exact E2|]. split; [apply Hu2|apply Hu3].
Qed.

(* the same for an older transfer that was itself opened by an announcement *)
Theorem superseded_frozen_announced c fs pre0 m0 mid m post k f0 f s rets :
  flst_of c m0 = Some (k, f0) -> flst_of c m = Some (k, f) ->
  run c (init_st fs) (pre0 ++ m0 :: mid ++ m :: post) = Ok (s, rets) ->
  exists s0 r0 s2 r2,
    run c (init_st fs) pre0 = Ok (s0, r0) /\ run c (init_st fs) (pre0 ++ m0 :: mid ++ [m]) = Ok (s2, r2) /\
    nth_error (s_transfers s) (length (s_transfers s0)) = nth_error (s_transfers s2) (length (s_transfers s0)) /\
    saved_bytes s (length (s_transfers s0)) = saved_bytes s2 (length (s_transfers s0)) /\
    lookup_key k (s_idx s) <> Some (length (s_transfers s0)).
Proof.
  intros Hf0 Hf Hrun. destruct (run_app _ _ _ _ _ _ Hrun) as [s0 [r1 [r2 [Hpre Hrest]]]].
  cbn in Hrest. destruct (step c s0 m0) as [[s1 b]| |] eqn:Es; cbn [bind] in Hrest; try discriminate.
  assert (Hmk : msg_key c m0 = Some k).
  { unfold flst_of in Hf0. unfold msg_key. destruct (classify c m0); try discriminate. cbn zeta in Hf0.
    destruct (_ && _); [|discriminate]. inversion Hf0. reflexivity. }
  destruct (superseded_frozen c fs pre0 m0 mid m post k f s rets Hrun) as [s0' [r0' [s2 [r2' [H1 [H2 [H3 [H4 [_ H5]]]]]]]]].
  - exists s0, r1, s1, b. split; [exact Hpre|]. split; [exact Es|]. split; [exact (flst_opens _ _ _ _ _ _ _ Hf0 Es)|exact Hmk].
  - exact Hf.
  - rewrite Hpre in H1. inversion H1; subst s0' r0'. exists s0, r1, s2, r2'. auto.
Qed.
